package c14

import (
	"fmt"
	"math"
	"strconv"

	ad "github.com/pbenner/autodiff"
	st "github.com/pbenner/autodiff/statistics"

	"verifharness/internal/fw"
	"verifharness/internal/prng"
)

/* encoding helpers
 * -------------------------------------------------------------------------- */

func hx(v float64) string { return strconv.FormatFloat(v, 'x', -1, 64) }

func hxs(v []float64) []string {
	r := make([]string, len(v))
	for i := range v {
		r[i] = hx(v[i])
	}
	return r
}

func short(s string) string {
	if len(s) > 160 {
		return s[:160]
	}
	return s
}

type scalarType struct {
	name string
	t    ad.ScalarType
}

var stypes = []scalarType{{"Float64", ad.Float64Type}, {"Real64", ad.Real64Type}}

// arg wraps an evaluation point in the scalar type that goes with the
// parameter type: a constant for Float64-held, a Real64 for Real64-held
// parameters.
func arg(t ad.ScalarType, x float64) ad.ConstScalar {
	if t == ad.Real64Type {
		return ad.NewReal64(x)
	}
	return ad.ConstFloat64(x)
}

// evalLP evaluates LogPdf into a fresh result scalar and renders the outcome:
// a hex float, "err:<message>" or "panic:<frame>:<message>".
func evalLP(d st.ScalarPdf, t ad.ScalarType, x float64) string {
	r := ad.NewScalar(t, 0.0)
	var err error
	if p := fw.Call(func() { err = d.LogPdf(r, arg(t, x)) }); p != nil {
		return "panic:" + p.Frame + ":" + short(p.Msg)
	}
	if err != nil {
		return "err:" + short(err.Error())
	}
	return hx(r.GetFloat64())
}

func build(f *family, t ad.ScalarType, p []float64) (d st.ScalarPdf, err error, pn *fw.Panic) {
	pn = fw.Call(func() { d, err = f.build(t, p) })
	return
}

/* evaluation points
 * -------------------------------------------------------------------------- */

func isInf(v float64) bool { return math.IsInf(v, 0) }

const minNormal = 1e-280 // smallest magnitude of an evaluation point (products with parameters stay normal)

func noSubnormal(v float64) float64 {
	if v != 0 && math.Abs(v) < minNormal {
		return math.Copysign(minNormal, v)
	}
	return v
}

func contPoints(r *prng.Rand, lo, hi, c, s float64, n int) []float64 {
	var xs []float64
	add := func(v float64) {
		if v != 0 && math.Abs(v) < minNormal { // no subnormal evaluation points
			v = math.Copysign(minNormal, v)
		}
		if !math.IsNaN(v) && !isInf(v) {
			xs = append(xs, v)
		}
	}
	width := s
	if !isInf(lo) && !isInf(hi) {
		width = hi - lo
	}
	inside := func(v float64) float64 { // fold into the support
		if !isInf(lo) && v <= lo {
			v = lo + math.Abs(lo-v) + width*1e-3
		}
		if !isInf(hi) && v >= hi {
			if !isInf(lo) {
				v = lo + (hi-lo)*r.Float64()
			} else {
				v = hi - math.Abs(v-hi) - width*1e-3
			}
		}
		return v
	}
	// bulk and tails
	for i := 0; i < n; i++ {
		switch r.Intn(4) {
		case 0:
			sg := 1.0
			if r.Bool() {
				sg = -1
			}
			add(inside(c + sg*s*r.LogUniform(5, 60)))
		default:
			add(inside(c + s*r.Norm()*pick(r, 0.3, 1, 3)))
		}
	}
	add(inside(c))
	// boundary, just inside and outside
	for k, b := range []float64{lo, hi} {
		if isInf(b) {
			continue
		}
		in, out := 1.0, -1.0
		if k == 1 {
			in, out = -1, 1
		}
		add(b)
		add(math.Nextafter(b, b+in))
		add(b + in*width*r.LogUniform(1e-12, 1e-2))
		add(math.Nextafter(b, b+out))
		add(b + out*width*r.LogUniform(1e-9, 100))
		add(b + out*s*r.LogUniform(1e-3, 1e3))
	}
	if lo > 0 {
		add(0)
		add(-lo)
		add(lo * r.Float64())
	}
	if lo == 0 {
		add(-r.LogUniform(1e-300, 1e-10))
	}
	return xs
}

func discPoints(r *prng.Rand, lo, hi, c, s float64, n int) []float64 {
	var xs []float64
	add := func(v float64) { xs = append(xs, v) }
	clip := func(v float64) float64 {
		v = math.Round(v)
		if v < lo {
			v = lo + math.Mod(lo-v, 5)
		}
		if v > hi {
			v = hi - math.Mod(v-hi, math.Max(1, math.Min(hi-lo+1, 5)))
		}
		if v < lo {
			v = lo
		}
		return v
	}
	for i := 0; i < n; i++ {
		switch r.Intn(4) {
		case 0:
			add(clip(c + s*r.LogUniform(5, 60)))
		default:
			add(clip(c + s*r.Norm()*pick(r, 0.3, 1, 3)))
		}
	}
	add(lo)
	add(lo + 1)
	add(lo - 1)
	add(lo - float64(r.Range(2, 50)))
	if !isInf(hi) {
		add(hi)
		add(hi + 1)
		add(hi + float64(r.Range(2, 50)))
	}
	// non-integers inside and outside the range
	add(clip(c) + pick(r, 0.5, 0.25, 0.75))
	add(lo + r.Float64()*0.999 + 1e-3)
	add(lo - 0.5)
	return xs
}

func points(f *family, r *prng.Rand, p []float64, n int) []float64 {
	lo, hi, disc := f.support(p)
	c, s := f.center(p)
	if disc {
		return discPoints(r, lo, hi, c, s, n)
	}
	xs := contPoints(r, lo, hi, c, s, n)
	if f.thetaSpace {
		// the argument is log(theta): theta = 0, a boundary point of the Beta
		// support, is x = -Inf in this parametrisation (theta = 1 is x = 0 = hi)
		xs = append(xs, math.Inf(-1), -1e300, -745.2)
	}
	return xs
}

/* monitor: pointwise LogPdf (formula / support / type)
 * -------------------------------------------------------------------------- */

// mutation describes how an object that should represent the family with the
// parameters p is obtained by a public mutator (SetParameters, SetN, ...)
// from an object that was constructed with other parameters.
type mutation struct {
	name string
	mk   func(t ad.ScalarType) (st.ScalarPdf, error)
}

// obtain builds the distribution of a case: by the constructor, or through a
// mutator.
func obtain(f *family, t ad.ScalarType, p []float64, via *mutation) (d st.ScalarPdf, err error, pn *fw.Panic) {
	if via == nil {
		return build(f, t, p)
	}
	pn = fw.Call(func() { d, err = via.mk(t) })
	return
}

func famLabel(f *family, via *mutation) string {
	if via == nil {
		return f.name
	}
	return f.name + "." + via.name
}

func ptsCase(cs *fw.Case, f *family, p []float64, xs []float64) { ptsCaseVia(cs, f, p, xs, nil) }

func ptsCaseVia(cs *fw.Case, f *family, p []float64, xs []float64, via *mutation) {
	pcl := f.pclass(p)
	ev := map[string]any{"k": "pts", "fam": f.name, "pclass": pcl, "params": hxs(p), "x": hxs(xs)}
	if via != nil {
		ev["via"] = via.name
	}
	for _, ty := range stypes {
		d, err, pn := obtain(f, ty.t, p, via)
		if via != nil && (pn != nil || err != nil || d == nil) {
			cs.Violation(fmt.Sprintf("C14|%s|%s|mutate|roundtrip", famLabel(f, via), pcl),
				fmt.Sprintf("%s of %s to the valid parameters %v fails (%s): %v %v", via.name, f.name, p, ty.name, err, pn),
				map[string]any{"family": f.name, "params": p, "type": ty.name, "via": via.name})
			return
		}
		if pn != nil || err != nil || d == nil {
			msg := ""
			if pn != nil {
				msg = "panic: " + pn.Msg
			} else if err != nil {
				msg = err.Error()
			}
			cs.Violation(fmt.Sprintf("C14|%s|%s|valid-rejected|constructor", f.name, pcl),
				fmt.Sprintf("constructor of %s rejects the valid parameter vector %v (%s): %s", f.name, p, ty.name, msg),
				map[string]any{"family": f.name, "params": p, "type": ty.name})
			return
		}
		if d.ScalarType() != ty.t {
			cs.Violation(fmt.Sprintf("C14|%s|%s|-|type", f.name, pcl),
				fmt.Sprintf("%s built from %s parameters reports ScalarType %v", f.name, ty.name, d.ScalarType()),
				map[string]any{"family": f.name, "params": p, "type": ty.name})
		}
		vals := make([]string, len(xs))
		for i, x := range xs {
			vals[i] = evalLP(d, ty.t, x)
		}
		ev["lp"+ty.name] = vals
		cs.Cover("pts:" + famLabel(f, via) + "/" + ty.name)
	}
	cs.C.Data(ev)
	cs.Cover("set:family:" + f.name)
	cs.C.Cover("lp-evaluations", int64(2*len(xs)))
	cs.Nontrivial("pts", famLabel(f, via), fmtParams(p), fmt.Sprint(xs))
}

type famParams struct {
	f *family
	p []float64
}

func directedList() []famParams {
	var l []famParams
	for _, f := range families {
		for _, p := range f.directed {
			l = append(l, famParams{f, p})
		}
	}
	return l
}

/* monitor: normalisation
 * -------------------------------------------------------------------------- */

type node struct{ x, lw float64 }

const (
	panelFinite = iota
	panelRightInf
	panelLeftInf
)

const quadH = 1.0 / 8

// tanhSinh returns the nodes x and log-weights of the double exponential rule
// with step quadH on a panel.  Distances from the end points are computed
// directly (never as differences), so that an end point at zero is resolved
// down to 1e-300 and infinite tails up to 1e300.
func tanhSinh(kind int, a, b, s float64, logTheta bool) []node {
	var ns []node
	K := int(math.Floor(6.1 / quadH))
	for k := -K; k <= K; k++ {
		t := float64(k) * quadH
		u2 := math.Pi * math.Sinh(t) // 2u
		if math.Abs(u2) > 700 {
			continue
		}
		// p = 1/(1+exp(-2u)), q = 1-p = 1/(1+exp(2u))
		var lp, lq float64
		if u2 >= 0 {
			lp = -math.Log1p(math.Exp(-u2))
			lq = -u2 + lp
		} else {
			lq = -math.Log1p(math.Exp(u2))
			lp = u2 + lq
		}
		p, q := math.Exp(lp), math.Exp(lq)
		ldp := math.Log(math.Pi*math.Cosh(t)) + lp + lq + math.Log(quadH)
		var x, lw float64
		switch kind {
		case panelFinite:
			if p <= 0.5 {
				x = a + (b-a)*p
			} else {
				x = b - (b-a)*q
			}
			lw = ldp + math.Log(b-a)
			if logTheta {
				// the argument handed to the library is log(theta)
				switch {
				case a == 0:
					x = math.Log(b) + lp
				case b == 1 && p > 0.5:
					x = math.Log1p(-(1 - a) * q)
				default:
					x = math.Log(x)
				}
			}
		case panelRightInf:
			x = a + s*math.Exp(lp-lq)
			lw = ldp + math.Log(s) - 2*lq
		case panelLeftInf:
			x = b - s*math.Exp(lq-lp)
			lw = ldp + math.Log(s) - 2*lp
		}
		if math.IsInf(x, 0) || math.IsNaN(x) {
			continue
		}
		ns = append(ns, node{x, lw})
	}
	return ns
}

// quadNodes splits the support at the centre, at centre +- {2,8,32} scales
// and at the end points of the support and returns the nodes of all panels.
func quadNodes(f *family, p []float64) ([]node, int) {
	lo, hi, _ := f.support(p)
	c, s := f.center(p)
	if f.thetaSpace {
		lo, hi = 0, 1
		c = math.Exp(c)
		s = s * c
	}
	var br []float64
	for _, k := range []float64{-32, -8, -2, 0, 2, 8, 32} {
		v := c + k*s
		if v > lo && v < hi && !isInf(v) {
			br = append(br, v)
		}
	}
	if len(br) == 0 {
		br = append(br, lo+(hi-lo)/2)
		if isInf(br[0]) || math.IsNaN(br[0]) {
			br[0] = c
		}
	}
	var ns []node
	panels := 0
	if isInf(lo) {
		ns = append(ns, tanhSinh(panelLeftInf, 0, br[0], s, false)...)
	} else {
		ns = append(ns, tanhSinh(panelFinite, lo, br[0], s, f.thetaSpace)...)
	}
	panels++
	for i := 0; i+1 < len(br); i++ {
		ns = append(ns, tanhSinh(panelFinite, br[i], br[i+1], s, f.thetaSpace)...)
		panels++
	}
	last := br[len(br)-1]
	if isInf(hi) {
		ns = append(ns, tanhSinh(panelRightInf, last, 0, s, false)...)
	} else {
		ns = append(ns, tanhSinh(panelFinite, last, hi, s, f.thetaSpace)...)
	}
	panels++
	return ns, panels
}

func quadCase(cs *fw.Case, f *family, p []float64) { quadCaseVia(cs, f, p, nil) }

func quadCaseVia(cs *fw.Case, f *family, p []float64, via *mutation) {
	pcl := f.pclass(p)
	lo, hi, disc := f.support(p)
	ty := stypes[cs.Index%2]
	d, err, pn := obtain(f, ty.t, p, via)
	if pn != nil || err != nil || d == nil {
		cs.Skip("constructor-failed") // reported by the pts monitor
		return
	}
	ev := map[string]any{"k": "quad", "fam": f.name, "pclass": pcl, "params": hxs(p), "type": ty.name}
	if via != nil {
		ev["via"] = via.name
	}
	if disc {
		c, s := f.center(p)
		K := hi
		if isInf(hi) {
			K = math.Ceil(c + 45*s + 60)
		}
		var xs []float64
		for k := lo; k <= K; k++ {
			xs = append(xs, k)
		}
		vals := make([]string, len(xs))
		for i, x := range xs {
			vals[i] = evalLP(d, ty.t, x)
		}
		ev["disc"] = true
		ev["x"] = hxs(xs)
		ev["lp"] = vals
		cs.C.Cover("quad-evaluations", int64(len(xs)))
	} else {
		ns, panels := quadNodes(f, p)
		xs := make([]string, len(ns))
		lw := make([]string, len(ns))
		vals := make([]string, len(ns))
		for i, n := range ns {
			xs[i] = hx(n.x)
			lw[i] = hx(n.lw)
			vals[i] = evalLP(d, ty.t, n.x)
		}
		ev["disc"] = false
		ev["theta"] = f.thetaSpace
		ev["x"] = xs
		ev["lw"] = lw
		ev["lp"] = vals
		ev["panels"] = panels
		cs.C.Cover("quad-evaluations", int64(len(ns)))
	}
	cs.C.Data(ev)
	cs.Cover("quad:" + famLabel(f, via))
	cs.Nontrivial("quad", famLabel(f, via), fmtParams(p), ty.name)
}

/* monitor: cumulative distribution functions
 * -------------------------------------------------------------------------- */

type cdfFn func(r ad.Scalar, x ad.ConstScalar) error

type stdCdf interface {
	Cdf(r ad.Scalar, x ad.ConstScalar) error
	LogCdf(r ad.Scalar, x ad.ConstScalar) error
}

// vecCdf is the shape of LaplaceDistribution.Cdf / LogCdf on the unchanged
// tree (the argument is a Vector of length one).
type vecCdf interface {
	Cdf(r ad.Scalar, x ad.Vector) error
	LogCdf(r ad.Scalar, x ad.Vector) error
}

// cdfFns returns Cdf and LogCdf of a distribution that offers them.
func cdfFns(d st.ScalarPdf) (cdf, lcdf cdfFn) {
	switch v := d.(type) {
	case stdCdf:
		return v.Cdf, v.LogCdf
	case vecCdf:
		wrap := func(x ad.ConstScalar) ad.Vector {
			t := x.Type()
			if t == ad.ConstFloat64Type {
				t = ad.Float64Type
			}
			w := ad.NullDenseVector(t, 1)
			w.At(0).Set(x)
			return w
		}
		return func(r ad.Scalar, x ad.ConstScalar) error { return v.Cdf(r, wrap(x)) },
			func(r ad.Scalar, x ad.ConstScalar) error { return v.LogCdf(r, wrap(x)) }
	}
	return nil, nil
}

func hasCdf(f *family) bool {
	d, _, _ := build(f, ad.Float64Type, f.directed[0])
	if d == nil {
		return false
	}
	c, _ := cdfFns(d)
	return c != nil
}

func evalFn(fn cdfFn, t ad.ScalarType, x ad.ConstScalar) (string, ad.Scalar) {
	r := ad.NewScalar(t, 0.0)
	var err error
	if p := fw.Call(func() { err = fn(r, x) }); p != nil {
		return "panic:" + p.Frame + ":" + short(p.Msg), nil
	}
	if err != nil {
		return "err:" + short(err.Error()), nil
	}
	return hx(r.GetFloat64()), r
}

func cdfGrid(f *family, r *prng.Rand, p []float64) []float64 {
	lo, hi, disc := f.support(p)
	c, s := f.center(p)
	var xs []float64
	if disc {
		// the CDF of a discrete family is the step function sum_{j <= floor(x)} pmf(j):
		// integers and non-integer abscissae between, below and above the atoms
		for k := lo - 2; k <= hi+2; k++ {
			xs = append(xs, k-0.5, k-1e-9, k, k+1e-9, k+pick(r, 0.25, 0.5, 0.75))
		}
		xs = append(xs, lo-0.5, lo-1e-9, lo-1+1e-9, lo-r.Float64(), hi+0.5, hi+r.LogUniform(1e-6, 50), lo-r.LogUniform(1, 50))
		sortFloats(xs)
		return xs
	}
	a, b := c-12*s, c+40*s
	if !isInf(lo) {
		a = lo
		xs = append(xs, lo-s*1e3, lo-s, lo-s*1e-6, math.Nextafter(lo, -inf), lo, math.Nextafter(lo, inf))
	} else {
		xs = append(xs, c-1e3*s, c-40*s)
	}
	if !isInf(hi) {
		b = hi
	}
	// interior: a regular grid plus random points, sorted
	var in []float64
	for i := 1; i < 24; i++ {
		in = append(in, a+(b-a)*float64(i)/24)
	}
	for i := 0; i < 12; i++ {
		v := c + s*r.Norm()*pick(r, 0.5, 2, 6)
		if v > a && v < b {
			in = append(in, v)
		}
	}
	if !isInf(lo) {
		in = append(in, lo+s*r.LogUniform(1e-9, 1e-2))
	}
	if !isInf(hi) {
		in = append(in, hi-s*r.LogUniform(1e-9, 1e-2))
	}
	sortFloats(in)
	xs = append(xs, in...)
	if !isInf(hi) {
		xs = append(xs, math.Nextafter(hi, -inf), hi, math.Nextafter(hi, inf), hi+s*1e-6, hi+s, hi+s*1e3)
	} else {
		xs = append(xs, c+100*s, c+1e3*s, c+1e6*s)
	}
	for i := range xs {
		xs[i] = noSubnormal(xs[i])
	}
	sortFloats(xs)
	return xs
}

func sortFloats(v []float64) {
	for i := 1; i < len(v); i++ {
		for j := i; j > 0 && v[j] < v[j-1]; j-- {
			v[j], v[j-1] = v[j-1], v[j]
		}
	}
}

func cdfCase(cs *fw.Case, f *family, p []float64) {
	pcl := f.pclass(p)
	xs := cdfGrid(f, cs.R, p)
	ev := map[string]any{"k": "cdf", "fam": f.name, "pclass": pcl, "params": hxs(p), "x": hxs(xs)}
	for _, ty := range stypes {
		d, err, pn := build(f, ty.t, p)
		if pn != nil || err != nil || d == nil {
			cs.Skip("constructor-failed")
			return
		}
		cdf, lcdf := cdfFns(d)
		cv := make([]string, len(xs))
		lv := make([]string, len(xs))
		for i, x := range xs {
			cv[i], _ = evalFn(cdf, ty.t, arg(ty.t, x))
			lv[i], _ = evalFn(lcdf, ty.t, arg(ty.t, x))
		}
		ev["cdf"+ty.name] = cv
		ev["lcdf"+ty.name] = lv
		if ty.t == ad.Real64Type {
			// derivative of Cdf with respect to x by the library's own AD
			dv := make([]string, len(xs))
			for i, x := range xs {
				xv := ad.NewReal64(x)
				ad.Variables(1, xv)
				s, r := evalFn(cdf, ty.t, xv)
				if r == nil {
					dv[i] = s
				} else if r.GetOrder() < 1 || r.GetN() < 1 {
					dv[i] = "noderiv"
				} else {
					dv[i] = hx(r.GetDerivative(0))
				}
			}
			ev["dcdf"] = dv
		}
	}
	cs.C.Data(ev)
	cs.Cover("cdf:" + f.name)
	cs.C.Cover("cdf-evaluations", int64(5*len(xs)))
	cs.Nontrivial("cdf", f.name, fmtParams(p))
}

/* monitor: constructors reject invalid parameters (in-process)
 * -------------------------------------------------------------------------- */

type ctorItem struct {
	f  *family
	ic invalidClass
}

func ctorList() []ctorItem {
	var l []ctorItem
	for _, f := range families {
		for _, ic := range f.invalid {
			l = append(l, ctorItem{f, ic})
		}
	}
	return l
}

// invalidIdx finds the coordinate of an exemplar that makes it invalid (the
// exemplars keep every other coordinate strictly positive).
func invalidIdx(f *family, p []float64) int {
	for i, v := range p {
		if v <= 0 {
			return i
		}
	}
	switch f.name {
	case "negbinomial":
		return 1
	}
	return 0
}

// perturb keeps the invalid coordinate of the exemplar on its invalid side
// (zero stays zero, negative values and probabilities above one are redrawn)
// and redraws every other coordinate from the valid generator, so that more
// than one invalid vector per class is tried.
func perturb(r *prng.Rand, f *family, ic invalidClass, first bool) []float64 {
	p := append([]float64{}, ic.p...)
	if first || len(p) == 0 || f.name == "categorical" {
		return p
	}
	v := f.gen(r)
	if len(v) != len(p) {
		return p
	}
	i := invalidIdx(f, p)
	switch {
	case p[i] < 0 && f.name == "binomial" && i == 1:
		v[i] = -float64(r.Range(1, 50))
	case p[i] < 0:
		v[i] = -r.LogUniform(1e-6, 1e3)
	case p[i] == 0:
		v[i] = 0
	case p[i] > 1:
		v[i] = 1 + r.LogUniform(1e-6, 10)
	case p[i] == 1:
		v[i] = 1
	default: // 0 < alpha < 1 (power law)
		v[i] = r.Uniform(0.01, 0.99)
	}
	return v
}

func ctorCase(cs *fw.Case, it ctorItem, first bool) {
	p := perturb(cs.R, it.f, it.ic, first)
	for _, ty := range stypes {
		d, err, pn := build(it.f, ty.t, p)
		cs.Cover("ctor:" + it.f.name)
		cs.Cover("set:invalid-class:" + it.f.name + "/" + it.ic.name)
		sig := fmt.Sprintf("C14|%s|%s|-|constructor", it.f.name, it.ic.name)
		wit := map[string]any{"family": it.f.name, "params": p, "type": ty.name, "class": it.ic.name}
		switch {
		case pn != nil:
			cs.Violation(fmt.Sprintf("C14|%s|%s|-|panic", it.f.name, it.ic.name),
				fmt.Sprintf("constructor of %s panics on invalid parameters %v (%s) instead of returning an error: %s", it.f.name, p, it.ic.name, pn.Msg), wit)
		case err == nil:
			detail := fmt.Sprintf("constructor of %s accepts invalid parameters %v (class %s, %s-held) without error", it.f.name, p, it.ic.name, ty.name)
			if d != nil {
				lo, hi, _ := it.f.support(it.f.directed[0])
				x := 1.0
				if !isInf(lo) && !isInf(hi) {
					x = (lo + hi) / 2
				} else if !isInf(lo) {
					x = lo + 1
				}
				detail += "; LogPdf(" + fmt.Sprint(x) + ") of the resulting object = " + evalLP(d, ty.t, x)
			}
			cs.Violation(sig, detail, wit)
		default:
			cs.Cover("ctor-rejected")
		}
	}
	cs.Nontrivial("ctor", it.f.name, it.ic.name, fmtParams(p))
}

/* monitor: GetParameters / SetParameters / Clone round trips (in-process)
 * -------------------------------------------------------------------------- */

func floats(v ad.Vector) []float64 {
	r := make([]float64, v.Dim())
	for i := range r {
		r[i] = v.At(i).GetFloat64()
	}
	return r
}

func sameBits(a, b []float64) bool {
	if len(a) != len(b) {
		return false
	}
	for i := range a {
		if math.Float64bits(a[i]) != math.Float64bits(b[i]) && !(a[i] == 0 && b[i] == 0) && !(math.IsNaN(a[i]) && math.IsNaN(b[i])) {
			return false
		}
	}
	return true
}

func roundtripCase(cs *fw.Case, f *family, p, q []float64, xs []float64) {
	pcl := f.pclass(p)
	for _, ty := range stypes {
		wit := map[string]any{"family": f.name, "params": p, "other": q, "type": ty.name, "x": xs}
		fail := func(what, detail string) {
			cs.Violation(fmt.Sprintf("C14|%s|%s|%s|roundtrip", f.name, pcl, what), detail, wit)
		}
		d, err, pn := build(f, ty.t, p)
		e, err2, pn2 := build(f, ty.t, q)
		if pn != nil || err != nil || d == nil || pn2 != nil || err2 != nil || e == nil {
			cs.Skip("constructor-failed")
			return
		}
		ref := make([]string, len(xs))
		for i, x := range xs {
			ref[i] = evalLP(d, ty.t, x)
		}
		var pv ad.Vector
		if pn := fw.Call(func() { pv = d.GetParameters() }); pn != nil {
			fail("get", "GetParameters panics: "+pn.Msg)
			continue
		}
		pv0 := floats(pv)
		// the values must still be the same after reading the parameters
		for i, x := range xs {
			if v := evalLP(d, ty.t, x); v != ref[i] {
				fail("get", fmt.Sprintf("LogPdf(%v) changed from %s to %s after GetParameters()", x, ref[i], v))
				break
			}
		}
		// SetParameters(GetParameters()) into an object that held other parameters
		var serr error
		arg := pv.CloneVector()
		if pn := fw.Call(func() { serr = e.SetParameters(arg) }); pn != nil {
			fail("set", fmt.Sprintf("SetParameters(GetParameters()) panics: %s", pn.Msg))
		} else if serr != nil {
			fail("set", fmt.Sprintf("SetParameters(GetParameters()) of %v returns error: %v", p, serr))
		} else {
			var pv1 []float64
			if pn := fw.Call(func() { pv1 = floats(e.GetParameters()) }); pn != nil {
				fail("set", "GetParameters after SetParameters panics: "+pn.Msg)
			} else if !sameBits(pv0, pv1) {
				fail("set", fmt.Sprintf("GetParameters() after SetParameters(v) returns %v, v = %v", pv1, pv0))
			}
			for i, x := range xs {
				if v := evalLP(e, ty.t, x); v != ref[i] {
					fail("set", fmt.Sprintf("LogPdf(%v) = %s after SetParameters(GetParameters()) of an object with LogPdf(%v) = %s (parameters %v)", x, v, x, ref[i], p))
					break
				}
			}
			if e.ScalarType() != ty.t {
				fail("set", fmt.Sprintf("ScalarType after SetParameters is %v, expected %v", e.ScalarType(), ty.t))
			}
			cs.Cover("roundtrip:set")
		}
		// Clone
		var c st.ScalarPdf
		if pn := fw.Call(func() { c = d.CloneScalarPdf() }); pn != nil || c == nil {
			fail("clone", "CloneScalarPdf panics or returns nil")
			continue
		}
		var pv2 []float64
		if pn := fw.Call(func() { pv2 = floats(c.GetParameters()) }); pn != nil {
			fail("clone", "GetParameters of the clone panics: "+pn.Msg)
		} else if !sameBits(pv0, pv2) {
			fail("clone", fmt.Sprintf("clone has parameters %v, original %v", pv2, pv0))
		}
		for i, x := range xs {
			if v := evalLP(c, ty.t, x); v != ref[i] {
				fail("clone", fmt.Sprintf("clone.LogPdf(%v) = %s, original %s (parameters %v)", x, v, ref[i], p))
				break
			}
		}
		if c.ScalarType() != ty.t {
			fail("clone", fmt.Sprintf("ScalarType of the clone is %v, expected %v", c.ScalarType(), ty.t))
		}
		// the clone is a different object: re-parametrising it leaves the original alone
		if pn := fw.Call(func() { serr = c.SetParameters(vec(ty.t, floatsOf(f, ty.t, q))) }); pn == nil && serr == nil {
			for i, x := range xs {
				if v := evalLP(d, ty.t, x); v != ref[i] {
					fail("clone", fmt.Sprintf("LogPdf(%v) of the original changed from %s to %s after SetParameters on its clone", x, ref[i], v))
					break
				}
			}
		}
		cs.Cover("roundtrip:clone")
		cs.Cover("roundtrip:" + f.name)
	}
	cs.Nontrivial("roundtrip", f.name, fmtParams(p), fmtParams(q))
}

// floatsOf returns GetParameters() of a fresh object built from q.
func floatsOf(f *family, t ad.ScalarType, q []float64) []float64 {
	d, err, pn := build(f, t, q)
	if pn != nil || err != nil || d == nil {
		return nil
	}
	var r []float64
	fw.Call(func() { r = floats(d.GetParameters()) })
	return r
}

// interiorPoints picks a few points inside the support.
func interiorPoints(f *family, r *prng.Rand, p []float64, n int) []float64 {
	lo, hi, disc := f.support(p)
	var xs []float64
	for _, x := range points(f, r, p, 3*n) {
		if x > lo && x < hi || (disc && x >= lo && x <= hi && x == math.Floor(x)) {
			xs = append(xs, x)
			if len(xs) == n {
				break
			}
		}
	}
	return xs
}

// sameShape draws a second valid parameter vector with the same length (the
// categorical family has a variable number of parameters).
func sameShape(f *family, r *prng.Rand, p []float64) []float64 {
	for i := 0; i < 200; i++ {
		q := f.gen(r)
		if len(q) == len(p) {
			if f.name == "binomial" {
				q[1] = p[1]
			}
			return q
		}
	}
	return append([]float64{}, p...)
}

/* entry point
 * -------------------------------------------------------------------------- */

func Run(c *fw.Ctx) {
	dl := directedList()
	c.Cases("pts.directed", len(dl), func(cs *fw.Case) {
		it := dl[cs.Index]
		xs := points(it.f, cs.R, it.p, 10)
		ptsCase(cs, it.f, it.p, xs)
		if cs.Index < 2 {
			cs.Sample(map[string]any{"family": it.f.name, "params": it.p, "x": xs})
		}
	})
	c.Cases("pts", c.N(3000, 30000), func(cs *fw.Case) {
		f := families[cs.Index%len(families)]
		p := f.gen(cs.R)
		xs := points(f, cs.R, p, 6)
		ptsCase(cs, f, p, xs)
		if cs.Index < 2 {
			cs.Sample(map[string]any{"family": f.name, "params": p, "x": xs})
		}
	})

	c.Cases("quad.directed", len(dl), func(cs *fw.Case) {
		it := dl[cs.Index]
		quadCase(cs, it.f, it.p)
	})
	c.Cases("quad", c.N(640, 3500), func(cs *fw.Case) {
		f := families[cs.Index%len(families)]
		var p []float64
		for i := 0; i < 50; i++ {
			p = f.gen(cs.R)
			if f.quadOK == nil || f.quadOK(p) {
				break
			}
		}
		quadCase(cs, f, p)
		if cs.Index < 2 {
			cs.Sample(map[string]any{"family": f.name, "params": p, "what": "LogPdf at the nodes of a tanh-sinh rule on panels split at centre +- {2,8,32} scales"})
		}
	})

	var cf []*family
	for _, f := range families {
		if hasCdf(f) {
			cf = append(cf, f)
		}
	}
	var cdl []famParams
	for _, it := range dl {
		if hasCdf(it.f) {
			cdl = append(cdl, it)
		}
	}
	c.Cases("cdf.directed", len(cdl), func(cs *fw.Case) {
		cdfCase(cs, cdl[cs.Index].f, cdl[cs.Index].p)
	})
	c.Cases("cdf", c.N(800, 7000), func(cs *fw.Case) {
		f := cf[cs.Index%len(cf)]
		p := f.gen(cs.R)
		cdfCase(cs, f, p)
		if cs.Index < 2 {
			cs.Sample(map[string]any{"family": f.name, "params": p, "what": "Cdf, LogCdf and dCdf/dx (library AD) on a grid across the support"})
		}
	})

	cl := ctorList()
	c.Cases("ctor", c.N(4, 40)*len(cl), func(cs *fw.Case) {
		it := cl[cs.Index%len(cl)]
		ctorCase(cs, it, cs.Index < len(cl))
		if cs.Index < 2 {
			cs.Sample(map[string]any{"family": it.f.name, "invalid class": it.ic.name, "params": it.ic.p})
		}
	})

	c.Cases("roundtrip.directed", len(dl), func(cs *fw.Case) {
		it := dl[cs.Index]
		q := sameShape(it.f, cs.R, it.p)
		roundtripCase(cs, it.f, it.p, q, interiorPoints(it.f, cs.R, it.p, 4))
	})
	c.Cases("roundtrip", c.N(1200, 9000), func(cs *fw.Case) {
		f := families[cs.Index%len(families)]
		p := f.gen(cs.R)
		q := sameShape(f, cs.R, p)
		xs := interiorPoints(f, cs.R, p, 4)
		roundtripCase(cs, f, p, q, xs)
		if cs.Index < 2 {
			cs.Sample(map[string]any{"family": f.name, "params": p, "other params": q, "x": xs})
		}
	})

	runMutate(c)
	runWrappers(c)
	runMulti(c)
	runMultiWrappers(c)
	runSparse(c)
}
