package c14

import (
	"fmt"

	ad "github.com/pbenner/autodiff"
	st "github.com/pbenner/autodiff/statistics"
	md "github.com/pbenner/autodiff/statistics/matrixDistribution"
	vd "github.com/pbenner/autodiff/statistics/vectorDistribution"

	"verifharness/internal/fw"
	"verifharness/internal/prng"
)

// The value of a density must not depend on how the argument is stored: every
// vector / matrix density, the id / iid wrappers and the mixtures are evaluated
// on a dense argument and on sparse and sparse-const arguments that hold the
// same elements (zeros are not stored), and the results must be bit-identical.
// (The HMMs, whose emission paths also take vectors and matrices, are C15's.)

type argVariant struct {
	name string
	vec  func(t ad.ScalarType, x []float64) ad.ConstVector
	mat  func(t ad.ScalarType, x []float64, n, m int) ad.ConstMatrix
}

func nonzeros(x []float64) (idx []int, val []float64) {
	for i, v := range x {
		if v != 0 {
			idx = append(idx, i)
			val = append(val, v)
		}
	}
	return
}

var argVariants = []argVariant{
	{"dense",
		func(t ad.ScalarType, x []float64) ad.ConstVector { return vecArg(t, x) },
		func(t ad.ScalarType, x []float64, n, m int) ad.ConstMatrix { return matArg2(t, x, n, m) }},
	{"sparse",
		func(t ad.ScalarType, x []float64) ad.ConstVector {
			idx, val := nonzeros(x)
			if t == ad.Real64Type {
				return ad.NewSparseReal64Vector(idx, val, len(x))
			}
			return ad.NewSparseFloat64Vector(idx, val, len(x))
		},
		func(t ad.ScalarType, x []float64, n, m int) ad.ConstMatrix {
			idx, val := nonzeros(x)
			ri, ci := make([]int, len(idx)), make([]int, len(idx))
			for k, i := range idx {
				ri[k], ci[k] = i/m, i%m
			}
			if t == ad.Real64Type {
				return ad.NewSparseReal64Matrix(ri, ci, val, n, m)
			}
			return ad.NewSparseFloat64Matrix(ri, ci, val, n, m)
		}},
	{"sparse-const",
		func(t ad.ScalarType, x []float64) ad.ConstVector {
			idx, val := nonzeros(x)
			return ad.NewSparseConstFloat64Vector(idx, val, len(x))
		}, nil},
}

func evalVecWith(d st.VectorPdf, t ad.ScalarType, x ad.ConstVector) string {
	r := ad.NewScalar(t, 0.0)
	var err error
	if p := fw.Call(func() { err = d.LogPdf(r, x) }); p != nil {
		return "panic:" + p.Frame + ":" + short(p.Msg)
	}
	if err != nil {
		return "err:" + short(err.Error())
	}
	return hx(r.GetFloat64())
}

func evalMatWith(d st.MatrixPdf, t ad.ScalarType, x ad.ConstMatrix) string {
	r := ad.NewScalar(t, 0.0)
	var err error
	if p := fw.Call(func() { err = d.LogPdf(r, x) }); p != nil {
		return "panic:" + p.Frame + ":" + short(p.Msg)
	}
	if err != nil {
		return "err:" + short(err.Error())
	}
	return hx(r.GetFloat64())
}

// withZeros sets some coordinates to exactly zero (at least one, and not all
// unless the case asks for the zero vector).
func withZeros(r *prng.Rand, x []float64, all bool) []float64 {
	y := append([]float64{}, x...)
	if all {
		for i := range y {
			y[i] = 0
		}
		return y
	}
	for i := range y {
		if r.Intn(5) < 2 {
			y[i] = 0
		}
	}
	y[r.Intn(len(y))] = 0
	return y
}

func runSparse(c *fw.Ctx) {
	vobjs := []string{"mvnormal", "mvt", "skewnormal", "scalariid", "scalarid", "vmixture", "vid", "viid"}
	c.Cases("sparse.vector", c.N(240, 2400), func(cs *fw.Case) {
		r := cs.R
		kind := vobjs[cs.Index%len(vobjs)]
		n := r.Range(1, 4)
		var comps []vcomp
		dim := n
		switch kind {
		case "vmixture":
			for i := 0; i < r.Range(2, 3); i++ {
				comps = append(comps, genV(r, vkinds[r.Intn(len(vkinds))], n))
			}
		case "vid":
			dim = 0
			for i := 0; i < r.Range(2, 3); i++ {
				comps = append(comps, genV(r, vkinds[r.Intn(len(vkinds))], r.Range(1, 3)))
				dim += comps[i].dim
			}
		case "viid":
			comps = []vcomp{genV(r, vkinds[r.Intn(len(vkinds))], n)}
			dim = n * r.Range(2, 3)
		default:
			comps = []vcomp{genV(r, kind, n)}
		}
		w := weightsGen(r, len(comps))
		mk := func(t ad.ScalarType) (st.VectorPdf, error) {
			ed, err := buildV(comps, t)
			if err != nil {
				return nil, err
			}
			switch kind {
			case "vmixture":
				return nilIfErrV(vd.NewMixture(vec(t, w), ed))
			case "vid":
				return nilIfErrV(vd.NewVectorId(ed...))
			case "viid":
				return nilIfErrV(vd.NewVectorIid(ed[0], dim))
			}
			return ed[0], nil
		}
		var X [][]float64
		for i := 0; i < 4; i++ {
			x := rvec(r, dim, pick(r, 0.5, 1, 2))
			for j := range x {
				if r.Intn(3) == 0 {
					x[j] = r.LogUniform(0.05, 5)
				}
			}
			X = append(X, withZeros(r, x, i == 3))
		}
		sig := "C14|" + kind + "|-"
		for _, ty := range stypes {
			var d st.VectorPdf
			var err error
			if pn := fw.Call(func() { d, err = mk(ty.t) }); pn != nil || err != nil || d == nil {
				cs.Skip("constructor-failed")
				return
			}
			for _, x := range X {
				ref := evalVecWith(d, ty.t, argVariants[0].vec(ty.t, x))
				for _, av := range argVariants[1:] {
					got := evalVecWith(d, ty.t, av.vec(ty.t, x))
					cs.Cover("sparse:" + kind + "/" + av.name)
					if got != ref {
						cs.Violation(sig+"|"+av.name+"-argument|type",
							fmt.Sprintf("%s over %v (%s-held): LogPdf of the %s argument %v is %s, of the dense argument with the same elements %s", kind, kindsOf(comps), ty.name, av.name, x, got, ref),
							map[string]any{"object": kind, "components": kindsOf(comps), "x": x, "argument": av.name, "type": ty.name, "dense": ref, "observed": got})
					}
				}
			}
		}
		cs.Nontrivial("sparse.vector", kind, fmt.Sprint(kindsOf(comps)), fmt.Sprint(X))
		if cs.Index < 2 {
			cs.Sample(map[string]any{"object": kind, "components": kindsOf(comps), "arguments (dense, sparse, sparse-const)": X})
		}
	})

	mobjs := []string{"iwishart", "mid", "miid", "mmixture", "niw"}
	c.Cases("sparse.matrix", c.N(160, 1600), func(cs *fw.Case) {
		r := cs.R
		kind := mobjs[cs.Index%len(mobjs)]
		n := r.Range(1, 3)
		iw := mvGen(r, "iwishart", n)
		rows := make([]vcomp, n)
		for i := range rows {
			rows[i] = genV(r, vkinds[r.Intn(len(vkinds))], n)
		}
		w := weightsGen(r, 2)
		kappa, nu := r.LogUniform(0.1, 10), float64(n)-1+r.LogUniform(0.3, 30)
		mu0, lambda := rvec(r, n, 2), spd(r, n, false)
		mk := func(t ad.ScalarType) (st.MatrixPdf, error) {
			switch kind {
			case "iwishart":
				return iw.mkM(t)
			case "mid":
				ed, err := buildV(rows, t)
				if err != nil {
					return nil, err
				}
				return nilIfErrM(md.NewVectorId(ed...))
			case "miid":
				ed, err := buildV(rows[:1], t)
				if err != nil {
					return nil, err
				}
				return nilIfErrM(md.NewVectorIid(ed[0], n))
			}
			// mixture of an inverse Wishart and rows of vector components
			a, err := iw.mkM(t)
			if err != nil {
				return nil, err
			}
			ed, err := buildV(rows[:1], t)
			if err != nil {
				return nil, err
			}
			b, err := md.NewVectorIid(ed[0], n)
			if err != nil {
				return nil, err
			}
			return nilIfErrM(md.NewMixture(vec(t, w), []st.MatrixPdf{a, b}))
		}
		// arguments: symmetric positive definite with zero off-diagonal entries
		// (inside the support of the inverse Wishart), resp. any matrix with zeros
		var X [][]float64
		for i := 0; i < 4; i++ {
			x := make([]float64, n*n)
			if kind == "mid" || kind == "miid" {
				x = withZeros(r, rvec(r, n*n, 1), i == 3)
			} else {
				for j := 0; j < n; j++ {
					x[j*n+j] = r.LogUniform(0.5, 4)
				}
				if n > 2 && i%2 == 0 { // one off-diagonal pair, the others stay zero
					x[1], x[n] = 0.25, 0.25
				}
			}
			X = append(X, x)
		}
		sig := "C14|" + kind + "|-"
		for _, ty := range stypes {
			if kind == "niw" {
				d, err := md.NewNormalIWishartDistribution(sc(ty.t, kappa), sc(ty.t, nu), vec(ty.t, mu0), mat(ty.t, lambda, n, n))
				if err != nil || d == nil {
					cs.Skip("constructor-failed")
					return
				}
				eval := func(av argVariant, m, s []float64) string {
					rr := ad.NewScalar(ty.t, 0.0)
					var err error
					mv, ok1 := av.vec(ty.t, m).(ad.Vector)
					sm, ok2 := av.mat(ty.t, s, n, n).(ad.Matrix)
					if !ok1 || !ok2 {
						return "n/a"
					}
					if p := fw.Call(func() { err = d.LogPdf(rr, mv, sm) }); p != nil {
						return "panic:" + p.Frame + ":" + short(p.Msg)
					}
					if err != nil {
						return "err:" + short(err.Error())
					}
					return hx(rr.GetFloat64())
				}
				for i, s := range X {
					m := withZeros(r, rvec(r, n, 1), i == 3)
					ref := eval(argVariants[0], m, s)
					got := eval(argVariants[1], m, s)
					cs.Cover("sparse:niw/sparse")
					if got != ref {
						cs.Violation(sig+"|sparse-argument|type",
							fmt.Sprintf("niw (%s-held): LogPdf of the sparse arguments mu=%v Sigma=%v is %s, of the dense arguments with the same elements %s", ty.name, m, s, got, ref),
							map[string]any{"object": "niw", "mu": m, "sigma": s, "type": ty.name, "dense": ref, "observed": got})
					}
				}
				continue
			}
			var d st.MatrixPdf
			var err error
			if pn := fw.Call(func() { d, err = mk(ty.t) }); pn != nil || err != nil || d == nil {
				cs.Skip("constructor-failed")
				return
			}
			for _, x := range X {
				ref := evalMatWith(d, ty.t, argVariants[0].mat(ty.t, x, n, n))
				got := evalMatWith(d, ty.t, argVariants[1].mat(ty.t, x, n, n))
				cs.Cover("sparse:" + kind + "/sparse")
				if got != ref {
					cs.Violation(sig+"|sparse-argument|type",
						fmt.Sprintf("%s (%s-held, rows %v): LogPdf of the sparse %dx%d argument %v is %s, of the dense argument with the same elements %s", kind, ty.name, kindsOf(rows), n, n, x, got, ref),
						map[string]any{"object": kind, "X": x, "n": n, "type": ty.name, "dense": ref, "observed": got})
				}
			}
		}
		cs.Nontrivial("sparse.matrix", kind, n, fmt.Sprint(X))
		if cs.Index < 2 {
			cs.Sample(map[string]any{"object": kind, "n": n, "arguments (dense and sparse)": X})
		}
	})
}
