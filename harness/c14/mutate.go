package c14

import (
	"fmt"

	ad "github.com/pbenner/autodiff"
	st "github.com/pbenner/autodiff/statistics"
	sd "github.com/pbenner/autodiff/statistics/scalarDistribution"

	"verifharness/internal/fw"
	"verifharness/internal/prng"
)

// Public mutators of the distribution types.  The exported methods of the
// scalar / vector / matrix distribution packages that change an object are
// SetParameters (every type), BinomialDistribution.SetN and ImportConfig
// (C18); SetStartStates / SetFinalStates belong to the HMMs (C15).  After a
// mutation the object must be the distribution with the new parameters: it is
// compared bit by bit with a freshly constructed object (parameters, LogPdf,
// Cdf, LogCdf, inside and outside the support) and handed to the pointwise and
// the normalisation oracle like a constructed object (event field "via").

type mutatorSpec struct {
	name string
	// start draws the parameters of the object before the mutation
	start func(r *prng.Rand, f *family, p []float64) []float64
	// apply mutates d (constructed from start) so that it represents p
	apply func(f *family, t ad.ScalarType, d st.ScalarPdf, p []float64) error
	// make, if set, replaces "construct from start, then apply": it returns an
	// object that has to represent p (q = start)
	make func(f *family, t ad.ScalarType, q, p []float64) (st.ScalarPdf, error)
}

// otherParams draws a valid parameter vector of the same length as p that
// differs from p.
func otherParams(r *prng.Rand, f *family, p []float64) []float64 {
	for i := 0; i < 400; i++ {
		q := f.gen(r)
		if len(q) == len(p) && fmtParams(q) != fmtParams(p) {
			return q
		}
	}
	return append([]float64{}, p...)
}

var setParameters = mutatorSpec{
	name:  "SetParameters",
	start: otherParams,
	apply: func(f *family, t ad.ScalarType, d st.ScalarPdf, p []float64) error {
		fresh, err := f.build(t, p)
		if err != nil {
			return fmt.Errorf("constructor: %v", err)
		}
		return d.SetParameters(fresh.GetParameters().CloneVector())
	},
}

var binomialSetN = mutatorSpec{
	name: "SetN",
	start: func(r *prng.Rand, f *family, p []float64) []float64 {
		q := []float64{p[0], p[1]}
		for q[1] == p[1] {
			q[1] = pick(r, 0, 1, 2, 3, 5, 10, 20, 50, 100, 400)
		}
		return q
	},
	apply: func(f *family, t ad.ScalarType, d st.ScalarPdf, p []float64) error {
		return d.(*sd.BinomialDistribution).SetN(int(p[1]))
	},
}

// newOverwritten: construct with p, then overwrite the scalars / vectors handed
// to the constructor with the values of another valid parameter vector.  The
// distribution must not notice.
var newOverwritten = mutatorSpec{
	name:  "New+overwrite",
	start: otherParams,
	make: func(f *family, t ad.ScalarType, q, p []float64) (st.ScalarPdf, error) {
		var d st.ScalarPdf
		var err error
		args := recording(func() { d, err = f.build(t, p) })
		if err != nil {
			return nil, fmt.Errorf("constructor: %v", err)
		}
		vals := recording(func() { f.build(t, q) })
		args.overwrite(vals)
		return d, nil
	},
}

// setOverwritten: SetParameters(v), then overwrite v (the caller reuses its
// vector for another distribution).
var setOverwritten = mutatorSpec{
	name:  "SetParameters+overwrite",
	start: otherParams,
	make: func(f *family, t ad.ScalarType, q, p []float64) (st.ScalarPdf, error) {
		d, err := f.build(t, q)
		if err != nil {
			return nil, fmt.Errorf("constructor: %v", err)
		}
		fresh, err := f.build(t, p)
		if err != nil {
			return nil, fmt.Errorf("constructor: %v", err)
		}
		v := fresh.GetParameters().CloneVector()
		if err := d.SetParameters(v); err != nil {
			return nil, err
		}
		// the caller's vector now receives the parameters of another distribution
		if o, err := f.build(t, q); err == nil {
			ov := o.GetParameters()
			for i := 0; i < v.Dim(); i++ {
				if i < ov.Dim() && ov.At(i).GetFloat64() != v.At(i).GetFloat64() {
					v.At(i).SetFloat64(ov.At(i).GetFloat64())
				} else {
					v.At(i).SetFloat64(0.75*v.At(i).GetFloat64() + 0.125)
				}
			}
		}
		return d, nil
	},
}

func mutatorsOf(f *family) []mutatorSpec {
	l := []mutatorSpec{setParameters, newOverwritten, setOverwritten}
	if f.name == "binomial" {
		l = append(l, binomialSetN)
	}
	return l
}

type mutItem struct {
	f *family
	m mutatorSpec
}

func mutList() []mutItem {
	var l []mutItem
	for _, f := range families {
		for _, m := range mutatorsOf(f) {
			l = append(l, mutItem{f, m})
		}
	}
	return l
}

func mutateCase(cs *fw.Case, it mutItem, p []float64) {
	f, r := it.f, cs.R
	q := it.m.start(r, f, p)
	pcl := f.pclass(p)
	xs := points(f, r, p, 5)
	via := &mutation{name: it.m.name, mk: func(t ad.ScalarType) (st.ScalarPdf, error) {
		if it.m.make != nil {
			return it.m.make(f, t, q, p)
		}
		d, err := f.build(t, q)
		if err != nil {
			return nil, fmt.Errorf("constructor(%v): %v", q, err)
		}
		if err := it.m.apply(f, t, d, p); err != nil {
			return nil, err
		}
		return d, nil
	}}
	sig := fmt.Sprintf("C14|%s|%s|mutate|roundtrip", famLabel(f, via), pcl)
	// (a) bit by bit against a freshly constructed object
	for _, ty := range stypes {
		wit := map[string]any{"family": f.name, "mutator": it.m.name, "params before": q, "params": p, "type": ty.name}
		fresh, err, pn := build(f, ty.t, p)
		if pn != nil || err != nil || fresh == nil {
			cs.Skip("constructor-failed")
			return
		}
		d, err, pn := obtain(f, ty.t, p, via)
		if pn != nil || err != nil || d == nil {
			cs.Violation(sig, fmt.Sprintf("%s(%v).%s -> %v fails: %v %v", f.name, q, it.m.name, p, err, pn), wit)
			continue
		}
		var pa, pb []float64
		if pn := fw.Call(func() { pa, pb = floats(d.GetParameters()), floats(fresh.GetParameters()) }); pn != nil {
			cs.Violation(sig, "GetParameters after "+it.m.name+" panics: "+pn.Msg, wit)
		} else if !sameBits(pa, pb) {
			cs.Violation(sig, fmt.Sprintf("%s(%v) after %s to %v: GetParameters() = %v, a freshly constructed object has %v", f.name, q, it.m.name, p, pa, pb), wit)
		}
		for _, x := range xs {
			a, b := evalLP(d, ty.t, x), evalLP(fresh, ty.t, x)
			if a != b {
				cs.Violation(sig, fmt.Sprintf("%s(%v) after %s to %v: LogPdf(%v) = %s, a freshly constructed %s(%v) gives %s", f.name, q, it.m.name, p, x, a, f.name, p, b), wit)
				break
			}
		}
		if ca, la := cdfFns(d); ca != nil {
			cb, lb := cdfFns(fresh)
			for _, x := range xs {
				a1, _ := evalFn(ca, ty.t, arg(ty.t, x))
				b1, _ := evalFn(cb, ty.t, arg(ty.t, x))
				a2, _ := evalFn(la, ty.t, arg(ty.t, x))
				b2, _ := evalFn(lb, ty.t, arg(ty.t, x))
				if a1 != b1 || a2 != b2 {
					cs.Violation(sig, fmt.Sprintf("%s(%v) after %s to %v: Cdf/LogCdf(%v) = %s/%s, a freshly constructed object gives %s/%s", f.name, q, it.m.name, p, x, a1, a2, b1, b2), wit)
					break
				}
			}
		}
		if d.ScalarType() != ty.t {
			cs.Violation(sig, fmt.Sprintf("ScalarType after %s is %v, expected %v", it.m.name, d.ScalarType(), ty.t), wit)
		}
		cs.Cover("mutate:" + f.name + "." + it.m.name)
	}
	// (b) the mutated object in front of the pointwise and the normalisation oracle
	ptsCaseVia(cs, f, p, xs, via)
	quadCaseVia(cs, f, p, via)
	cs.Nontrivial("mutate", f.name, it.m.name, fmtParams(q), fmtParams(p), fmt.Sprint(xs))
}

// an invalid argument of a mutator must be rejected and leave the object alone
func mutateInvalidCase(cs *fw.Case) {
	f := famByName("binomial")
	p := []float64{pick(cs.R, 0.25, 0.5, 0.875), pick(cs.R, 1, 3, 10)}
	xs := []float64{0, 1, p[1]}
	for _, ty := range stypes {
		d, err, pn := build(f, ty.t, p)
		if pn != nil || err != nil || d == nil {
			cs.Skip("constructor-failed")
			return
		}
		before := make([]string, len(xs))
		for i, x := range xs {
			before[i] = evalLP(d, ty.t, x)
		}
		bad := -cs.R.Range(1, 20)
		var serr error
		wit := map[string]any{"family": "binomial", "params": p, "SetN": bad, "type": ty.name}
		if pn := fw.Call(func() { serr = d.(*sd.BinomialDistribution).SetN(bad) }); pn != nil {
			cs.Violation("C14|binomial.SetN|n<0|-|panic", "SetN panics on a negative n: "+pn.Msg, wit)
		} else if serr == nil {
			cs.Violation("C14|binomial.SetN|n<0|-|constructor", fmt.Sprintf("binomial(%v).SetN(%d) returns no error", p, bad), wit)
		} else {
			cs.Cover("ctor-rejected")
		}
		for i, x := range xs {
			if v := evalLP(d, ty.t, x); v != before[i] {
				cs.Violation("C14|binomial.SetN|n<0|mutate|roundtrip", fmt.Sprintf("binomial(%v): LogPdf(%v) changed from %s to %s by the rejected SetN(%d)", p, x, before[i], v, bad), wit)
				break
			}
		}
	}
	cs.Nontrivial("mutate.invalid", fmtParams(p))
}

func runMutate(c *fw.Ctx) {
	ml := mutList()
	// directed: every (family, mutator) pair with every directed parameter vector
	type dm struct {
		it mutItem
		p  []float64
	}
	var dl []dm
	for _, it := range ml {
		for _, p := range it.f.directed {
			dl = append(dl, dm{it, p})
		}
	}
	c.Cases("mutate.directed", len(dl), func(cs *fw.Case) {
		mutateCase(cs, dl[cs.Index].it, dl[cs.Index].p)
	})
	c.Cases("mutate", c.N(1400, 6000), func(cs *fw.Case) {
		it := ml[cs.Index%len(ml)]
		var p []float64
		for i := 0; i < 50; i++ {
			p = it.f.gen(cs.R)
			if it.f.quadOK == nil || it.f.quadOK(p) {
				break
			}
		}
		mutateCase(cs, it, p)
		if cs.Index < 2 {
			cs.Sample(map[string]any{"family": it.f.name, "mutator": it.m.name, "params": p})
		}
	})
	c.Cases("mutate.invalid", c.N(8, 60), mutateInvalidCase)
}
