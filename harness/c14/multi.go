package c14

import (
	"fmt"
	"math"

	ad "github.com/pbenner/autodiff"
	st "github.com/pbenner/autodiff/statistics"
	md "github.com/pbenner/autodiff/statistics/matrixDistribution"
	vd "github.com/pbenner/autodiff/statistics/vectorDistribution"

	"verifharness/internal/fw"
	"verifharness/internal/prng"
)

// Vector and matrix families: multivariate normal, t, skew-normal, inverse
// Wishart, normal-inverse-Wishart.

// spd draws a symmetric positive definite matrix L L^T with a moderate
// condition number (row-major).
func spd(r *prng.Rand, n int, unitDiag bool) []float64 {
	L := make([]float64, n*n)
	for i := 0; i < n; i++ {
		for j := 0; j < i; j++ {
			L[i*n+j] = r.Uniform(-0.8, 0.8)
			if r.Intn(4) == 0 {
				L[i*n+j] = float64(r.Range(-4, 4)) / 8
			}
		}
		L[i*n+i] = r.LogUniform(0.4, 2.5)
	}
	S := make([]float64, n*n)
	for i := 0; i < n; i++ {
		for j := 0; j <= i; j++ {
			s := 0.0
			for k := 0; k <= j; k++ {
				s += L[i*n+k] * L[j*n+k]
			}
			S[i*n+j], S[j*n+i] = s, s
		}
	}
	if unitDiag {
		d := make([]float64, n)
		for i := range d {
			d[i] = math.Sqrt(S[i*n+i])
		}
		for i := 0; i < n; i++ {
			for j := 0; j < i; j++ {
				v := S[i*n+j] / (d[i] * d[j])
				S[i*n+j], S[j*n+i] = v, v
			}
			S[i*n+i] = 1
		}
	}
	return S
}

// nClass: for n = 1 matrix and element-wise operations coincide.
func nClass(n int) string {
	if n == 1 {
		return "n=1"
	}
	return "n>1"
}

func rvec(r *prng.Rand, n int, scale float64) []float64 {
	v := make([]float64, n)
	for i := range v {
		if r.Intn(5) == 0 {
			v[i] = float64(r.Range(-8, 8)) / 4
		} else {
			v[i] = scale * r.Norm()
		}
	}
	return v
}

func matArg(t ad.ScalarType, v []float64, n int) ad.Matrix {
	if t == ad.Real64Type {
		return ad.NewDenseReal64Matrix(v, n, n)
	}
	return ad.NewDenseFloat64Matrix(append([]float64{}, v...), n, n)
}

func evalMatLP(d st.MatrixPdf, t ad.ScalarType, x []float64, n int) string {
	r := ad.NewScalar(t, 0.0)
	var err error
	if p := fw.Call(func() { err = d.LogPdf(r, matArg(t, x, n)) }); p != nil {
		return "panic:" + p.Frame + ":" + short(p.Msg)
	}
	if err != nil {
		return "err:" + short(err.Error())
	}
	return hx(r.GetFloat64())
}

func hxm(v [][]float64) [][]string {
	r := make([][]string, len(v))
	for i := range v {
		r[i] = hxs(v[i])
	}
	return r
}

type mvSpec struct {
	fam  string
	n    int
	par  map[string][]float64 // named parameter blocks
	mkV  func(t ad.ScalarType) (st.VectorPdf, error)
	mkM  func(t ad.ScalarType) (st.MatrixPdf, error)
	c, s float64 // centre / scale for n = 1 quadrature
	lo   float64 // lower end of the support for n = 1
}

func mvGen(r *prng.Rand, fam string, n int) *mvSpec {
	sp := &mvSpec{fam: fam, n: n, par: map[string][]float64{}, lo: -inf}
	switch fam {
	case "mvnormal":
		mu, sigma := rvec(r, n, 2), spd(r, n, false)
		sp.par["mu"], sp.par["sigma"] = mu, sigma
		sp.mkV = func(t ad.ScalarType) (st.VectorPdf, error) {
			return nilIfErrV(vd.NewNormalDistribution(vec(t, mu), mat(t, sigma, n, n)))
		}
		sp.c, sp.s = mu[0], math.Sqrt(sigma[0])
	case "mvt":
		nu := r.LogUniform(0.6, 60)
		if r.Intn(4) == 0 {
			nu = pick(r, 1, 2, 3, 5)
		}
		mu, sigma := rvec(r, n, 2), spd(r, n, false)
		sp.par["nu"], sp.par["mu"], sp.par["sigma"] = []float64{nu}, mu, sigma
		sp.mkV = func(t ad.ScalarType) (st.VectorPdf, error) {
			return nilIfErrV(vd.NewTDistribution(sc(t, nu), vec(t, mu), mat(t, sigma, n, n)))
		}
		sp.c, sp.s = mu[0], math.Sqrt(sigma[0])
	case "skewnormal":
		xi, omega, alpha := rvec(r, n, 2), spd(r, n, true), rvec(r, n, 3)
		scale := make([]float64, n)
		for i := range scale {
			scale[i] = r.LogUniform(0.3, 3)
		}
		sp.par["xi"], sp.par["omega"], sp.par["alpha"], sp.par["scale"] = xi, omega, alpha, scale
		sp.mkV = func(t ad.ScalarType) (st.VectorPdf, error) {
			return nilIfErrV(vd.NewSkewNormalDistribution(vec(t, xi), mat(t, omega, n, n), vec(t, alpha), vec(t, scale)))
		}
		sp.c, sp.s = xi[0], scale[0]*math.Sqrt(omega[0])
	case "iwishart":
		nu := float64(n) - 1 + r.LogUniform(0.3, 30)
		if r.Intn(3) == 0 {
			nu = float64(n + r.Range(0, 6))
		}
		S := spd(r, n, false)
		sp.par["nu"], sp.par["S"] = []float64{nu}, S
		sp.mkM = func(t ad.ScalarType) (st.MatrixPdf, error) {
			return nilIfErrM(md.NewInverseWishartDistribution(sc(t, nu), mat(t, S, n, n)))
		}
		sp.c, sp.s, sp.lo = S[0]/(nu+2), S[0]/(nu+2), 0
	}
	return sp
}

func nilIfErrV[T st.VectorPdf](d T, err error) (st.VectorPdf, error) {
	if err != nil {
		return nil, err
	}
	return d, nil
}

func nilIfErrM[T st.MatrixPdf](d T, err error) (st.MatrixPdf, error) {
	if err != nil {
		return nil, err
	}
	return d, nil
}

func (sp *mvSpec) event() map[string]any {
	ev := map[string]any{"k": "mv", "fam": sp.fam, "n": sp.n, "pclass": nClass(sp.n)}
	for k, v := range sp.par {
		ev["p_"+k] = hxs(v)
	}
	return ev
}

func runMulti(c *fw.Ctx) {
	vfams := []string{"mvnormal", "mvt", "skewnormal"}
	c.Cases("mv.vector", c.N(720, 6000), func(cs *fw.Case) {
		r := cs.R
		fam := vfams[cs.Index%3]
		n := 1 + (cs.Index/3)%4
		sp := mvGen(r, fam, n)
		ev := sp.event()
		sig := fmt.Sprintf("C14|%s|%s", fam, nClass(n))
		rsig := fmt.Sprintf("C14|%s|-", fam)
		var X [][]float64
		for i := 0; i < 6; i++ {
			x := make([]float64, n)
			sc := pick(r, 0.5, 2, 8, 30)
			for j := range x {
				x[j] = sp.par[map[string]string{"mvnormal": "mu", "mvt": "mu", "skewnormal": "xi"}[fam]][j] + sc*r.Norm()
			}
			X = append(X, x)
		}
		ev["xv"] = hxm(X)
		for ti, ty := range stypes {
			var d st.VectorPdf
			var err error
			if pn := fw.Call(func() { d, err = sp.mkV(ty.t) }); pn != nil || err != nil || d == nil {
				cs.Violation(sig+"|valid-rejected|constructor", fmt.Sprintf("constructor fails on valid input: %v %v", err, pn), ev)
				return
			}
			vals := make([]string, len(X))
			for j, x := range X {
				vals[j] = evalVecLP(d, ty.t, x)
			}
			ev["lp"+ty.name] = vals
			if d.Dim() != n {
				cs.Violation(sig+"|-|roundtrip", fmt.Sprintf("Dim() = %d, expected %d", d.Dim(), n), ev)
			}
			if d.ScalarType() != ty.t {
				cs.Violation(sig+"|-|type", fmt.Sprintf("ScalarType() = %v with %s-held parameters", d.ScalarType(), ty.name), ev)
			}
			// clone
			var cl st.VectorPdf
			if pn := fw.Call(func() { cl = d.CloneVectorPdf() }); pn != nil || cl == nil {
				cs.Violation(rsig+"|clone|roundtrip", "CloneVectorPdf panics or returns nil", ev)
			} else {
				for j, x := range X {
					if v := evalVecLP(cl, ty.t, x); v != vals[j] {
						cs.Violation(rsig+"|clone|roundtrip", fmt.Sprintf("clone.LogPdf(%v) = %s, original %s", x, v, vals[j]), ev)
						break
					}
				}
				cs.Cover("roundtrip:clone")
			}
			// SetParameters(GetParameters()) on an object with other parameters
			other := mvGen(r, fam, n)
			var e st.VectorPdf
			var serr error
			if pn := fw.Call(func() { e, err = other.mkV(ty.t) }); pn == nil && err == nil && e != nil {
				if pn := fw.Call(func() { serr = e.SetParameters(d.GetParameters().CloneVector()) }); pn != nil {
					cs.Violation(rsig+"|set|roundtrip", "SetParameters(GetParameters()) panics: "+pn.Msg, ev)
				} else if serr != nil {
					cs.Violation(rsig+"|set|roundtrip", fmt.Sprintf("SetParameters(GetParameters()) returns error: %v", serr), ev)
				} else {
					for j, x := range X {
						if v := evalVecLP(e, ty.t, x); v != vals[j] {
							cs.Violation(rsig+"|set|roundtrip", fmt.Sprintf("LogPdf(%v) = %s after SetParameters(GetParameters()), original %s", x, v, vals[j]), ev)
							break
						}
					}
				}
				cs.Cover("roundtrip:set")
			}
			mkVO := func(s *mvSpec) func() (pobj, error) {
				return func() (pobj, error) {
					o, err := s.mkV(ty.t)
					if err != nil || o == nil {
						return pobj{}, fmt.Errorf("constructor: %v", err)
					}
					return vobj(o, ty.t, X), nil
				}
			}
			aliasCheck(cs, ev, rsig, mkVO(sp), mkVO(other))
			// normalisation for n = 1
			if n == 1 && ti == cs.Index%2 {
				var br []float64
				for _, k := range []float64{-32, -8, -2, 0, 2, 8, 32} {
					br = append(br, sp.c+k*sp.s)
				}
				ns := nodesFromBreaks(-inf, inf, br, sp.s, sp.s)
				xs := make([]string, len(ns))
				lw := make([]string, len(ns))
				qv := make([]string, len(ns))
				for i, nd := range ns {
					xs[i], lw[i] = hx(nd.x), hx(nd.lw)
					qv[i] = evalVecLP(d, ty.t, []float64{nd.x})
				}
				ev["qx"], ev["qlw"], ev["qlp"], ev["qtype"] = xs, lw, qv, ty.name
				cs.C.Cover("quad-evaluations", int64(len(ns)))
			}
		}
		cs.C.Cover("lp-evaluations", int64(2*len(X)))
		cs.C.Data(ev)
		cs.Cover(fmt.Sprintf("mv:%s/n=%d", fam, n))
		cs.Nontrivial(fam, n, fmt.Sprint(sp.par), fmt.Sprint(X))
		if cs.Index < 2 {
			cs.Sample(map[string]any{"family": fam, "n": n, "params": sp.par, "x": X})
		}
	})

	c.Cases("mv.iwishart", c.N(320, 3000), func(cs *fw.Case) {
		r := cs.R
		n := 1 + cs.Index%4
		sp := mvGen(r, "iwishart", n)
		ev := sp.event()
		sig := "C14|iwishart|" + nClass(n)
		rsig := "C14|iwishart|-"
		var X [][]float64
		for i := 0; i < 4; i++ {
			X = append(X, spd(r, n, false))
		}
		// outside the support: not positive definite
		bad := spd(r, n, false)
		bad[0] = -bad[0]
		X = append(X, bad)
		if n > 1 {
			ind := spd(r, n, false)
			ind[1], ind[n] = 10*ind[0], 10*ind[0] // indefinite
			X = append(X, ind)
		}
		ev["xm"] = hxm(X)
		for ti, ty := range stypes {
			var d st.MatrixPdf
			var err error
			if pn := fw.Call(func() { d, err = sp.mkM(ty.t) }); pn != nil || err != nil || d == nil {
				cs.Violation(sig+"|valid-rejected|constructor", fmt.Sprintf("constructor fails on valid input: %v %v", err, pn), ev)
				return
			}
			vals := make([]string, len(X))
			for j, x := range X {
				vals[j] = evalMatLP(d, ty.t, x, n)
			}
			ev["lp"+ty.name] = vals
			var cl st.MatrixPdf
			if pn := fw.Call(func() { cl = d.CloneMatrixPdf() }); pn != nil || cl == nil {
				cs.Violation(rsig+"|clone|roundtrip", "CloneMatrixPdf panics or returns nil", ev)
			} else {
				for j, x := range X {
					if v := evalMatLP(cl, ty.t, x, n); v != vals[j] {
						cs.Violation(rsig+"|clone|roundtrip", fmt.Sprintf("clone.LogPdf = %s, original %s (X = %v)", v, vals[j], x), ev)
						break
					}
				}
				cs.Cover("roundtrip:clone")
			}
			other := mvGen(r, "iwishart", n)
			var e st.MatrixPdf
			var serr error
			if pn := fw.Call(func() { e, err = other.mkM(ty.t) }); pn == nil && err == nil && e != nil {
				if pn := fw.Call(func() { serr = e.SetParameters(d.GetParameters().CloneVector()) }); pn != nil {
					cs.Violation(rsig+"|set|roundtrip", "SetParameters(GetParameters()) panics: "+pn.Msg, ev)
				} else if serr != nil {
					cs.Violation(rsig+"|set|roundtrip", fmt.Sprintf("SetParameters(GetParameters()) returns error: %v", serr), ev)
				} else {
					for j, x := range X {
						if v := evalMatLP(e, ty.t, x, n); v != vals[j] {
							cs.Violation(rsig+"|set|roundtrip", fmt.Sprintf("LogPdf = %s after SetParameters(GetParameters()), original %s", v, vals[j]), ev)
							break
						}
					}
				}
				cs.Cover("roundtrip:set")
			}
			mkMO := func(s *mvSpec) func() (pobj, error) {
				return func() (pobj, error) {
					o, err := s.mkM(ty.t)
					if err != nil || o == nil {
						return pobj{}, fmt.Errorf("constructor: %v", err)
					}
					return mobj(o, ty.t, X, n, n), nil
				}
			}
			aliasCheck(cs, ev, rsig, mkMO(sp), mkMO(other))
			if n == 1 && ti == cs.Index%2 {
				var br []float64
				for _, k := range []float64{1.0 / 64, 1.0 / 16, 0.25, 0.5, 1, 2, 4, 16, 64, 1024} {
					br = append(br, sp.c*k)
				}
				ns := nodesFromBreaks(0, inf, br, 0, sp.c*1024)
				xs := make([]string, len(ns))
				lw := make([]string, len(ns))
				qv := make([]string, len(ns))
				for i, nd := range ns {
					xs[i], lw[i] = hx(nd.x), hx(nd.lw)
					qv[i] = evalMatLP(d, ty.t, []float64{nd.x}, 1)
				}
				ev["qx"], ev["qlw"], ev["qlp"], ev["qtype"] = xs, lw, qv, ty.name
				cs.C.Cover("quad-evaluations", int64(len(ns)))
			}
		}
		cs.C.Cover("lp-evaluations", int64(2*len(X)))
		cs.C.Data(ev)
		cs.Cover(fmt.Sprintf("mv:iwishart/n=%d", n))
		cs.Nontrivial("iwishart", n, fmt.Sprint(sp.par), fmt.Sprint(X))
		if cs.Index < 2 {
			cs.Sample(map[string]any{"family": "inverse Wishart", "n": n, "params": sp.par, "X": X})
		}
	})

	c.Cases("mv.niw", c.N(240, 2000), func(cs *fw.Case) {
		r := cs.R
		n := 1 + cs.Index%3
		kappa := r.LogUniform(0.1, 10)
		nu := float64(n) - 1 + r.LogUniform(0.3, 30)
		mu0, lambda := rvec(r, n, 2), spd(r, n, false)
		ev := map[string]any{"k": "mv", "fam": "niw", "n": n, "pclass": nClass(n),
			"p_kappa": hxs([]float64{kappa}), "p_nu": hxs([]float64{nu}), "p_mu": hxs(mu0), "p_lambda": hxs(lambda)}
		sig := "C14|niw|" + nClass(n)
		rsig := "C14|niw|-"
		var M, S [][]float64
		for i := 0; i < 4; i++ {
			m := make([]float64, n)
			for j := range m {
				m[j] = mu0[j] + pick(r, 0.5, 2, 8)*r.Norm()
			}
			M = append(M, m)
			S = append(S, spd(r, n, false))
		}
		ev["xv"], ev["xm"] = hxm(M), hxm(S)
		mk := func(t ad.ScalarType) (*md.NormalIWishartDistribution, error) {
			return md.NewNormalIWishartDistribution(sc(t, kappa), sc(t, nu), vec(t, mu0), mat(t, lambda, n, n))
		}
		evalNIW := func(d *md.NormalIWishartDistribution, t ad.ScalarType, m, s []float64) string {
			rr := ad.NewScalar(t, 0.0)
			var err error
			if p := fw.Call(func() { err = d.LogPdf(rr, vecArg(t, m), matArg(t, s, n)) }); p != nil {
				return "panic:" + p.Frame + ":" + short(p.Msg)
			}
			if err != nil {
				return "err:" + short(err.Error())
			}
			return hx(rr.GetFloat64())
		}
		for _, ty := range stypes {
			var d *md.NormalIWishartDistribution
			var err error
			if pn := fw.Call(func() { d, err = mk(ty.t) }); pn != nil || err != nil || d == nil {
				cs.Violation(sig+"|valid-rejected|constructor", fmt.Sprintf("constructor fails on valid input: %v %v", err, pn), ev)
				return
			}
			vals := make([]string, len(M))
			for j := range M {
				vals[j] = evalNIW(d, ty.t, M[j], S[j])
			}
			ev["lp"+ty.name] = vals
			var cl *md.NormalIWishartDistribution
			if pn := fw.Call(func() { cl = d.Clone() }); pn != nil || cl == nil {
				cs.Violation(rsig+"|clone|roundtrip", "Clone panics or returns nil", ev)
			} else {
				for j := range M {
					if v := evalNIW(cl, ty.t, M[j], S[j]); v != vals[j] {
						cs.Violation(rsig+"|clone|roundtrip", fmt.Sprintf("clone.LogPdf = %s, original %s", v, vals[j]), ev)
						break
					}
				}
				cs.Cover("roundtrip:clone")
			}
			var e *md.NormalIWishartDistribution
			var serr error
			k2, nu2 := r.LogUniform(0.1, 10), float64(n)+r.LogUniform(0.3, 30)
			mu2, l2 := rvec(r, n, 2), spd(r, n, false)
			if pn := fw.Call(func() {
				e, err = md.NewNormalIWishartDistribution(sc(ty.t, k2), sc(ty.t, nu2), vec(ty.t, mu2), mat(ty.t, l2, n, n))
			}); pn == nil && err == nil && e != nil {
				if pn := fw.Call(func() { serr = e.SetParameters(d.GetParameters().CloneVector()) }); pn != nil {
					cs.Violation(rsig+"|set|roundtrip", "SetParameters(GetParameters()) panics: "+pn.Msg, ev)
				} else if serr != nil {
					cs.Violation(rsig+"|set|roundtrip", fmt.Sprintf("SetParameters(GetParameters()) returns error: %v", serr), ev)
				} else {
					for j := range M {
						if v := evalNIW(e, ty.t, M[j], S[j]); v != vals[j] {
							cs.Violation(rsig+"|set|roundtrip", fmt.Sprintf("LogPdf = %s after SetParameters(GetParameters()), original %s", v, vals[j]), ev)
							break
						}
					}
				}
				cs.Cover("roundtrip:set")
			}
			mkNO := func(kappa, nu float64, mu, lam []float64) func() (pobj, error) {
				return func() (pobj, error) {
					o, err := md.NewNormalIWishartDistribution(sc(ty.t, kappa), sc(ty.t, nu), vec(ty.t, mu), mat(ty.t, lam, n, n))
					if err != nil || o == nil {
						return pobj{}, fmt.Errorf("constructor: %v", err)
					}
					return pobj{o.GetParameters, o.SetParameters, func(i int) string { return evalNIW(o, ty.t, M[i], S[i]) }, len(M)}, nil
				}
			}
			aliasCheck(cs, ev, rsig, mkNO(kappa, nu, mu0, lambda), mkNO(k2, nu2, mu2, l2))
		}
		cs.C.Cover("lp-evaluations", int64(2*len(M)))
		cs.C.Data(ev)
		cs.Cover(fmt.Sprintf("mv:niw/n=%d", n))
		cs.Nontrivial("niw", n, kappa, nu, fmt.Sprint(mu0, lambda), fmt.Sprint(M, S))
		if cs.Index < 2 {
			cs.Sample(map[string]any{"family": "normal inverse Wishart", "n": n, "kappa": kappa, "nu": nu, "mu": mu0, "lambda": lambda, "mu_x": M, "sigma_x": S})
		}
	})

	/* constructors of the multivariate families reject invalid parameters */
	type mvBad struct {
		fam, class string
		mk         func(t ad.ScalarType) (any, error)
	}
	I2 := []float64{1, 0, 0, 1}
	notPD := []float64{1, 2, 2, 1}
	negDef := []float64{-1, 0, 0, -1}
	bads := []mvBad{
		{"mvnormal", "sigma-not-pd", func(t ad.ScalarType) (any, error) {
			return vd.NewNormalDistribution(vec(t, []float64{0, 0}), mat(t, notPD, 2, 2))
		}},
		{"mvnormal", "sigma-negative-definite", func(t ad.ScalarType) (any, error) {
			return vd.NewNormalDistribution(vec(t, []float64{0, 0}), mat(t, negDef, 2, 2))
		}},
		{"mvnormal", "dim-mismatch", func(t ad.ScalarType) (any, error) {
			return vd.NewNormalDistribution(vec(t, []float64{0, 0, 0}), mat(t, I2, 2, 2))
		}},
		{"mvnormal", "sigma-not-square", func(t ad.ScalarType) (any, error) {
			return vd.NewNormalDistribution(vec(t, []float64{0, 0}), mat(t, []float64{1, 0, 0, 1, 0, 0}, 2, 3))
		}},
		{"mvt", "sigma-not-pd", func(t ad.ScalarType) (any, error) {
			return vd.NewTDistribution(sc(t, 3), vec(t, []float64{0, 0}), mat(t, notPD, 2, 2))
		}},
		{"mvt", "nu<=0", func(t ad.ScalarType) (any, error) {
			return vd.NewTDistribution(sc(t, 0), vec(t, []float64{0, 0}), mat(t, I2, 2, 2))
		}},
		{"mvt", "nu<=0", func(t ad.ScalarType) (any, error) {
			return vd.NewTDistribution(sc(t, -2), vec(t, []float64{0, 0}), mat(t, I2, 2, 2))
		}},
		{"mvt", "dim-mismatch", func(t ad.ScalarType) (any, error) {
			return vd.NewTDistribution(sc(t, 3), vec(t, []float64{0}), mat(t, I2, 2, 2))
		}},
		{"skewnormal", "omega-not-pd", func(t ad.ScalarType) (any, error) {
			return vd.NewSkewNormalDistribution(vec(t, []float64{0, 0}), mat(t, notPD, 2, 2), vec(t, []float64{1, 1}), vec(t, []float64{1, 1}))
		}},
		{"skewnormal", "scale<=0", func(t ad.ScalarType) (any, error) {
			return vd.NewSkewNormalDistribution(vec(t, []float64{0, 0}), mat(t, I2, 2, 2), vec(t, []float64{1, 1}), vec(t, []float64{1, 0}))
		}},
		{"skewnormal", "scale<=0", func(t ad.ScalarType) (any, error) {
			return vd.NewSkewNormalDistribution(vec(t, []float64{0, 0}), mat(t, I2, 2, 2), vec(t, []float64{1, 1}), vec(t, []float64{1, -2}))
		}},
		{"skewnormal", "dim-mismatch", func(t ad.ScalarType) (any, error) {
			return vd.NewSkewNormalDistribution(vec(t, []float64{0, 0}), mat(t, I2, 2, 2), vec(t, []float64{1}), vec(t, []float64{1, 1}))
		}},
		{"iwishart", "S-not-pd", func(t ad.ScalarType) (any, error) {
			return md.NewInverseWishartDistribution(sc(t, 4), mat(t, notPD, 2, 2))
		}},
		{"iwishart", "nu<=n-1", func(t ad.ScalarType) (any, error) {
			return md.NewInverseWishartDistribution(sc(t, 0.5), mat(t, I2, 2, 2))
		}},
		{"iwishart", "nu<=n-1", func(t ad.ScalarType) (any, error) {
			return md.NewInverseWishartDistribution(sc(t, -3), mat(t, I2, 2, 2))
		}},
		{"iwishart", "S-not-square", func(t ad.ScalarType) (any, error) {
			return md.NewInverseWishartDistribution(sc(t, 4), mat(t, []float64{1, 0, 0, 1, 0, 0}, 2, 3))
		}},
		{"niw", "kappa<=0", func(t ad.ScalarType) (any, error) {
			return md.NewNormalIWishartDistribution(sc(t, 0), sc(t, 4), vec(t, []float64{0, 0}), mat(t, I2, 2, 2))
		}},
		{"niw", "kappa<=0", func(t ad.ScalarType) (any, error) {
			return md.NewNormalIWishartDistribution(sc(t, -1), sc(t, 4), vec(t, []float64{0, 0}), mat(t, I2, 2, 2))
		}},
		{"niw", "lambda-not-pd", func(t ad.ScalarType) (any, error) {
			return md.NewNormalIWishartDistribution(sc(t, 1), sc(t, 4), vec(t, []float64{0, 0}), mat(t, notPD, 2, 2))
		}},
		{"niw", "dim-mismatch", func(t ad.ScalarType) (any, error) {
			return md.NewNormalIWishartDistribution(sc(t, 1), sc(t, 4), vec(t, []float64{0}), mat(t, I2, 2, 2))
		}},
		{"mixture", "weight<0", func(t ad.ScalarType) (any, error) {
			a, _ := famByName("normal").build(t, []float64{0, 1})
			b, _ := famByName("normal").build(t, []float64{1, 1})
			return nilIfErrAny(sdNewMixture(vec(t, []float64{-1, 2}), []st.ScalarPdf{a, b}))
		}},
		{"mixture", "count-mismatch", func(t ad.ScalarType) (any, error) {
			a, _ := famByName("normal").build(t, []float64{0, 1})
			return nilIfErrAny(sdNewMixture(vec(t, []float64{1, 2}), []st.ScalarPdf{a}))
		}},
	}
	c.Cases("mv.ctor", len(bads), func(cs *fw.Case) {
		b := bads[cs.Index]
		for _, ty := range stypes {
			var err error
			pn := fw.Call(func() { _, err = b.mk(ty.t) })
			wit := map[string]any{"family": b.fam, "class": b.class, "type": ty.name}
			cs.Cover("ctor:" + b.fam)
			cs.Cover("set:invalid-class:" + b.fam + "/" + b.class)
			switch {
			case pn != nil:
				cs.Violation(fmt.Sprintf("C14|%s|%s|-|panic", b.fam, b.class),
					fmt.Sprintf("constructor of %s panics on invalid parameters (%s) instead of returning an error: %s", b.fam, b.class, pn.Msg), wit)
			case err == nil:
				cs.Violation(fmt.Sprintf("C14|%s|%s|-|constructor", b.fam, b.class),
					fmt.Sprintf("constructor of %s accepts invalid parameters (%s, %s-held) without error", b.fam, b.class, ty.name), wit)
			default:
				cs.Cover("ctor-rejected")
			}
		}
		cs.Nontrivial("mv.ctor", b.fam, b.class)
	})
}
