// Package c14: probability distributions are proper and consistent
// (DESIGN.md, C14).  The worker constructs every distribution family with
// seeded parameter vectors, evaluates LogPdf / LogCdf / Cdf at points inside,
// on the boundary of and outside the support and writes the raw values
// (hex floats) for the offline oracle driver/oracles/c14.py; constructor
// rejection, parameter round trips and clones are judged in-process.
package c14

import (
	"fmt"
	"math"
	"sort"

	ad "github.com/pbenner/autodiff"
	st "github.com/pbenner/autodiff/statistics"
	sd "github.com/pbenner/autodiff/statistics/scalarDistribution"

	"verifharness/internal/prng"
)

// family describes one scalar family: how it is constructed from a flat
// parameter vector (the constructor's argument order), which parameter
// vectors are valid / invalid, and where its support lies (used only to aim
// evaluation points and quadrature panels; the oracle recomputes the support
// itself).
type family struct {
	name     string
	build    func(t ad.ScalarType, p []float64) (st.ScalarPdf, error)
	gen      func(r *prng.Rand) []float64 // a valid parameter vector
	directed [][]float64                  // valid directed parameter vectors
	pclass   func(p []float64) string     // parameter class label (signature)
	// support: lo, hi (may be infinite), discrete?
	support func(p []float64) (lo, hi float64, discrete bool)
	// location / scale of the bulk of the mass
	center  func(p []float64) (c, s float64)
	invalid []invalidClass
	// quadOK says whether a parameter vector is meant for the normalisation
	// monitor (bounded box without parameter values that make the quadrature
	// nodes unresolvable in float64); nil = all.
	quadOK func(p []float64) bool
	// thetaSpace: the argument is log(theta) (Beta with logScale): the
	// normalisation is taken over theta = exp(x).
	thetaSpace bool
}

type invalidClass struct {
	name string
	p    []float64
}

// arena records the scalars, vectors and matrices that the harness hands to
// constructors (all of them are made by sc / vec / mat), so that a monitor can
// overwrite them afterwards: a distribution must not keep references to the
// caller's arguments.
type arena struct{ items []any }

var rec *arena

// recording runs f and returns the arguments created by sc / vec / mat meanwhile.
func recording(f func()) *arena {
	old := rec
	a := &arena{}
	rec = a
	defer func() { rec = old }()
	f()
	return a
}

// overwrite sets every recorded argument to the value of its counterpart in
// vals (the arguments of a construction of the same structure with other valid
// parameters); arguments without counterpart of the same shape are moved to
// 0.75 x + 0.125.
func (a *arena) overwrite(vals *arena) {
	other := func(x float64) float64 { return 0.75*x + 0.125 }
	for i, it := range a.items {
		var o any
		if vals != nil && i < len(vals.items) {
			o = vals.items[i]
		}
		switch x := it.(type) {
		case ad.Scalar:
			if y, ok := o.(ad.Scalar); ok && y.GetFloat64() != x.GetFloat64() {
				x.SetFloat64(y.GetFloat64())
			} else {
				x.SetFloat64(other(x.GetFloat64()))
			}
		case ad.Vector:
			y, ok := o.(ad.Vector)
			for k := 0; k < x.Dim(); k++ {
				if ok && y.Dim() == x.Dim() && y.At(k).GetFloat64() != x.At(k).GetFloat64() {
					x.At(k).SetFloat64(y.At(k).GetFloat64())
				} else {
					x.At(k).SetFloat64(other(x.At(k).GetFloat64()))
				}
			}
		case ad.Matrix:
			y, ok := o.(ad.Matrix)
			n, m := x.Dims()
			same := false
			if ok {
				n2, m2 := y.Dims()
				same = n == n2 && m == m2
			}
			for k := 0; k < n; k++ {
				for l := 0; l < m; l++ {
					if same {
						x.At(k, l).SetFloat64(y.At(k, l).GetFloat64())
					} else {
						x.At(k, l).SetFloat64(other(x.At(k, l).GetFloat64()))
					}
				}
			}
		}
	}
}

func sc(t ad.ScalarType, v float64) ad.Scalar {
	r := ad.NewScalar(t, v)
	if rec != nil {
		rec.items = append(rec.items, r)
	}
	return r
}

func vec(t ad.ScalarType, v []float64) ad.Vector {
	r := ad.NullDenseVector(t, len(v))
	for i := range v {
		r.At(i).SetFloat64(v[i])
	}
	if rec != nil {
		rec.items = append(rec.items, r)
	}
	return r
}

func mat(t ad.ScalarType, v []float64, n, m int) ad.Matrix {
	r := ad.NullDenseMatrix(t, n, m)
	for i := 0; i < n; i++ {
		for j := 0; j < m; j++ {
			r.At(i, j).SetFloat64(v[i*m+j])
		}
	}
	if rec != nil {
		rec.items = append(rec.items, r)
	}
	return r
}

var inf = math.Inf(1)

func pick(r *prng.Rand, v ...float64) float64 { return v[r.Intn(len(v))] }

func locGen(r *prng.Rand) float64 {
	switch r.Intn(6) {
	case 0:
		return 0
	case 1:
		return float64(r.Range(-8, 8)) / 2
	default:
		return r.Uniform(-10, 10)
	}
}

func shapeClass(name string, v float64) string {
	switch {
	case v < 1:
		return name + "<1"
	case v == 1:
		return name + "=1"
	default:
		return name + ">1"
	}
}

// xiClass follows the branches of the implementation (xi == 0, support guard
// for xi >= 0 / xi < 0).
func xiClass(xi float64) string {
	switch {
	case xi == 0:
		return "xi=0"
	case xi > 0:
		return "xi>0"
	default:
		return "xi<0"
	}
}

func xiGen(r *prng.Rand, lim float64) float64 {
	switch r.Intn(8) {
	case 0:
		return 0
	case 1:
		s := 1.0
		if r.Bool() {
			s = -1
		}
		return s * r.LogUniform(1e-9, 1e-3)
	case 2:
		return pick(r, -1, -0.5, 0.5, 1)
	default:
		return r.Uniform(-lim, lim)
	}
}

func probClass(p float64) string {
	switch {
	case p == 0:
		return "p=0"
	case p == 1:
		return "p=1"
	default:
		return "0<p<1"
	}
}

func probGen(r *prng.Rand) float64 {
	switch r.Intn(8) {
	case 0:
		return r.LogUniform(1e-8, 1e-3)
	case 1:
		return 1 - r.LogUniform(1e-8, 1e-3)
	case 2:
		return float64(r.Range(1, 7)) / 8
	default:
		return r.Uniform(0.01, 0.99)
	}
}

var families []*family

func famByName(n string) *family {
	for _, f := range families {
		if f.name == n {
			return f
		}
	}
	panic("unknown family " + n)
}

func init() {
	real := func(p []float64) (float64, float64, bool) { return -inf, inf, false }
	locScale := func(p []float64) (float64, float64) { return p[0], p[1] }
	typical := func(p []float64) string { return "any" }
	sigmaClass := func(p []float64) string { return "any" }
	locScaleGen := func(r *prng.Rand) []float64 {
		return []float64{locGen(r), r.LogUniform(0.01, 100)}
	}
	locScaleInvalid := []invalidClass{{"sigma<=0", []float64{0.5, 0}}, {"sigma<=0", []float64{0.5, -1.5}}}

	families = []*family{
		{
			name: "normal",
			build: func(t ad.ScalarType, p []float64) (st.ScalarPdf, error) {
				return nilIfErr(sd.NewNormalDistribution(sc(t, p[0]), sc(t, p[1])))
			},
			gen: locScaleGen, directed: [][]float64{{0, 1}, {2, 3}, {-1.5, 0.25}},
			pclass: sigmaClass, support: real, center: locScale, invalid: locScaleInvalid,
		},
		{
			name: "laplace",
			build: func(t ad.ScalarType, p []float64) (st.ScalarPdf, error) {
				return nilIfErr(sd.NewLaplaceDistribution(sc(t, p[0]), sc(t, p[1])))
			},
			gen: locScaleGen, directed: [][]float64{{0, 1}, {2, 3}, {-1.5, 0.25}},
			pclass: sigmaClass, support: real, center: locScale, invalid: locScaleInvalid,
		},
		{
			name: "cauchy",
			build: func(t ad.ScalarType, p []float64) (st.ScalarPdf, error) {
				return nilIfErr(sd.NewCauchyDistribution(sc(t, p[0]), sc(t, p[1])))
			},
			gen: locScaleGen, directed: [][]float64{{0, 1}, {2, 3}, {-1.5, 0.25}},
			pclass: sigmaClass, support: real, center: locScale, invalid: locScaleInvalid,
		},
		{
			name: "pareto", // (lambda = scale / minimum, kappa = shape)
			build: func(t ad.ScalarType, p []float64) (st.ScalarPdf, error) {
				return nilIfErr(sd.NewParetoDistribution(sc(t, p[0]), sc(t, p[1])))
			},
			gen: func(r *prng.Rand) []float64 {
				return []float64{r.LogUniform(0.01, 100), r.LogUniform(0.05, 50)}
			},
			directed: [][]float64{{1, 1}, {2, 3}, {0.5, 0.25}},
			pclass:   typical,
			support:  func(p []float64) (float64, float64, bool) { return p[0], inf, false },
			center:   func(p []float64) (float64, float64) { return p[0], p[0] * math.Max(1/p[1], 0.05) },
			invalid: []invalidClass{{"lambda<=0", []float64{0, 2}}, {"lambda<=0", []float64{-1, 2}},
				{"kappa<=0", []float64{1, 0}}, {"kappa<=0", []float64{1, -2}}},
		},
		{
			name: "gpareto", // (mu, sigma, xi)
			build: func(t ad.ScalarType, p []float64) (st.ScalarPdf, error) {
				return nilIfErr(sd.NewGParetoDistribution(sc(t, p[0]), sc(t, p[1]), sc(t, p[2])))
			},
			gen: func(r *prng.Rand) []float64 {
				return []float64{locGen(r) / 2, r.LogUniform(0.05, 20), xiGen(r, 2)}
			},
			directed: [][]float64{{0, 1, 0}, {1, 2, 0}, {0, 1, 0.5}, {1, 2, -0.5}, {-1, 0.5, -1}, {0.5, 2, 1e-8}, {0, 1, -2}},
			pclass:   func(p []float64) string { return xiClass(p[2]) },
			support: func(p []float64) (float64, float64, bool) {
				if p[2] >= 0 {
					return p[0], inf, false
				}
				return p[0], p[0] - p[1]/p[2], false
			},
			center:  func(p []float64) (float64, float64) { return p[0], p[1] },
			invalid: []invalidClass{{"sigma<=0", []float64{0.5, 0, 0.5}}, {"sigma<=0", []float64{0.5, -1, 0.5}}},
			quadOK:  func(p []float64) bool { return p[2] > -0.9 && p[2] < 1.5 },
		},
		{
			name: "gev", // (mu, sigma, xi)
			build: func(t ad.ScalarType, p []float64) (st.ScalarPdf, error) {
				return nilIfErr(sd.NewGevDistribution(sc(t, p[0]), sc(t, p[1]), sc(t, p[2])))
			},
			gen: func(r *prng.Rand) []float64 {
				return []float64{locGen(r) / 2, r.LogUniform(0.05, 20), xiGen(r, 1.5)}
			},
			directed: [][]float64{{0, 1, 0}, {1, 2, 0}, {0, 1, 0.5}, {1, 2, -0.5}, {-1, 0.5, -1}, {0.5, 2, 1e-8}, {0, 1, -1.25}},
			pclass:   func(p []float64) string { return xiClass(p[2]) },
			support: func(p []float64) (float64, float64, bool) {
				switch {
				case p[2] > 0:
					return p[0] - p[1]/p[2], inf, false
				case p[2] < 0:
					return -inf, p[0] - p[1]/p[2], false
				}
				return -inf, inf, false
			},
			center:  func(p []float64) (float64, float64) { return p[0], p[1] },
			invalid: []invalidClass{{"sigma<=0", []float64{0.5, 0, 0.5}}, {"sigma<=0", []float64{0.5, -1, 0.5}}},
			quadOK:  func(p []float64) bool { return p[2] > -0.9 && p[2] < 1.5 },
		},
		{
			name: "gamma", // (alpha = shape, beta = rate)
			build: func(t ad.ScalarType, p []float64) (st.ScalarPdf, error) {
				return nilIfErr(sd.NewGammaDistribution(sc(t, p[0]), sc(t, p[1])))
			},
			gen: func(r *prng.Rand) []float64 {
				a := r.LogUniform(0.02, 200)
				if r.Intn(8) == 0 {
					a = pick(r, 0.5, 1, 2, 3)
				}
				return []float64{a, r.LogUniform(0.01, 100)}
			},
			directed: [][]float64{{1, 1}, {2.5, 2}, {0.5, 3}, {0.05, 1}, {150, 0.5}},
			pclass:   typical,
			support:  func(p []float64) (float64, float64, bool) { return 0, inf, false },
			center:   func(p []float64) (float64, float64) { return p[0] / p[1], math.Sqrt(p[0]) / p[1] },
			invalid: []invalidClass{{"alpha<=0", []float64{0, 1}}, {"alpha<=0", []float64{-1, 1}},
				{"beta<=0", []float64{1, 0}}, {"beta<=0", []float64{1, -2}}},
		},
		betaFamily(false), betaFamily(true),
		{
			name: "binomial", // (theta, n)
			build: func(t ad.ScalarType, p []float64) (st.ScalarPdf, error) {
				return nilIfErr(sd.NewBinomialDistribution(sc(t, p[0]), int(p[1])))
			},
			gen: func(r *prng.Rand) []float64 {
				n := pick(r, 0, 1, 2, 3, 5, 10, 20, 50, 100, 400)
				p := probGen(r)
				if r.Intn(12) == 0 {
					p = pick(r, 0, 1)
				}
				return []float64{p, n}
			},
			directed: [][]float64{{0.5, 10}, {0.25, 1}, {0.125, 0}, {0, 5}, {1, 5}, {0.875, 100}, {0.12010524195153012, 2}},
			pclass:   func(p []float64) string { return probClass(p[0]) },
			support:  func(p []float64) (float64, float64, bool) { return 0, p[1], true },
			center: func(p []float64) (float64, float64) {
				return p[0] * p[1], math.Sqrt(p[1]*p[0]*(1-p[0])) + 1
			},
			invalid: []invalidClass{{"theta<=0", []float64{-0.25, 5}}, {"theta>1", []float64{1.25, 5}}, {"n<=0", []float64{0.5, -1}}},
		},
		{
			name: "negbinomial", // (r, p): Gamma(r+k)/Gamma(k+1)/Gamma(r) p^k (1-p)^r
			build: func(t ad.ScalarType, p []float64) (st.ScalarPdf, error) {
				return nilIfErr(sd.NewNegativeBinomialDistribution(sc(t, p[0]), sc(t, p[1])))
			},
			gen: func(r *prng.Rand) []float64 {
				p := r.Uniform(0.01, 0.95)
				switch r.Intn(10) {
				case 0:
					p = r.LogUniform(1e-8, 1e-3)
				case 1:
					p = 0
				case 2:
					p = float64(r.Range(1, 7)) / 8
				}
				return []float64{r.LogUniform(0.05, 30), p}
			},
			directed: [][]float64{{1, 0.5}, {3.5, 0.25}, {0.25, 0.875}, {2, 0}},
			pclass:   func(p []float64) string { return probClass(p[1]) },
			support:  func(p []float64) (float64, float64, bool) { return 0, inf, true },
			center: func(p []float64) (float64, float64) {
				return p[0] * p[1] / (1 - p[1]), math.Sqrt(p[0]*p[1])/(1-p[1]) + 1
			},
			invalid: []invalidClass{{"r<=0", []float64{0, 0.5}}, {"r<=0", []float64{-1, 0.5}},
				{"p<=0", []float64{2, -0.25}}, {"p>1", []float64{2, 1.25}}},
		},
		{
			name: "poisson",
			build: func(t ad.ScalarType, p []float64) (st.ScalarPdf, error) {
				return nilIfErr(sd.NewPoissonDistribution(sc(t, p[0])))
			},
			gen:      func(r *prng.Rand) []float64 { return []float64{r.LogUniform(1e-3, 300)} },
			directed: [][]float64{{1}, {0.25}, {30}},
			pclass:   typical,
			support:  func(p []float64) (float64, float64, bool) { return 0, inf, true },
			center:   func(p []float64) (float64, float64) { return p[0], math.Sqrt(p[0]) + 1 },
			invalid:  []invalidClass{{"lambda<=0", []float64{0}}, {"lambda<=0", []float64{-2}}},
		},
		{
			name: "geometric", // p (1-p)^k, k >= 0
			build: func(t ad.ScalarType, p []float64) (st.ScalarPdf, error) {
				return nilIfErr(sd.NewGeometricDistribution(sc(t, p[0])))
			},
			gen: func(r *prng.Rand) []float64 {
				switch r.Intn(8) {
				case 0:
					return []float64{1}
				case 1:
					return []float64{float64(r.Range(1, 7)) / 8}
				}
				return []float64{r.LogUniform(0.01, 1)}
			},
			directed: [][]float64{{0.5}, {0.125}, {1}},
			pclass:   func(p []float64) string { return probClass(p[0]) },
			support:  func(p []float64) (float64, float64, bool) { return 0, inf, true },
			center:   func(p []float64) (float64, float64) { return (1 - p[0]) / p[0], math.Sqrt(1-p[0])/p[0] + 1 },
			invalid:  []invalidClass{{"p<=0", []float64{0}}, {"p<=0", []float64{-0.25}}, {"p>1", []float64{1.25}}},
		},
		{
			name: "categorical", // theta_0 .. theta_{K-1}
			build: func(t ad.ScalarType, p []float64) (st.ScalarPdf, error) {
				return nilIfErr(sd.NewCategoricalDistribution(vec(t, p)))
			},
			gen: func(r *prng.Rand) []float64 {
				// dyadic probabilities k/64 that sum to exactly one; zeros allowed
				k := r.Range(1, 6)
				cuts := make([]int, 0, k+1)
				cuts = append(cuts, 0, 64)
				for i := 0; i < k-1; i++ {
					cuts = append(cuts, r.Range(0, 64))
				}
				sort.Ints(cuts)
				p := make([]float64, k)
				for i := 0; i < k; i++ {
					p[i] = float64(cuts[i+1]-cuts[i]) / 64
				}
				return p
			},
			directed: [][]float64{{1}, {0.5, 0.5}, {0.25, 0.25, 0.5}, {0.5, 0, 0.5}},
			pclass:   func(p []float64) string { return "any" },
			support:  func(p []float64) (float64, float64, bool) { return 0, float64(len(p) - 1), true },
			center:   func(p []float64) (float64, float64) { return float64(len(p)-1) / 2, float64(len(p)) },
			invalid: []invalidClass{{"theta<=0", []float64{-0.25, 1.25}}, {"theta>1", []float64{1.5, 0.5}},
				{"sum!=1", []float64{0.25, 0.25}}, {"empty", []float64{}}},
		},
		{
			name: "chisq", // k degrees of freedom
			build: func(t ad.ScalarType, p []float64) (st.ScalarPdf, error) {
				return nilIfErr(sd.NewChiSquaredDistribution(t, p[0]))
			},
			gen: func(r *prng.Rand) []float64 {
				if r.Bool() {
					return []float64{pick(r, 1, 2, 3, 4, 5, 10, 30, 100)}
				}
				return []float64{r.LogUniform(0.1, 200)}
			},
			directed: [][]float64{{1}, {2}, {3}, {4.5}},
			pclass:   typical,
			support:  func(p []float64) (float64, float64, bool) { return 0, inf, false },
			center:   func(p []float64) (float64, float64) { return p[0], math.Sqrt(2 * p[0]) },
			invalid:  []invalidClass{{"k<=0", []float64{0}}, {"k<=0", []float64{-2}}},
		},
		{
			name: "exponential", // lambda = rate
			build: func(t ad.ScalarType, p []float64) (st.ScalarPdf, error) {
				return nilIfErr(sd.NewExponentialDistribution(sc(t, p[0])))
			},
			gen:      func(r *prng.Rand) []float64 { return []float64{r.LogUniform(1e-3, 1e3)} },
			directed: [][]float64{{1}, {0.25}, {30}},
			pclass:   typical,
			support:  func(p []float64) (float64, float64, bool) { return 0, inf, false },
			center:   func(p []float64) (float64, float64) { return 1 / p[0], 1 / p[0] },
			invalid:  []invalidClass{{"lambda<=0", []float64{0}}, {"lambda<=0", []float64{-2}}},
		},
		{
			name: "gengamma", // (a = scale, d, p): p/a^d x^(d-1) exp(-(x/a)^p) / Gamma(d/p)
			build: func(t ad.ScalarType, p []float64) (st.ScalarPdf, error) {
				return nilIfErr(sd.NewGeneralizedGammaDistribution(sc(t, p[0]), sc(t, p[1]), sc(t, p[2])))
			},
			gen: func(r *prng.Rand) []float64 {
				return []float64{r.LogUniform(0.05, 20), r.LogUniform(0.1, 20), r.LogUniform(0.2, 8)}
			},
			directed: [][]float64{{1, 1, 1}, {2, 3, 2}, {0.5, 0.5, 1.5}, {1, 2, 2}},
			pclass:   typical,
			support:  func(p []float64) (float64, float64, bool) { return 0, inf, false },
			center: func(p []float64) (float64, float64) {
				k := p[1] / p[2]
				c := p[0] * math.Pow(k, 1/p[2])
				return c, c / (p[2] * math.Sqrt(k))
			},
			invalid: []invalidClass{{"a<=0", []float64{0, 1, 1}}, {"a<=0", []float64{-1, 1, 1}}, {"d<=0", []float64{1, 0, 1}},
				{"d<=0", []float64{1, -1, 1}}, {"p<=0", []float64{1, 1, 0}}, {"p<=0", []float64{1, 1, -1}}},
		},
		{
			name: "powerlaw", // (alpha, xmin): (alpha-1)/xmin (x/xmin)^-alpha, x >= xmin
			build: func(t ad.ScalarType, p []float64) (st.ScalarPdf, error) {
				return nilIfErr(sd.NewPowerLawDistribution(sc(t, p[0]), sc(t, p[1])))
			},
			gen: func(r *prng.Rand) []float64 {
				return []float64{1 + r.LogUniform(0.05, 20), r.LogUniform(0.01, 100)}
			},
			directed: [][]float64{{2, 1}, {1.5, 2}, {3.5, 0.5}},
			pclass:   typical,
			support:  func(p []float64) (float64, float64, bool) { return p[1], inf, false },
			center:   func(p []float64) (float64, float64) { return p[1], p[1] * math.Max(1/(p[0]-1), 0.05) },
			invalid: []invalidClass{{"alpha<=0", []float64{0, 1}}, {"alpha<=0", []float64{-1, 1}}, {"alpha=1", []float64{1, 1}},
				{"0<alpha<1", []float64{0.5, 1}}, {"xmin<=0", []float64{2, 0}}, {"xmin<=0", []float64{2, -1}}},
		},
		{
			name: "delta",
			build: func(t ad.ScalarType, p []float64) (st.ScalarPdf, error) {
				return nilIfErr(sd.NewDeltaDistribution(sc(t, p[0])))
			},
			gen:      func(r *prng.Rand) []float64 { return []float64{locGen(r)} },
			directed: [][]float64{{0}, {2.5}},
			pclass:   typical,
			support:  func(p []float64) (float64, float64, bool) { return p[0], p[0], true },
			center:   func(p []float64) (float64, float64) { return p[0], 1 },
		},
	}
}

func betaFamily(logScale bool) *family {
	name := "beta"
	if logScale {
		name = "beta.log" // argument is log(theta); the value is the Beta log-density of theta
	}
	return &family{
		name: name,
		build: func(t ad.ScalarType, p []float64) (st.ScalarPdf, error) {
			return nilIfErr(sd.NewBetaDistribution(sc(t, p[0]), sc(t, p[1]), logScale))
		},
		gen: func(r *prng.Rand) []float64 {
			g := func() float64 {
				if r.Intn(6) == 0 {
					return pick(r, 0.5, 1, 2, 3)
				}
				return r.LogUniform(0.05, 100)
			}
			return []float64{g(), g()}
		},
		directed: [][]float64{{1, 1}, {2, 3}, {0.5, 0.5}, {1, 4}, {5, 1}, {0.25, 2}},
		pclass: func(p []float64) string { // branches alpha-1 == 0, beta-1 == 0 of the implementation
			switch {
			case p[0] == 1 && p[1] == 1:
				return "alpha=1,beta=1"
			case p[0] == 1:
				return "alpha=1"
			case p[1] == 1:
				return "beta=1"
			}
			return "general"
		},
		support: func(p []float64) (float64, float64, bool) {
			if logScale {
				return -inf, 0, false
			}
			return 0, 1, false
		},
		center: func(p []float64) (float64, float64) {
			m := p[0] / (p[0] + p[1])
			s := math.Sqrt(p[0]*p[1]/(p[0]+p[1]+1)) / (p[0] + p[1])
			if logScale {
				return math.Log(m), math.Max(s/m, 0.01)
			}
			return m, s
		},
		invalid: []invalidClass{{"alpha<=0", []float64{0, 1}}, {"alpha<=0", []float64{-1, 1}},
			{"beta<=0", []float64{1, 0}}, {"beta<=0", []float64{1, -2}}},
		thetaSpace: logScale,
		quadOK:     func(p []float64) bool { return p[1] >= 0.3 }, // (1-x)^(beta-1): the upper end point is not at zero
	}
}

// nilIfErr turns a typed nil pointer returned next to an error into a nil
// interface.
func nilIfErr[T st.ScalarPdf](d T, err error) (st.ScalarPdf, error) {
	if err != nil {
		return nil, err
	}
	return d, nil
}

func fmtParams(p []float64) string { return fmt.Sprint(p) }
