package c14

import (
	"fmt"
	"math"

	ad "github.com/pbenner/autodiff"
	st "github.com/pbenner/autodiff/statistics"
	sd "github.com/pbenner/autodiff/statistics/scalarDistribution"
	vd "github.com/pbenner/autodiff/statistics/vectorDistribution"

	"verifharness/internal/fw"
	"verifharness/internal/prng"
)

// Wrapped distributions: log-transform, translation, mixture, i.i.d. and
// independent products over base families that the pointwise monitor checks
// on their own.  The oracle applies the composition rule to the reference
// density of the base family.

var wrapBases = []string{"normal", "gamma", "exponential", "cauchy", "gengamma", "beta", "gev"}

// baseGen draws moderate parameters of a base family (the wrappers are about
// the composition, the extremes of the base are covered by the pts monitor).
func baseGen(r *prng.Rand, name string) []float64 {
	switch name {
	case "normal", "cauchy":
		return []float64{float64(r.Range(-12, 12)) / 4, r.LogUniform(0.2, 2)}
	case "gamma":
		return []float64{r.LogUniform(0.5, 20), r.LogUniform(0.2, 5)}
	case "exponential":
		return []float64{r.LogUniform(0.1, 10)}
	case "gengamma":
		return []float64{r.LogUniform(0.3, 5), r.LogUniform(0.5, 8), r.LogUniform(0.5, 4)}
	case "beta":
		return []float64{r.LogUniform(0.5, 20), r.LogUniform(0.5, 20)}
	case "gev":
		return []float64{float64(r.Range(-8, 8)) / 4, r.LogUniform(0.3, 3), pick(r, 0, 0.25, -0.25, r.Uniform(-0.4, 0.4))}
	}
	panic("no base generator for " + name)
}

func baseDesc(name string, p []float64) map[string]any {
	return map[string]any{"fam": name, "params": hxs(p)}
}

// nodesFromBreaks builds the tanh-sinh nodes of the panels between the given
// interior break points of (lo, hi).
func nodesFromBreaks(lo, hi float64, br []float64, sLeft, sRight float64) []node {
	sortFloats(br)
	var b []float64
	for _, v := range br {
		if v > lo && v < hi && !isInf(v) && !math.IsNaN(v) && (len(b) == 0 || v > b[len(b)-1]) {
			b = append(b, v)
		}
	}
	if len(b) == 0 { // no break point inside the support: one in the middle (or one scale from a finite end)
		switch {
		case !isInf(lo) && !isInf(hi):
			b = append(b, lo+(hi-lo)/2)
		case !isInf(lo):
			b = append(b, lo+math.Max(sRight, 1))
		case !isInf(hi):
			b = append(b, hi-math.Max(sLeft, 1))
		default:
			b = append(b, 0)
		}
	}
	var ns []node
	if isInf(lo) {
		ns = append(ns, tanhSinh(panelLeftInf, 0, b[0], sLeft, false)...)
	} else {
		ns = append(ns, tanhSinh(panelFinite, lo, b[0], 0, false)...)
	}
	for i := 0; i+1 < len(b); i++ {
		ns = append(ns, tanhSinh(panelFinite, b[i], b[i+1], 0, false)...)
	}
	if isInf(hi) {
		ns = append(ns, tanhSinh(panelRightInf, b[len(b)-1], 0, sRight, false)...)
	} else {
		ns = append(ns, tanhSinh(panelFinite, b[len(b)-1], hi, 0, false)...)
	}
	return ns
}

func emitNodes(ev map[string]any, d st.ScalarPdf, t ad.ScalarType, ns []node) {
	xs := make([]string, len(ns))
	lw := make([]string, len(ns))
	vals := make([]string, len(ns))
	for i, n := range ns {
		xs[i] = hx(n.x)
		lw[i] = hx(n.lw)
		vals[i] = evalLP(d, t, n.x)
	}
	ev["qx"] = xs
	ev["qlw"] = lw
	ev["qlp"] = vals
}

func baseBreaks(f *family, p []float64, shift float64) (lo, hi float64, br []float64, s float64) {
	lo, hi, _ = f.support(p)
	c, s := f.center(p)
	for _, k := range []float64{-32, -8, -2, 0, 2, 8, 32} {
		br = append(br, c+k*s+shift)
	}
	if !isInf(lo) {
		br = append(br, lo+shift)
	}
	if !isInf(hi) {
		br = append(br, hi+shift)
	}
	return lo + shift, hi + shift, br, s
}

// wrapEval evaluates a wrapper built by mk at xs (both parameter types), checks
// its clone and, with mkOther (same structure, other parameters), the
// parameter round trips: SetParameters(GetParameters()) is the identity and
// other.SetParameters(d.GetParameters()) turns other into d.
func wrapEval(cs *fw.Case, ev map[string]any, sigHead string, xs []float64, mk func(t ad.ScalarType) (st.ScalarPdf, error), quad func() []node, mkOther ...func(t ad.ScalarType) (st.ScalarPdf, error)) {
	ev["x"] = hxs(xs)
	for i, ty := range stypes {
		var d st.ScalarPdf
		var err error
		if pn := fw.Call(func() { d, err = mk(ty.t) }); pn != nil || err != nil || d == nil {
			cs.Violation(sigHead+"|valid-rejected|constructor", fmt.Sprintf("constructor fails on valid input (%s): %v %v", ty.name, err, pn), ev)
			return
		}
		vals := make([]string, len(xs))
		for j, x := range xs {
			vals[j] = evalLP(d, ty.t, x)
		}
		ev["lp"+ty.name] = vals
		// clone must give the same values
		var c st.ScalarPdf
		if pn := fw.Call(func() { c = d.CloneScalarPdf() }); pn != nil || c == nil {
			cs.Violation(sigHead+"|clone|roundtrip", "CloneScalarPdf panics or returns nil", ev)
		} else {
			for j, x := range xs {
				if v := evalLP(c, ty.t, x); v != vals[j] {
					cs.Violation(sigHead+"|clone|roundtrip", fmt.Sprintf("clone.LogPdf(%v) = %s, original %s", x, v, vals[j]), ev)
					break
				}
			}
		}
		if len(mkOther) > 0 {
			setRoundTrip(cs, ev, sigHead, ty, d, vals, xs, mk, mkOther[0])
		}
		if quad != nil && i == cs.Index%2 {
			if ns := quad(); ns != nil {
				emitNodes(ev, d, ty.t, ns)
				ev["qtype"] = ty.name
				cs.C.Cover("quad-evaluations", int64(len(ns)))
			}
		}
	}
	cs.C.Cover("lp-evaluations", int64(2*len(xs)))
	cs.C.Data(ev)
}

func setRoundTrip(cs *fw.Case, ev map[string]any, sigHead string, ty scalarType, d st.ScalarPdf, vals []string, xs []float64,
	mk, mkOther func(t ad.ScalarType) (st.ScalarPdf, error)) {
	sig := sigHead + "|set|roundtrip"
	var pv []float64
	if pn := fw.Call(func() { pv = floats(d.GetParameters()) }); pn != nil {
		cs.Violation(sig, "GetParameters panics: "+pn.Msg, ev)
		return
	}
	check := func(what string, e st.ScalarPdf) {
		var serr error
		if pn := fw.Call(func() { serr = e.SetParameters(guard(d.GetParameters().CloneVector())) }); pn != nil {
			cs.Violation(sig, fmt.Sprintf("%s: SetParameters panics: %s", what, pn.Msg), ev)
			return
		} else if serr != nil {
			cs.Violation(sig, fmt.Sprintf("%s: SetParameters returns error: %v", what, serr), ev)
			return
		}
		var pe []float64
		if pn := fw.Call(func() { pe = floats(e.GetParameters()) }); pn != nil {
			cs.Violation(sig, what+": GetParameters after SetParameters panics: "+pn.Msg, ev)
		} else if !sameBits(pe, pv) {
			cs.Violation(sig, fmt.Sprintf("%s: GetParameters() = %v after SetParameters(%v)", what, pe, pv), ev)
		}
		for j, x := range xs {
			if v := evalLP(e, ty.t, x); v != vals[j] {
				cs.Violation(sig, fmt.Sprintf("%s: LogPdf(%v) = %s, the object that holds these parameters gives %s", what, x, v, vals[j]), ev)
				break
			}
		}
		cs.Cover("roundtrip:set")
	}
	var same, other st.ScalarPdf
	var err error
	if pn := fw.Call(func() { same, err = mk(ty.t) }); pn == nil && err == nil && same != nil {
		check("SetParameters(GetParameters()) on an identical object", same)
	}
	if pn := fw.Call(func() { other, err = mkOther(ty.t) }); pn == nil && err == nil && other != nil {
		check("SetParameters(GetParameters()) into an object of the same structure with other parameters", other)
	}
	wrapP := func(mk func(t ad.ScalarType) (st.ScalarPdf, error)) func() (pobj, error) {
		return func() (pobj, error) {
			o, err := mk(ty.t)
			if err != nil || o == nil {
				return pobj{}, fmt.Errorf("constructor: %v", err)
			}
			return sobj(o, ty.t, xs), nil
		}
	}
	aliasCheck(cs, ev, sigHead, wrapP(mk), wrapP(mkOther))
}

// countingVector wraps a parameter vector and counts the nested Slice calls: a
// SetParameters that calls itself without end panics (recoverably) instead of
// overflowing the stack of the worker.
type countingVector struct {
	ad.Vector
	n *int
}

func (v countingVector) Slice(i, j int) ad.Vector {
	*v.n++
	if *v.n > 10000 {
		panic("more than 10000 Slice calls on the parameter vector: SetParameters does not terminate")
	}
	return countingVector{v.Vector.Slice(i, j), v.n}
}

func guard(v ad.Vector) ad.Vector { return countingVector{v, new(int)} }

func runWrappers(c *fw.Ctx) {
	/* log transform: X = exp(Y) - c, Y ~ base */
	c.Cases("wrap.logtransform", c.N(300, 3000), func(cs *fw.Case) {
		r := cs.R
		name := []string{"normal", "cauchy", "gev"}[cs.Index%3]
		f := famByName(name)
		var p []float64
		if name == "gev" {
			p = []float64{float64(r.Range(-4, 4)) / 4, r.LogUniform(0.3, 1.5), pick(r, 0, 0.25, -0.25)}
		} else {
			p = []float64{float64(r.Range(-8, 8)) / 4, r.LogUniform(0.15, 1.5)}
		}
		pc := 0.0
		pcl := "c=0"
		if cs.Index%4 >= 2 {
			pc = pick(r, 0.5, 1, r.LogUniform(0.01, 10))
			pcl = "c>0"
		}
		// points: images of base points, zero, just above zero, negative values
		var xs []float64
		for _, y := range points(f, r, p, 6) {
			if x := math.Exp(y) - pc; !isInf(x) && !math.IsNaN(x) {
				xs = append(xs, x)
			}
		}
		xs = append(xs, 0, minNormal, r.LogUniform(1e-12, 1e-3), -r.LogUniform(1e-6, 1e3), -pc, -pc/2, -pc-r.Float64())
		ev := map[string]any{"k": "wrap", "kind": "logtransform", "pclass": pcl, "c": hx(pc), "base": baseDesc(name, p)}
		sig := fmt.Sprintf("C14|logtransform(%s)|%s", name, pcl)
		p2 := otherParams(r, f, p)
		mkLT := func(q []float64) func(t ad.ScalarType) (st.ScalarPdf, error) {
			return func(t ad.ScalarType) (st.ScalarPdf, error) {
				b, err := f.build(t, q)
				if err != nil {
					return nil, err
				}
				return nilIfErr(sd.NewPdfLogTransform(b, pc))
			}
		}
		wrapEval(cs, ev, sig, xs, mkLT(p), func() []node {
			if name != "normal" {
				return nil
			}
			var br []float64
			for _, k := range []float64{-12, -8, -5, -3, -2, -1, 0, 1, 2, 3, 5, 8, 12} {
				br = append(br, math.Exp(p[0]+k*p[1])-pc)
			}
			sortFloats(br)
			last := br[len(br)-1]
			// X = exp(Y) - c lives on (-c, inf)
			return nodesFromBreaks(-pc, inf, br, 0, math.Max(last, 1))
		}, mkLT(p2))
		cs.Cover("wrap:logtransform/" + pcl)
		cs.Nontrivial("logtransform", name, fmtParams(p), pc, fmt.Sprint(xs))
		if cs.Index < 2 {
			cs.Sample(map[string]any{"wrapper": "PdfLogTransform", "base": name, "params": p, "pseudocount": pc, "x": xs})
		}
	})

	/* translation: LogPdf(x) = base.LogPdf(x + c) */
	c.Cases("wrap.translation", c.N(300, 3000), func(cs *fw.Case) {
		r := cs.R
		name := wrapBases[cs.Index%len(wrapBases)]
		f := famByName(name)
		p := baseGen(r, name)
		tc := pick(r, 0, float64(r.Range(-20, 20))/4, r.Uniform(-5, 5))
		var xs []float64
		for _, y := range points(f, r, p, 6) {
			xs = append(xs, y-tc)
		}
		ev := map[string]any{"k": "wrap", "kind": "translation", "pclass": "typical", "c": hx(tc), "base": baseDesc(name, p)}
		sig := fmt.Sprintf("C14|translation(%s)|typical", name)
		p2 := baseGen(r, name)
		mkTr := func(q []float64) func(t ad.ScalarType) (st.ScalarPdf, error) {
			return func(t ad.ScalarType) (st.ScalarPdf, error) {
				b, err := f.build(t, q)
				if err != nil {
					return nil, err
				}
				return nilIfErr(sd.NewPdfTranslation(b, tc))
			}
		}
		wrapEval(cs, ev, sig, xs, mkTr(p), func() []node {
			lo, hi, br, s := baseBreaks(f, p, -tc)
			return nodesFromBreaks(lo, hi, br, s, s)
		}, mkTr(p2))
		cs.Cover("wrap:translation")
		cs.Nontrivial("translation", name, fmtParams(p), tc, fmt.Sprint(xs))
		if cs.Index < 2 {
			cs.Sample(map[string]any{"wrapper": "PdfTranslation", "base": name, "params": p, "c": tc, "x": xs})
		}
	})

	/* mixture */
	c.Cases("wrap.mixture", c.N(400, 3500), func(cs *fw.Case) {
		r := cs.R
		k := r.Range(1, 4)
		names := make([]string, k)
		ps := make([][]float64, k)
		w := make([]float64, k)
		var xs, br []float64
		lo, hi, sl, sr := inf, -inf, 1.0, 1.0
		var bases []map[string]any
		pcl := fmt.Sprintf("K=%d", k)
		for i := 0; i < k; i++ {
			names[i] = wrapBases[r.Intn(len(wrapBases))]
			f := famByName(names[i])
			ps[i] = baseGen(r, names[i])
			w[i] = pick(r, 1, 2, 0.5, r.LogUniform(0.01, 10))
			if k > 1 && r.Intn(10) == 0 {
				w[i] = 0
				pcl = fmt.Sprintf("K=%d,zero-weight", k)
			}
			xs = append(xs, points(f, r, ps[i], 3)...)
			l, h, b, s := baseBreaks(f, ps[i], 0)
			br = append(br, b...)
			if l < lo {
				lo, sl = l, s
			}
			if h > hi {
				hi, sr = h, s
			}
			bases = append(bases, baseDesc(names[i], ps[i]))
		}
		allZero := true
		for _, v := range w {
			if v != 0 {
				allZero = false
			}
		}
		if allZero {
			w[0] = 1
		}
		ev := map[string]any{"k": "wrap", "kind": "mixture", "pclass": pcl, "weights": hxs(w), "bases": bases}
		sig := fmt.Sprintf("C14|mixture|%s", pcl)
		// the same structure with other weights and other component parameters
		ps2 := make([][]float64, k)
		w2 := make([]float64, k)
		for i := range ps2 {
			ps2[i] = baseGen(r, names[i])
			w2[i] = r.LogUniform(0.05, 5)
		}
		mkMix := func(w []float64, ps [][]float64) func(t ad.ScalarType) (st.ScalarPdf, error) {
			return func(t ad.ScalarType) (st.ScalarPdf, error) {
				ed := make([]st.ScalarPdf, k)
				for i := range ed {
					b, err := famByName(names[i]).build(t, ps[i])
					if err != nil {
						return nil, err
					}
					ed[i] = b
				}
				return nilIfErr(sd.NewMixture(vec(t, w), ed))
			}
		}
		wrapEval(cs, ev, sig, xs, mkMix(w, ps), func() []node {
			// heavy tails of different scale: take the widest
			for i := 0; i < k; i++ {
				_, s := famByName(names[i]).center(ps[i])
				sl, sr = math.Max(sl, s), math.Max(sr, s)
			}
			return nodesFromBreaks(lo, hi, br, sl, sr)
		}, mkMix(w2, ps2))
		cs.Cover("wrap:mixture/" + fmt.Sprintf("K=%d", k))
		cs.Nontrivial("mixture", fmt.Sprint(names), fmt.Sprint(ps), fmt.Sprint(w), fmt.Sprint(xs))
		if cs.Index < 2 {
			cs.Sample(map[string]any{"wrapper": "Mixture", "bases": names, "params": ps, "weights": w, "x": xs})
		}
	})

	/* i.i.d. and independent products (vector distributions over scalar bases) */
	c.Cases("wrap.product", c.N(480, 4500), func(cs *fw.Case) {
		r := cs.R
		iid := cs.Index%2 == 0
		n := r.Range(1, 5)
		declared := n
		pcl := "n>=1"
		if iid && cs.Index%16 == 0 {
			declared = -1 // "any dimension"
			pcl = "n=-1"
		}
		names := make([]string, n)
		ps := make([][]float64, n)
		var bases []map[string]any
		for i := 0; i < n; i++ {
			if iid && i > 0 {
				names[i], ps[i] = names[0], ps[0]
			} else {
				names[i] = wrapBases[r.Intn(len(wrapBases))]
				ps[i] = baseGen(r, names[i])
			}
			bases = append(bases, baseDesc(names[i], ps[i]))
		}
		// evaluation vectors: every coordinate inside; one coordinate outside / on the boundary
		var X [][]float64
		for v := 0; v < 5; v++ {
			x := make([]float64, n)
			for i := 0; i < n; i++ {
				f := famByName(names[i])
				if v < 3 {
					x[i] = interiorPoints(f, r, ps[i], 1)[0]
				} else {
					pts := points(f, r, ps[i], 2)
					x[i] = pts[r.Intn(len(pts))]
				}
			}
			X = append(X, x)
		}
		// other parameters for the same structure (drawn last: the case above stays what it was)
		ps2 := make([][]float64, n)
		for i := 0; i < n; i++ {
			if iid && i > 0 {
				ps2[i] = ps2[0]
			} else {
				ps2[i] = baseGen(r, names[i])
			}
		}
		kind := "id"
		if iid {
			kind = "iid"
		}
		ev := map[string]any{"k": "wrap", "kind": kind, "pclass": pcl, "n": declared, "bases": bases}
		xs := make([][]string, len(X))
		for i := range X {
			xs[i] = hxs(X[i])
		}
		ev["xv"] = xs
		sig := fmt.Sprintf("C14|%s|%s", kind, pcl)
		for _, ty := range stypes {
			var d st.VectorPdf
			var err error
			pn := fw.Call(func() {
				ed := make([]st.ScalarPdf, n)
				for i := range ed {
					if ed[i], err = famByName(names[i]).build(ty.t, ps[i]); err != nil {
						return
					}
				}
				if iid {
					d, err = vd.NewScalarIid(ed[0], declared)
				} else {
					d, err = vd.NewScalarId(ed...)
				}
			})
			if pn != nil || err != nil || d == nil {
				cs.Violation(sig+"|valid-rejected|constructor", fmt.Sprintf("constructor fails on valid input: %v %v", err, pn), ev)
				return
			}
			vals := make([]string, len(X))
			for j, x := range X {
				vals[j] = evalVecLP(d, ty.t, x)
			}
			ev["lp"+ty.name] = vals
			var cl st.VectorPdf
			if pn := fw.Call(func() { cl = d.CloneVectorPdf() }); pn != nil || cl == nil {
				cs.Violation(sig+"|clone|roundtrip", "CloneVectorPdf panics or returns nil", ev)
			} else {
				for j, x := range X {
					if v := evalVecLP(cl, ty.t, x); v != vals[j] {
						cs.Violation(sig+"|clone|roundtrip", fmt.Sprintf("clone.LogPdf(%v) = %s, original %s", x, v, vals[j]), ev)
						break
					}
				}
			}
			// parameter round trips: identity, and from an object with other parameters
			mkP := func(pp [][]float64) func() (pobj, error) {
				return func() (pobj, error) {
					ed := make([]st.ScalarPdf, n)
					for i := range ed {
						b, err := famByName(names[i]).build(ty.t, pp[i])
						if err != nil {
							return pobj{}, err
						}
						ed[i] = b
					}
					var o st.VectorPdf
					var err error
					if iid {
						o, err = vd.NewScalarIid(ed[0], declared)
					} else {
						o, err = vd.NewScalarId(ed...)
					}
					if err != nil {
						return pobj{}, err
					}
					return vobj(o, ty.t, X), nil
				}
			}
			genericSetRoundTrip(cs, ev, sig, vobj(d, ty.t, X), vals, mkP(ps), mkP(ps2))
		}
		cs.C.Cover("lp-evaluations", int64(2*len(X)))
		cs.C.Data(ev)
		cs.Cover("wrap:" + kind + "/" + pcl)
		cs.Nontrivial(kind, fmt.Sprint(names), fmt.Sprint(ps), fmt.Sprint(X), declared)
		if cs.Index < 2 {
			cs.Sample(map[string]any{"wrapper": kind, "bases": names, "params": ps, "n": declared, "x": X})
		}
	})
}

func vecArg(t ad.ScalarType, x []float64) ad.Vector {
	if t == ad.Real64Type {
		return ad.NewDenseReal64Vector(x)
	}
	return ad.NewDenseFloat64Vector(append([]float64{}, x...))
}

func evalVecLP(d st.VectorPdf, t ad.ScalarType, x []float64) string {
	r := ad.NewScalar(t, 0.0)
	var err error
	if p := fw.Call(func() { err = d.LogPdf(r, vecArg(t, x)) }); p != nil {
		return "panic:" + p.Frame + ":" + short(p.Msg)
	}
	if err != nil {
		return "err:" + short(err.Error())
	}
	return hx(r.GetFloat64())
}

func sdNewMixture(w ad.Vector, ed []st.ScalarPdf) (*sd.Mixture, error) { return sd.NewMixture(w, ed) }

func nilIfErrAny[T any](d T, err error) (any, error) {
	if err != nil {
		return nil, err
	}
	return d, nil
}

// pobj is a distribution object seen through its parameter vector and its
// log-density at the evaluation arguments of a case.
type pobj struct {
	get func() ad.Vector
	set func(ad.Vector) error
	lp  func(i int) string
	n   int
}

func vobj(d st.VectorPdf, t ad.ScalarType, X [][]float64) pobj {
	return pobj{d.GetParameters, d.SetParameters, func(i int) string { return evalVecLP(d, t, X[i]) }, len(X)}
}

// genericSetRoundTrip: SetParameters(GetParameters()) is the identity on an
// identical object, and turns an object of the same structure with other
// parameters into the source object (parameters and LogPdf bit by bit).
func genericSetRoundTrip(cs *fw.Case, ev map[string]any, sigHead string, d pobj, vals []string, mkSame, mkOther func() (pobj, error)) {
	sig := sigHead + "|set|roundtrip"
	var pv []float64
	if pn := fw.Call(func() { pv = floats(d.get()) }); pn != nil {
		cs.Violation(sig, "GetParameters panics: "+pn.Msg, ev)
		return
	}
	check := func(what string, mk func() (pobj, error)) {
		var e pobj
		var err error
		if pn := fw.Call(func() { e, err = mk() }); pn != nil || err != nil {
			return // constructor problems are reported elsewhere
		}
		var serr error
		if pn := fw.Call(func() { serr = e.set(guard(d.get().CloneVector())) }); pn != nil {
			cs.Violation(sig, fmt.Sprintf("%s: SetParameters panics: %s", what, pn.Msg), ev)
			return
		} else if serr != nil {
			cs.Violation(sig, fmt.Sprintf("%s: SetParameters returns error: %v", what, serr), ev)
			return
		}
		var pe []float64
		if pn := fw.Call(func() { pe = floats(e.get()) }); pn != nil {
			cs.Violation(sig, what+": GetParameters after SetParameters panics: "+pn.Msg, ev)
		} else if !sameBits(pe, pv) {
			cs.Violation(sig, fmt.Sprintf("%s: GetParameters() = %v after SetParameters(%v)", what, pe, pv), ev)
		}
		for j := 0; j < e.n; j++ {
			if v := e.lp(j); v != vals[j] {
				cs.Violation(sig, fmt.Sprintf("%s: LogPdf at argument %d = %s, the object that holds these parameters gives %s", what, j, v, vals[j]), ev)
				break
			}
		}
		cs.Cover("roundtrip:set")
	}
	check("SetParameters(GetParameters()) on an identical object", mkSame)
	check("SetParameters(GetParameters()) into an object of the same structure with other parameters", mkOther)
	aliasCheck(cs, ev, sigHead, mkSame, mkOther)
}

func sobj(d st.ScalarPdf, t ad.ScalarType, xs []float64) pobj {
	return pobj{d.GetParameters, d.SetParameters, func(i int) string { return evalLP(d, t, xs[i]) }, len(xs)}
}

// snapshot: parameter vector and log-density values of an object.
func (o pobj) snapshot() (p []float64, lp []string, pn *fw.Panic) {
	pn = fw.Call(func() {
		p = floats(o.get())
		lp = make([]string, o.n)
		for i := range lp {
			lp[i] = o.lp(i)
		}
	})
	return
}

func sameStrings(a, b []string) (int, bool) {
	for i := range a {
		if i >= len(b) || a[i] != b[i] {
			return i, false
		}
	}
	return 0, true
}

// aliasCheck: a distribution must not keep references to what the caller
// handed in.  (1) construct with recorded arguments, overwrite every scalar /
// vector / matrix argument with the values of another valid construction (mkQ)
// and require parameters and log-densities to stay what they were;
// (2) SetParameters(v), overwrite v, same requirement.
func aliasCheck(cs *fw.Case, ev map[string]any, sigHead string, mkP, mkQ func() (pobj, error)) {
	var o pobj
	var err error
	var pn *fw.Panic
	args := recording(func() { pn = fw.Call(func() { o, err = mkP() }) })
	if pn != nil || err != nil {
		return // reported elsewhere
	}
	vals := recording(func() { fw.Call(func() { mkQ() }) })
	p0, l0, pn := o.snapshot()
	if pn != nil {
		return
	}
	args.overwrite(vals)
	p1, l1, pn := o.snapshot()
	cs.Cover("alias:ctor-args")
	switch {
	case pn != nil:
		cs.Violation(sigHead+"|ctor-args|alias", "after the constructor arguments were overwritten the distribution panics: "+pn.Msg, ev)
	case !sameBits(p0, p1):
		cs.Violation(sigHead+"|ctor-args|alias", fmt.Sprintf("the distribution keeps a reference to a constructor argument: GetParameters() changed from %v to %v when the caller overwrote the scalars / vectors / matrices it had passed", p0, p1), ev)
	default:
		if i, ok := sameStrings(l0, l1); !ok {
			cs.Violation(sigHead+"|ctor-args|alias", fmt.Sprintf("the distribution keeps a reference to a constructor argument: LogPdf at argument %d changed from %s to %s when the caller overwrote the scalars / vectors / matrices it had passed", i, l0[i], l1[i]), ev)
		}
	}
	// SetParameters
	var src, dst, oth pobj
	if pn := fw.Call(func() {
		if src, err = mkP(); err != nil {
			return
		}
		if dst, err = mkQ(); err != nil {
			return
		}
		oth, err = mkQ()
	}); pn != nil || err != nil {
		return
	}
	var v ad.Vector
	var serr error
	if pn := fw.Call(func() { v = src.get().CloneVector(); serr = dst.set(v) }); pn != nil || serr != nil {
		return // reported by the round trip monitor
	}
	p0, l0, pn = dst.snapshot()
	if pn != nil {
		return
	}
	fw.Call(func() {
		ov := oth.get()
		for i := 0; i < v.Dim(); i++ {
			if i < ov.Dim() && ov.At(i).GetFloat64() != v.At(i).GetFloat64() {
				v.At(i).SetFloat64(ov.At(i).GetFloat64())
			} else {
				v.At(i).SetFloat64(0.75*v.At(i).GetFloat64() + 0.125)
			}
		}
	})
	p1, l1, pn = dst.snapshot()
	cs.Cover("alias:set-args")
	switch {
	case pn != nil:
		cs.Violation(sigHead+"|set-args|alias", "after the vector handed to SetParameters was overwritten the distribution panics: "+pn.Msg, ev)
	case !sameBits(p0, p1):
		cs.Violation(sigHead+"|set-args|alias", fmt.Sprintf("SetParameters keeps a reference to its argument: GetParameters() changed from %v to %v when the caller overwrote the vector", p0, p1), ev)
	default:
		if i, ok := sameStrings(l0, l1); !ok {
			cs.Violation(sigHead+"|set-args|alias", fmt.Sprintf("SetParameters keeps a reference to its argument: LogPdf at argument %d changed from %s to %s when the caller overwrote the vector", i, l0[i], l1[i]), ev)
		}
	}
}
