package c14

import "verifharness/internal/fw"

func runMultiWrappers(c *fw.Ctx) {}
