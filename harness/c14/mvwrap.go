package c14

import (
	"fmt"
	"strings"

	ad "github.com/pbenner/autodiff"
	st "github.com/pbenner/autodiff/statistics"
	md "github.com/pbenner/autodiff/statistics/matrixDistribution"
	sd "github.com/pbenner/autodiff/statistics/scalarDistribution"
	vd "github.com/pbenner/autodiff/statistics/vectorDistribution"

	"verifharness/internal/fw"
	"verifharness/internal/prng"
)

// Wrappers over vector and matrix distributions: vectorDistribution.Mixture /
// VectorId / VectorIid and matrixDistribution.Mixture / VectorId / VectorIid
// with heterogeneous components (different numbers of parameters), and scalar
// mixtures with 1-, 2- and 3-parameter components.  LogPdf is judged offline
// against the composition rule applied to the component values (event
// "mvwrap"); clone and parameter round trips in-process.

// vcomp is a vector-valued component with freshly drawn parameters.
type vcomp struct {
	kind string
	dim  int
	mk   func(t ad.ScalarType) (st.VectorPdf, error)
}

var vkinds = []string{"mvnormal", "mvt", "skewnormal", "scalariid", "scalarid"}

func genV(r *prng.Rand, kind string, n int) vcomp {
	switch kind {
	case "mvnormal", "mvt", "skewnormal":
		sp := mvGen(r, kind, n)
		return vcomp{kind, n, sp.mkV}
	}
	// "scalariid[:family]" and "scalarid[:family,family,...]": the families are part
	// of the kind, so that the same structure can be drawn again with other parameters
	if kind == "scalariid" {
		kind += ":" + []string{"normal", "exponential", "gev"}[r.Intn(3)]
	}
	if kind == "scalarid" {
		names := make([]string, n)
		for i := range names {
			names[i] = []string{"normal", "exponential", "gev", "cauchy"}[r.Intn(4)]
		}
		kind += ":" + strings.Join(names, ",")
	}
	if strings.HasPrefix(kind, "scalariid:") {
		name := strings.TrimPrefix(kind, "scalariid:")
		p := baseGen(r, name)
		return vcomp{kind, n, func(t ad.ScalarType) (st.VectorPdf, error) {
			b, err := famByName(name).build(t, p)
			if err != nil {
				return nil, err
			}
			return nilIfErrV(vd.NewScalarIid(b, n))
		}}
	}
	if strings.HasPrefix(kind, "scalarid:") {
		names := strings.Split(strings.TrimPrefix(kind, "scalarid:"), ",")
		ps := make([][]float64, n)
		for i := range names {
			ps[i] = baseGen(r, names[i])
		}
		return vcomp{kind, n, func(t ad.ScalarType) (st.VectorPdf, error) {
			ed := make([]st.ScalarPdf, n)
			for i := range ed {
				b, err := famByName(names[i]).build(t, ps[i])
				if err != nil {
					return nil, err
				}
				ed[i] = b
			}
			return nilIfErrV(vd.NewScalarId(ed...))
		}}
	}
	panic("unknown vector component " + kind)
}

// regen draws new parameters for the same kinds and dimensions.
func regenV(r *prng.Rand, cs []vcomp) []vcomp {
	o := make([]vcomp, len(cs))
	for i, c := range cs {
		o[i] = genV(r, c.kind, c.dim) // the kind string carries the structure
	}
	return o
}

func buildV(cs []vcomp, t ad.ScalarType) ([]st.VectorPdf, error) {
	o := make([]st.VectorPdf, len(cs))
	for i, c := range cs {
		d, err := c.mk(t)
		if err != nil {
			return nil, err
		}
		o[i] = d
	}
	return o, nil
}

func matArg2(t ad.ScalarType, v []float64, n, m int) ad.Matrix {
	if t == ad.Real64Type {
		return ad.NewDenseReal64Matrix(v, n, m)
	}
	return ad.NewDenseFloat64Matrix(append([]float64{}, v...), n, m)
}

func evalMatLP2(d st.MatrixPdf, t ad.ScalarType, x []float64, n, m int) string {
	r := ad.NewScalar(t, 0.0)
	var err error
	if p := fw.Call(func() { err = d.LogPdf(r, matArg2(t, x, n, m)) }); p != nil {
		return "panic:" + p.Frame + ":" + short(p.Msg)
	}
	if err != nil {
		return "err:" + short(err.Error())
	}
	return hx(r.GetFloat64())
}

func mobj(d st.MatrixPdf, t ad.ScalarType, X [][]float64, n, m int) pobj {
	return pobj{d.GetParameters, d.SetParameters, func(i int) string { return evalMatLP2(d, t, X[i], n, m) }, len(X)}
}

func kindsOf(cs []vcomp) []string {
	k := make([]string, len(cs))
	for i := range cs {
		k[i] = cs[i].kind
	}
	return k
}

func weightsGen(r *prng.Rand, k int) []float64 {
	w := make([]float64, k)
	for i := range w {
		w[i] = pick(r, 1, 2, 0.5, r.LogUniform(0.05, 5))
	}
	return w
}

// cloneCheck compares the clone of an object with the object.
func cloneCheck(cs *fw.Case, ev map[string]any, sig string, cl func() (pobj, bool), vals []string) {
	var c pobj
	ok := false
	if pn := fw.Call(func() { c, ok = cl() }); pn != nil || !ok {
		cs.Violation(sig+"|clone|roundtrip", "Clone panics or returns nil", ev)
		return
	}
	for j := 0; j < c.n; j++ {
		if v := c.lp(j); v != vals[j] {
			cs.Violation(sig+"|clone|roundtrip", fmt.Sprintf("clone.LogPdf at argument %d = %s, original %s", j, v, vals[j]), ev)
			break
		}
	}
	cs.Cover("roundtrip:clone")
}

func runMultiWrappers(c *fw.Ctx) {
	/* scalar mixtures with heterogeneous components (1, 2 and 3 parameters) */
	hetero := [][]string{
		{"exponential", "gev"}, {"gev", "gengamma"}, {"gengamma", "gev"}, {"normal", "exponential"}, {"beta", "gev"},
		{"exponential", "normal", "gev"}, {"gev", "gengamma", "exponential"}, {"gev", "gev", "gev"},
		{"exponential", "normal", "gev", "gengamma"}, {"gengamma", "cauchy", "exponential", "gev"},
	}
	c.Cases("wrap.mixture.hetero", c.N(200, 2000), func(cs *fw.Case) {
		r := cs.R
		var names []string
		if cs.Index < len(hetero) {
			names = hetero[cs.Index]
		} else {
			k := r.Range(2, 4)
			for {
				names = names[:0]
				counts := map[int]bool{}
				for i := 0; i < k; i++ {
					nm := wrapBases[r.Intn(len(wrapBases))]
					names = append(names, nm)
					counts[len(baseGen(r, nm))] = true
				}
				if len(counts) > 1 || r.Intn(4) == 0 {
					break
				}
			}
		}
		k := len(names)
		gen := func() ([]float64, [][]float64) {
			ps := make([][]float64, k)
			for i := range ps {
				ps[i] = baseGen(r, names[i])
			}
			return weightsGen(r, k), ps
		}
		w, ps := gen()
		w2, ps2 := gen()
		var xs []float64
		var bases []map[string]any
		for i := 0; i < k; i++ {
			xs = append(xs, points(famByName(names[i]), r, ps[i], 2)...)
			bases = append(bases, baseDesc(names[i], ps[i]))
		}
		mk := func(w []float64, ps [][]float64) func(t ad.ScalarType) (st.ScalarPdf, error) {
			return func(t ad.ScalarType) (st.ScalarPdf, error) {
				ed := make([]st.ScalarPdf, k)
				for i := range ed {
					b, err := famByName(names[i]).build(t, ps[i])
					if err != nil {
						return nil, err
					}
					ed[i] = b
				}
				return nilIfErr(sd.NewMixture(vec(t, w), ed))
			}
		}
		pcl := fmt.Sprintf("K=%d,hetero", k)
		ev := map[string]any{"k": "wrap", "kind": "mixture", "pclass": pcl, "weights": hxs(w), "bases": bases}
		wrapEval(cs, ev, "C14|mixture|"+pcl, xs, mk(w, ps), nil, mk(w2, ps2))
		cs.Cover(fmt.Sprintf("wrap:mixture.hetero/K=%d", k))
		cs.Nontrivial("mixture.hetero", fmt.Sprint(names), fmt.Sprint(ps), fmt.Sprint(w), fmt.Sprint(ps2), fmt.Sprint(w2))
		if cs.Index < 2 {
			cs.Sample(map[string]any{"wrapper": "scalar Mixture", "components": names, "params": ps, "weights": w, "other params": ps2, "other weights": w2})
		}
	})

	/* vector level: Mixture, VectorId, VectorIid */
	c.Cases("mvwrap.vector", c.N(240, 2000), func(cs *fw.Case) {
		r := cs.R
		kind := []string{"vmixture", "vid", "viid"}[cs.Index%3]
		n := r.Range(1, 3)
		k := r.Range(2, 4)
		var comps []vcomp
		switch kind {
		case "vmixture":
			for i := 0; i < k; i++ {
				comps = append(comps, genV(r, vkinds[(cs.Index/3+i)%len(vkinds)], n))
			}
		case "vid":
			for i := 0; i < k; i++ {
				comps = append(comps, genV(r, vkinds[(cs.Index/3+i)%len(vkinds)], r.Range(1, 3)))
			}
		case "viid":
			comps = []vcomp{genV(r, vkinds[(cs.Index/3)%len(vkinds)], n)}
		}
		w := weightsGen(r, len(comps))
		other := regenV(r, comps)
		w2 := weightsGen(r, len(comps))
		dim := 0
		switch kind {
		case "vmixture":
			dim = n
		case "vid":
			for _, c := range comps {
				dim += c.dim
			}
		case "viid":
			dim = n * k
		}
		var X [][]float64
		for i := 0; i < 4; i++ {
			X = append(X, rvec(r, dim, pick(r, 0.5, 1, 2)))
			for j := range X[i] { // gev / exponential components want arguments inside their support now and then
				if r.Intn(3) == 0 {
					X[i][j] = r.LogUniform(0.05, 5)
				}
			}
		}
		build := func(cs []vcomp, w []float64, t ad.ScalarType) (st.VectorPdf, []st.VectorPdf, error) {
			ed, err := buildV(cs, t)
			if err != nil {
				return nil, nil, err
			}
			ref, _ := buildV(cs, t) // independent copies for the composition rule
			switch kind {
			case "vmixture":
				d, err := vd.NewMixture(vec(t, w), ed)
				return nilV(d, err), ref, err
			case "vid":
				d, err := vd.NewVectorId(ed...)
				return nilV(d, err), ref, err
			}
			d, err := vd.NewVectorIid(ed[0], dim)
			return nilV(d, err), ref, err
		}
		pcl := "hetero"
		ev := map[string]any{"k": "mvwrap", "fam": kind, "pclass": pcl, "kinds": kindsOf(comps), "dim": dim, "xv": hxm(X)}
		if kind == "vmixture" {
			ev["weights"] = hxs(w)
		}
		sig := "C14|" + kind + "|" + pcl
		for _, ty := range stypes {
			var d st.VectorPdf
			var ref []st.VectorPdf
			var err error
			if pn := fw.Call(func() { d, ref, err = build(comps, w, ty.t) }); pn != nil || err != nil || d == nil {
				cs.Violation(sig+"|valid-rejected|constructor", fmt.Sprintf("constructor of %s over %v fails: %v %v", kind, kindsOf(comps), err, pn), ev)
				return
			}
			vals := make([]string, len(X))
			comp := make([][]string, len(X))
			for i, x := range X {
				vals[i] = evalVecLP(d, ty.t, x)
				switch kind {
				case "vmixture":
					for _, c := range ref {
						comp[i] = append(comp[i], evalVecLP(c, ty.t, x))
					}
				case "vid":
					o := 0
					for j, c := range ref {
						comp[i] = append(comp[i], evalVecLP(c, ty.t, x[o:o+comps[j].dim]))
						o += comps[j].dim
					}
				case "viid":
					for o := 0; o < dim; o += n {
						comp[i] = append(comp[i], evalVecLP(ref[0], ty.t, x[o:o+n]))
					}
				}
			}
			ev["lp"+ty.name], ev["comp"+ty.name] = vals, comp
			if d.Dim() != dim {
				cs.Violation(sig+"|-|roundtrip", fmt.Sprintf("Dim() = %d, expected %d", d.Dim(), dim), ev)
			}
			cloneCheck(cs, ev, sig, func() (pobj, bool) {
				c := d.CloneVectorPdf()
				return vobj(c, ty.t, X), c != nil
			}, vals)
			mkO := func(cs []vcomp, w []float64) func() (pobj, error) {
				return func() (pobj, error) {
					o, _, err := build(cs, w, ty.t)
					if err != nil || o == nil {
						return pobj{}, fmt.Errorf("constructor: %v", err)
					}
					return vobj(o, ty.t, X), nil
				}
			}
			genericSetRoundTrip(cs, ev, sig, vobj(d, ty.t, X), vals, mkO(comps, w), mkO(other, w2))
		}
		cs.C.Cover("lp-evaluations", int64(2*len(X)))
		cs.C.Data(ev)
		cs.Cover("mvwrap:" + kind)
		cs.Nontrivial(kind, fmt.Sprint(kindsOf(comps)), dim, fmt.Sprint(X), fmt.Sprint(w))
		if cs.Index < 3 {
			cs.Sample(map[string]any{"wrapper": kind, "components": kindsOf(comps), "dim": dim, "weights": w, "x": X})
		}
	})

	/* matrix level: Mixture, VectorId, VectorIid */
	c.Cases("mvwrap.matrix", c.N(240, 2000), func(cs *fw.Case) {
		r := cs.R
		kind := []string{"mmixture", "mid", "miid"}[cs.Index%3]
		n := r.Range(1, 3) // the arguments are n x n matrices
		k := r.Range(2, 3)
		// a matrix component: inverse Wishart, or rows of vector components
		type mcomp struct {
			kind string
			sub  []string // kinds of the vector components (structure)
			mk   func(t ad.ScalarType) (st.MatrixPdf, error)
		}
		genM := func(kind string, sub []string) mcomp {
			switch kind {
			case "iwishart":
				sp := mvGen(r, "iwishart", n)
				return mcomp{kind, nil, sp.mkM}
			case "miid":
				if sub == nil {
					sub = []string{vkinds[r.Intn(3)]}
				}
				vc := genV(r, sub[0], n)
				return mcomp{"miid", []string{vc.kind}, func(t ad.ScalarType) (st.MatrixPdf, error) {
					v, err := vc.mk(t)
					if err != nil {
						return nil, err
					}
					return nilIfErrM(md.NewVectorIid(v, n))
				}}
			default: // mid
				vcs := make([]vcomp, n)
				for i := range vcs {
					if sub != nil {
						vcs[i] = genV(r, sub[i], n)
					} else {
						vcs[i] = genV(r, vkinds[r.Intn(len(vkinds))], n)
					}
				}
				return mcomp{"mid", kindsOf(vcs), func(t ad.ScalarType) (st.MatrixPdf, error) {
					ed, err := buildV(vcs, t)
					if err != nil {
						return nil, err
					}
					return nilIfErrM(md.NewVectorId(ed...))
				}}
			}
		}
		mkinds := []string{"iwishart", "miid", "mid"}
		var rowComps []vcomp
		// the object under test
		var desc []string
		var mkObj, mkOther func(t ad.ScalarType) (st.MatrixPdf, []st.MatrixPdf, error)
		var w []float64
		switch kind {
		case "mmixture":
			gen := func(like []mcomp) ([]mcomp, []float64) {
				var cs []mcomp
				for i := 0; i < k; i++ {
					if like != nil {
						cs = append(cs, genM(like[i].kind, like[i].sub))
					} else {
						cs = append(cs, genM(mkinds[i%len(mkinds)], nil))
					}
				}
				return cs, weightsGen(r, k)
			}
			mkFrom := func(cs []mcomp, w []float64) func(t ad.ScalarType) (st.MatrixPdf, []st.MatrixPdf, error) {
				return func(t ad.ScalarType) (st.MatrixPdf, []st.MatrixPdf, error) {
					ed := make([]st.MatrixPdf, len(cs))
					ref := make([]st.MatrixPdf, len(cs))
					for i := range cs {
						var err error
						if ed[i], err = cs[i].mk(t); err != nil {
							return nil, nil, err
						}
						ref[i], _ = cs[i].mk(t)
					}
					d, err := md.NewMixture(vec(t, w), ed)
					return nilM(d, err), ref, err
				}
			}
			cs1, w1 := gen(nil)
			cs2, w2 := gen(cs1) // same structure, other parameters
			for _, c := range cs1 {
				desc = append(desc, c.kind+fmt.Sprint(c.sub))
			}
			w = w1
			mkObj, mkOther = mkFrom(cs1, w1), mkFrom(cs2, w2)
		default:
			// rows of vector components; the composition rule is the sum over the rows
			rows := n
			var vcs []vcomp
			if kind == "mid" {
				for i := 0; i < rows; i++ {
					vcs = append(vcs, genV(r, vkinds[(cs.Index/3+i)%len(vkinds)], n))
				}
			} else {
				vcs = []vcomp{genV(r, vkinds[(cs.Index/3)%len(vkinds)], n)}
			}
			oth := regenV(r, vcs)
			desc = kindsOf(vcs)
			mkFrom := func(vcs []vcomp) func(t ad.ScalarType) (st.MatrixPdf, []st.MatrixPdf, error) {
				return func(t ad.ScalarType) (st.MatrixPdf, []st.MatrixPdf, error) {
					ed, err := buildV(vcs, t)
					if err != nil {
						return nil, nil, err
					}
					if kind == "mid" {
						d, err := md.NewVectorId(ed...)
						return nilM(d, err), nil, err
					}
					d, err := md.NewVectorIid(ed[0], rows)
					return nilM(d, err), nil, err
				}
			}
			mkObj, mkOther = mkFrom(vcs), mkFrom(oth)
			// component values for the composition rule: separate vector objects on the rows
			rowComps = vcs
		}
		var X [][]float64
		for i := 0; i < 4; i++ {
			if kind == "mmixture" {
				X = append(X, spd(r, n, false)) // inside the support of every component
			} else {
				x := rvec(r, n*n, pick(r, 0.5, 1, 2))
				for j := range x {
					if r.Intn(3) == 0 {
						x[j] = r.LogUniform(0.05, 5)
					}
				}
				X = append(X, x)
			}
		}
		pcl := "hetero"
		ev := map[string]any{"k": "mvwrap", "fam": kind, "pclass": pcl, "kinds": desc, "dim": n, "xm": hxm(X)}
		if kind == "mmixture" {
			ev["weights"] = hxs(w)
		}
		sig := "C14|" + kind + "|" + pcl
		for _, ty := range stypes {
			var d st.MatrixPdf
			var ref []st.MatrixPdf
			var err error
			if pn := fw.Call(func() { d, ref, err = mkObj(ty.t) }); pn != nil || err != nil || d == nil {
				cs.Violation(sig+"|valid-rejected|constructor", fmt.Sprintf("constructor of %s over %v fails: %v %v", kind, desc, err, pn), ev)
				return
			}
			var rowRef []st.VectorPdf
			if kind != "mmixture" {
				rowRef, _ = buildV(rowComps, ty.t)
			}
			vals := make([]string, len(X))
			comp := make([][]string, len(X))
			for i, x := range X {
				vals[i] = evalMatLP2(d, ty.t, x, n, n)
				switch kind {
				case "mmixture":
					for _, c := range ref {
						comp[i] = append(comp[i], evalMatLP2(c, ty.t, x, n, n))
					}
				case "mid":
					for j := 0; j < n; j++ {
						comp[i] = append(comp[i], evalVecLP(rowRef[j], ty.t, x[j*n:(j+1)*n]))
					}
				case "miid":
					for j := 0; j < n; j++ {
						comp[i] = append(comp[i], evalVecLP(rowRef[0], ty.t, x[j*n:(j+1)*n]))
					}
				}
			}
			ev["lp"+ty.name], ev["comp"+ty.name] = vals, comp
			if a, b := d.Dims(); a != n || b != n {
				cs.Violation(sig+"|-|roundtrip", fmt.Sprintf("Dims() = %d x %d, expected %d x %d", a, b, n, n), ev)
			}
			cloneCheck(cs, ev, sig, func() (pobj, bool) {
				c := d.CloneMatrixPdf()
				return mobj(c, ty.t, X, n, n), c != nil
			}, vals)
			mkO := func(mk func(t ad.ScalarType) (st.MatrixPdf, []st.MatrixPdf, error)) func() (pobj, error) {
				return func() (pobj, error) {
					o, _, err := mk(ty.t)
					if err != nil || o == nil {
						return pobj{}, fmt.Errorf("constructor: %v", err)
					}
					return mobj(o, ty.t, X, n, n), nil
				}
			}
			genericSetRoundTrip(cs, ev, sig, mobj(d, ty.t, X, n, n), vals, mkO(mkObj), mkO(mkOther))
		}
		cs.C.Cover("lp-evaluations", int64(2*len(X)))
		cs.C.Data(ev)
		cs.Cover("mvwrap:" + kind)
		cs.Nontrivial(kind, fmt.Sprint(desc), n, fmt.Sprint(X), fmt.Sprint(w))
		if cs.Index < 3 {
			cs.Sample(map[string]any{"wrapper": kind, "components": desc, "n": n, "weights": w, "X": X})
		}
	})
}

func nilV[T st.VectorPdf](d T, err error) st.VectorPdf {
	if err != nil {
		return nil
	}
	return d
}

func nilM[T st.MatrixPdf](d T, err error) st.MatrixPdf {
	if err != nil {
		return nil
	}
	return d
}
