package c16

import (
	"fmt"
	"math"

	ad "github.com/pbenner/autodiff"
	stat "github.com/pbenner/autodiff/statistics"
	sd "github.com/pbenner/autodiff/statistics/scalarDistribution"
	se "github.com/pbenner/autodiff/statistics/scalarEstimator"

	"verifharness/internal/fw"
	"verifharness/internal/prng"
)

// digamma by recurrence and the asymptotic series (|error| < 1e-15 for x > 0).
func digamma(x float64) float64 {
	r := 0.0
	for x < 10 {
		r -= 1 / x
		x++
	}
	f := 1 / (x * x)
	return r + math.Log(x) - 0.5/x - f*(1.0/12-f*(1.0/120-f*(1.0/252-f*(1.0/240-f*(1.0/132)))))
}

// gradient of the numeric estimator's objective  -(1/n) sum_i exp(gamma_i) log p(x_i; theta)
// by closed forms; returns the gradient and the sum of |terms| (for the
// rounding allowance of the gradient itself).
func numericGradient(kind string, th []float64, x, gamma []float64, n int) ([]float64, float64) {
	g := make([]ksum, len(th))
	for i, v := range x {
		w := 1.0
		if gamma != nil {
			if math.IsInf(gamma[i], -1) {
				continue
			}
			w = math.Exp(gamma[i])
		}
		switch kind {
		case "normal":
			mu, s := th[0], th[1]
			g[0].add(w * (v - mu) / (s * s))
			g[1].add(-w / s)
			g[1].add(w * (v - mu) * (v - mu) / (s * s * s))
		case "exponential":
			g[0].add(w / th[0])
			g[0].add(-w * v)
		case "gamma":
			a, b := th[0], th[1]
			g[0].add(w * (math.Log(b) - digamma(a)))
			g[0].add(w * math.Log(v))
			g[1].add(w * a / b)
			g[1].add(-w * v)
		}
	}
	r := make([]float64, len(th))
	abs := 0.0
	for k := range r {
		r[k] = -g[k].s / float64(n)
		abs += g[k].abs / float64(n)
	}
	return r, abs
}

func runNumeric(cs *fw.Case, r *prng.Rand) {
	kind := r.Pick([]string{"normal", "normal", "exponential", "gamma"})
	method := r.Pick([]string{"newton", "newton", "bfgs", "rprop"})
	n := r.Range(2, 60)
	var x []float64
	var dclass string
	var init []float64
	var pdf stat.ScalarPdf
	var err error
	switch kind {
	case "normal":
		x, dclass = genReal(r, n)
		for dclass == "offset" || dclass == "wide" || dclass == "all-equal" {
			// no interior stationary point (sigma -> 0) or hopeless scaling for a
			// generic optimiser: not what the property is about
			x, dclass = genReal(r, n)
		}
		m := 0.0
		for _, v := range x {
			m += v / float64(n)
		}
		init = []float64{m + r.Uniform(-1, 1), r.LogUniform(0.5, 5)}
		pdf, err = sd.NewNormalDistribution(ad.NewFloat64(init[0]), ad.NewFloat64(init[1]))
	case "exponential":
		x, dclass = genPositive(r, n)
		for dclass == "wide" || dclass == "with-zeros" {
			x, dclass = genPositive(r, n)
		}
		init = []float64{r.LogUniform(0.1, 10)}
		pdf, err = sd.NewExponentialDistribution(ad.NewFloat64(init[0]))
	case "gamma":
		x, dclass = genPositive(r, n)
		for dclass == "wide" || dclass == "with-zeros" || dclass == "all-equal" {
			x, dclass = genPositive(r, n)
		}
		init = []float64{r.LogUniform(0.5, 5), r.LogUniform(0.1, 10)}
		pdf, err = sd.NewGammaDistribution(ad.NewFloat64(init[0]), ad.NewFloat64(init[1]))
	}
	distinct := map[float64]bool{}
	for _, v := range x {
		distinct[v] = true
	}
	var gamma []float64
	wclass := "unweighted"
	if r.Chance(0.5) {
		gamma = make([]float64, n)
		wclass = "weighted"
		for i := range gamma {
			gamma[i] = r.Uniform(-4, 0.5)
			if r.Chance(0.1) {
				gamma[i] = negInf
				wclass = "weighted+(-Inf)"
			}
		}
	}
	epsilon := r.PickF([]float64{1e-8, 1e-6, 1e-10})
	wit := map[string]any{"pdf": kind, "method": method, "x": x, "gamma": gammaJSON(gamma), "init": init, "epsilon": epsilon}
	sigBase := fmt.Sprintf("C16|%s|%s|%s|%s", cs.Monitor, method, kind, coarseW(wclass))
	_ = dclass
	if err != nil {
		cs.Skip("constructor")
		return
	}
	// a stationary point in the interior needs at least two distinct observations
	// with weight (normal, gamma)
	nw := 0
	seen := map[float64]bool{}
	for i, v := range x {
		if gamma == nil || !math.IsInf(gamma[i], -1) {
			if !seen[v] {
				seen[v] = true
				nw++
			}
		}
	}
	if nw == 0 || (kind != "exponential" && nw < 2) {
		cs.Skip("no-interior-optimum")
		return
	}
	evals := 0
	var est *se.NumericEstimator
	maxIter := 200
	fw.SetTickBudget(20000)
	p := fw.Call(func() {
		if est, err = se.NewNumericEstimator(pdf); err != nil {
			return
		}
		est.Method = method
		est.Epsilon = epsilon
		est.MaxIterations = maxIter
		est.Hook = func(variables ad.ConstVector, r ad.ConstScalar) error { evals++; return nil }
		err = est.EstimateOnData(vecF(x), gammaVec(gamma), seqPool())
	})
	fw.SetTickBudget(0)
	cs.Cover("numeric:" + kind)
	cs.Cover("numeric-method:" + method)
	if p != nil {
		if p.Budget {
			cs.Skip("no-return")
			return
		}
		cs.Violation(sigBase+"|panic", p.Msg+"\n"+p.Stack, wit)
		return
	}
	if err != nil {
		// loud failure: no estimate is claimed
		cs.Cover("numeric:error-returned")
		cs.Skip("optimizer-error")
		return
	}
	res, _ := est.GetEstimate()
	par := res.GetParameters()
	th := make([]float64, par.Dim())
	for i := range th {
		th[i] = par.At(i).GetFloat64()
	}
	wit["estimate"] = th
	wit["objective_evaluations"] = evals
	if evals >= maxIter {
		// newton/bfgs count one evaluation per iteration at least: the iteration
		// bound may have ended the run; the configured bound is respected, the
		// point is not claimed to be stationary
		cs.Cover("numeric:iteration-bound(not judged)")
		cs.Skip("iteration-bound")
		return
	}
	g, abs := numericGradient(kind, th, x, gamma, n)
	norm := 0.0
	for _, v := range g {
		norm += v * v
	}
	norm = math.Sqrt(norm)
	allow := epsilon + K*eps*abs
	cs.Cover("numeric:judged")
	moved := false
	for i := range th {
		if th[i] != init[i] {
			moved = true
		}
	}
	_ = kind
	if !moved {
		// the optimiser gave up at the initial point and the estimator reported success
		sigBase = fmt.Sprintf("C16|%s|%s|returned-initial-point", cs.Monitor, method)
	} else {
		sigBase = fmt.Sprintf("C16|%s|%s|moved", cs.Monitor, method)
	}
	if !(norm <= allow) {
		cs.Violation(sigBase+"|not-stationary",
			fmt.Sprintf("returned parameters %s after %d objective evaluations: gradient of -(1/n) sum w log p is %v, norm %.6g, estimator epsilon %.3g (allowance %.3g)", fmtTheta(th), evals, g, norm, epsilon, allow), wit)
		return
	}
	if len(distinct) >= 2 {
		cs.Nontrivial(kind, method, x, gamma, init, epsilon)
	}
}
