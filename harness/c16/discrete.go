package c16

import (
	"fmt"
	"math"

	stat "github.com/pbenner/autodiff/statistics"
	"github.com/pbenner/autodiff/statistics/generic"
	sd "github.com/pbenner/autodiff/statistics/scalarDistribution"
	se "github.com/pbenner/autodiff/statistics/scalarEstimator"

	"verifharness/internal/fw"
	"verifharness/internal/prng"
)

// runEmDiscreteMixture: EM on SUMMARISED data (value, count) —
// scalarEstimator.DiscreteMixtureEstimator through SetData + Estimate (its
// EstimateOnData is the embedded MixtureEstimator's and uses the raw data
// set).  Assertions: (1) reported(i+1) = LogPdf-likelihood of model i on the
// EXPANDED data, (2) the expanded-data log-likelihood of successive models
// never decreases, (3) differential: the trajectory equals that of the plain
// MixtureEstimator on the same data (summation order is the only difference).
func runEmDiscreteMixture(cs *fw.Case, r *prng.Rand) {
	family := r.Pick(emFamilies)
	k := r.Range(2, 4)
	n := genSize(r)
	if n < 4 && r.Chance(0.7) {
		n = r.Range(4, 200)
	}
	comps, x, dclass := genComponents(r, family, k, n)
	// make repetitions likely also for the continuous families
	if (family == "normal" || family == "exponential") && r.Chance(0.7) {
		kk := r.Range(1, 6)
		vals := append([]float64{}, x[:min(kk, len(x))]...)
		for i := range x {
			x[i] = vals[r.Intn(len(vals))]
		}
		dclass = "repeats"
	}
	counts := map[float64]int{}
	maxCount := 0
	for _, v := range x {
		counts[v]++
		if counts[v] > maxCount {
			maxCount = counts[v]
		}
	}
	weights := make([]float64, k)
	for i := range weights {
		weights[i] = 0.1 + r.Float64()
	}
	maxSteps := r.PickI([]int{1, 3, 25, 60})
	epsilon := r.PickF([]float64{0, 1e-8, 1e-4})
	optE, optW := !r.Chance(0.15), !r.Chance(0.15)
	wit := map[string]any{"family": family, "components": comps, "weights": weights, "x": x, "max_steps": maxSteps, "epsilon": epsilon,
		"optimize_emissions": optE, "optimize_weights": optW, "distinct_values": len(counts), "max_count": maxCount}
	rep := "counts=1"
	if maxCount > 1 {
		rep = "counts>1"
	}
	class := fmt.Sprintf("%s,%s", dclass, rep)
	sigBase := fmt.Sprintf("C16|%s|summarisedMixture|%s|%s", cs.Monitor, family, class)

	// largest |mu|/sigma of a normal component seen in any hook: the one-pass
	// variance of such a component carries a relative noise eps*ratio^2 that
	// depends on the summation order
	maxRatio := 0.0
	run := func(discrete bool) (*trajectory, *fw.Panic, error) {
		tr := &trajectory{family: family}
		if family == "normal" {
			d := &dataset{X: asRows(x)}
			d.prepare()
			tr.illCond = illClass(spreadClass(d, 0))
		}
		hook := generic.EmHook{Value: func(mix generic.BasicMixture, i int, likelihood, eps float64) {
			m, ok := mix.(*sd.Mixture)
			if !ok {
				return
			}
			tr.noteParams(m.GetParameters())
			for j := range m.Edist {
				if nd, ok := m.Edist[j].(*sd.NormalDistribution); ok {
					mu, sg := nd.Mu.GetFloat64(), nd.Sigma.GetFloat64()
					if sg > 0 && math.Abs(mu)/sg >= 1e6 {
						tr.illCond = "sd=0"
					}
					if sg > 0 && math.Abs(mu)/sg > maxRatio {
						maxRatio = math.Abs(mu) / sg
					}
				}
			}
			v, tol, err := scalarMixtureLoglik(m.Clone(), x, &tr.nanComponent)
			if err != nil {
				tr.evalErr = err
				v = math.NaN()
			}
			tr.record(i, likelihood, v, tol)
		}}
		var err error
		p := fw.Call(func() {
			ests := make([]stat.ScalarEstimator, k)
			for i := range ests {
				if ests[i], err = comps[i].estimator(); err != nil {
					return
				}
			}
			if discrete {
				var est *se.DiscreteMixtureEstimator
				if est, err = se.NewDiscreteMixtureEstimator(weights, ests, epsilon, maxSteps, hook); err != nil {
					return
				}
				est.OptimizeEmissions, est.OptimizeWeights = optE, optW
				if err = est.SetData(vecF(x), n); err != nil {
					return
				}
				err = est.Estimate(nil, seqPool())
			} else {
				var est *se.MixtureEstimator
				if est, err = se.NewMixtureEstimator(weights, ests, epsilon, maxSteps, hook); err != nil {
					return
				}
				est.OptimizeEmissions, est.OptimizeWeights = optE, optW
				if err = est.SetData(vecF(x), n); err != nil {
					return
				}
				err = est.Estimate(nil, seqPool())
			}
		})
		return tr, p, err
	}
	trD, pD, errD := run(true)
	cs.Cover("em:summarisedMixture")
	cs.Cover("em-family:" + family)
	cs.Cover("summarised:" + rep)
	cs.C.CoverMax("max:summarised-count", int64(maxCount))
	finishEm(cs, trD, pD, errD, sigBase, true, wit, n >= 2 && maxCount > 1, "discrete", family, comps, weights, x, maxSteps, epsilon, optE, optW)
	if pD != nil || len(trD.reported) == 0 || cs.Violations() > 0 {
		return
	}
	// differential against the raw-data estimator
	trR, pR, _ := run(false)
	if pR != nil || len(trR.reported) == 0 {
		cs.Cover("summarised:raw-run-failed(not compared)")
		return
	}
	wit["raw_model_loglik"] = jsonFloats(trR.model)
	nn := len(trD.model)
	if len(trR.model) < nn {
		nn = len(trR.model)
	}
	for i := 0; i < nn; i++ {
		a, b := trD.model[i], trR.model[i]
		if math.IsNaN(a) || math.IsNaN(b) {
			break
		}
		cs.Cover("summarised:differential-step")
		// the summarised E-step adds log(count) to the responsibilities where the
		// raw one repeats the observation: a different summation order; EM
		// steps do not amplify such differences beyond the monotonicity allowance
		// every step adds a re-association error of that order to the parameters
		// and nothing guarantees that later steps contract it (flat directions of
		// the likelihood): the allowance grows linearly with the iteration
		allow := float64(i+1) * (monoAllowance*math.Abs(b) + 2*(trD.tol[i]+trR.tol[i]))
		if math.Abs(a-b) > allow && !(math.IsInf(a, -1) && math.IsInf(b, -1)) {
			sg := sigBase
			if trD.illCond != "" || maxRatio >= 1e2 {
				// one cell: the two runs differ by the order-dependent noise of the
				// normal estimators' one-pass moments (open finding), amplified by
				// (|mu|/sigma)^2 of a narrow component
				sg = "C16|em|normal-moments|component-mean/sd>=1e2"
			}
			cs.Violation(sg+"|differs-from-raw-data",
				fmt.Sprintf("after iteration %d the model estimated on summarised data has log-likelihood %.17g, the one estimated on the same raw data %.17g (difference %.3g, allowance %.3g)", i, a, b, a-b, allow), wit)
			return
		}
	}
	if len(trD.model) != len(trR.model) {
		// stopping rule hit within rounding of epsilon: counted, not judged
		cs.Cover("summarised:different-number-of-iterations(not judged)")
	}
}
