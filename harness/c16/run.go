package c16

import (
	"verifharness/internal/fw"
)

// Run is the C16 workload.
func Run(c *fw.Ctx) {
	// directed: one witness per open finding, independent of seed and tier
	c.Cases("directed", len(replay), runReplay)
	// (a) closed-form estimators
	c.Cases("closed.scalar", c.N(6000, 150000), func(cs *fw.Case) { runClosedScalar(cs, cs.R) })
	c.Cases("closed.wrapper", c.N(2000, 50000), func(cs *fw.Case) { runClosedWrapper(cs, cs.R) })
	c.Cases("closed.vector", c.N(2000, 50000), func(cs *fw.Case) { runClosedMvn(cs, cs.R) })
	c.Cases("numeric", c.N(300, 6000), func(cs *fw.Case) { runNumeric(cs, cs.R) })
	// (b) EM trajectories
	c.Cases("em.mixture.scalar", c.N(800, 20000), func(cs *fw.Case) { runEmScalarMixture(cs, cs.R) })
	c.Cases("em.mixture.vector", c.N(400, 8000), func(cs *fw.Case) { runEmVectorMixture(cs, cs.R) })
	c.Cases("em.hmm", c.N(600, 15000), func(cs *fw.Case) { runEmHmm(cs, cs.R, nil) })
	// the option OptimizeTransitions=false of the Baum-Welch driver (directed)
	c.Cases("em.hmm.options", c.N(40, 400), func(cs *fw.Case) { f := false; runEmHmm(cs, cs.R, &f) })
	c.Cases("em.nested", c.N(200, 4000), func(cs *fw.Case) { runEmNested(cs, cs.R) })
}
