package c16

import (
	"verifharness/internal/fw"
)

// Run is the C16 workload.
func Run(c *fw.Ctx) {
	// directed: one witness per open finding, independent of seed and tier
	c.Cases("directed", len(replay), runReplay)
	// (a) closed-form estimators
	c.Cases("closed.scalar", c.N(18000, 300000), func(cs *fw.Case) { runClosedScalar(cs, cs.R) })
	c.Cases("closed.wrapper", c.N(6000, 100000), func(cs *fw.Case) { runClosedWrapper(cs, cs.R) })
	c.Cases("closed.vector", c.N(6000, 100000), func(cs *fw.Case) { runClosedMvn(cs, cs.R) })
	// log-weights shifted by a common constant (-50, -700, -740, -1000, +700)
	c.Cases("closed.shift.scalar", c.N(3000, 40000), func(cs *fw.Case) { withShift(cs, cs.Index, func() { runClosedScalar(cs, cs.R) }) })
	c.Cases("closed.shift.wrapper", c.N(1500, 20000), func(cs *fw.Case) { withShift(cs, cs.Index, func() { runClosedWrapper(cs, cs.R) }) })
	c.Cases("closed.shift.vector", c.N(2500, 30000), func(cs *fw.Case) { withShift(cs, cs.Index, func() { runClosedMvn(cs, cs.R) }) })
	c.Cases("closed.shift.matrix", c.N(1000, 12000), func(cs *fw.Case) { withShift(cs, cs.Index, func() { runClosedMatrixId(cs, cs.R) }) })
	// estimator reuse histories (same object, several data sets)
	c.Cases("closed.reuse", c.N(3000, 40000), func(cs *fw.Case) { runClosedReuse(cs, cs.R) })
	c.Cases("numeric", c.N(900, 12000), func(cs *fw.Case) { runNumeric(cs, cs.R) })
	// (b) EM trajectories
	c.Cases("em.mixture.scalar", c.N(2400, 40000), func(cs *fw.Case) { runEmScalarMixture(cs, cs.R) })
	c.Cases("em.mixture.discrete", c.N(2400, 40000), func(cs *fw.Case) { runEmDiscreteMixture(cs, cs.R) })
	c.Cases("em.mixture.vector", c.N(1200, 16000), func(cs *fw.Case) { runEmVectorMixture(cs, cs.R) })
	c.Cases("em.hmm", c.N(1800, 30000), func(cs *fw.Case) { runEmHmm(cs, cs.R, nil) })
	// the option OptimizeTransitions=false of the Baum-Welch driver (directed)
	c.Cases("em.hmm.options", c.N(60, 600), func(cs *fw.Case) { f := false; runEmHmm(cs, cs.R, &f) })
	c.Cases("em.nested", c.N(600, 8000), func(cs *fw.Case) { runEmNested(cs, cs.R) })
}
