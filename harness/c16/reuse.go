package c16

import (
	"fmt"
	"math"

	ad "github.com/pbenner/autodiff"
	stat "github.com/pbenner/autodiff/statistics"
	vd "github.com/pbenner/autodiff/statistics/vectorDistribution"
	ve "github.com/pbenner/autodiff/statistics/vectorEstimator"

	"verifharness/internal/fw"
	"verifharness/internal/prng"
)

// runClosedReuse: estimator REUSE histories.  The same estimator object gets
// SetData + Estimate or EstimateOnData two or three times, with data sets of
// the same count but different values, shapes (vector lengths) and weights;
// every estimate is judged by the weighted-MLE oracle of its own round.
func runClosedReuse(cs *fw.Case, r *prng.Rand) {
	mode := r.Pick([]string{"scalar", "ScalarIid(n=-1)", "ScalarIid(n=-1)", "ScalarIid", "ScalarId", "vectorNormal"})
	kind := scalarKinds[r.Intn(len(scalarKinds))]
	rounds := r.Range(2, 3)
	N := r.Range(1, 40) // number of observations / vectors, the same in every round
	dim := r.Range(1, 3)
	pool := seqPool()

	// non-uniform weights per observation / vector
	weights := func() ([]float64, string) {
		switch r.Intn(3) {
		case 0:
			return nil, "unweighted"
		case 1:
			g := make([]float64, N)
			for i := range g {
				g[i] = r.Uniform(-8, 0)
			}
			return g, "weighted"
		default:
			g := make([]float64, N)
			for i := range g {
				g[i] = r.Uniform(-6, 0)
				if r.Chance(0.25) {
					g[i] = negInf
				}
			}
			g[r.Intn(N)] = -0.5
			return g, "weighted"
		}
	}
	type round struct {
		rows  [][]float64 // N vectors (scalar mode: length 1 each)
		gamma []float64
		entry string
	}
	// data of all rounds first (the categorical estimator needs the alphabet)
	hist := make([]round, rounds)
	var pooled []float64
	for q := range hist {
		rd := &hist[q]
		rd.gamma, _ = weights()
		rd.entry = r.Pick([]string{"SetData+Estimate", "EstimateOnData"})
		rd.rows = make([][]float64, N)
		total := 0
		lens := make([]int, N)
		for i := range lens {
			switch mode {
			case "scalar":
				lens[i] = 1
			case "ScalarIid(n=-1)":
				lens[i] = r.Range(1, 4) // variable-length vectors, different in every round
			default:
				lens[i] = dim
			}
			total += lens[i]
		}
		col, _ := kind.gen(r, total)
		if mode == "vectorNormal" {
			X, _ := genVectors(r, N, dim)
			rd.rows = X
		} else {
			o := 0
			for i := range rd.rows {
				rd.rows[i] = col[o : o+lens[i]]
				o += lens[i]
			}
		}
		pooled = append(pooled, col...)
	}
	hw := make([]map[string]any, len(hist))
	for q, rd := range hist {
		hw[q] = map[string]any{"vectors": rd.rows, "gamma": gammaJSON(rd.gamma), "entry": rd.entry}
	}
	wit := map[string]any{"mode": mode, "estimator": kind.name, "history": hw}
	name := mode + ":" + kind.name
	if mode == "vectorNormal" {
		name = mode
	}
	cs.Cover("reuse:" + mode)

	// one estimator object for the whole history
	var scalarEst both
	var fam family
	var iid *ve.ScalarIid
	var sid *ve.ScalarId
	var mvn *ve.NormalEstimator
	var parts []family
	smin := 1e-10
	var err error
	if p := fw.Call(func() {
		switch mode {
		case "scalar", "ScalarIid(n=-1)", "ScalarIid":
			var cfg map[string]any
			if scalarEst, fam, cfg, err = kind.mk(r, pooled); err != nil {
				return
			}
			wit["config"] = cfg
			if mode != "scalar" {
				n := dim
				if mode == "ScalarIid(n=-1)" {
					n = -1
				}
				iid, err = ve.NewScalarIid(scalarEst, n)
			}
		case "ScalarId":
			se := make([]stat.ScalarEstimator, dim)
			parts = make([]family, dim)
			for q := 0; q < dim; q++ {
				var e both
				if e, parts[q], _, err = kind.mk(r, pooled); err != nil {
					return
				}
				se[q] = e
			}
			sid, err = ve.NewScalarId(se...)
		case "vectorNormal":
			mu0 := make([]float64, dim)
			sg0 := make([]float64, dim*dim)
			for i := 0; i < dim; i++ {
				sg0[i*dim+i] = 1
			}
			mvn, err = ve.NewNormalEstimator(mu0, sg0, smin)
		}
	}); p != nil || err != nil {
		cs.Skip("constructor")
		return
	}
	for q, rd := range hist {
		rc := "round=1"
		if q > 0 {
			rc = "round>1"
		}
		vecs := make([]ad.ConstVector, N)
		for i := range vecs {
			vecs[i] = vecF(rd.rows[i])
		}
		// flattened view: every scalar with the weight of its vector
		var flat []float64
		var fg []float64
		for i, row := range rd.rows {
			for _, v := range row {
				flat = append(flat, v)
				if rd.gamma != nil {
					fg = append(fg, rd.gamma[i])
				}
			}
		}
		var theta []float64
		var judgeFam family
		var d *dataset
		var pname func(int) string
		var spread string
		p := fw.Call(func() {
			g := gammaVec(rd.gamma)
			switch mode {
			case "scalar":
				if rd.entry == "EstimateOnData" {
					err = scalarEst.EstimateOnData(vecF(flat), g, pool)
				} else if err = scalarEst.SetData(vecF(flat), len(flat)); err == nil {
					err = scalarEst.Estimate(g, pool)
				}
				if err != nil {
					return
				}
				var pdf stat.ScalarPdf
				if pdf, err = scalarEst.GetEstimate(); err != nil {
					return
				}
				theta, err = kind.read(pdf, fam)
				judgeFam, d, pname = fam, &dataset{X: asRows(flat), Gamma: fg}, kind.pname
			case "ScalarIid(n=-1)", "ScalarIid":
				if rd.entry == "EstimateOnData" {
					err = iid.EstimateOnData(vecs, g, pool)
				} else if err = iid.SetData(vecs, N); err == nil {
					err = iid.Estimate(g, pool)
				}
				if err != nil {
					return
				}
				var pdf stat.VectorPdf
				if pdf, err = iid.GetEstimate(); err != nil {
					return
				}
				inner, ok := pdf.(*vd.ScalarIid)
				if !ok {
					err = fmt.Errorf("estimate has type %T", pdf)
					return
				}
				theta, err = kind.read(inner.Distribution, fam)
				// the i.i.d. model on the flattened data, one weight per scalar
				judgeFam, d, pname = fam, &dataset{X: asRows(flat), Gamma: fg}, kind.pname
			case "ScalarId":
				if rd.entry == "EstimateOnData" {
					err = sid.EstimateOnData(vecs, g, pool)
				} else if err = sid.SetData(vecs, N); err == nil {
					err = sid.Estimate(g, pool)
				}
				if err != nil {
					return
				}
				var pdf stat.VectorPdf
				if pdf, err = sid.GetEstimate(); err != nil {
					return
				}
				id, ok := pdf.(*vd.ScalarId)
				if !ok {
					err = fmt.Errorf("estimate has type %T", pdf)
					return
				}
				nps := make([]int, dim)
				for c := 0; c < dim; c++ {
					var t []float64
					if t, err = kind.read(id.Distributions[c], parts[c]); err != nil {
						return
					}
					nps[c] = len(t)
					theta = append(theta, t...)
				}
				pf := productFam{parts: parts, np: nps, dim: dim}
				judgeFam, d = pf, &dataset{X: rd.rows, Gamma: rd.gamma}
				pname = func(k int) string { _, kk := pf.locate(theta, k); return kind.pname(kk) }
			case "vectorNormal":
				if rd.entry == "EstimateOnData" {
					err = mvn.EstimateOnData(vecs, g, pool)
				} else if err = mvn.SetData(vecs, N); err == nil {
					err = mvn.Estimate(g, pool)
				}
				if err != nil {
					return
				}
				var pdf stat.VectorPdf
				if pdf, err = mvn.GetEstimate(); err != nil {
					return
				}
				nd, ok := pdf.(*vd.NormalDistribution)
				if !ok {
					err = fmt.Errorf("estimate has type %T", pdf)
					return
				}
				for i := 0; i < dim; i++ {
					theta = append(theta, nd.Mu.At(i).GetFloat64())
				}
				for i := 0; i < dim; i++ {
					for k := 0; k < dim; k++ {
						theta = append(theta, 0.5*(nd.Sigma.At(i, k).GetFloat64()+nd.Sigma.At(k, i).GetFloat64()))
					}
				}
				judgeFam, d = mvnFam{dim, smin}, &dataset{X: rd.rows, Gamma: rd.gamma}
				pname = func(k int) string {
					if k < dim {
						return "mu"
					}
					return "Sigma"
				}
			}
		})
		cs.Cover("reuse-entry:" + rd.entry)
		sigBase := fmt.Sprintf("C16|%s|%s|%s", cs.Monitor, name, rc)
		if p != nil {
			cs.Violation(sigBase+"|panic", p.Msg+"\n"+p.Stack, wit)
			return
		}
		// is the round judgeable at all?
		dd := d
		if dd == nil {
			dd = &dataset{X: asRows(flat), Gamma: fg}
			if mode == "ScalarId" || mode == "vectorNormal" {
				dd = &dataset{X: rd.rows, Gamma: rd.gamma}
			}
		}
		dd.prepare()
		if dd.wsum == 0 || math.IsNaN(dd.wsum) {
			cs.Skip("no-weight")
			return
		}
		outside := false
		switch mode {
		case "vectorNormal":
			_, _, _, pd := referenceCov(dd, dim, smin)
			outside = !pd
		case "ScalarId":
			for c := 0; c < dim; c++ {
				if kind.noMLE(&dataset{X: asRows(column(rd.rows, c)), w: dd.w, wsum: dd.wsum}) {
					outside = true
				}
			}
		default:
			outside = kind.noMLE(dd)
		}
		if outside {
			// the estimator may have failed or be left on a boundary value: the
			// history ends here
			cs.Skip("mle-outside-domain")
			return
		}
		if err != nil {
			cs.Violation(sigBase+"|error", fmt.Sprintf("round %d (%s): %v", q+1, rd.entry, err), wit)
			return
		}
		if kind.name == "normal" || mode == "vectorNormal" {
			spread = "mean/sd<1e2"
			for c := range dd.X[0] {
				if s := spreadClass(dd, c); s > spread {
					spread = s
				}
			}
			sigBase += "," + spread
		}
		wit[fmt.Sprintf("estimate_round%d", q+1)] = theta
		cs.Cover("reuse:" + rc + ":judged")
		judgeEstimate(cs, sigBase, judgeFam, theta, dd, pname, wit)
		if cs.Violations() > 0 {
			return
		}
	}
	if N >= 2 {
		cs.Nontrivial(mode, kind.name, fmt.Sprint(hw))
	}
}
