package c16

import (
	"fmt"
	"math"

	ad "github.com/pbenner/autodiff"
	stat "github.com/pbenner/autodiff/statistics"
	md "github.com/pbenner/autodiff/statistics/matrixDistribution"
	me "github.com/pbenner/autodiff/statistics/matrixEstimator"
	vd "github.com/pbenner/autodiff/statistics/vectorDistribution"
	ve "github.com/pbenner/autodiff/statistics/vectorEstimator"

	"verifharness/internal/fw"
	"verifharness/internal/prng"
)

// runClosedMatrixId: matrixEstimator.VectorId (one vector estimator per row of
// the observed matrices; the matrix family that takes log-weights) over vector
// normal estimators; every row is judged with the multivariate-normal
// likelihood.
func runClosedMatrixId(cs *fw.Case, r *prng.Rand) {
	rows := r.Range(1, 2)
	dim := r.Range(1, 2)
	n := genSize(r)
	if n < 4 {
		n = r.Range(4, 60)
	}
	data := make([][][]float64, rows) // row, observation, coordinate
	for q := range data {
		for {
			var cl string
			data[q], cl = genVectors(r, n, dim)
			if cl == "regular" || cl == "integer" {
				break
			}
		}
	}
	gamma, wclass := genGamma(r, n)
	gamma, wclass = applyShift(r, gamma, wclass, n)
	smin := 1e-10
	wit := map[string]any{"estimator": "matrixEstimator.VectorId(vector normal)", "rows": rows, "dim": dim, "x_by_row": data, "gamma": gammaJSON(gamma)}
	class := fmt.Sprintf("%s", wclass)
	sigBase := fmt.Sprintf("C16|%s|VectorId:vectorNormal|%s", cs.Monitor, class)
	var pdf stat.MatrixPdf
	var err error
	p := fw.Call(func() {
		ests := make([]stat.VectorEstimator, rows)
		for q := range ests {
			mu0 := make([]float64, dim)
			sg0 := make([]float64, dim*dim)
			for i := 0; i < dim; i++ {
				sg0[i*dim+i] = 1
			}
			if ests[q], err = ve.NewNormalEstimator(mu0, sg0, smin); err != nil {
				return
			}
		}
		var est *me.VectorId
		if est, err = me.NewVectorId(ests...); err != nil {
			return
		}
		xs := make([]ad.ConstMatrix, n)
		for i := range xs {
			m := make([][]float64, rows)
			for q := range m {
				m[q] = data[q][i]
			}
			xs[i] = matF(m)
		}
		if err = est.EstimateOnData(xs, gammaVec(gamma), seqPool()); err != nil {
			return
		}
		pdf, err = est.GetEstimate()
	})
	cs.Cover("estimator:matrix-VectorId")
	d0 := &dataset{X: data[0], Gamma: gamma}
	d0.prepare()
	if d0.wsum == 0 || math.IsNaN(d0.wsum) {
		cs.Skip("no-weight")
		return
	}
	if p != nil {
		cs.Violation(sigBase+"|panic", p.Msg+"\n"+p.Stack, wit)
		return
	}
	for q := 0; q < rows; q++ {
		dq := &dataset{X: data[q], Gamma: gamma}
		dq.prepare()
		if _, _, _, pd := referenceCov(dq, dim, smin); !pd {
			cs.Skip("singular-covariance")
			return
		}
	}
	if err != nil {
		cs.Violation(sigBase+"|error", err.Error(), wit)
		return
	}
	vid, ok := pdf.(*md.VectorId)
	if !ok || len(vid.Distributions) != rows {
		cs.Violation(sigBase+"|estimate-type", fmt.Sprintf("%T", pdf), wit)
		return
	}
	for q := 0; q < rows; q++ {
		nd, ok := vid.Distributions[q].(*vd.NormalDistribution)
		if !ok {
			cs.Violation(sigBase+"|estimate-type", fmt.Sprintf("row %d: %T", q, vid.Distributions[q]), wit)
			return
		}
		theta := make([]float64, 0, dim+dim*dim)
		for i := 0; i < dim; i++ {
			theta = append(theta, nd.Mu.At(i).GetFloat64())
		}
		for i := 0; i < dim; i++ {
			for k := 0; k < dim; k++ {
				theta = append(theta, 0.5*(nd.Sigma.At(i, k).GetFloat64()+nd.Sigma.At(k, i).GetFloat64()))
			}
		}
		wit[fmt.Sprintf("estimate_row%d", q)] = theta
		dq := &dataset{X: data[q], Gamma: gamma}
		dq.prepare()
		fam := mvnFam{dim, smin}
		judgeEstimate(cs, sigBase, fam, theta, dq, func(k int) string {
			if k < dim {
				return "mu"
			}
			return "Sigma"
		}, wit)
	}
	if cs.Violations() == 0 {
		cs.Nontrivial("matrixId", rows, dim, data, gamma)
	}
}
