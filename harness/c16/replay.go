package c16

import (
	"verifharness/internal/fw"
	"verifharness/internal/prng"
)

// replay is the directed list: the addresses (seed, monitor, index) of the
// generated cases that witness each open finding.  A case is a function of its
// PRNG stream only, so re-deriving the stream reproduces the case under any
// VERIF_SEED and tier; every run therefore re-executes one witness per known
// signature before the seeded lists.  The positions are referenced by
// known_findings.jsonl (witness "directed#k"): append only, never reorder.
var replay = []struct {
	Seed uint64
	Mon  string
	Idx  int
	Sig  string // what the case is expected to show (documentation only)
}{
	{1, "closed.vector", 1168, "C16|closed.vector|vectorNormal|d>=2,floor-active|not-maximal:Sigma"},
	{1, "closed.wrapper", 800, "repaired in /repo (8ce871f / 291e3fe), kept as regression case: C16|closed.wrapper|ScalarIid(n=-1)|rows=1,dim>1,weighted|panic"},
	{1, "closed.wrapper", 48, "repaired in /repo (8ce871f / 291e3fe), kept as regression case: C16|closed.wrapper|ScalarIid(n=-1)|rows>1,dim>1,weighted|panic"},
	{1, "closed.wrapper", 288, "repaired in /repo (8ce871f / 291e3fe), kept as regression case: C16|closed.wrapper|ScalarIid|rows=1,dim>1,weighted|panic"},
	{1, "closed.wrapper", 16, "repaired in /repo (8ce871f / 291e3fe), kept as regression case: C16|closed.wrapper|ScalarIid|rows>1|error"},
	{1, "closed.wrapper", 2256, "C16|closed|scalarNormal-moments|mean/sd<1e6|wrong-estimate"},
	{1, "closed.scalar", 5808, "C16|closed|scalarNormal-moments|mean/sd>=1e6|wrong-estimate"},
	{1, "closed.scalar", 2704, "C16|closed|scalarNormal-moments|sd=0|wrong-estimate"},
	{1, "closed.vector", 368, "C16|closed|vectorNormal-moments|mean/sd<1e4|wrong-estimate"},
	{1, "closed.vector", 1024, "C16|closed|vectorNormal-moments|mean/sd<1e6|wrong-estimate"},
	{1, "closed.vector", 15216, "C16|closed|vectorNormal-moments|mean/sd>=1e6|wrong-estimate"},
	{7, "closed.vector", 5663, "C16|closed|vectorNormal-moments|sd=0|wrong-estimate"},
	{1, "em.hmm.options", 17, "repaired in /repo (8ce871f / 291e3fe), kept as regression case: C16|em.hmm.options|matrixHmm,OptimizeTransitions=false|panic"},
	{1, "em.hmm.options", 0, "repaired in /repo (8ce871f / 291e3fe), kept as regression case: C16|em.hmm.options|vectorHmm,OptimizeTransitions=false|panic"},
	{1, "em.hmm", 137, "C16|em|categorical|component-parameters-nan|nan-likelihood"},
	{1, "em.hmm", 174, "C16|em|exponential|component-parameters-nan|nan-likelihood"},
	{1, "em.mixture.scalar", 48, "C16|em|geometric|component-density-nan|nan-likelihood"},
	{1, "em.hmm", 1728, "C16|em|geometric|component-parameters-nan|nan-likelihood"},
	{1, "em.hmm", 395, "C16|em|hmm|final-state-set|decrease"},
	{1, "em.mixture.scalar", 800, "C16|em|negativeBinomial|component-density-nan|nan-likelihood"},
	{42, "em.mixture.vector", 340, "C16|em|normal-moments|mean/sd<1e4|decrease"},
	{7, "em.mixture.vector", 200, "C16|em|normal-moments|mean/sd<1e6|decrease"},
	{1, "em.hmm", 1282, "C16|em|normal-moments|mean/sd>=1e6|decrease"},
	{1, "em.mixture.vector", 1072, "C16|em|normal-moments|sd=0|decrease"},
	{1, "em.hmm", 1026, "C16|em|normal|component-parameters-nan|nan-likelihood"},
	{1, "em.hmm", 66, "C16|em|poisson|component-parameters-nan|nan-likelihood"},
	{2, "em.mixture.vector", 173, "C16|em|vectorNormal|d>=2,floor-active|decrease"},
	{1, "numeric", 96, "C16|numeric|bfgs|moved|not-stationary"},
	{1, "numeric", 0, "C16|numeric|bfgs|returned-initial-point|not-stationary"},
	{1, "em.mixture.discrete", 64, "C16|em|normal-moments|component-mean/sd>=1e2|differs-from-raw-data"},
}

var monitors = map[string]func(cs *fw.Case){
	"closed.scalar":       func(cs *fw.Case) { runClosedScalar(cs, cs.R) },
	"closed.wrapper":      func(cs *fw.Case) { runClosedWrapper(cs, cs.R) },
	"closed.vector":       func(cs *fw.Case) { runClosedMvn(cs, cs.R) },
	"numeric":             func(cs *fw.Case) { runNumeric(cs, cs.R) },
	"em.mixture.scalar":   func(cs *fw.Case) { runEmScalarMixture(cs, cs.R) },
	"em.mixture.discrete": func(cs *fw.Case) { runEmDiscreteMixture(cs, cs.R) },
	"em.mixture.vector":   func(cs *fw.Case) { runEmVectorMixture(cs, cs.R) },
	"em.hmm":              func(cs *fw.Case) { runEmHmm(cs, cs.R, nil) },
	"em.hmm.options":      func(cs *fw.Case) { f := false; runEmHmm(cs, cs.R, &f) },
	"em.nested":           func(cs *fw.Case) { runEmNested(cs, cs.R) },
}

func runReplay(cs *fw.Case) {
	if cs.Index >= len(replay) {
		// the driver may stretch case lists by a multiple; the directed list has
		// a fixed length
		return
	}
	e := replay[cs.Index]
	cs.Monitor = e.Mon
	cs.R = prng.For(e.Seed, e.Mon, e.Idx)
	monitors[e.Mon](cs)
	cs.Monitor = "directed"
	cs.Cover("directed:" + e.Mon)
}
