package c16

import (
	"fmt"
	"math"
	"strings"

	ad "github.com/pbenner/autodiff"
	stat "github.com/pbenner/autodiff/statistics"
	sd "github.com/pbenner/autodiff/statistics/scalarDistribution"
	se "github.com/pbenner/autodiff/statistics/scalarEstimator"
	vd "github.com/pbenner/autodiff/statistics/vectorDistribution"
	ve "github.com/pbenner/autodiff/statistics/vectorEstimator"
	"github.com/pbenner/threadpool"

	"verifharness/internal/fw"
	"verifharness/internal/prng"
)

// seqPool is the sequential thread pool (parallel schedules are C17).
func seqPool() threadpool.ThreadPool { return threadpool.ThreadPool{} }

// both is what every closed-form scalar estimator of the library implements.
type both interface {
	stat.ScalarEstimator
	stat.ScalarBatchEstimator
}

// scalarKind describes one closed-form scalar estimator.
type scalarKind struct {
	name string
	gen  func(r *prng.Rand, n int) ([]float64, string)
	// mk draws a configuration (bounds, initial parameters) and returns the
	// estimator, the family (with the configured bounds) and the configuration
	mk func(r *prng.Rand, x []float64) (both, family, map[string]any, error)
	// read extracts theta from the estimate
	read func(p stat.ScalarPdf, f family) ([]float64, error)
	// pnames names the perturbation directions
	pname func(k int) string
	// noMLE: the weighted MLE does not exist inside the distribution's domain
	noMLE func(d *dataset) bool
}

func allZero(d *dataset) bool {
	for i, x := range d.X {
		if d.w[i] > 0 && x[0] != 0 {
			return false
		}
	}
	return true
}

var scalarKinds = []scalarKind{
	{
		name: "normal", gen: genReal,
		mk: func(r *prng.Rand, x []float64) (both, family, map[string]any, error) {
			smin := r.PickF([]float64{1e-12, 1e-8, 1e-3, 0.5, 5})
			e, err := se.NewNormalEstimator(r.Uniform(-1, 1), r.LogUniform(0.1, 10), smin)
			return e, normalFam{smin}, map[string]any{"SigmaMin": smin}, err
		},
		read: func(p stat.ScalarPdf, f family) ([]float64, error) {
			n, ok := p.(*sd.NormalDistribution)
			if !ok {
				return nil, fmt.Errorf("estimate has type %T", p)
			}
			return []float64{n.Mu.GetFloat64(), n.Sigma.GetFloat64()}, nil
		},
		pname: func(k int) string { return []string{"mu", "sigma"}[k] },
		noMLE: func(d *dataset) bool { return false },
	},
	{
		name: "exponential", gen: genPositive,
		mk: func(r *prng.Rand, x []float64) (both, family, map[string]any, error) {
			lmax := r.PickF([]float64{1e-2, 1, 100, 1e12, math.MaxFloat64})
			e, err := se.NewExponentialEstimator(r.LogUniform(0.1, 10), lmax)
			return e, expFam{lmax}, map[string]any{"LambdaMax": lmax}, err
		},
		read: func(p stat.ScalarPdf, f family) ([]float64, error) {
			n, ok := p.(*sd.ExponentialDistribution)
			if !ok {
				return nil, fmt.Errorf("estimate has type %T", p)
			}
			return []float64{n.Lambda.GetFloat64()}, nil
		},
		pname: func(k int) string { return "lambda" },
		noMLE: func(d *dataset) bool { return false },
	},
	{
		name: "poisson", gen: genCounts,
		mk: func(r *prng.Rand, x []float64) (both, family, map[string]any, error) {
			e, err := se.NewPoissonEstimator(r.LogUniform(0.1, 10))
			return e, poissonFam{}, map[string]any{}, err
		},
		read: func(p stat.ScalarPdf, f family) ([]float64, error) {
			n, ok := p.(*sd.PoissonDistribution)
			if !ok {
				return nil, fmt.Errorf("estimate has type %T", p)
			}
			return []float64{n.Lambda.GetFloat64()}, nil
		},
		pname: func(k int) string { return "lambda" },
		noMLE: allZero, // lambda = 0 is not a Poisson distribution of the library
	},
	{
		name: "geometric", gen: genCounts,
		mk: func(r *prng.Rand, x []float64) (both, family, map[string]any, error) {
			e, err := se.NewGeometricEstimator(r.Uniform(0.05, 0.95))
			return e, geomFam{}, map[string]any{}, err
		},
		read: func(p stat.ScalarPdf, f family) ([]float64, error) {
			n, ok := p.(*sd.GeometricDistribution)
			if !ok {
				return nil, fmt.Errorf("estimate has type %T", p)
			}
			return []float64{n.GetParameters().At(0).GetFloat64()}, nil
		},
		pname: func(k int) string { return "p" },
		// p = 1 (all observations zero) is a point mass, on the boundary of the
		// parameter domain; so is p = 0 of the negative binomial
		noMLE: allZero,
	},
	{
		name: "negativeBinomial", gen: genCounts,
		mk: func(r *prng.Rand, x []float64) (both, family, map[string]any, error) {
			rr := r.PickF([]float64{0.5, 1, 2, 7.5, 40})
			e, err := se.NewNegativeBinomialEstimator(rr, r.Uniform(0.05, 0.95))
			return e, negbinFam{rr}, map[string]any{"r": rr}, err
		},
		read: func(p stat.ScalarPdf, f family) ([]float64, error) {
			n, ok := p.(*sd.NegativeBinomialDistribution)
			if !ok {
				return nil, fmt.Errorf("estimate has type %T", p)
			}
			if rr := n.R.GetFloat64(); rr != f.(negbinFam).r {
				return nil, fmt.Errorf("fixed parameter r changed from %v to %v", f.(negbinFam).r, rr)
			}
			return []float64{n.P.GetFloat64()}, nil
		},
		pname: func(k int) string { return "p" },
		noMLE: allZero,
	},
	{
		name: "categorical",
		gen: func(r *prng.Rand, n int) ([]float64, string) {
			return genCategories(r, n, 2+r.Intn(4))
		},
		mk: func(r *prng.Rand, x []float64) (both, family, map[string]any, error) {
			k := 1
			for _, v := range x {
				if int(v)+1 > k {
					k = int(v) + 1
				}
			}
			k += r.Intn(2) // possibly one category that is never observed
			th := make([]float64, k)
			for i := range th {
				th[i] = 1 / float64(k)
			}
			e, err := se.NewCategoricalEstimator(th)
			return e, catFam{}, map[string]any{"categories": k}, err
		},
		read: func(p stat.ScalarPdf, f family) ([]float64, error) {
			n, ok := p.(*sd.CategoricalDistribution)
			if !ok {
				return nil, fmt.Errorf("estimate has type %T", p)
			}
			th := make([]float64, n.Theta.Dim())
			for i := range th {
				th[i] = math.Exp(n.Theta.At(i).GetFloat64())
			}
			return th, nil
		},
		pname: func(k int) string { return "theta" },
		noMLE: func(d *dataset) bool { return false },
	},
}

// judgeEstimate: bounds and perturbation test of theta against the family's
// closed-form likelihood.  sigBase is "C16|monitor|estimator|variant|class".
func judgeEstimate(cs *fw.Case, sigBase string, fam family, theta []float64, d *dataset, pname func(k int) string, wit map[string]any) {
	for _, t := range theta {
		if math.IsNaN(t) {
			cs.Violation(sigBase+failKind(sigBase, "|nan-estimate"), fmt.Sprintf("estimate %s contains NaN", fmtTheta(theta)), wit)
			return
		}
	}
	if !fam.admissible(theta) {
		cs.Violation(sigBase+failKind(sigBase, "|bound"), fmt.Sprintf("estimate %s is outside the configured bounds %v", fmtTheta(theta), wit["config"]), wit)
		return
	}
	L0, a0, ok := fam.loglik(theta, d)
	if !ok {
		cs.Violation(sigBase+failKind(sigBase, "|bound"), fmt.Sprintf("estimate %s is outside the parameter domain", fmtTheta(theta)), wit)
		return
	}
	cs.Cover("judged-estimates")
	// Gamma: magnitude of the log-weights.  The weights enter as exp(gamma_i), so
	// a relative rounding of gamma_i moves w_i by eps*|gamma_i|: the parameters
	// are determined by the data only up to r_k = 8*eps*(1+Gamma)*|theta_k|
	// (condition of the estimate with respect to its inputs, DESIGN.md 2.4)
	Gamma := 0.0
	for _, g := range d.Gamma {
		if !math.IsInf(g, 0) && math.Abs(g) > Gamma {
			Gamma = math.Abs(g)
		}
	}
	np := fam.nparams(theta)
	reported := map[string]bool{}
	type side struct {
		tp    []float64
		L, a  float64
		ok    bool
		delta float64
	}
	for k := 0; k < np; k++ {
		sc := fam.scale(theta, k)
		if !(sc > 0) || math.IsInf(sc, 0) {
			sc = 1
		}
		for _, rel := range []float64{1e-3, 1e-5} {
			var sides [2]side
			for si, sign := range []float64{1, -1} {
				sd := &sides[si]
				sd.delta = sign * rel * sc
				sd.tp = fam.perturb(theta, k, sd.delta)
				if sd.tp == nil {
					continue
				}
				if !fam.admissible(sd.tp) {
					cs.Cover("perturbation:projected-onto-bound")
					continue
				}
				sd.L, sd.a, sd.ok = fam.loglik(sd.tp, d)
				if !sd.ok {
					cs.Cover("perturbation:outside-domain")
				}
			}
			// curvature along the direction (second difference)
			D2 := 0.0
			switch {
			case sides[0].ok && sides[1].ok:
				D2 = math.Abs(sides[0].L + sides[1].L - 2*L0)
			case sides[0].ok:
				D2 = 2 * math.Abs(sides[0].L-L0)
			case sides[1].ok:
				D2 = 2 * math.Abs(sides[1].L-L0)
			}
			for _, sd := range sides {
				if !sd.ok {
					continue
				}
				// resolution of the parameters that move in this direction
				rk := 0.0
				for q := range sd.tp {
					if sd.tp[q] != theta[q] {
						if r := 8 * eps * (1 + Gamma) * math.Abs(theta[q]); r > rk {
							rk = r
						}
					}
				}
				if rk >= math.Abs(sd.delta) {
					cs.Cover("perturbation:below-parameter-resolution")
					continue
				}
				cs.Cover("perturbation:evaluated")
				allow := K*eps*(a0+sd.a) + D2*rk/math.Abs(sd.delta)
				if sd.L-L0 > allow || (math.IsInf(L0, -1) && !math.IsInf(sd.L, -1)) {
					name := pname(k)
					kindSig := failKind(sigBase, "|not-maximal:"+name)
					if strings.Contains(sigBase, "-moments|") {
						name = "*"
					}
					if !reported[name] {
						reported[name] = true
						cs.Violation(sigBase+kindSig,
							fmt.Sprintf("weighted log-likelihood at the estimate %s is %.17g; at the admissible point %s (direction %s, step %+.3g) it is %.17g: larger by %.6g (allowance %.3g = rounding of the sums + curvature x parameter resolution)",
								fmtTheta(theta), L0, fmtTheta(sd.tp), pname(k), sd.delta, sd.L, sd.L-L0, allow), wit)
					}
				}
			}
		}
	}
}

// runClosedScalar: one closed-form scalar estimator through one of its entry
// points: Estimate / EstimateOnData / batch interface.
func runClosedScalar(cs *fw.Case, r *prng.Rand) {
	kind := scalarKinds[r.Intn(len(scalarKinds))]
	n := genSize(r)
	x, dclass := kind.gen(r, n)
	gamma, wclass := genGamma(r, n)
	variant := r.Pick([]string{"Estimate", "EstimateOnData", "batch"})
	gamma, wclass = applyShift(r, gamma, wclass, n)
	d := &dataset{X: asRows(x), Gamma: gamma}
	d.prepare()
	est, fam, cfg, err := kind.mk(r, x)
	wit := map[string]any{"estimator": kind.name, "config": cfg, "x": x, "gamma": gammaJSON(gamma), "entry": variant}
	// input class of the signature: conditioning class for the normal family
	// (what its one-pass moments are sensitive to), data class otherwise; entry
	// point and weighting are in the witness, not in the signature
	class := dclass
	if kind.name == "normal" {
		class = spreadClass(d, 0)
	}
	if activeShift != nil {
		class += fmt.Sprintf(",shift=%g", *activeShift)
	}
	sigBase := fmt.Sprintf("C16|%s|%s|%s", cs.Monitor, kind.name, class)
	if kind.name == "normal" && variant == "batch" && extremeShift() {
		cs.Skip("batch-cannot-rescale")
		return
	}
	if kind.name == "normal" && activeShift == nil && illClass(class) != "" {
		// one cell per conditioning class for everything built on the scalar
		// normal estimator's one-pass moments (direct, batch, wrappers)
		sigBase = "C16|closed|scalarNormal-moments|" + class
	}
	if err != nil {
		cs.Violation(sigBase+"|constructor-error", err.Error(), wit)
		return
	}
	cs.Cover("estimator:" + kind.name)
	cs.Cover("entry:" + variant)
	cs.Cover("data:" + dclass)
	cs.Cover("weights:" + wclass)
	cs.Cover("size:" + sizeClass(n))
	var pdf stat.ScalarPdf
	pool := seqPool()
	p := fw.Call(func() {
		switch variant {
		case "Estimate":
			if err = est.SetData(vecF(x), n); err != nil {
				return
			}
			if err = est.Estimate(gammaVec(gamma), pool); err != nil {
				return
			}
		case "EstimateOnData":
			if err = est.EstimateOnData(vecF(x), gammaVec(gamma), pool); err != nil {
				return
			}
		case "batch":
			if err = est.Initialize(pool); err != nil {
				return
			}
			for i, v := range x {
				var g ad.ConstScalar
				if gamma != nil {
					g = ad.ConstFloat64(gamma[i])
				}
				if err = est.NewObservation(ad.ConstFloat64(v), g, pool); err != nil {
					return
				}
			}
		}
		pdf, err = est.GetEstimate()
	})
	if d.wsum == 0 || math.IsNaN(d.wsum) {
		cs.Skip("no-weight")
		return
	}
	if p != nil {
		cs.Violation(sigBase+"|panic", p.Msg+"\n"+p.Stack, wit)
		return
	}
	if kind.noMLE(d) {
		if err != nil {
			cs.Cover("mle-outside-domain:rejected")
		} else {
			cs.Cover("mle-outside-domain:not-rejected(not judged)")
		}
		cs.Skip("mle-outside-domain")
		return
	}
	if err != nil {
		cs.Violation(sigBase+failKind(sigBase, "|error"), err.Error(), wit)
		return
	}
	theta, err := kind.read(pdf, fam)
	if err != nil {
		cs.Violation(sigBase+"|estimate-type", err.Error(), wit)
		return
	}
	wit["estimate"] = theta
	judgeEstimate(cs, sigBase, fam, theta, d, kind.pname, wit)
	if cs.Violations() == 0 && n >= 2 {
		cs.Nontrivial(kind.name, variant, cfg, x, gamma)
	}
}

// failKind: in the cells of the one-pass moment formulas every way in which
// the noisy moments surface (not maximal, below the floor, NaN, not positive
// definite -> error) is one failure kind.
func failKind(sigBase, kind string) string {
	if strings.Contains(sigBase, "-moments|") {
		return "|wrong-estimate"
	}
	return kind
}

func coarseW(w string) string {
	if w == "unweighted" {
		return w
	}
	return "weighted"
}

func coarseEntry(e string) string {
	if e == "batch" {
		return e
	}
	return "Estimate"
}

func gammaJSON(g []float64) any {
	if g == nil {
		return nil
	}
	r := make([]any, len(g))
	for i, v := range g {
		if math.IsInf(v, -1) {
			r[i] = "-Inf"
		} else {
			r[i] = v
		}
	}
	return r
}

/* vector wrappers: ScalarIid / ScalarId / ScalarBatchId
 * -------------------------------------------------------------------------- */

func runClosedWrapper(cs *fw.Case, r *prng.Rand) {
	kind := scalarKinds[r.Intn(len(scalarKinds))]
	wrapper := r.Pick([]string{"ScalarIid", "ScalarIid(n=-1)", "ScalarId", "ScalarBatchId"})
	n := genSize(r)
	dim := r.Range(1, 3)
	gamma, wclass := genGamma(r, n)
	gamma, wclass = applyShift(r, gamma, wclass, n)
	// data: one column per coordinate
	X := make([][]float64, n)
	for i := range X {
		X[i] = make([]float64, dim)
	}
	cols := make([][]float64, dim)
	for q := 0; q < dim; q++ {
		var col []float64
		col, _ = kind.gen(r, n)
		cols[q] = col
		for i := range X {
			X[i][q] = col[i]
		}
	}
	if kind.name == "normal" && wrapper == "ScalarBatchId" && extremeShift() {
		cs.Skip("batch-cannot-rescale")
		return
	}
	iid := wrapper == "ScalarIid" || wrapper == "ScalarIid(n=-1)"
	d := &dataset{X: X, Gamma: gamma}
	d.prepare()
	wit := map[string]any{"estimator": kind.name, "wrapper": wrapper, "dim": dim, "x": X, "gamma": gammaJSON(gamma)}
	rowsC := map[bool]string{true: "rows=1", false: "rows>1"}[n == 1]
	shape := fmt.Sprintf("%s,%s,%s", rowsC, map[bool]string{true: "dim=1", false: "dim>1"}[dim == 1], coarseW(wclass))
	// failures of the wrapper itself do not depend on the wrapped family
	sigWrap := fmt.Sprintf("C16|%s|%s|%s", cs.Monitor, wrapper, shape)
	sigWrapErr := fmt.Sprintf("C16|%s|%s|%s", cs.Monitor, wrapper, rowsC)
	pool := seqPool()
	var fam family
	var theta []float64
	var err error
	var cfgs []map[string]any
	p := fw.Call(func() {
		rows := make([]ad.ConstVector, n)
		for i := range rows {
			rows[i] = vecF(X[i])
		}
		switch {
		case iid:
			var pooled []float64
			for _, c := range cols {
				pooled = append(pooled, c...)
			}
			e, f, cfg, e1 := kind.mk(r, pooled)
			if err = e1; err != nil {
				return
			}
			cfgs = append(cfgs, cfg)
			np := 0
			nn := dim
			if wrapper == "ScalarIid(n=-1)" {
				nn = -1
			}
			var w *ve.ScalarIid
			if w, err = ve.NewScalarIid(e, nn); err != nil {
				return
			}
			if err = w.EstimateOnData(rows, gammaVec(gamma), pool); err != nil {
				return
			}
			var pdf stat.VectorPdf
			if pdf, err = w.GetEstimate(); err != nil {
				return
			}
			inner, ok := pdf.(*vd.ScalarIid)
			if !ok {
				err = fmt.Errorf("estimate has type %T", pdf)
				return
			}
			if theta, err = kind.read(inner.Distribution, f); err != nil {
				return
			}
			np = len(theta)
			fam = productFam{parts: []family{f}, np: []int{np}, iid: true, dim: dim}
		default:
			parts := make([]family, dim)
			nps := make([]int, dim)
			ests := make([]both, dim)
			for q := 0; q < dim; q++ {
				e, f, cfg, e1 := kind.mk(r, cols[q])
				if err = e1; err != nil {
					return
				}
				cfgs = append(cfgs, cfg)
				ests[q], parts[q] = e, f
			}
			var pdf stat.VectorPdf
			if wrapper == "ScalarId" {
				se := make([]stat.ScalarEstimator, dim)
				for q := range se {
					se[q] = ests[q]
				}
				var w *ve.ScalarId
				if w, err = ve.NewScalarId(se...); err != nil {
					return
				}
				if err = w.EstimateOnData(rows, gammaVec(gamma), pool); err != nil {
					return
				}
				if pdf, err = w.GetEstimate(); err != nil {
					return
				}
			} else {
				sb := make([]stat.ScalarBatchEstimator, dim)
				for q := range sb {
					sb[q] = ests[q]
				}
				var w *ve.ScalarBatchId
				if w, err = ve.NewScalarBatchId(sb...); err != nil {
					return
				}
				if err = w.Initialize(pool); err != nil {
					return
				}
				for i := range rows {
					var g ad.ConstScalar
					if gamma != nil {
						g = ad.ConstFloat64(gamma[i])
					}
					if err = w.NewObservation(rows[i], g, pool); err != nil {
						return
					}
				}
				if pdf, err = w.GetEstimate(); err != nil {
					return
				}
			}
			id, ok := pdf.(*vd.ScalarId)
			if !ok {
				err = fmt.Errorf("estimate has type %T", pdf)
				return
			}
			for q := 0; q < dim; q++ {
				var t []float64
				if t, err = kind.read(id.Distributions[q], parts[q]); err != nil {
					return
				}
				nps[q] = len(t)
				theta = append(theta, t...)
			}
			fam = productFam{parts: parts, np: nps, dim: dim}
		}
	})
	wit["config"] = cfgs
	cs.Cover("wrapper:" + wrapper)
	cs.Cover("wrapped:" + kind.name)
	if d.wsum == 0 || math.IsNaN(d.wsum) {
		cs.Skip("no-weight")
		return
	}
	if p != nil {
		cs.Violation(sigWrap+"|panic", p.Msg+"\n"+p.Stack, wit)
		return
	}
	// MLE outside the domain in some coordinate
	for q := 0; q < dim; q++ {
		if kind.noMLE(&dataset{X: asRows(cols[q]), w: d.w, wsum: d.wsum}) && (!iid || dim == 1) {
			cs.Skip("mle-outside-domain")
			return
		}
	}
	if iid && (kind.name == "poisson" || kind.name == "geometric" || kind.name == "negativeBinomial") {
		all := true
		for q := 0; q < dim; q++ {
			all = all && allZero(&dataset{X: asRows(cols[q]), w: d.w, wsum: d.wsum})
		}
		if all {
			cs.Skip("mle-outside-domain")
			return
		}
	}
	if err != nil {
		cs.Violation(sigWrapErr+"|error", err.Error(), wit)
		return
	}
	wit["estimate"] = theta
	// estimates: the input class is that of the wrapped family
	cls := "any"
	if kind.name == "normal" {
		cls = "mean/sd<1e2"
		for q := 0; q < dim; q++ {
			if c := spreadClass(&dataset{X: asRows(cols[q]), w: d.w, wsum: d.wsum}, 0); c > cls {
				cls = c
			}
		}
		if iid {
			var pooled [][]float64
			for q := 0; q < dim; q++ {
				pooled = append(pooled, asRows(cols[q])...)
			}
			pw := make([]float64, 0, len(pooled))
			for q := 0; q < dim; q++ {
				pw = append(pw, d.w...)
			}
			cls = spreadClass(&dataset{X: pooled, w: pw, wsum: d.wsum * float64(dim)}, 0)
		}
	}
	if activeShift != nil {
		cls += fmt.Sprintf(",shift=%g", *activeShift)
	}
	sigBase := fmt.Sprintf("C16|%s|%s:%s|%s", cs.Monitor, wrapper, kind.name, cls)
	if kind.name == "normal" && activeShift == nil && illClass(cls) != "" {
		sigBase = "C16|closed|scalarNormal-moments|" + cls
	}
	pname := func(k int) string {
		pf := fam.(productFam)
		q, kk := pf.locate(theta, k)
		_ = q
		return kind.pname(kk)
	}
	judgeEstimate(cs, sigBase, fam, theta, d, pname, wit)
	if cs.Violations() == 0 && n >= 2 {
		cs.Nontrivial(kind.name, wrapper, cfgs, X, gamma)
	}
}
