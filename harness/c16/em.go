package c16

import (
	"fmt"
	"math"

	ad "github.com/pbenner/autodiff"
	stat "github.com/pbenner/autodiff/statistics"
	"github.com/pbenner/autodiff/statistics/generic"
	md "github.com/pbenner/autodiff/statistics/matrixDistribution"
	me "github.com/pbenner/autodiff/statistics/matrixEstimator"
	sd "github.com/pbenner/autodiff/statistics/scalarDistribution"
	se "github.com/pbenner/autodiff/statistics/scalarEstimator"
	vd "github.com/pbenner/autodiff/statistics/vectorDistribution"
	ve "github.com/pbenner/autodiff/statistics/vectorEstimator"

	"verifharness/internal/fw"
	"verifharness/internal/prng"
)

// monoAllowance is DESIGN.md's allowance for the monotonicity assertion.
const monoAllowance = 1e-9

/* component specifications
 * -------------------------------------------------------------------------- */

type compSpec struct {
	Kind string    `json:"kind"`
	P    []float64 `json:"p"`
	Cfg  float64   `json:"bound,omitempty"` // SigmaMin / LambdaMax
}

func (c compSpec) estimator() (stat.ScalarEstimator, error) {
	switch c.Kind {
	case "normal":
		return se.NewNormalEstimator(c.P[0], c.P[1], c.Cfg)
	case "poisson":
		return se.NewPoissonEstimator(c.P[0])
	case "exponential":
		return se.NewExponentialEstimator(c.P[0], c.Cfg)
	case "geometric":
		return se.NewGeometricEstimator(c.P[0])
	case "negativeBinomial":
		return se.NewNegativeBinomialEstimator(c.P[0], c.P[1])
	case "categorical":
		return se.NewCategoricalEstimator(append([]float64{}, c.P...))
	}
	return nil, fmt.Errorf("unknown component %s", c.Kind)
}

var emFamilies = []string{"normal", "poisson", "exponential", "geometric", "negativeBinomial", "categorical"}

// genComponents draws k initial components of one family and a data set that
// such a family can explain (positive density under every admissible
// component).
func genComponents(r *prng.Rand, family string, k, n int) ([]compSpec, []float64, string) {
	comps := make([]compSpec, k)
	var x []float64
	var dclass string
	switch family {
	case "normal":
		x, dclass = genReal(r, n)
		for dclass == "wide" {
			x, dclass = genReal(r, n)
		}
		lo, hi := x[0], x[0]
		for _, v := range x {
			lo, hi = math.Min(lo, v), math.Max(hi, v)
		}
		span := hi - lo
		if span == 0 {
			span = 1
		}
		smin := r.PickF([]float64{1e-6, 1e-3, 0.1})
		for i := range comps {
			comps[i] = compSpec{"normal", []float64{r.Uniform(lo-0.1*span, hi+0.1*span), span * r.LogUniform(0.05, 2)}, smin}
			if comps[i].P[1] < smin {
				comps[i].P[1] = smin
			}
		}
	case "poisson":
		x, dclass = genCounts(r, n)
		for dclass == "large" {
			x, dclass = genCounts(r, n)
		}
		for i := range comps {
			comps[i] = compSpec{"poisson", []float64{r.LogUniform(0.2, 40)}, 0}
		}
	case "geometric":
		x, dclass = genCounts(r, n)
		for i := range comps {
			comps[i] = compSpec{"geometric", []float64{r.Uniform(0.02, 0.9)}, 0}
		}
	case "negativeBinomial":
		x, dclass = genCounts(r, n)
		for i := range comps {
			comps[i] = compSpec{"negativeBinomial", []float64{r.PickF([]float64{0.5, 1, 3, 10}), r.Uniform(0.05, 0.9)}, 0}
		}
	case "exponential":
		x, dclass = genPositive(r, n)
		lmax := r.PickF([]float64{1e3, 1e12})
		for i := range comps {
			comps[i] = compSpec{"exponential", []float64{r.LogUniform(0.01, 50)}, lmax}
		}
	case "categorical":
		kk := 2 + r.Intn(3)
		x, dclass = genCategories(r, n, kk)
		for i := range comps {
			th := make([]float64, kk)
			s := 0.0
			for q := range th {
				th[q] = 0.05 + r.Float64()
				s += th[q]
			}
			for q := range th {
				th[q] /= s
			}
			comps[i] = compSpec{"categorical", th, 0}
		}
	}
	return comps, x, dclass
}

/* trajectory
 * -------------------------------------------------------------------------- */

type trajectory struct {
	// modelW: log-likelihood weighted with the estimator's own observation
	// weights (nested use: Estimate(gamma, ...)); that is what the M-step
	// maximises then, the monotonicity assertion uses it instead of model
	modelW       []float64
	nanComponent bool // a component density evaluated to NaN on an observation
	nanParams    bool // the model handed to a hook has NaN parameters
	nanParamsAt  []bool
	floorActive  bool // a vector-normal component sits on the variance floor (d >= 2)
	family       string
	finalSet     bool      // HMM with a final-state restriction
	illCond      string    // spread class of normal data when |mean|/sd >= 1e4
	reported     []float64 // likelihood handed to hook i (NaN for i = 0)
	model        []float64 // log-likelihood of the model handed to hook i, by LogPdf
	tol          []float64 // rounding allowance of model[i]
	evalErr      error
}

// noteParams flags NaN parameters of the model handed to a hook.
func (t *trajectory) noteParams(p ad.Vector) {
	if p == nil {
		return
	}
	for i := 0; i < p.Dim(); i++ {
		if math.IsNaN(p.At(i).GetFloat64()) {
			t.nanParams = true
		}
	}
}

func (t *trajectory) record(i int, reported, model, tol float64) {
	for len(t.reported) <= i {
		t.reported = append(t.reported, math.NaN())
		t.model = append(t.model, math.NaN())
		t.tol = append(t.tol, 0)
		t.nanParamsAt = append(t.nanParamsAt, false)
	}
	t.reported[i], t.model[i], t.tol[i] = reported, model, tol
	// noteParams is called before record in every hook
	t.nanParamsAt[i] = t.nanParams
}

// judgeTrajectory checks the pairing reported(i+1) == model(i) and that the
// log-likelihood of the successive models never decreases.
func judgeTrajectory(cs *fw.Case, t *trajectory, sigBase string, exactM bool, wit map[string]any) {
	wit["reported"] = jsonFloats(t.reported)
	wit["model_loglik"] = jsonFloats(t.model)
	n := len(t.reported)
	cs.C.CoverMax("max:em-iterations", int64(n-1))
	for i := 0; i+1 < n; i++ {
		rep, mod := t.reported[i+1], t.model[i]
		if math.IsNaN(mod) {
			continue
		}
		cs.Cover("em:pairing-checked")
		if math.IsNaN(rep) || math.Abs(rep-mod) > 2*t.tol[i] && !(math.IsInf(rep, -1) && math.IsInf(mod, -1)) {
			cs.Violation(sigBase+"|reported-likelihood",
				fmt.Sprintf("likelihood reported to hook %d is %.17g; LogPdf of the model handed to hook %d gives %.17g (difference %.3g, allowance %.3g)", i+1, rep, i, mod, rep-mod, 2*t.tol[i]), wit)
			break
		}
	}
	if !exactM {
		return
	}
	series := t.model
	if t.modelW != nil {
		series = t.modelW
		wit["weighted_model_loglik"] = jsonFloats(series)
	}
	for i := 0; i+1 < n && i+1 < len(series); i++ {
		a, b := series[i], series[i+1]
		if math.IsNaN(a) || math.IsInf(a, -1) {
			continue
		}
		cs.Cover("em:step-checked")
		allow := monoAllowance*math.Abs(a) + t.tol[i]
		if !math.IsInf(t.tol[i+1], 0) && !math.IsNaN(t.tol[i+1]) {
			allow += t.tol[i+1]
		}
		if math.IsNaN(b) || b < a-allow {
			kind := "decrease"
			sg := sigBase
			if math.IsNaN(b) {
				kind = "nan-likelihood"
				if t.nanParamsAt[i+1] {
					// input class computed from the model: the M-step produced NaN
					// parameters (a component / state without any responsibility)
					sg = "C16|em|" + t.family + "|component-parameters-nan"
				} else if t.nanComponent {
					// finite parameters on the boundary of the family for which the
					// component density is NaN on the data
					sg = "C16|em|" + t.family + "|component-density-nan"
				}
			} else if t.illCond != "" {
				// one-pass moments of the normal estimators: the conditioning of the
				// data decides, not the model around them
				sg = "C16|em|normal-moments|" + t.illCond
			} else if t.floorActive {
				sg = "C16|em|vectorNormal|d>=2,floor-active"
			} else if t.finalSet {
				sg = "C16|em|hmm|final-state-set"
			}
			cs.Violation(sg+"|"+kind,
				fmt.Sprintf("log-likelihood of the model after iteration %d is %.17g, after iteration %d it is %.17g: change %.6g (allowance %.3g)", i, a, i+1, b, b-a, allow), wit)
			break
		}
	}
}

// illClass keeps the spread classes in which one-pass variance formulas lose
// more than half of the digits.
func illClass(spread string) string {
	switch spread {
	case "mean/sd<1e4", "mean/sd<1e6", "mean/sd>=1e6", "sd=0":
		return spread
	}
	return ""
}

// sigPrefix drops the input-class field of a signature base.
func sigPrefix(sigBase string) string {
	for i := len(sigBase) - 1; i >= 0; i-- {
		if sigBase[i] == '|' {
			return sigBase[:i]
		}
	}
	return sigBase
}

func jsonFloats(x []float64) []any {
	r := make([]any, len(x))
	for i, v := range x {
		if math.IsNaN(v) || math.IsInf(v, 0) {
			r[i] = fmt.Sprint(v)
		} else {
			r[i] = v
		}
	}
	return r
}

// mixtureLoglik: sum_l LogPdf(x_l) of a mixture with its rounding allowance
// K*eps*(|f| + A + k) per observation (C15's tolerance), A from the directly
// evaluated components.
func mixtureLoglik(k int, n int, logw func(j int) float64, comp func(j, l int) (float64, error), logpdf func(l int) (float64, error), nanComp *bool) (float64, float64, error) {
	var tot ksum
	tol, finiteAbs := 0.0, 0.0
	for l := 0; l < n; l++ {
		v, err := logpdf(l)
		if err != nil {
			return 0, 0, err
		}
		tot.add(v)
		// condition sum
		A := 0.0
		if math.IsNaN(v) && nanComp != nil {
			for j := 0; j < k; j++ {
				if lp, err := comp(j, l); err == nil && math.IsNaN(lp) {
					*nanComp = true
				}
			}
		}
		if !math.IsInf(v, 0) && !math.IsNaN(v) {
			for j := 0; j < k; j++ {
				lp, err := comp(j, l)
				if err != nil {
					return 0, 0, err
				}
				t := logw(j) + lp
				if !math.IsInf(t, 0) && !math.IsNaN(t) {
					A += math.Exp(t-v) * (math.Abs(logw(j)) + math.Abs(lp))
				}
			}
		}
		if !math.IsInf(v, 0) && !math.IsNaN(v) {
			tol += K * eps * (math.Abs(v) + A + float64(k))
			finiteAbs += math.Abs(v)
		}
	}
	tol += float64(n) * eps * finiteAbs
	return tot.s, tol, nil
}

/* scalar mixtures
 * -------------------------------------------------------------------------- */

func scalarMixtureLoglik(m *sd.Mixture, x []float64, nanComp *bool) (float64, float64, error) {
	r := ad.NewFloat64(0.0)
	return mixtureLoglik(m.NComponents(), len(x),
		func(j int) float64 { return m.LogWeights.At(j).GetFloat64() },
		func(j, l int) (float64, error) {
			err := m.Edist[j].LogPdf(r, ad.ConstFloat64(x[l]))
			return r.GetFloat64(), err
		},
		func(l int) (float64, error) {
			err := m.LogPdf(r, ad.ConstFloat64(x[l]))
			return r.GetFloat64(), err
		}, nanComp)
}

func runEmScalarMixture(cs *fw.Case, r *prng.Rand) {
	family := r.Pick(emFamilies)
	k := r.Range(2, 4)
	n := genSize(r)
	comps, x, dclass := genComponents(r, family, k, n)
	weights := make([]float64, k)
	for i := range weights {
		weights[i] = 0.1 + r.Float64()
	}
	maxSteps := r.PickI([]int{1, 3, 25, 60})
	epsilon := r.PickF([]float64{0, 1e-8, 1e-4})
	optE, optW := !r.Chance(0.15), !r.Chance(0.15)
	var meta []float64
	if r.Chance(0.15) {
		meta, _ = genGamma(r, n)
	}
	wit := map[string]any{"family": family, "components": comps, "weights": weights, "x": x, "max_steps": maxSteps, "epsilon": epsilon,
		"optimize_emissions": optE, "optimize_weights": optW, "meta_gamma": gammaJSON(meta)}
	class := fmt.Sprintf("%s,%s", dclass, sizeClass(n))
	if family == "normal" {
		d := &dataset{X: asRows(x)}
		d.prepare()
		class += "," + spreadClass(d, 0)
	}
	sigBase := fmt.Sprintf("C16|%s|scalarMixture|%s|%s", cs.Monitor, family, class)
	tr := &trajectory{family: family}
	if family == "normal" {
		d := &dataset{X: asRows(x)}
		d.prepare()
		tr.illCond = illClass(spreadClass(d, 0))
	}
	hook := generic.EmHook{Value: func(mix generic.BasicMixture, i int, likelihood, eps float64) {
		m, ok := mix.(*sd.Mixture)
		if !ok {
			return
		}
		mc := m.Clone()
		tr.noteParams(m.GetParameters())
		for j := range m.Edist {
			if nd, ok := m.Edist[j].(*sd.NormalDistribution); ok {
				if mu, sg := nd.Mu.GetFloat64(), nd.Sigma.GetFloat64(); sg > 0 && math.Abs(mu)/sg >= 1e6 {
					tr.illCond = "sd=0" // collapsed component: one-pass variance is rounding noise
				}
			}
		}
		v, tol, err := scalarMixtureLoglik(mc, x, &tr.nanComponent)
		if err != nil {
			tr.evalErr = err
			v = math.NaN()
		}
		tr.record(i, likelihood, v, tol)
		if meta != nil {
			dm := &dataset{X: asRows(x), Gamma: meta}
			dm.prepare()
			var ws ksum
			res := ad.NewFloat64(0.0)
			for l, xv := range x {
				if dm.w[l] > 0 {
					if e := mc.LogPdf(res, ad.ConstFloat64(xv)); e != nil {
						ws.add(math.NaN())
					} else {
						ws.add(dm.w[l] * res.GetFloat64())
					}
				}
			}
			for len(tr.modelW) <= i {
				tr.modelW = append(tr.modelW, math.NaN())
			}
			tr.modelW[i] = ws.s
		}
	}}
	var err error
	p := fw.Call(func() {
		ests := make([]stat.ScalarEstimator, k)
		for i := range ests {
			if ests[i], err = comps[i].estimator(); err != nil {
				return
			}
		}
		var est *se.MixtureEstimator
		if est, err = se.NewMixtureEstimator(weights, ests, epsilon, maxSteps, hook); err != nil {
			return
		}
		est.OptimizeEmissions = optE
		est.OptimizeWeights = optW
		err = est.EstimateOnData(vecF(x), gammaVec(meta), seqPool())
	})
	cs.Cover("em:scalarMixture")
	cs.Cover("em-family:" + family)
	finishEm(cs, tr, p, err, sigBase, true, wit, n >= 2, family, comps, weights, x, maxSteps, epsilon, optE, optW, meta)
}

// finishEm: common tail of the EM monitors.
func finishEm(cs *fw.Case, tr *trajectory, p *fw.Panic, err error, sigBase string, exactM bool, wit map[string]any, nontrivial bool, id ...any) {
	if p != nil {
		cs.Violation(sigPrefix(sigPrefix(sigBase))+"|panic", p.Msg+"\n"+p.Stack, wit)
		return
	}
	if err != nil {
		// a loud failure (e.g. an M-step without admissible maximiser, data
		// outside every support) ends the trajectory; what was reported before
		// it is still judged
		cs.Cover("em:ended-with-error")
		wit["error"] = err.Error()
	}
	if len(tr.reported) == 0 {
		if err == nil {
			cs.Violation(sigBase+"|hook-not-called", "the estimator returned without calling the hook", wit)
		} else {
			cs.Skip("em-error-before-first-hook")
		}
		return
	}
	if tr.evalErr != nil {
		cs.Cover("em:model-evaluation-error")
		wit["model_evaluation_error"] = tr.evalErr.Error()
	}
	judgeTrajectory(cs, tr, sigBase, exactM, wit)
	if cs.Violations() == 0 && nontrivial && len(tr.reported) >= 2 {
		cs.Nontrivial(id...)
	}
}

/* vector mixtures
 * -------------------------------------------------------------------------- */

func runEmVectorMixture(cs *fw.Case, r *prng.Rand) {
	k := r.Range(2, 3)
	n := genSize(r)
	dim := r.Range(1, 2)
	kind := r.Pick([]string{"vectorNormal", "vectorNormal", "ScalarId:normal", "ScalarId:poisson"})
	var X [][]float64
	var dclass string
	type vcomp struct {
		Mu    []float64  `json:"mu,omitempty"`
		Sigma []float64  `json:"sigma,omitempty"`
		Parts []compSpec `json:"parts,omitempty"`
	}
	comps := make([]vcomp, k)
	smin := r.PickF([]float64{1e-8, 1e-4})
	switch kind {
	case "vectorNormal":
		X, dclass = genVectors(r, n, dim)
		for dclass == "offset" && r.Chance(0.5) {
			X, dclass = genVectors(r, n, dim)
		}
		for i := range comps {
			mu := append([]float64{}, X[r.Intn(n)]...)
			sg := make([]float64, dim*dim)
			for q := 0; q < dim; q++ {
				mu[q] += r.Uniform(-1, 1)
				sg[q*dim+q] = r.LogUniform(0.5, 10)
			}
			comps[i] = vcomp{Mu: mu, Sigma: sg}
		}
	default:
		fam := kind[len("ScalarId:"):]
		X = make([][]float64, n)
		for i := range X {
			X[i] = make([]float64, dim)
		}
		parts := make([][]compSpec, dim)
		for q := 0; q < dim; q++ {
			var col []float64
			parts[q], col, dclass = genComponents(r, fam, k, n)
			for i := range X {
				X[i][q] = col[i]
			}
		}
		for i := range comps {
			for q := 0; q < dim; q++ {
				comps[i].Parts = append(comps[i].Parts, parts[q][i])
			}
		}
	}
	weights := make([]float64, k)
	for i := range weights {
		weights[i] = 0.1 + r.Float64()
	}
	maxSteps := r.PickI([]int{1, 3, 25})
	epsilon := r.PickF([]float64{0, 1e-8})
	wit := map[string]any{"kind": kind, "dim": dim, "components": comps, "weights": weights, "x": X, "max_steps": maxSteps, "epsilon": epsilon, "SigmaMin": smin}
	d := &dataset{X: X}
	d.prepare()
	class := fmt.Sprintf("%s,%s", dclass, sizeClass(n))
	if kind != "ScalarId:poisson" {
		sp := "mean/sd<1e2"
		for q := 0; q < dim; q++ {
			if c := spreadClass(d, q); c > sp {
				sp = c
			}
		}
		class += "," + sp
	}
	sigBase := fmt.Sprintf("C16|%s|vectorMixture|%s,d=%d|%s", cs.Monitor, kind, dim, class)
	rows := make([]ad.ConstVector, n)
	for i := range rows {
		rows[i] = vecF(X[i])
	}
	tr := &trajectory{family: kind}
	if kind != "ScalarId:poisson" {
		sp := "mean/sd<1e2"
		for q := 0; q < dim; q++ {
			if c := spreadClass(d, q); c > sp {
				sp = c
			}
		}
		tr.illCond = illClass(sp)
	}
	hook := generic.EmHook{Value: func(mix generic.BasicMixture, i int, likelihood, eps float64) {
		m0, ok := mix.(*vd.Mixture)
		if !ok {
			return
		}
		m := m0.Clone()
		for j := range m0.Edist {
			tr.noteParams(m0.Edist[j].GetParameters())
			if nd, ok := m0.Edist[j].(*vd.NormalDistribution); ok {
				for q := 0; q < dim; q++ {
					if nd.Sigma.At(q, q).GetFloat64() == smin && dim >= 2 {
						tr.floorActive = true
					}
				}
				// a component collapsed onto (nearly) identical points: its own
				// |mean|/sd is beyond 1e6, the regime of the one-pass moment noise
				if dim == 2 {
					a, b, c := nd.Sigma.At(0, 0).GetFloat64(), nd.Sigma.At(1, 1).GetFloat64(), nd.Sigma.At(0, 1).GetFloat64()
					if a*b-c*c < 1e-8*a*b {
						tr.illCond = "sd=0"
					}
				}
				for q := 0; q < dim; q++ {
					mu, v := nd.Mu.At(q).GetFloat64(), nd.Sigma.At(q, q).GetFloat64()
					if v > 0 && math.Abs(mu)/math.Sqrt(v) >= 1e6 {
						tr.illCond = "sd=0"
					}
				}
			}
		}
		tr.noteParams(m0.LogWeights)
		res := ad.NewFloat64(0.0)
		v, tol, err := mixtureLoglik(m.NComponents(), n,
			func(j int) float64 { return m.LogWeights.At(j).GetFloat64() },
			func(j, l int) (float64, error) { err := m.Edist[j].LogPdf(res, rows[l]); return res.GetFloat64(), err },
			func(l int) (float64, error) { err := m.LogPdf(res, rows[l]); return res.GetFloat64(), err }, &tr.nanComponent)
		if err != nil {
			tr.evalErr = err
			v = math.NaN()
		}
		tr.record(i, likelihood, v, tol)
	}}
	var err error
	p := fw.Call(func() {
		ests := make([]stat.VectorEstimator, k)
		for i := range ests {
			if kind == "vectorNormal" {
				if ests[i], err = ve.NewNormalEstimator(comps[i].Mu, comps[i].Sigma, smin); err != nil {
					return
				}
			} else {
				sc := make([]stat.ScalarEstimator, dim)
				for q := range sc {
					if sc[q], err = comps[i].Parts[q].estimator(); err != nil {
						return
					}
				}
				if ests[i], err = ve.NewScalarId(sc...); err != nil {
					return
				}
			}
		}
		var est *ve.MixtureEstimator
		if est, err = ve.NewMixtureEstimator(weights, ests, epsilon, maxSteps, hook); err != nil {
			return
		}
		err = est.EstimateOnData(rows, nil, seqPool())
	})
	cs.Cover("em:vectorMixture")
	cs.Cover("em-family:" + kind)
	finishEm(cs, tr, p, err, sigBase, true, wit, n >= 2, kind, comps, weights, X, maxSteps, epsilon, smin)
}

/* hidden Markov models
 * -------------------------------------------------------------------------- */

// hmmLoglik: sum over the sequences of LogPdf with the allowance
// K*eps*(|L| + A + n*m^2), A bounded by the largest |term| per position.
func hmmLoglik(core *generic.Hmm, nseq int, seqLen func(q int) int, logpdf func(q int) (float64, error), emis func(c, q, k int) (float64, error), nanComp *bool) (float64, float64, error) {
	m := core.M
	maxTr := 0.0
	upd := func(v float64) {
		if !math.IsInf(v, 0) && !math.IsNaN(v) && math.Abs(v) > maxTr {
			maxTr = math.Abs(v)
		}
	}
	for i := 0; i < m; i++ {
		upd(core.Pi.At(i).GetFloat64())
		for j := 0; j < m; j++ {
			upd(core.Tr.At(i, j).GetFloat64())
			upd(core.Tf.At(i, j).GetFloat64())
		}
	}
	var tot ksum
	tol, finiteAbs := 0.0, 0.0
	for q := 0; q < nseq; q++ {
		v, err := logpdf(q)
		if err != nil {
			return 0, 0, err
		}
		tot.add(v)
		n := seqLen(q)
		A := float64(n) * maxTr
		for k := 0; k < n; k++ {
			mx := 0.0
			for c := 0; c < core.N; c++ {
				e, err := emis(c, q, k)
				if err != nil {
					return 0, 0, err
				}
				if math.IsNaN(e) && nanComp != nil {
					*nanComp = true
				}
				if !math.IsInf(e, 0) && !math.IsNaN(e) && math.Abs(e) > mx {
					mx = math.Abs(e)
				}
			}
			A += mx
		}
		f := v
		if math.IsInf(f, 0) || math.IsNaN(f) {
			f = 0
		}
		tol += K * eps * (math.Abs(f) + A + float64(n*m*m))
		finiteAbs += math.Abs(f)
	}
	tol += float64(nseq) * eps * finiteAbs
	return tot.s, tol, nil
}

func genHmmInit(r *prng.Rand, m int) ([]float64, [][]float64) {
	pi := make([]float64, m)
	tr := make([][]float64, m)
	s := 0.0
	for i := range pi {
		pi[i] = 0.1 + r.Float64()
		s += pi[i]
	}
	for i := range pi {
		pi[i] /= s
	}
	zeros := r.Chance(0.3)
	for i := range tr {
		tr[i] = make([]float64, m)
		s := 0.0
		for j := range tr[i] {
			tr[i][j] = 0.1 + r.Float64()
			if zeros && i != j && r.Chance(0.3) {
				tr[i][j] = 0
			}
			s += tr[i][j]
		}
		for j := range tr[i] {
			tr[i][j] /= s
		}
	}
	return pi, tr
}

func matF(a [][]float64) *ad.DenseFloat64Matrix {
	n, m := len(a), len(a[0])
	flat := make([]float64, 0, n*m)
	for _, row := range a {
		flat = append(flat, row...)
	}
	return ad.NewDenseFloat64Matrix(flat, n, m)
}

func runEmHmm(cs *fw.Case, r *prng.Rand, forceOptT *bool) {
	m := r.Range(1, 4)
	family := r.Pick(emFamilies)
	matrix := r.Chance(0.25)
	dim := 1
	if matrix {
		dim = r.Range(1, 2)
	}
	nseq := r.Range(1, 4)
	lens := make([]int, nseq)
	total := 0
	for q := range lens {
		lens[q] = r.PickI([]int{1, 2, 3, r.Range(4, 12), r.Range(4, 50)})
		total += lens[q]
	}
	// state map: identity or shared emissions
	var stateMap []int
	ne := m
	if m >= 2 && r.Chance(0.25) {
		ne = r.Range(1, m-1)
		stateMap = make([]int, m)
		for i := range stateMap {
			stateMap[i] = i % ne
		}
	}
	// data: one pooled column per coordinate
	parts := make([][]compSpec, dim)
	cols := make([][]float64, dim)
	var dclass string
	for q := 0; q < dim; q++ {
		parts[q], cols[q], dclass = genComponents(r, family, ne, total)
	}
	seqs := make([][][]float64, nseq)
	o := 0
	for q := range seqs {
		seqs[q] = make([][]float64, lens[q])
		for k := range seqs[q] {
			seqs[q][k] = make([]float64, dim)
			for c := 0; c < dim; c++ {
				seqs[q][k][c] = cols[c][o]
			}
			o++
		}
	}
	pi, trm := genHmmInit(r, m)
	var start, final []int
	if r.Chance(0.25) {
		start = []int{r.Intn(m)}
		if m > 1 && r.Bool() {
			start = append(start, (start[0]+1)%m)
		}
	}
	if r.Chance(0.25) {
		final = []int{r.Intn(m)}
	}
	maxSteps := r.PickI([]int{1, 3, 20, 40})
	epsilon := r.PickF([]float64{0, 1e-8, 1e-4})
	optE := !r.Chance(0.15)
	optT := true
	if forceOptT != nil {
		optT = *forceOptT
	}
	kind := "vector"
	if matrix {
		kind = "matrix"
	}
	wit := map[string]any{"family": family, "matrix": matrix, "dim": dim, "pi": pi, "tr": trm, "state_map": stateMap, "start": start, "final": final,
		"emissions": parts, "sequences": seqs, "max_steps": maxSteps, "epsilon": epsilon, "optimize_emissions": optE, "optimize_transitions": optT}
	restr := "none"
	switch {
	case start != nil && final != nil:
		restr = "start+final"
	case start != nil:
		restr = "start"
	case final != nil:
		restr = "final"
	}
	_ = dclass
	class := fmt.Sprintf("%s,%s", restr, map[bool]string{true: "m=1", false: "m>=2"}[m == 1])
	opt := ""
	if !optT {
		opt = ",OptimizeTransitions=false"
	}
	sigBase := fmt.Sprintf("C16|%s|%sHmm%s|%s|%s", cs.Monitor, kind, opt, family, class)
	tr := &trajectory{family: family, finalSet: final != nil}
	if family == "normal" {
		sp := "mean/sd<1e2"
		for q := 0; q < dim; q++ {
			dq := &dataset{X: asRows(cols[q])}
			dq.prepare()
			if c := spreadClass(dq, 0); c > sp {
				sp = c
			}
		}
		tr.illCond = illClass(sp)
	}
	res := ad.NewFloat64(0.0)
	hook := generic.BaumWelchHook{Value: func(h generic.BasicHmm, i int, likelihood, eps float64) {
		var v, tol float64
		var err error
		switch hm := h.(type) {
		case *vd.Hmm:
			c := hm.Clone()
			tr.noteParams(hm.GetParameters())
			xs := make([]ad.ConstVector, nseq)
			for q := range xs {
				xs[q] = vecF(column(seqs[q], 0))
			}
			v, tol, err = hmmLoglik(&c.Hmm, nseq, func(q int) int { return lens[q] },
				func(q int) (float64, error) { err := c.LogPdf(res, xs[q]); return res.GetFloat64(), err },
				func(e, q, k int) (float64, error) {
					err := c.Edist[e].LogPdf(res, ad.ConstFloat64(seqs[q][k][0]))
					return res.GetFloat64(), err
				}, &tr.nanComponent)
		case *md.Hmm:
			c := hm.Clone()
			tr.noteParams(hm.GetParameters())
			xs := make([]ad.ConstMatrix, nseq)
			for q := range xs {
				xs[q] = matF(seqs[q])
			}
			v, tol, err = hmmLoglik(&c.Hmm, nseq, func(q int) int { return lens[q] },
				func(q int) (float64, error) { err := c.LogPdf(res, xs[q]); return res.GetFloat64(), err },
				func(e, q, k int) (float64, error) {
					err := c.Edist[e].LogPdf(res, vecF(seqs[q][k]))
					return res.GetFloat64(), err
				}, &tr.nanComponent)
		default:
			return
		}
		if err != nil {
			tr.evalErr = err
			v = math.NaN()
		}
		tr.record(i, likelihood, v, tol)
	}}
	var err error
	p := fw.Call(func() {
		if !matrix {
			ests := make([]stat.ScalarEstimator, ne)
			for c := range ests {
				if ests[c], err = parts[0][c].estimator(); err != nil {
					return
				}
			}
			var est *ve.HmmEstimator
			if est, err = ve.NewHmmEstimator(vecF(pi), matF(trm), stateMap, start, final, ests, epsilon, maxSteps, hook); err != nil {
				return
			}
			est.OptimizeEmissions, est.OptimizeTransitions = optE, optT
			xs := make([]ad.ConstVector, nseq)
			for q := range xs {
				xs[q] = vecF(column(seqs[q], 0))
			}
			err = est.EstimateOnData(xs, nil, seqPool())
		} else {
			ests := make([]stat.VectorEstimator, ne)
			for c := range ests {
				sc := make([]stat.ScalarEstimator, dim)
				for q := range sc {
					if sc[q], err = parts[q][c].estimator(); err != nil {
						return
					}
				}
				if ests[c], err = ve.NewScalarId(sc...); err != nil {
					return
				}
			}
			var est *me.HmmEstimator
			if est, err = me.NewHmmEstimator(vecF(pi), matF(trm), stateMap, start, final, ests, epsilon, maxSteps, hook); err != nil {
				return
			}
			est.OptimizeEmissions, est.OptimizeTransitions = optE, optT
			xs := make([]ad.ConstMatrix, nseq)
			for q := range xs {
				xs[q] = matF(seqs[q])
			}
			err = est.EstimateOnData(xs, nil, seqPool())
		}
	})
	cs.Cover("em:" + kind + "Hmm")
	cs.Cover("em-family:" + family)
	cs.Cover("em-hmm-restriction:" + restr)
	if stateMap != nil {
		cs.Cover("em-hmm:shared-emissions")
	}
	if !optT {
		cs.Cover("em-hmm:OptimizeTransitions=false")
	}
	finishEm(cs, tr, p, err, sigBase, true, wit, m >= 2 && total >= 3, family, matrix, pi, trm, stateMap, start, final, parts, seqs, maxSteps, epsilon, optE, optT)
}

/* nested EM
 * -------------------------------------------------------------------------- */

// runEmNested: a scalar mixture whose components are mixtures (the inner
// estimators perform one EM step per outer iteration), and an HMM whose
// emissions are mixtures.  Only the outer trajectory is judged.
func runEmNested(cs *fw.Case, r *prng.Rand) {
	family := r.Pick([]string{"normal", "poisson", "exponential", "geometric"})
	outer := r.Pick([]string{"mixture", "hmm"})
	ko := 2
	ki := 2
	n := r.Range(4, 120)
	inner := make([][]compSpec, ko)
	var x []float64
	var dclass string
	{
		var all []compSpec
		all, x, dclass = genComponents(r, family, ko*ki, n)
		for i := range inner {
			inner[i] = all[i*ki : (i+1)*ki]
		}
	}
	maxSteps := r.PickI([]int{2, 10, 25})
	epsilon := r.PickF([]float64{0, 1e-8})
	pi, trm := genHmmInit(r, ko)
	wit := map[string]any{"outer": outer, "family": family, "inner_components": inner, "x": x, "max_steps": maxSteps, "epsilon": epsilon, "pi": pi, "tr": trm}
	class := fmt.Sprintf("%s,%s", dclass, sizeClass(n))
	if family == "normal" {
		d := &dataset{X: asRows(x)}
		d.prepare()
		class += "," + spreadClass(d, 0)
	}
	sigBase := fmt.Sprintf("C16|%s|nested:%s-of-mixtures|%s|%s", cs.Monitor, outer, family, class)
	tr := &trajectory{family: family}
	if family == "normal" {
		d := &dataset{X: asRows(x)}
		d.prepare()
		tr.illCond = illClass(spreadClass(d, 0))
	}
	res := ad.NewFloat64(0.0)
	mkInner := func() ([]stat.ScalarEstimator, error) {
		ests := make([]stat.ScalarEstimator, ko)
		for i := range ests {
			sub := make([]stat.ScalarEstimator, ki)
			for j := range sub {
				e, err := inner[i][j].estimator()
				if err != nil {
					return nil, err
				}
				sub[j] = e
			}
			e, err := se.NewMixtureEstimator(nil, sub, 1e-8, 1)
			if err != nil {
				return nil, err
			}
			ests[i] = e
		}
		return ests, nil
	}
	var err error
	p := fw.Call(func() {
		var ests []stat.ScalarEstimator
		if ests, err = mkInner(); err != nil {
			return
		}
		if outer == "mixture" {
			hook := generic.EmHook{Value: func(mix generic.BasicMixture, i int, likelihood, eps float64) {
				m, ok := mix.(*sd.Mixture)
				if !ok {
					return
				}
				tr.noteParams(m.GetParameters())
				v, tol, e := scalarMixtureLoglik(m.Clone(), x, &tr.nanComponent)
				if e != nil {
					tr.evalErr = e
					v = math.NaN()
				}
				// inner mixtures add their own log-sums to the rounding of each term
				tr.record(i, likelihood, v, 4*tol)
			}}
			var est *se.MixtureEstimator
			if est, err = se.NewMixtureEstimator(nil, ests, epsilon, maxSteps, hook); err != nil {
				return
			}
			err = est.EstimateOnData(vecF(x), nil, seqPool())
		} else {
			hook := generic.BaumWelchHook{Value: func(h generic.BasicHmm, i int, likelihood, eps float64) {
				hm, ok := h.(*vd.Hmm)
				if !ok {
					return
				}
				c := hm.Clone()
				tr.noteParams(hm.GetParameters())
				xv := vecF(x)
				v, tol, e := hmmLoglik(&c.Hmm, 1, func(int) int { return len(x) },
					func(int) (float64, error) { err := c.LogPdf(res, xv); return res.GetFloat64(), err },
					func(e, q, k int) (float64, error) {
						err := c.Edist[e].LogPdf(res, ad.ConstFloat64(x[k]))
						return res.GetFloat64(), err
					}, &tr.nanComponent)
				if e != nil {
					tr.evalErr = e
					v = math.NaN()
				}
				tr.record(i, likelihood, v, 4*tol)
			}}
			var est *ve.HmmEstimator
			if est, err = ve.NewHmmEstimator(vecF(pi), matF(trm), nil, nil, nil, ests, epsilon, maxSteps, hook); err != nil {
				return
			}
			err = est.EstimateOnData([]ad.ConstVector{vecF(x)}, nil, seqPool())
		}
	})
	cs.Cover("em:nested:" + outer)
	cs.Cover("em-family:" + family)
	finishEm(cs, tr, p, err, sigBase, true, wit, true, outer, family, inner, x, maxSteps, epsilon, pi, trm)
}
