package c16

import (
	"fmt"
	"math"

	ad "github.com/pbenner/autodiff"

	"verifharness/internal/prng"
)

// sizes 1..200, small sizes over-represented
func genSize(r *prng.Rand) int {
	switch r.Intn(6) {
	case 0:
		return 1
	case 1:
		return r.Range(2, 5)
	case 2:
		return r.Range(6, 30)
	default:
		return r.Range(2, 200)
	}
}

// genGamma draws log-weights: nil (unweighted), finite, or with -Inf entries.
func genGamma(r *prng.Rand, n int) ([]float64, string) {
	switch r.Intn(4) {
	case 0:
		return nil, "unweighted"
	case 1:
		g := make([]float64, n)
		for i := range g {
			g[i] = r.Uniform(-8, 0) // log responsibilities
		}
		return g, "weighted"
	case 2:
		g := make([]float64, n)
		off := r.Uniform(-300, 300) // common scale of the weights is irrelevant
		for i := range g {
			g[i] = off + r.Uniform(-30, 3)
		}
		return g, "weighted"
	default:
		g := make([]float64, n)
		any := false
		for i := range g {
			g[i] = r.Uniform(-10, 0)
			if r.Chance(0.3) {
				g[i] = negInf
			} else {
				any = true
			}
		}
		if !any {
			g[r.Intn(n)] = -1
		}
		return g, "weighted+(-Inf)"
	}
}

// real-valued data for location/scale families
func genReal(r *prng.Rand, n int) ([]float64, string) {
	x := make([]float64, n)
	class := r.Pick([]string{"regular", "regular", "repeats", "all-equal", "integer", "offset", "wide"})
	m, s := r.Uniform(-5, 5), r.LogUniform(0.05, 20)
	switch class {
	case "regular":
		for i := range x {
			x[i] = m + s*r.Norm()
		}
	case "repeats":
		k := r.Range(1, 4)
		vals := make([]float64, k)
		for i := range vals {
			vals[i] = m + s*r.Norm()
		}
		for i := range x {
			x[i] = vals[r.Intn(k)]
		}
	case "all-equal":
		v := m + s*r.Norm()
		if r.Bool() {
			v = float64(r.Range(-3, 3))
		}
		for i := range x {
			x[i] = v
		}
	case "integer":
		for i := range x {
			x[i] = math.Round(m + s*r.Norm())
		}
	case "offset":
		// extreme observations: a large common offset with a small spread
		off := r.PickF([]float64{1e3, 1e4, 1e5, 1e6, 1e7, 1e8}) * float64(1-2*r.Intn(2))
		for i := range x {
			x[i] = off + s*r.Norm()
		}
	case "wide":
		// magnitudes spread over many orders
		for i := range x {
			x[i] = r.LogUniform(1e-8, 1e8) * float64(1-2*r.Intn(2))
		}
	}
	return x, class
}

// positive data for rate families
func genPositive(r *prng.Rand, n int) ([]float64, string) {
	x := make([]float64, n)
	class := r.Pick([]string{"regular", "regular", "repeats", "all-equal", "integer", "with-zeros", "wide"})
	sc := r.LogUniform(0.01, 100)
	switch class {
	case "regular":
		for i := range x {
			x[i] = -math.Log(1-r.Float64()) * sc
		}
	case "repeats":
		k := r.Range(1, 4)
		vals := make([]float64, k)
		for i := range vals {
			vals[i] = -math.Log(1-r.Float64()) * sc
		}
		for i := range x {
			x[i] = vals[r.Intn(k)]
		}
	case "all-equal":
		v := -math.Log(1-r.Float64()) * sc
		for i := range x {
			x[i] = v
		}
	case "integer":
		for i := range x {
			x[i] = float64(r.Range(1, 20))
		}
	case "with-zeros":
		for i := range x {
			if r.Chance(0.4) {
				x[i] = 0
			} else {
				x[i] = -math.Log(1-r.Float64()) * sc
			}
		}
	case "wide":
		for i := range x {
			x[i] = r.LogUniform(1e-10, 1e10)
		}
	}
	return x, class
}

// count data
func genCounts(r *prng.Rand, n int) ([]float64, string) {
	x := make([]float64, n)
	class := r.Pick([]string{"regular", "regular", "repeats", "all-equal", "all-zero", "large", "with-zeros"})
	mean := r.LogUniform(0.2, 50)
	pois := func() float64 {
		// geometric-like over-dispersed counts around mean
		return math.Floor(-math.Log(1-r.Float64()) * mean)
	}
	switch class {
	case "regular":
		for i := range x {
			x[i] = pois()
		}
	case "repeats":
		k := r.Range(1, 3)
		vals := make([]float64, k)
		for i := range vals {
			vals[i] = pois()
		}
		for i := range x {
			x[i] = vals[r.Intn(k)]
		}
	case "all-equal":
		v := float64(r.Range(1, 30))
		for i := range x {
			x[i] = v
		}
	case "all-zero":
	case "large":
		for i := range x {
			x[i] = math.Floor(r.LogUniform(1, 1e6))
		}
	case "with-zeros":
		for i := range x {
			if !r.Chance(0.6) {
				x[i] = pois()
			}
		}
	}
	return x, class
}

func genCategories(r *prng.Rand, n, k int) ([]float64, string) {
	x := make([]float64, n)
	class := r.Pick([]string{"regular", "regular", "all-equal", "missing-category"})
	switch class {
	case "regular":
		for i := range x {
			x[i] = float64(r.Intn(k))
		}
	case "all-equal":
		v := float64(r.Intn(k))
		for i := range x {
			x[i] = v
		}
	case "missing-category":
		miss := r.Intn(k)
		for i := range x {
			for {
				x[i] = float64(r.Intn(k))
				if int(x[i]) != miss || k == 1 {
					break
				}
			}
		}
	}
	return x, class
}

// spreadClass: |weighted mean| / weighted standard deviation of coordinate q;
// the conditioning of one-pass variance formulas.
func spreadClass(d *dataset, q int) string {
	if d.wsum == 0 {
		return "no-weight"
	}
	m := d.wmean(q)
	var s ksum
	for i, x := range d.X {
		if d.w[i] > 0 {
			s.add(d.w[i] * (x[q] - m) * (x[q] - m))
		}
	}
	sd := math.Sqrt(s.s / d.wsum)
	if sd == 0 {
		return "sd=0"
	}
	ratio := math.Abs(m) / sd
	switch {
	case ratio < 1e2:
		return "mean/sd<1e2"
	case ratio < 1e4:
		return "mean/sd<1e4"
	case ratio < 1e6:
		return "mean/sd<1e6"
	default:
		return "mean/sd>=1e6"
	}
}

func vecF(x []float64) ad.DenseFloat64Vector {
	return ad.NewDenseFloat64Vector(append([]float64{}, x...))
}

func gammaVec(g []float64) ad.ConstVector {
	if g == nil {
		return nil
	}
	return vecF(g)
}

func column(X [][]float64, q int) []float64 {
	c := make([]float64, len(X))
	for i := range X {
		c[i] = X[i][q]
	}
	return c
}

func asRows(x []float64) [][]float64 {
	r := make([][]float64, len(x))
	for i, v := range x {
		r[i] = []float64{v}
	}
	return r
}

func sizeClass(n int) string {
	switch {
	case n == 1:
		return "n=1"
	case n <= 5:
		return "n=2-5"
	default:
		return "n>5"
	}
}

func fmtTheta(t []float64) string { return fmt.Sprintf("%.17g", t) }

// shifts: common constants added to ALL log-weights.  The weighted MLE is
// invariant under a common shift of the log-weights; an estimator that
// exponentiates unrescaled weights loses them below about -700 (denormals,
// then 0) and overflows above +709.
var shifts = []float64{-50, -700, -740, -1000, 700}

// activeShift is set by the closed.shift.* monitors for the duration of one
// case (from cs.Index only) and read by applyShift; nil elsewhere, so that the
// streams of the other monitors (and the directed replays) are unchanged.
var activeShift *float64

// applyShift turns the drawn log-weights into finite (or partly -Inf) base
// weights plus the active common shift.
func applyShift(r *prng.Rand, gamma []float64, wclass string, n int) ([]float64, string) {
	if activeShift == nil {
		return gamma, wclass
	}
	c := *activeShift
	if gamma == nil || wclass == "weighted" {
		// base: log responsibilities (also replaces the wide-offset class, whose
		// own offset would mask the shift)
		gamma = make([]float64, n)
		for i := range gamma {
			gamma[i] = r.Uniform(-8, 0)
		}
		wclass = "weighted"
	}
	for i := range gamma {
		gamma[i] += c // -Inf stays -Inf
	}
	return gamma, fmt.Sprintf("%s,shift=%g", wclass, c)
}

func withShift(cs interface{ Cover(string) }, index int, f func()) {
	c := shifts[index%len(shifts)]
	activeShift = &c
	defer func() { activeShift = nil }()
	cs.Cover(fmt.Sprintf("shift:%g", c))
	f()
}

// extremeShift: the batch interface (Initialize / NewObservation one weight at a
// time / GetEstimate) cannot rescale the weights of the normal estimators; its
// documented use is with responsibilities, not judged beyond |shift| 50.
func extremeShift() bool { return activeShift != nil && math.Abs(*activeShift) > 50 }
