// Package c16: estimators against their own likelihood (DESIGN.md, C16).
//
// (a) closed-form estimators: the weighted log-likelihood
//
//	L(theta) = sum_i w_i log p(x_i; theta),   w_i = exp(gamma_i)
//
// is evaluated by the closed forms in this file (independent of the library's
// LogPdf), at the estimate and at perturbed parameters;
// (b) EM trajectories: hooks of the EM drivers against LogPdf of the models
// they hand out.
package c16

import (
	"math"
)

const eps = 1.1102230246251565e-16

// K is the safety factor of the rounding allowance K*eps*sum|terms| of a
// likelihood difference (DESIGN.md 2.4, condition-scaled policy).
const K = 16.0

var negInf = math.Inf(-1)

// ksum is a Kahan accumulator that also keeps the sum of absolute values.
type ksum struct{ s, c, abs float64 }

func (k *ksum) add(v float64) {
	if math.IsInf(v, 0) || math.IsNaN(v) || math.IsInf(k.s, 0) {
		k.s += v
		k.abs += math.Abs(v)
		return
	}
	y := v - k.c
	t := k.s + y
	k.c = (t - k.s) - y
	k.s = t
	k.abs += math.Abs(v)
}

// dataset: observations (scalar families: one coordinate) with weights.
type dataset struct {
	X     [][]float64 // n x d
	Gamma []float64   // log-weights, nil = unweighted
	w     []float64   // exp(gamma - max gamma), or 1
	wsum  float64
}

func (d *dataset) prepare() {
	n := len(d.X)
	d.w = make([]float64, n)
	if d.Gamma == nil {
		for i := range d.w {
			d.w[i] = 1
		}
	} else {
		mx := negInf
		for _, g := range d.Gamma {
			if g > mx {
				mx = g
			}
		}
		for i, g := range d.Gamma {
			if math.IsInf(mx, -1) {
				d.w[i] = 0
			} else {
				d.w[i] = math.Exp(g - mx)
			}
		}
	}
	var s ksum
	for _, w := range d.w {
		s.add(w)
	}
	d.wsum = s.s
}

// wmean returns the weighted mean of coordinate q.
func (d *dataset) wmean(q int) float64 {
	var s ksum
	for i, x := range d.X {
		if d.w[i] > 0 {
			s.add(d.w[i] * x[q])
		}
	}
	return s.s / d.wsum
}

// family is one parametric family with its closed-form log-likelihood.
// theta is the parameter vector in the order the monitor perturbs it.
type family interface {
	// loglik returns sum_i w_i log p(x_i; theta) and sum_i |w_i| * sum|terms|;
	// ok=false if theta is outside the natural parameter domain.
	loglik(theta []float64, d *dataset) (val, abs float64, ok bool)
	// scale of parameter k for the relative perturbation size
	scale(theta []float64, k int) float64
	// admissible: inside the bounds the estimator was configured with
	admissible(theta []float64) bool
	// perturb returns theta + delta*e_k (for families on a simplex: a move
	// along the simplex), or nil if there is no such direction
	perturb(theta []float64, k int, delta float64) []float64
	nparams(theta []float64) int
}

/* normal (mu, sigma), sigma >= sigmaMin
 * -------------------------------------------------------------------------- */

type normalFam struct{ sigmaMin float64 }

func (f normalFam) loglik(th []float64, d *dataset) (float64, float64, bool) {
	mu, sigma := th[0], th[1]
	if !(sigma > 0) || math.IsNaN(mu) {
		return 0, 0, false
	}
	var s ksum
	c := -0.5*math.Log(2*math.Pi) - math.Log(sigma)
	for i, x := range d.X {
		if w := d.w[i]; w > 0 {
			z := (x[0] - mu) / sigma
			s.add(w * c)
			s.add(-w * 0.5 * z * z)
		}
	}
	return s.s, s.abs, true
}
func (f normalFam) scale(th []float64, k int) float64 { return th[1] }
func (f normalFam) admissible(th []float64) bool      { return th[1] >= f.sigmaMin && th[1] > 0 }
func (f normalFam) nparams([]float64) int             { return 2 }
func (f normalFam) perturb(th []float64, k int, delta float64) []float64 {
	r := append([]float64{}, th...)
	r[k] += delta
	return r
}

/* exponential (lambda), lambda <= lambdaMax
 * -------------------------------------------------------------------------- */

type expFam struct{ lambdaMax float64 }

func (f expFam) loglik(th []float64, d *dataset) (float64, float64, bool) {
	l := th[0]
	if !(l > 0) || math.IsInf(l, 1) {
		return 0, 0, false
	}
	var s ksum
	ll := math.Log(l)
	for i, x := range d.X {
		if w := d.w[i]; w > 0 {
			if x[0] < 0 {
				return negInf, 0, true
			}
			s.add(w * ll)
			s.add(-w * l * x[0])
		}
	}
	return s.s, s.abs, true
}
func (f expFam) scale(th []float64, k int) float64 { return th[0] }
func (f expFam) admissible(th []float64) bool      { return th[0] > 0 && th[0] <= f.lambdaMax }
func (f expFam) nparams([]float64) int             { return 1 }
func (f expFam) perturb(th []float64, k int, delta float64) []float64 {
	return []float64{th[0] + delta}
}

/* Poisson (lambda)
 * -------------------------------------------------------------------------- */

type poissonFam struct{}

func (f poissonFam) loglik(th []float64, d *dataset) (float64, float64, bool) {
	l := th[0]
	if !(l > 0) || math.IsInf(l, 1) {
		return 0, 0, false
	}
	var s ksum
	ll := math.Log(l)
	for i, x := range d.X {
		if w := d.w[i]; w > 0 {
			lg, _ := math.Lgamma(x[0] + 1)
			s.add(w * x[0] * ll)
			s.add(-w * l)
			s.add(-w * lg)
		}
	}
	return s.s, s.abs, true
}
func (f poissonFam) scale(th []float64, k int) float64 { return th[0] }
func (f poissonFam) admissible(th []float64) bool      { return th[0] > 0 }
func (f poissonFam) nparams([]float64) int             { return 1 }
func (f poissonFam) perturb(th []float64, k int, delta float64) []float64 {
	return []float64{th[0] + delta}
}

/* geometric (p): P(x) = (1-p)^x p, x = 0, 1, ...
 * -------------------------------------------------------------------------- */

type geomFam struct{}

func (f geomFam) loglik(th []float64, d *dataset) (float64, float64, bool) {
	p := th[0]
	if !(p > 0 && p <= 1) {
		return 0, 0, false
	}
	var s ksum
	lp, lq := math.Log(p), math.Log1p(-p)
	for i, x := range d.X {
		if w := d.w[i]; w > 0 {
			s.add(w * lp)
			if x[0] != 0 {
				s.add(w * x[0] * lq)
			}
		}
	}
	return s.s, s.abs, true
}
func (f geomFam) scale(th []float64, k int) float64 { return math.Min(th[0], 1-th[0]+1e-300) }
func (f geomFam) admissible(th []float64) bool      { return th[0] > 0 && th[0] <= 1 }
func (f geomFam) nparams([]float64) int             { return 1 }
func (f geomFam) perturb(th []float64, k int, delta float64) []float64 {
	return []float64{th[0] + delta}
}

/* negative binomial with fixed r: P(x) = G(r+x)/(G(x+1) G(r)) p^x (1-p)^r
 * theta = (p); r is not estimated
 * -------------------------------------------------------------------------- */

type negbinFam struct{ r float64 }

func (f negbinFam) loglik(th []float64, d *dataset) (float64, float64, bool) {
	p := th[0]
	if !(p >= 0 && p < 1) {
		return 0, 0, false
	}
	var s ksum
	lp, lq := math.Log(p), math.Log1p(-p)
	lgr, _ := math.Lgamma(f.r)
	for i, x := range d.X {
		if w := d.w[i]; w > 0 {
			a, _ := math.Lgamma(f.r + x[0])
			b, _ := math.Lgamma(x[0] + 1)
			s.add(w * (a - b - lgr))
			if x[0] != 0 {
				s.add(w * x[0] * lp)
			}
			s.add(w * f.r * lq)
		}
	}
	return s.s, s.abs, true
}
func (f negbinFam) scale(th []float64, k int) float64 { return math.Min(th[0], 1-th[0]) }
func (f negbinFam) admissible(th []float64) bool      { return th[0] >= 0 && th[0] < 1 }
func (f negbinFam) nparams([]float64) int             { return 1 }
func (f negbinFam) perturb(th []float64, k int, delta float64) []float64 {
	return []float64{th[0] + delta}
}

/* categorical (theta_0..theta_{k-1}) on the simplex; direction k moves mass
 * between the pair (a,b) = pairs[k]
 * -------------------------------------------------------------------------- */

type catFam struct{}

func (f catFam) loglik(th []float64, d *dataset) (float64, float64, bool) {
	for _, t := range th {
		if !(t >= 0 && t <= 1) {
			return 0, 0, false
		}
	}
	var s ksum
	for i, x := range d.X {
		if w := d.w[i]; w > 0 {
			t := th[int(x[0])]
			if t == 0 {
				return negInf, 0, true
			}
			s.add(w * math.Log(t))
		}
	}
	return s.s, s.abs, true
}
func (f catFam) scale(th []float64, k int) float64 { return 1 }
func (f catFam) admissible(th []float64) bool {
	for _, t := range th {
		if !(t >= 0 && t <= 1) {
			return false
		}
	}
	return true
}
func (f catFam) nparams(th []float64) int { n := len(th); return n * (n - 1) / 2 }
func (f catFam) perturb(th []float64, k int, delta float64) []float64 {
	n := len(th)
	for a := 0; a < n; a++ {
		for b := a + 1; b < n; b++ {
			if k == 0 {
				r := append([]float64{}, th...)
				r[a] += delta
				r[b] -= delta
				return r
			}
			k--
		}
	}
	return nil
}

/* multivariate normal: theta = (mu_0..mu_{d-1}, Sigma row-major d*d);
 * directions: mu_k, then Sigma_ij (i<=j, symmetric)
 * diag(Sigma) >= sigmaMin
 * -------------------------------------------------------------------------- */

type mvnFam struct {
	d        int
	sigmaMin float64
}

// cholesky of a symmetric matrix (row-major), returns L and ok.
func cholesky(a []float64, d int) ([]float64, bool) {
	L := make([]float64, d*d)
	for i := 0; i < d; i++ {
		for j := 0; j <= i; j++ {
			s := a[i*d+j]
			for k := 0; k < j; k++ {
				s -= L[i*d+k] * L[j*d+k]
			}
			if i == j {
				if !(s > 0) {
					return nil, false
				}
				L[i*d+i] = math.Sqrt(s)
			} else {
				L[i*d+j] = s / L[j*d+j]
			}
		}
	}
	return L, true
}

func (f mvnFam) loglik(th []float64, dd *dataset) (float64, float64, bool) {
	d := f.d
	mu, sig := th[:d], th[d:]
	for i := 0; i < d; i++ {
		for j := 0; j < i; j++ {
			if sig[i*d+j] != sig[j*d+i] {
				return 0, 0, false
			}
		}
	}
	L, ok := cholesky(sig, d)
	if !ok {
		return 0, 0, false
	}
	logdet := 0.0
	for i := 0; i < d; i++ {
		logdet += 2 * math.Log(L[i*d+i])
	}
	c := -0.5*float64(d)*math.Log(2*math.Pi) - 0.5*logdet
	var s ksum
	y := make([]float64, d)
	for n, x := range dd.X {
		w := dd.w[n]
		if !(w > 0) {
			continue
		}
		// solve L y = x - mu
		q := 0.0
		for i := 0; i < d; i++ {
			v := x[i] - mu[i]
			for k := 0; k < i; k++ {
				v -= L[i*d+k] * y[k]
			}
			y[i] = v / L[i*d+i]
			q += y[i] * y[i]
		}
		s.add(w * c)
		s.add(-0.5 * w * q)
	}
	return s.s, s.abs, true
}
func (f mvnFam) scale(th []float64, k int) float64 {
	d := f.d
	if k < d {
		return math.Sqrt(th[d+k*d+k])
	}
	i, j := f.pair(k - d)
	return math.Sqrt(th[d+i*d+i] * th[d+j*d+j])
}
func (f mvnFam) pair(k int) (int, int) {
	for i := 0; i < f.d; i++ {
		for j := i; j < f.d; j++ {
			if k == 0 {
				return i, j
			}
			k--
		}
	}
	return 0, 0
}
func (f mvnFam) admissible(th []float64) bool {
	d := f.d
	for i := 0; i < d; i++ {
		if !(th[d+i*d+i] >= f.sigmaMin) {
			return false
		}
	}
	_, ok := cholesky(th[d:], d)
	return ok
}
func (f mvnFam) nparams([]float64) int { return f.d + f.d*(f.d+1)/2 }
func (f mvnFam) perturb(th []float64, k int, delta float64) []float64 {
	r := append([]float64{}, th...)
	d := f.d
	if k < d {
		r[k] += delta
		return r
	}
	i, j := f.pair(k - d)
	r[d+i*d+j] += delta
	if i != j {
		r[d+j*d+i] += delta
	}
	return r
}

/* product of independent scalar families, one per coordinate (ScalarId) or
 * the same for all coordinates (ScalarIid): theta is the concatenation
 * -------------------------------------------------------------------------- */

type productFam struct {
	parts []family
	np    []int // number of stored parameters per part
	iid   bool  // one parameter block shared by all coordinates
	dim   int
}

func (f productFam) split(th []float64) [][]float64 {
	r := make([][]float64, len(f.parts))
	o := 0
	for i := range f.parts {
		r[i] = th[o : o+f.np[i]]
		o += f.np[i]
	}
	return r
}

func (f productFam) loglik(th []float64, d *dataset) (float64, float64, bool) {
	tot, abs := 0.0, 0.0
	col := func(q int) *dataset {
		c := &dataset{Gamma: d.Gamma, w: d.w, wsum: d.wsum, X: make([][]float64, len(d.X))}
		for i := range d.X {
			c.X[i] = []float64{d.X[i][q]}
		}
		return c
	}
	if f.iid {
		for q := 0; q < f.dim; q++ {
			v, a, ok := f.parts[0].loglik(th, col(q))
			if !ok {
				return 0, 0, false
			}
			tot += v
			abs += a
		}
		return tot, abs, true
	}
	for q, th := range f.split(th) {
		v, a, ok := f.parts[q].loglik(th, col(q))
		if !ok {
			return 0, 0, false
		}
		tot += v
		abs += a
	}
	return tot, abs, true
}
func (f productFam) locate(th []float64, k int) (int, int) {
	for q, t := range f.split(th) {
		n := f.parts[q].nparams(t)
		if k < n {
			return q, k
		}
		k -= n
	}
	return -1, 0
}
func (f productFam) scale(th []float64, k int) float64 {
	q, kk := f.locate(th, k)
	return f.parts[q].scale(f.split(th)[q], kk)
}
func (f productFam) admissible(th []float64) bool {
	for q, t := range f.split(th) {
		if !f.parts[q].admissible(t) {
			return false
		}
	}
	return true
}
func (f productFam) nparams(th []float64) int {
	n := 0
	for q, t := range f.split(th) {
		n += f.parts[q].nparams(t)
	}
	return n
}
func (f productFam) perturb(th []float64, k int, delta float64) []float64 {
	q, kk := f.locate(th, k)
	if q < 0 {
		return nil
	}
	parts := f.split(th)
	p := f.parts[q].perturb(parts[q], kk, delta)
	if p == nil {
		return nil
	}
	var r []float64
	for i, t := range parts {
		if i == q {
			r = append(r, p...)
		} else {
			r = append(r, t...)
		}
	}
	return r
}
