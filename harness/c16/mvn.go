package c16

import (
	"fmt"
	"math"

	ad "github.com/pbenner/autodiff"
	stat "github.com/pbenner/autodiff/statistics"
	vd "github.com/pbenner/autodiff/statistics/vectorDistribution"
	ve "github.com/pbenner/autodiff/statistics/vectorEstimator"

	"verifharness/internal/fw"
	"verifharness/internal/prng"
)

// genVectors draws n observations of dimension d.
func genVectors(r *prng.Rand, n, d int) ([][]float64, string) {
	class := r.Pick([]string{"regular", "regular", "regular", "repeats", "all-equal", "integer", "offset"})
	// random mixing matrix
	A := make([]float64, d*d)
	for i := range A {
		A[i] = r.Uniform(-1, 1)
	}
	for i := 0; i < d; i++ {
		A[i*d+i] += r.LogUniform(0.2, 3)
	}
	m := make([]float64, d)
	for i := range m {
		m[i] = r.Uniform(-5, 5)
	}
	draw := func() []float64 {
		z := make([]float64, d)
		for i := range z {
			z[i] = r.Norm()
		}
		x := make([]float64, d)
		for i := range x {
			x[i] = m[i]
			for k := 0; k < d; k++ {
				x[i] += A[i*d+k] * z[k]
			}
		}
		return x
	}
	X := make([][]float64, n)
	switch class {
	case "regular":
		for i := range X {
			X[i] = draw()
		}
	case "repeats":
		k := r.Range(1, 4)
		vals := make([][]float64, k)
		for i := range vals {
			vals[i] = draw()
		}
		for i := range X {
			X[i] = append([]float64{}, vals[r.Intn(k)]...)
		}
	case "all-equal":
		v := draw()
		for i := range X {
			X[i] = append([]float64{}, v...)
		}
	case "integer":
		for i := range X {
			X[i] = draw()
			for q := range X[i] {
				X[i][q] = math.Round(X[i][q])
			}
		}
	case "offset":
		off := r.PickF([]float64{1e3, 1e5, 1e7})
		for i := range X {
			X[i] = draw()
			for q := range X[i] {
				X[i][q] += off
			}
		}
	}
	return X, class
}

// referenceCov: two-pass weighted mean and covariance with the estimator's
// diagonal floor; ok=false if the result is not positive definite.
func referenceCov(d *dataset, dim int, sigmaMin float64) (mu, sig []float64, clamped, ok bool) {
	mu = make([]float64, dim)
	for q := range mu {
		mu[q] = d.wmean(q)
	}
	sig = make([]float64, dim*dim)
	for a := 0; a < dim; a++ {
		for b := 0; b < dim; b++ {
			var s ksum
			for i, x := range d.X {
				if d.w[i] > 0 {
					s.add(d.w[i] * (x[a] - mu[a]) * (x[b] - mu[b]))
				}
			}
			sig[a*dim+b] = s.s / d.wsum
		}
	}
	// for dim >= 2 a singular weighted covariance has no maximiser under a floor
	// on the diagonal only (|Sigma| -> 0 along the off-diagonal entries)
	if dim >= 2 {
		L, pd := cholesky(sig, dim)
		if pd {
			for a := 0; a < dim; a++ {
				if L[a*dim+a]*L[a*dim+a] < 1e-6*sig[a*dim+a] {
					pd = false
				}
			}
		}
		if !pd {
			return mu, sig, false, false
		}
	}
	for a := 0; a < dim; a++ {
		if sig[a*dim+a] < sigmaMin {
			sig[a*dim+a] = sigmaMin
			clamped = true
		}
	}
	// positive definite with a margin: the smallest pivot must not be rounding noise
	L, pd := cholesky(sig, dim)
	if pd {
		for a := 0; a < dim; a++ {
			if L[a*dim+a]*L[a*dim+a] < 1e-6*sig[a*dim+a] {
				pd = false
			}
		}
	}
	return mu, sig, clamped, pd
}

func runClosedMvn(cs *fw.Case, r *prng.Rand) {
	dim := r.Range(1, 3)
	n := genSize(r)
	X, dclass := genVectors(r, n, dim)
	gamma, wclass := genGamma(r, n)
	smin := r.PickF([]float64{1e-12, 1e-6, 1e-6, 0.5, 5})
	variant := r.Pick([]string{"Estimate", "EstimateOnData", "batch"})
	gamma, wclass = applyShift(r, gamma, wclass, n)
	if activeShift != nil {
		// the diagonal-only floor in d >= 2 is an open finding of its own; the
		// shift cells keep the floor out of the way
		smin = 1e-12
	}
	if variant == "batch" && extremeShift() {
		cs.Skip("batch-cannot-rescale")
		return
	}
	d := &dataset{X: X, Gamma: gamma}
	d.prepare()
	wit := map[string]any{"estimator": "vector normal", "dim": dim, "config": map[string]any{"SigmaMin": smin}, "x": X, "gamma": gammaJSON(gamma), "entry": variant}
	mu0 := make([]float64, dim)
	sg0 := make([]float64, dim*dim)
	for i := 0; i < dim; i++ {
		sg0[i*dim+i] = 1
	}
	pool := seqPool()
	var pdf stat.VectorPdf
	var err error
	p := fw.Call(func() {
		var est *ve.NormalEstimator
		if est, err = ve.NewNormalEstimator(mu0, sg0, smin); err != nil {
			return
		}
		rows := make([]ad.ConstVector, n)
		for i := range rows {
			rows[i] = vecF(X[i])
		}
		switch variant {
		case "Estimate":
			if err = est.SetData(rows, n); err != nil {
				return
			}
			if err = est.Estimate(gammaVec(gamma), pool); err != nil {
				return
			}
		case "EstimateOnData":
			if err = est.EstimateOnData(rows, gammaVec(gamma), pool); err != nil {
				return
			}
		case "batch":
			if err = est.Initialize(pool); err != nil {
				return
			}
			for i := range rows {
				var g ad.ConstScalar
				if gamma != nil {
					g = ad.ConstFloat64(gamma[i])
				}
				if err = est.NewObservation(rows[i], g, pool); err != nil {
					return
				}
			}
		}
		pdf, err = est.GetEstimate()
	})
	cs.Cover("estimator:vector-normal")
	cs.Cover("entry:" + variant)
	cs.Cover(fmt.Sprintf("mvn:dim=%d", dim))
	if d.wsum == 0 || math.IsNaN(d.wsum) {
		cs.Skip("no-weight")
		return
	}
	_, _, clamped, pd := referenceCov(d, dim, smin)
	spread := "mean/sd<1e2"
	for q := 0; q < dim; q++ {
		if c := spreadClass(d, q); c > spread || c == "sd=0" {
			spread = c
		}
	}
	dcl := "d=1"
	if dim > 1 {
		dcl = "d>=2"
	}
	_, _ = dclass, wclass
	class := fmt.Sprintf("%s,%s,floor-%s", dcl, spread, map[bool]string{true: "active", false: "inactive"}[clamped])
	if clamped && dim >= 2 {
		// one cell: a floor on the diagonal alone (the off-diagonal entries are
		// kept) is what decides here
		class = "d>=2,floor-active"
	}
	sigBase := fmt.Sprintf("C16|%s|vectorNormal|%s", cs.Monitor, class)
	if activeShift != nil {
		sigBase += fmt.Sprintf(",shift=%g", *activeShift)
	}
	if illClass(spread) != "" && activeShift == nil {
		// ... unless the data are in the regime where the one-pass moments are
		// rounding noise: that decides first
		sigBase = "C16|closed|vectorNormal-moments|" + spread
	}
	if p != nil {
		cs.Violation(sigBase+"|panic", p.Msg+"\n"+p.Stack, wit)
		return
	}
	if !pd {
		// the (floored) weighted covariance is singular: no normal distribution to return
		if err != nil {
			cs.Cover("mle-outside-domain:rejected")
		} else {
			cs.Cover("mle-outside-domain:not-rejected(not judged)")
		}
		cs.Skip("singular-covariance")
		return
	}
	if err != nil {
		cs.Violation(sigBase+failKind(sigBase, "|error"), err.Error(), wit)
		return
	}
	nd, ok := pdf.(*vd.NormalDistribution)
	if !ok {
		cs.Violation(sigBase+"|estimate-type", fmt.Sprintf("%T", pdf), wit)
		return
	}
	theta := make([]float64, 0, dim+dim*dim)
	for i := 0; i < dim; i++ {
		theta = append(theta, nd.Mu.At(i).GetFloat64())
	}
	// the one-pass formula leaves Sigma symmetric up to the last bit only; the
	// likelihood is a function of the symmetric part
	asym := 0.0
	for i := 0; i < dim; i++ {
		for k := 0; k < dim; k++ {
			a, b := nd.Sigma.At(i, k).GetFloat64(), nd.Sigma.At(k, i).GetFloat64()
			theta = append(theta, 0.5*(a+b))
			if sc := math.Sqrt(math.Abs(nd.Sigma.At(i, i).GetFloat64() * nd.Sigma.At(k, k).GetFloat64())); sc > 0 && math.Abs(a-b)/sc > asym {
				asym = math.Abs(a-b) / sc
			}
		}
	}
	if asym > 1e-9 {
		// not part of the property (the likelihood depends on the symmetric part
		// only); counted for the evidence
		cs.Cover("mvn:asymmetric-estimate(>1e-9)")
	}
	wit["estimate"] = theta
	fam := mvnFam{dim, smin}
	pname := func(k int) string {
		if k < dim {
			return "mu"
		}
		i, j := fam.pair(k - dim)
		if i == j {
			return "Sigma[i][i]"
		}
		return "Sigma[i][j]"
	}
	cs.Cover("mvn:floor-" + map[bool]string{true: "active", false: "inactive"}[clamped])
	if clamped && dim >= 2 {
		pname = func(int) string { return "Sigma" }
	}

	judgeEstimate(cs, sigBase, fam, theta, d, pname, wit)
	if cs.Violations() == 0 && n >= 2 {
		cs.Nontrivial("mvn", variant, smin, X, gamma)
	}
}
