// Package c17: parallel estimation is schedule independent and race free
// (DESIGN.md, C17).  Four monitors over every entry point of
// /repo/statistics that takes a threadpool.ThreadPool:
//
//	(1) differential against the sequential run (zero-value pool),
//	(2) exactly-once / thread-id ownership over the Event hook log,
//	(3) the Go race detector (race build of this same package; reports are
//	    classified by driver/oracles/c17_race.py),
//	(4) deadlock / lost wake-up watchdog in logical steps + CPU time.
package c17

import (
	"runtime"
	"sync"
	"sync/atomic"
	"time"
	"unsafe"

	"github.com/pbenner/autodiff/verifhook"
)

/* event log
 * -------------------------------------------------------------------------- */

type event struct {
	Seq    int64
	Site   string
	Item   int
	Thread int
	Gid    int64
}

// callState is the observation record of one library call.  The hooks reach
// it through the package variable cur (set before the call's goroutine and
// the pool's goroutines are started, so no synchronisation is needed to read
// it).
type callState struct {
	epoch   int64
	mainGid atomic.Int64 // goroutine that executes the library call
	plan    plan

	mu     sync.Mutex
	events []event

	progress atomic.Int64 // events + yields seen (plain build only)
	yields   atomic.Int64
}

var cur atomic.Pointer[callState]
var epochCtr int64

// goid parses the id of the calling goroutine from the first line of its
// stack ("goroutine 123 [running]:").
func goid() int64 {
	var buf [48]byte
	n := runtime.Stack(buf[:], false)
	var id int64
	for i := len("goroutine "); i < n; i++ {
		c := buf[i]
		if c < '0' || c > '9' {
			break
		}
		id = id*10 + int64(c-'0')
	}
	return id
}

// eventHook is installed as verifhook.EventFn in the plain build.  In the
// race build no Event hook is installed: the mutex below would add
// happens-before edges between the pool's threads and hide races of the
// library from the detector.
func eventHook(site string, item int, thread int) {
	st := cur.Load()
	if st == nil {
		return
	}
	g := goid()
	st.mu.Lock()
	st.events = append(st.events, event{int64(len(st.events)), site, item, thread, g})
	st.mu.Unlock()
	st.progress.Add(1)
}

/* schedule perturbation
 * -------------------------------------------------------------------------- */

// plan is the seeded perturbation plan of one repetition.
type plan struct {
	Mode string // none gosched sleep mixed hold-main hold-workers stagger
	Seed uint64
	P    float64 // probability that a Yield site perturbs
}

var planModes = []string{"none", "gosched", "sleep", "mixed", "hold-main", "hold-workers", "stagger"}

func mix64(z uint64) uint64 {
	z += 0x9E3779B97F4A7C15
	z = (z ^ (z >> 30)) * 0xBF58476D1CE4E5B9
	z = (z ^ (z >> 27)) * 0x94D049BB133111EB
	return z ^ (z >> 31)
}

func isSuffix(s, suf string) bool { return len(s) >= len(suf) && s[len(s)-len(suf):] == suf }

func perturb(pl plan, h uint64, site string, main func() bool, gid func() int64) {
	u := float64(h>>11) / (1 << 53)
	h2 := mix64(h)
	switch pl.Mode {
	case "none":
	case "gosched":
		if u < pl.P {
			for k := int(h2 % 16); k >= 0; k-- {
				runtime.Gosched()
			}
		}
	case "sleep":
		if u < pl.P {
			time.Sleep(time.Duration(h2%201) * time.Microsecond)
		}
	case "mixed":
		if u < pl.P {
			if h2&1 == 0 {
				for k := int((h2 >> 1) % 16); k >= 0; k-- {
					runtime.Gosched()
				}
			} else {
				time.Sleep(time.Duration((h2>>1)%201) * time.Microsecond)
			}
		}
	case "hold-main":
		// the submitting thread is late at Wait: the workers drain the queue,
		// thread 0 is never used
		if isSuffix(site, ".queued") {
			time.Sleep(time.Duration(300+h2%700) * time.Microsecond)
		} else if u < pl.P/2 {
			runtime.Gosched()
		}
	case "hold-workers":
		// the workers are slow: the submitting thread executes most jobs
		if isSuffix(site, ".job") && !main() {
			time.Sleep(time.Duration(100+h2%101) * time.Microsecond)
		}
	case "stagger":
		// some threads are consistently slow
		if isSuffix(site, ".job") {
			g := uint64(gid())
			if mix64(g^pl.Seed)%3 == 0 {
				time.Sleep(time.Duration(50+h2%151) * time.Microsecond)
			} else if u < pl.P {
				runtime.Gosched()
			}
		}
	}
}

// yieldHook: plain build.  The decision is drawn from the plan seed and the
// global arrival number of the Yield call.
func yieldHook(site string) {
	st := cur.Load()
	if st == nil {
		return
	}
	k := st.yields.Add(1)
	st.progress.Add(1)
	if st.plan.Mode == "none" {
		return
	}
	h := mix64(st.plan.Seed ^ uint64(k)*0xD1B54A32D192ED03)
	perturb(st.plan, h, site, func() bool { return goid() == st.mainGid.Load() }, goid)
}

// yieldHookRace: race build.  No shared memory is written (an atomic counter
// would order the threads for the race detector); the entropy is the clock
// and the address of a stack variable.
func yieldHookRace(site string) {
	st := cur.Load()
	if st == nil || st.plan.Mode == "none" {
		return
	}
	var x byte
	h := mix64(st.plan.Seed ^ uint64(time.Now().UnixNano()) ^ uint64(uintptr(unsafe.Pointer(&x)))*0x9E3779B97F4A7C15)
	perturb(st.plan, h, site, func() bool { return goid() == st.mainGid.Load() }, goid)
}

func installHooks() {
	if raceEnabled {
		verifhook.EventFn = nil
		verifhook.YieldFn = yieldHookRace
	} else {
		verifhook.EventFn = eventHook
		verifhook.YieldFn = yieldHook
	}
}
