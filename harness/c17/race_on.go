//go:build race

package c17

import "runtime"

// raceEnabled: this binary was built with -race (driver: .build/vworker-C17-race).
const raceEnabled = true

// raceErrors is the number of reports the race detector has printed so far.
func raceErrors() int { return runtime.RaceErrors() }
