package c17

import (
	"fmt"
	"regexp"
	"runtime"
	"sort"
	"strings"
	"syscall"
	"time"

	"github.com/pbenner/threadpool"

	"verifharness/internal/fw"
)

// workload is one generated call of one entry point.  run builds every
// estimator / data set afresh from the stored specification, so that the
// sequential reference and every parallel repetition start from the same
// state.
type workload struct {
	Entry   string // e.g. scalarEstimator.NormalEstimator.Estimate
	Variant string // options that select a different code path (weighted, family, ...)
	Site    string // hook site whose job-to-thread map is recorded as evidence
	Items   int    // number of jobs / items of the primary fork-join phase
	Terms   int    // number of accumulated contributions (tolerance scale)
	K       float64
	Names   []string // names of the outputs (same order as run's result)
	Exact   bool     // outputs are computed item by item, no reduction: compare with ==
	// schedule-only: the parallel algorithm is by design a different estimator
	// than the sequential one (logistic regression: parameter averaging over
	// per-thread SAGA workers); repetitions at one pool size are compared with
	// each other, not with the sequential run
	ScheduleOnly bool
	Wit          map[string]any
	run          func(pool threadpool.ThreadPool) ([]float64, error)
}

type callResult struct {
	Out       []float64
	Err       error
	Panic     *fw.Panic
	Events    []event
	Late      int // events logged after the library call had returned
	Deadlock  bool
	Abandoned bool // watchdog fired without a verdict
	Dump      string
	Races     int // race detector reports printed during the call (race build)
	Yields    int64
}

func cpuNanos() int64 {
	var ru syscall.Rusage
	syscall.Getrusage(syscall.RUSAGE_SELF, &ru)
	return ru.Utime.Nano() + ru.Stime.Nano()
}

// watchdog parameters (monitor 4): no logical progress and less than idleCPU
// of CPU time during idleWall => goroutine dump.
var (
	idleWall = 20 * time.Second
	idleCPU  = int64(500 * time.Millisecond)
)

var reGoroutine = regexp.MustCompile(`^goroutine (\d+) \[([^\],]+)`)

// analyseDump decides whether every goroutine of the call (the goroutine that
// executes the library call and the workers of the pool) is blocked.
func analyseDump(dump string, mainGid int64) (deadlock bool, summary string) {
	blocks := strings.Split(dump, "\n\n")
	states := map[string]int{}
	mainSeen, allBlocked := false, true
	for _, b := range blocks {
		m := reGoroutine.FindStringSubmatch(b)
		if m == nil {
			continue
		}
		var id int64
		for _, c := range m[1] {
			id = id*10 + int64(c-'0')
		}
		isMain := id == mainGid
		isWorker := strings.Contains(b, "threadpool.(*threadPool).worker")
		if !isMain && !isWorker {
			continue
		}
		if isMain {
			mainSeen = true
		}
		st := m[2]
		role := "worker"
		if isMain {
			role = "caller"
		}
		states[role+":"+st]++
		switch st {
		case "running", "runnable", "syscall", "sleep":
			allBlocked = false
		}
	}
	var parts []string
	for k, n := range states {
		parts = append(parts, fmt.Sprintf("%dx %s", n, k))
	}
	sort.Strings(parts)
	return mainSeen && allBlocked, strings.Join(parts, ", ")
}

// runCall executes one library call in its own goroutine under the hooks and
// the progress watchdog.  threads == 0 selects the zero-value pool (the
// sequential reference).
func runCall(w *workload, threads, buf int, pl plan) *callResult {
	res := &callResult{}
	epochCtr++
	st := &callState{epoch: epochCtr, plan: pl}
	cur.Store(st)
	races0 := raceErrors()
	done := make(chan struct{})
	nAtReturn := 0
	go func() {
		defer close(done)
		st.mainGid.Store(goid())
		var pool threadpool.ThreadPool
		if threads > 0 {
			pool = threadpool.New(threads, buf)
		}
		res.Panic = fw.Call(func() { res.Out, res.Err = w.run(pool) })
		st.mu.Lock()
		nAtReturn = len(st.events)
		st.mu.Unlock()
		pool.Stop()
	}()
	tick := time.NewTicker(200 * time.Millisecond)
	defer tick.Stop()
	lastProg := int64(-1)
	lastChange := time.Now()
	cpuAtChange := cpuNanos()
	windows := 0
wait:
	for {
		select {
		case <-done:
			break wait
		case <-tick.C:
		}
		prog := st.progress.Load()
		if prog != lastProg {
			lastProg, lastChange, cpuAtChange = prog, time.Now(), cpuNanos()
			continue
		}
		if time.Since(lastChange) < idleWall {
			continue
		}
		if cpuNanos()-cpuAtChange >= idleCPU {
			// still computing (the per-case CPU watchdog of fw bounds this)
			lastChange, cpuAtChange = time.Now(), cpuNanos()
			continue
		}
		buf := make([]byte, 1<<20)
		n := runtime.Stack(buf, true)
		dump := string(buf[:n])
		dl, summary := analyseDump(dump, st.mainGid.Load())
		if dl {
			res.Deadlock = true
			res.Dump = summary + "\n" + trimDump(dump)
			cur.Store(nil)
			return res
		}
		windows++
		if windows >= 3 {
			res.Abandoned = true
			res.Dump = summary
			cur.Store(nil)
			return res
		}
		lastChange, cpuAtChange = time.Now(), cpuNanos()
	}
	if !raceEnabled {
		// contributions that arrive after the call has returned
		for k := 0; k < 2; k++ {
			time.Sleep(150 * time.Microsecond)
		}
		st.mu.Lock()
		res.Events = append([]event(nil), st.events...)
		st.mu.Unlock()
		res.Late = len(res.Events) - nAtReturn
	}
	res.Yields = st.yields.Load()
	res.Races = raceErrors() - races0
	cur.Store(nil)
	return res
}

// trimDump keeps the goroutines that are inside the library or the pool.
func trimDump(dump string) string {
	var keep []string
	for _, b := range strings.Split(dump, "\n\n") {
		if strings.Contains(b, "pbenner/threadpool") || strings.Contains(b, "pbenner/autodiff") {
			if len(b) > 1500 {
				b = b[:1500] + "…"
			}
			keep = append(keep, b)
		}
		if len(keep) >= 8 {
			break
		}
	}
	return strings.Join(keep, "\n\n")
}
