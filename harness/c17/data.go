package c17

import (
	"math"

	ad "github.com/pbenner/autodiff"

	"verifharness/internal/prng"
)

// Data are built so that (a) every observation has a distinct value and
// carries at least 1/(4n) of the total weight, (b) the sums the estimators
// accumulate are well conditioned (values of order one, spread of order one,
// no cancellation between the first and second moment): dropping or doubling
// one contribution moves some output by >= ~1e-3/n relative, re-association
// of the sums by <= n*eps*kappa with kappa < 1e3.

// grid returns n distinct points of [0,1), separated by at least 1/(2n), in
// random order.
func grid(r *prng.Rand, n int) []float64 {
	p := r.Perm(n)
	x := make([]float64, n)
	for i := range x {
		x[i] = (float64(p[i]) + 0.5*r.Float64()) / float64(n)
	}
	return x
}

func genReal(r *prng.Rand, n int) []float64 {
	x := grid(r, n)
	for i := range x {
		x[i] = -2 + 4*x[i]
	}
	return x
}

// genClusters: k clusters at -1.5, 1.5, 4.5 ... of width 1.
func genClusters(r *prng.Rand, n, k int) []float64 {
	x := grid(r, n)
	for i := range x {
		x[i] = -1.5 + 3*float64(i%k) + (x[i] - 0.5)
	}
	return x
}

func genPositive(r *prng.Rand, n int) []float64 {
	x := grid(r, n)
	for i := range x {
		x[i] = 0.2 + 3*x[i]
	}
	return x
}

// genCounts: counts in 0..12, not all zero; cluster c of k sits around 2+5c.
func genCounts(r *prng.Rand, n, k int) []float64 {
	x := make([]float64, n)
	for i := range x {
		x[i] = float64(1 + 5*(i%k) + r.Intn(4))
	}
	if n > 2 && r.Bool() {
		x[r.Intn(n)] = 0
	}
	return x
}

func genCategories(r *prng.Rand, n, k int) []float64 {
	p := r.Perm(n)
	x := make([]float64, n)
	for i := range x {
		x[i] = float64(p[i] % k)
	}
	return x
}

// genGamma: log-weights with weights in [0.25, 1].
func genGamma(r *prng.Rand, n int) []float64 {
	g := make([]float64, n)
	for i := range g {
		g[i] = math.Log(0.25 + 0.75*r.Float64())
	}
	return g
}

func vecF(x []float64) ad.DenseFloat64Vector {
	return ad.NewDenseFloat64Vector(append([]float64(nil), x...))
}

func gammaVec(g []float64) ad.ConstVector {
	if g == nil {
		return nil
	}
	return vecF(g)
}

func matF(a [][]float64) *ad.DenseFloat64Matrix {
	n, m := len(a), len(a[0])
	flat := make([]float64, 0, n*m)
	for _, row := range a {
		flat = append(flat, row...)
	}
	return ad.NewDenseFloat64Matrix(flat, n, m)
}

func params(v ad.ConstVector) []float64 {
	if v == nil {
		return nil
	}
	r := make([]float64, v.Dim())
	for i := range r {
		r[i] = v.ConstAt(i).GetFloat64()
	}
	return r
}

// probs returns a strictly positive probability vector.
func probs(r *prng.Rand, m int) []float64 {
	p := make([]float64, m)
	s := 0.0
	for i := range p {
		p[i] = 0.3 + r.Float64()
		s += p[i]
	}
	for i := range p {
		p[i] /= s
	}
	return p
}

func stochastic(r *prng.Rand, m int) [][]float64 {
	a := make([][]float64, m)
	for i := range a {
		a[i] = probs(r, m)
	}
	return a
}
