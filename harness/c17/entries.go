package c17

import (
	"fmt"
	"math"
	"sort"

	ad "github.com/pbenner/autodiff"
	stat "github.com/pbenner/autodiff/statistics"
	"github.com/pbenner/autodiff/statistics/generic"
	md "github.com/pbenner/autodiff/statistics/matrixDistribution"
	me "github.com/pbenner/autodiff/statistics/matrixEstimator"
	sd "github.com/pbenner/autodiff/statistics/scalarDistribution"
	se "github.com/pbenner/autodiff/statistics/scalarEstimator"
	vd "github.com/pbenner/autodiff/statistics/vectorDistribution"
	ve "github.com/pbenner/autodiff/statistics/vectorEstimator"
	"github.com/pbenner/threadpool"

	"verifharness/internal/prng"
)

// allowance factors (see CFG["tolerances"]): |a-b| <= K * terms * eps * max(1,|a|,|b|)
const (
	kClosed = 1 << 10 // one reduction, condition of the closed forms on the generated data < 1e3
	kEM     = 1 << 16 // 1-3 EM / Baum-Welch steps, each amplifying by the Lipschitz constant of the EM map
	// never stop early: the number of EM steps must not depend on rounding
	emEpsilon = -1e300
	// floor of the normal scale parameters: a component that collapses onto one
	// or two observations (few observations per component are part of the
	// partitions to cover) gets sigma = sigmaMin instead of the square root of
	// the rounding noise of E[x^2]-E[x]^2 (C16's finding about the one-pass
	// moments), which keeps the condition of every M-step below ~1e3
	sigmaMin = 0.3
)

type entryDef struct {
	Name  string
	build func(r *prng.Rand, n int, o buildOpt) *workload
	// CanFail: the first fork-join phase evaluates densities and returns an
	// error for an observation no component can explain (error-path cases)
	CanFail bool
	// NOpt: number of option combinations besides the default (EM entry points:
	// 1 = OptimizeEmissions false, 2 = OptimizeWeights / OptimizeTransitions
	// false, 3 = both false)
	NOpt int
	// Big: with more jobs than threads, half of the cases use T*[Big, 3*Big]
	// observations (0: never)
	Big int
}

// buildOpt selects the error-path and option variants of a workload.
type buildOpt struct {
	Bad bool // one observation on which the density evaluation fails
	Opt int  // option combination (see entryDef.NOpt)
	// Kind forces the density family of the scalar data-set entries (list
	// "densities": every density type at least once per sweep)
	Kind string
}

func (o buildOpt) optE() bool { return o.Opt != 1 && o.Opt != 3 } // OptimizeEmissions
func (o buildOpt) optW() bool { return o.Opt != 2 && o.Opt != 3 } // OptimizeWeights / OptimizeTransitions

func (o buildOpt) tag() string {
	t := ""
	switch o.Opt {
	case 1:
		t = ",OptimizeEmissions=false"
	case 2:
		t = ",OptimizeWeights/Transitions=false"
	case 3:
		t = ",nothing-optimized"
	}
	if o.Bad {
		t += ",bad-observation"
	}
	return t
}

// badValue: an observation on which the density evaluation of every
// component of the family fails: the density returns an error (non-integer
// count) or every component has probability zero.
func badValue(r *prng.Rand, kind string) float64 {
	switch kind {
	case "poisson":
		return r.PickF([]float64{3.5, -1})
	case "geometric":
		return 3.5
	case "categorical":
		return 9
	case "exponential":
		return -1
	}
	return math.Inf(1) // normal
}

/* scalar component estimators
 * -------------------------------------------------------------------------- */

type both interface {
	stat.ScalarEstimator
	stat.ScalarBatchEstimator
}

// scalarEst builds a closed-form scalar estimator; idx spreads the initial
// parameters of mixture components / emissions.
func scalarEst(kind string, idx int) (both, error) {
	switch kind {
	case "normal":
		return se.NewNormalEstimator(-1.5+3*float64(idx), 1.0, sigmaMin)
	case "poisson":
		return se.NewPoissonEstimator(2 + 5*float64(idx))
	case "exponential":
		return se.NewExponentialEstimator(0.5+float64(idx), 1e12)
	case "geometric":
		return se.NewGeometricEstimator(0.3 / float64(idx+1))
	case "negativeBinomial":
		return se.NewNegativeBinomialEstimator(3+float64(idx), 0.5)
	case "categorical":
		th := []float64{0.4, 0.3, 0.2, 0.1}
		rot := make([]float64, 4)
		for i := range rot {
			rot[i] = th[(i+idx)%4]
		}
		return se.NewCategoricalEstimator(rot)
	case "translation":
		// wrapper estimators: their estimate is a wrapper density (PdfTranslation /
		// PdfLogTransform) with scratch state of its own, cloned per thread by the
		// data sets
		b, err := se.NewNormalEstimator(-0.75+3*float64(idx), 1.0, sigmaMin)
		if err != nil {
			return nil, err
		}
		return se.NewTranslationEstimator(b, 0.75)
	case "logTransform":
		b, err := se.NewNormalEstimator(0.3+0.5*float64(idx), 0.5, sigmaMin)
		if err != nil {
			return nil, err
		}
		return se.NewLogTransformEstimator(b, 1.0)
	}
	return nil, fmt.Errorf("unknown kind %s", kind)
}

// extraPdfs: every other scalar density of the library (all of them carry
// scratch scalars, which is why the data sets clone them per thread) and
// wrappers around them; used by the EvaluateLogPdf entries.  Domain: "pos"
// (0.2, 3.2), "unit" (0.05, 0.85), "count".
var extraPdfs = map[string]struct {
	domain string
	mk     func(i float64) (stat.ScalarPdf, error)
}{
	"gamma": {"pos", func(i float64) (stat.ScalarPdf, error) {
		return sd.NewGammaDistribution(ad.NewFloat64(2+i), ad.NewFloat64(1.5))
	}},
	"chiSquared": {"pos", func(i float64) (stat.ScalarPdf, error) { return sd.NewChiSquaredDistribution(ad.Float64Type, 3+i) }},
	"generalizedGamma": {"pos", func(i float64) (stat.ScalarPdf, error) {
		return sd.NewGeneralizedGammaDistribution(ad.NewFloat64(1.5), ad.NewFloat64(2+i), ad.NewFloat64(1.2))
	}},
	"cauchy": {"pos", func(i float64) (stat.ScalarPdf, error) {
		return sd.NewCauchyDistribution(ad.NewFloat64(1+i), ad.NewFloat64(0.8))
	}},
	"laplace": {"pos", func(i float64) (stat.ScalarPdf, error) {
		return sd.NewLaplaceDistribution(ad.NewFloat64(1+i), ad.NewFloat64(0.8))
	}},
	"gev": {"pos", func(i float64) (stat.ScalarPdf, error) {
		return sd.NewGevDistribution(ad.NewFloat64(1+0.5*i), ad.NewFloat64(1.5), ad.NewFloat64(0.1))
	}},
	"gpareto": {"pos", func(i float64) (stat.ScalarPdf, error) {
		return sd.NewGParetoDistribution(ad.NewFloat64(0.1), ad.NewFloat64(1+i), ad.NewFloat64(0.2))
	}},
	"pareto": {"pos", func(i float64) (stat.ScalarPdf, error) {
		return sd.NewParetoDistribution(ad.NewFloat64(0.1), ad.NewFloat64(1.5+i))
	}},
	"powerLaw": {"pos", func(i float64) (stat.ScalarPdf, error) {
		return sd.NewPowerLawDistribution(ad.NewFloat64(2.5+i), ad.NewFloat64(0.1))
	}},
	"beta": {"unit", func(i float64) (stat.ScalarPdf, error) {
		return sd.NewBetaDistribution(ad.NewFloat64(2+i), ad.NewFloat64(3), false)
	}},
	"binomial": {"count", func(i float64) (stat.ScalarPdf, error) {
		return sd.NewBinomialDistribution(ad.NewFloat64(0.3+0.2*i), 15)
	}},
	"negativeBinomial": {"count", func(i float64) (stat.ScalarPdf, error) {
		return sd.NewNegativeBinomialDistribution(ad.NewFloat64(3+i), ad.NewFloat64(0.5))
	}},
	"mixture(normal,normal)": {"pos", func(i float64) (stat.ScalarPdf, error) {
		d1, _ := sd.NewNormalDistribution(ad.NewFloat64(0.5+i), ad.NewFloat64(0.7))
		d2, _ := sd.NewNormalDistribution(ad.NewFloat64(2.5), ad.NewFloat64(0.9))
		return sd.NewMixture(ad.NewDenseFloat64Vector([]float64{0.4, 0.6}), []stat.ScalarPdf{d1, d2})
	}},
	"translation(gamma)": {"pos", func(i float64) (stat.ScalarPdf, error) {
		d, err := sd.NewGammaDistribution(ad.NewFloat64(2+i), ad.NewFloat64(1.5))
		if err != nil {
			return nil, err
		}
		return sd.NewPdfTranslation(d, 0.5)
	}},
	"logTransform(laplace)": {"pos", func(i float64) (stat.ScalarPdf, error) {
		d, err := sd.NewLaplaceDistribution(ad.NewFloat64(0.5+0.3*i), ad.NewFloat64(0.6))
		if err != nil {
			return nil, err
		}
		return sd.NewPdfLogTransform(d, 1.0)
	}},
	"translation(translation(normal))": {"pos", func(i float64) (stat.ScalarPdf, error) {
		d, _ := sd.NewNormalDistribution(ad.NewFloat64(1.5+i), ad.NewFloat64(0.8))
		t, err := sd.NewPdfTranslation(d, 0.5)
		if err != nil {
			return nil, err
		}
		return sd.NewPdfTranslation(t, 0.25)
	}},
}

var extraPdfNames = func() []string {
	var r []string
	for k := range extraPdfs {
		r = append(r, k)
	}
	sort.Strings(r)
	return r
}()

// tableKinds: families of the EvaluateLogPdf entries.
func tableKinds(base []string) []string {
	r := append([]string{}, base...)
	r = append(r, "translation", "logTransform")
	return append(r, extraPdfNames...)
}

func scalarData(r *prng.Rand, kind string, n, k int) []float64 {
	switch kind {
	case "normal":
		if k > 1 {
			return genClusters(r, n, k)
		}
		return genReal(r, n)
	case "poisson", "geometric", "negativeBinomial":
		return genCounts(r, n, k)
	case "exponential", "logTransform":
		return genPositive(r, n)
	case "translation":
		if k > 1 {
			return genClusters(r, n, k)
		}
		return genReal(r, n)
	case "categorical":
		return genCategories(r, n, 4)
	}
	if e, ok := extraPdfs[kind]; ok {
		switch e.domain {
		case "count":
			return genCounts(r, n, k)
		case "unit":
			x := genPositive(r, n)
			for i := range x {
				x[i] /= 4
			}
			return x
		}
		return genPositive(r, n)
	}
	return nil
}

func scalarPdf(kind string, idx int) (stat.ScalarPdf, error) {
	if x, ok := extraPdfs[kind]; ok {
		return x.mk(float64(idx))
	}
	e, err := scalarEst(kind, idx)
	if err != nil {
		return nil, err
	}
	return e.GetEstimate()
}

/* closed-form estimators
 * -------------------------------------------------------------------------- */

func buildClosedScalar(kind string) func(r *prng.Rand, n int, o buildOpt) *workload {
	return func(r *prng.Rand, n int, o buildOpt) *workload {
		inner := kind
		if kind == "logTransform" || kind == "translation" {
			inner = "normal"
		}
		x := scalarData(r, inner, n, 1)
		if kind == "logTransform" {
			x = genPositive(r, n)
		}
		var gamma []float64
		variant := "unweighted"
		if r.Bool() {
			gamma = genGamma(r, n)
			variant = "weighted"
		}
		onData := r.Bool()
		w := &workload{Entry: "scalarEstimator." + kind, Variant: variant, Site: "scalarEstimator." + kind, Items: n, Terms: n, K: kClosed,
			Wit: map[string]any{"x": x, "gamma": gamma, "EstimateOnData": onData}}
		w.run = func(pool threadpool.ThreadPool) ([]float64, error) {
			var est stat.ScalarEstimator
			b, err := scalarEst(inner, 0)
			if err != nil {
				return nil, err
			}
			est = b
			switch kind {
			case "logTransform":
				if est, err = se.NewLogTransformEstimator(b, 1.0); err != nil {
					return nil, err
				}
			case "translation":
				if est, err = se.NewTranslationEstimator(b, 0.75); err != nil {
					return nil, err
				}
			}
			if onData {
				err = est.EstimateOnData(vecF(x), gammaVec(gamma), pool)
			} else {
				if err = est.SetData(vecF(x), n); err == nil {
					err = est.Estimate(gammaVec(gamma), pool)
				}
			}
			if err != nil {
				return nil, err
			}
			if _, err := est.GetEstimate(); err != nil {
				return nil, err
			}
			return params(est.GetParameters()), nil
		}
		return w
	}
}

func rowsOf(X [][]float64) []ad.ConstVector {
	rows := make([]ad.ConstVector, len(X))
	for i := range rows {
		rows[i] = vecF(X[i])
	}
	return rows
}

// genRows2: n rows (x, y) with correlated, distinct coordinates.
func genRows2(r *prng.Rand, n, k int) [][]float64 {
	a := genClusters(r, n, k)
	b := genReal(r, n)
	X := make([][]float64, n)
	for i := range X {
		X[i] = []float64{a[i], 0.5*a[i] + b[i]}
	}
	return X
}

func buildVectorNormal(r *prng.Rand, n int, o buildOpt) *workload {
	if n < 3 {
		n = 3 // a covariance of < 3 points is singular: its determinant is rounding noise
	}
	X := genRows2(r, n, 1)
	var gamma []float64
	variant := "unweighted"
	if r.Bool() {
		gamma = genGamma(r, n)
		variant = "weighted"
	}
	w := &workload{Entry: "vectorEstimator.normal", Variant: variant, Site: "vectorEstimator.normal", Items: n, Terms: n, K: kClosed,
		Wit: map[string]any{"x": X, "gamma": gamma}}
	w.run = func(pool threadpool.ThreadPool) ([]float64, error) {
		est, err := ve.NewNormalEstimator([]float64{0, 0}, []float64{1, 0, 0, 1}, sigmaMin*sigmaMin)
		if err != nil {
			return nil, err
		}
		if err := est.EstimateOnData(rowsOf(X), gammaVec(gamma), pool); err != nil {
			return nil, err
		}
		if _, err := est.GetEstimate(); err != nil {
			return nil, err
		}
		return params(est.GetParameters()), nil
	}
	return w
}

func buildScalarId(r *prng.Rand, n int, o buildOpt) *workload {
	a := genReal(r, n)
	b := genCounts(r, n, 1)
	X := make([][]float64, n)
	for i := range X {
		X[i] = []float64{a[i], b[i]}
	}
	var gamma []float64
	variant := "unweighted"
	if r.Bool() {
		gamma = genGamma(r, n)
		variant = "weighted"
	}
	w := &workload{Entry: "vectorEstimator.scalarId", Variant: variant, Site: "scalarEstimator.normal", Items: n, Terms: n, K: kClosed,
		Wit: map[string]any{"x": X, "gamma": gamma}}
	w.run = func(pool threadpool.ThreadPool) ([]float64, error) {
		e1, _ := scalarEst("normal", 0)
		e2, _ := scalarEst("poisson", 0)
		est, err := ve.NewScalarId(e1, e2)
		if err != nil {
			return nil, err
		}
		if err := est.EstimateOnData(rowsOf(X), gammaVec(gamma), pool); err != nil {
			return nil, err
		}
		return params(est.GetParameters()), nil
	}
	return w
}

// ScalarIid with n = -1 (the only configuration that accepts several rows,
// see findings of C16) and without weights.
func buildScalarIid(r *prng.Rand, n int, o buildOpt) *workload {
	rows := (n + 1) / 2
	x := genReal(r, 2*rows)
	X := make([][]float64, rows)
	for i := range X {
		X[i] = []float64{x[2*i], x[2*i+1]}
	}
	w := &workload{Entry: "vectorEstimator.scalarIid", Variant: "unweighted", Site: "scalarEstimator.normal", Items: 2 * rows, Terms: 2 * rows, K: kClosed,
		Wit: map[string]any{"x": X}}
	w.run = func(pool threadpool.ThreadPool) ([]float64, error) {
		e1, _ := scalarEst("normal", 0)
		est, err := ve.NewScalarIid(e1, -1)
		if err != nil {
			return nil, err
		}
		if err := est.EstimateOnData(rowsOf(X), nil, pool); err != nil {
			return nil, err
		}
		if _, err := est.Estimator.GetEstimate(); err != nil {
			return nil, err
		}
		return params(est.GetParameters()), nil
	}
	return w
}

// genMats: n matrices 2x2; row q of every matrix is one observation of the
// q-th vector estimator.
func genMats(r *prng.Rand, n, k int) [][][]float64 {
	A := genRows2(r, n, k)
	B := genRows2(r, n, k)
	M := make([][][]float64, n)
	for i := range M {
		M[i] = [][]float64{A[i], {B[i][1], B[i][0]}}
	}
	return M
}

func matsOf(M [][][]float64) []ad.ConstMatrix {
	r := make([]ad.ConstMatrix, len(M))
	for i := range r {
		r[i] = matF(M[i])
	}
	return r
}

func vectorIdEst(idx int) (*me.VectorId, error) {
	mk := func(j int) (stat.VectorEstimator, error) {
		e1, _ := scalarEst("normal", idx)
		e2, _ := scalarEst("normal", idx+j)
		return ve.NewScalarId(e1, e2)
	}
	v1, err := mk(0)
	if err != nil {
		return nil, err
	}
	v2, err := mk(1)
	if err != nil {
		return nil, err
	}
	return me.NewVectorId(v1, v2)
}

func buildVectorId(r *prng.Rand, n int, o buildOpt) *workload {
	M := genMats(r, n, 1)
	var gamma []float64
	variant := "unweighted"
	if r.Bool() {
		gamma = genGamma(r, n)
		variant = "weighted"
	}
	w := &workload{Entry: "matrixEstimator.vectorId", Variant: variant, Site: "scalarEstimator.normal", Items: n, Terms: n, K: kClosed,
		Wit: map[string]any{"x": M, "gamma": gamma}}
	w.run = func(pool threadpool.ThreadPool) ([]float64, error) {
		est, err := vectorIdEst(0)
		if err != nil {
			return nil, err
		}
		if err := est.EstimateOnData(matsOf(M), gammaVec(gamma), pool); err != nil {
			return nil, err
		}
		return params(est.GetParameters()), nil
	}
	return w
}

/* mixtures
 * -------------------------------------------------------------------------- */

func emNames(np, steps int) []string { return nil }

func buildScalarMixture(discrete bool) func(r *prng.Rand, n int, o buildOpt) *workload {
	return func(r *prng.Rand, n int, o buildOpt) *workload {
		kind := r.Pick([]string{"normal", "poisson", "exponential", "categorical", "translation", "logTransform"})
		if discrete {
			kind = r.Pick([]string{"poisson", "categorical", "geometric"})
		}
		if o.Bad && kind == "categorical" {
			// an observation outside the categories would, after an error lost by
			// the thread pool itself (see runCase), index the estimator's count
			// table out of range inside a pool goroutine and kill the worker
			kind = "poisson"
		}
		k := r.Range(2, 3)
		x := scalarData(r, kind, n, k)
		steps := r.Range(1, 3)
		var meta []float64
		variant := kind
		if !discrete && r.Chance(0.25) {
			// nested use: Estimate(gamma, ...) performs a single step
			meta = genGamma(r, n)
			variant += ",nested-weights"
		}
		name := "scalarEstimator.mixture"
		if discrete {
			name = "scalarEstimator.mixture_discrete"
		}
		if o.Bad {
			x[r.Intn(n)] = badValue(r, kind)
		}
		variant += o.tag()
		w := &workload{Entry: name, Variant: variant, Site: "generic.mixture_em", Items: n, Terms: n * k, K: kEM,
			Wit: map[string]any{"family": kind, "components": k, "x": x, "steps": steps, "meta": meta, "OptimizeEmissions": o.optE(), "OptimizeWeights": o.optW()}}
		if discrete {
			// summarised data: the EM jobs run over the distinct values
			seen := map[float64]bool{}
			for _, v := range x {
				seen[v] = true
			}
			w.Items = len(seen)
		}
		w.run = func(pool threadpool.ThreadPool) ([]float64, error) {
			ests := make([]stat.ScalarEstimator, k)
			for i := range ests {
				e, err := scalarEst(kind, i)
				if err != nil {
					return nil, err
				}
				ests[i] = e
			}
			var lik []float64
			hook := generic.EmHook{Value: func(mix generic.BasicMixture, i int, likelihood, eps float64) {
				if i > 0 {
					lik = append(lik, likelihood)
				}
			}}
			var est stat.ScalarEstimator
			if discrete {
				// SetData + Estimate: SetData of the discrete estimator summarises the
				// data (MixtureSummarizedDataSet); EstimateOnData is the promoted method
				// of the embedded MixtureEstimator and would use the plain data set
				e, err := se.NewDiscreteMixtureEstimator(nil, ests, emEpsilon, steps, hook)
				if err != nil {
					return nil, err
				}
				e.OptimizeEmissions, e.OptimizeWeights = o.optE(), o.optW()
				if err := e.SetData(vecF(x), n); err != nil {
					return nil, err
				}
				if err := e.Estimate(nil, pool); err != nil {
					return nil, err
				}
				est = e
			} else {
				e, err := se.NewMixtureEstimator(nil, ests, emEpsilon, steps, hook)
				if err != nil {
					return nil, err
				}
				e.OptimizeEmissions, e.OptimizeWeights = o.optE(), o.optW()
				if err := e.EstimateOnData(vecF(x), gammaVec(meta), pool); err != nil {
					return nil, err
				}
				est = e
			}
			return append(lik, params(est.GetParameters())...), nil
		}
		return w
	}
}

func buildVectorMixture(r *prng.Rand, n int, o buildOpt) *workload {
	kind := r.Pick([]string{"vectorNormal", "ScalarId"})
	k := r.Range(2, 3)
	if n < 6*k || o.Bad {
		kind = "ScalarId" // full covariances of a handful of points are singular
	}
	X := genRows2(r, n, k)
	steps := r.Range(1, 3)
	if o.Bad {
		X[r.Intn(n)][0] = math.Inf(1)
	}
	comp := "normal"
	if kind == "ScalarId" && r.Bool() {
		comp = "translation"
		kind = "ScalarId(translation)"
	}
	w := &workload{Entry: "vectorEstimator.mixture", Variant: kind + o.tag(), Site: "generic.mixture_em", Items: n, Terms: n * k, K: kEM,
		Wit: map[string]any{"kind": kind, "components": k, "x": X, "steps": steps, "OptimizeEmissions": o.optE(), "OptimizeWeights": o.optW()}}
	w.run = func(pool threadpool.ThreadPool) ([]float64, error) {
		ests := make([]stat.VectorEstimator, k)
		for i := range ests {
			var err error
			if kind == "vectorNormal" {
				c := -1.5 + 3*float64(i)
				ests[i], err = ve.NewNormalEstimator([]float64{c, 0.5 * c}, []float64{1, 0, 0, 1}, sigmaMin*sigmaMin)
			} else {
				e1, _ := scalarEst(comp, i)
				e2, _ := scalarEst(comp, 0)
				ests[i], err = ve.NewScalarId(e1, e2)
			}
			if err != nil {
				return nil, err
			}
		}
		var lik []float64
		hook := generic.EmHook{Value: func(mix generic.BasicMixture, i int, likelihood, eps float64) {
			if i > 0 {
				lik = append(lik, likelihood)
			}
		}}
		est, err := ve.NewMixtureEstimator(nil, ests, emEpsilon, steps, hook)
		if err != nil {
			return nil, err
		}
		est.OptimizeEmissions, est.OptimizeWeights = o.optE(), o.optW()
		if err := est.EstimateOnData(rowsOf(X), nil, pool); err != nil {
			return nil, err
		}
		return append(lik, params(est.GetParameters())...), nil
	}
	return w
}

func buildMatrixMixture(r *prng.Rand, n int, o buildOpt) *workload {
	k := 2
	M := genMats(r, n, k)
	steps := r.Range(1, 3)
	if o.Bad {
		M[r.Intn(n)][0][0] = math.Inf(1)
	}
	w := &workload{Entry: "matrixEstimator.mixture", Variant: "VectorId" + o.tag(), Site: "generic.mixture_em", Items: n, Terms: n * k, K: kEM,
		Wit: map[string]any{"components": k, "x": M, "steps": steps, "OptimizeEmissions": o.optE(), "OptimizeWeights": o.optW()}}
	w.run = func(pool threadpool.ThreadPool) ([]float64, error) {
		ests := make([]stat.MatrixEstimator, k)
		for i := range ests {
			e, err := vectorIdEst(i)
			if err != nil {
				return nil, err
			}
			ests[i] = e
		}
		var lik []float64
		hook := generic.EmHook{Value: func(mix generic.BasicMixture, i int, likelihood, eps float64) {
			if i > 0 {
				lik = append(lik, likelihood)
			}
		}}
		est, err := me.NewMixtureEstimator(nil, ests, emEpsilon, steps, hook)
		if err != nil {
			return nil, err
		}
		est.OptimizeEmissions, est.OptimizeWeights = o.optE(), o.optW()
		if err := est.EstimateOnData(matsOf(M), nil, pool); err != nil {
			return nil, err
		}
		return append(lik, params(est.GetParameters())...), nil
	}
	return w
}

/* hidden Markov models
 * -------------------------------------------------------------------------- */

// seqLens: n records of 2..6 observations.
func seqLens(r *prng.Rand, n int) ([]int, int) {
	lens := make([]int, n)
	total := 0
	for i := range lens {
		lens[i] = r.Range(2, 6)
		total += lens[i]
	}
	return lens, total
}

func bwHook(lik *[]float64) generic.BaumWelchHook {
	return generic.BaumWelchHook{Value: func(h generic.BasicHmm, i int, likelihood, eps float64) {
		if i > 0 {
			*lik = append(*lik, likelihood)
		}
	}}
}

func buildVectorHmm(nested bool) func(r *prng.Rand, n int, o buildOpt) *workload {
	return func(r *prng.Rand, n int, o buildOpt) *workload {
		kind := r.Pick([]string{"normal", "poisson", "categorical", "translation", "logTransform"})
		if o.Bad && kind == "categorical" {
			kind = "poisson" // see buildScalarMixture
		}
		m := r.Range(2, 3)
		lens, total := seqLens(r, n)
		x := scalarData(r, kind, total, m)
		if o.Bad {
			x[r.Intn(total)] = badValue(r, kind)
		}
		seqs := make([][]float64, n)
		off := 0
		for q := range seqs {
			seqs[q] = x[off : off+lens[q]]
			off += lens[q]
		}
		pi, tr := probs(r, m), stochastic(r, m)
		steps := r.Range(1, 3)
		name, variant := "vectorEstimator.hmm", kind
		if nested {
			name, variant = "vectorEstimator.hmm", kind+",mixture-emissions"
		}
		variant += o.tag()
		w := &workload{Entry: name, Variant: variant, Site: "generic.hmm_baumWelch", Items: n, Terms: total * m * m, K: kEM,
			Wit: map[string]any{"family": kind, "states": m, "pi": pi, "tr": tr, "sequences": seqs, "steps": steps, "mixture_emissions": nested, "OptimizeEmissions": o.optE(), "OptimizeTransitions": o.optW()}}
		w.run = func(pool threadpool.ThreadPool) ([]float64, error) {
			ests := make([]stat.ScalarEstimator, m)
			for c := range ests {
				if !nested {
					e, err := scalarEst(kind, c)
					if err != nil {
						return nil, err
					}
					ests[c] = e
				} else {
					sub := make([]stat.ScalarEstimator, 2)
					for j := range sub {
						e, err := scalarEst(kind, (c+j)%3)
						if err != nil {
							return nil, err
						}
						sub[j] = e
					}
					e, err := se.NewMixtureEstimator(nil, sub, emEpsilon, 1)
					if err != nil {
						return nil, err
					}
					ests[c] = e
				}
			}
			var lik []float64
			est, err := ve.NewHmmEstimator(vecF(pi), matF(tr), nil, nil, nil, ests, emEpsilon, steps, bwHook(&lik))
			if err != nil {
				return nil, err
			}
			est.OptimizeEmissions, est.OptimizeTransitions = o.optE(), o.optW()
			xs := make([]ad.ConstVector, n)
			for q := range xs {
				xs[q] = vecF(seqs[q])
			}
			if err := est.EstimateOnData(xs, nil, pool); err != nil {
				return nil, err
			}
			return append(lik, params(est.GetParameters())...), nil
		}
		return w
	}
}

func buildMatrixHmm(r *prng.Rand, n int, o buildOpt) *workload {
	m := 2
	lens, total := seqLens(r, n)
	X := genRows2(r, total, m)
	seqs := make([][][]float64, n)
	off := 0
	for q := range seqs {
		seqs[q] = X[off : off+lens[q]]
		off += lens[q]
	}
	pi, tr := probs(r, m), stochastic(r, m)
	steps := r.Range(1, 3)
	if o.Bad {
		X[r.Intn(total)][0] = math.Inf(1)
	}
	comp := r.Pick([]string{"normal", "translation"})
	w := &workload{Entry: "matrixEstimator.hmm", Variant: "ScalarId(" + comp + "," + comp + ")" + o.tag(), Site: "generic.hmm_baumWelch", Items: n, Terms: total * m * m, K: kEM,
		Wit: map[string]any{"states": m, "pi": pi, "tr": tr, "sequences": seqs, "steps": steps, "OptimizeEmissions": o.optE(), "OptimizeTransitions": o.optW()}}
	w.run = func(pool threadpool.ThreadPool) ([]float64, error) {
		ests := make([]stat.VectorEstimator, m)
		for c := range ests {
			e1, _ := scalarEst(comp, c)
			e2, _ := scalarEst(comp, 0)
			e, err := ve.NewScalarId(e1, e2)
			if err != nil {
				return nil, err
			}
			ests[c] = e
		}
		var lik []float64
		est, err := me.NewHmmEstimator(vecF(pi), matF(tr), nil, nil, nil, ests, emEpsilon, steps, bwHook(&lik))
		if err != nil {
			return nil, err
		}
		est.OptimizeEmissions, est.OptimizeTransitions = o.optE(), o.optW()
		xs := make([]ad.ConstMatrix, n)
		for q := range xs {
			xs[q] = matF(seqs[q])
		}
		if err := est.EstimateOnData(xs, nil, pool); err != nil {
			return nil, err
		}
		return append(lik, params(est.GetParameters())...), nil
	}
	return w
}

// shape HMM as in the repository's own test: categorical emissions over a
// window of 5 rows.
func shapeBatch(idx int) (stat.MatrixBatchEstimator, error) {
	th := [][]float64{{0.2, 0.8}, {0.7, 0.3}}[idx%2]
	c, err := se.NewCategoricalEstimator(append([]float64(nil), th...))
	if err != nil {
		return nil, err
	}
	d, err := ve.NewScalarBatchId(c)
	if err != nil {
		return nil, err
	}
	return me.NewVectorBatchId(d, d, d, d, d)
}

func genShapeSeqs(r *prng.Rand, n int) [][][]float64 {
	seqs := make([][][]float64, n)
	for q := range seqs {
		// even lengths: ShapeHmmAdapter.newObservation slides its window over
		// n - 2*(n/2) positions (n = record length), i.e. it rejects every record of
		// odd length != window size and ignores records of even length (outside C17)
		l := 2 * r.Range(4, 7)
		seqs[q] = make([][]float64, l)
		for k := range seqs[q] {
			v := 0.0
			if (k/3+q)%2 == 0 {
				v = 1
			}
			if r.Chance(0.2) {
				v = 1 - v
			}
			seqs[q][k] = []float64{v}
		}
	}
	return seqs
}

func buildShapeHmm(r *prng.Rand, n int, o buildOpt) *workload {
	seqs := genShapeSeqs(r, n)
	total := 0
	for _, s := range seqs {
		total += len(s)
	}
	pi, tr := probs(r, 2), stochastic(r, 2)
	steps := r.Range(1, 3)
	if o.Bad {
		q := r.Intn(n)
		seqs[q][len(seqs[q])/2][0] = 9 // no category: every window over it has probability zero
	}
	w := &workload{Entry: "matrixEstimator.shapeHmm", Variant: "categorical" + o.tag(), Site: "generic.hmm_baumWelch", Items: n, Terms: total * 4, K: kEM,
		Wit: map[string]any{"pi": pi, "tr": tr, "sequences": seqs, "steps": steps, "OptimizeEmissions": o.optE(), "OptimizeTransitions": o.optW()}}
	w.run = func(pool threadpool.ThreadPool) ([]float64, error) {
		b := make([]stat.MatrixBatchEstimator, 2)
		for i := range b {
			e, err := shapeBatch(i)
			if err != nil {
				return nil, err
			}
			b[i] = e
		}
		var lik []float64
		// the shape HMM estimator has no option fields: the options travel in args
		est, err := me.NewShapeHmmEstimator(vecF(pi), matF(tr), nil, b, emEpsilon, steps, bwHook(&lik),
			generic.BaumWelchOptimizeEmissions{Value: o.optE()}, generic.BaumWelchOptimizeTransitions{Value: o.optW()})
		if err != nil {
			return nil, err
		}
		xs := make([]ad.ConstMatrix, n)
		for q := range xs {
			xs[q] = matF(seqs[q])
		}
		if err := est.EstimateOnData(xs, nil, pool); err != nil {
			return nil, err
		}
		return append(lik, params(est.GetParameters())...), nil
	}
	return w
}

/* EvaluateLogPdf of the data sets (batch evaluation, no reduction: the
 * table of log densities must be identical)
 * -------------------------------------------------------------------------- */

func readTable(k, n int, get func(res ad.Scalar, c, i int) error) ([]float64, error) {
	res := ad.NewFloat64(0.0)
	out := make([]float64, 0, k*n)
	for c := 0; c < k; c++ {
		for i := 0; i < n; i++ {
			if err := get(res, c, i); err != nil {
				return nil, err
			}
			out = append(out, res.GetFloat64())
		}
	}
	return out, nil
}

func buildEvalScalarMixtureData(summarized bool) func(r *prng.Rand, n int, o buildOpt) *workload {
	return func(r *prng.Rand, n int, o buildOpt) *workload {
		kind := r.Pick(tableKinds([]string{"normal", "poisson", "categorical"}))
		if summarized {
			kind = r.Pick(tableKinds([]string{"poisson", "categorical", "poisson", "categorical"}))
		}
		if o.Kind != "" {
			kind = o.Kind
		}
		k := r.Range(2, 3)
		x := scalarData(r, kind, n, k)
		if o.Bad {
			x[r.Intn(n)] = badValue(r, kind)
		}
		name, site := "scalarEstimator.MixtureStdDataSet.EvaluateLogPdf", "scalarEstimator.mixture_data"
		if summarized {
			name = "scalarEstimator.MixtureSummarizedDataSet.EvaluateLogPdf"
		}
		w := &workload{Entry: name, Variant: kind + o.tag(), Site: site, Items: n, Terms: 1, Exact: true,
			Wit: map[string]any{"family": kind, "components": k, "x": x}}
		if summarized {
			seen := map[float64]bool{}
			for _, v := range x {
				seen[v] = true
			}
			w.Items = len(seen)
		}
		w.run = func(pool threadpool.ThreadPool) ([]float64, error) {
			ed := make([]stat.ScalarPdf, k)
			for i := range ed {
				d, err := scalarPdf(kind, i)
				if err != nil {
					return nil, err
				}
				ed[i] = d
			}
			var ds se.MixtureDataSet
			var err error
			if summarized {
				ds, err = se.NewMixtureSummarizedDataSet(ad.Float64Type, vecF(x), k)
			} else {
				ds, err = se.NewMixtureStdDataSet(ad.Float64Type, vecF(x), k)
			}
			if err != nil {
				return nil, err
			}
			if err := ds.EvaluateLogPdf(ed, pool); err != nil {
				return nil, err
			}
			return readTable(k, ds.GetN(), ds.LogPdf)
		}
		return w
	}
}

// vectorPdf: product densities over rows of dimension 2; comp selects the
// scalar family, wrap the vector wrapper (ScalarId / ScalarIid).
func vectorPdf(idx int, comp, wrap string) (stat.VectorPdf, error) {
	d1, err := scalarPdf(comp, idx)
	if err != nil {
		return nil, err
	}
	if wrap == "ScalarIid" {
		return vd.NewScalarIid(d1, 2)
	}
	d2, err := scalarPdf(comp, 0)
	if err != nil {
		return nil, err
	}
	return vd.NewScalarId(d1, d2)
}

func scalarIdPdf(idx int) (stat.VectorPdf, error) { return vectorPdf(idx, "normal", "ScalarId") }

func buildEvalVectorMixtureData(r *prng.Rand, n int, o buildOpt) *workload {
	k := r.Range(2, 3)
	X := genRows2(r, n, k)
	if o.Bad {
		X[r.Intn(n)][0] = math.Inf(1)
	}
	comp, wrap := r.Pick([]string{"normal", "translation", "laplace", "cauchy"}), r.Pick([]string{"ScalarId", "ScalarIid"})
	w := &workload{Entry: "vectorEstimator.MixtureStdDataSet.EvaluateLogPdf", Variant: wrap + "(" + comp + ")" + o.tag(), Site: "vectorEstimator.mixture_data", Items: n, Terms: 1, Exact: true,
		Wit: map[string]any{"components": k, "x": X}}
	w.run = func(pool threadpool.ThreadPool) ([]float64, error) {
		ed := make([]stat.VectorPdf, k)
		for i := range ed {
			d, err := vectorPdf(i, comp, wrap)
			if err != nil {
				return nil, err
			}
			ed[i] = d
		}
		ds, err := ve.NewMixtureStdDataSet(ad.Float64Type, rowsOf(X), k)
		if err != nil {
			return nil, err
		}
		if err := ds.EvaluateLogPdf(ed, pool); err != nil {
			return nil, err
		}
		return readTable(k, ds.GetN(), ds.LogPdf)
	}
	return w
}

func buildEvalMatrixMixtureData(r *prng.Rand, n int, o buildOpt) *workload {
	k := 2
	M := genMats(r, n, k)
	if o.Bad {
		M[r.Intn(n)][0][0] = math.Inf(1)
	}
	comp, wrap := r.Pick([]string{"normal", "translation", "laplace"}), r.Pick([]string{"VectorId", "VectorIid"})
	w := &workload{Entry: "matrixEstimator.MixtureStdDataSet.EvaluateLogPdf", Variant: wrap + "(" + comp + ")" + o.tag(), Site: "matrixEstimator.mixture_data", Items: n, Terms: 1, Exact: true,
		Wit: map[string]any{"components": k, "x": M}}
	w.run = func(pool threadpool.ThreadPool) ([]float64, error) {
		ed := make([]stat.MatrixPdf, k)
		for i := range ed {
			v1, err := vectorPdf(i, comp, "ScalarId")
			if err != nil {
				return nil, err
			}
			var d stat.MatrixPdf
			if wrap == "VectorIid" {
				d, err = md.NewVectorIid(v1, 2)
			} else {
				var v2 stat.VectorPdf
				if v2, err = vectorPdf(i+1, comp, "ScalarId"); err == nil {
					d, err = md.NewVectorId(v1, v2)
				}
			}
			if err != nil {
				return nil, err
			}
			ed[i] = d
		}
		ds, err := me.NewMixtureStdDataSet(ad.Float64Type, matsOf(M), k)
		if err != nil {
			return nil, err
		}
		if err := ds.EvaluateLogPdf(ed, pool); err != nil {
			return nil, err
		}
		return readTable(k, ds.GetN(), ds.LogPdf)
	}
	return w
}

// readHmmTable reads the emission table through the records.
func readHmmTable(k int, ds generic.HmmDataSet) ([]float64, error) {
	res := ad.NewFloat64(0.0)
	var out []float64
	for q := 0; q < ds.GetNRecords(); q++ {
		rec := ds.GetRecord(q)
		for c := 0; c < k; c++ {
			for i := 0; i < rec.GetN(); i++ {
				if err := rec.LogPdf(res, c, i); err != nil {
					return nil, err
				}
				out = append(out, res.GetFloat64())
			}
		}
	}
	return out, nil
}

// here the jobs are the observations: n observations in 1..3 records.
func buildEvalVectorHmmData(summarized bool) func(r *prng.Rand, n int, o buildOpt) *workload {
	return func(r *prng.Rand, n int, o buildOpt) *workload {
		kind := r.Pick(tableKinds([]string{"normal", "poisson", "categorical"}))
		if summarized {
			kind = r.Pick(tableKinds([]string{"poisson", "categorical", "poisson", "categorical"}))
		}
		if o.Kind != "" {
			kind = o.Kind
		}
		k := r.Range(2, 3)
		x := scalarData(r, kind, n, k)
		if o.Bad {
			x[r.Intn(n)] = badValue(r, kind)
		}
		nrec := r.Range(1, 3)
		if nrec > n {
			nrec = n
		}
		seqs := make([][]float64, nrec)
		for q := range seqs {
			seqs[q] = x[q*n/nrec : (q+1)*n/nrec]
		}
		name := "vectorEstimator.HmmStdDataSet.EvaluateLogPdf"
		items := n
		if summarized {
			name = "vectorEstimator.HmmSummarizedDataSet.EvaluateLogPdf"
			seen := map[float64]bool{}
			for _, v := range x {
				seen[v] = true
			}
			items = len(seen)
		}
		w := &workload{Entry: name, Variant: kind + o.tag(), Site: "vectorEstimator.hmm_data", Items: items, Terms: 1, Exact: true,
			Wit: map[string]any{"family": kind, "emissions": k, "sequences": seqs}}
		w.run = func(pool threadpool.ThreadPool) ([]float64, error) {
			ed := make([]stat.ScalarPdf, k)
			for i := range ed {
				d, err := scalarPdf(kind, i)
				if err != nil {
					return nil, err
				}
				ed[i] = d
			}
			var ds ve.HmmDataSet
			var err error
			if summarized {
				xs := make([]ad.Vector, nrec)
				for q := range xs {
					xs[q] = vecF(seqs[q])
				}
				ds, err = ve.NewHmmSummarizedDataSet(ad.Float64Type, xs, k)
			} else {
				xs := make([]ad.ConstVector, nrec)
				for q := range xs {
					xs[q] = vecF(seqs[q])
				}
				ds, err = ve.NewHmmStdDataSet(ad.Float64Type, xs, k)
			}
			if err != nil {
				return nil, err
			}
			if err := ds.EvaluateLogPdf(ed, pool); err != nil {
				return nil, err
			}
			return readHmmTable(k, ds)
		}
		return w
	}
}

func buildEvalMatrixHmmData(r *prng.Rand, n int, o buildOpt) *workload {
	k := 2
	X := genRows2(r, n, k)
	if o.Bad {
		X[r.Intn(n)][0] = math.Inf(1)
	}
	nrec := r.Range(1, 3)
	if nrec > n {
		nrec = n
	}
	seqs := make([][][]float64, nrec)
	for q := range seqs {
		seqs[q] = X[q*n/nrec : (q+1)*n/nrec]
	}
	comp, wrap := r.Pick([]string{"normal", "translation", "laplace", "cauchy"}), r.Pick([]string{"ScalarId", "ScalarIid"})
	w := &workload{Entry: "matrixEstimator.HmmStdDataSet.EvaluateLogPdf", Variant: wrap + "(" + comp + ")" + o.tag(), Site: "matrixEstimator.hmm_data", Items: n, Terms: 1, Exact: true,
		Wit: map[string]any{"emissions": k, "sequences": seqs}}
	w.run = func(pool threadpool.ThreadPool) ([]float64, error) {
		ed := make([]stat.VectorPdf, k)
		for i := range ed {
			d, err := vectorPdf(i, comp, wrap)
			if err != nil {
				return nil, err
			}
			ed[i] = d
		}
		xs := make([]ad.ConstMatrix, nrec)
		for q := range xs {
			xs[q] = matF(seqs[q])
		}
		ds, err := me.NewHmmStdDataSet(ad.Float64Type, xs, k)
		if err != nil {
			return nil, err
		}
		if err := ds.EvaluateLogPdf(ed, pool); err != nil {
			return nil, err
		}
		return readHmmTable(k, ds)
	}
	return w
}

// shape data set: one record of n+5 rows gives n window positions (jobs).
func buildEvalShapeData(r *prng.Rand, n int, o buildOpt) *workload {
	seq := make([][]float64, n+5)
	for i := range seq {
		v := 0.0
		if r.Bool() {
			v = 1
		}
		seq[i] = []float64{v}
	}
	if o.Bad {
		seq[len(seq)/2][0] = 9
	}
	w := &workload{Entry: "matrixEstimator.ShapeHmmDataSet.EvaluateLogPdf", Variant: "categorical" + o.tag(), Site: "matrixEstimator.shapeHmm_data", Items: n, Terms: 1, Exact: true,
		Wit: map[string]any{"sequence": seq}}
	w.run = func(pool threadpool.ThreadPool) ([]float64, error) {
		ed := make([]stat.MatrixPdf, 2)
		for i := range ed {
			b, err := shapeBatch(i)
			if err != nil {
				return nil, err
			}
			d, err := b.GetEstimate()
			if err != nil {
				return nil, err
			}
			ed[i] = d
		}
		ds, err := me.NewShapeHmmDataSet(ad.Float64Type, []ad.ConstMatrix{matF(seq)}, 2)
		if err != nil {
			return nil, err
		}
		if err := ds.EvaluateLogPdf(ed, pool); err != nil {
			return nil, err
		}
		return readHmmTable(2, ds)
	}
	return w
}

/* numeric estimator
 * -------------------------------------------------------------------------- */

// The objective handed to the optimiser is the parallel reduction; the
// Hook sees (variables, sum) of every evaluation.  Output layout: for every
// evaluation [marker, #variables, #derivatives, order, variables..., value, gradient..., hessian...], then [marker, final
// parameters; compare() aligns evaluations whose variables are bit-identical.
func buildNumeric(r *prng.Rand, n int, o buildOpt) *workload {
	kind := r.Pick([]string{"normal", "gamma"})
	var x []float64
	var init []float64
	if o.Bad {
		// Poisson density: a non-integer observation makes LogPdf return an error
		kind = "poisson"
		x = genCounts(r, n, 1)
		x[r.Intn(n)] = 3.5
		init = []float64{3.0}
	} else if kind == "normal" {
		x = genReal(r, n)
		init = []float64{0.3, 1.5}
	} else {
		x = genPositive(r, n)
		init = []float64{2.0, 1.5}
	}
	var gamma []float64
	variant := kind + ",unweighted"
	if r.Bool() {
		gamma = genGamma(r, n)
		variant = kind + ",weighted"
	}
	if o.Bad {
		variant = kind // one cell for the error path
	}
	variant += o.tag()
	w := &workload{Entry: "scalarEstimator.numeric", Variant: variant, Site: "scalarEstimator.numeric", Items: n, Terms: n, K: kClosed,
		Wit: map[string]any{"pdf": kind, "x": x, "gamma": gamma, "init": init}}
	w.run = func(pool threadpool.ThreadPool) ([]float64, error) {
		var pdf stat.ScalarPdf
		var err error
		if kind == "poisson" {
			pdf, err = sd.NewPoissonDistribution(ad.NewFloat64(init[0]))
		} else if kind == "normal" {
			pdf, err = sd.NewNormalDistribution(ad.NewFloat64(init[0]), ad.NewFloat64(init[1]))
		} else {
			pdf, err = sd.NewGammaDistribution(ad.NewFloat64(init[0]), ad.NewFloat64(init[1]))
		}
		if err != nil {
			return nil, err
		}
		est, err := se.NewNumericEstimator(pdf)
		if err != nil {
			return nil, err
		}
		est.Method = "newton"
		est.Epsilon = 1e-13
		est.MaxIterations = 3
		var out []float64
		est.Hook = func(variables ad.ConstVector, s ad.ConstScalar) error {
			d := s.GetN()
			out = append(out, math.Float64frombits(0x7ff8000000c0ffee)) // evaluation marker (NaN payload)
			out = append(out, float64(variables.Dim()), float64(d), float64(s.GetOrder()))
			out = append(out, params(variables)...)
			out = append(out, s.GetFloat64())
			if s.GetOrder() >= 1 {
				for i := 0; i < d; i++ {
					out = append(out, s.GetDerivative(i))
				}
			}
			if s.GetOrder() >= 2 {
				for i := 0; i < d; i++ {
					for j := 0; j < d; j++ {
						out = append(out, s.GetHessian(i, j))
					}
				}
			}
			return nil
		}
		if err := est.EstimateOnData(vecF(x), gammaVec(gamma), pool); err != nil {
			return nil, err
		}
		out = append(out, math.Float64frombits(0x7ff8000000c0ffee))
		return append(out, params(est.GetParameters())...), nil
	}
	return w
}

/* logistic regression
 * -------------------------------------------------------------------------- */

// Sparse logistic regression with L1 penalty is the configuration that uses
// the pool (parallel SAGA: one worker per thread on its own sample of the
// data, parameters combined by the median after every epoch).  With k > 1
// threads this is by design another estimator than the sequential one, so
// the monitor demands (a) pool of one thread == sequential, (b) for a fixed
// pool size the result does not depend on the schedule.
func buildLogistic(r *prng.Rand, n int, o buildOpt) *workload {
	d := 3
	rows := make([][]float64, n)
	for i := range rows {
		rows[i] = make([]float64, d+2)
		rows[i][0] = 1
		s := 0.0
		for j := 1; j <= d; j++ {
			if r.Chance(0.7) {
				rows[i][j] = math.Round(r.Uniform(-2, 2)*8) / 8
			}
			s += rows[i][j] * float64(j)
		}
		if s+r.Uniform(-1, 1) > 0 {
			rows[i][d+1] = 1
		}
	}
	epochs := r.Range(2, 6)
	seed := int64(r.Intn(1000))
	w := &workload{Entry: "vectorEstimator.logisticRegression", Variant: "sparse,L1", Site: "vectorEstimator.logisticRegression", Items: n, Terms: n * epochs, K: kEM, ScheduleOnly: true,
		Wit: map[string]any{"rows": rows, "epochs": epochs, "seed": seed}}
	w.run = func(pool threadpool.ThreadPool) ([]float64, error) {
		est, err := ve.NewLogisticRegression(d+1, true)
		if err != nil {
			return nil, err
		}
		est.L1Reg = 0.5
		est.Epsilon = 0
		est.MaxIterations = epochs
		est.Seed = seed
		xs := make([]ad.ConstVector, n)
		for i := range xs {
			xs[i] = ad.AsSparseConstFloat64Vector(vecF(rows[i]))
		}
		if err := est.EstimateOnData(xs, nil, pool); err != nil {
			return nil, err
		}
		return params(est.GetParameters()), nil
	}
	return w
}

/* the table
 * -------------------------------------------------------------------------- */

var entries = []entryDef{
	{Name: "scalarEstimator.normal", build: buildClosedScalar("normal")},
	{Name: "scalarEstimator.poisson", build: buildClosedScalar("poisson")},
	{Name: "scalarEstimator.exponential", build: buildClosedScalar("exponential")},
	{Name: "scalarEstimator.geometric", build: buildClosedScalar("geometric")},
	{Name: "scalarEstimator.negativeBinomial", build: buildClosedScalar("negativeBinomial")},
	{Name: "scalarEstimator.categorical", build: buildClosedScalar("categorical")},
	{Name: "scalarEstimator.logTransform", build: buildClosedScalar("logTransform"), Big: 3},
	{Name: "scalarEstimator.translation", build: buildClosedScalar("translation"), Big: 3},
	{Name: "vectorEstimator.normal", build: buildVectorNormal},
	{Name: "vectorEstimator.scalarId", build: buildScalarId},
	{Name: "vectorEstimator.scalarIid", build: buildScalarIid},
	{Name: "matrixEstimator.vectorId", build: buildVectorId},
	{Name: "scalarEstimator.mixture", build: buildScalarMixture(false), CanFail: true, NOpt: 3, Big: 3},
	{Name: "scalarEstimator.mixture_discrete", build: buildScalarMixture(true), CanFail: true, NOpt: 3},
	{Name: "vectorEstimator.mixture", build: buildVectorMixture, CanFail: true, NOpt: 3, Big: 3},
	{Name: "matrixEstimator.mixture", build: buildMatrixMixture, CanFail: true, NOpt: 3},
	{Name: "vectorEstimator.hmm", build: buildVectorHmm(false), CanFail: true, NOpt: 3},
	{Name: "vectorEstimator.hmm(mixture-emissions)", build: buildVectorHmm(true), CanFail: true, NOpt: 3},
	{Name: "matrixEstimator.hmm", build: buildMatrixHmm, CanFail: true, NOpt: 3},
	{Name: "matrixEstimator.shapeHmm", build: buildShapeHmm, CanFail: true, NOpt: 3},
	{Name: "scalarEstimator.MixtureStdDataSet.EvaluateLogPdf", build: buildEvalScalarMixtureData(false), CanFail: true, Big: 8},
	{Name: "scalarEstimator.MixtureSummarizedDataSet.EvaluateLogPdf", build: buildEvalScalarMixtureData(true), CanFail: true, Big: 8},
	{Name: "vectorEstimator.MixtureStdDataSet.EvaluateLogPdf", build: buildEvalVectorMixtureData, CanFail: true, Big: 8},
	{Name: "matrixEstimator.MixtureStdDataSet.EvaluateLogPdf", build: buildEvalMatrixMixtureData, CanFail: true, Big: 8},
	{Name: "vectorEstimator.HmmStdDataSet.EvaluateLogPdf", build: buildEvalVectorHmmData(false), CanFail: true, Big: 8},
	{Name: "vectorEstimator.HmmSummarizedDataSet.EvaluateLogPdf", build: buildEvalVectorHmmData(true), CanFail: true, Big: 8},
	{Name: "matrixEstimator.HmmStdDataSet.EvaluateLogPdf", build: buildEvalMatrixHmmData, CanFail: true, Big: 8},
	{Name: "matrixEstimator.ShapeHmmDataSet.EvaluateLogPdf", build: buildEvalShapeData, CanFail: true, Big: 8},
	{Name: "scalarEstimator.numeric", build: buildNumeric, CanFail: true},
	{Name: "vectorEstimator.logisticRegression", build: buildLogistic},
}
