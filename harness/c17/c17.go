package c17

import (
	"crypto/sha1"
	"encoding/hex"
	"fmt"
	"math"
	"os"
	"sort"
	"strings"
	"syscall"

	"verifharness/internal/fw"
	"verifharness/internal/prng"
)

var poolSizes = []int{1, 2, 3, 4, 8, 17}
var bufSizes = []int{1, 100}
var partitions = []string{"fewer", "equal", "more"}

const eps = 2.220446049250313e-16

// raceMode: race build (or VERIF_RACE=1): reduced case list, one repetition,
// no Event hook (see hooks.go).
func raceMode() bool { return raceEnabled || os.Getenv("VERIF_RACE") == "1" }

// reexecForRace: the race binary needs GORACE with (a) log_path, so that the
// driver finds the reports in <rundir>/race.<pid> (missing when the driver
// replays a race finding), and (b) exitcode=0: the detector's default exit
// status 66 after a report would make the driver count a shard that completed
// as a lost worker.  If one of them is missing the worker re-executes itself
// (same pid) with the completed setting.
func reexecForRace() {
	if !raceEnabled {
		return
	}
	g := os.Getenv("GORACE")
	hasLog, hasExit := strings.Contains(g, "log_path"), strings.Contains(g, "exitcode")
	if hasLog && hasExit {
		return
	}
	if !hasLog {
		wd, err := os.Getwd()
		if err != nil {
			return
		}
		g = strings.TrimSpace("halt_on_error=0 log_path=" + wd + "/race " + g)
	}
	if !hasExit {
		g += " exitcode=0"
	}
	env := []string{}
	for _, e := range os.Environ() {
		if !strings.HasPrefix(e, "GORACE=") {
			env = append(env, e)
		}
	}
	env = append(env, "GORACE="+g)
	exe, err := os.Executable()
	if err != nil {
		return
	}
	syscall.Exec(exe, os.Args, env)
}

// raceCanary is a deliberate data race inside the harness, executed once per
// race worker: its report proves that the detector, the log path and the
// driver's collection work even when the library is race free
// (driver/oracles/c17_race.py counts it as "race canary" and does not charge it).
func raceCanary() {
	x := 0
	done := make(chan bool)
	go func() {
		x = 1
		done <- true
	}()
	x = 2
	<-done
	_ = x
}

func Run(c *fw.Ctx) {
	reexecForRace()
	if raceEnabled {
		raceCanary()
	}
	installHooks()
	reps := c.N(6, 10)
	if raceMode() {
		reps = c.N(2, 3)
	}
	nGrid := len(entries) * len(poolSizes) * len(bufSizes) * len(partitions)
	// directed: the full grid entry point x pool size x buffer size x partition
	c.Cases("grid", nGrid, func(cs *fw.Case) {
		if skipInRaceMode(cs) {
			return
		}
		i := cs.Index
		part := partitions[i%len(partitions)]
		i /= len(partitions)
		buf := bufSizes[i%len(bufSizes)]
		i /= len(bufSizes)
		T := poolSizes[i%len(poolSizes)]
		i /= len(poolSizes)
		runCase(cs, entries[i], buildOpt{}, T, buf, part, reps)
	})
	smallReps := (reps + 1) / 2
	errReps := smallReps
	if errReps < 3 {
		errReps = 3 // a lost error is charged only when it is lost in every repetition (see runCase)
	}
	// error path: an observation on which the density evaluation fails; the
	// outcome (error or nil, outputs) must not depend on the pool
	var failing, withOpts []entryDef
	for _, e := range entries {
		if e.CanFail {
			failing = append(failing, e)
		}
		if e.NOpt > 0 {
			withOpts = append(withOpts, e)
		}
	}
	perEntry := len(poolSizes) * len(bufSizes) * len(partitions)
	c.Cases("errors", len(failing)*perEntry, func(cs *fw.Case) {
		if skipInRaceMode(cs) {
			return
		}
		T, buf, part, i := gridCell(cs.Index)
		runCase(cs, failing[i], buildOpt{Bad: true}, T, buf, part, errReps)
	})
	// every scalar density type (all carry scratch state and are cloned per
	// thread by the data sets; wrappers PdfTranslation / PdfLogTransform / Mixture
	// included) through the four scalar data-set entry points, many observations
	// per job
	var tables []entryDef
	for _, e := range entries {
		if strings.HasPrefix(e.Name, "scalarEstimator.Mixture") && strings.HasSuffix(e.Name, "EvaluateLogPdf") ||
			strings.HasPrefix(e.Name, "vectorEstimator.Hmm") && strings.HasSuffix(e.Name, "EvaluateLogPdf") {
			tables = append(tables, e)
		}
	}
	kinds := tableKinds([]string{"normal", "poisson", "categorical"})
	dPools := []int{2, 4, 17}
	c.Cases("densities", len(kinds)*len(tables)*len(dPools), func(cs *fw.Case) {
		if skipInRaceMode(cs) {
			return
		}
		i := cs.Index
		T := dPools[i%len(dPools)]
		i /= len(dPools)
		e := tables[i%len(tables)]
		kind := kinds[i/len(tables)]
		cs.Cover("density:" + kind)
		runCase(cs, e, buildOpt{Kind: kind}, T, 100, "more", smallReps)
	})
	// option combinations of the EM / Baum-Welch entry points (OptimizeEmissions,
	// OptimizeWeights / OptimizeTransitions switched off) over the same grid
	c.Cases("options", len(withOpts)*3*perEntry, func(cs *fw.Case) {
		if skipInRaceMode(cs) {
			return
		}
		T, buf, part, i := gridCell(cs.Index)
		runCase(cs, withOpts[i/3], buildOpt{Opt: 1 + i%3}, T, buf, part, smallReps)
	})
	// seeded: random entry point, pool size (also sizes between the listed ones),
	// buffer size, partition
	c.Cases("random", c.N(1920, 60000), func(cs *fw.Case) {
		if skipInRaceMode(cs) {
			return
		}
		r := cs.R
		def := entries[r.Intn(len(entries))]
		T := poolSizes[r.Intn(len(poolSizes))]
		if r.Chance(0.3) {
			T = r.Range(2, 20)
		}
		buf := r.PickI([]int{1, 1, 2, 5, 100})
		part := r.Pick(partitions)
		var o buildOpt
		if def.NOpt > 0 && r.Chance(0.4) {
			o.Opt = r.Range(1, def.NOpt)
		}
		if def.CanFail && r.Chance(0.15) {
			o.Bad = true
		}
		runCase(cs, def, o, T, buf, part, reps+1)
	})
}

// gridCell decodes pool size, buffer size, partition and the remaining index.
func gridCell(i int) (T, buf int, part string, rest int) {
	part = partitions[i%len(partitions)]
	i /= len(partitions)
	buf = bufSizes[i%len(bufSizes)]
	i /= len(bufSizes)
	T = poolSizes[i%len(poolSizes)]
	return T, buf, part, i / len(poolSizes)
}

// skipInRaceMode keeps one case in two under the race detector (the case
// list itself is identical in both builds, so that a case id means the same
// case everywhere).  A replay (--only) always runs.
func skipInRaceMode(cs *fw.Case) bool {
	if !raceMode() || cs.C.Only != "" {
		return false
	}
	if mix64(cs.C.Seed*0x9E3779B97F4A7C15^uint64(cs.Index))%2 != 0 {
		cs.Skip("race-tier-reduced")
		return true
	}
	return false
}

func pickN(r *prng.Rand, T int, part string, big int) int {
	switch part {
	case "fewer":
		if T <= 1 {
			return 1
		}
		return r.Range(1, T-1)
	case "equal":
		return T
	}
	if big > 0 && r.Bool() {
		// many observations per job: two threads evaluate densities at the same time
		return T * r.Range(big, 3*big)
	}
	return T + r.Range(1, 2*T+6)
}

func relation(items, T int) string {
	switch {
	case items < T:
		return "jobs<threads"
	case items == T:
		return "jobs=threads"
	}
	return "jobs>threads"
}

func hashOf(parts ...any) string {
	h := sha1.New()
	for _, p := range parts {
		fmt.Fprintf(h, "%v|", p)
	}
	return hex.EncodeToString(h.Sum(nil))[:12]
}

func runCase(cs *fw.Case, def entryDef, opt buildOpt, T, buf int, part string, reps int) {
	if f := os.Getenv("VERIF_C17_ENTRY"); f != "" && f != def.Name {
		cs.Skip("filtered") // debugging aid: restrict a run to one entry point
		return
	}
	if k := os.Getenv("VERIF_C17_REPS"); k != "" {
		fmt.Sscan(k, &reps)
	}
	r := cs.R
	n := pickN(r, T, part, def.Big)
	w := def.build(r, n, opt)
	w.Entry = def.Name
	if opt.Bad {
		cs.Cover("error-path:cases")
	}
	if opt.Opt > 0 {
		cs.Cover("options:" + strings.TrimPrefix(buildOpt{Opt: opt.Opt}.tag(), ","))
		cs.Cover("set:option cells:" + fmt.Sprintf("%s|%d|%d|%d|%s", def.Name, opt.Opt, T, buf, relation(w.Items, T)))
	}
	rel := relation(w.Items, T)
	poolClass := "pool=1"
	if T > 1 {
		poolClass = "pool>1"
	}
	cfg := fmt.Sprintf("pool=%d,buf=%d,items=%d", T, buf, w.Items)
	sigBase := fmt.Sprintf("C17|%s|%s|%s,%s", w.Entry, w.Variant, poolClass, rel)
	if opt.Bad {
		// error path: the relation of jobs and threads is not part of the cell
		sigBase = fmt.Sprintf("C17|%s|%s|%s", w.Entry, w.Variant, poolClass)
		if reps < 3 {
			reps = 3
		}
	}
	wit := map[string]any{"entry": w.Entry, "variant": w.Variant, "pool": T, "buf": buf, "items": w.Items, "workload": w.Wit}
	cs.Cover("entry:" + w.Entry)
	cs.Cover(fmt.Sprintf("pool:%d", T))
	cs.Cover(fmt.Sprintf("buf:%d", buf))
	cs.Cover("partition:" + rel)
	cs.Cover("set:cells:" + fmt.Sprintf("%s|%d|%d|%s", w.Entry, T, buf, rel))

	// sequential reference: zero-value pool
	seq := runCall(w, 0, 0, plan{Mode: "none"})
	cs.Cover("calls:sequential")
	if seq.Deadlock || seq.Abandoned {
		cs.Skip("watchdog-inconclusive")
		return
	}
	if seq.Panic != nil {
		cs.Cover("reference-panic:" + w.Entry)
		cs.Skip("reference-panic")
		cs.C.Data(map[string]any{"kind": "reference-failure", "entry": w.Entry, "panic": seq.Panic.Msg, "frame": seq.Panic.Frame, "stack": seq.Panic.Stack})
		return
	}
	if seq.Err != nil && !opt.Bad {
		cs.Cover("reference-error:" + w.Entry)
		cs.Skip("reference-error")
		cs.C.Data(map[string]any{"kind": "reference-failure", "entry": w.Entry, "error": seq.Err.Error()})
		return
	}
	if opt.Bad {
		// error path: the sequential outcome (error / nil + outputs) is the reference
		if seq.Err != nil {
			cs.Cover("error-path:sequential run reports the error")
			cs.Cover("error-path:reports the error:" + w.Entry)
			wit["sequential_error"] = seq.Err.Error()
		} else {
			cs.Cover("error-path:sequential run returns nil")
			cs.Cover("error-path:returns nil:" + w.Entry)
		}
	}
	wit["sequential"] = hexFloats(seq.Out)
	seqCount := countEvents(seq.Events)

	if deadlocks[w.Entry] >= 2 {
		// every verdict costs idleWall and leaves blocked goroutines behind
		cs.Skip("after-deadlock")
		return
	}
	// error path: number of repetitions in which the error of the sequential
	// run was (not) returned by the parallel run
	errLost, errKept, errLostPlan := 0, 0, ""
	var first *callResult // first parallel repetition (schedule-only entries)
	judged := false
	multi := false
	for rep := 0; rep < reps; rep++ {
		pl := plan{Mode: planModes[r.Intn(len(planModes))], Seed: r.Uint64(), P: 0.2 + 0.6*r.Float64()}
		if rep == 0 && cs.Monitor == "grid" {
			// the grid visits every mode in turn
			pl.Mode = planModes[cs.Index%len(planModes)]
		}
		if T == 1 {
			pl.Mode = "none"
		}
		par := runCall(w, T, buf, pl)
		cs.Cover("calls:parallel")
		if raceEnabled {
			cs.Cover("calls:parallel under the race detector")
		}
		cs.Cover("plan:" + pl.Mode)
		cs.C.CoverMax("max:yield-hooks-per-call", par.Yields)
		wit["plan"] = pl
		if par.Deadlock {
			deadlocks[w.Entry]++
			cs.Violation(sigBase+"|deadlock", "no event for "+idleWall.String()+" at < 0.5 s CPU and every goroutine of the call is blocked ("+cfg+", plan "+pl.Mode+"): "+par.Dump, wit)
			return
		}
		if par.Abandoned {
			cs.Skip("watchdog-inconclusive")
			return
		}
		if par.Races > 0 {
			// attribution of race reports to the case (driver/oracles/c17_race.py)
			cs.C.Data(map[string]any{"kind": "race-attrib", "pid": os.Getpid(), "reports_after": raceErrors(), "reports_new": par.Races, "entry": w.Entry, "cfg": cfg})
			cs.Cover("race-reports-in-process")
		}
		if par.Panic != nil && seq.Err != nil {
			// error path: the run can only have come this far because the error was
			// not returned; judged with the lost errors below
			errLost++
			errLostPlan = pl.Mode + " (then panic: " + par.Panic.Msg + ")"
			continue
		}
		if par.Panic != nil {
			cs.Violation(sigBase+"|panic", "panic in the parallel run only ("+cfg+"): "+par.Panic.Msg+"\n"+par.Panic.Stack, wit)
			continue
		}
		if seq.Err != nil && par.Err == nil {
			// judged after the loop: see errLost below
			errLost++
			errLostPlan = pl.Mode
			wit["parallel"] = hexFloats(par.Out)
			continue
		}
		if seq.Err != nil {
			errKept++
		}
		if seq.Err == nil && par.Err != nil {
			cs.Violation(sigBase+"|error-mismatch", fmt.Sprintf("sequential run succeeded, parallel run (%s, plan %s) returned error: %v", cfg, pl.Mode, par.Err), wit)
			continue
		}
		judged = true
		if seq.Err != nil {
			// both report the error; no outputs to compare
			cs.Cover("error-path:parallel run reports the error too")
			if !raceEnabled {
				if judgeEvents(cs, w, T, sigBase, cfg, pl, nil, par, wit) {
					multi = true
				}
			} else if T > 1 {
				multi = true
			}
			continue
		}
		// (1) differential
		ref, refName := seq.Out, "sequential run"
		if w.ScheduleOnly && T > 1 {
			if first == nil {
				first = par
				cs.C.CoverMax("max:logisticRegression rel.diff vs sequential (1e-6 units, not judged)", int64(math.Min(1e12, 1e6*maxRelDiff(seq.Out, par.Out))))
			}
			ref, refName = first.Out, "first repetition at the same pool size"
		}
		ok, detail, ratio := compare(w, ref, par.Out)
		cs.Cover("outputs-compared:" + kindOf(w))
		if !w.Exact && ratio > 32 {
			// where the allowance is actually used (evidence for the choice of K)
			cs.C.Data(map[string]any{"kind": "reassoc-outlier", "entry": w.Entry, "variant": w.Variant, "ratio": ratio, "K": w.K, "terms": w.Terms, "cfg": cfg})
		}
		if !w.Exact {
			cs.C.CoverMax("max:observed |diff|/(terms*eps*scale):"+kindOf(w), int64(math.Ceil(ratio)))
		}
		if !ok {
			kind := "mismatch"
			if w.ScheduleOnly && T > 1 {
				kind = "schedule-dependent"
			}
			wit["parallel"] = hexFloats(par.Out)
			cs.Violation(sigBase+"|"+kind, fmt.Sprintf("%s, plan %s: differs from the %s: %s", cfg, pl.Mode, refName, detail), wit)
		}
		// (2) exactly-once / ownership
		if !raceEnabled {
			sc := seqCount
			if opt.Bad {
				sc = nil // a failing item ends its chunk: which items run depends on the chunking
			}
			if judgeEvents(cs, w, T, sigBase, cfg, pl, sc, par, wit) {
				multi = true
			}
		} else if T > 1 {
			multi = true
		}
	}
	if errLost > 0 {
		// The thread pool dependency itself loses a job error now and then: its
		// job wrapper calls wg.Done() (deferred) before the worker stores the
		// error with setError, so Wait can return between the two (8 of 12e6 runs
		// of a program that uses nothing but threadpool@0302c226b91e; more often
		// under the perturbation plans).  Like a race report inside the dependency
		// this is counted, not charged.  A library that drops the error (does not
		// look at the result of Wait) loses it in every repetition: charged when
		// no repetition of >= 3 returned the error.
		if errKept == 0 && errLost >= 3 {
			cs.Violation(sigBase+"|error-lost", fmt.Sprintf("sequential run returned the error `%v'; the parallel run (%s) returned nil in all %d repetitions (last plan %s): the error raised in a job is lost", seq.Err, cfg, errLost, errLostPlan), wit)
		} else {
			cs.C.Cover("dependency: job error lost by the thread pool in some repetitions (Done before setError; counted, not charged)", int64(errLost))
			cs.C.Data(map[string]any{"kind": "sporadic-error-loss", "entry": w.Entry, "variant": w.Variant, "cfg": cfg, "lost": errLost, "kept": errKept})
		}
	}
	if judged && cs.Violations() == 0 && T > 1 && multi {
		cs.Nontrivial(w.Entry, w.Variant, T, buf, w.Items, hashOf(w.Wit))
	}
	cs.Sample(map[string]any{"entry": w.Entry, "variant": w.Variant, "pool": T, "buf": buf, "items": w.Items, "relation": rel, "outputs": len(seq.Out), "workload": w.Wit})
}

// deadlock verdicts per entry point in this process
var deadlocks = map[string]int{}

func kindOf(w *workload) string {
	switch {
	case w.Exact:
		return "table(exact)"
	case w.ScheduleOnly:
		return "schedule-only"
	case w.K == kClosed:
		return "closed-form"
	}
	return "EM"
}

func hexFloats(x []float64) []string {
	if len(x) > 64 {
		x = x[:64]
	}
	r := make([]string, len(x))
	for i, v := range x {
		r[i] = fmt.Sprintf("%v", v)
	}
	return r
}

/* monitor 1: differential
 * -------------------------------------------------------------------------- */

func sameBits(a, b float64) bool {
	return a == b || (math.IsNaN(a) && math.IsNaN(b))
}

var markerBits = uint64(0x7ff8000000c0ffee)

func isMarker(v float64) bool { return math.Float64bits(v) == markerBits }

func maxRelDiff(a, b []float64) float64 {
	if len(a) != len(b) {
		return math.Inf(1)
	}
	m := 0.0
	for i := range a {
		if sameBits(a[i], b[i]) {
			continue
		}
		d := math.Abs(a[i]-b[i]) / math.Max(1, math.Max(math.Abs(a[i]), math.Abs(b[i])))
		if math.IsNaN(d) {
			return math.Inf(1)
		}
		m = math.Max(m, d)
	}
	return m
}

// within: |a-b| <= K*terms*eps*max(1,|a|,|b|); infinities and NaN must agree.
func within(a, b float64, K float64, terms int) (bool, float64) {
	if sameBits(a, b) {
		return true, 0
	}
	if math.IsNaN(a) || math.IsNaN(b) || math.IsInf(a, 0) || math.IsInf(b, 0) {
		return false, math.Inf(1)
	}
	scale := math.Max(1, math.Max(math.Abs(a), math.Abs(b)))
	unit := float64(terms) * eps * scale
	ratio := math.Abs(a-b) / unit
	return ratio <= K, ratio
}

func compare(w *workload, a, b []float64) (bool, string, float64) {
	if w.Entry == "scalarEstimator.numeric" {
		return compareNumeric(w, a, b)
	}
	if len(a) != len(b) {
		return false, fmt.Sprintf("%d outputs instead of %d", len(b), len(a)), 0
	}
	worst := 0.0
	for i := range a {
		if w.Exact || w.ScheduleOnly {
			if !sameBits(a[i], b[i]) {
				return false, fmt.Sprintf("output %d of %d: %v instead of %v (must be identical: no reduction involved)", i, len(a), b[i], a[i]), 0
			}
			continue
		}
		ok, ratio := within(a[i], b[i], w.K, w.Terms)
		if !ok {
			return false, fmt.Sprintf("output %d of %d: %v instead of %v, |diff| = %.3g = %.3g x (terms=%d)*eps*scale, allowance factor %g", i, len(a), b[i], a[i], math.Abs(a[i]-b[i]), ratio, w.Terms, w.K), ratio
		}
		worst = math.Max(worst, ratio)
	}
	return true, "", worst
}

// compareNumeric: the outputs are [marker, #variables, #derivatives, order,
// variables..., value, gradient..., hessian...] per objective evaluation and
// [marker, parameters...] at the end.  Judged are the evaluations of the full
// objective (one derivative per parameter) at variables that are bit-identical
// in both runs, as long as every earlier evaluation was at identical variables
// too (the first evaluation always is: it carries every contribution once).
// Evaluations of the line search (derivative along a search direction whose
// length is unbounded when the modified Hessian is nearly singular: terms of
// size |direction| cancel) and everything after the first divergence of the
// optimiser's trajectory are not judged: Newton with a nearly singular Hessian
// amplifies one ulp to any size, no re-association bound exists there.  The
// final parameters are compared when the whole trajectory was identical.
func compareNumeric(w *workload, a, b []float64) (bool, string, float64) {
	split := func(x []float64) [][]float64 {
		var segs [][]float64
		for _, v := range x {
			if isMarker(v) {
				segs = append(segs, nil)
			} else if len(segs) > 0 {
				segs[len(segs)-1] = append(segs[len(segs)-1], v)
			}
		}
		return segs
	}
	sa, sb := split(a), split(b)
	if len(sa) == 0 || len(sb) == 0 {
		return false, "no objective evaluation recorded", 0
	}
	worst := 0.0
	nPar := len(sa[len(sa)-1]) // number of parameters of the density
	identical := len(sa) == len(sb)
	for e := 0; e < len(sa)-1 && e < len(sb)-1; e++ {
		x, y := sa[e], sb[e]
		if len(x) < 4 || len(y) < 4 {
			identical = false
			break
		}
		nv, nd := int(x[0]), int(x[1])
		d := 3 + nv // start of (value, gradient, hessian)
		if len(x) != len(y) || d > len(x) {
			if e == 0 {
				return false, fmt.Sprintf("evaluation %d: %d numbers instead of %d", e, len(y), len(x)), 0
			}
			identical = false
			break
		}
		aligned := true
		for i := 0; i < d; i++ {
			if !sameBits(x[i], y[i]) {
				aligned = false
			}
		}
		if !aligned {
			identical = false
			break
		}
		if nd != nPar {
			continue // line search
		}
		// the entries of one evaluation are sums over the same observations whose
		// terms grow like 1/sigma^2, 1/sigma^4 in the derivatives and cancel in
		// the gradient: the allowance is scaled with the largest entry of the
		// evaluation (a sum dominated by terms of one sign)
		segScale := 1.0
		for i := d; i < len(x); i++ {
			if v := math.Abs(x[i]); v > segScale && !math.IsInf(v, 0) {
				segScale = v
			}
		}
		for i := d; i < len(x); i++ {
			ok, ratio := within(x[i]/segScale, y[i]/segScale, w.K, w.Terms)
			if !ok {
				return false, fmt.Sprintf("objective evaluation %d at identical variables %v: component %d of (value, gradient, hessian) is %v instead of %v (%.3g x terms*eps*scale)", e, x[3:d], i-d, y[i], x[i], ratio), ratio
			}
			worst = math.Max(worst, ratio)
		}
	}
	if identical {
		x, y := sa[len(sa)-1], sb[len(sb)-1]
		for i := range x {
			if i < len(y) {
				if ok, ratio := within(x[i], y[i], kEM, w.Terms); !ok {
					return false, fmt.Sprintf("final parameter %d after an identical trajectory: %v instead of %v (%.3g x terms*eps*scale)", i, y[i], x[i], ratio), ratio
				}
			}
		}
	}
	return true, "", worst
}

/* monitor 2: exactly-once and thread-id ownership over the Event log
 * -------------------------------------------------------------------------- */

type evKey struct {
	Site string
	Item int
}

func countEvents(evs []event) map[evKey]int {
	m := map[evKey]int{}
	for _, e := range evs {
		m[evKey{e.Site, e.Item}]++
	}
	return m
}

// judgeEvents returns true when at least two goroutines executed jobs.
func judgeEvents(cs *fw.Case, w *workload, T int, sigBase, cfg string, pl plan, seqCount map[evKey]int, par *callResult, wit map[string]any) bool {
	cs.C.Cover("events-checked", int64(len(par.Events)))
	parCount := countEvents(par.Events)
	var lost, double []string
	if seqCount == nil && !w.ScheduleOnly {
		// error path: no multiset comparison
	} else if w.ScheduleOnly {
		// per site: items contiguous from 0, every item the same number of times
		bySite := map[string]map[int]int{}
		for k, v := range parCount {
			if bySite[k.Site] == nil {
				bySite[k.Site] = map[int]int{}
			}
			bySite[k.Site][k.Item] = v
		}
		for site, items := range bySite {
			phases := items[0]
			for i := 0; i < len(items); i++ {
				switch v, ok := items[i]; {
				case !ok || v < phases:
					lost = append(lost, fmt.Sprintf("%s item %d: %d of %d", site, i, v, phases))
				case v > phases:
					double = append(double, fmt.Sprintf("%s item %d: %d of %d", site, i, v, phases))
				}
			}
		}
	} else {
		for k, v := range seqCount {
			if p := parCount[k]; p < v {
				lost = append(lost, fmt.Sprintf("%s item %d: %d of %d", k.Site, k.Item, p, v))
			}
		}
		for k, p := range parCount {
			if v := seqCount[k]; p > v {
				double = append(double, fmt.Sprintf("%s item %d: %d instead of %d", k.Site, k.Item, p, v))
			}
		}
	}
	sort.Strings(lost)
	sort.Strings(double)
	short := func(s []string) string {
		if len(s) > 6 {
			return strings.Join(s[:6], "; ") + fmt.Sprintf("; ... (%d)", len(s))
		}
		return strings.Join(s, "; ")
	}
	if len(lost) > 0 {
		cs.Violation(sigBase+"|lost", fmt.Sprintf("%s, plan %s: job items executed less often than in the sequential run: %s", cfg, pl.Mode, short(lost)), wit)
	}
	if len(double) > 0 {
		cs.Violation(sigBase+"|double", fmt.Sprintf("%s, plan %s: job items executed more often than in the sequential run: %s", cfg, pl.Mode, short(double)), wit)
	}
	if par.Late > 0 {
		cs.Violation(sigBase+"|late", fmt.Sprintf("%s, plan %s: %d job(s) reported their item after the library call had returned", cfg, pl.Mode, par.Late), wit)
	}
	// ownership: a thread id (accumulator index) belongs to one goroutine
	owner := map[int]map[int64]bool{}
	gids := map[int64]bool{}
	nThreads := T
	if nThreads < 1 {
		nThreads = 1
	}
	for _, e := range par.Events {
		if owner[e.Thread] == nil {
			owner[e.Thread] = map[int64]bool{}
		}
		owner[e.Thread][e.Gid] = true
		gids[e.Gid] = true
		if e.Thread < 0 || e.Thread >= nThreads {
			cs.Violation(sigBase+"|thread-id-range", fmt.Sprintf("%s: site %s item %d ran with thread id %d", cfg, e.Site, e.Item, e.Thread), wit)
			break
		}
	}
	for id, g := range owner {
		if len(g) > 1 {
			cs.Violation(sigBase+"|thread-id-shared", fmt.Sprintf("%s, plan %s: thread id %d (index of the per-thread accumulators) was used by %d goroutines during one call", cfg, pl.Mode, id, len(g)), wit)
			break
		}
	}
	// evidence: job-to-thread map and completion order of the primary site,
	// "thread never used" branches
	var assign, order []string
	firstSeen := map[int]bool{}
	used := map[int]bool{}
	for _, e := range par.Events {
		if e.Site != w.Site {
			continue
		}
		used[e.Thread] = true
		if !firstSeen[e.Item] {
			firstSeen[e.Item] = true
			order = append(order, fmt.Sprint(e.Item))
			assign = append(assign, fmt.Sprintf("%d>%d", e.Item, e.Thread))
		}
	}
	if len(order) > 0 && T > 1 {
		sort.Strings(assign)
		cs.Cover("set:job-to-thread maps " + w.Entry + ":" + hashOf(assign))
		cs.Cover("set:completion orders " + w.Entry + ":" + hashOf(order))
		cs.Cover("set:job-to-thread maps (all entries):" + hashOf(w.Entry, w.Items, assign))
		cs.Cover("set:completion orders (all entries):" + hashOf(w.Entry, w.Items, order))
		if !used[0] {
			cs.Cover("branch:thread-0-never-used")
		}
		if len(used) < T {
			cs.Cover("branch:some-thread-never-used")
		}
		if len(used) == 1 && used[0] {
			cs.Cover("branch:all-jobs-on-submitting-thread")
		}
		cs.C.CoverMax("max:threads used in one phase", int64(len(used)))
	}
	return len(gids) >= 2
}
