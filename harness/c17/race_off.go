//go:build !race

package c17

const raceEnabled = false

func raceErrors() int { return 0 }
