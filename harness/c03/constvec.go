package c03

// constvec: lock-step histories on the read-only sparse vectors
// (SparseConst<T>Vector, seven element types).  They are operands of every
// vector operation ("sparse-const" storage of the ops monitor), but they also
// have state of their own - a lazily built position index shared by value
// copies - and views (ConstSlice) that share the value/index arrays of their
// parent.  One case = one vector built from an index/value list plus a random
// program over a pool of objects derived from it (slices, slices of slices,
// clones): positional reads, typed reads, iteration, iteration from a
// position, joint iteration, use as operand of dense and sparse receivers,
// Equals.  Every observation is compared with a dense []float64 model of the
// object; since every step only READS, no step may change what any other
// object of the pool shows afterwards (the program keeps reading all of them).

import (
	"fmt"

	ad "github.com/pbenner/autodiff"

	"verifharness/internal/fw"
	"verifharness/internal/gen"
	"verifharness/internal/prng"
)

type number interface {
	~int | ~int8 | ~int16 | ~int32 | ~int64 | ~float32 | ~float64
}

func convSlice[T number](v []float64) []T {
	r := make([]T, len(v))
	for i, x := range v {
		r[i] = T(x)
	}
	return r
}

// newConst builds the vector through the public constructor (copying the lists: New sorts in place).
func newConst(t gen.ElemType, idx []int, val []float64, n int, unsafe bool) ad.ConstVector {
	idx = append([]int{}, idx...)
	switch t.Name {
	case "Int8":
		if unsafe {
			return ad.UnsafeSparseConstInt8Vector(idx, convSlice[int8](val), n)
		}
		return ad.NewSparseConstInt8Vector(idx, convSlice[int8](val), n)
	case "Int16":
		if unsafe {
			return ad.UnsafeSparseConstInt16Vector(idx, convSlice[int16](val), n)
		}
		return ad.NewSparseConstInt16Vector(idx, convSlice[int16](val), n)
	case "Int32":
		if unsafe {
			return ad.UnsafeSparseConstInt32Vector(idx, convSlice[int32](val), n)
		}
		return ad.NewSparseConstInt32Vector(idx, convSlice[int32](val), n)
	case "Int64":
		if unsafe {
			return ad.UnsafeSparseConstInt64Vector(idx, convSlice[int64](val), n)
		}
		return ad.NewSparseConstInt64Vector(idx, convSlice[int64](val), n)
	case "Int":
		if unsafe {
			return ad.UnsafeSparseConstIntVector(idx, convSlice[int](val), n)
		}
		return ad.NewSparseConstIntVector(idx, convSlice[int](val), n)
	case "Float32":
		if unsafe {
			return ad.UnsafeSparseConstFloat32Vector(idx, convSlice[float32](val), n)
		}
		return ad.NewSparseConstFloat32Vector(idx, convSlice[float32](val), n)
	case "Float64":
		if unsafe {
			return ad.UnsafeSparseConstFloat64Vector(idx, convSlice[float64](val), n)
		}
		return ad.NewSparseConstFloat64Vector(idx, convSlice[float64](val), n)
	}
	panic("no sparse-const vector for " + t.Name)
}

type cvObj struct {
	name  string
	v     ad.ConstVector
	model []float64
}

type cvCtx struct {
	cs      *fw.Case
	t       gen.ElemType
	history []string
	built   string
	bad     bool
}

func (c *cvCtx) viol(op, kind, detail string, o *cvObj) {
	if c.bad {
		return
	}
	c.bad = true
	h := c.history
	if len(h) > 14 {
		h = h[len(h)-14:]
	}
	c.cs.Violation(fmt.Sprintf("C03|constvec|%s|%s|%s", op, c.t.Name, kind),
		fmt.Sprintf("%s on %s (dim %d): %s; after %v", op, o.name, len(o.model), detail, h),
		map[string]any{"type": c.t.Name, "constructor": c.built, "object": o.name, "model": fmt.Sprint(o.model), "history": c.history})
}

var cvOps = []string{"ConstSlice", "ConstSlice", "ConstAt", "TypedAt", "ConstIterator", "ConstIteratorFrom", "ConstJointIterator",
	"operand:dense-recv", "operand:sparse-recv", "Clone", "Equals", "AsDense"}

func runConstVec(cs *fw.Case, t gen.ElemType) {
	r := cs.R
	c := &cvCtx{cs: cs, t: t}
	n := r.PickI([]int{0, 1, 2, 3, 5, 8, 12, 12})
	// index/value list: distinct positions, possibly unsorted, some zero values (New drops them)
	perm := r.Perm(n)
	k := 0
	if n > 0 {
		k = r.Range(0, n)
	}
	idx := append([]int{}, perm[:k]...)
	val := make([]float64, k)
	model := make([]float64, n)
	zeros := false
	for i := range val {
		if t.IsInt {
			val[i] = float64(r.Range(-4, 4))
		} else {
			val[i] = r.Dyadic(32)
		}
		if r.Chance(0.15) {
			val[i] = 0
		}
		if val[i] == 0 {
			zeros = true
		}
		model[idx[i]] = val[i]
	}
	var root ad.ConstVector
	c.built = "New"
	switch r.Intn(4) {
	case 0:
		// through the conversion from a dense vector (iterates, then New)
		c.built = "AsSparseConst(dense)"
		d := gen.NullVector(t, gen.Dense, n)
		for i, x := range model {
			d.At(i).SetFloat64(x)
		}
		if p := fw.Call(func() { root = asConst(t, d) }); p != nil {
			c.viol("construct", "panic", p.Msg+" @"+p.Frame, &cvObj{"v", nil, model})
			return
		}
	case 1:
		// Unsafe: takes sorted lists as they are (stored zeros stay)
		c.built = "Unsafe(sorted)"
		si, sv := []int{}, []float64{}
		for i, x := range model {
			if x != 0 {
				si, sv = append(si, i), append(sv, x)
			}
		}
		if p := fw.Call(func() { root = newConst(t, si, sv, n, true) }); p != nil {
			c.viol("construct", "panic", p.Msg+" @"+p.Frame, &cvObj{"v", nil, model})
			return
		}
	default:
		if p := fw.Call(func() { root = newConst(t, idx, val, n, false) }); p != nil {
			c.viol("construct", "panic", p.Msg+" @"+p.Frame, &cvObj{"v", nil, model})
			return
		}
	}
	cs.Cover("constvec:built:" + c.built)
	if zeros {
		cs.Cover("constvec:zero-values-in-list")
	}
	pool := []*cvObj{{"v", root, model}}
	steps := r.Range(4, 14)
	for s := 0; s < steps && !c.bad; s++ {
		o := pool[r.Intn(len(pool))]
		op := cvOps[r.Intn(len(cvOps))]
		if s == 0 && r.Chance(0.5) {
			op = "ConstSlice" // views first: the interesting histories start with one
		}
		c.step(op, o, &pool, r)
	}
	// final sweep: every object still shows its model (positional and iteration view)
	for _, o := range pool {
		if c.bad {
			break
		}
		c.step("ConstAt", o, &pool, r)
		c.step("ConstIterator", o, &pool, r)
	}
	nz := 0
	for _, x := range model {
		if x != 0 {
			nz++
		}
	}
	if nz >= 1 && n >= 2 {
		cs.Nontrivial(t.Name, "constvec", fmt.Sprint(model), c.built, len(pool))
	}
}

func (c *cvCtx) step(op string, o *cvObj, pool *[]*cvObj, r *prng.Rand) {
	cs, t := c.cs, c.t
	n := len(o.model)
	cs.Cover("constvec:op:" + op)
	switch op {
	case "ConstSlice":
		i := r.Range(0, n)
		j := r.Range(i, n)
		if r.Chance(0.4) {
			i = 0
		}
		c.history = append(c.history, fmt.Sprintf("%s.ConstSlice(%d,%d)", o.name, i, j))
		var s ad.ConstVector
		if p := fw.Call(func() { s = o.v.ConstSlice(i, j) }); p != nil {
			c.viol(op, "panic", p.Msg+" @"+p.Frame, o)
			return
		}
		if i == 0 {
			cs.Cover("constvec:slice-from-0")
		} else {
			cs.Cover("constvec:slice-offset")
		}
		if len(*pool) < 6 {
			*pool = append(*pool, &cvObj{fmt.Sprintf("%s[%d:%d]", o.name, i, j), s, append([]float64{}, o.model[i:j]...)})
		}
		if s.Dim() != j-i {
			c.viol(op, "dim", fmt.Sprintf("Dim() = %d, expected %d", s.Dim(), j-i), o)
		}
	case "ConstAt":
		c.history = append(c.history, o.name+".ConstAt(all)")
		for i := 0; i < n && !c.bad; i++ {
			var got float64
			if p := fw.Call(func() { got = o.v.ConstAt(i).GetFloat64() }); p != nil {
				c.viol(op, "panic", p.Msg+" @"+p.Frame, o)
				return
			}
			if got != o.model[i] {
				c.viol(op, "value", fmt.Sprintf("ConstAt(%d) = %v, expected %v", i, got, o.model[i]), o)
			}
		}
		if o.v.Dim() != n {
			c.viol("Dim", "dim", fmt.Sprintf("Dim() = %d, expected %d", o.v.Dim(), n), o)
		}
	case "TypedAt":
		c.history = append(c.history, o.name+".Float64At/IntAt(all)")
		for i := 0; i < n && !c.bad; i++ {
			var g64 float64
			var g32 float32
			var gi int
			if p := fw.Call(func() { g64 = o.v.Float64At(i); g32 = o.v.Float32At(i); gi = o.v.IntAt(i) }); p != nil {
				c.viol(op, "panic", p.Msg+" @"+p.Frame, o)
				return
			}
			if g64 != o.model[i] || g32 != float32(o.model[i]) {
				c.viol(op, "value", fmt.Sprintf("Float64At(%d) = %v, Float32At = %v, expected %v", i, g64, g32, o.model[i]), o)
			}
			if t.IsInt && gi != int(o.model[i]) {
				c.viol(op, "value", fmt.Sprintf("IntAt(%d) = %v, expected %v", i, gi, o.model[i]), o)
			}
		}
	case "ConstIterator", "ConstIteratorFrom":
		from := 0
		if op == "ConstIteratorFrom" {
			from = r.Range(0, n)
			if r.Chance(0.25) {
				from = n // at/after the last stored entry
			}
		}
		c.history = append(c.history, fmt.Sprintf("%s.%s(%d)", o.name, op, from))
		var gi []int
		var gv []float64
		if p := fw.Call(func() {
			var it ad.VectorConstIterator
			if op == "ConstIterator" {
				it = o.v.ConstIterator()
			} else {
				it = o.v.ConstIteratorFrom(from)
			}
			for k := 0; it.Ok() && k <= 2*n+2; it.Next() {
				gi, gv = append(gi, it.Index()), append(gv, it.GetConst().GetFloat64())
				k++
			}
		}); p != nil {
			c.viol(op, "panic", p.Msg+" @"+p.Frame, o)
			return
		}
		var wi []int
		var wv []float64
		for i := from; i < n; i++ {
			if o.model[i] != 0 {
				wi, wv = append(wi, i), append(wv, o.model[i])
			}
		}
		// the property: iteration shows every non-zero element, in order, with its value; stored zeros
		// (none can exist after New) would be tolerated as extra entries with value 0
		k := 0
		prev := -1
		for j := range gi {
			if gi[j] <= prev || gi[j] < from || gi[j] >= n {
				c.viol(op, "order", fmt.Sprintf("visited indices %v (from %d), expected %v", gi, from, wi), o)
				return
			}
			prev = gi[j]
			if gv[j] == 0 {
				if o.model[gi[j]] != 0 {
					c.viol(op, "value", fmt.Sprintf("index %d shown with value 0, expected %v", gi[j], o.model[gi[j]]), o)
					return
				}
				continue
			}
			if k >= len(wi) || gi[j] != wi[k] || gv[j] != wv[k] {
				c.viol(op, "value", fmt.Sprintf("visited %v/%v (from %d), expected %v/%v", gi, gv, from, wi, wv), o)
				return
			}
			k++
		}
		if k != len(wi) {
			c.viol(op, "missing", fmt.Sprintf("visited %v/%v (from %d), expected %v/%v", gi, gv, from, wi, wv), o)
		}
	case "ConstJointIterator":
		// joint iteration with a dense vector of the same type: visits every position where either side is non-zero
		b := make([]float64, n)
		d := gen.NullVector(t, gen.Dense, n)
		for i := range b {
			if r.Chance(0.5) {
				b[i] = float64(r.Range(1, 3))
				d.At(i).SetFloat64(b[i])
			}
		}
		c.history = append(c.history, fmt.Sprintf("%s.ConstJointIterator(dense %v)", o.name, b))
		seen := map[int][2]float64{}
		var order []int
		if p := fw.Call(func() {
			k := 0
			for it := o.v.ConstJointIterator(d); it.Ok() && k <= 2*n+2; it.Next() {
				s1, s2 := it.GetConst()
				x1, x2 := 0.0, 0.0
				if s1 != nil {
					x1 = s1.GetFloat64()
				}
				if s2 != nil {
					x2 = s2.GetFloat64()
				}
				seen[it.Index()] = [2]float64{x1, x2}
				order = append(order, it.Index())
				k++
			}
		}); p != nil {
			c.viol(op, "panic", p.Msg+" @"+p.Frame, o)
			return
		}
		for j := 1; j < len(order); j++ {
			if order[j] <= order[j-1] {
				c.viol(op, "order", fmt.Sprintf("visited indices %v", order), o)
				return
			}
		}
		for i := 0; i < n; i++ {
			got, ok := seen[i]
			if o.model[i] != 0 || b[i] != 0 {
				if !ok || got[0] != o.model[i] || got[1] != b[i] {
					c.viol(op, "value", fmt.Sprintf("position %d: visited=%v pair=%v, expected (%v,%v); order %v", i, ok, got, o.model[i], b[i], order), o)
					return
				}
			} else if ok && (got[0] != 0 || got[1] != 0) {
				c.viol(op, "value", fmt.Sprintf("position %d: pair=%v, expected zeros", i, got), o)
				return
			}
		}
	case "operand:dense-recv", "operand:sparse-recv":
		storage := gen.Dense
		if op == "operand:sparse-recv" {
			storage = gen.Sparse
		}
		a := make([]float64, n)
		av := gen.NullVector(t, gen.Dense, n)
		for i := range a {
			if r.Chance(0.6) {
				a[i] = float64(r.Range(1, 3))
				av.At(i).SetFloat64(a[i])
			}
		}
		which := r.Intn(3)
		name := []string{"VaddV(a,x)", "VmulV(x,a)", "VsubV(x,a)"}[which]
		c.history = append(c.history, fmt.Sprintf("%s-recv.%s x=%s", storage, name, o.name))
		cs.Cover("constvec:operand:" + name)
		recv := gen.NullVector(t, storage, n)
		if p := fw.Call(func() {
			switch which {
			case 0:
				recv.VaddV(av, o.v)
			case 1:
				recv.VmulV(o.v, av)
			case 2:
				recv.VsubV(o.v, av)
			}
		}); p != nil {
			c.viol(op, "panic", name+": "+p.Msg+" @"+p.Frame, o)
			return
		}
		for i := 0; i < n; i++ {
			want := 0.0
			switch which {
			case 0:
				want = a[i] + o.model[i]
			case 1:
				want = o.model[i] * a[i]
			case 2:
				want = o.model[i] - a[i]
			}
			if got := recv.ConstAt(i).GetFloat64(); got != want {
				c.viol(op, "value", fmt.Sprintf("%s: element %d = %v, expected %v (a=%v)", name, i, got, want, a), o)
				return
			}
		}
	case "Clone":
		c.history = append(c.history, o.name+".CloneConstVector()")
		var s ad.ConstVector
		if p := fw.Call(func() { s = o.v.CloneConstVector() }); p != nil {
			c.viol(op, "panic", p.Msg+" @"+p.Frame, o)
			return
		}
		if len(*pool) < 6 {
			*pool = append(*pool, &cvObj{o.name + ".clone", s, append([]float64{}, o.model...)})
		}
	case "Equals":
		// against a dense vector holding the model, and one differing in a single position
		d := gen.NullVector(t, gen.Dense, n)
		for i, x := range o.model {
			d.At(i).SetFloat64(x)
		}
		c.history = append(c.history, o.name+".Equals(dense copy)")
		var eq, ne bool
		pos := -1
		if p := fw.Call(func() {
			eq = o.v.Equals(d, 1e-12)
			if n > 0 {
				pos = r.Intn(n)
				d.At(pos).SetFloat64(o.model[pos] + 1)
				ne = o.v.Equals(d, 1e-12)
			}
		}); p != nil {
			c.viol(op, "panic", p.Msg+" @"+p.Frame, o)
			return
		}
		if !eq {
			c.viol(op, "wrong-result", "Equals(dense copy of the same elements) = false", o)
		} else if ne {
			c.viol(op, "wrong-result", fmt.Sprintf("Equals(dense copy with element %d changed by 1) = true", pos), o)
		}
	case "AsDense":
		c.history = append(c.history, "AsDenseVector("+o.name+")")
		var d ad.Vector
		if p := fw.Call(func() {
			d = gen.NullVector(t, gen.Dense, n)
			d.Set(o.v)
		}); p != nil {
			c.viol(op, "panic", p.Msg+" @"+p.Frame, o)
			return
		}
		for i := 0; i < n; i++ {
			if got := d.ConstAt(i).GetFloat64(); got != o.model[i] {
				c.viol(op, "value", fmt.Sprintf("dense.Set(x): element %d = %v, expected %v", i, got, o.model[i]), o)
				return
			}
		}
	}
}
