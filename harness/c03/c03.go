// Package c03: vector and matrix results do not depend on dense or sparse
// storage (DESIGN.md, C03).  One case = one operation on one set of
// mathematical operands, executed in EVERY storage combination of receiver
// and operands and for a prior receiver content class; every result is
// compared (exact policy) with a dense model computed with free-standing
// library scalars.
package c03

import (
	"fmt"
	"strings"

	ad "github.com/pbenner/autodiff"

	"verifharness/internal/fw"
	"verifharness/internal/gen"
	"verifharness/internal/prng"
	"verifharness/internal/snap"
)

const Const = "sparse-const"

func newScalar(t gen.ElemType, j gen.Jet) ad.Scalar {
	s := ad.NewScalar(t.T, 0)
	gen.SetScalar(s, j)
	return s
}

func model(t gen.ElemType, vals []gen.Jet) []ad.Scalar {
	r := make([]ad.Scalar, len(vals))
	for i, j := range vals {
		r[i] = newScalar(t, j)
	}
	return r
}

// asConst converts to the sparse-const representation of the element type
// (exists for the seven non-Real types).
func asConst(t gen.ElemType, v ad.ConstVector) ad.ConstVector {
	switch t.Name {
	case "Int8":
		return ad.AsSparseConstInt8Vector(v)
	case "Int16":
		return ad.AsSparseConstInt16Vector(v)
	case "Int32":
		return ad.AsSparseConstInt32Vector(v)
	case "Int64":
		return ad.AsSparseConstInt64Vector(v)
	case "Int":
		return ad.AsSparseConstIntVector(v)
	case "Float32":
		return ad.AsSparseConstFloat32Vector(v)
	case "Float64":
		return ad.AsSparseConstFloat64Vector(v)
	}
	panic("no sparse-const vector for " + t.Name)
}

func operandStorages(t gen.ElemType) []string {
	if t.IsReal {
		return []string{gen.Dense, gen.Sparse}
	}
	return []string{gen.Dense, gen.Sparse, Const}
}

func buildVec(s gen.VectorSpec, storage string) ad.ConstVector {
	if storage == Const {
		s.Storage = gen.Sparse
		return asConst(s.T, s.Build())
	}
	s.Storage = storage
	return s.Build()
}

func buildMat(s gen.MatrixSpec, storage string) ad.Matrix {
	s.Storage = storage
	return s.Build()
}

var priors = []string{"empty", "explicit-zeros", "unrelated", "full", "stale-derivatives"}

// priorVec builds the receiver with the given content class.
func priorVec(t gen.ElemType, storage, class string, n int, r *prng.Rand) ad.Vector {
	v := gen.NullVector(t, storage, n)
	for i := 0; i < n; i++ {
		switch class {
		case "explicit-zeros":
			v.At(i)
		case "unrelated":
			if r.Chance(0.5) {
				v.At(i).SetFloat64(t.NonZero(r))
			}
		case "full":
			v.At(i).SetFloat64(t.NonZero(r))
		case "stale-derivatives":
			// entries that carry derivative slots of a different shape than the operands
			gen.SetScalar(v.At(i), gen.RandJet(t, r, t.Value(r), 3, 2))
		}
	}
	return v
}

func priorMat(t gen.ElemType, storage, class string, rows, cols int, r *prng.Rand) ad.Matrix {
	m := gen.NullMatrix(t, storage, rows, cols)
	for i := 0; i < rows; i++ {
		for j := 0; j < cols; j++ {
			switch class {
			case "explicit-zeros":
				m.At(i, j)
			case "unrelated":
				if r.Chance(0.5) {
					m.At(i, j).SetFloat64(t.NonZero(r))
				}
			case "full":
				m.At(i, j).SetFloat64(t.NonZero(r))
			case "stale-derivatives":
				gen.SetScalar(m.At(i, j), gen.RandJet(t, r, t.Value(r), 3, 2))
			}
		}
	}
	return m
}

func zeroElem(e snap.Elem, isInt bool) bool {
	if isInt {
		return e.I == 0
	}
	if e.F != 0 {
		return false
	}
	for _, d := range e.D {
		if d != 0 {
			return false
		}
	}
	for _, h := range e.H {
		if h != 0 {
			return false
		}
	}
	return true
}

// classify names the failure: dropped (expected non-zero, got zero), stale
// (got equals what the receiver held before), wrong.
func classify(want, got snap.Elem, before *snap.Elem, isInt bool, d string) string {
	k := snap.Kind(d)
	if k != "value" {
		if before != nil && snap.Diff(*before, got, isInt) == "" {
			return "stale-" + k
		}
		return "wrong-" + k
	}
	if !zeroElem(want, isInt) && zeroElem(got, isInt) {
		return "dropped"
	}
	if before != nil && snap.Diff(*before, got, isInt) == "" {
		return "stale"
	}
	return "wrong"
}

type ctx struct {
	cs    *fw.Case
	t     gen.ElemType
	op    string
	class string // prior/zero classes
	desc  map[string]any
}

func (c *ctx) viol(combo, kind, msg string) {
	c.cs.Violation(fmt.Sprintf("C03|%s|%s|%s|%s|%s", c.op, c.t.Name, combo, c.class, kind), msg, c.desc)
}

func (c *ctx) cmpVec(combo string, got ad.ConstVector, want []ad.Scalar, before *snap.Vec) bool {
	if got.Dim() != len(want) {
		c.viol(combo, "dim", fmt.Sprintf("result has dimension %d, expected %d", got.Dim(), len(want)))
		return false
	}
	for i := range want {
		var g snap.Elem
		if p := fw.Call(func() { g = snap.Scalar(got.ConstAt(i)) }); p != nil {
			c.viol(combo, "read-panic", fmt.Sprintf("ConstAt(%d): %s", i, p.Msg))
			return false
		}
		w := snap.Scalar(want[i])
		if d := snap.Diff(w, g, c.t.IsInt); d != "" {
			var b *snap.Elem
			if before != nil && i < len(before.E) {
				b = &before.E[i]
			}
			c.viol(combo, classify(w, g, b, c.t.IsInt, d), fmt.Sprintf("element %d: expected %s (expected vs got)", i, d))
			return false
		}
	}
	return true
}

func (c *ctx) cmpMat(combo string, got ad.ConstMatrix, rows, cols int, want []ad.Scalar, before *snap.Mat) bool {
	r, cc := got.Dims()
	if r != rows || cc != cols {
		c.viol(combo, "dim", fmt.Sprintf("result is %dx%d, expected %dx%d", r, cc, rows, cols))
		return false
	}
	for i := 0; i < rows; i++ {
		for j := 0; j < cols; j++ {
			var g snap.Elem
			if p := fw.Call(func() { g = snap.Scalar(got.ConstAt(i, j)) }); p != nil {
				c.viol(combo, "read-panic", fmt.Sprintf("ConstAt(%d,%d): %s", i, j, p.Msg))
				return false
			}
			w := snap.Scalar(want[i*cols+j])
			if d := snap.Diff(w, g, c.t.IsInt); d != "" {
				var b *snap.Elem
				if before != nil {
					b = &before.E[i*cols+j]
				}
				c.viol(combo, classify(w, g, b, c.t.IsInt, d), fmt.Sprintf("element (%d,%d): expected %s (expected vs got)", i, j, d))
				return false
			}
		}
	}
	return true
}

func scalarOp(op string, r ad.Scalar, a, b ad.ConstScalar) {
	switch {
	case strings.Contains(op, "add"):
		r.Add(a, b)
	case strings.Contains(op, "sub"):
		r.Sub(a, b)
	case strings.Contains(op, "mul"):
		r.Mul(a, b)
	case strings.Contains(op, "div"):
		r.Div(a, b)
	}
}

func callVV(op string, r ad.Vector, a, b ad.ConstVector) {
	switch op {
	case "VaddV":
		r.VaddV(a, b)
	case "VsubV":
		r.VsubV(a, b)
	case "VmulV":
		r.VmulV(a, b)
	case "VdivV":
		r.VdivV(a, b)
	}
}

func callVS(op string, r ad.Vector, a ad.ConstVector, s ad.ConstScalar) {
	switch op {
	case "VaddS":
		r.VaddS(a, s)
	case "VsubS":
		r.VsubS(a, s)
	case "VmulS":
		r.VmulS(a, s)
	case "VdivS":
		r.VdivS(a, s)
	}
}

func callMM(op string, r ad.Matrix, a, b ad.ConstMatrix) {
	switch op {
	case "MaddM":
		r.MaddM(a, b)
	case "MsubM":
		r.MsubM(a, b)
	case "MmulM":
		r.MmulM(a, b)
	case "MdivM":
		r.MdivM(a, b)
	}
}

func callMS(op string, r ad.Matrix, a ad.ConstMatrix, s ad.ConstScalar) {
	switch op {
	case "MaddS":
		r.MaddS(a, s)
	case "MsubS":
		r.MsubS(a, s)
	case "MmulS":
		r.MmulS(a, s)
	case "MdivS":
		r.MdivS(a, s)
	}
}

var vvOps = []string{"VaddV", "VsubV", "VmulV", "VdivV"}
var vsOps = []string{"VaddS", "VsubS", "VmulS", "VdivS"}
var mmOps = []string{"MaddM", "MsubM", "MmulM", "MdivM"}
var msOps = []string{"MaddS", "MsubS", "MmulS", "MdivS"}

var families = []string{"vv", "vv", "vs", "vdotv", "mdotv", "vdotm", "mm", "ms", "mdotm", "outer", "set-v", "set-m", "setidentity", "reset", "equals-v", "equals-m", "conv-v", "conv-m", "newsparse", "asmatrix"}

func pat(r *prng.Rand) string { return gen.ZeroPatterns[r.Intn(len(gen.ZeroPatterns))] }

func nonTrivialVec(vals ...[]gen.Jet) bool {
	// at least one position where one operand is zero and another is not
	if len(vals) == 0 {
		return false
	}
	for i := range vals[0] {
		z, nz := false, false
		for _, v := range vals {
			if i < len(v) {
				if v[i].V == 0 {
					z = true
				} else {
					nz = true
				}
			}
		}
		if z && nz {
			return true
		}
	}
	for _, v := range vals {
		z, nz := false, false
		for _, j := range v {
			if j.V == 0 {
				z = true
			} else {
				nz = true
			}
		}
		if z && nz {
			return true
		}
	}
	return false
}

func runCase(cs *fw.Case, t gen.ElemType, family string) {
	r := cs.R
	nvar, order := 0, 0
	if t.IsReal && r.Chance(0.6) {
		nvar, order = r.Range(1, 2), r.Range(1, 2)
	}
	prior := priors[r.Intn(len(priors))]
	if prior == "stale-derivatives" && !t.IsReal {
		prior = "full"
	}
	n := r.Range(0, 7)
	rows, cols := r.Range(0, 5), r.Range(0, 5)
	pa, pb := pat(r), pat(r)
	c := &ctx{cs: cs, t: t, class: fmt.Sprintf("prior=%s,zeros=%s/%s", prior, pa, pb)}
	ops := operandStorages(t)
	recvS := []string{gen.Dense, gen.Sparse}
	seedPrior := r.Uint64()
	cover := func(op string) {
		c.op = op
		cs.Cover("op:" + op)
		cs.Cover("type:" + t.Name)
	}
	mark := func(nt bool, parts ...any) {
		if nt {
			cs.Nontrivial(append([]any{t.Name, family, c.op, prior}, parts...)...)
		}
	}
	switch family {
	case "vv":
		op := vvOps[r.Intn(4)]
		cover(op)
		a := gen.GenVector(t, gen.Dense, pa, n, r, nvar, order, false)
		b := gen.GenVector(t, gen.Dense, pb, n, r, nvar, order, op == "VdivV")
		am, bm := model(t, a.Vals), model(t, b.Vals)
		want := make([]ad.Scalar, n)
		for i := range want {
			want[i] = ad.NewScalar(t.T, 0)
			scalarOp(op, want[i], am[i], bm[i])
		}
		c.desc = map[string]any{"op": op, "a": a.String(), "b": b.String(), "prior": prior}
		for _, rs := range recvS {
			for _, as := range ops {
				for _, bs := range ops {
					combo := fmt.Sprintf("recv=%s,a=%s,b=%s", rs, as, bs)
					recv := priorVec(t, rs, prior, n, prng.New(seedPrior))
					before := snap.Vector(recv)
					if p := fw.Call(func() { callVV(op, recv, buildVec(a, as), buildVec(b, bs)) }); p != nil {
						c.viol(combo, "panic", p.Msg+" @"+p.Frame)
						continue
					}
					c.cmpVec(combo, recv, want, &before)
					cs.Cover("combo:" + combo)
				}
			}
		}
		mark(nonTrivialVec(a.Vals, b.Vals), a.String(), b.String())
	case "vs":
		op := vsOps[r.Intn(4)]
		cover(op)
		a := gen.GenVector(t, gen.Dense, pa, n, r, nvar, order, false)
		sj := gen.RandJet(t, r, t.Value(r), nvar, order)
		if op == "VdivS" {
			sj = gen.Jet{V: t.Divisor(r)}
		}
		sc := newScalar(t, sj)
		am := model(t, a.Vals)
		want := make([]ad.Scalar, n)
		for i := range want {
			want[i] = ad.NewScalar(t.T, 0)
			scalarOp(op, want[i], am[i], sc)
		}
		c.desc = map[string]any{"op": op, "a": a.String(), "scalar": sj.V, "prior": prior}
		for _, rs := range recvS {
			for _, as := range ops {
				combo := fmt.Sprintf("recv=%s,a=%s,b=scalar", rs, as)
				recv := priorVec(t, rs, prior, n, prng.New(seedPrior))
				before := snap.Vector(recv)
				if p := fw.Call(func() { callVS(op, recv, buildVec(a, as), sc) }); p != nil {
					c.viol(combo, "panic", p.Msg+" @"+p.Frame)
					continue
				}
				c.cmpVec(combo, recv, want, &before)
				cs.Cover("combo:" + combo)
			}
		}
		mark(nonTrivialVec(a.Vals), a.String(), sj.V)
	case "vdotv":
		cover("VdotV")
		a := gen.GenVector(t, gen.Dense, pa, n, r, nvar, order, false)
		b := gen.GenVector(t, gen.Dense, pb, n, r, nvar, order, false)
		am, bm := model(t, a.Vals), model(t, b.Vals)
		want := ad.NewScalar(t.T, 0)
		tmp := ad.NewScalar(t.T, 0)
		for i := 0; i < n; i++ {
			tmp.Mul(am[i], bm[i])
			want.Add(want, tmp)
		}
		c.desc = map[string]any{"op": "VdotV", "a": a.String(), "b": b.String()}
		for _, as := range ops {
			for _, bs := range ops {
				combo := fmt.Sprintf("recv=scalar,a=%s,b=%s", as, bs)
				recv := newScalar(t, gen.Jet{V: t.Value(r)})
				if p := fw.Call(func() { recv.VdotV(buildVec(a, as), buildVec(b, bs)) }); p != nil {
					c.viol(combo, "panic", p.Msg+" @"+p.Frame)
					continue
				}
				if d := snap.Diff(snap.Scalar(want), snap.Scalar(recv), t.IsInt); d != "" {
					c.viol(combo, "wrong-"+snap.Kind(d), "VdotV: expected "+d+" (expected vs got)")
				}
				cs.Cover("combo:" + combo)
			}
		}
		mark(nonTrivialVec(a.Vals, b.Vals), a.String(), b.String())
	case "mdotv", "vdotm":
		op := map[string]string{"mdotv": "MdotV", "vdotm": "VdotM"}[family]
		cover(op)
		A := gen.GenMatrix(t, gen.Dense, pa, rows, cols, r, nvar, order, false)
		vl := cols
		if family == "vdotm" {
			vl = rows
		}
		b := gen.GenVector(t, gen.Dense, pb, vl, r, nvar, order, false)
		Am, bm := model(t, A.Vals), model(t, b.Vals)
		rl := rows
		if family == "vdotm" {
			rl = cols
		}
		want := make([]ad.Scalar, rl)
		tmp := ad.NewScalar(t.T, 0)
		for i := range want {
			want[i] = ad.NewScalar(t.T, 0)
			for k := 0; k < vl; k++ {
				if family == "mdotv" {
					tmp.Mul(Am[i*cols+k], bm[k])
				} else {
					tmp.Mul(bm[k], Am[k*cols+i])
				}
				want[i].Add(want[i], tmp)
			}
		}
		c.desc = map[string]any{"op": op, "A": A.String(), "b": b.String(), "prior": prior}
		for _, rs := range recvS {
			for _, as := range recvS {
				for _, bs := range ops {
					combo := fmt.Sprintf("recv=%s,A=%s,b=%s", rs, as, bs)
					recv := priorVec(t, rs, prior, rl, prng.New(seedPrior))
					before := snap.Vector(recv)
					if p := fw.Call(func() {
						if family == "mdotv" {
							recv.MdotV(buildMat(A, as), buildVec(b, bs))
						} else {
							recv.VdotM(buildVec(b, bs), buildMat(A, as))
						}
					}); p != nil {
						c.viol(combo, "panic", p.Msg+" @"+p.Frame)
						continue
					}
					c.cmpVec(combo, recv, want, &before)
					cs.Cover("combo:" + combo)
				}
			}
		}
		mark(nonTrivialVec(A.Vals, nil) || nonTrivialVec(b.Vals), A.String(), b.String())
	case "mm":
		op := mmOps[r.Intn(4)]
		cover(op)
		A := gen.GenMatrix(t, gen.Dense, pa, rows, cols, r, nvar, order, false)
		B := gen.GenMatrix(t, gen.Dense, pb, rows, cols, r, nvar, order, op == "MdivM")
		Am, Bm := model(t, A.Vals), model(t, B.Vals)
		want := make([]ad.Scalar, rows*cols)
		for i := range want {
			want[i] = ad.NewScalar(t.T, 0)
			scalarOp(op, want[i], Am[i], Bm[i])
		}
		c.desc = map[string]any{"op": op, "A": A.String(), "B": B.String(), "prior": prior}
		for _, rs := range recvS {
			for _, as := range recvS {
				for _, bs := range recvS {
					combo := fmt.Sprintf("recv=%s,a=%s,b=%s", rs, as, bs)
					recv := priorMat(t, rs, prior, rows, cols, prng.New(seedPrior))
					before := snap.Matrix(recv)
					if p := fw.Call(func() { callMM(op, recv, buildMat(A, as), buildMat(B, bs)) }); p != nil {
						c.viol(combo, "panic", p.Msg+" @"+p.Frame)
						continue
					}
					c.cmpMat(combo, recv, rows, cols, want, &before)
					cs.Cover("combo:" + combo)
				}
			}
		}
		mark(nonTrivialVec(A.Vals, B.Vals), A.String(), B.String())
	case "ms":
		op := msOps[r.Intn(4)]
		cover(op)
		A := gen.GenMatrix(t, gen.Dense, pa, rows, cols, r, nvar, order, false)
		sj := gen.RandJet(t, r, t.Value(r), nvar, order)
		if op == "MdivS" {
			sj = gen.Jet{V: t.Divisor(r)}
		}
		sc := newScalar(t, sj)
		Am := model(t, A.Vals)
		want := make([]ad.Scalar, rows*cols)
		for i := range want {
			want[i] = ad.NewScalar(t.T, 0)
			scalarOp(op, want[i], Am[i], sc)
		}
		c.desc = map[string]any{"op": op, "A": A.String(), "scalar": sj.V, "prior": prior}
		for _, rs := range recvS {
			for _, as := range recvS {
				combo := fmt.Sprintf("recv=%s,a=%s,b=scalar", rs, as)
				recv := priorMat(t, rs, prior, rows, cols, prng.New(seedPrior))
				before := snap.Matrix(recv)
				if p := fw.Call(func() { callMS(op, recv, buildMat(A, as), sc) }); p != nil {
					c.viol(combo, "panic", p.Msg+" @"+p.Frame)
					continue
				}
				c.cmpMat(combo, recv, rows, cols, want, &before)
				cs.Cover("combo:" + combo)
			}
		}
		mark(nonTrivialVec(A.Vals), A.String(), sj.V)
	case "mdotm":
		cover("MdotM")
		k := r.Range(0, 4)
		A := gen.GenMatrix(t, gen.Dense, pa, rows, k, r, nvar, order, false)
		B := gen.GenMatrix(t, gen.Dense, pb, k, cols, r, nvar, order, false)
		Am, Bm := model(t, A.Vals), model(t, B.Vals)
		want := make([]ad.Scalar, rows*cols)
		tmp := ad.NewScalar(t.T, 0)
		for i := 0; i < rows; i++ {
			for j := 0; j < cols; j++ {
				acc := ad.NewScalar(t.T, 0)
				for l := 0; l < k; l++ {
					tmp.Mul(Am[i*k+l], Bm[l*cols+j])
					acc.Add(acc, tmp)
				}
				want[i*cols+j] = acc
			}
		}
		c.desc = map[string]any{"op": "MdotM", "A": A.String(), "B": B.String(), "prior": prior}
		for _, rs := range recvS {
			for _, as := range recvS {
				for _, bs := range recvS {
					combo := fmt.Sprintf("recv=%s,a=%s,b=%s", rs, as, bs)
					recv := priorMat(t, rs, prior, rows, cols, prng.New(seedPrior))
					before := snap.Matrix(recv)
					if p := fw.Call(func() { recv.MdotM(buildMat(A, as), buildMat(B, bs)) }); p != nil {
						c.viol(combo, "panic", p.Msg+" @"+p.Frame)
						continue
					}
					c.cmpMat(combo, recv, rows, cols, want, &before)
					cs.Cover("combo:" + combo)
				}
			}
		}
		mark(nonTrivialVec(A.Vals) || nonTrivialVec(B.Vals), A.String(), B.String())
	case "outer":
		cover("Outer")
		a := gen.GenVector(t, gen.Dense, pa, rows, r, nvar, order, false)
		b := gen.GenVector(t, gen.Dense, pb, cols, r, nvar, order, false)
		am, bm := model(t, a.Vals), model(t, b.Vals)
		want := make([]ad.Scalar, rows*cols)
		for i := 0; i < rows; i++ {
			for j := 0; j < cols; j++ {
				want[i*cols+j] = ad.NewScalar(t.T, 0)
				want[i*cols+j].Mul(am[i], bm[j])
			}
		}
		c.desc = map[string]any{"op": "Outer", "a": a.String(), "b": b.String(), "prior": prior}
		for _, rs := range recvS {
			for _, as := range ops {
				for _, bs := range ops {
					combo := fmt.Sprintf("recv=%s,a=%s,b=%s", rs, as, bs)
					recv := priorMat(t, rs, prior, rows, cols, prng.New(seedPrior))
					before := snap.Matrix(recv)
					if p := fw.Call(func() { recv.Outer(buildVec(a, as), buildVec(b, bs)) }); p != nil {
						c.viol(combo, "panic", p.Msg+" @"+p.Frame)
						continue
					}
					c.cmpMat(combo, recv, rows, cols, want, &before)
					cs.Cover("combo:" + combo)
				}
			}
		}
		mark(nonTrivialVec(a.Vals) || nonTrivialVec(b.Vals), a.String(), b.String())
	case "set-v":
		cover("Vector.Set")
		a := gen.GenVector(t, gen.Dense, pa, n, r, nvar, order, false)
		want := model(t, a.Vals)
		c.desc = map[string]any{"op": "Set", "a": a.String(), "prior": prior}
		for _, rs := range recvS {
			for _, as := range ops {
				combo := fmt.Sprintf("recv=%s,a=%s", rs, as)
				recv := priorVec(t, rs, prior, n, prng.New(seedPrior))
				before := snap.Vector(recv)
				if p := fw.Call(func() { recv.Set(buildVec(a, as)) }); p != nil {
					c.viol(combo, "panic", p.Msg+" @"+p.Frame)
					continue
				}
				c.cmpVec(combo, recv, want, &before)
				cs.Cover("combo:" + combo)
			}
		}
		mark(nonTrivialVec(a.Vals), a.String())
	case "set-m":
		cover("Matrix.Set")
		A := gen.GenMatrix(t, gen.Dense, pa, rows, cols, r, nvar, order, false)
		want := model(t, A.Vals)
		c.desc = map[string]any{"op": "Set", "A": A.String(), "prior": prior}
		for _, rs := range recvS {
			for _, as := range recvS {
				combo := fmt.Sprintf("recv=%s,a=%s", rs, as)
				recv := priorMat(t, rs, prior, rows, cols, prng.New(seedPrior))
				before := snap.Matrix(recv)
				if p := fw.Call(func() { recv.Set(buildMat(A, as)) }); p != nil {
					c.viol(combo, "panic", p.Msg+" @"+p.Frame)
					continue
				}
				c.cmpMat(combo, recv, rows, cols, want, &before)
				cs.Cover("combo:" + combo)
			}
		}
		mark(nonTrivialVec(A.Vals), A.String())
	case "setidentity":
		cover("SetIdentity")
		want := make([]ad.Scalar, rows*cols)
		for i := 0; i < rows; i++ {
			for j := 0; j < cols; j++ {
				v := 0.0
				if i == j {
					v = 1
				}
				want[i*cols+j] = newScalar(t, gen.Jet{V: v})
			}
		}
		c.desc = map[string]any{"op": "SetIdentity", "rows": rows, "cols": cols, "prior": prior}
		for _, rs := range recvS {
			combo := fmt.Sprintf("recv=%s", rs)
			recv := priorMat(t, rs, prior, rows, cols, prng.New(seedPrior))
			before := snap.Matrix(recv)
			if p := fw.Call(func() { recv.SetIdentity() }); p != nil {
				c.viol(combo, "panic", p.Msg+" @"+p.Frame)
				continue
			}
			c.cmpMat(combo, recv, rows, cols, want, &before)
			cs.Cover("combo:" + combo)
		}
		mark(rows > 0 && cols > 0 && prior != "empty", rows, cols, seedPrior)
	case "reset":
		cover("Reset")
		c.desc = map[string]any{"op": "Reset", "n": n, "rows": rows, "cols": cols, "prior": prior}
		wantV := model(t, make([]gen.Jet, n))
		wantM := model(t, make([]gen.Jet, rows*cols))
		for _, rs := range recvS {
			combo := fmt.Sprintf("recv=%s", rs)
			rv := priorVec(t, rs, prior, n, prng.New(seedPrior))
			bv := snap.Vector(rv)
			if p := fw.Call(func() { rv.Reset() }); p != nil {
				c.viol(combo+",vector", "panic", p.Msg+" @"+p.Frame)
			} else {
				c.cmpVec(combo+",vector", rv, wantV, &bv)
			}
			rm := priorMat(t, rs, prior, rows, cols, prng.New(seedPrior))
			bm := snap.Matrix(rm)
			if p := fw.Call(func() { rm.Reset() }); p != nil {
				c.viol(combo+",matrix", "panic", p.Msg+" @"+p.Frame)
			} else {
				c.cmpMat(combo+",matrix", rm, rows, cols, wantM, &bm)
			}
			cs.Cover("combo:" + combo)
		}
		mark(prior != "empty" && n+rows*cols > 0, n, rows, cols, seedPrior)
	case "equals-v", "equals-m":
		runEquals(c, cs, t, family, r, n, rows, cols, pa, ops, recvS)
	case "conv-v", "conv-m", "newsparse", "asmatrix":
		runConversions(c, cs, t, family, r, n, rows, cols, pa, nvar, order, ops, recvS)
	}
}

// runEquals: Equals between representations agrees with the element-wise comparison.
func runEquals(c *ctx, cs *fw.Case, t gen.ElemType, family string, r *prng.Rand, n, rows, cols int, pa string, ops, recvS []string) {
	c.op = "Equals"
	cs.Cover("op:Equals")
	cs.Cover("type:" + t.Name)
	eps := 0.5
	size := n
	if family == "equals-m" {
		size = rows * cols
	}
	a := gen.GenVector(t, gen.Dense, pa, size, r, 0, 0, false)
	b := gen.VectorSpec{T: t, Storage: gen.Dense, Pattern: pa, Vals: append([]gen.Jet{}, a.Vals...), Stored: a.Stored}
	// perturb: none / one position by less than eps / one position by more than eps
	mode := r.Intn(3)
	expect := true
	if size > 0 && mode > 0 {
		i := r.Intn(size)
		d := 0.25
		if t.IsInt {
			d = 0 // integers compare exactly: any difference is unequal
		}
		if mode == 2 {
			d = 1
		}
		if t.IsInt && mode == 1 {
			mode = 0
		} else {
			b.Vals[i] = gen.Jet{V: a.Vals[i].V + d}
			if mode == 2 {
				expect = false
			}
		}
	}
	c.class = fmt.Sprintf("zeros=%s,perturb=%d", pa, mode)
	c.desc = map[string]any{"op": "Equals", "a": a.String(), "b": b.String(), "epsilon": eps, "expected": expect}
	if family == "equals-v" {
		for _, as := range recvS {
			for _, bs := range ops {
				combo := fmt.Sprintf("recv=%s,b=%s", as, bs)
				var got bool
				if p := fw.Call(func() { got = buildVec(a, as).Equals(buildVec(b, bs), eps) }); p != nil {
					c.viol(combo, "panic", p.Msg+" @"+p.Frame)
					continue
				}
				if got != expect {
					c.viol(combo, "wrong-result", fmt.Sprintf("Equals returned %v, element-wise comparison with epsilon %v gives %v", got, eps, expect))
				}
				cs.Cover("combo:" + combo)
			}
		}
	} else {
		A := gen.MatrixSpec{T: t, R: rows, C: cols, Vals: a.Vals, Stored: a.Stored, Pattern: pa}
		B := gen.MatrixSpec{T: t, R: rows, C: cols, Vals: b.Vals, Stored: b.Stored, Pattern: pa}
		for _, as := range recvS {
			for _, bs := range recvS {
				combo := fmt.Sprintf("recv=%s,b=%s,matrix", as, bs)
				var got bool
				if p := fw.Call(func() { got = buildMat(A, as).Equals(buildMat(B, bs), eps) }); p != nil {
					c.viol(combo, "panic", p.Msg+" @"+p.Frame)
					continue
				}
				if got != expect {
					c.viol(combo, "wrong-result", fmt.Sprintf("Equals returned %v, element-wise comparison with epsilon %v gives %v", got, eps, expect))
				}
				cs.Cover("combo:" + combo)
			}
		}
	}
	if nonTrivialVec(a.Vals) {
		cs.Nontrivial(t.Name, family, a.String(), b.String())
	}
}
