package c03

import (
	"fmt"

	ad "github.com/pbenner/autodiff"

	"verifharness/internal/fw"
	"verifharness/internal/gen"
	"verifharness/internal/prng"
)

type num interface {
	~int8 | ~int16 | ~int32 | ~int64 | ~int | ~float32 | ~float64
}

func conv[T num](v []float64) []T {
	r := make([]T, len(v))
	for i, x := range v {
		r[i] = T(x)
	}
	return r
}

// newSparseVector / newDenseVector / newSparseMatrix / newDenseMatrix call the
// typed constructors from index/value lists.
func newSparseVector(t gen.ElemType, idx []int, v []float64, n int) ad.Vector {
	switch t.Name {
	case "Int8":
		return ad.NewSparseInt8Vector(idx, conv[int8](v), n)
	case "Int16":
		return ad.NewSparseInt16Vector(idx, conv[int16](v), n)
	case "Int32":
		return ad.NewSparseInt32Vector(idx, conv[int32](v), n)
	case "Int64":
		return ad.NewSparseInt64Vector(idx, conv[int64](v), n)
	case "Int":
		return ad.NewSparseIntVector(idx, conv[int](v), n)
	case "Float32":
		return ad.NewSparseFloat32Vector(idx, conv[float32](v), n)
	case "Float64":
		return ad.NewSparseFloat64Vector(idx, v, n)
	case "Real32":
		return ad.NewSparseReal32Vector(idx, conv[float32](v), n)
	case "Real64":
		return ad.NewSparseReal64Vector(idx, v, n)
	}
	panic("type")
}

func newDenseVector(t gen.ElemType, v []float64) ad.Vector {
	switch t.Name {
	case "Int8":
		return ad.NewDenseInt8Vector(conv[int8](v))
	case "Int16":
		return ad.NewDenseInt16Vector(conv[int16](v))
	case "Int32":
		return ad.NewDenseInt32Vector(conv[int32](v))
	case "Int64":
		return ad.NewDenseInt64Vector(conv[int64](v))
	case "Int":
		return ad.NewDenseIntVector(conv[int](v))
	case "Float32":
		return ad.NewDenseFloat32Vector(conv[float32](v))
	case "Float64":
		return ad.NewDenseFloat64Vector(v)
	case "Real32":
		return ad.NewDenseReal32Vector(conv[float32](v))
	case "Real64":
		return ad.NewDenseReal64Vector(v)
	}
	panic("type")
}

func newSparseMatrix(t gen.ElemType, ri, ci []int, v []float64, r, c int) ad.Matrix {
	switch t.Name {
	case "Int8":
		return ad.NewSparseInt8Matrix(ri, ci, conv[int8](v), r, c)
	case "Int16":
		return ad.NewSparseInt16Matrix(ri, ci, conv[int16](v), r, c)
	case "Int32":
		return ad.NewSparseInt32Matrix(ri, ci, conv[int32](v), r, c)
	case "Int64":
		return ad.NewSparseInt64Matrix(ri, ci, conv[int64](v), r, c)
	case "Int":
		return ad.NewSparseIntMatrix(ri, ci, conv[int](v), r, c)
	case "Float32":
		return ad.NewSparseFloat32Matrix(ri, ci, conv[float32](v), r, c)
	case "Float64":
		return ad.NewSparseFloat64Matrix(ri, ci, v, r, c)
	case "Real32":
		return ad.NewSparseReal32Matrix(ri, ci, conv[float32](v), r, c)
	case "Real64":
		return ad.NewSparseReal64Matrix(ri, ci, v, r, c)
	}
	panic("type")
}

func newDenseMatrix(t gen.ElemType, v []float64, r, c int) ad.Matrix {
	switch t.Name {
	case "Int8":
		return ad.NewDenseInt8Matrix(conv[int8](v), r, c)
	case "Int16":
		return ad.NewDenseInt16Matrix(conv[int16](v), r, c)
	case "Int32":
		return ad.NewDenseInt32Matrix(conv[int32](v), r, c)
	case "Int64":
		return ad.NewDenseInt64Matrix(conv[int64](v), r, c)
	case "Int":
		return ad.NewDenseIntMatrix(conv[int](v), r, c)
	case "Float32":
		return ad.NewDenseFloat32Matrix(conv[float32](v), r, c)
	case "Float64":
		return ad.NewDenseFloat64Matrix(v, r, c)
	case "Real32":
		return ad.NewDenseReal32Matrix(conv[float32](v), r, c)
	case "Real64":
		return ad.NewDenseReal64Matrix(v, r, c)
	}
	panic("type")
}

// targets: element types a value of type t converts to without loss on the
// operand grid (small integers convert to every type; k/8 fractions only
// within the float family).
func targets(t gen.ElemType) []gen.ElemType {
	var r []gen.ElemType
	for _, u := range gen.Types {
		if t.IsInt || !u.IsInt {
			r = append(r, u)
		}
	}
	return r
}

func runConversions(c *ctx, cs *fw.Case, t gen.ElemType, family string, r *prng.Rand, n, rows, cols int, pa string, nvar, order int, ops, recvS []string) {
	cs.Cover("type:" + t.Name)
	c.class = "zeros=" + pa
	switch family {
	case "conv-v":
		a := gen.GenVector(t, gen.Dense, pa, n, r, nvar, order, false)
		c.desc = map[string]any{"a": a.String()}
		for _, u := range targets(t) {
			// derivatives survive only a Real -> Real conversion
			vals := a.Vals
			if !(t.IsReal && u.IsReal) {
				vals = make([]gen.Jet, len(a.Vals))
				for i, j := range a.Vals {
					vals[i] = gen.Jet{V: j.V}
				}
			}
			save := c.t
			c.t = u
			want := model(u, vals)
			for _, as := range ops {
				for _, to := range recvS {
					c.op = "As" + map[string]string{gen.Dense: "Dense", gen.Sparse: "Sparse"}[to] + "Vector"
					cs.Cover("op:" + c.op)
					combo := fmt.Sprintf("from=%s/%s,to=%s/%s", t.Name, as, u.Name, to)
					var got ad.Vector
					src := buildVec(a, as)
					if p := fw.Call(func() {
						if to == gen.Dense {
							got = ad.AsDenseVector(u.T, src)
						} else {
							got = ad.AsSparseVector(u.T, src)
						}
					}); p != nil {
						c.viol(combo, "panic", p.Msg+" @"+p.Frame)
						continue
					}
					c.cmpVec(combo, got, want, nil)
					cs.Cover("combo:conv-" + as + "->" + to)
				}
			}
			c.t = save
		}
		if nonTrivialVec(a.Vals) {
			cs.Nontrivial(t.Name, family, a.String())
		}
	case "conv-m":
		A := gen.GenMatrix(t, gen.Dense, pa, rows, cols, r, nvar, order, false)
		c.desc = map[string]any{"A": A.String()}
		for _, u := range targets(t) {
			vals := A.Vals
			if !(t.IsReal && u.IsReal) {
				vals = make([]gen.Jet, len(A.Vals))
				for i, j := range A.Vals {
					vals[i] = gen.Jet{V: j.V}
				}
			}
			save := c.t
			c.t = u
			want := model(u, vals)
			for _, as := range recvS {
				for _, to := range recvS {
					c.op = "As" + map[string]string{gen.Dense: "Dense", gen.Sparse: "Sparse"}[to] + "Matrix"
					cs.Cover("op:" + c.op)
					combo := fmt.Sprintf("from=%s/%s,to=%s/%s", t.Name, as, u.Name, to)
					var got ad.Matrix
					src := buildMat(A, as)
					if p := fw.Call(func() {
						if to == gen.Dense {
							got = ad.AsDenseMatrix(u.T, src)
						} else {
							got = ad.AsSparseMatrix(u.T, src)
						}
					}); p != nil {
						c.viol(combo, "panic", p.Msg+" @"+p.Frame)
						continue
					}
					c.cmpMat(combo, got, rows, cols, want, nil)
					cs.Cover("combo:conv-" + as + "->" + to)
				}
			}
			c.t = save
		}
		if nonTrivialVec(A.Vals) {
			cs.Nontrivial(t.Name, family, A.String())
		}
	case "newsparse":
		// construction from index/value lists (shuffled order, explicit zeros in the list)
		a := gen.GenVector(t, gen.Dense, pa, n, r, 0, 0, false)
		var idx []int
		var vals []float64
		for _, i := range r.Perm(n) {
			if a.Vals[i].V != 0 || r.Chance(0.3) {
				idx = append(idx, i)
				vals = append(vals, a.Vals[i].V)
			}
		}
		want := model(t, a.Vals)
		c.desc = map[string]any{"indices": idx, "values": vals, "n": n}
		c.op = "NewSparseVector"
		cs.Cover("op:" + c.op)
		var got ad.Vector
		if p := fw.Call(func() { got = newSparseVector(t, append([]int{}, idx...), append([]float64{}, vals...), n) }); p != nil {
			c.viol("index-value-list", "panic", p.Msg+" @"+p.Frame)
		} else {
			c.cmpVec("index-value-list", got, want, nil)
		}
		c.op = "NewDenseVector"
		cs.Cover("op:" + c.op)
		full := make([]float64, n)
		for i, j := range a.Vals {
			full[i] = j.V
		}
		if p := fw.Call(func() { got = newDenseVector(t, full) }); p != nil {
			c.viol("value-list", "panic", p.Msg+" @"+p.Frame)
		} else {
			c.cmpVec("value-list", got, want, nil)
		}
		// matrices
		A := gen.GenMatrix(t, gen.Dense, pa, rows, cols, r, 0, 0, false)
		var ri, ci []int
		var mv []float64
		for _, k := range r.Perm(rows * cols) {
			if A.Vals[k].V != 0 || r.Chance(0.3) {
				ri = append(ri, k/cols)
				ci = append(ci, k%cols)
				mv = append(mv, A.Vals[k].V)
			}
		}
		wantM := model(t, A.Vals)
		c.op = "NewSparseMatrix"
		cs.Cover("op:" + c.op)
		c.desc = map[string]any{"rows": ri, "cols": ci, "values": mv, "dims": []int{rows, cols}}
		var gm ad.Matrix
		if p := fw.Call(func() { gm = newSparseMatrix(t, ri, ci, mv, rows, cols) }); p != nil {
			c.viol("index-value-list", "panic", p.Msg+" @"+p.Frame)
		} else {
			c.cmpMat("index-value-list", gm, rows, cols, wantM, nil)
		}
		c.op = "NewDenseMatrix"
		cs.Cover("op:" + c.op)
		fullM := make([]float64, rows*cols)
		for i, j := range A.Vals {
			fullM[i] = j.V
		}
		if p := fw.Call(func() { gm = newDenseMatrix(t, fullM, rows, cols) }); p != nil {
			c.viol("value-list", "panic", p.Msg+" @"+p.Frame)
		} else {
			c.cmpMat("value-list", gm, rows, cols, wantM, nil)
		}
		if nonTrivialVec(a.Vals) || nonTrivialVec(A.Vals) {
			cs.Nontrivial(t.Name, family, a.String(), A.String())
		}
	case "asmatrix":
		// vector <-> matrix reinterpretation: AsMatrix(n,m)(i,j) = v[i*m+j] in both representations
		A := gen.GenMatrix(t, gen.Dense, pa, rows, cols, r, nvar, order, false)
		v := gen.VectorSpec{T: t, Pattern: pa, Vals: A.Vals, Stored: A.Stored}
		want := model(t, A.Vals)
		c.desc = map[string]any{"v": v.String(), "rows": rows, "cols": cols}
		for _, as := range recvS {
			c.op = "AsMatrix"
			cs.Cover("op:" + c.op)
			combo := "from=" + as
			var gm ad.Matrix
			if p := fw.Call(func() { gm = buildVec(v, as).(ad.Vector).AsMatrix(rows, cols) }); p != nil {
				c.viol(combo, "panic", p.Msg+" @"+p.Frame)
			} else {
				c.cmpMat(combo, gm, rows, cols, want, nil)
			}
			c.op = "AsConstMatrix"
			cs.Cover("op:" + c.op)
			var gc ad.ConstMatrix
			if p := fw.Call(func() { gc = buildVec(v, as).AsConstMatrix(rows, cols) }); p != nil {
				c.viol(combo, "panic", p.Msg+" @"+p.Frame)
			} else {
				c.cmpMat(combo, gc, rows, cols, want, nil)
			}
		}
		if nonTrivialVec(A.Vals) {
			cs.Nontrivial(t.Name, family, v.String(), rows, cols)
		}
	}
}

// Run is the C03 workload.
func Run(c *fw.Ctx) {
	for _, t := range gen.Types {
		t := t
		n := c.N(15000, 150000)
		if t.Name == "Float64" || t.Name == "Real64" || t.Name == "Int" {
			n = c.N(30000, 300000)
		}
		c.Cases("ops/"+t.Name, n, func(cs *fw.Case) {
			family := families[cs.Index%len(families)]
			if cs.Index < 2 {
				cs.Sample(map[string]any{"type": t.Name, "family": family})
			}
			runCase(cs, t, family)
		})
	}
	// histories on the read-only sparse vectors (constvec.go)
	for _, t := range gen.Types {
		t := t
		if t.IsReal {
			continue
		}
		c.Cases("constvec/"+t.Name, c.N(3000, 40000), func(cs *fw.Case) {
			if cs.Index < 1 {
				cs.Sample(map[string]any{"type": t.Name, "monitor": "constvec"})
			}
			runConstVec(cs, t)
		})
	}
}

var _ = prng.New
