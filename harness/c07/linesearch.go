package c07

import (
	"fmt"
	"math"

	ad "github.com/pbenner/autodiff"
	"github.com/pbenner/autodiff/algorithm/blahut"
	"github.com/pbenner/autodiff/algorithm/lineSearch"

	"verifharness/internal/fw"
	"verifharness/internal/prng"
)

/* line search: strong Wolfe conditions with c1 = 1e-4, c2 = 0.9
 * -------------------------------------------------------------------------- */

const wolfeC1, wolfeC2 = 1e-4, 0.9

func caseLineSearch(cs *fw.Case) {
	r := cs.R
	var line *Line
	var a1 float64
	mode := r.Pick([]string{"1d", "1d", "ray"})
	var fam Family
	var x0, dir []float64
	if mode == "1d" {
		line = NewLine(r)
	} else {
		// phi(alpha) = f(x0 + alpha p) along a descent direction of a family member
		fam = pickFamily(r, r.Range(1, 4), allFamilies)
		x0 = startPoint(r, fam, 1.5)
		g := fam.Eval(x0).G
		dir = make([]float64, len(g))
		sc := r.LogUniform(0.01, 10)
		for i := range dir {
			dir[i] = -g[i]*sc + 0.1*norm2(g)*sc*r.Uniform(-1, 1)
		}
	}
	a1 = r.LogUniform(1e-3, 1e3)
	maxEval := r.PickI([]int{5, 10, 20, 40, 100})
	amax := math.Inf(1)
	ckind := "none"
	if r.Chance(0.3) {
		ckind = "alpha<=max"
		amax = r.LogUniform(1e-3, 1e3)
	}
	// closed-form phi, phi'
	phi := func(a float64) (f, g, fAbs, gAbs float64) {
		if mode == "1d" {
			return line.Eval(a)
		}
		x := make([]float64, len(x0))
		xa := 0.0
		for i := range x {
			x[i] = x0[i] + a*dir[i]
			xa += math.Abs(a * dir[i])
		}
		ref := fam.Eval(x)
		for i := range dir {
			g += ref.G[i] * dir[i]
			gAbs += ref.GAbs[i]*math.Abs(dir[i]) + math.Abs(ref.G[i]*dir[i])
			// x itself is rounded: propagate through the Hessian row
			for j := range dir {
				gAbs += math.Abs(ref.H[i][j]*dir[i]) * (math.Abs(x[j]))
			}
		}
		return ref.F, g, ref.FAbs + norm2(ref.G)*(norm2(x)+xa), gAbs
	}
	name := "ray:"
	if mode == "1d" {
		name = "phi:" + line.Kind
	} else {
		name += fam.Name()
	}
	ru := &run{cs: cs, monitor: "lineSearch", routine: "lineSearch.Run", opts: "constraints=" + ckind, class: name}
	ru.witness = map[string]any{"mode": mode, "alpha1": a1, "maxEval": maxEval, "alphaMax": amax}
	if mode == "1d" {
		ru.witness["phi"] = map[string]any{"kind": line.Kind, "p": line.P}
	} else {
		ru.witness["objective"] = fam.Describe()
		ru.witness["x0"] = x0
		ru.witness["direction"] = dir
	}
	evals, hooks := 0, 0
	var evalPoints []float64
	f := func(alpha ad.ConstScalar) (ad.MagicScalar, error) {
		evals++
		evalPoints = append(evalPoints, alpha.GetFloat64())
		if mode == "1d" {
			return line.AD(alpha), nil
		}
		// x0 + alpha p with derivative with respect to alpha
		x := ad.NullDenseReal64Vector(len(x0))
		for i := range x0 {
			xi := x.AT(i)
			xi.Mul(alpha, cf(dir[i]))
			xi.Add(xi, cf(x0[i]))
		}
		return fam.AD(x), nil
	}
	hook := func(alpha, y, g ad.ConstScalar) bool {
		hooks++
		a := alpha.GetFloat64()
		fv, gv, fA, gA := phi(a)
		if !finite(fv) || !finite(gv) || !finite(fA) || !finite(gA) {
			cs.Cover("hook:not-judged:overflow")
			return false
		}
		cs.Cover("judged:hook:lineSearch.Run")
		if tol := KRound*ulp*fA + 1e-300; !(math.Abs(y.GetFloat64()-fv) <= tol) {
			ru.viol("hook-mismatch:value", fmt.Sprintf("hook call %d: value %.17g at alpha = %.17g, closed form %.17g (allowance %.3g)", hooks, y.GetFloat64(), a, fv, tol))
		}
		if tol := KRound*ulp*gA + 1e-300; !(math.Abs(g.GetFloat64()-gv) <= tol) {
			ru.viol("hook-mismatch:gradient", fmt.Sprintf("hook call %d: slope %.17g at alpha = %.17g, closed form %.17g (allowance %.3g)", hooks, g.GetFloat64(), a, gv, tol))
		}
		if a > amax {
			ru.violWith("constraints="+ckind, name, "constraint-violated:iterate", fmt.Sprintf("objective evaluated and reported to the hook at alpha = %.17g > alpha_max = %.17g", a, amax))
		}
		return false
	}
	args := []interface{}{lineSearch.Parameters{Alpha1: a1, MaxEval: maxEval}, lineSearch.Hook{Value: hook}}
	if ckind != "none" {
		args = append(args, lineSearch.Constraints{Value: func(a ad.ConstScalar) bool { return a.GetFloat64() <= amax }})
	}
	var ar ad.Scalar
	var err error
	p := guarded(20000, func() { ar, err = lineSearch.Run(f, ad.Float64Type, args...) })
	capped := evals >= maxEval // "fewer than MaxEval evaluations used" (the evaluation at 0 included)
	o := ru.outcome(p, err, false, capped)
	cs.Cover("phi:" + name)
	cs.C.CoverMax("max:evaluations:lineSearch", int64(evals))
	if o == "no-return" {
		cs.Skip("no-return")
		return
	}
	if o == "panic" {
		cs.Cover("panic:lineSearch:" + p.Frame)
		return
	}
	if evals > 1 {
		cs.Nontrivial("lineSearch", ru.witness)
	}
	var av any
	if ar != nil {
		av = ar.GetFloat64()
	}
	cs.Sample(map[string]any{"routine": "lineSearch.Run", "case": ru.witness, "outcome": o, "evaluations": evals, "returned": av, "err": errString(err)})
	if err != nil || ar == nil {
		return
	}
	a := ar.GetFloat64()
	if a > amax {
		ru.violWith("constraints="+ckind, name, "constraint-violated:returned", fmt.Sprintf("returned alpha = %.17g > alpha_max = %.17g without error", a, amax))
	}
	if o != "converged" {
		return
	}
	f0, g0, f0A, g0A := phi(0)
	fa, ga, faA, gaA := phi(a)
	cs.Cover("judged:wolfe:lineSearch.Run")
	// sufficient decrease: phi(a) <= phi(0) + c1 a phi'(0)
	tolF := KRound * ulp * (f0A + faA + wolfeC1*math.Abs(a)*g0A)
	if !(fa <= f0+wolfeC1*a*g0+tolF) {
		ru.viol("wolfe:sufficient-decrease", fmt.Sprintf("alpha = %.17g returned after %d < MaxEval = %d evaluations: phi(alpha) = %.17g > phi(0) + c1*alpha*phi'(0) = %.17g (allowance %.3g)",
			a, evals, maxEval, fa, f0+wolfeC1*a*g0, tolF))
	}
	// curvature: |phi'(a)| <= c2 |phi'(0)|
	tolG := KRound * ulp * (gaA + wolfeC2*g0A)
	if !(math.Abs(ga) <= wolfeC2*math.Abs(g0)+tolG) {
		ru.viol("wolfe:curvature", fmt.Sprintf("alpha = %.17g returned after %d < MaxEval = %d evaluations: |phi'(alpha)| = %.17g > c2*|phi'(0)| = %.17g (allowance %.3g)",
			a, evals, maxEval, math.Abs(ga), wolfeC2*math.Abs(g0), tolG))
	}
	if !(a > 0) {
		ru.viol("wolfe:step-not-positive", fmt.Sprintf("returned alpha = %.17g without error", a))
	}
}

/* Blahut-Arimoto
 *
 * With lambda = 1 and a strictly positive start p0 the iterates satisfy
 *   C - I(p_T) <= D(p* || p0) / T <= -log(min_i p0_i) / T     (Arimoto 1972),
 * I(p_t) <= J_t <= I(p_{t+1}) for the value J_t handed to the hook with
 * p_{t+1}.  C is bracketed by an independent high-iteration reference run of
 * the monitor: max_x D(W(.|x) || q_p) >= C >= I(p).
 * -------------------------------------------------------------------------- */

func finite(x float64) bool { return !math.IsInf(x, 0) && !math.IsNaN(x) }

func mutualInfo(W [][]float64, p []float64) (I float64, D []float64) {
	n, m := len(W), len(W[0])
	q := make([]float64, m)
	for i := 0; i < n; i++ {
		for j := 0; j < m; j++ {
			q[j] += p[i] * W[i][j]
		}
	}
	D = make([]float64, n)
	for i := 0; i < n; i++ {
		for j := 0; j < m; j++ {
			if W[i][j] > 0 {
				D[i] += W[i][j] * math.Log(W[i][j]/q[j])
			}
		}
		if p[i] > 0 {
			I += p[i] * D[i]
		}
	}
	return
}

// capacityBracket runs the monitor's own Blahut-Arimoto iteration until
// upper and lower bound agree.
func capacityBracket(W [][]float64) (lo, hi float64, ok bool) {
	n := len(W)
	p := make([]float64, n)
	for i := range p {
		p[i] = 1 / float64(n)
	}
	for it := 0; it < 200000; it++ {
		I, D := mutualInfo(W, p)
		up := D[0]
		for _, d := range D {
			if d > up {
				up = d
			}
		}
		if up-I < 1e-12 {
			return I, up, true
		}
		s := 0.0
		for i := range p {
			p[i] *= math.Exp(D[i])
			s += p[i]
		}
		for i := range p {
			p[i] /= s
		}
	}
	return 0, 0, false
}

// refBlahut iterates p <- p exp(lambda D(W_i||q_p)) / Z (= p^(1-lambda) r^lambda with
// r_i = p_i exp(D_i)) from p0, optionally perturbed.
func refBlahut(W [][]float64, p0 []float64, steps int, lambda, perturb float64) []float64 {
	p := cloneF(p0)
	if perturb != 0 {
		s := 0.0
		for i := range p {
			p[i] *= 1 + perturb*float64(1+i%3)
			s += p[i]
		}
		for i := range p {
			p[i] /= s
		}
	}
	for k := 0; k < steps; k++ {
		_, D := mutualInfo(W, p)
		s := 0.0
		for i := range p {
			if p[i] > 0 {
				p[i] *= math.Exp(lambda * D[i])
			}
			s += p[i]
		}
		for i := range p {
			p[i] /= s
		}
	}
	return p
}

func caseBlahut(cs *fw.Case, directed int) {
	if directed >= 0 {
		cs.R = prng.For(20261003, "blahut.directed", cs.Index) // independent of VERIF_SEED
	}
	r := cs.R
	n, m := r.Range(2, 5), r.Range(2, 5)
	peaky := r.LogUniform(0.5, 6)
	zeros := r.Chance(0.15) || directed >= 0
	W := make([][]float64, n)
	hasZero := false
	for i := range W {
		W[i] = make([]float64, m)
		s := 0.0
		for j := range W[i] {
			W[i][j] = math.Pow(r.Uniform(0.02, 1), peaky)
			if zeros && (r.Chance(0.25) || (directed >= 0 && i == 0 && j == 0)) {
				W[i][j] = 0
			}
			s += W[i][j]
		}
		if s == 0 {
			W[i][0] = 1
			s = 1
		}
		for j := range W[i] {
			W[i][j] /= s
			if W[i][j] == 0 {
				hasZero = true
			}
		}
	}
	p0 := make([]float64, n)
	if r.Bool() {
		for i := range p0 {
			p0[i] = 1 / float64(n)
		}
	} else {
		s := 0.0
		for i := range p0 {
			p0[i] = r.Uniform(0.05, 1)
			s += p0[i]
		}
		for i := range p0 {
			p0[i] /= s
		}
	}
	steps := r.PickI([]int{1, 2, 5, 10, 30, 100, 300})
	variant := r.Pick([]string{"Run", "RunNaive"})
	if directed >= 0 {
		variant = []string{"RunNaive", "Run"}[directed%2]
	}
	// relaxation parameter: p <- p^(1-lambda) r^lambda, i.e. p <- p exp(lambda D) / Z
	lambda := 1.0
	if r.Chance(0.55) {
		lambda = []float64{r.Uniform(0.3, 1), 0.5, 0.8, 0.9, 1.2, 1.5, 1.8}[r.Intn(7)]
	}
	class := "channel:positive"
	if hasZero {
		class = "channel:has-zero-entries"
	}
	lam := "lambda=1"
	if lambda < 1 {
		lam = "lambda<1"
	} else if lambda > 1 {
		lam = "lambda>1"
	}
	cs.Cover("blahut:" + lam)
	ru := &run{cs: cs, monitor: "blahut", routine: "blahut." + variant, opts: lam, class: class}
	ru.witness = map[string]any{"channel": W, "p0": p0, "steps": steps, "lambda": lambda}
	hooks := 0
	prevP := cloneF(p0)
	nanSeen := false
	hookCheck := func(p []float64, J float64) {
		hooks++
		if math.IsNaN(J) {
			nanSeen = true // reported once, with the returned vector, below
		}
		if lambda != 1 || nanSeen {
			prevP = p
			return
		}
		Iprev, _ := mutualInfo(W, prevP)
		Inext, _ := mutualInfo(W, p)
		Jn := J * math.Ln2 // the routine reports bits
		tol := 1e-12 * (1 + math.Abs(Jn))
		cs.Cover("judged:hook:" + ru.routine)
		if !(Jn >= Iprev-tol && Jn <= Inext+tol) && !math.IsNaN(Inext) {
			ru.viol("hook-mismatch:value", fmt.Sprintf("hook call %d: J = %.15g nats is not between I(p_t) = %.15g and I(p_{t+1}) = %.15g of the distributions it was computed from / handed with", hooks, Jn, Iprev, Inext))
		}
		prevP = p
	}
	var pr []float64
	var p *fw.Panic
	if variant == "Run" {
		ch := ad.NullDenseFloat64Matrix(n, m)
		for i := 0; i < n; i++ {
			for j := 0; j < m; j++ {
				ch.At(i, j).SetFloat64(W[i][j])
			}
		}
		hook := func(pv ad.Vector, J ad.Scalar) bool { hookCheck(toSlice(pv), J.GetFloat64()); return false }
		p = guarded(1000, func() {
			v := blahut.Run(ch, ad.NewDenseFloat64Vector(cloneF(p0)), steps, blahut.Hook{Value: hook}, blahut.Lambda{Value: lambda})
			pr = toSlice(v)
		})
	} else {
		Wc := make([][]float64, n)
		for i := range W {
			Wc[i] = cloneF(W[i])
		}
		hook := func(pv []float64, J float64) bool { hookCheck(cloneF(pv), J); return false }
		p = guarded(1000, func() {
			pr = blahut.RunNaive(Wc, cloneF(p0), steps, blahut.HookNaive{Value: hook}, blahut.Lambda{Value: lambda})
		})
	}
	o := ru.outcome(p, nil, false, false)
	cs.Cover("channel:" + class)
	if o == "panic" {
		cs.Cover("panic:blahut:" + p.Frame)
		return
	}
	cs.Nontrivial("blahut", ru.witness)
	cs.Sample(map[string]any{"routine": ru.routine, "case": ru.witness, "returned": pr})
	// a distribution?
	s := 0.0
	bad := false
	for _, v := range pr {
		if !(v >= 0) || math.IsNaN(v) {
			bad = true
		}
		s += v
	}
	cs.Cover("judged:distribution:" + ru.routine)
	if bad || !(math.Abs(s-1) <= 1e-12) || len(pr) != n {
		ru.violWith("-", class, "not-a-distribution", fmt.Sprintf("returned %s (sum %.17g) for a %dx%d channel (NaN handed to the hook: %v)", fmtVec(pr), s, n, m, nanSeen))
		return
	}
	if nanSeen {
		ru.violWith("-", class, "hook-mismatch:value", "the hook received J = NaN although the returned vector is a distribution")
	}
	// reference model: the stated update rule p <- p^(1-lambda) r^lambda iterated in
	// float64 by the monitor (any lambda).  The comparison is conditioned: the same
	// iteration from a start perturbed by 1e-13 measures how much rounding is amplified.
	ref := refBlahut(W, p0, steps, lambda, 0)
	prt := refBlahut(W, p0, steps, lambda, 1e-13)
	sens, refOK := 0.0, len(ref) == n
	for i := range ref {
		if !finite(ref[i]) || !finite(prt[i]) {
			refOK = false
		}
		sens = math.Max(sens, math.Abs(ref[i]-prt[i]))
	}
	if !refOK || sens > 1e-10 {
		cs.Cover("skipped:blahut-reference-ill-conditioned")
	} else {
		tol := 1e-10 + 1e3*sens
		cs.Cover("judged:update-rule:" + ru.routine + ":" + lam)
		for i := range pr {
			if !(math.Abs(pr[i]-ref[i]) <= tol) {
				ru.viol("update-rule", fmt.Sprintf("after %d steps with lambda = %g the returned p = %s differs from the iteration p <- p^(1-lambda) r^lambda carried out by the monitor, %s (|diff| %.3g > %.3g)",
					steps, lambda, fmtVec(pr), fmtVec(ref), math.Abs(pr[i]-ref[i]), tol))
				break
			}
		}
		// capacity optimality (KKT): D(W_x||q) = C where p_x > 0, <= C elsewhere, i.e.
		// max_x D(W_x||q) - I(p) = 0; judged when the reference iteration has converged
		Iref, Dref := mutualInfo(W, ref)
		Ilib, Dlib := mutualInfo(W, pr)
		gr, gl := -Iref, -Ilib
		for i := range Dref {
			gr = math.Max(gr, Dref[i]-Iref)
			gl = math.Max(gl, Dlib[i]-Ilib)
		}
		if gr < 1e-9 {
			cs.Cover("judged:kkt:" + ru.routine + ":" + lam)
			if !(gl < 1e-7) {
				ru.viol("capacity-optimality", fmt.Sprintf("after %d steps with lambda = %g: max_x D(W_x||q) - I(p) = %.3g at the returned p = %s although the iteration has converged (reference gap %.3g)",
					steps, lambda, gl, fmtVec(pr), gr))
			}
		}
	}
	if lambda != 1 {
		return
	}
	lo, _, ok := capacityBracket(W)
	if !ok {
		cs.Cover("skipped:reference-capacity-not-converged")
		return
	}
	minp := p0[0]
	for _, v := range p0 {
		if v < minp {
			minp = v
		}
	}
	I, _ := mutualInfo(W, pr)
	bound := -math.Log(minp) / float64(steps)
	cs.Cover("judged:stop:" + ru.routine)
	if !(lo-I <= bound+1e-10) {
		ru.viol("capacity-bound", fmt.Sprintf("after %d steps I(p) = %.15g nats, capacity >= %.15g: gap %.6g exceeds the algorithm's bound -log(min p0)/steps = %.6g",
			steps, I, lo, lo-I, bound))
	}
}
