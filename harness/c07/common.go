package c07

import (
	"fmt"
	"math"
	"strings"

	ad "github.com/pbenner/autodiff"

	"verifharness/internal/fw"
	"verifharness/internal/prng"
)

// Tolerance constants (printed in CFG["tolerances"] of driver/propcfg/c07.py).
const (
	// re-evaluation of a stopping rule: the library compared a quantity q
	// it computed with epsilon; our closed-form q' differs from q by
	// rounding only, |q-q'| <= KRound*ulp*S with S the sum of magnitudes of
	// the terms q' is accumulated from.
	KRound = 64.0
	// relative slack on epsilon itself (DESIGN.md C07)
	EpsSlack = 1e-6
)

// run identifies one call of a routine for signatures.
type run struct {
	cs      *fw.Case
	monitor string // base monitor name (no ".directed")
	routine string
	opts    string
	class   string
	witness map[string]any
	// how the routine obtains the quantity of its stopping rule: by AD of the
	// objective handed to it with derivatives of this order (1 or 2), or from the
	// monitor's explicit gradient function (RunGradient variants)
	order    int
	explicit bool
}

// libNorm evaluates |grad f(x)| exactly as the routine does: same objective, same
// operations, same order of summation - the result is bit-identical to what the
// routine compared with epsilon if it evaluated at x, so no allowance is needed.
func (r *run) libNorm(fam Family, x []float64) float64 {
	n := len(x)
	g := ad.NullDenseFloat64Vector(n)
	if r.explicit {
		copy(g, fam.Eval(x).G)
	} else {
		X := ad.NewDenseReal64Vector(cloneF(x))
		o := r.order
		if o == 0 {
			o = 1
		}
		X.Variables(o)
		y := fam.AD(X)
		for i := 0; i < n; i++ {
			g[i] = y.GetDerivative(i)
		}
	}
	return ad.NullFloat64().Vnorm(g).GetFloat64()
}

func (r *run) sig(kind string) string {
	return fmt.Sprintf("C07|%s|%s|%s|%s|%s", r.monitor, r.routine, r.opts, r.class, kind)
}

func (r *run) sigWith(opts, class, kind string) string {
	return fmt.Sprintf("C07|%s|%s|%s|%s|%s", r.monitor, r.routine, opts, class, kind)
}

func (r *run) viol(kind, detail string) {
	r.cs.Violation(r.sig(kind), detail, r.witness)
}

func (r *run) violWith(opts, class, kind, detail string) {
	r.cs.Violation(r.sigWith(opts, class, kind), detail, r.witness)
}

/* constraints
 * -------------------------------------------------------------------------- */

type cons struct {
	Kind   string // none | box | halfspace
	Lo, Hi []float64
	A      []float64
	Beta   float64
	calls  int
}

func (c *cons) ok(x []float64) bool {
	switch c.Kind {
	case "box":
		for i := range x {
			if !(x[i] >= c.Lo[i] && x[i] <= c.Hi[i]) {
				return false
			}
		}
	case "halfspace":
		s := 0.0
		for i := range x {
			s += c.A[i] * x[i]
		}
		if !(s <= c.Beta) {
			return false
		}
	}
	return true
}

func (c *cons) fn() func(ad.Vector) bool {
	if c.Kind == "none" {
		return nil
	}
	return func(x ad.Vector) bool { c.calls++; return c.ok(toSlice(x)) }
}

func (c *cons) constFn() func(ad.ConstVector) bool {
	if c.Kind == "none" {
		return nil
	}
	return func(x ad.ConstVector) bool { c.calls++; return c.ok(toSlice(x)) }
}

func (c *cons) describe() map[string]any {
	return map[string]any{"kind": c.Kind, "lo": c.Lo, "hi": c.Hi, "a": c.A, "beta": c.Beta}
}

// genCons draws a convex constraint set that contains x0.  With target != nil
// (the unconstrained minimiser) the set is built so that the minimiser is
// outside in about half of the draws.
func genCons(r *prng.Rand, kind string, x0, target []float64) *cons {
	n := len(x0)
	c := &cons{Kind: kind}
	switch kind {
	case "box":
		c.Lo, c.Hi = make([]float64, n), make([]float64, n)
		for i := 0; i < n; i++ {
			c.Lo[i] = x0[i] - r.Uniform(0.05, 3)
			c.Hi[i] = x0[i] + r.Uniform(0.05, 3)
		}
		if target != nil && r.Chance(0.5) {
			// cut between x0 and the target along one coordinate
			i := r.Intn(n)
			if d := target[i] - x0[i]; math.Abs(d) > 1e-3 {
				cut := x0[i] + d*r.Uniform(0.2, 0.8)
				if d > 0 {
					c.Hi[i] = cut
				} else {
					c.Lo[i] = cut
				}
			}
		}
	case "halfspace":
		c.A = make([]float64, n)
		for i := range c.A {
			c.A[i] = r.Norm()
		}
		s0 := 0.0
		for i := range c.A {
			s0 += c.A[i] * x0[i]
		}
		c.Beta = s0 + r.Uniform(0.05, 3)
		if target != nil && r.Chance(0.5) {
			// a = direction to the target, plane between x0 and target
			s0, st := 0.0, 0.0
			for i := range c.A {
				c.A[i] = target[i] - x0[i]
				s0 += c.A[i] * x0[i]
				st += c.A[i] * target[i]
			}
			if st-s0 > 1e-6 {
				c.Beta = s0 + (st-s0)*r.Uniform(0.2, 0.8)
			} else {
				c.Beta = s0 + 1
			}
		}
	}
	return c
}

// consExcluding builds a box / half-space that contains x0 but not the
// target (the unconstrained minimiser).  With near the boundary passes just in
// front of the target (1e-3..3e-2 of the distance x0-target away from it),
// otherwise somewhere between x0 and the target.
func consExcluding(r *prng.Rand, kind string, x0, target []float64, near bool) *cons {
	n := len(x0)
	c := &cons{Kind: kind}
	frac := r.Uniform(0.2, 0.8)
	if near {
		frac = 1 - r.LogUniform(1e-3, 3e-2)
	}
	switch kind {
	case "box":
		c.Lo, c.Hi = make([]float64, n), make([]float64, n)
		for i := 0; i < n; i++ {
			lo, hi := math.Min(x0[i], target[i]), math.Max(x0[i], target[i])
			c.Lo[i] = lo - r.Uniform(0.5, 3)
			c.Hi[i] = hi + r.Uniform(0.5, 3)
		}
		// cut the coordinate with the largest distance
		k := 0
		for i := range x0 {
			if math.Abs(target[i]-x0[i]) > math.Abs(target[k]-x0[k]) {
				k = i
			}
		}
		cut := x0[k] + (target[k]-x0[k])*frac
		if target[k] > x0[k] {
			c.Hi[k] = cut
		} else {
			c.Lo[k] = cut
		}
	default:
		c.A = make([]float64, n)
		s0, st := 0.0, 0.0
		for i := range c.A {
			c.A[i] = target[i] - x0[i]
			s0 += c.A[i] * x0[i]
			st += c.A[i] * target[i]
		}
		c.Beta = s0 + (st-s0)*frac
	}
	return c
}

func pickConsKind(r *prng.Rand, pNone float64) string {
	if r.Chance(pNone) {
		return "none"
	}
	if r.Bool() {
		return "box"
	}
	return "halfspace"
}

/* oracles
 * -------------------------------------------------------------------------- */

// checkGradStop re-evaluates "|grad f(x)| < eps" at the returned point and, on
// quadratics, the distance to the minimiser.
//
// lastEval (may be nil) is the last point at which the routine evaluated the
// objective: if the criterion holds there but not at the returned point, the
// routine handed back a stale iterate, which is reported as its own input
// class instead of once per objective family.
func (r *run) checkGradStop(fam Family, x []float64, eps float64, lastEval []float64) {
	ref := fam.Eval(x)
	gn := norm2(ref.G)
	slack := KRound * ulp * norm2(ref.GAbs)
	r.cs.Cover("judged:stop:" + r.routine)
	if !(gn < eps*(1+EpsSlack)+slack) {
		class := r.class
		extra := ""
		if lastEval != nil && !sameVec(lastEval, x) {
			if le := fam.Eval(lastEval); norm2(le.G) < eps*(1+EpsSlack)+KRound*ulp*norm2(le.GAbs) {
				class = "returned-point-is-not-the-iterate-that-met-the-criterion"
				extra = fmt.Sprintf("; the criterion holds at the last evaluated point %s (|grad| = %.6g), which was not returned", fmtVec(lastEval), norm2(le.G))
			}
		}
		r.violWith(r.opts, class, "stop-condition", fmt.Sprintf("returned without error, hook stop or iteration cap, but |grad f(x*)| = %.6g is not below epsilon = %.6g (rounding allowance %.3g); x* = %s%s",
			gn, eps, slack, fmtVec(x), extra))
		return
	}
	// the criterion as the routine itself evaluates it (no allowance)
	r.cs.Cover("judged:stop-exact:" + r.routine)
	if ln := r.libNorm(fam, x); !(ln < eps) {
		r.violWith(r.opts, r.class, "stop-condition", fmt.Sprintf("returned without error, hook stop or iteration cap, but |grad f(x*)| = %.17g evaluated with the objective handed to the routine is not below epsilon = %.17g; x* = %s (closed form: %.6g)",
			ln, eps, fmtVec(x), gn))
		return
	}
	if q, ok := fam.(*Quadratic); ok {
		d := make([]float64, len(x))
		for i := range d {
			d[i] = x[i] - q.C[i]
		}
		dist := norm2(d)
		bound := (eps*(1+EpsSlack) + slack) / q.LambdaMin
		r.cs.Cover("judged:distance:" + r.routine)
		if !(dist <= bound) {
			r.viol("distance", fmt.Sprintf("|x* - argmin| = %.6g exceeds epsilon/lambda_min = %.6g on an SPD quadratic (kappa %.3g)", dist, bound, q.Kappa))
		}
	}
}

func (r *run) checkResidualStop(p *PolySystem, x []float64, eps float64) {
	F, FAbs, _, _ := p.EvalF(x)
	fn := norm2(F)
	slack := KRound * ulp * norm2(FAbs)
	r.cs.Cover("judged:stop:" + r.routine)
	if !(fn < eps*(1+EpsSlack)+slack) {
		r.viol("stop-condition", fmt.Sprintf("returned without error, hook stop or iteration cap, but |F(x*)| = %.6g is not below epsilon = %.6g (rounding allowance %.3g); x* = %s",
			fn, eps, slack, fmtVec(x)))
		return
	}
	// the criterion as the routine itself evaluates it (no allowance)
	r.cs.Cover("judged:stop-exact:" + r.routine)
	X := ad.NewDenseReal64Vector(cloneF(x))
	X.Variables(1)
	Y := p.AD(X)
	y := ad.NullDenseFloat64Vector(len(x))
	for i := range y {
		y[i] = Y.ConstAt(i).GetFloat64()
	}
	if ln := ad.NullFloat64().Vnorm(y).GetFloat64(); !(ln < eps) {
		r.viol("stop-condition", fmt.Sprintf("returned without error, hook stop or iteration cap, but |F(x*)| = %.17g evaluated with the system handed to the routine is not below epsilon = %.17g; x* = %s (closed form: %.6g, its rounding allowance %.3g)",
			ln, eps, fmtVec(x), fn, slack))
	}
}

// checkHook compares the value and gradient handed to a hook with f and
// grad f at the x handed with them.
func (r *run) checkHook(fam Family, x, g []float64, y *float64, call int) {
	where := fmt.Sprintf("hook call %d", call)
	hc := "hook-call>1"
	if call == 1 {
		hc = "hook-call-1"
	}
	ref := fam.Eval(x)
	r.cs.Cover("judged:hook:" + r.routine)
	if g != nil {
		for i := range g {
			tol := KRound*ulp*ref.GAbs[i] + 1e-300
			if math.IsInf(tol, 0) || math.IsNaN(tol) || math.IsInf(ref.G[i], 0) || math.IsNaN(ref.G[i]) {
				r.cs.Cover("hook:not-judged:overflow")
				return
			}
			if !(math.Abs(g[i]-ref.G[i]) <= tol) {
				r.violWith("-", hc, "hook-mismatch:gradient", fmt.Sprintf("%s: hook received gradient[%d] = %.17g at x = %s, closed form gives %.17g (allowance %.3g)",
					where, i, g[i], fmtVec(x), ref.G[i], tol))
				return
			}
		}
	}
	if y != nil {
		tol := KRound*ulp*ref.FAbs + 1e-300
		if math.IsInf(tol, 0) || math.IsNaN(tol) || math.IsInf(ref.F, 0) || math.IsNaN(ref.F) {
			r.cs.Cover("hook:not-judged:overflow")
			return
		}
		if !(math.Abs(*y-ref.F) <= tol) {
			r.violWith("-", hc, "hook-mismatch:value", fmt.Sprintf("%s: hook received value %.17g at x = %s, closed form gives %.17g (allowance %.3g)",
				where, *y, fmtVec(x), ref.F, tol))
		}
	}
}

func (r *run) checkHookMatrix(got ad.ConstMatrix, want, wantAbs [][]float64, x []float64, what string) {
	n, m := got.Dims()
	if n != len(want) || (n > 0 && m != len(want[0])) {
		r.violWith("-", "any", "hook-mismatch:"+what, fmt.Sprintf("hook received a %dx%d %s, expected %dx%d", n, m, what, len(want), len(want[0])))
		return
	}
	for i := 0; i < n; i++ {
		for j := 0; j < m; j++ {
			tol := KRound*ulp*wantAbs[i][j] + 1e-300
			if math.IsInf(tol, 0) || math.IsNaN(tol) {
				continue
			}
			if v := got.ConstAt(i, j).GetFloat64(); !(math.Abs(v-want[i][j]) <= tol) {
				r.violWith("-", "any", "hook-mismatch:"+what, fmt.Sprintf("hook received %s[%d,%d] = %.17g at x = %s, closed form gives %.17g (allowance %.3g)",
					what, i, j, v, fmtVec(x), want[i][j], tol))
				return
			}
		}
	}
}

// checkCons flags a point outside the user-supplied constraint set.
func (r *run) checkCons(c *cons, x []float64, where string, infeasibleMin bool) {
	if c.Kind == "none" {
		return
	}
	r.cs.Cover("judged:constraint:" + r.routine)
	if !c.ok(x) {
		note := "unconstrained minimiser feasible"
		if infeasibleMin {
			note = "unconstrained minimiser infeasible"
		}
		r.violWith("constraints="+c.Kind, "any", "constraint-violated:"+where,
			fmt.Sprintf("%s point %s violates the user-supplied %s constraint %v although no error was reported (%s)", where, fmtVec(x), c.Kind, c.describe(), note))
	}
}

func sameVec(a, b []float64) bool {
	if len(a) != len(b) {
		return false
	}
	for i := range a {
		if a[i] != b[i] {
			return false
		}
	}
	return true
}

func infeasible(c *cons, fam Family) bool {
	if m, ok := fam.Minimiser(); ok && c.Kind != "none" {
		return !c.ok(m)
	}
	return false
}

/* calling the library
 * -------------------------------------------------------------------------- */

// guarded runs f under a loop budget; returns the panic (nil if none).
func guarded(budget int64, f func()) *fw.Panic {
	fw.SetTickBudget(budget)
	p := fw.Call(f)
	fw.SetTickBudget(0)
	return p
}

// outcome classifies how a call ended, for coverage.
func (r *run) outcome(p *fw.Panic, err error, hookStopped, cap bool) string {
	var o string
	switch {
	case p != nil && p.Budget:
		o = "no-return"
	case p != nil:
		o = "panic"
	case err != nil:
		o = "error"
	case hookStopped:
		o = "hook-stop"
	case cap:
		o = "cap"
	default:
		o = "converged"
	}
	r.cs.Cover("outcome:" + r.routine + ":" + o)
	return o
}

func startPoint(r *prng.Rand, fam Family, radius float64) []float64 {
	n := fam.N()
	if k, ok := fam.(*Kink); ok && r.Chance(0.7) {
		return k.Start(r)
	}
	x := make([]float64, n)
	m, ok := fam.Minimiser()
	for i := range x {
		c := 0.0
		if ok {
			c = m[i]
		}
		x[i] = c + r.Uniform(-radius, radius)
	}
	return x
}

func errString(err error) string {
	if err == nil {
		return ""
	}
	s := err.Error()
	if len(s) > 120 {
		s = s[:120]
	}
	return strings.ReplaceAll(s, "\n", " ")
}

// reuseResult makes the objective hand out one and the same result scalar on every
// call (in a share of the runs): a routine that keeps a reference to an earlier result
// instead of copying it would then see it overwritten.
func reuseResult(cs *fw.Case, f func(ad.ConstVector) (ad.MagicScalar, error)) func(ad.ConstVector) (ad.MagicScalar, error) {
	if !cs.R.Chance(0.3) {
		cs.Cover("objective-result:fresh")
		return f
	}
	cs.Cover("objective-result:reused")
	out := ad.NullReal64()
	return func(x ad.ConstVector) (ad.MagicScalar, error) {
		y, err := f(x)
		if err != nil {
			return nil, err
		}
		out.Set(y)
		return out, nil
	}
}

func reuseVectorResult(cs *fw.Case, n int, f func(ad.ConstVector) (ad.MagicVector, error)) func(ad.ConstVector) (ad.MagicVector, error) {
	if !cs.R.Chance(0.3) {
		cs.Cover("objective-result:fresh")
		return f
	}
	cs.Cover("objective-result:reused")
	out := ad.NullDenseReal64Vector(n)
	return func(x ad.ConstVector) (ad.MagicVector, error) {
		y, err := f(x)
		if err != nil {
			return nil, err
		}
		out.Set(y)
		return out, nil
	}
}

func cloneF(x []float64) []float64 { return append([]float64(nil), x...) }
