// Package c07: optimizers and root finders return points that meet their
// stopping condition (DESIGN.md, C07).  All oracles are in-process: closed-form
// objective families (families.go), the stopping rules read from the sources of
// the routines, user constraints and hook consistency.
package c07

import (
	"verifharness/internal/fw"
)

func Run(c *fw.Ctx) {
	// directed lists (generated from a fixed seed, independent of VERIF_SEED)
	c.Cases("bfgs.directed", 12, func(cs *fw.Case) { caseBFGS(cs, cs.Index) })
	c.Cases("newton.directed", 400, caseNewtonDirected)
	c.Cases("rprop.directed", 12, func(cs *fw.Case) { caseRprop(cs, cs.Index, "") })
	c.Cases("blahut.directed", 12, func(cs *fw.Case) { caseBlahut(cs, cs.Index) })
	c.Cases("adam.directed", 4, func(cs *fw.Case) { caseAdam(cs, cs.Index) })
	c.Cases("saga.directed", 20, func(cs *fw.Case) { caseSaga(cs, cs.Index) })
	// seeded random lists
	c.Cases("bfgs", c.N(3000, 24000), func(cs *fw.Case) { caseBFGS(cs, -1) })
	c.Cases("newton", c.N(4000, 32000), caseNewton)
	c.Cases("rprop", c.N(2400, 20000), func(cs *fw.Case) { caseRprop(cs, -1, "") })
	c.Cases("rprop.constrained", c.N(800, 6000), func(cs *fw.Case) { caseRprop(cs, -1, []string{"hit", "near"}[cs.Index%2]) })
	c.Cases("gradientDescent", c.N(1500, 12000), caseGD)
	c.Cases("adam", c.N(1200, 10000), func(cs *fw.Case) { caseAdam(cs, -1) })
	c.Cases("saga", c.N(2000, 16000), func(cs *fw.Case) { caseSaga(cs, -1) })
	c.Cases("lineSearch", c.N(6000, 48000), caseLineSearch)
	c.Cases("blahut", c.N(2400, 20000), func(cs *fw.Case) { caseBlahut(cs, -1) })
}
