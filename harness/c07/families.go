// Objective families of the C07 monitor.  Every family carries a closed-form
// value / gradient / Hessian written in plain float64 (the reference; it never
// touches the library's automatic differentiation) together with running
// magnitude sums from which the re-evaluation rounding allowance is derived,
// and an AD-facing evaluation built from the library's Real64 operations (the
// objective that is handed to the routines under test).
package c07

import (
	"errors"
	"fmt"
	"math"

	ad "github.com/pbenner/autodiff"

	"verifharness/internal/prng"
)

const ulp = 1.1102230246251565e-16 // 2^-53

// Ref is a closed-form evaluation: value, gradient, Hessian and for each of
// them the sum of the magnitudes of the terms it was accumulated from.
type Ref struct {
	F    float64
	FAbs float64
	G    []float64
	GAbs []float64
	H    [][]float64
	HAbs [][]float64
}

// Family is a parametrised smooth objective R^n -> R.
type Family interface {
	Name() string
	N() int
	Eval(x []float64) Ref
	// AD evaluates the objective with library scalars so that the result
	// carries the derivatives the caller armed on x.
	AD(x ad.ConstVector) ad.MagicScalar
	// Minimiser returns the unique minimiser if it is known in closed form.
	Minimiser() ([]float64, bool)
	Describe() map[string]any
}

func newRef(n int) Ref {
	r := Ref{G: make([]float64, n), GAbs: make([]float64, n), H: make([][]float64, n), HAbs: make([][]float64, n)}
	for i := range r.H {
		r.H[i] = make([]float64, n)
		r.HAbs[i] = make([]float64, n)
	}
	return r
}

func norm2(v []float64) float64 {
	s := 0.0
	for _, x := range v {
		s += x * x
	}
	return math.Sqrt(s)
}

func cf(x float64) ad.ConstScalar { return ad.ConstFloat64(x) }

/* SPD quadratic  f(x) = 1/2 (x-c)' A (x-c)
 * -------------------------------------------------------------------------- */

type Quadratic struct {
	n         int
	A         [][]float64
	C         []float64
	LambdaMin float64 // certified lower bound of the smallest eigenvalue of A as stored
	LambdaMax float64
	Kappa     float64
}

func randOrthogonal(r *prng.Rand, n int) [][]float64 {
	// Gram-Schmidt on a Gaussian matrix
	q := make([][]float64, n)
	for i := 0; i < n; i++ {
		for {
			v := make([]float64, n)
			for j := range v {
				v[j] = r.Norm()
			}
			for k := 0; k < i; k++ {
				d := 0.0
				for j := range v {
					d += v[j] * q[k][j]
				}
				for j := range v {
					v[j] -= d * q[k][j]
				}
			}
			nv := norm2(v)
			if nv > 1e-3 {
				for j := range v {
					v[j] /= nv
				}
				q[i] = v
				break
			}
		}
	}
	return q
}

func NewQuadratic(r *prng.Rand, n int, kappaMax float64) *Quadratic {
	q := &Quadratic{n: n}
	lam := make([]float64, n)
	kappa := r.LogUniform(1, kappaMax)
	lmax := r.LogUniform(0.5, 8)
	for i := range lam {
		lam[i] = lmax / r.LogUniform(1, kappa)
	}
	lam[0] = lmax
	if n > 1 {
		lam[n-1] = lmax / kappa
	}
	Q := randOrthogonal(r, n)
	q.A = make([][]float64, n)
	for i := range q.A {
		q.A[i] = make([]float64, n)
	}
	for i := 0; i < n; i++ {
		for j := i; j < n; j++ {
			s := 0.0
			for k := 0; k < n; k++ {
				s += Q[k][i] * lam[k] * Q[k][j]
			}
			q.A[i][j] = s
			q.A[j][i] = s
		}
	}
	q.C = make([]float64, n)
	for i := range q.C {
		q.C[i] = r.Uniform(-2, 2)
	}
	lmin := lam[0]
	for _, l := range lam {
		if l < lmin {
			lmin = l
		}
	}
	q.LambdaMax = lmax
	// rounding of the products above and of the orthogonalisation perturbs
	// A by at most ~ n*ulp*lmax in norm; 1e-10*lmax is far above that
	q.LambdaMin = lmin - 1e-10*lmax
	q.Kappa = lmax / lmin
	return q
}

func (q *Quadratic) Name() string { return "quadratic" }
func (q *Quadratic) N() int       { return q.n }
func (q *Quadratic) Minimiser() ([]float64, bool) {
	return append([]float64(nil), q.C...), true
}
func (q *Quadratic) Describe() map[string]any {
	return map[string]any{"family": "quadratic", "A": q.A, "c": q.C, "kappa": q.Kappa}
}

func (q *Quadratic) Eval(x []float64) Ref {
	n := q.n
	r := newRef(n)
	d := make([]float64, n)
	for i := range d {
		d[i] = x[i] - q.C[i]
	}
	for i := 0; i < n; i++ {
		for j := 0; j < n; j++ {
			t := q.A[i][j] * d[j]
			r.G[i] += t
			r.GAbs[i] += math.Abs(q.A[i][j]) * (math.Abs(x[j]) + math.Abs(q.C[j]))
			r.H[i][j] = q.A[i][j]
			r.HAbs[i][j] = math.Abs(q.A[i][j])
			r.F += 0.5 * d[i] * t
			r.FAbs += 0.5 * math.Abs(q.A[i][j]) * (math.Abs(x[j]) + math.Abs(q.C[j])) * (math.Abs(x[i]) + math.Abs(q.C[i]))
		}
	}
	return r
}

func (q *Quadratic) AD(x ad.ConstVector) ad.MagicScalar {
	n := q.n
	d := make([]*ad.Real64, n)
	for i := range d {
		d[i] = ad.NullReal64()
		d[i].Sub(x.ConstAt(i), cf(q.C[i]))
	}
	y := ad.NullReal64()
	t := ad.NullReal64()
	for i := 0; i < n; i++ {
		for j := 0; j < n; j++ {
			t.Mul(d[i], d[j])
			t.Mul(t, cf(0.5*q.A[i][j]))
			y.Add(y, t)
		}
	}
	return y
}

/* separable convex:  sum a_i cosh(b_i (x_i - c_i))   or   sum a_i d^4 + b_i d^2
 * -------------------------------------------------------------------------- */

type Separable struct {
	n    int
	Kind string // cosh | quartic
	A, B []float64
	C    []float64
}

func NewSeparable(r *prng.Rand, n int, kind string) *Separable {
	s := &Separable{n: n, Kind: kind, A: make([]float64, n), B: make([]float64, n), C: make([]float64, n)}
	for i := 0; i < n; i++ {
		s.A[i] = r.LogUniform(0.2, 5)
		s.B[i] = r.LogUniform(0.3, 2)
		s.C[i] = r.Uniform(-1.5, 1.5)
	}
	return s
}

func (s *Separable) Name() string { return "separable-" + s.Kind }
func (s *Separable) N() int       { return s.n }
func (s *Separable) Minimiser() ([]float64, bool) {
	return append([]float64(nil), s.C...), true
}
func (s *Separable) Describe() map[string]any {
	return map[string]any{"family": s.Name(), "a": s.A, "b": s.B, "c": s.C}
}

func (s *Separable) Eval(x []float64) Ref {
	r := newRef(s.n)
	for i := 0; i < s.n; i++ {
		d := x[i] - s.C[i]
		// conditioning of d with respect to the rounding of x_i - c_i
		dAbs := math.Abs(x[i]) + math.Abs(s.C[i])
		a, b := s.A[i], s.B[i]
		if s.Kind == "cosh" {
			ch, sh := math.Cosh(b*d), math.Sinh(b*d)
			r.F += a * ch
			r.FAbs += a * (ch + b*math.Abs(sh)*dAbs)
			r.G[i] = a * b * sh
			r.GAbs[i] = a * b * (math.Abs(sh) + b*ch*dAbs)
			r.H[i][i] = a * b * b * ch
			r.HAbs[i][i] = a * b * b * (ch + b*math.Abs(sh)*dAbs)
		} else {
			r.F += a*d*d*d*d + b*d*d
			r.FAbs += a*d*d*d*d + b*d*d + (4*a*math.Abs(d*d*d)+2*b*math.Abs(d))*dAbs
			r.G[i] = 4*a*d*d*d + 2*b*d
			r.GAbs[i] = 4*a*math.Abs(d*d*d) + 2*b*math.Abs(d) + (12*a*d*d+2*b)*dAbs
			r.H[i][i] = 12*a*d*d + 2*b
			r.HAbs[i][i] = 12*a*d*d + 2*b + 24*a*math.Abs(d)*dAbs
		}
	}
	return r
}

func (s *Separable) AD(x ad.ConstVector) ad.MagicScalar {
	y := ad.NullReal64()
	d := ad.NullReal64()
	t := ad.NullReal64()
	u := ad.NullReal64()
	for i := 0; i < s.n; i++ {
		d.Sub(x.ConstAt(i), cf(s.C[i]))
		if s.Kind == "cosh" {
			t.Mul(d, cf(s.B[i]))
			t.Cosh(t)
			t.Mul(t, cf(s.A[i]))
			y.Add(y, t)
		} else {
			t.Mul(d, d) // d^2
			u.Mul(t, t) // d^4
			u.Mul(u, cf(s.A[i]))
			t.Mul(t, cf(s.B[i]))
			y.Add(y, u)
			y.Add(y, t)
		}
	}
	return y
}

/* separable "soft kink":  sum  mu/2 (x_i-c_i)^2 + (delta^2/K) log cosh(K (x_i-k_i)/delta)
 *
 * Convex; at x_i = k_i the curvature is K + mu while the gradient changes by
 * at most delta across the kink, so a Newton step taken there is far too short
 * (line searches have to extrapolate).
 * -------------------------------------------------------------------------- */

type Kink struct {
	n               int
	Mu, Delta, K, C []float64
	Kp              []float64 // kink positions
}

func NewKink(r *prng.Rand, n int) *Kink {
	k := &Kink{n: n, Mu: make([]float64, n), Delta: make([]float64, n), K: make([]float64, n), C: make([]float64, n), Kp: make([]float64, n)}
	for i := 0; i < n; i++ {
		k.Mu[i] = r.LogUniform(0.05, 1)
		k.Delta[i] = r.LogUniform(0.02, 0.2)
		k.K[i] = r.LogUniform(5, 200)
		k.Kp[i] = r.Uniform(-1, 1)
		d := r.Uniform(0.5, 2)
		if r.Bool() {
			d = -d
		}
		k.C[i] = k.Kp[i] + d
	}
	return k
}

func (k *Kink) Name() string                 { return "separable-kink" }
func (k *Kink) N() int                       { return k.n }
func (k *Kink) Minimiser() ([]float64, bool) { return nil, false }
func (k *Kink) Describe() map[string]any {
	return map[string]any{"family": "separable-kink", "mu": k.Mu, "delta": k.Delta, "K": k.K, "c": k.C, "kink": k.Kp}
}

// Start returns a point at (or within a fraction of the kink width of) the kinks.
func (k *Kink) Start(r *prng.Rand) []float64 {
	x := make([]float64, k.n)
	for i := range x {
		x[i] = k.Kp[i] + r.Uniform(-0.3, 0.3)*k.Delta[i]/k.K[i]
	}
	return x
}

func (k *Kink) Eval(x []float64) Ref {
	r := newRef(k.n)
	for i := 0; i < k.n; i++ {
		d := x[i] - k.C[i]
		dA := math.Abs(x[i]) + math.Abs(k.C[i])
		e := x[i] - k.Kp[i]
		eA := math.Abs(x[i]) + math.Abs(k.Kp[i])
		mu, de, K := k.Mu[i], k.Delta[i], k.K[i]
		u := K * e / de
		lc := math.Abs(u) + math.Log1p(math.Exp(-2*math.Abs(u))) - math.Ln2
		th := math.Tanh(u)
		ex := math.Exp(-2 * math.Abs(u))
		se := 4 * ex / ((1 + ex) * (1 + ex)) // sech^2 without cancellation
		r.F += 0.5*mu*d*d + de*de/K*lc
		r.FAbs += 0.5*mu*dA*dA + de*de/K*(lc+math.Ln2) + de*math.Abs(th)*eA
		r.G[i] = mu*d + de*th
		r.GAbs[i] = mu*dA + de*math.Abs(th) + K*se*eA
		r.H[i][i] = mu + K*se
		r.HAbs[i][i] = mu + K*se + 2*K*K/de*se*math.Abs(th)*eA
	}
	return r
}

func (k *Kink) AD(x ad.ConstVector) ad.MagicScalar {
	y := ad.NullReal64()
	t := ad.NullReal64()
	u := ad.NullReal64()
	v := ad.NullReal64()
	for i := 0; i < k.n; i++ {
		t.Sub(x.ConstAt(i), cf(k.C[i]))
		t.Mul(t, t)
		t.Mul(t, cf(0.5*k.Mu[i]))
		y.Add(y, t)
		u.Sub(x.ConstAt(i), cf(k.Kp[i]))
		u.Mul(u, cf(k.K[i]/k.Delta[i]))
		// log cosh(u) = |u| + log(1+exp(-2|u|)) - log 2, branch on the sign
		if u.GetFloat64() < 0 {
			u.Neg(u)
		}
		v.Mul(u, cf(-2))
		v.Exp(v)
		v.Add(v, cf(1))
		v.Log(v)
		u.Add(u, v)
		u.Sub(u, cf(math.Ln2))
		u.Mul(u, cf(k.Delta[i]*k.Delta[i]/k.K[i]))
		y.Add(y, u)
	}
	return y
}

/* badly scaled convex objective  sum S_i (x_i^4/4 - a_i x_i):  gradient S_i (x_i^3 - a_i)
 * cannot get below about 3 S_i x^2 ulp(x) at float resolution
 * -------------------------------------------------------------------------- */

type SteepQuartic struct {
	n    int
	S, A []float64
}

func NewSteepQuartic(r *prng.Rand, n int) *SteepQuartic {
	q := &SteepQuartic{n: n, S: make([]float64, n), A: make([]float64, n)}
	for i := 0; i < n; i++ {
		q.S[i] = r.LogUniform(1e3, 1e12)
		q.A[i] = r.Uniform(2, 9)
	}
	return q
}

func (q *SteepQuartic) Name() string { return "steep-quartic" }
func (q *SteepQuartic) N() int       { return q.n }
func (q *SteepQuartic) Minimiser() ([]float64, bool) {
	m := make([]float64, q.n)
	for i := range m {
		m[i] = math.Cbrt(q.A[i])
	}
	return m, true
}
func (q *SteepQuartic) Describe() map[string]any {
	return map[string]any{"family": "steep-quartic", "scale": q.S, "a": q.A}
}
func (q *SteepQuartic) Eval(x []float64) Ref {
	r := newRef(q.n)
	for i := 0; i < q.n; i++ {
		x3 := x[i] * x[i] * x[i]
		r.F += q.S[i] * (x3*x[i]/4 - q.A[i]*x[i])
		r.FAbs += q.S[i] * (math.Abs(x3*x[i]) + q.A[i]*math.Abs(x[i]))
		r.G[i] = q.S[i] * (x3 - q.A[i])
		r.GAbs[i] = q.S[i] * (3*math.Abs(x3) + q.A[i])
		r.H[i][i] = 3 * q.S[i] * x[i] * x[i]
		r.HAbs[i][i] = 6 * q.S[i] * x[i] * x[i]
	}
	return r
}
func (q *SteepQuartic) AD(x ad.ConstVector) ad.MagicScalar {
	y := ad.NullReal64()
	t := ad.NullReal64()
	u := ad.NullReal64()
	for i := 0; i < q.n; i++ {
		t.Mul(x.ConstAt(i), x.ConstAt(i))
		t.Mul(t, t)
		t.Mul(t, cf(0.25))
		u.Mul(x.ConstAt(i), cf(q.A[i]))
		t.Sub(t, u)
		t.Mul(t, cf(q.S[i]))
		y.Add(y, t)
	}
	return y
}

/* chained Rosenbrock  sum a (x_{i+1} - x_i^2)^2 + (1 - x_i)^2
 * -------------------------------------------------------------------------- */

type Rosenbrock struct {
	n int
	A float64
}

func NewRosenbrock(r *prng.Rand, n int) *Rosenbrock {
	if n < 2 {
		n = 2
	}
	return &Rosenbrock{n: n, A: r.LogUniform(1, 100)}
}

func (s *Rosenbrock) Name() string { return "rosenbrock" }
func (s *Rosenbrock) N() int       { return s.n }
func (s *Rosenbrock) Minimiser() ([]float64, bool) {
	m := make([]float64, s.n)
	for i := range m {
		m[i] = 1
	}
	return m, true
}
func (s *Rosenbrock) Describe() map[string]any {
	return map[string]any{"family": "rosenbrock", "a": s.A, "n": s.n}
}

func (s *Rosenbrock) Eval(x []float64) Ref {
	r := newRef(s.n)
	a := s.A
	for i := 0; i+1 < s.n; i++ {
		xi, xj := x[i], x[i+1]
		e := xj - xi*xi
		eAbs := math.Abs(xj) + xi*xi
		o := 1 - xi
		oAbs := 1 + math.Abs(xi)
		r.F += a*e*e + o*o
		r.FAbs += a*eAbs*eAbs + oAbs*oAbs
		r.G[i] += -4*a*xi*e - 2*o
		r.GAbs[i] += 4*a*math.Abs(xi)*eAbs + 2*oAbs
		r.G[i+1] += 2 * a * e
		r.GAbs[i+1] += 2 * a * eAbs
		r.H[i][i] += -4*a*e + 8*a*xi*xi + 2
		r.HAbs[i][i] += 4*a*eAbs + 8*a*xi*xi + 2
		r.H[i][i+1] += -4 * a * xi
		r.H[i+1][i] += -4 * a * xi
		r.HAbs[i][i+1] += 4 * a * math.Abs(xi)
		r.HAbs[i+1][i] += 4 * a * math.Abs(xi)
		r.H[i+1][i+1] += 2 * a
		r.HAbs[i+1][i+1] += 2 * a
	}
	return r
}

func (s *Rosenbrock) AD(x ad.ConstVector) ad.MagicScalar {
	y := ad.NullReal64()
	e := ad.NullReal64()
	o := ad.NullReal64()
	for i := 0; i+1 < s.n; i++ {
		e.Mul(x.ConstAt(i), x.ConstAt(i))
		e.Sub(x.ConstAt(i+1), e)
		e.Mul(e, e)
		e.Mul(e, cf(s.A))
		o.Sub(cf(1), x.ConstAt(i))
		o.Mul(o, o)
		y.Add(y, e)
		y.Add(y, o)
	}
	return y
}

/* ridge-regularised logistic loss  sum_k log(1+exp(-y_k z_k'w)) + mu/2 |w|^2
 * -------------------------------------------------------------------------- */

type Logistic struct {
	n  int
	Z  [][]float64
	Y  []float64
	Mu float64
}

func NewLogistic(r *prng.Rand, n int) *Logistic {
	m := r.Range(4, 14)
	l := &Logistic{n: n, Z: make([][]float64, m), Y: make([]float64, m), Mu: r.LogUniform(0.05, 2)}
	for k := 0; k < m; k++ {
		l.Z[k] = make([]float64, n)
		for j := range l.Z[k] {
			l.Z[k][j] = r.Uniform(-1.5, 1.5)
		}
		l.Y[k] = 1
		if r.Bool() {
			l.Y[k] = -1
		}
	}
	return l
}

func (l *Logistic) Name() string                 { return "logistic-ridge" }
func (l *Logistic) N() int                       { return l.n }
func (l *Logistic) Minimiser() ([]float64, bool) { return nil, false }
func (l *Logistic) Describe() map[string]any {
	return map[string]any{"family": "logistic-ridge", "Z": l.Z, "y": l.Y, "mu": l.Mu}
}

func (l *Logistic) Eval(w []float64) Ref {
	r := newRef(l.n)
	for k := range l.Z {
		t, tAbs := 0.0, 0.0
		for j := 0; j < l.n; j++ {
			t += l.Z[k][j] * w[j]
			tAbs += math.Abs(l.Z[k][j] * w[j])
		}
		t *= -l.Y[k] // loss = log(1+exp(t))
		var loss float64
		if t > 0 {
			loss = t + math.Log1p(math.Exp(-t))
		} else {
			loss = math.Log1p(math.Exp(t))
		}
		sg := 1 / (1 + math.Exp(-t)) // d loss / dt
		et := math.Exp(-math.Abs(t))
		ds := et / ((1 + et) * (1 + et)) // sg*(1-sg) without cancellation
		r.F += loss
		r.FAbs += loss + sg*tAbs
		for i := 0; i < l.n; i++ {
			zi := -l.Y[k] * l.Z[k][i]
			r.G[i] += sg * zi
			r.GAbs[i] += math.Abs(zi) * (sg + ds*tAbs)
			for j := 0; j < l.n; j++ {
				zj := -l.Y[k] * l.Z[k][j]
				r.H[i][j] += ds * zi * zj
				r.HAbs[i][j] += math.Abs(zi*zj) * (ds + ds*tAbs)
			}
		}
	}
	for i := 0; i < l.n; i++ {
		r.F += 0.5 * l.Mu * w[i] * w[i]
		r.FAbs += 0.5 * l.Mu * w[i] * w[i]
		r.G[i] += l.Mu * w[i]
		r.GAbs[i] += l.Mu * math.Abs(w[i])
		r.H[i][i] += l.Mu
		r.HAbs[i][i] += l.Mu
	}
	return r
}

func (l *Logistic) AD(w ad.ConstVector) ad.MagicScalar {
	y := ad.NullReal64()
	t := ad.NullReal64()
	u := ad.NullReal64()
	for k := range l.Z {
		t.Reset()
		t.SetFloat64(0)
		first := true
		for j := 0; j < l.n; j++ {
			u.Mul(w.ConstAt(j), cf(-l.Y[k]*l.Z[k][j]))
			if first {
				t.Set(u)
				first = false
			} else {
				t.Add(t, u)
			}
		}
		// log(1+exp(t)) composed from Exp, Add, Log in the overflow-free form
		// t + log(1+exp(-t)) for t > 0
		if t.GetFloat64() > 0 {
			u.Neg(t)
			u.Exp(u)
			u.Add(u, cf(1))
			u.Log(u)
			t.Add(t, u)
		} else {
			t.Exp(t)
			t.Add(t, cf(1))
			t.Log(t)
		}
		y.Add(y, t)
	}
	for i := 0; i < l.n; i++ {
		u.Mul(w.ConstAt(i), w.ConstAt(i))
		u.Mul(u, cf(0.5*l.Mu))
		y.Add(y, u)
	}
	return y
}

/* polynomial systems with a planted root  F(x) = A d + beta_i d_i d_{i+1},  d = x - r
 * -------------------------------------------------------------------------- */

type PolySystem struct {
	n    int
	A    [][]float64
	Beta []float64
	R    []float64
	Mult int // 1: simple root; 2: F_i squared-type (singular Jacobian at the root) for n == 1
	// steep variant: F_i = S_i (x_i^K_i - a_i) with irrational roots a_i^(1/K_i); the
	// residual at the floats next to the root is about S_i K_i x^(K-1) ulp(x)
	Steep   bool
	S, Aoff []float64
	K       []int
}

// NewSteepSystem draws a badly scaled decoupled power system.
func NewSteepSystem(r *prng.Rand, n int) *PolySystem {
	p := &PolySystem{n: n, Mult: 1, Steep: true, S: make([]float64, n), Aoff: make([]float64, n), K: make([]int, n), R: make([]float64, n)}
	for i := 0; i < n; i++ {
		p.S[i] = r.LogUniform(1e3, 1e12)
		p.K[i] = r.Range(2, 3)
		p.Aoff[i] = r.Uniform(2, 9)
		p.R[i] = math.Pow(p.Aoff[i], 1/float64(p.K[i])) // root up to rounding (used for start points only)
	}
	return p
}

func NewPolySystem(r *prng.Rand, n int) *PolySystem {
	p := &PolySystem{n: n, Mult: 1}
	q := NewQuadratic(r, n, 50) // A = SPD part + skew part, well conditioned
	p.A = q.A
	for i := 0; i < n; i++ {
		for j := i + 1; j < n; j++ {
			s := r.Uniform(-0.3, 0.3) * q.LambdaMin
			p.A[i][j] += s
			p.A[j][i] -= s
		}
	}
	p.Beta = make([]float64, n)
	p.R = make([]float64, n)
	for i := range p.Beta {
		p.Beta[i] = r.Uniform(-0.5, 0.5) * q.LambdaMin
		p.R[i] = r.Uniform(-2, 2)
	}
	if n == 1 && r.Chance(0.3) {
		p.Mult = 2
	}
	return p
}

func (p *PolySystem) Name() string {
	if p.Steep {
		return "steep-power-system"
	}
	if p.Mult == 2 {
		return "polysystem-double-root"
	}
	return "polysystem"
}
func (p *PolySystem) Describe() map[string]any {
	if p.Steep {
		return map[string]any{"family": p.Name(), "scale": p.S, "power": p.K, "a": p.Aoff}
	}
	return map[string]any{"family": p.Name(), "A": p.A, "beta": p.Beta, "root": p.R}
}

// EvalF returns F(x), its Jacobian and magnitude sums.
func (p *PolySystem) EvalF(x []float64) (F, FAbs []float64, J, JAbs [][]float64) {
	n := p.n
	F, FAbs = make([]float64, n), make([]float64, n)
	J, JAbs = make([][]float64, n), make([][]float64, n)
	if p.Steep {
		for i := 0; i < n; i++ {
			J[i], JAbs[i] = make([]float64, n), make([]float64, n)
			xk1 := math.Pow(x[i], float64(p.K[i]-1))
			F[i] = p.S[i] * (xk1*x[i] - p.Aoff[i])
			FAbs[i] = p.S[i] * (math.Abs(xk1*x[i])*float64(p.K[i]) + p.Aoff[i])
			J[i][i] = p.S[i] * float64(p.K[i]) * xk1
			JAbs[i][i] = math.Abs(J[i][i]) * float64(p.K[i])
		}
		return
	}
	d, dAbs := make([]float64, n), make([]float64, n)
	for i := range d {
		d[i] = x[i] - p.R[i]
		dAbs[i] = math.Abs(x[i]) + math.Abs(p.R[i])
	}
	for i := 0; i < n; i++ {
		J[i], JAbs[i] = make([]float64, n), make([]float64, n)
		if p.Mult == 2 {
			// n == 1:  F = a d^2 (1 + d^2)
			a := p.A[0][0]
			dd := d[0]
			F[0] = a * dd * dd * (1 + dd*dd)
			FAbs[0] = a*dd*dd*(1+dd*dd) + a*(2*math.Abs(dd)+4*math.Abs(dd*dd*dd))*dAbs[0]
			J[0][0] = a * (2*dd + 4*dd*dd*dd)
			JAbs[0][0] = a*(2*math.Abs(dd)+4*math.Abs(dd*dd*dd)) + a*(2+12*dd*dd)*dAbs[0]
			continue
		}
		k := (i + 1) % n
		for j := 0; j < n; j++ {
			F[i] += p.A[i][j] * d[j]
			FAbs[i] += math.Abs(p.A[i][j]) * dAbs[j]
			J[i][j] += p.A[i][j]
			JAbs[i][j] += math.Abs(p.A[i][j])
		}
		F[i] += p.Beta[i] * d[i] * d[k]
		FAbs[i] += math.Abs(p.Beta[i]) * dAbs[i] * dAbs[k]
		J[i][i] += p.Beta[i] * d[k]
		JAbs[i][i] += math.Abs(p.Beta[i]) * dAbs[k]
		J[i][k] += p.Beta[i] * d[i]
		JAbs[i][k] += math.Abs(p.Beta[i]) * dAbs[i]
	}
	return
}

func (p *PolySystem) AD(x ad.ConstVector) ad.MagicVector {
	n := p.n
	y := ad.NullDenseReal64Vector(n)
	if p.Steep {
		t := ad.NullReal64()
		for i := 0; i < n; i++ {
			t.Set(x.ConstAt(i))
			for k := 1; k < p.K[i]; k++ {
				t.Mul(t, x.ConstAt(i))
			}
			t.Sub(t, cf(p.Aoff[i]))
			y.AT(i).Mul(t, cf(p.S[i]))
		}
		return y
	}
	d := make([]*ad.Real64, n)
	for i := range d {
		d[i] = ad.NullReal64()
		d[i].Sub(x.ConstAt(i), cf(p.R[i]))
	}
	t := ad.NullReal64()
	u := ad.NullReal64()
	for i := 0; i < n; i++ {
		yi := y.AT(i)
		if p.Mult == 2 {
			t.Mul(d[0], d[0])
			u.Add(t, cf(1))
			t.Mul(t, u)
			t.Mul(t, cf(p.A[0][0]))
			yi.Set(t)
			continue
		}
		k := (i + 1) % n
		for j := 0; j < n; j++ {
			t.Mul(d[j], cf(p.A[i][j]))
			yi.Add(yi, t)
		}
		t.Mul(d[i], d[k])
		t.Mul(t, cf(p.Beta[i]))
		yi.Add(yi, t)
	}
	return y
}

/* one-dimensional line-search objectives phi(alpha), phi'(0) < 0
 * -------------------------------------------------------------------------- */

type Line struct {
	Kind string
	P    []float64
}

func NewLine(r *prng.Rand) *Line {
	switch r.Intn(6) {
	case 5: // -alpha + exp(K (alpha - m)): gentle descent, then an exponentially steep wall
		K := r.LogUniform(5, 200)
		return &Line{"exp-wall", []float64{K, (math.Log(K)+1)/K + r.LogUniform(0.05, 10)}}
	case 0: // a (alpha - m)^2
		return &Line{"quadratic", []float64{r.LogUniform(0.01, 100), r.LogUniform(0.001, 1000)}}
	case 1: // (alpha-m)^4 + b (alpha-m)^2
		return &Line{"quartic", []float64{r.LogUniform(0.01, 50), r.LogUniform(0.01, 10)}}
	case 2: // cosh(b (alpha - m))
		return &Line{"cosh", []float64{r.LogUniform(0.05, 3), r.LogUniform(0.01, 20)}}
	case 3: // More-Thuente: -alpha / (alpha^2 + beta)
		return &Line{"more-thuente-1", []float64{r.LogUniform(0.01, 100)}}
	default: // exp(-alpha) + a alpha^2 : steep start, minimum further out
		return &Line{"exp-quad", []float64{r.LogUniform(1e-4, 1)}}
	}
}

// Eval returns phi, phi', and magnitude sums.
func (l *Line) Eval(a float64) (f, g, fAbs, gAbs float64) {
	switch l.Kind {
	case "quadratic":
		c, m := l.P[0], l.P[1]
		d := a - m
		dA := math.Abs(a) + m
		return c * d * d, 2 * c * d, c * dA * dA, 2 * c * dA
	case "quartic":
		m, b := l.P[0], l.P[1]
		d := a - m
		dA := math.Abs(a) + m
		return d*d*d*d + b*d*d, 4*d*d*d + 2*b*d, d*d*d*d + b*d*d + (4*math.Abs(d*d*d)+2*b*math.Abs(d))*dA,
			4*math.Abs(d*d*d) + 2*b*math.Abs(d) + (12*d*d+2*b)*dA
	case "cosh":
		b, m := l.P[0], l.P[1]
		d := a - m
		dA := math.Abs(a) + m
		ch, sh := math.Cosh(b*d), math.Sinh(b*d)
		return ch, b * sh, ch + b*math.Abs(sh)*dA, b*math.Abs(sh) + b*b*ch*dA
	case "exp-wall":
		K, m := l.P[0], l.P[1]
		e := math.Exp(K * (a - m))
		cond := K * (math.Abs(a) + m) // conditioning of exp(K(a-m))
		return -a + e, -1 + K*e, math.Abs(a) + e*(1+cond), 1 + K*e*(1+cond)
	case "more-thuente-1":
		be := l.P[0]
		q := a*a + be
		return -a / q, (a*a - be) / (q * q), math.Abs(a) / q * 3, (a*a + be) / (q * q) * 5
	default:
		c := l.P[0]
		e := math.Exp(-a)
		return e + c*a*a, -e + 2*c*a, e*(1+math.Abs(a)) + c*a*a, e*(1+math.Abs(a)) + 2*c*math.Abs(a)
	}
}

func (l *Line) AD(alpha ad.ConstScalar) ad.MagicScalar {
	y := ad.NullReal64()
	t := ad.NullReal64()
	switch l.Kind {
	case "quadratic":
		t.Sub(alpha, cf(l.P[1]))
		t.Mul(t, t)
		y.Mul(t, cf(l.P[0]))
	case "quartic":
		t.Sub(alpha, cf(l.P[0]))
		t.Mul(t, t)
		y.Mul(t, t)
		t.Mul(t, cf(l.P[1]))
		y.Add(y, t)
	case "cosh":
		t.Sub(alpha, cf(l.P[1]))
		t.Mul(t, cf(l.P[0]))
		y.Cosh(t)
	case "exp-wall":
		t.Sub(alpha, cf(l.P[1]))
		t.Mul(t, cf(l.P[0]))
		t.Exp(t)
		y.Sub(t, alpha)
	case "more-thuente-1":
		t.Mul(alpha, alpha)
		t.Add(t, cf(l.P[0]))
		y.Div(alpha, t)
		y.Neg(y)
	default:
		t.Neg(alpha)
		t.Exp(t)
		y.Mul(alpha, alpha)
		y.Mul(y, cf(l.P[0]))
		y.Add(y, t)
	}
	return y
}

/* helpers shared by the monitors
 * -------------------------------------------------------------------------- */

func toSlice(v ad.ConstVector) []float64 {
	r := make([]float64, v.Dim())
	for i := range r {
		r[i] = v.ConstAt(i).GetFloat64()
	}
	return r
}

var errObjective = errors.New("objective: injected error")

func pickFamily(r *prng.Rand, n int, allowed []string) Family {
	switch r.Pick(allowed) {
	case "quadratic":
		return NewQuadratic(r, n, 1e4)
	case "quadratic-mild":
		return NewQuadratic(r, n, 30)
	case "cosh":
		return NewSeparable(r, n, "cosh")
	case "quartic":
		return NewSeparable(r, n, "quartic")
	case "rosenbrock":
		return NewRosenbrock(r, n)
	case "logistic":
		return NewLogistic(r, n)
	case "kink":
		return NewKink(r, n)
	case "steep":
		return NewSteepQuartic(r, n)
	}
	panic("unknown family")
}

func fmtVec(v []float64) string { return fmt.Sprintf("%.17g", v) }
