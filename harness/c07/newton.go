package c07

import (
	"fmt"

	ad "github.com/pbenner/autodiff"
	"github.com/pbenner/autodiff/algorithm/newton"

	"verifharness/internal/fw"
	"verifharness/internal/prng"
)

/* Newton: root / critical point / minimum
 * -------------------------------------------------------------------------- */

func caseNewton(cs *fw.Case) {
	r := cs.R
	switch r.Pick([]string{"root", "crit", "min", "min"}) {
	case "root":
		newtonRoot(cs)
	case "crit":
		newtonCritMin(cs, "RunCrit")
	default:
		newtonCritMin(cs, "RunMin")
	}
}

func newtonRoot(cs *fw.Case) {
	r := cs.R
	n := r.Range(1, 5)
	ps := NewPolySystem(r, n)
	if r.Chance(0.35) {
		// badly scaled system with irrational roots: the residual cannot get below
		// epsilon at float resolution, the Newton step stalls
		ps = NewSteepSystem(r, r.Range(1, 3))
		n = ps.n
	}
	x0 := make([]float64, n)
	for i := range x0 {
		x0[i] = ps.R[i] + r.Uniform(-0.4, 0.4)
	}
	eps := r.LogUniform(1e-10, 1e-4)
	maxIter := 500
	ckind := pickConsKind(r, 0.6)
	c := genCons(r, ckind, x0, ps.R)
	inf := c.Kind != "none" && !c.ok(ps.R)
	ru := &run{cs: cs, monitor: "newton", routine: "newton.RunRoot", opts: "-", class: ps.Name()}
	ru.witness = map[string]any{"system": ps.Describe(), "x0": x0, "epsilon": eps, "maxIterations": maxIter, "constraints": c.describe()}
	evals, hooks := 0, 0
	f := func(x ad.ConstVector) (ad.MagicVector, error) {
		evals++
		return ps.AD(x), nil
	}
	hook := func(x ad.ConstVector, J ad.ConstMatrix, y ad.ConstVector) bool {
		hooks++
		xs := toSlice(x)
		F, FAbs, Jr, JAbs := ps.EvalF(xs)
		ys := toSlice(y)
		cs.Cover("judged:hook:newton.RunRoot")
		for i := range ys {
			if tol := KRound*ulp*FAbs[i] + 1e-300; !(abs(ys[i]-F[i]) <= tol) {
				ru.viol("hook-mismatch:value", fmt.Sprintf("hook call %d: F[%d] = %.17g at x = %s, closed form %.17g (allowance %.3g)", hooks, i, ys[i], fmtVec(xs), F[i], tol))
				break
			}
		}
		ru.checkHookMatrix(J, Jr, JAbs, xs, "jacobian")
		ru.checkCons(c, xs, "iterate", inf)
		return false
	}
	args := []interface{}{newton.Epsilon{Value: eps}, newton.MaxIterations{Value: maxIter}, newton.HookRoot{Value: hook}}
	if fn := c.fn(); fn != nil {
		args = append(args, newton.Constraints{Value: fn})
	}
	t0 := fw.TickCount("newton.iter")
	var xr ad.Vector
	var err error
	p := guarded(int64(maxIter)*1000+10000, func() {
		xr, err = newton.RunRoot(reuseVectorResult(cs, n, f), ad.NewDenseFloat64Vector(cloneF(x0)), args...)
	})
	iters := int(fw.TickCount("newton.iter") - t0)
	o := ru.outcome(p, err, false, iters >= maxIter)
	cs.Cover("family:" + ps.Name())
	cs.C.CoverMax("max:iterations:newton", int64(iters))
	if o == "no-return" {
		cs.Skip("no-return")
		return
	}
	if o == "panic" {
		cs.Cover("panic:newton:" + p.Frame)
		return
	}
	if evals > 1 {
		cs.Nontrivial("newton.root", ps.Describe(), x0, eps, c.describe())
	}
	cs.Sample(map[string]any{"routine": ru.routine, "case": ru.witness, "outcome": o, "iterations": iters, "returned": vecOrNil(xr), "err": errString(err)})
	if err != nil || xr == nil {
		return
	}
	xs := toSlice(xr)
	ru.checkCons(c, xs, "returned", inf)
	if o == "converged" {
		ru.checkResidualStop(ps, xs, eps)
	}
}

// caseNewtonDirected: RunMin started on the kinks of the soft-kink family (the
// line search has to extrapolate) under box / half-space constraints; the
// generator does not depend on VERIF_SEED.
func caseNewtonDirected(cs *fw.Case) {
	cs.R = prng.For(20261003, "newton.directed", cs.Index)
	newtonCritMinOpt(cs, "RunMin", true)
}

func newtonCritMin(cs *fw.Case, variant string) { newtonCritMinOpt(cs, variant, false) }

func newtonCritMinOpt(cs *fw.Case, variant string, directed bool) {
	r := cs.R
	n := r.Range(1, 5)
	fams := allFamilies
	if directed {
		fams = []string{"kink"}
	}
	if !directed && r.Chance(0.2) {
		fams = []string{"steep"} // gradient cannot get below epsilon at float resolution
		n = r.Range(1, 3)
	}
	fam := pickFamily(r, n, fams)
	n = fam.N()
	radius := 1.5
	if fam.Name() == "rosenbrock" {
		radius = 0.8
	}
	x0 := startPoint(r, fam, radius)
	eps := r.LogUniform(1e-10, 1e-4)
	maxIter := 500
	hm := r.Pick([]string{"None", "None", "None", "LDL", "LDL", "LDL", "LDL", "Eigenvalue"})
	ckind := pickConsKind(r, 0.55)
	if directed {
		ckind = []string{"box", "halfspace"}[cs.Index%2]
		hm = []string{"None", "LDL"}[(cs.Index/2)%2]
	}
	target, _ := fam.Minimiser()
	c := genCons(r, ckind, x0, target)
	inf := infeasible(c, fam)
	ru := &run{cs: cs, order: 2, monitor: "newton", routine: "newton." + variant, opts: "hessianModification=" + hm, class: fam.Name()}
	ru.witness = map[string]any{"objective": fam.Describe(), "x0": x0, "epsilon": eps, "maxIterations": maxIter, "hessianModification": hm, "constraints": c.describe()}
	evals, hooks := 0, 0
	f := func(x ad.ConstVector) (ad.MagicScalar, error) {
		evals++
		return fam.AD(x), nil
	}
	args := []interface{}{newton.Epsilon{Value: eps}, newton.MaxIterations{Value: maxIter}, newton.HessianModification{Value: hm}}
	if fn := c.fn(); fn != nil {
		args = append(args, newton.Constraints{Value: fn})
	}
	if variant == "RunCrit" {
		args = append(args, newton.HookCrit{Value: func(x ad.ConstVector, H ad.ConstMatrix, g ad.ConstVector) bool {
			hooks++
			xs := toSlice(x)
			ref := fam.Eval(xs)
			ru.checkHook(fam, xs, toSlice(g), nil, hooks)
			ru.checkHookMatrix(H, ref.H, ref.HAbs, xs, "hessian")
			ru.checkCons(c, xs, "iterate", inf)
			return false
		}})
	} else {
		args = append(args, newton.HookMin{Value: func(x, g ad.ConstVector, H ad.ConstMatrix, y ad.ConstScalar) bool {
			hooks++
			xs := toSlice(x)
			ref := fam.Eval(xs)
			var yp *float64
			if y != nil {
				yv := y.GetFloat64()
				yp = &yv
			}
			ru.checkHook(fam, xs, toSlice(g), yp, hooks)
			ru.checkHookMatrix(H, ref.H, ref.HAbs, xs, "hessian")
			ru.checkCons(c, xs, "iterate", inf)
			return false
		}})
	}
	t0 := fw.TickCount("newton.iter")
	var xr ad.Vector
	var err error
	p := guarded(int64(maxIter)*2000+20000, func() {
		if variant == "RunCrit" {
			xr, err = newton.RunCrit(reuseResult(cs, f), ad.NewDenseFloat64Vector(cloneF(x0)), args...)
		} else {
			xr, err = newton.RunMin(reuseResult(cs, f), ad.NewDenseFloat64Vector(cloneF(x0)), args...)
		}
	})
	iters := int(fw.TickCount("newton.iter") - t0)
	o := ru.outcome(p, err, false, iters >= maxIter)
	cs.Cover("family:" + fam.Name())
	cs.Cover("hessianModification:" + hm)
	cs.C.CoverMax("max:iterations:newton", int64(iters))
	if o == "no-return" {
		cs.Skip("no-return")
		return
	}
	if o == "panic" {
		cs.Cover("panic:newton:" + p.Frame)
		return
	}
	if evals > 1 {
		cs.Nontrivial("newton", variant, fam.Describe(), x0, eps, hm, c.describe())
	}
	cs.Sample(map[string]any{"routine": ru.routine, "case": ru.witness, "outcome": o, "iterations": iters, "returned": vecOrNil(xr), "err": errString(err)})
	if err != nil || xr == nil {
		return
	}
	xs := toSlice(xr)
	ru.checkCons(c, xs, "returned", inf)
	if o == "converged" {
		ru.checkGradStop(fam, xs, eps, nil)
	}
}
