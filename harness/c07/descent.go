package c07

import (
	"fmt"
	ad "github.com/pbenner/autodiff"
	"github.com/pbenner/autodiff/algorithm/adam"
	"github.com/pbenner/autodiff/algorithm/bfgs"
	"github.com/pbenner/autodiff/algorithm/gradientDescent"
	"github.com/pbenner/autodiff/algorithm/rprop"

	"verifharness/internal/fw"
	"verifharness/internal/prng"
)

var allFamilies = []string{"quadratic", "quadratic-mild", "cosh", "quartic", "rosenbrock", "logistic", "kink"}
var convexFamilies = []string{"quadratic-mild", "cosh", "quartic", "logistic"}

/* BFGS
 * -------------------------------------------------------------------------- */

func caseBFGS(cs *fw.Case, directed int) {
	if directed >= 0 {
		cs.R = prng.For(20261003, "bfgs.directed", cs.Index) // independent of VERIF_SEED
	}
	r := cs.R
	n := r.Range(1, 6)
	fam := pickFamily(r, n, allFamilies)
	if directed < 0 && r.Chance(0.1) {
		fam = NewSteepQuartic(r, r.Range(1, 3))
	}
	n = fam.N()
	x0 := startPoint(r, fam, 2)
	eps := r.LogUniform(1e-9, 1e-3)
	maxIter := 3000
	hess := r.Pick([]string{"default", "default", "scaled", "exact"})
	ckind := pickConsKind(r, 0.55)
	if directed >= 0 {
		// witnesses of the known "constraints only checked at the start" behaviour:
		// quadratic whose minimiser lies outside the box / half-space
		fam = NewQuadratic(r, 1+directed%3, 30)
		n = fam.N()
		x0 = startPoint(r, fam, 2)
		hess = "default"
		ckind = []string{"box", "halfspace"}[directed%2]
	}
	target, _ := fam.Minimiser()
	c := genCons(r, ckind, x0, target)
	if directed >= 0 {
		for tries := 0; tries < 50 && !infeasible(c, fam); tries++ {
			c = genCons(r, ckind, x0, target)
		}
	}
	ru := &run{cs: cs, monitor: "bfgs", routine: "bfgs.Run", opts: "hessian=" + hess, class: fam.Name()}
	ru.witness = map[string]any{"objective": fam.Describe(), "x0": x0, "epsilon": eps, "maxIterations": maxIter, "hessian": hess, "constraints": c.describe()}
	inf := infeasible(c, fam)

	evals, hooks := 0, 0
	var lastEval []float64
	f := func(x ad.ConstVector) (ad.MagicScalar, error) {
		evals++
		lastEval = toSlice(x)
		return fam.AD(x), nil
	}
	hook := func(x, g ad.ConstVector, y ad.ConstScalar) bool {
		hooks++
		xs, gs, yv := toSlice(x), toSlice(g), y.GetFloat64()
		ru.checkHook(fam, xs, gs, &yv, hooks)
		ru.checkCons(c, xs, "iterate", inf)
		return false
	}
	args := []interface{}{bfgs.Epsilon{Value: eps}, bfgs.MaxIterations{Value: maxIter}, bfgs.Hook{Value: hook}}
	if fn := c.fn(); fn != nil {
		args = append(args, bfgs.Constraints{Value: fn})
	}
	switch hess {
	case "scaled":
		B := ad.NullDenseFloat64Matrix(n, n)
		s := r.LogUniform(0.1, 10)
		for i := 0; i < n; i++ {
			B.At(i, i).SetFloat64(s)
		}
		args = append(args, bfgs.Hessian{Value: B})
	case "exact":
		ref := fam.Eval(x0)
		B := ad.NullDenseFloat64Matrix(n, n)
		for i := 0; i < n; i++ {
			for j := 0; j < n; j++ {
				B.At(i, j).SetFloat64(ref.H[i][j])
			}
		}
		args = append(args, bfgs.Hessian{Value: B})
	}
	t0 := fw.TickCount("bfgs.iter")
	var xr ad.Vector
	var err error
	p := guarded(int64(maxIter)*50+1000, func() { xr, err = bfgs.Run(reuseResult(cs, f), ad.NewDenseFloat64Vector(cloneF(x0)), args...) })
	iters := int(fw.TickCount("bfgs.iter") - t0)
	capped := iters >= maxIter
	o := ru.outcome(p, err, false, capped)
	cs.Cover("family:" + fam.Name())
	cs.C.CoverMax("max:iterations:bfgs", int64(iters))
	if o == "no-return" {
		cs.Skip("no-return")
		return
	}
	if o == "panic" {
		// a panic is a loud failure, not a silent wrong answer; C07 does not judge it
		cs.Cover("panic:bfgs:" + p.Frame)
		return
	}
	if evals > 1 {
		cs.Nontrivial("bfgs", fam.Describe(), x0, eps, hess, c.describe())
	}
	cs.Sample(map[string]any{"routine": "bfgs.Run", "case": ru.witness, "outcome": o, "iterations": iters, "evaluations": evals, "returned": vecOrNil(xr), "err": errString(err)})
	if err != nil || xr == nil {
		return
	}
	xs := toSlice(xr)
	ru.checkCons(c, xs, "returned", inf)
	if o == "converged" {
		ru.checkGradStop(fam, xs, eps, lastEval)
	}
}

func vecOrNil(v ad.ConstVector) any {
	if v == nil {
		return nil
	}
	return toSlice(v)
}

/* Rprop (AD objective and explicit-gradient variant)
 * -------------------------------------------------------------------------- */

// caseRprop: mode "" is the general workload; the constrained modes place
// the unconstrained minimiser outside the feasible set and steer a trial step
// into the infeasible region where the stopping criterion holds:
//
//	"hit"  - every coordinate of x0 is one initial step away from the minimiser
//	         (separable objective), so the first trial point is the minimiser;
//	"near" - loose epsilon, minimiser only slightly behind the boundary, so
//	         infeasible points next to the boundary satisfy |grad| < epsilon.
func caseRprop(cs *fw.Case, directed int, mode string) {
	if directed >= 0 {
		cs.R = prng.For(20261003, "rprop.directed", cs.Index) // independent of VERIF_SEED
	}
	r := cs.R
	n := r.Range(1, 6)
	fam := pickFamily(r, n, allFamilies)
	n = fam.N()
	x0 := startPoint(r, fam, 2)
	eps := r.LogUniform(1e-8, 1e-3)
	maxIter := 4000
	step := r.LogUniform(1e-3, 0.5)
	eta := []float64{r.Uniform(1.05, 1.5), r.Uniform(0.2, 0.8)}
	variant := r.Pick([]string{"Run", "Run", "RunGradient"})
	ckind := pickConsKind(r, 0.6)
	if directed >= 0 {
		variant = "RunGradient"
		ckind = "none"
	}
	if mode != "" {
		variant = r.Pick([]string{"RunGradient", "RunGradient", "Run"})
		ckind = r.Pick([]string{"box", "halfspace"})
		n = r.Range(1, 4)
		fam = pickFamily(r, n, []string{"cosh", "quartic"})
		maxIter = 2000
		m, _ := fam.Minimiser()
		x0 = make([]float64, n)
		if mode == "hit" {
			step = r.LogUniform(0.05, 2)
			eps = r.LogUniform(1e-8, 1e-4)
			for i := range x0 {
				x0[i] = m[i] - step
				if r.Bool() {
					x0[i] = m[i] + step
				}
			}
		} else {
			eps = r.LogUniform(1e-2, 1e-1)
			for i := range x0 {
				x0[i] = m[i] + r.Uniform(-1.5, 1.5)
			}
		}
	}
	target, _ := fam.Minimiser()
	c := genCons(r, ckind, x0, target)
	if mode != "" {
		c = consExcluding(r, ckind, x0, target, mode == "near")
	}
	inf := infeasible(c, fam)
	if mode != "" {
		cs.Cover("rprop-constrained:" + mode + ":" + variant)
		if inf {
			cs.Cover("rprop-constrained:minimiser-infeasible")
		}
	}
	ru := &run{cs: cs, explicit: variant == "RunGradient", monitor: "rprop", routine: "rprop." + variant, opts: "-", class: fam.Name()}
	ru.witness = map[string]any{"objective": fam.Describe(), "x0": x0, "epsilon": eps, "maxIterations": maxIter, "step": step, "eta": eta, "constraints": c.describe(), "mode": mode}

	evals, hooks := 0, 0
	var lastEval []float64
	var xr ad.ConstVector
	var err error
	var p *fw.Panic
	site := "rprop.iter"
	if variant == "RunGradient" {
		site = "rpropDense.iter"
	}
	t0 := fw.TickCount(site)
	budget := int64(maxIter)*200 + 10000
	if variant == "Run" {
		f := func(x ad.ConstVector) (ad.MagicScalar, error) {
			evals++
			lastEval = toSlice(x)
			return fam.AD(x), nil
		}
		hook := func(g, st []float64, x ad.ConstVector, s ad.ConstScalar) bool {
			hooks++
			xs := toSlice(x)
			yv := s.GetFloat64()
			ru.checkHook(fam, xs, cloneF(g), &yv, hooks)
			ru.checkCons(c, xs, "iterate", inf)
			return false
		}
		args := []interface{}{rprop.Epsilon{Value: eps}, rprop.MaxIterations{Value: maxIter}, rprop.Hook{Value: hook}}
		if fn := c.fn(); fn != nil {
			args = append(args, rprop.Constraints{Value: fn})
		}
		p = guarded(budget, func() {
			var v ad.Vector
			v, err = rprop.Run(reuseResult(cs, f), ad.NewDenseFloat64Vector(cloneF(x0)), step, eta, args...)
			if v != nil {
				xr = v
			}
		})
	} else {
		g := rprop.DenseGradientF(func(x, grad ad.DenseFloat64Vector) error {
			evals++
			lastEval = cloneF(x)
			ref := fam.Eval([]float64(x))
			copy(grad, ref.G)
			return nil
		})
		hook := func(g, st []float64, x ad.ConstVector, s ad.ConstScalar) bool {
			hooks++
			xs := toSlice(x)
			ru.checkHook(fam, xs, cloneF(g), nil, hooks)
			ru.checkCons(c, xs, "iterate", inf)
			return false
		}
		args := []interface{}{rprop.Epsilon{Value: eps}, rprop.MaxIterations{Value: maxIter}, rprop.Hook{Value: hook}}
		if fn := c.constFn(); fn != nil {
			args = append(args, rprop.ConstConstraints{Value: fn})
		}
		p = guarded(budget, func() {
			xr, err = rprop.RunGradient(g, ad.NewDenseFloat64Vector(cloneF(x0)), step, eta, args...)
		})
	}
	iters := int(fw.TickCount(site) - t0)
	o := ru.outcome(p, err, false, iters >= maxIter)
	cs.Cover("family:" + fam.Name())
	cs.C.CoverMax("max:iterations:rprop", int64(iters))
	if o == "no-return" {
		cs.Skip("no-return")
		return
	}
	if o == "panic" {
		cs.Cover("panic:rprop:" + p.Frame)
		return
	}
	if evals > 1 {
		cs.Nontrivial("rprop", variant, fam.Describe(), x0, eps, step, eta, c.describe())
	}
	cs.Sample(map[string]any{"routine": ru.routine, "case": ru.witness, "outcome": o, "iterations": iters, "evaluations": evals, "returned": vecOrNil(xr), "err": errString(err)})
	if err != nil || xr == nil {
		return
	}
	xs := toSlice(xr)
	ru.checkCons(c, xs, "returned", inf)
	if o == "converged" {
		ru.checkGradStop(fam, xs, eps, lastEval)
	}
}

/* gradient descent
 * -------------------------------------------------------------------------- */

func caseGD(cs *fw.Case) {
	r := cs.R
	n := r.Range(1, 5)
	fam := pickFamily(r, n, convexFamilies)
	x0 := startPoint(r, fam, 1.5)
	eps := r.LogUniform(1e-8, 1e-3)
	maxIter := 20000
	// step relative to a Gershgorin bound of the Hessian at the start (the
	// farthest point of the sublevel set for these convex families)
	ref0 := fam.Eval(x0)
	L := 0.0
	for i := range ref0.H {
		s := 0.0
		for j := range ref0.H[i] {
			s += abs(ref0.H[i][j])
		}
		if s > L {
			L = s
		}
	}
	step := r.Uniform(0.05, 1.2) / L
	ru := &run{cs: cs, monitor: "gradientDescent", routine: "gradientDescent.Run", opts: "-", class: fam.Name()}
	ru.witness = map[string]any{"objective": fam.Describe(), "x0": x0, "epsilon": eps, "step": step, "hookCap": maxIter}
	evals, hooks := 0, 0
	var lastEval []float64
	stopped := false
	f := func(x ad.ConstVector) (ad.MagicScalar, error) {
		evals++
		lastEval = toSlice(x)
		return fam.AD(x), nil
	}
	hook := func(g []float64, x ad.ConstVector, s ad.ConstScalar) bool {
		hooks++
		if hooks <= 50 || hooks%97 == 0 {
			yv := s.GetFloat64()
			ru.checkHook(fam, toSlice(x), cloneF(g), &yv, hooks)
		}
		if hooks >= maxIter {
			stopped = true // the routine has no iteration cap of its own
			return true
		}
		return false
	}
	var xr ad.Vector
	var err error
	p := guarded(int64(maxIter)+1000, func() {
		xr, err = gradientDescent.Run(reuseResult(cs, f), ad.NewDenseFloat64Vector(cloneF(x0)), step, gradientDescent.Epsilon{Value: eps}, gradientDescent.Hook{Value: hook})
	})
	o := ru.outcome(p, err, false, stopped)
	cs.Cover("family:" + fam.Name())
	cs.C.CoverMax("max:iterations:gradientDescent", int64(hooks))
	if o == "no-return" {
		cs.Skip("no-return")
		return
	}
	if o == "panic" {
		cs.Cover("panic:gradientDescent:" + p.Frame) // "Gradient descent diverged!" is a loud failure
		return
	}
	if evals > 1 {
		cs.Nontrivial("gd", fam.Describe(), x0, eps, step)
	}
	cs.Sample(map[string]any{"routine": ru.routine, "case": ru.witness, "outcome": o, "iterations": hooks, "returned": vecOrNil(xr), "err": errString(err)})
	if err != nil || xr == nil {
		return
	}
	if o == "converged" {
		ru.checkGradStop(fam, toSlice(xr), eps, lastEval)
	}
}

func abs(x float64) float64 {
	if x < 0 {
		return -x
	}
	return x
}

/* Adam (AD objective and explicit-gradient variant)
 * -------------------------------------------------------------------------- */

func caseAdam(cs *fw.Case, directed int) {
	if directed >= 0 {
		cs.R = prng.For(20261003, "adam.directed", cs.Index) // independent of VERIF_SEED
	}
	r := cs.R
	n := r.Range(1, 4)
	fam := pickFamily(r, n, convexFamilies)
	variant := r.Pick([]string{"Run", "Run", "RunGradient"})
	if directed >= 0 {
		variant = "RunGradient"
	}
	radius := 1.5
	if variant == "RunGradient" {
		radius = 0.5 // step size is fixed at 0.001 there
	}
	x0 := startPoint(r, fam, radius)
	eps := r.LogUniform(1e-4, 1e-2)
	maxIter := 15000
	stepSize := r.LogUniform(1e-3, 3e-2)
	ckind := pickConsKind(r, 0.6)
	target, _ := fam.Minimiser()
	c := genCons(r, ckind, x0, target)
	inf := infeasible(c, fam)
	ru := &run{cs: cs, explicit: variant == "RunGradient", monitor: "adam", routine: "adam." + variant, opts: "-", class: fam.Name()}
	ru.witness = map[string]any{"objective": fam.Describe(), "x0": x0, "epsilon": eps, "maxIterations": maxIter, "stepSize": stepSize, "constraints": c.describe()}
	evals, hooks := 0, 0
	var lastEval []float64
	var xr ad.ConstVector
	var err error
	var p *fw.Panic
	site := "adam.iter"
	if variant == "RunGradient" {
		site = "adamDense.iter"
	}
	t0 := fw.TickCount(site)
	if variant == "Run" {
		f := func(x ad.ConstVector) (ad.MagicScalar, error) {
			evals++
			lastEval = toSlice(x)
			return fam.AD(x), nil
		}
		hook := func(x, g ad.ConstVector, s ad.ConstScalar) bool {
			hooks++
			if hooks <= 50 || hooks%97 == 0 {
				xs := toSlice(x)
				yv := s.GetFloat64()
				ru.checkHook(fam, xs, toSlice(g), &yv, hooks)
				ru.checkCons(c, xs, "iterate", inf)
			}
			return false
		}
		args := []interface{}{adam.Epsilon{Value: eps}, adam.MaxIterations{Value: maxIter}, adam.StepSize{Value: stepSize}, adam.Hook{Value: hook}}
		if fn := c.fn(); fn != nil {
			args = append(args, adam.Constraints{Value: fn})
		}
		p = guarded(int64(maxIter)+1000, func() {
			var v ad.Vector
			v, err = adam.Run(reuseResult(cs, f), ad.NewDenseFloat64Vector(cloneF(x0)), args...)
			if v != nil {
				xr = v
			}
		})
	} else {
		g := adam.DenseGradientF(func(x, grad ad.DenseFloat64Vector) error {
			evals++
			lastEval = cloneF(x)
			copy(grad, fam.Eval([]float64(x)).G)
			return nil
		})
		hook := func(x, g ad.ConstVector, s ad.ConstScalar) bool {
			hooks++
			if hooks <= 50 || hooks%97 == 0 {
				xs := toSlice(x)
				ru.checkHook(fam, xs, toSlice(g), nil, hooks)
				ru.checkCons(c, xs, "iterate", inf)
			}
			return false
		}
		args := []interface{}{adam.Epsilon{Value: eps}, adam.MaxIterations{Value: maxIter}, adam.Hook{Value: hook}}
		withStep := r.Chance(0.25) || directed >= 0
		if withStep {
			// StepSize is an option of the package; RunGradient has the same step_size variable as Run
			args = append(args, adam.StepSize{Value: 0.001})
			ru.witness["stepSizeOption"] = 0.001
		}
		defer func() {
			if withStep && p != nil && !p.Budget {
				ru.violWith("stepSize", "any", "panic-on-valid-call", fmt.Sprintf("adam.RunGradient with the StepSize option panicked: %s", p.Msg))
			}
		}()
		if fn := c.constFn(); fn != nil {
			args = append(args, adam.ConstConstraints{Value: fn})
		}
		p = guarded(int64(maxIter)+1000, func() {
			xr, err = adam.RunGradient(g, ad.NewDenseFloat64Vector(cloneF(x0)), args...)
		})
	}
	iters := int(fw.TickCount(site) - t0)
	o := ru.outcome(p, err, false, iters >= maxIter)
	cs.Cover("family:" + fam.Name())
	cs.C.CoverMax("max:iterations:adam", int64(iters))
	if o == "no-return" {
		cs.Skip("no-return")
		return
	}
	if o == "panic" {
		cs.Cover("panic:adam:" + p.Frame)
		return
	}
	if evals > 1 {
		cs.Nontrivial("adam", variant, fam.Describe(), x0, eps, stepSize, c.describe())
	}
	cs.Sample(map[string]any{"routine": ru.routine, "case": ru.witness, "outcome": o, "iterations": iters, "returned": vecOrNil(xr), "err": errString(err)})
	if err != nil || xr == nil {
		return
	}
	xs := toSlice(xr)
	ru.checkCons(c, xs, "returned", inf)
	if o == "converged" {
		ru.checkGradStop(fam, xs, eps, lastEval)
	}
}
