package c07

import (
	"fmt"
	"math"

	ad "github.com/pbenner/autodiff"
	"github.com/pbenner/autodiff/algorithm/saga"

	"verifharness/internal/fw"
	"verifharness/internal/prng"
)

/* SAGA on finite sums  (1/m) sum_i loss_i(z_i'x)  (+ optional proximal term)
 *
 * The stopping rule read from saga.EvalStopping: after an epoch the routine
 * returns (nil error) when  max_i |x_i - xs_i| / max_i |x_i| <= epsilon*gamma
 * (or both maxima are zero), xs being the iterate at the end of the previous
 * epoch.  xs is observed without the library's hook: the first objective
 * evaluation of every epoch is made at xs.
 * -------------------------------------------------------------------------- */

func caseSaga(cs *fw.Case, directed int) {
	if directed >= 0 {
		cs.R = prng.For(20261003, "saga.directed", cs.Index) // independent of VERIF_SEED
	}
	r := cs.R
	d := r.Range(1, 5)
	m := r.Range(d+2, 18)
	loss := r.Pick([]string{"squared", "logistic"})
	variant := r.Pick([]string{"Objective1Dense", "Objective2Dense", "Objective1Sparse", "Objective2Sparse"})
	reg := r.Pick([]string{"none", "none", "tikhonov", "l2", "l1"})
	useHook := reg != "none" && r.Chance(0.6) // the hook dereferences the proximal operator
	zeroStart := r.Chance(0.3)
	if directed >= 0 {
		// l1-regularised problems started at zero whose leading coordinate has no
		// signal: x_0 stays exactly zero in consecutive epochs
		reg, zeroStart, loss = "l1", true, "squared"
		variant = []string{"Objective1Dense", "Objective2Dense", "Objective1Sparse", "Objective2Sparse"}[directed%4]
		useHook = directed%2 == 0
		if d < 3 {
			d = 3
			m = r.Range(d+2, 18)
		}
	}
	Z := make([][]float64, m)
	Y := make([]float64, m)
	L := 0.0
	xtrue := make([]float64, d)
	for j := range xtrue {
		xtrue[j] = r.Uniform(-2, 2)
	}
	for i := range Z {
		Z[i] = make([]float64, d)
		s, t := 0.0, 0.0
		for j := range Z[i] {
			Z[i][j] = r.Uniform(-1.5, 1.5)
			if directed >= 0 && j == 0 {
				Z[i][j] = 0 // no signal in coordinate 0
			}
			if variant[10:] == "Sparse" && d > 1 && r.Chance(0.3) && !(directed >= 0) {
				Z[i][j] = 0
			}
			s += Z[i][j] * Z[i][j]
			t += Z[i][j] * xtrue[j]
		}
		if s == 0 {
			Z[i][d-1] = 1
			s = 1
			t = xtrue[d-1]
		}
		if s > L {
			L = s
		}
		if loss == "squared" {
			Y[i] = t + 0.1*r.Norm()
		} else {
			Y[i] = 1
			if t+0.5*r.Norm() < 0 {
				Y[i] = -1
			}
		}
	}
	if loss == "logistic" {
		L *= 0.25
	}
	gamma := r.Uniform(0.1, 1) / (3 * L)
	eps := r.LogUniform(1e-7, 1e-3)
	lambda := r.LogUniform(1e-3, 0.3)
	maxIter := 4000
	seed := int64(r.Intn(1 << 30))
	x0 := make([]float64, d)
	if !zeroStart {
		for j := range x0 {
			x0[j] = r.Uniform(-2, 2)
		}
	}
	class := loss
	if zeroStart {
		class += ",x0=0"
	}
	ru := &run{cs: cs, monitor: "saga", routine: "saga.Run", opts: variant + ",reg=" + reg, class: class}
	ru.witness = map[string]any{"Z": Z, "y": Y, "loss": loss, "variant": variant, "reg": reg, "lambda": lambda, "gamma": gamma, "epsilon": eps,
		"maxIterations": maxIter, "seed": seed, "x0": x0, "hook": useHook}

	// per-sample loss value and derivative with respect to the linear predictor
	lossAt := func(i int, x []float64) (float64, float64) {
		t := 0.0
		for j := range x {
			t += Z[i][j] * x[j]
		}
		if loss == "squared" {
			e := t - Y[i]
			return 0.5 * e * e, e
		}
		u := -Y[i] * t
		var l float64
		if u > 0 {
			l = u + math.Log1p(math.Exp(-u))
		} else {
			l = math.Log1p(math.Exp(u))
		}
		return l, -Y[i] / (1 + math.Exp(-u))
	}
	zDense := make([]ad.DenseFloat64Vector, m)
	zSparse := make([]ad.SparseConstFloat64Vector, m)
	for i := range Z {
		zDense[i] = ad.NewDenseFloat64Vector(cloneF(Z[i]))
		var idx []int
		var val []float64
		for j, v := range Z[i] {
			if v != 0 {
				idx = append(idx, j)
				val = append(val, v)
			}
		}
		zSparse[i] = ad.NewSparseConstFloat64Vector(idx, val, d)
	}
	evals := 0
	var epochStart []float64 // x at the first evaluation of the current epoch
	observe := func(x ad.DenseFloat64Vector) {
		if evals >= m && (evals-m)%m == 0 {
			epochStart = cloneF(x)
		}
		evals++
	}
	var f interface{}
	switch variant {
	case "Objective1Dense":
		f = saga.Objective1Dense(func(i int, x ad.DenseFloat64Vector) (float64, float64, ad.DenseFloat64Vector, error) {
			observe(x)
			y, w := lossAt(i, x)
			return y, w, zDense[i], nil
		})
	case "Objective2Dense":
		f = saga.Objective2Dense(func(i int, x ad.DenseFloat64Vector) (float64, ad.DenseFloat64Vector, error) {
			observe(x)
			y, w := lossAt(i, x)
			g := make([]float64, d)
			for j := range g {
				g[j] = w * Z[i][j]
			}
			return y, ad.NewDenseFloat64Vector(g), nil
		})
	case "Objective1Sparse":
		f = saga.Objective1Sparse(func(i int, x ad.DenseFloat64Vector) (float64, float64, ad.SparseConstFloat64Vector, error) {
			observe(x)
			y, w := lossAt(i, x)
			return y, w, zSparse[i], nil
		})
	default:
		f = saga.Objective2Sparse(func(i int, x ad.DenseFloat64Vector) (float64, ad.SparseConstFloat64Vector, error) {
			observe(x)
			y, w := lossAt(i, x)
			var idx []int
			var val []float64
			for j, v := range Z[i] {
				if v != 0 {
					idx = append(idx, j)
					val = append(val, w*v)
				}
			}
			return y, ad.NewSparseConstFloat64Vector(idx, val, d), nil
		})
	}
	args := []interface{}{saga.Epsilon{Value: eps}, saga.Gamma{Value: gamma}, saga.MaxIterations{Value: maxIter}, saga.Seed{Value: seed}}
	switch reg {
	case "tikhonov":
		args = append(args, saga.TikhonovRegularization{Value: lambda})
	case "l2":
		args = append(args, saga.L2Regularization{Value: lambda})
	case "l1":
		args = append(args, saga.L1Regularization{Value: lambda})
	}
	hooks := 0
	var lastHookX []float64
	prevX := cloneF(x0)
	if useHook {
		args = append(args, saga.Hook{Value: func(x ad.ConstVector, delta, lam ad.ConstScalar, epoch int) bool {
			hooks++
			xs := toSlice(x)
			// the step measure handed to the hook must be the one between
			// this iterate and the previous one
			want := stepMeasure(prevX, xs)
			cs.Cover("judged:hook:saga.Run")
			if got := delta.GetFloat64(); !(math.Abs(got-want) <= 1e-12*math.Max(want, 1e-300)) {
				ru.viol("hook-mismatch:delta", fmt.Sprintf("hook call %d (epoch %d): delta = %.17g but max|x-xs|/max|x| between the iterates handed to consecutive hook calls is %.17g; x = %s, previous = %s",
					hooks, epoch, got, want, fmtVec(xs), fmtVec(prevX)))
			}
			prevX = xs
			lastHookX = xs
			return false
		}})
	}
	t0 := fw.TickCount("saga.epoch")
	var xr ad.Vector
	var err error
	p := guarded(int64(maxIter)+100, func() { xr, _, err = saga.Run(f, m, ad.NewDenseFloat64Vector(cloneF(x0)), args...) })
	epochs := int(fw.TickCount("saga.epoch") - t0)
	o := ru.outcome(p, err, false, epochs >= maxIter)
	cs.Cover("variant:" + variant)
	cs.Cover("reg:" + reg)
	cs.C.CoverMax("max:iterations:saga", int64(epochs))
	if o == "no-return" {
		cs.Skip("no-return")
		return
	}
	if o == "panic" {
		cs.Cover("panic:saga:" + p.Frame) // loud; not a C07 matter
		return
	}
	if evals > m {
		cs.Nontrivial("saga", ru.witness)
	}
	cs.Sample(map[string]any{"routine": "saga.Run", "case": ru.witness, "outcome": o, "epochs": epochs, "returned": vecOrNil(xr), "err": errString(err)})
	if err != nil || xr == nil || o != "converged" || epochStart == nil {
		return
	}
	xs := toSlice(xr)
	for _, v := range xs {
		if math.IsNaN(v) {
			ru.viol("stop-condition", "returned a point with NaN coordinates without error: "+fmtVec(xs))
			return
		}
	}
	_ = lastHookX
	delta := stepMeasure(epochStart, xs)
	cs.Cover("judged:stop:saga.Run")
	zeroPair := false
	for i := range xs {
		if xs[i] == 0 && epochStart[i] == 0 {
			zeroPair = true
		}
	}
	if zeroPair {
		cs.Cover("saga:coordinate-zero-in-both-epochs")
	}
	if !(delta <= eps*gamma*(1+1e-12)) {
		cl := class
		if zeroPair {
			cl += ",coordinate-zero-in-consecutive-epochs"
		}
		ru.violWith(ru.opts, cl, "stop-condition", fmt.Sprintf("returned after %d epochs without error or cap, but max|x-xs|/max|x| = %.6g exceeds epsilon*gamma = %.6g (x = %s, previous epoch xs = %s)",
			epochs, delta, eps*gamma, fmtVec(xs), fmtVec(epochStart)))
	}
}

// stepMeasure is the quantity saga.EvalStopping compares with epsilon*gamma,
// evaluated over all coordinates.
func stepMeasure(xs, x []float64) float64 {
	maxX, maxD := 0.0, 0.0
	for i := range x {
		maxX = math.Max(maxX, math.Abs(x[i]))
		maxD = math.Max(maxD, math.Abs(x[i]-xs[i]))
	}
	if maxX != 0 {
		return maxD / maxX
	}
	return maxD
}
