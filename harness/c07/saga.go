package c07

import (
	"fmt"
	"math"

	ad "github.com/pbenner/autodiff"
	"github.com/pbenner/autodiff/algorithm/saga"

	"verifharness/internal/fw"
	"verifharness/internal/prng"
)

/* SAGA on finite sums  (1/m) sum_i loss_i(z_i'x)  (+ optional proximal term)
 *
 * The stopping rule read from saga.EvalStopping: after an epoch the routine
 * returns (nil error) when  max_i |x_i - xs_i| / max_i |x_i| <= epsilon*gamma
 * (or both maxima are zero), xs being the iterate at the end of the previous
 * epoch.  xs is observed without the library's hook: the first objective
 * evaluation of every epoch is made at xs.
 * -------------------------------------------------------------------------- */

func caseSaga(cs *fw.Case, directed int) {
	if directed >= 0 {
		cs.R = prng.For(20261003, "saga.directed", cs.Index) // independent of VERIF_SEED
	}
	r := cs.R
	d := r.Range(1, 5)
	m := r.Range(d+2, 18)
	loss := r.Pick([]string{"squared", "logistic"})
	variant := r.Pick([]string{"Objective1Dense", "Objective2Dense", "Objective1Sparse", "Objective2Sparse"})
	reg := r.Pick([]string{"none", "none", "tikhonov", "l2", "l1"})
	useHook := reg != "none" && r.Chance(0.6)
	// a hook without any regulariser is a valid configuration as well (the routine
	// dereferences the absent proximal operator there: reported as its own signature)
	hookNoReg := reg == "none" && r.Chance(0.1)
	if hookNoReg {
		useHook = true
	}
	// how the objective hands out its gradient vector: a fresh one per call, one
	// preallocated buffer per sample, or a single shared buffer
	buffers := "fresh"
	if variant[9] == '2' {
		buffers = r.Pick([]string{"fresh", "fresh", "per-sample", "shared"})
	}
	zeroStart := r.Chance(0.3)
	if directed >= 0 {
		// l1-regularised problems started at zero whose leading coordinate has no
		// signal: x_0 stays exactly zero in consecutive epochs
		reg, zeroStart, loss = "l1", true, "squared"
		variant = []string{"Objective1Dense", "Objective2Dense", "Objective1Sparse", "Objective2Sparse"}[directed%4]
		useHook = directed%2 == 0
		hookNoReg = false
		if directed >= 16 {
			// hook without regulariser
			reg, useHook, hookNoReg = "none", true, true
		}
		if variant[9] == '2' {
			buffers = []string{"per-sample", "shared"}[(directed/4)%2]
		} else {
			buffers = "fresh"
		}
		if d < 3 {
			d = 3
			m = r.Range(d+2, 18)
		}
	}
	Z := make([][]float64, m)
	Y := make([]float64, m)
	L := 0.0
	xtrue := make([]float64, d)
	for j := range xtrue {
		xtrue[j] = r.Uniform(-2, 2)
	}
	for i := range Z {
		Z[i] = make([]float64, d)
		s, t := 0.0, 0.0
		for j := range Z[i] {
			Z[i][j] = r.Uniform(-1.5, 1.5)
			if directed >= 0 && j == 0 {
				Z[i][j] = 0 // no signal in coordinate 0
			}
			if variant[10:] == "Sparse" && d > 1 && r.Chance(0.3) && !(directed >= 0) {
				Z[i][j] = 0
			}
			s += Z[i][j] * Z[i][j]
			t += Z[i][j] * xtrue[j]
		}
		if s == 0 {
			Z[i][d-1] = 1
			s = 1
			t = xtrue[d-1]
		}
		if s > L {
			L = s
		}
		if loss == "squared" {
			Y[i] = t + 0.1*r.Norm()
		} else {
			Y[i] = 1
			if t+0.5*r.Norm() < 0 {
				Y[i] = -1
			}
		}
	}
	if loss == "logistic" {
		L *= 0.25
	}
	gamma := r.Uniform(0.1, 1) / (3 * L)
	eps := r.LogUniform(1e-7, 1e-3)
	lambda := r.LogUniform(1e-3, 0.3)
	maxIter := 4000
	seed := int64(r.Intn(1 << 30))
	x0 := make([]float64, d)
	if !zeroStart {
		for j := range x0 {
			x0[j] = r.Uniform(-2, 2)
		}
	}
	class := loss
	if zeroStart {
		class += ",x0=0"
	}
	ru := &run{cs: cs, monitor: "saga", routine: "saga.Run", opts: variant + ",reg=" + reg, class: class}
	ru.witness = map[string]any{"Z": Z, "y": Y, "loss": loss, "variant": variant, "reg": reg, "lambda": lambda, "gamma": gamma, "epsilon": eps,
		"maxIterations": maxIter, "seed": seed, "x0": x0, "hook": useHook, "gradientBuffers": buffers}

	// per-sample loss value and derivative with respect to the linear predictor
	lossAt := func(i int, x []float64) (float64, float64) {
		t := 0.0
		for j := range x {
			t += Z[i][j] * x[j]
		}
		if loss == "squared" {
			e := t - Y[i]
			return 0.5 * e * e, e
		}
		u := -Y[i] * t
		var l float64
		if u > 0 {
			l = u + math.Log1p(math.Exp(-u))
		} else {
			l = math.Log1p(math.Exp(u))
		}
		return l, -Y[i] / (1 + math.Exp(-u))
	}
	zDense := make([]ad.DenseFloat64Vector, m)
	zSparse := make([]ad.SparseConstFloat64Vector, m)
	for i := range Z {
		zDense[i] = ad.NewDenseFloat64Vector(cloneF(Z[i]))
		var idx []int
		var val []float64
		for j, v := range Z[i] {
			if v != 0 {
				idx = append(idx, j)
				val = append(val, v)
			}
		}
		zSparse[i] = ad.NewSparseConstFloat64Vector(idx, val, d)
	}
	evals := 0
	var epochStart []float64 // x at the first evaluation of the current epoch
	observing := true
	observe := func(x ad.DenseFloat64Vector) {
		if !observing {
			return
		}
		if evals >= m && (evals-m)%m == 0 {
			epochStart = cloneF(x)
		}
		evals++
	}
	// mkObjective builds the objective with the given buffer policy
	mkObjective := func(buf string) interface{} {
		shared := make([]float64, d)
		per := make([][]float64, m)
		for i := range per {
			per[i] = make([]float64, d)
		}
		dense := func(i int) []float64 {
			switch buf {
			case "shared":
				return shared
			case "per-sample":
				return per[i]
			}
			return make([]float64, d)
		}
		switch variant {
		case "Objective1Dense":
			return saga.Objective1Dense(func(i int, x ad.DenseFloat64Vector) (float64, float64, ad.DenseFloat64Vector, error) {
				observe(x)
				y, w := lossAt(i, x)
				return y, w, zDense[i], nil
			})
		case "Objective2Dense":
			return saga.Objective2Dense(func(i int, x ad.DenseFloat64Vector) (float64, ad.DenseFloat64Vector, error) {
				observe(x)
				y, w := lossAt(i, x)
				g := dense(i)
				for j := range g {
					g[j] = w * Z[i][j]
				}
				return y, ad.DenseFloat64Vector(g), nil
			})
		case "Objective1Sparse":
			return saga.Objective1Sparse(func(i int, x ad.DenseFloat64Vector) (float64, float64, ad.SparseConstFloat64Vector, error) {
				observe(x)
				y, w := lossAt(i, x)
				return y, w, zSparse[i], nil
			})
		default:
			idxOf := make([][]int, m)
			for i := range Z {
				for j, v := range Z[i] {
					if v != 0 {
						idxOf[i] = append(idxOf[i], j)
					}
				}
			}
			return saga.Objective2Sparse(func(i int, x ad.DenseFloat64Vector) (float64, ad.SparseConstFloat64Vector, error) {
				observe(x)
				y, w := lossAt(i, x)
				val := dense(i)[:len(idxOf[i])]
				for k, j := range idxOf[i] {
					val[k] = w * Z[i][j]
				}
				if buf == "fresh" {
					return y, ad.NewSparseConstFloat64Vector(append([]int(nil), idxOf[i]...), val, d), nil
				}
				// the values live in the reused buffer
				return y, ad.UnsafeSparseConstFloat64Vector(idxOf[i], val, d), nil
			})
		}
	}
	f := mkObjective(buffers)
	args := []interface{}{saga.Epsilon{Value: eps}, saga.Gamma{Value: gamma}, saga.MaxIterations{Value: maxIter}, saga.Seed{Value: seed}}
	switch reg {
	case "tikhonov":
		args = append(args, saga.TikhonovRegularization{Value: lambda})
	case "l2":
		args = append(args, saga.L2Regularization{Value: lambda})
	case "l1":
		args = append(args, saga.L1Regularization{Value: lambda})
	}
	baseArgs := append([]interface{}(nil), args...)
	hooks := 0
	var lastHookX []float64
	prevX := cloneF(x0)
	if useHook {
		args = append(args, saga.Hook{Value: func(x ad.ConstVector, delta, lam ad.ConstScalar, epoch int) bool {
			hooks++
			xs := toSlice(x)
			// the step measure handed to the hook must be the one between
			// this iterate and the previous one
			want := stepMeasure(prevX, xs)
			cs.Cover("judged:hook:saga.Run")
			if got := delta.GetFloat64(); !(math.Abs(got-want) <= 1e-12*math.Max(want, 1e-300)) {
				ru.viol("hook-mismatch:delta", fmt.Sprintf("hook call %d (epoch %d): delta = %.17g but max|x-xs|/max|x| between the iterates handed to consecutive hook calls is %.17g; x = %s, previous = %s",
					hooks, epoch, got, want, fmtVec(xs), fmtVec(prevX)))
			}
			prevX = xs
			lastHookX = xs
			return false
		}})
	}
	t0 := fw.TickCount("saga.epoch")
	var xr ad.Vector
	var err error
	p := guarded(int64(maxIter)+100, func() { xr, _, err = saga.Run(f, m, ad.NewDenseFloat64Vector(cloneF(x0)), args...) })
	epochs := int(fw.TickCount("saga.epoch") - t0)
	o := ru.outcome(p, err, false, epochs >= maxIter)
	cs.Cover("variant:" + variant)
	cs.Cover("reg:" + reg)
	cs.Cover("saga-gradient-buffers:" + buffers)
	cs.C.CoverMax("max:iterations:saga", int64(epochs))
	if o == "no-return" {
		cs.Skip("no-return")
		return
	}
	if o == "panic" {
		cs.Cover("panic:saga:" + p.Frame)
		if hookNoReg {
			// a valid call (hook, no regulariser) does not return a point at all
			ru.violWith("hook,reg=none", "any", "panic-on-valid-call", fmt.Sprintf("saga.Run with a Hook and without regulariser panicked: %s (%s)", p.Msg, p.Frame))
		}
		return
	}
	if evals > m {
		cs.Nontrivial("saga", ru.witness)
	}
	cs.Sample(map[string]any{"routine": "saga.Run", "case": ru.witness, "outcome": o, "epochs": epochs, "returned": vecOrNil(xr), "err": errString(err)})
	if buffers != "fresh" {
		observing = false
		sagaBufferDifferential(ru, buffers, xr, err, func() (ad.Vector, error) {
			var x2 ad.Vector
			var err2 error
			if p2 := guarded(int64(maxIter)+100, func() {
				x2, _, err2 = saga.Run(mkObjective("fresh"), m, ad.NewDenseFloat64Vector(cloneF(x0)), baseArgs...)
			}); p2 != nil {
				return nil, fmt.Errorf("panic: %s", p2.Msg)
			}
			return x2, err2
		})
	}
	if err != nil || xr == nil || o != "converged" || epochStart == nil {
		return
	}
	xs := toSlice(xr)
	for _, v := range xs {
		if math.IsNaN(v) {
			ru.viol("stop-condition", "returned a point with NaN coordinates without error: "+fmtVec(xs))
			return
		}
	}
	_ = lastHookX
	delta := stepMeasure(epochStart, xs)
	cs.Cover("judged:stop:saga.Run")
	zeroPair := false
	for i := range xs {
		if xs[i] == 0 && epochStart[i] == 0 {
			zeroPair = true
		}
	}
	if zeroPair {
		cs.Cover("saga:coordinate-zero-in-both-epochs")
	}
	if !(delta <= eps*gamma*(1+1e-12)) {
		cl := class
		if zeroPair {
			cl += ",coordinate-zero-in-consecutive-epochs"
		}
		ru.violWith(ru.opts, cl, "stop-condition", fmt.Sprintf("returned after %d epochs without error or cap, but max|x-xs|/max|x| = %.6g exceeds epsilon*gamma = %.6g (x = %s, previous epoch xs = %s)",
			epochs, delta, eps*gamma, fmtVec(xs), fmtVec(epochStart)))
	}
}

// sagaBufferDifferential re-runs the same problem with an objective that allocates a
// fresh gradient vector per call; the random sample order is fixed by Seed, so the
// result must not depend on whether the objective reuses its output buffers.
func sagaBufferDifferential(ru *run, buffers string, xr ad.Vector, err error, rerun func() (ad.Vector, error)) {
	x2, err2 := rerun()
	ru.cs.Cover("judged:buffer-reuse:saga.Run:" + buffers)
	same := (err == nil) == (err2 == nil) && (xr == nil) == (x2 == nil)
	if same && xr != nil {
		same = sameVec(toSlice(xr), toSlice(x2))
	}
	if !same {
		ru.violWith(ru.opts+",buffers="+buffers, ru.class, "result-depends-on-gradient-buffer-reuse",
			fmt.Sprintf("objective that writes its gradient into a %s buffer: returned %v (err %v); the same objective allocating a fresh vector per call (same Seed): %v (err %v)",
				buffers, vecOrNil(xr), err, vecOrNil(x2), err2))
	}
}

// stepMeasure is the quantity saga.EvalStopping compares with epsilon*gamma,
// evaluated over all coordinates.
func stepMeasure(xs, x []float64) float64 {
	maxX, maxD := 0.0, 0.0
	for i := range x {
		maxX = math.Max(maxX, math.Abs(x[i]))
		maxD = math.Max(maxD, math.Abs(x[i]-xs[i]))
	}
	if maxX != 0 {
		return maxD / maxX
	}
	return maxD
}
