package c06

// Monitor (a): the same routine on the same numbers through the specialised
// float path and through every way of reaching the generic path.

import (
	"fmt"
	"math"

	ad "github.com/pbenner/autodiff"
	"github.com/pbenner/autodiff/algorithm/cholesky"
	"github.com/pbenner/autodiff/algorithm/determinant"
	"github.com/pbenner/autodiff/algorithm/gaussJordan"
	"github.com/pbenner/autodiff/algorithm/matrixInverse"
	"github.com/pbenner/autodiff/algorithm/rprop"
	"github.com/pbenner/autodiff/algorithm/saga"

	"verifharness/internal/fw"
	"verifharness/internal/prng"
)

// pathResult is what one code path returned.
type pathResult struct {
	name  string
	vals  []float64
	names []string // block name per value
	flags []string // structural observations (e.g. nil-ness of an optional output)
	fail  string   // "", error, panic
	msg   string
	skip  bool
}

func runPath(name string, f func() ([]block, []string, error)) pathResult {
	r := pathResult{name: name}
	var bs []block
	var err error
	fw.SetTickBudget(20000)
	p := fw.Call(func() { bs, r.flags, err = f() })
	fw.SetTickBudget(0)
	switch {
	case p != nil && p.Budget:
		r.skip = true
	case p != nil:
		r.fail, r.msg = "panic", p.Msg+" @ "+p.Frame
	case err != nil:
		r.fail, r.msg = "error", err.Error()
	default:
		for _, b := range bs {
			for _, s := range b.s {
				r.vals = append(r.vals, s.GetFloat64())
				r.names = append(r.names, b.name)
			}
		}
	}
	return r
}

// comparePaths judges every path against the first one (the specialised path
// or, where none exists, the plain float container).  When every generic path
// differs from the reference in the same way the difference is reported once
// ("<reference> vs generic path"), otherwise per path.
func comparePaths(cs *fw.Case, routine, opts, class string, res []pathResult, tol float64, wit map[string]any, judgeValues bool) {
	ref := res[0]
	if ref.skip {
		cs.Skip("no-return")
		return
	}
	cs.Cover(fmt.Sprintf("a:%s/%s", routine, opts))
	type diff struct {
		kind, detail, path string
	}
	var diffs []diff
	compared := 0
	for _, r := range res[1:] {
		if r.skip {
			cs.Cover("a-path-skipped:no-return")
			continue
		}
		compared++
		cs.Cover("a-path:" + routine + ":" + r.name)
		switch {
		case ref.fail != r.fail:
			diffs = append(diffs, diff{"outcome:" + orOK(ref.fail) + "-vs-" + orOK(r.fail),
				fmt.Sprintf("%s: %s (%s); %s: %s (%s)", ref.name, orOK(ref.fail), ref.msg, r.name, orOK(r.fail), r.msg), r.name})
		case ref.fail != "":
			debugf("%s: %s %s %s both %s: %s | %s", cs.ID, routine, opts, class, ref.fail, ref.msg, r.msg)
			cs.Cover("a-both-" + ref.fail + ":" + routine)
		case fmt.Sprint(ref.flags) != fmt.Sprint(r.flags):
			diffs = append(diffs, diff{"structure", fmt.Sprintf("%s returns %v, %s returns %v", ref.name, ref.flags, r.name, r.flags), r.name})
		case len(ref.vals) != len(r.vals):
			diffs = append(diffs, diff{"shape", fmt.Sprintf("%d vs %d output values", len(ref.vals), len(r.vals)), r.name})
		case judgeValues:
			for i := range ref.vals {
				if !near(ref.vals[i], r.vals[i], tol) {
					diffs = append(diffs, diff{"value:" + ref.names[i],
						fmt.Sprintf("output %d (%s): %s gives %.17g, %s gives %.17g, tolerance %.3g", i, ref.names[i], ref.name, ref.vals[i], r.name, r.vals[i], tol), r.name})
					break
				}
			}
		}
	}
	if len(diffs) == 0 {
		return
	}
	same := len(diffs) == compared && compared > 1
	for _, d := range diffs {
		if d.kind != diffs[0].kind {
			same = false
		}
	}
	emit := func(d diff, other string) {
		w := map[string]any{}
		for k, v := range wit {
			w[k] = v
		}
		w["paths"] = []string{ref.name, d.path}
		cl := class
		if d.kind == "structure" {
			cl = "any" // independent of the numbers
		}
		cs.Violation(fmt.Sprintf("C06|a|%s|%s|%s vs %s|%s|%s", routine, opts, ref.name, other, cl, d.kind), d.detail, w)
	}
	if same {
		emit(diffs[0], "generic path")
		return
	}
	for _, d := range diffs {
		emit(d, d.path)
	}
}

// num renders a float for a JSON witness (Inf and NaN are not JSON numbers).
func num(x float64) any {
	if math.IsNaN(x) || math.IsInf(x, 0) {
		return fmt.Sprint(x)
	}
	return x
}

func orOK(s string) string {
	if s == "" {
		return "ok"
	}
	return s
}

func maxAbsVals(v []float64) float64 {
	m := 0.0
	for _, x := range v {
		if a := math.Abs(x); a > m && !math.IsInf(a, 0) {
			m = a
		}
	}
	return m
}

/* Cholesky
 * -------------------------------------------------------------------------- */

type cholPath struct {
	name    string
	e       elem
	storage string
	insitu  func(n int, ldl bool) *cholesky.InSitu
	ldlOnly bool
}

func cholPaths(bits int) []cholPath {
	f, r := eF64, eR64
	if bits == 32 {
		f, r = eF32, eR32
	}
	ps := []cholPath{
		{"Dense" + f.name + "(specialised)", f, "dense", nil, false},
		{"Dense" + r.name, r, "dense", nil, false},
		{"Sparse" + f.name, f, "sparse", nil, false},
		{"Sparse" + r.name, r, "sparse", nil, false},
		{"Dense" + f.name + "+InSitu.S=" + r.name, f, "dense", func(n int, ldl bool) *cholesky.InSitu {
			return &cholesky.InSitu{S: ad.NewScalar(r.t, 0)}
		}, false},
		{"Dense" + f.name + "+InSitu.L=Dense" + r.name, f, "dense", func(n int, ldl bool) *cholesky.InSitu {
			is := &cholesky.InSitu{L: ad.NullDenseMatrix(r.t, n, n)}
			return is
		}, false},
		{"Dense" + f.name + "+InSitu.D=Dense" + r.name, f, "dense", func(n int, ldl bool) *cholesky.InSitu {
			return &cholesky.InSitu{D: ad.NullDenseMatrix(r.t, n, n)}
		}, true},
	}
	return ps
}

func runCholPath(p cholPath, in *input, variant string) pathResult {
	n := in.r
	return runPath(p.name, func() ([]block, []string, error) {
		a := build(p.e, p.storage, in, nil, 0).(ad.Matrix)
		var opts []interface{}
		switch variant {
		case "LDL":
			opts = append(opts, cholesky.LDL{Value: true})
		case "LDL,ForcePD":
			opts = append(opts, cholesky.LDL{Value: true}, cholesky.ForcePD{Value: true})
		}
		if p.insitu != nil {
			opts = append(opts, p.insitu(n, variant != "plain"))
		}
		l, d, err := cholesky.Run(a, opts...)
		if err != nil {
			return nil, nil, err
		}
		bs := []block{matBlock("L", l)}
		flags := []string{fmt.Sprintf("D==nil:%v", d == nil)}
		if !isNil(d) {
			bs = append(bs, matBlock("D", d))
		}
		return bs, flags, nil
	})
}

func runAChol(cs *fw.Case, idx int) {
	r := cs.R
	variant := []string{"plain", "LDL", "LDL,ForcePD"}[idx%3]
	bits := 64
	if (idx/3)%4 == 3 {
		bits = 32
	}
	n := 1 + (idx/12)%6
	var a *mat
	class := "spd"
	switch r.Intn(8) {
	case 0:
		// indefinite: plain and LDL must reject it on every path
		a = genSPD(r, n, 10)
		a.set(n-1, n-1, -math.Abs(a.at(n-1, n-1))-1)
		class = "indefinite"
	case 1:
		a = genInteger(r, n, n, false)
		a = symmetrize(mul(a.t(), a))
		class = "semidefinite-or-spd-integer"
	default:
		lim := 1e6
		if bits == 32 {
			lim = 1e3
		}
		a = genSPD(r, n, r.LogUniform(1, lim))
	}
	in := matInput("A", a)
	if bits == 32 {
		roundTo32(in.v)
	}
	am := in.mat()
	eps := eps64
	if bits == 32 {
		eps = eps32
	}
	var res []pathResult
	for _, p := range cholPaths(bits) {
		if variant == "plain" && p.ldlOnly {
			continue // D is not used without LDL
		}
		res = append(res, runCholPath(p, in, variant))
	}
	// tolerance: backward stable factorisation, forward error ~ n eps kappa |L|
	kappa := cond2(am)
	_, pd := chol(am)
	scale := maxAbsVals(res[0].vals)
	judge := true
	tol := K * float64(n) * eps * kappa * math.Max(scale, 1e-300)
	if !pd || !(kappa <= condLimit(eps)*10) {
		if variant == "LDL,ForcePD" && res[0].fail == "" {
			// modified factorisation of an indefinite matrix: element growth instead of kappa
			g := math.Max(1, scale*scale/math.Max(am.maxAbs(), 1e-300))
			tol = K * float64(n) * eps * g * scale
		} else {
			judge = false // only the outcome (error / no error) is compared
		}
	}
	wit := map[string]any{"A": fmtVec(in.v), "n": n, "options": variant, "cond2": num(kappa)}
	comparePaths(cs, "cholesky", variant, class, res, tol, wit, judge)
	if res[0].fail == "" {
		cs.Nontrivial("chol", variant, bits, fmtVec(in.v))
		if n >= 3 {
			var names []string
			for _, p := range res {
				names = append(names, p.name)
			}
			cs.Sample(map[string]any{"routine": "cholesky", "options": variant, "class": class, "A": fmtVec(in.v), "paths": names, "tolerance": num(tol), "cond2": num(kappa)})
		}
	}
	cs.Cover(fmt.Sprintf("set:a-shape:cholesky:%s:%d:n=%d", variant, bits, n))
}

/* Gauss-Jordan, matrixInverse, determinant
 * -------------------------------------------------------------------------- */

// gjPath says which containers hold a, x and b.
type gjPath struct {
	name       string
	ea, ex, eb elem
	sa, sb     string
}

func gjPaths(bits int) []gjPath {
	f, r := eF64, eR64
	tag := "(specialised)"
	if bits == 32 {
		f, r = eF32, eR32
		tag = ""
	}
	return []gjPath{
		{"a,x,b=" + f.name + tag, f, f, f, "dense", "dense"},
		{"a,x,b=" + r.name, r, r, r, "dense", "dense"},
		{"b=Dense" + r.name, f, f, r, "dense", "dense"},
		{"x=Dense" + r.name, f, r, f, "dense", "dense"},
		{"a=Dense" + r.name, r, f, f, "dense", "dense"},
		{"b=Sparse" + f.name, f, f, f, "dense", "sparse"},
	}
}

func runAGaussJordan(cs *fw.Case, idx int) {
	r := cs.R
	upper := idx%2 == 1
	bits := 64
	if (idx/2)%4 == 3 {
		bits = 32
	}
	n := 1 + (idx/8)%6
	eps := eps64
	if bits == 32 {
		eps = eps32
	}
	var a, bm *mat
	var class string
	if upper {
		a, class = genUpper(r, n), "upper-triangular"
		bm = eye(n)
	} else {
		a, class = genSquare(r, n, eps)
		bm = genGeneral(r, n, n, 3)
		if r.Chance(0.12) {
			a = genSingular(r, n)
			class = "singular"
		}
	}
	var sub []bool
	opts := "default"
	if upper {
		opts = "UpperTriangular"
	}
	if r.Chance(0.25) && n >= 2 {
		sub = make([]bool, n)
		cnt := 0
		for i := range sub {
			sub[i] = r.Chance(0.6)
			if sub[i] {
				cnt++
			}
		}
		if cnt == 0 {
			sub[0] = true
		}
		opts += ",Submatrix"
	}
	ina, inx, inb := matInput("A", a), matInput("B", bm), vecInput("b", randVec(r, n))
	if bits == 32 {
		roundTo32(ina.v)
		roundTo32(inx.v)
		roundTo32(inb.v)
	}
	var res []pathResult
	for _, p := range gjPaths(bits) {
		p := p
		res = append(res, runPath(p.name, func() ([]block, []string, error) {
			am := build(p.ea, p.sa, ina, nil, 0).(ad.Matrix)
			xm := build(p.ex, "dense", inx, nil, 0).(ad.Matrix)
			bv := build(p.eb, p.sb, inb, nil, 0).(ad.Vector)
			var o []interface{}
			if upper {
				o = append(o, gaussJordan.UpperTriangular{Value: true})
			}
			if sub != nil {
				o = append(o, gaussJordan.Submatrix{Value: sub})
			}
			if err := gaussJordan.Run(am, xm, bv, o...); err != nil {
				return nil, nil, err
			}
			return []block{matBlock("a", am), matBlock("x", xm), vecBlock("b", bv)}, nil, nil
		}))
	}
	// conditioning of the block that is actually eliminated
	blockA := ina.mat()
	if sub != nil {
		var drop []int
		for i, s := range sub {
			if !s {
				drop = append(drop, i)
			}
		}
		blockA = minor(blockA, drop, drop)
	}
	kappa := condInf(blockA)
	if math.IsInf(kappa, 1) {
		class = "singular"
	}
	judge := class != "singular" && kappa <= condLimit(eps)*10
	tol := K * float64(n) * eps * kappa * math.Max(maxAbsVals(res[0].vals), 1)
	wit := map[string]any{"A": fmtVec(ina.v), "B": fmtVec(inx.v), "b": fmtVec(inb.v), "n": n, "options": opts, "submatrix": sub, "condInf": num(kappa)}
	cs.Cover(fmt.Sprintf("a-class:gaussJordan:%s:%d", class, bits))
	if class == "singular" {
		for _, p := range res {
			debugf("%s: singular bits=%d n=%d opts=%s path %s: fail=%q %s vals=%v", cs.ID, bits, n, opts, p.name, p.fail, p.msg, p.vals)
		}
	}
	comparePaths(cs, "gaussJordan", opts, class, res, tol, wit, judge)
	if res[0].fail == "" {
		cs.Nontrivial("gj", opts, bits, fmtVec(ina.v))
	}
	cs.Cover(fmt.Sprintf("set:a-shape:gaussJordan:%s:%d:n=%d", opts, bits, n))
}

func runAInverse(cs *fw.Case, idx int) {
	r := cs.R
	variant := []string{"default", "PositiveDefinite", "UpperTriangular", "det:PositiveDefinite", "det:PositiveDefinite,LogScale"}[idx%5]
	bits := 64
	if (idx/5)%4 == 3 {
		bits = 32
	}
	f, rr := eF64, eR64
	eps := eps64
	if bits == 32 {
		f, rr, eps = eF32, eR32, eps32
	}
	n := 1 + (idx/20)%6
	var a *mat
	var class string
	switch variant {
	case "default":
		a, class = genSquare(r, n, eps)
		if r.Chance(0.12) {
			a, class = genSingular(r, n), "singular"
		}
	case "UpperTriangular":
		a, class = genUpper(r, n), "upper-triangular"
	default:
		a, class = genSPDClass(r, n, eps)
	}
	in := matInput("A", a)
	if bits == 32 {
		roundTo32(in.v)
	}
	type ipath struct {
		name    string
		e       elem
		storage string
		mix     string
	}
	tag := ""
	if bits == 64 {
		tag = "(specialised)"
	}
	paths := []ipath{
		{"Dense" + f.name + tag, f, "dense", ""},
		{"Dense" + rr.name, rr, "dense", ""},
		{"Sparse" + f.name, f, "sparse", ""},
		{"Dense" + f.name + "+InSitu.B=Dense" + rr.name, f, "dense", "B"},
		{"Dense" + f.name + "+InSitu.Cholesky.S=" + rr.name, f, "dense", "S"},
	}
	var res []pathResult
	for _, p := range paths {
		p := p
		isDet := len(variant) > 4 && variant[:4] == "det:"
		if p.mix == "B" && isDet {
			continue
		}
		if p.mix == "S" && (variant == "default" || variant == "UpperTriangular") {
			continue
		}
		res = append(res, runPath(p.name, func() ([]block, []string, error) {
			am := build(p.e, p.storage, in, nil, 0).(ad.Matrix)
			if isDet {
				is := &determinant.InSitu{}
				if p.mix == "S" {
					is.Cholesky.S = ad.NewScalar(rr.t, 0)
				}
				d, err := determinant.Run(am, determinant.PositiveDefinite{Value: true}, determinant.LogScale{Value: variant == "det:PositiveDefinite,LogScale"}, is)
				if err != nil {
					return nil, nil, err
				}
				return []block{scalarBlock("det", d)}, nil, nil
			}
			is := &matrixInverse.InSitu{}
			if p.mix == "B" {
				is.B = ad.NullDenseVector(rr.t, n)
			}
			if p.mix == "S" {
				is.Cholesky.S = ad.NewScalar(rr.t, 0)
			}
			o := []interface{}{is}
			switch variant {
			case "PositiveDefinite":
				o = append(o, matrixInverse.PositiveDefinite{Value: true})
			case "UpperTriangular":
				o = append(o, matrixInverse.UpperTriangular{Value: true})
			}
			x, err := matrixInverse.Run(am, o...)
			if err != nil {
				return nil, nil, err
			}
			return []block{matBlock("inv", x)}, nil, nil
		}))
	}
	kappa := condInf(in.mat())
	if math.IsInf(kappa, 1) {
		class = "singular"
	}
	judge := kappa <= condLimit(eps)*10
	sc := math.Max(maxAbsVals(res[0].vals), 1e-300)
	if variant == "det:PositiveDefinite,LogScale" {
		sc = math.Max(sc, 1)
	}
	tol := K * float64(n) * eps * kappa * sc
	routine := "matrixInverse"
	opts := variant
	if len(variant) > 4 && variant[:4] == "det:" {
		routine, opts = "determinant", variant[4:]
	}
	wit := map[string]any{"A": fmtVec(in.v), "n": n, "options": variant, "condInf": num(kappa)}
	comparePaths(cs, routine, opts, class, res, tol, wit, judge)
	if res[0].fail == "" {
		cs.Nontrivial("inv", variant, bits, fmtVec(in.v))
	}
	cs.Cover(fmt.Sprintf("set:a-shape:%s:%s:%d:n=%d", routine, opts, bits, n))
}

// genSingular: exactly singular in floating point: small integers with a zero
// row, a zero column or a repeated row.
func genSingular(r *prng.Rand, n int) *mat {
	a := genInteger(r, n, n, true)
	k := r.Intn(n)
	switch {
	case n == 1 || r.Chance(0.3):
		for j := 0; j < n; j++ {
			a.set(k, j, 0)
		}
	case r.Chance(0.5):
		for j := 0; j < n; j++ {
			a.set(j, k, 0)
		}
	default:
		for j := 0; j < n; j++ {
			a.set(k, j, a.at((k+1)%n, j))
		}
	}
	return a
}

/* SAGA dense vs sparse gradients
 * -------------------------------------------------------------------------- */

func runASaga(cs *fw.Case, idx int) {
	r := cs.R
	m := r.Range(2, 12) // data points
	d := r.Range(1, 6)  // parameters
	rows := make([][]float64, m)
	target := make([]float64, m)
	lip := 0.0
	for i := range rows {
		rows[i] = make([]float64, d)
		for j := range rows[i] {
			if r.Chance(0.55) {
				rows[i][j] = r.Dyadic(16)
			}
		}
		target[i] = r.Dyadic(24)
		if s := dotv(rows[i], rows[i]); s > lip {
			lip = s
		}
	}
	if lip == 0 {
		lip = 1
	}
	gamma := 1 / (3 * lip)
	reg := []string{"none", "L1", "L2", "Tikhonov"}[idx%4]
	form := 1 + (idx/4)%2
	epochs := r.Range(1, 25)
	seed := int64(r.Intn(1000))
	x0 := randVec(r, d)
	sparseOf := func(v []float64) ad.SparseConstFloat64Vector {
		var ix []int
		var vs []float64
		for i, x := range v {
			if x != 0 {
				ix = append(ix, i)
				vs = append(vs, x)
			}
		}
		return ad.NewSparseConstFloat64Vector(ix, vs, len(v))
	}
	resid := func(i int, x ad.DenseFloat64Vector) float64 {
		s := -target[i]
		for j, a := range rows[i] {
			s += a * x[j]
		}
		return s
	}
	var f [2]interface{}
	if form == 1 {
		f[0] = saga.Objective1Dense(func(i int, x ad.DenseFloat64Vector) (float64, float64, ad.DenseFloat64Vector, error) {
			w := resid(i, x)
			return 0.5 * w * w, w, ad.NewDenseFloat64Vector(append([]float64(nil), rows[i]...)), nil
		})
		f[1] = saga.Objective1Sparse(func(i int, x ad.DenseFloat64Vector) (float64, float64, ad.SparseConstFloat64Vector, error) {
			w := resid(i, x)
			return 0.5 * w * w, w, sparseOf(rows[i]), nil
		})
	} else {
		grad := func(i int, x ad.DenseFloat64Vector) []float64 {
			w := resid(i, x)
			g := make([]float64, d)
			for j, a := range rows[i] {
				g[j] = w * a
			}
			return g
		}
		f[0] = saga.Objective2Dense(func(i int, x ad.DenseFloat64Vector) (float64, ad.DenseFloat64Vector, error) {
			w := resid(i, x)
			return 0.5 * w * w, ad.NewDenseFloat64Vector(grad(i, x)), nil
		})
		f[1] = saga.Objective2Sparse(func(i int, x ad.DenseFloat64Vector) (float64, ad.SparseConstFloat64Vector, error) {
			w := resid(i, x)
			return 0.5 * w * w, sparseOf(grad(i, x)), nil
		})
	}
	opts := []interface{}{saga.Gamma{Value: gamma}, saga.MaxIterations{Value: epochs}, saga.Seed{Value: seed}, saga.Epsilon{Value: 1e-12}}
	lam := r.Uniform(0.01, 0.5)
	switch reg {
	case "L1":
		opts = append(opts, saga.L1Regularization{Value: lam})
	case "L2":
		opts = append(opts, saga.L2Regularization{Value: lam})
	case "Tikhonov":
		opts = append(opts, saga.TikhonovRegularization{Value: lam})
	}
	var res []pathResult
	for k, name := range []string{"dense-gradient", "sparse-gradient"} {
		k := k
		res = append(res, runPath(name, func() ([]block, []string, error) {
			x, s, err := saga.Run(f[k], m, ad.NewDenseFloat64Vector(append([]float64(nil), x0...)), opts...)
			if err != nil {
				return nil, nil, err
			}
			return []block{vecBlock("x", x)}, []string{fmt.Sprintf("seed:%d", s)}, nil
		}))
	}
	wit := map[string]any{"rows": fmt.Sprint(rows), "target": fmtVec(target), "x0": fmtVec(x0), "gamma": gamma, "epochs": epochs, "seed": seed, "regularization": reg, "lambda": lam, "objective": form}
	// both paths perform the same float operations except for additions of
	// explicit zeros: the results must agree bit for bit
	comparePaths(cs, "saga", fmt.Sprintf("Objective%d,%s", form, reg), "least-squares:sparse-rows", res, 0, wit, true)
	if res[0].fail == "" {
		cs.Nontrivial("saga", form, reg, fmt.Sprint(rows), fmtVec(x0), epochs, seed)
	}
}

/* rprop: automatic-differentiation objective vs float gradient
 * -------------------------------------------------------------------------- */

func runARprop(cs *fw.Case, idx int) {
	r := cs.R
	d := r.Range(1, 5)
	q := make([]float64, d)
	c := make([]float64, d)
	for i := range q {
		q[i] = r.Uniform(0.5, 4)
		c[i] = r.Uniform(-3, 3)
	}
	x0 := randVec(r, d)
	epsilon := []float64{1e-8, 1e-6, 1e-10}[idx%3]
	step := r.PickF([]float64{0.01, 0.1, 0.5})
	eta := []float64{1.2, 0.5}
	fMagic := func(x ad.ConstVector) (ad.MagicScalar, error) {
		s := ad.NewReal64(0)
		t := ad.NewReal64(0)
		for i := 0; i < d; i++ {
			t.Sub(x.ConstAt(i), ad.ConstFloat64(c[i]))
			t.Mul(t, t)
			t.Mul(t, ad.ConstFloat64(0.5*q[i]))
			s.Add(s, t)
		}
		return s, nil
	}
	fGrad := rprop.DenseGradientF(func(x, g ad.DenseFloat64Vector) error {
		for i := 0; i < d; i++ {
			g[i] = q[i] * (x[i] - c[i])
		}
		return nil
	})
	runOne := func(name string, f func() (ad.ConstVector, error)) pathResult {
		return runPath(name, func() ([]block, []string, error) {
			x, err := f()
			if err != nil {
				return nil, nil, err
			}
			return []block{vecBlock("x", x)}, nil, nil
		})
	}
	res := []pathResult{
		runOne("RunGradient(DenseFloat64)", func() (ad.ConstVector, error) {
			return rprop.RunGradient(fGrad, ad.NewDenseFloat64Vector(append([]float64(nil), x0...)), step, eta, rprop.Epsilon{Value: epsilon}, rprop.MaxIterations{Value: 5000})
		}),
		runOne("Run(magic objective)", func() (ad.ConstVector, error) {
			return rprop.Run(fMagic, ad.NewDenseFloat64Vector(append([]float64(nil), x0...)), step, eta, rprop.Epsilon{Value: epsilon}, rprop.MaxIterations{Value: 5000})
		}),
	}
	// both stop when |grad| < epsilon, grad_i = q_i (x_i - c_i): each result is
	// within epsilon/q_min of the minimiser c, the two within twice that
	qmin := math.Inf(1)
	for _, x := range q {
		qmin = math.Min(qmin, x)
	}
	tol := 2 * epsilon / qmin * 1.000001
	wit := map[string]any{"q": fmtVec(q), "c": fmtVec(c), "x0": fmtVec(x0), "epsilon": epsilon, "step": step, "eta": eta}
	for _, p := range res {
		if p.fail == "" && !p.skip {
			worst := 0.0
			for i, x := range p.vals {
				worst = math.Max(worst, math.Abs(x-c[i])*q[i])
			}
			wit["gradient-norm-bound:"+p.name] = num(worst)
		}
	}
	comparePaths(cs, "rprop", "Epsilon,MaxIterations", "separable-quadratic", res, tol, wit, true)
	if res[0].fail == "" {
		cs.Nontrivial("rprop", fmtVec(q), fmtVec(c), fmtVec(x0), epsilon, step)
	}
}

// runA dispatches case idx of monitor (a).
func runA(cs *fw.Case, idx int) {
	switch idx % 10 {
	case 0, 1, 2:
		runAChol(cs, idx/10*3+idx%10)
	case 3, 4:
		runAGaussJordan(cs, idx/10*2+idx%10-3)
	case 5, 6, 7:
		runAInverse(cs, idx/10*3+idx%10-5)
	case 8:
		runASaga(cs, idx/10)
	default:
		runARprop(cs, idx/10)
	}
}

var _ = prng.New
