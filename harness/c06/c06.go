// Package c06: derivatives propagate through linear algebra; fast paths equal
// generic paths; Jacobian / Hessian helpers (DESIGN.md, C06).
package c06

import (
	"verifharness/internal/fw"
)

// Run is the C06 workload.
func Run(c *fw.Ctx) {
	// (a) specialised vs generic paths: the index enumerates routine x option x
	// width x size, the stream draws the numbers
	c.Cases("a", c.N(1200, 40000), func(cs *fw.Case) { runA(cs, cs.Index) })
	// (b) analytic identities: directed list (all small shapes, fully
	// activated, both orders) then the seeded list
	c.Cases("b.directed", c.N(len(bTable)*8, len(bTable)*8), func(cs *fw.Case) { runB(cs, cs.Index, true) })
	c.Cases("b", c.N(len(bTable)*60, len(bTable)*1500), func(cs *fw.Case) { runB(cs, cs.Index, false) })
}
