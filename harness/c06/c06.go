// Package c06: derivatives propagate through linear algebra; fast paths equal
// generic paths; Jacobian / Hessian helpers (DESIGN.md, C06).
package c06

import (
	"verifharness/internal/fw"
)

// Run is the C06 workload.
func Run(c *fw.Ctx) {
	// (a) specialised vs generic paths: the index enumerates routine x option x
	// width x size, the stream draws the numbers
	c.Cases("a", c.N(60000, 1500000), func(cs *fw.Case) { runA(cs, cs.Index) })
	// (b) analytic identities: directed list (all small shapes, fully
	// activated, both orders) then the seeded list
	c.Cases("b.directed", c.N(len(bTable)*8, len(bTable)*8), func(cs *fw.Case) { runB(cs, cs.Index, true) })
	c.Cases("b", c.N(len(bTable)*4000, len(bTable)*100000), func(cs *fw.Case) { runB(cs, cs.Index, false) })
	// (b) LDL+ForcePD on indefinite inputs whose pivots keep their magnitude
	c.Cases("b.forcepd", c.N(6000, 150000), func(cs *fw.Case) { runBForcePD(cs, cs.Index) })
	// (c) differential against the routine's own float result
	c.Cases("c.directed", len(cTable)*8, func(cs *fw.Case) { runC(cs, cs.Index, true) })
	c.Cases("c", c.N(len(cTable)*1500, len(cTable)*40000), func(cs *fw.Case) { runC(cs, cs.Index, false) })
	// Jacobian / Hessian helpers: 9 receiver types x 2 storages x 2 helpers x
	// 2 receiver states x 3 argument states = 216 configurations per round
	c.Cases("c.helpers", c.N(216*20, 216*500), func(cs *fw.Case) { runHelpers(cs, cs.Index) })
}
