package c06

// Monitor (c): routines without a closed-form derivative are differenced
// against their own Float64 result (central differences, Romberg/Richardson
// extrapolation over three step sizes); Matrix.Jacobian / Matrix.Hessian
// against polynomial maps with known derivatives.

import (
	"fmt"
	"math"

	ad "github.com/pbenner/autodiff"
	"github.com/pbenner/autodiff/algorithm/eigensystem"
	"github.com/pbenner/autodiff/algorithm/gramSchmidt"
	"github.com/pbenner/autodiff/algorithm/hessenbergReduction"
	"github.com/pbenner/autodiff/algorithm/householderBidiagonalization"
	"github.com/pbenner/autodiff/algorithm/householderTridiagonalization"
	"github.com/pbenner/autodiff/algorithm/msqrt"
	"github.com/pbenner/autodiff/algorithm/qrAlgorithm"
	"github.com/pbenner/autodiff/algorithm/svd"

	"verifharness/internal/fw"
	"verifharness/internal/prng"
)

// fdTol is the stated tolerance of the differential monitor: 1e-6 of the
// scale of the derivative (wrong, missing or stale derivatives are O(1)).
const fdTol = 1e-6

// fdStable: an extrapolation whose last two levels disagree by more than this
// fraction of the scale is not used (the routine's float result is not smooth
// there: a branch or an iteration count changed inside the stencil).
const fdStable = 1e-7

type fdOracle struct {
	pb       *problem
	exec     func(ins []*input) ([]float64, string)
	base     []float64
	defect   func(ins []*input, vals []float64) string
	inS      float64 // scale of the inputs
	outS     float64 // scale of the outputs
	iterDiff bool    // a stencil point needed another number of iterations
}

func newFD(pb *problem, fvals []float64, exec func(ins []*input) ([]float64, string), defect func(ins []*input, vals []float64) string) *fdOracle {
	o := &fdOracle{pb: pb, exec: exec, base: fvals, defect: defect}
	for _, in := range pb.in {
		o.inS = math.Max(o.inS, maxAbsV(in.v))
	}
	if o.inS == 0 {
		o.inS = 1
	}
	o.outS = math.Max(maxAbsV(fvals), 1e-300)
	return o
}

func (o *fdOracle) admissible() string { return "" }

func (o *fdOracle) check(vals []float64, eps float64) string { return o.defect(o.pb.in, vals) }

// valTol: the magic path performs the same operations as the float path;
// values are compared with the conditioning-free bound of a backward stable
// orthogonal reduction (the iterative routines amplify by their iteration
// count, covered by the factor).
func (o *fdOracle) valTol(vals []float64, eps float64) float64 {
	return 1e4 * eps * o.outS
}

// at evaluates the float path at x + sum_k c_k * dir_k.
func (o *fdOracle) at(dirs [][]*mat, coef []float64) ([]float64, bool) {
	ins := make([]*input, len(o.pb.in))
	for ai, in := range o.pb.in {
		c := *in
		c.v = append([]float64(nil), in.v...)
		for k, d := range dirs {
			if d[ai] != nil {
				for i, x := range d[ai].a {
					c.v[i] += coef[k] * x
				}
			}
		}
		ins[ai] = &c
	}
	v, fail := o.exec(ins)
	if fail != "" || len(v) != len(o.base) {
		if fail == "iterations" {
			o.iterDiff = true
		}
		return nil, false
	}
	return v, true
}

func (o *fdOracle) failKind() string {
	if o.iterDiff {
		o.iterDiff = false
		return "fd-unstable" // other iteration count inside the stencil
	}
	return "fd-failed"
}

// continuous: the base point lies on the same smooth branch of the float
// result as the two stencil points around it (their mean differs from the base
// value by a second-order term only).  Sign conventions of factors (columns
// of U, V) may flip when an iteration count changes between nearby inputs.
func (o *fdOracle) continuous(p, m []float64) bool {
	for i := range p {
		if !(math.Abs(0.5*(p[i]+m[i])-o.base[i]) <= 1e-4*o.outS) {
			return false
		}
	}
	return true
}

// romberg combines D(h), D(h/2), D(h/4) of an even error expansion.
func romberg(d0, d1, d2 []float64) ([]float64, float64) {
	r := make([]float64, len(d0))
	est := 0.0
	for i := range d0 {
		r1 := (4*d1[i] - d0[i]) / 3
		r1b := (4*d2[i] - d1[i]) / 3
		r2 := (16*r1b - r1) / 15
		r[i] = r2
		e := math.Abs(r2 - r1b)
		if math.IsNaN(e) {
			e = math.Inf(1)
		}
		est = math.Max(est, e)
	}
	return r, est
}

func (o *fdOracle) d1(u []*mat, eps float64) ([]float64, float64, string) {
	var lv [3][]float64
	for k := 0; k < 3; k++ {
		h := 2e-3 * o.inS / math.Pow(2, float64(k))
		p, ok1 := o.at([][]*mat{u}, []float64{h})
		m, ok2 := o.at([][]*mat{u}, []float64{-h})
		if !ok1 || !ok2 {
			return nil, 0, o.failKind()
		}
		if k == 2 && !o.continuous(p, m) {
			return nil, 0, "fd-unstable"
		}
		d := make([]float64, len(p))
		for i := range p {
			d[i] = (p[i] - m[i]) / (2 * h)
		}
		lv[k] = d
	}
	ref, est := romberg(lv[0], lv[1], lv[2])
	sc := math.Max(maxAbsV(ref), o.outS/o.inS)
	if !(est <= fdStable*sc) {
		debugf("fd d1 unstable: %s est=%g sc=%g", o.pb.routine, est, sc)
		return nil, 0, "fd-unstable"
	}
	return ref, fdTol * sc, ""
}

func (o *fdOracle) d2(u, v []*mat, eps float64) ([]float64, float64, string) {
	var lv [3][]float64
	for k := 0; k < 3; k++ {
		h := 1e-2 * o.inS / math.Pow(2, float64(k))
		pp, ok1 := o.at([][]*mat{u, v}, []float64{h, h})
		pm, ok2 := o.at([][]*mat{u, v}, []float64{h, -h})
		mp, ok3 := o.at([][]*mat{u, v}, []float64{-h, h})
		mm, ok4 := o.at([][]*mat{u, v}, []float64{-h, -h})
		if !ok1 || !ok2 || !ok3 || !ok4 {
			return nil, 0, o.failKind()
		}
		if k == 2 && (!o.continuous(pp, mm) || !o.continuous(pm, mp)) {
			return nil, 0, "fd-unstable"
		}
		d := make([]float64, len(pp))
		for i := range pp {
			d[i] = (pp[i] - pm[i] - mp[i] + mm[i]) / (4 * h * h)
		}
		lv[k] = d
	}
	ref, est := romberg(lv[0], lv[1], lv[2])
	sc := math.Max(maxAbsV(ref), o.outS/(o.inS*o.inS))
	if !(est <= 10*fdStable*sc) {
		debugf("fd d2 unstable: %s est=%g sc=%g", o.pb.routine, est, sc)
		return nil, 0, "fd-unstable"
	}
	return ref, fdTol * sc, ""
}

/* defining equations (value-level admission)
 * -------------------------------------------------------------------------- */

func takeMat(vals []float64, off *int, r, c int) *mat {
	m := matFrom(r, c, vals[*off:*off+r*c])
	*off += r * c
	return m
}

func orthDefect(q *mat, name string) string {
	g := subm(mul(q.t(), q), eye(q.c))
	if !(g.maxAbs() <= 1e-8) {
		return name + " not orthogonal"
	}
	return ""
}

func reconDefect(got, want *mat, what string) string {
	d := subm(got, want)
	if !(d.maxAbs() <= 1e-8*math.Max(want.maxAbs(), 1e-300)) {
		return what + " does not reproduce the input"
	}
	return ""
}

/* problems
 * -------------------------------------------------------------------------- */

type cGen func(r *prng.Rand, n int) *problem

func fdOrc(defect func(ins []*input, vals []float64) string) func(pb *problem, fv []float64, exec func([]*input) ([]float64, string)) oracle {
	return func(pb *problem, fv []float64, exec func([]*input) ([]float64, string)) oracle {
		return newFD(pb, fv, exec, defect)
	}
}

func pcGramSchmidt(r *prng.Rand, n int) *problem {
	m := n + r.Intn(3)
	a := genGeneral(r, m, n, r.Uniform(1.5, 20))
	pb := &problem{routine: "gramSchmidt", class: "full-rank", in: []*input{matInput("A", a)}}
	pb.exec = func(args []any, _ *any) ([]block, error) {
		q, rr, err := gramSchmidt.Run(asMatrix(args[0]))
		if err != nil {
			return nil, err
		}
		return []block{matBlock("Q", q), matBlock("R", rr)}, nil
	}
	pb.orc = fdOrc(func(ins []*input, vals []float64) string {
		off := 0
		q := takeMat(vals, &off, m, n)
		rr := takeMat(vals, &off, m, n)
		if s := orthDefect(q, "Q"); s != "" {
			return s
		}
		return reconDefect(mul(q, minor(rr, rowsFrom(n, m), nil)), ins[0].mat(), "Q R")
	})
	return pb
}

func rowsFrom(a, b int) []int {
	var r []int
	for i := a; i < b; i++ {
		r = append(r, i)
	}
	return r
}

func pcHessenberg(r *prng.Rand, n int) *problem {
	a := genGeneral(r, n, n, r.Uniform(1.5, 20))
	pb := &problem{routine: "hessenbergReduction", opts: "ComputeU", class: "general", in: []*input{matInput("A", a)}, reusable: true}
	pb.degeneracy = func(ins []*input) float64 { return hessenbergDegeneracy(ins[0].mat()) }
	pb.exec = func(args []any, st *any) ([]block, error) {
		if *st == nil {
			*st = &hessenbergReduction.InSitu{}
		}
		h, u, err := hessenbergReduction.Run(asMatrix(args[0]), hessenbergReduction.ComputeU{Value: true}, (*st).(*hessenbergReduction.InSitu))
		if err != nil {
			return nil, err
		}
		return []block{matBlock("H", h), matBlock("U", u)}, nil
	}
	pb.orc = fdOrc(func(ins []*input, vals []float64) string {
		off := 0
		h := takeMat(vals, &off, n, n)
		u := takeMat(vals, &off, n, n)
		if s := orthDefect(u, "U"); s != "" {
			return s
		}
		return reconDefect(mul3(u, h, u.t()), ins[0].mat(), "U H U^T")
	})
	return pb
}

func pcTridiag(r *prng.Rand, n int) *problem {
	a := genSPD(r, n, r.Uniform(1.5, 20))
	for i := 0; i < n; i++ {
		a.add(i, i, -r.Uniform(0, 1)*a.at(i, i)) // symmetric, not necessarily definite
	}
	in := matInput("A", a)
	in.sym = true
	pb := &problem{routine: "householderTridiagonalization", opts: "ComputeU", class: "symmetric", in: []*input{in}, reusable: true}
	pb.degeneracy = func(ins []*input) float64 { return hessenbergDegeneracy(ins[0].mat()) }
	pb.exec = func(args []any, st *any) ([]block, error) {
		if *st == nil {
			*st = &householderTridiagonalization.InSitu{}
		}
		t, u, err := householderTridiagonalization.Run(asMatrix(args[0]), householderTridiagonalization.ComputeU{Value: true}, (*st).(*householderTridiagonalization.InSitu))
		if err != nil {
			return nil, err
		}
		return []block{matBlock("T", t), matBlock("U", u)}, nil
	}
	pb.orc = fdOrc(func(ins []*input, vals []float64) string {
		off := 0
		t := takeMat(vals, &off, n, n)
		u := takeMat(vals, &off, n, n)
		if s := orthDefect(u, "U"); s != "" {
			return s
		}
		return reconDefect(mul3(u, t, u.t()), ins[0].mat(), "U T U^T")
	})
	return pb
}

func pcBidiag(r *prng.Rand, n int) *problem {
	m := n + r.Intn(3)
	a := genGeneral(r, m, n, r.Uniform(1.5, 20))
	pb := &problem{routine: "householderBidiagonalization", opts: "ComputeU,ComputeV", class: "full-rank", in: []*input{matInput("A", a)}, reusable: true}
	pb.degeneracy = func(ins []*input) float64 { return bidiagDegeneracy(ins[0].mat()) }
	pb.exec = func(args []any, st *any) ([]block, error) {
		if *st == nil {
			*st = &householderBidiagonalization.InSitu{}
		}
		b, u, v, err := householderBidiagonalization.Run(asMatrix(args[0]), householderBidiagonalization.ComputeU{Value: true}, householderBidiagonalization.ComputeV{Value: true}, (*st).(*householderBidiagonalization.InSitu))
		if err != nil {
			return nil, err
		}
		return []block{matBlock("B", b), matBlock("U", u), matBlock("V", v)}, nil
	}
	pb.orc = fdOrc(func(ins []*input, vals []float64) string {
		off := 0
		b := takeMat(vals, &off, m, n)
		u := takeMat(vals, &off, m, m)
		v := takeMat(vals, &off, n, n)
		if s := orthDefect(u, "U") + orthDefect(v, "V"); s != "" {
			return s
		}
		return reconDefect(mul3(u, b, v.t()), ins[0].mat(), "U B V^T")
	})
	return pb
}

func pcQR(symmetric bool, eps float64) cGen {
	return func(r *prng.Rand, n int) *problem {
		if n < 2 {
			n = 2
		}
		a, _ := genRealSpectrum(r, n, symmetric)
		in := matInput("A", a)
		in.sym = symmetric
		pb := &problem{iterative: true, routine: "qrAlgorithm", opts: "ComputeU", class: "real-simple-spectrum", in: []*input{in}, ticks: 5000}
		pb.degeneracy = func(ins []*input) float64 { return hessenbergDegeneracy(ins[0].mat()) }
		if symmetric {
			pb.opts += ",Symmetric"
			pb.class = "symmetric-simple-spectrum"
		}
		if eps > 0 {
			pb.opts += fmt.Sprintf(",Epsilon=%g", eps)
		}
		pb.exec = func(args []any, _ *any) ([]block, error) {
			o := []interface{}{qrAlgorithm.ComputeU{Value: true}, qrAlgorithm.Symmetric{Value: symmetric}}
			if eps > 0 {
				o = append(o, qrAlgorithm.Epsilon{Value: eps})
			}
			t, u, err := qrAlgorithm.Run(asMatrix(args[0]), o...)
			if err != nil {
				return nil, err
			}
			return []block{matBlock("T", t), matBlock("U", u)}, nil
		}
		pb.orc = fdOrc(func(ins []*input, vals []float64) string {
			off := 0
			t := takeMat(vals, &off, n, n)
			u := takeMat(vals, &off, n, n)
			if s := orthDefect(u, "U"); s != "" {
				return s
			}
			return reconDefect(mul3(u, t, u.t()), ins[0].mat(), "U T U^T")
		})
		return pb
	}
}

func pcEigenvectors(symmetric bool) cGen {
	return func(r *prng.Rand, n int) *problem {
		if n < 2 {
			n = 2
		}
		a, _ := genRealSpectrum(r, n, symmetric)
		in := matInput("A", a)
		in.sym = symmetric
		pb := &problem{iterative: true, routine: "eigensystem", opts: "ComputeEigenvectors", class: "real-simple-spectrum", in: []*input{in}, ticks: 5000}
		pb.degeneracy = func(ins []*input) float64 { return hessenbergDegeneracy(ins[0].mat()) }
		if symmetric {
			pb.opts += ",Symmetric"
			pb.class = "symmetric-simple-spectrum"
		}
		pb.exec = func(args []any, _ *any) ([]block, error) {
			o := []interface{}{eigensystem.ComputeEigenvectors{Value: true}}
			if symmetric {
				o = append(o, eigensystem.Symmetric{Value: true})
			}
			ev, vs, err := eigensystem.Run(asMatrix(args[0]), o...)
			if err != nil {
				return nil, err
			}
			return []block{vecBlock("eigenvalues", ev), matBlock("eigenvectors", vs)}, nil
		}
		pb.orc = fdOrc(func(ins []*input, vals []float64) string {
			am := ins[0].mat()
			lam := vals[:n]
			off := n
			vs := takeMat(vals, &off, n, n)
			av := mul(am, vs)
			for j := 0; j < n; j++ {
				for i := 0; i < n; i++ {
					if !(math.Abs(av.at(i, j)-lam[j]*vs.at(i, j)) <= 1e-8*math.Max(am.maxAbs(), 1e-300)) {
						return "A v != lambda v"
					}
				}
			}
			return ""
		})
		return pb
	}
}

func pcSVD(r *prng.Rand, n int) *problem {
	m := n + r.Intn(3)
	var a *mat
	class := "dense"
	if r.Chance(0.6) {
		a = newMat(m, n)
		for i := 0; i < n; i++ {
			a.set(i, i, r.Uniform(0.5, 3)*math.Pow(1.5, float64(i)))
			if i+1 < n {
				a.set(i, i+1, r.Uniform(-1, 1))
			}
		}
		class = "bidiagonal"
	} else {
		a = genGeneral(r, m, n, r.Uniform(2, 30))
	}
	in := matInput("A", a)
	if class == "bidiagonal" {
		// derivatives with respect to the structural zeros of a bidiagonal input
		// are a separate question (monitor b); here the band is the argument
		in.mask = make([]bool, m*n)
		for i := 0; i < n; i++ {
			in.mask[i*n+i] = true
			if i+1 < n {
				in.mask[i*n+i+1] = true
			}
		}
	}
	pb := &problem{iterative: true, routine: "svd", opts: "ComputeU,ComputeV", class: class, in: []*input{in}, ticks: 5000}
	pb.degeneracy = func(ins []*input) float64 { return bidiagDegeneracy(ins[0].mat()) }
	pb.exec = func(args []any, _ *any) ([]block, error) {
		s, u, v, err := svd.Run(asMatrix(args[0]), svd.ComputeU{Value: true}, svd.ComputeV{Value: true})
		if err != nil {
			return nil, err
		}
		return []block{matBlock("S", s), matBlock("U", u), matBlock("V", v)}, nil
	}
	pb.orc = fdOrc(func(ins []*input, vals []float64) string {
		off := 0
		s := takeMat(vals, &off, m, n)
		u := takeMat(vals, &off, m, m)
		v := takeMat(vals, &off, n, n)
		if x := orthDefect(u, "U") + orthDefect(v, "V"); x != "" {
			return x
		}
		for i := 0; i < n; i++ {
			if s.at(i, i) < 0 {
				return "negative singular value"
			}
		}
		return reconDefect(mul3(u, s, v.t()), ins[0].mat(), "U S V^T")
	})
	return pb
}

func pcMsqrt(r *prng.Rand, n int) *problem {
	a := genSPD(r, n, r.Uniform(1.5, 20))
	in := matInput("A", a)
	// msqrt (Denman-Beavers) is defined for general matrices: entry by entry
	pb := &problem{iterative: true, routine: "msqrt", class: "spd", in: []*input{in}, ticks: 2000}
	pb.exec = func(args []any, _ *any) ([]block, error) {
		x, err := msqrt.Run(asMatrix(args[0]).CloneMatrix()) // the routine consumes its argument
		if err != nil {
			return nil, err
		}
		return []block{matBlock("X", x)}, nil
	}
	pb.orc = fdOrc(func(ins []*input, vals []float64) string {
		off := 0
		x := takeMat(vals, &off, n, n)
		d := subm(mul(x, x), ins[0].mat())
		if !(d.maxAbs() <= 1e-6*ins[0].mat().maxAbs()) {
			return "X X != A"
		}
		return ""
	})
	return pb
}

type cEntry struct {
	name string
	gen  cGen
	maxN int
}

var cTable = []cEntry{
	{"gramSchmidt", pcGramSchmidt, 5},
	{"hessenbergReduction", pcHessenberg, 5},
	{"householderTridiagonalization", pcTridiag, 5},
	{"householderBidiagonalization", pcBidiag, 5},
	{"qrAlgorithm", pcQR(false, 0), 4},
	{"qrAlgorithm|Epsilon", pcQR(false, 2.2e-16), 4},
	{"qrAlgorithm|Symmetric", pcQR(true, 0), 4},
	{"eigensystem|vectors", pcEigenvectors(false), 4},
	{"eigensystem|vectors,Symmetric", pcEigenvectors(true), 4},
	{"svd", pcSVD, 4},
	{"msqrt", pcMsqrt, 4},
}

func runC(cs *fw.Case, idx int, directed bool) {
	r := cs.R
	ent := cTable[idx%len(cTable)]
	rest := idx / len(cTable)
	order := 1 + rest%2
	var n int
	if directed {
		n = 1 + (rest/2)%minInt(ent.maxN, 4)
	} else {
		n = r.Range(1, ent.maxN)
	}
	pb := ent.gen(r, n)
	// a few directions only: every slot costs 6 (order 1) or 12 (order 2) runs
	// of the float path
	maxVars := 6
	if order == 2 {
		maxVars = 3
	}
	p := makePlan(r, pb.in, order, false, maxVars)
	cfg := &caseCfg{mon: "c", e: eR64, p: p, maxPairs: 4, r: r}
	if pb.reusable && r.Chance(0.3) {
		cfg.warm = warmOf(r, pb, eR64)
		cfg.warmP = permutedPlan(r, p)
		cfg.reuse = "reused"
	}
	if judge(cs, pb, cfg) {
		cs.Nontrivial(pb.routine, pb.opts, p.order, p.mode, fmt.Sprint(pb.in[0].v), p.varOf)
		cs.Cover(fmt.Sprintf("set:c-shape:%s:n=%d", ent.name, n))
		if n >= 3 && cs.Index < 400 {
			cs.Sample(map[string]any{"routine": ent.name, "n": n, "order": order, "activation": p.mode, "variables": p.n, "class": pb.class,
				"first_input": fmtVec(pb.in[0].v), "variable_of_entry": p.varOf})
		}
	}
}

/* Jacobian / Hessian helpers
 * -------------------------------------------------------------------------- */

// polyMap is f: R^m -> R^k, f_i(x) = sum_j b_ij x_j + sum_{j<=l} c_ijl x_j x_l
// + d_i x_p x_q x_s with small integer coefficients.
type polyMap struct {
	m, k int
	b    [][]int
	c    [][][]int
	d    []int
	pqs  [][3]int
}

func genPoly(r *prng.Rand, m, k int) *polyMap {
	f := &polyMap{m: m, k: k}
	for i := 0; i < k; i++ {
		b := make([]int, m)
		c := make([][]int, m)
		for j := range b {
			if r.Chance(0.6) {
				b[j] = r.Range(-3, 3)
			}
			c[j] = make([]int, m)
			for l := j; l < m; l++ {
				if r.Chance(0.4) {
					c[j][l] = r.Range(-2, 2)
				}
			}
		}
		f.b = append(f.b, b)
		f.c = append(f.c, c)
		f.d = append(f.d, r.Range(-1, 1))
		f.pqs = append(f.pqs, [3]int{r.Intn(m), r.Intn(m), r.Intn(m)})
	}
	return f
}

// eval computes component i with the library's scalar operations.
func (f *polyMap) eval(i int, x ad.ConstVector) ad.Scalar {
	y := ad.NewReal64(0)
	t := ad.NewReal64(0)
	for j := 0; j < f.m; j++ {
		if f.b[i][j] != 0 {
			t.Mul(x.ConstAt(j), ad.ConstFloat64(float64(f.b[i][j])))
			y.Add(y, t)
		}
		for l := j; l < f.m; l++ {
			if f.c[i][j][l] != 0 {
				t.Mul(x.ConstAt(j), x.ConstAt(l))
				t.Mul(t, ad.ConstFloat64(float64(f.c[i][j][l])))
				y.Add(y, t)
			}
		}
	}
	if f.d[i] != 0 {
		p := f.pqs[i]
		t.Mul(x.ConstAt(p[0]), x.ConstAt(p[1]))
		t.Mul(t, x.ConstAt(p[2]))
		t.Mul(t, ad.ConstFloat64(float64(f.d[i])))
		y.Add(y, t)
	}
	return y
}

// grad and hess of component i at the integer point x (exact in float64).
func (f *polyMap) grad(i int, x []float64) []float64 {
	g := make([]float64, f.m)
	for j := 0; j < f.m; j++ {
		g[j] += float64(f.b[i][j])
		for l := j; l < f.m; l++ {
			c := float64(f.c[i][j][l])
			g[j] += c * x[l]
			g[l] += c * x[j]
		}
	}
	p := f.pqs[i]
	d := float64(f.d[i])
	g[p[0]] += d * x[p[1]] * x[p[2]]
	g[p[1]] += d * x[p[0]] * x[p[2]]
	g[p[2]] += d * x[p[0]] * x[p[1]]
	return g
}

func (f *polyMap) hess(i int, x []float64) [][]float64 {
	h := make([][]float64, f.m)
	for j := range h {
		h[j] = make([]float64, f.m)
	}
	for j := 0; j < f.m; j++ {
		for l := j; l < f.m; l++ {
			c := float64(f.c[i][j][l])
			h[j][l] += c
			h[l][j] += c
		}
	}
	p := f.pqs[i]
	d := float64(f.d[i])
	add := func(a, b int, v float64) { h[a][b] += v; h[b][a] += v }
	add(p[0], p[1], d*x[p[2]])
	add(p[0], p[2], d*x[p[1]])
	add(p[1], p[2], d*x[p[0]])
	return h
}

var helperTypes = []struct {
	name string
	t    ad.ScalarType
}{
	{"Int8", ad.Int8Type}, {"Int16", ad.Int16Type}, {"Int32", ad.Int32Type}, {"Int64", ad.Int64Type}, {"Int", ad.IntType},
	{"Float32", ad.Float32Type}, {"Float64", ad.Float64Type}, {"Real32", ad.Real32Type}, {"Real64", ad.Real64Type},
}

// runHelpers: one case = one receiver type x storage x helper x state of the
// receiver and of the argument vector.
func runHelpers(cs *fw.Case, idx int) {
	r := cs.R
	ht := helperTypes[idx%9]
	storage := []string{"dense", "sparse"}[(idx/9)%2]
	helper := []string{"Jacobian", "Hessian"}[(idx/18)%2]
	recvState := []string{"fresh", "prefilled"}[(idx/36)%2]
	xState := []string{"plain", "stale-derivatives", "other-variable-count"}[(idx/72)%3]
	xType := []elem{eR64, eR32}[r.Intn(2)]
	xStorage := []string{"dense", "sparse"}[r.Intn(2)]
	m := r.Range(1, 4)
	k := r.Range(1, 4)
	if helper == "Hessian" {
		k = 1
	}
	f := genPoly(r, m, k)
	x := make([]float64, m)
	for i := range x {
		x[i] = float64(r.Range(-2, 2))
		if xState != "plain" && x[i] == 0 {
			x[i] = 1 // one root cause per class: absent sparse entries only in the plain state
		}
	}
	xClass := xState
	if xState == "plain" {
		xClass = "plain-" + xStorage
		if xStorage == "sparse" {
			for _, v := range x {
				if v == 0 {
					xClass = "sparse-with-absent-entries"
				}
			}
		}
	}
	// the argument vector in the requested state
	var xv ad.MagicVector
	if xStorage == "dense" {
		xv = ad.NullDenseMagicVector(xType.t, m)
	} else {
		xv = ad.NullSparseMagicVector(xType.t, m)
	}
	for i, v := range x {
		if v != 0 || xStorage == "dense" {
			xv.At(i).SetFloat64(v)
		}
	}
	switch xState {
	case "stale-derivatives":
		// x is the result of an earlier computation in the same m variables:
		// every element carries a dense gradient (and Hessian)
		for i := 0; i < m; i++ {
			s := xv.At(i).(ad.MagicScalar)
			ord := 1
			if helper == "Hessian" {
				ord = 2
			}
			s.Alloc(m, ord)
			for j := 0; j < m; j++ {
				s.SetDerivative(j, float64(3+i+j))
				for l := 0; l < m && ord == 2; l++ {
					s.SetHessian(j, l, float64(1+j+l))
				}
			}
		}
	case "other-variable-count":
		for i := 0; i < m; i++ {
			s := xv.At(i).(ad.MagicScalar)
			s.Alloc(m+2, 1)
			s.SetDerivative(m+1, 5)
		}
	}
	rows, cols := k, m
	if helper == "Hessian" {
		rows = m
	}
	var recv ad.Matrix
	if storage == "dense" {
		recv = ad.NullDenseMatrix(ht.t, rows, cols)
	} else {
		recv = ad.NullSparseMatrix(ht.t, rows, cols)
	}
	if recvState == "prefilled" {
		for i := 0; i < rows; i++ {
			for j := 0; j < cols; j++ {
				recv.At(i, j).SetFloat64(111)
			}
		}
	}
	want := newMat(rows, cols)
	if helper == "Jacobian" {
		for i := 0; i < k; i++ {
			g := f.grad(i, x)
			for j := 0; j < m; j++ {
				want.set(i, j, g[j])
			}
		}
	} else {
		h := f.hess(0, x)
		for i := 0; i < m; i++ {
			for j := 0; j < m; j++ {
				want.set(i, j, h[i][j])
			}
		}
	}
	var got ad.Matrix
	p := fw.Call(func() {
		if helper == "Jacobian" {
			got = recv.Jacobian(func(xx ad.ConstVector) ad.ConstVector {
				y := ad.NullDenseReal64Vector(k)
				for i := 0; i < k; i++ {
					y.At(i).Set(f.eval(i, xx))
				}
				return y
			}, xv)
		} else {
			got = recv.Hessian(func(xx ad.ConstVector) ad.ConstScalar { return f.eval(0, xx) }, xv)
		}
	})
	cfgLabel := fmt.Sprintf("%s/%s", ht.name, storage)
	class := fmt.Sprintf("receiver=%s/%s,x=%s", storage, recvState, xClass)
	// the element type of the receiver is in the detail, not in the signature:
	// the nine instantiations share one template, a defect of one of them still
	// shows under the signature of its storage / state cell
	// a stale entry is a matter of the receiver, a wrong entry of the argument:
	// the signature names the factor the failure kind depends on
	sg := func(kind string) string {
		cell := fmt.Sprintf("receiver=any,x=%s", xClass)
		if kind == "stale-entry" || kind == "receiver-differs" || kind == "shape" {
			cell = fmt.Sprintf("receiver=%s/%s,x=any", storage, recvState)
		}
		return fmt.Sprintf("C06|c.helpers|%s|%s|%s", helper, cell, kind)
	}
	wit := map[string]any{"helper": helper, "receiver": cfgLabel, "receiver_state": recvState, "x": fmtVec(x), "x_type": xType.name + "/" + xStorage, "x_state": xState,
		"b": f.b, "c": f.c, "d": f.d, "cubic": f.pqs, "expected": fmtVec(want.a)}
	cs.Cover("helpers:" + helper + ":" + cfgLabel)
	cs.Cover("helpers-state:" + class)
	if p != nil {
		cs.Violation(sg("panic"), cfgLabel+": "+p.Msg+" @ "+p.Frame, wit)
		return
	}
	gr, gc := got.Dims()
	if gr != rows || gc != cols {
		cs.Violation(sg("shape"), cfgLabel+": "+fmt.Sprintf("result is %dx%d, expected %dx%d", gr, gc, rows, cols), wit)
		return
	}
	for i := 0; i < rows; i++ {
		for j := 0; j < cols; j++ {
			// all quantities are small integers: exact in every element type
			if g := got.ConstAt(i, j).GetFloat64(); g != want.at(i, j) {
				kind := "wrong-entry"
				if recvState == "prefilled" && xState != "stale-derivatives" && want.at(i, j) == 0 && g == 111 {
					kind = "stale-entry"
				}
				cs.Violation(sg(kind), cfgLabel+": "+fmt.Sprintf("entry (%d,%d) = %v, the partial derivative is %v", i, j, g, want.at(i, j)), wit)
				return
			}
			if rg := recv.ConstAt(i, j).GetFloat64(); rg != want.at(i, j) {
				cs.Violation(sg("receiver-differs"), cfgLabel+": "+fmt.Sprintf("receiver entry (%d,%d) = %v, the partial derivative is %v", i, j, rg, want.at(i, j)), wit)
				return
			}
		}
	}
	cs.Nontrivial("helpers", helper, cfgLabel, class, fmtVec(x), f.b, f.c, f.d, f.pqs)
	if m >= 3 {
		cs.Sample(wit)
	}
}
