package c06

// Independent float64 reference linear algebra used by the C06 oracles.  None
// of these routines calls into the library under test.

import (
	"math"
	"sort"
)

const eps64 = 1.1102230246251565e-16 // 2^-53
const eps32 = 5.960464477539063e-08  // 2^-24

// mat is a dense row-major matrix.
type mat struct {
	r, c int
	a    []float64
}

func newMat(r, c int) *mat { return &mat{r: r, c: c, a: make([]float64, r*c)} }

func matFrom(r, c int, a []float64) *mat {
	b := make([]float64, len(a))
	copy(b, a)
	return &mat{r: r, c: c, a: b}
}

func eye(n int) *mat {
	m := newMat(n, n)
	for i := 0; i < n; i++ {
		m.a[i*n+i] = 1
	}
	return m
}

func (m *mat) at(i, j int) float64     { return m.a[i*m.c+j] }
func (m *mat) set(i, j int, v float64) { m.a[i*m.c+j] = v }
func (m *mat) add(i, j int, v float64) { m.a[i*m.c+j] += v }

func (m *mat) clone() *mat { return matFrom(m.r, m.c, m.a) }

func (m *mat) t() *mat {
	r := newMat(m.c, m.r)
	for i := 0; i < m.r; i++ {
		for j := 0; j < m.c; j++ {
			r.a[j*m.r+i] = m.a[i*m.c+j]
		}
	}
	return r
}

func mul(a, b *mat) *mat {
	if a.c != b.r {
		panic("c06 ref: mul dims")
	}
	r := newMat(a.r, b.c)
	for i := 0; i < a.r; i++ {
		for k := 0; k < a.c; k++ {
			x := a.a[i*a.c+k]
			if x == 0 {
				continue
			}
			for j := 0; j < b.c; j++ {
				r.a[i*b.c+j] += x * b.a[k*b.c+j]
			}
		}
	}
	return r
}

func mul3(a, b, c *mat) *mat { return mul(mul(a, b), c) }

func addm(a, b *mat) *mat {
	r := a.clone()
	for i := range r.a {
		r.a[i] += b.a[i]
	}
	return r
}

func subm(a, b *mat) *mat {
	r := a.clone()
	for i := range r.a {
		r.a[i] -= b.a[i]
	}
	return r
}

func scale(a *mat, s float64) *mat {
	r := a.clone()
	for i := range r.a {
		r.a[i] *= s
	}
	return r
}

func (m *mat) maxAbs() float64 {
	x := 0.0
	for _, v := range m.a {
		if math.IsNaN(v) {
			return math.NaN()
		}
		if w := math.Abs(v); w > x {
			x = w
		}
	}
	return x
}

// normInf is the maximum absolute row sum.
func (m *mat) normInf() float64 {
	x := 0.0
	for i := 0; i < m.r; i++ {
		s := 0.0
		for j := 0; j < m.c; j++ {
			s += math.Abs(m.a[i*m.c+j])
		}
		if s > x {
			x = s
		}
	}
	return x
}

func (m *mat) normF() float64 {
	s := 0.0
	for _, v := range m.a {
		s += v * v
	}
	return math.Sqrt(s)
}

func trace(m *mat) float64 {
	s := 0.0
	for i := 0; i < m.r && i < m.c; i++ {
		s += m.a[i*m.c+i]
	}
	return s
}

func (m *mat) finite() bool {
	for _, v := range m.a {
		if math.IsNaN(v) || math.IsInf(v, 0) {
			return false
		}
	}
	return true
}

func (m *mat) isSymmetric() bool {
	if m.r != m.c {
		return false
	}
	for i := 0; i < m.r; i++ {
		for j := 0; j < i; j++ {
			if m.at(i, j) != m.at(j, i) {
				return false
			}
		}
	}
	return true
}

// lu is an LU factorisation with partial pivoting: P A = L U.
type lu struct {
	n    int
	f    *mat
	perm []int
	sign float64
	sing bool
}

func luFactor(a *mat) *lu {
	n := a.r
	f := a.clone()
	p := make([]int, n)
	for i := range p {
		p[i] = i
	}
	sign := 1.0
	sing := false
	for k := 0; k < n; k++ {
		piv, best := k, math.Abs(f.at(k, k))
		for i := k + 1; i < n; i++ {
			if v := math.Abs(f.at(i, k)); v > best {
				piv, best = i, v
			}
		}
		if best == 0 || math.IsNaN(best) {
			sing = true
			continue
		}
		if piv != k {
			for j := 0; j < n; j++ {
				f.a[k*n+j], f.a[piv*n+j] = f.a[piv*n+j], f.a[k*n+j]
			}
			p[k], p[piv] = p[piv], p[k]
			sign = -sign
		}
		for i := k + 1; i < n; i++ {
			l := f.at(i, k) / f.at(k, k)
			f.set(i, k, l)
			if l != 0 {
				for j := k + 1; j < n; j++ {
					f.a[i*n+j] -= l * f.a[k*n+j]
				}
			}
		}
	}
	return &lu{n: n, f: f, perm: p, sign: sign, sing: sing}
}

func (l *lu) det() float64 {
	if l.sing {
		return 0
	}
	d := l.sign
	for i := 0; i < l.n; i++ {
		d *= l.f.at(i, i)
	}
	return d
}

// solve returns A^-1 B.
func (l *lu) solve(b *mat) *mat {
	n := l.n
	x := newMat(n, b.c)
	for c := 0; c < b.c; c++ {
		y := make([]float64, n)
		for i := 0; i < n; i++ {
			s := b.at(l.perm[i], c)
			for j := 0; j < i; j++ {
				s -= l.f.at(i, j) * y[j]
			}
			y[i] = s
		}
		for i := n - 1; i >= 0; i-- {
			s := y[i]
			for j := i + 1; j < n; j++ {
				s -= l.f.at(i, j) * y[j]
			}
			y[i] = s / l.f.at(i, i)
		}
		for i := 0; i < n; i++ {
			x.set(i, c, y[i])
		}
	}
	return x
}

// inverse returns A^-1 refined by one step of residual correction, and
// whether A is numerically singular.
func inverse(a *mat) (*mat, bool) {
	l := luFactor(a)
	if l.sing {
		return nil, false
	}
	x := l.solve(eye(a.r))
	// one step of iterative refinement: X += A^-1 (I - A X)
	res := subm(eye(a.r), mul(a, x))
	x = addm(x, l.solve(res))
	if !x.finite() {
		return nil, false
	}
	return x, true
}

func det(a *mat) float64 {
	if a.r == 0 {
		return 1
	}
	return luFactor(a).det()
}

// minor removes the given rows and columns.
func minor(a *mat, rows, cols []int) *mat {
	skipR := map[int]bool{}
	skipC := map[int]bool{}
	for _, r := range rows {
		skipR[r] = true
	}
	for _, c := range cols {
		skipC[c] = true
	}
	m := newMat(a.r-len(skipR), a.c-len(skipC))
	ii := 0
	for i := 0; i < a.r; i++ {
		if skipR[i] {
			continue
		}
		jj := 0
		for j := 0; j < a.c; j++ {
			if skipC[j] {
				continue
			}
			m.set(ii, jj, a.at(i, j))
			jj++
		}
		ii++
	}
	return m
}

// condInf is the infinity-norm condition number (Inf when singular).
func condInf(a *mat) float64 {
	x, ok := inverse(a)
	if !ok {
		return math.Inf(1)
	}
	return a.normInf() * x.normInf()
}

// chol returns the lower Cholesky factor of the symmetric matrix a (reading
// both triangles through their mean) and false when a is not positive definite.
func chol(a *mat) (*mat, bool) {
	n := a.r
	l := newMat(n, n)
	for i := 0; i < n; i++ {
		for j := 0; j <= i; j++ {
			s := 0.5 * (a.at(i, j) + a.at(j, i))
			for k := 0; k < j; k++ {
				s -= l.at(i, k) * l.at(j, k)
			}
			if i == j {
				if !(s > 0) {
					return nil, false
				}
				l.set(i, i, math.Sqrt(s))
			} else {
				l.set(i, j, s/l.at(j, j))
			}
		}
	}
	return l, true
}

// lowerInverse inverts a lower triangular matrix.
func lowerInverse(l *mat) *mat {
	n := l.r
	x := newMat(n, n)
	for c := 0; c < n; c++ {
		for i := c; i < n; i++ {
			s := 0.0
			if i == c {
				s = 1
			}
			for k := c; k < i; k++ {
				s -= l.at(i, k) * x.at(k, c)
			}
			x.set(i, c, s/l.at(i, i))
		}
	}
	return x
}

// jacobiEig diagonalises a symmetric matrix with cyclic Jacobi rotations:
// a = V diag(w) V^T, eigenvalues ascending.
func jacobiEig(a *mat) ([]float64, *mat) {
	n := a.r
	s := newMat(n, n)
	for i := 0; i < n; i++ {
		for j := 0; j < n; j++ {
			s.set(i, j, 0.5*(a.at(i, j)+a.at(j, i)))
		}
	}
	v := eye(n)
	for sweep := 0; sweep < 60; sweep++ {
		off := 0.0
		for i := 0; i < n; i++ {
			for j := i + 1; j < n; j++ {
				off += s.at(i, j) * s.at(i, j)
			}
		}
		if off == 0 || off < 1e-300 {
			break
		}
		for p := 0; p < n; p++ {
			for q := p + 1; q < n; q++ {
				apq := s.at(p, q)
				if apq == 0 {
					continue
				}
				theta := (s.at(q, q) - s.at(p, p)) / (2 * apq)
				var t float64
				if theta >= 0 {
					t = 1 / (theta + math.Sqrt(1+theta*theta))
				} else {
					t = -1 / (-theta + math.Sqrt(1+theta*theta))
				}
				if math.IsInf(theta, 0) {
					t = 0
				}
				c := 1 / math.Sqrt(1+t*t)
				sn := t * c
				for k := 0; k < n; k++ {
					akp, akq := s.at(k, p), s.at(k, q)
					s.set(k, p, c*akp-sn*akq)
					s.set(k, q, sn*akp+c*akq)
				}
				for k := 0; k < n; k++ {
					apk, aqk := s.at(p, k), s.at(q, k)
					s.set(p, k, c*apk-sn*aqk)
					s.set(q, k, sn*apk+c*aqk)
				}
				for k := 0; k < n; k++ {
					vkp, vkq := v.at(k, p), v.at(k, q)
					v.set(k, p, c*vkp-sn*vkq)
					v.set(k, q, sn*vkp+c*vkq)
				}
			}
		}
	}
	idx := make([]int, n)
	for i := range idx {
		idx[i] = i
	}
	sort.Slice(idx, func(x, y int) bool { return s.at(idx[x], idx[x]) < s.at(idx[y], idx[y]) })
	w := make([]float64, n)
	vv := newMat(n, n)
	for k, i := range idx {
		w[k] = s.at(i, i)
		for r := 0; r < n; r++ {
			vv.set(r, k, v.at(r, i))
		}
	}
	return w, vv
}

// svdRef returns the singular values (descending) with left and right singular
// vectors (columns of u: m x n, v: n x n) of an m x n matrix, m >= n, through
// the Jacobi eigen-decomposition of A^T A.  Adequate for cond(A) <~ 1e6.
func svdRef(a *mat) ([]float64, *mat, *mat) {
	n := a.c
	w, v := jacobiEig(mul(a.t(), a))
	sig := make([]float64, n)
	vv := newMat(n, n)
	for k := 0; k < n; k++ {
		src := n - 1 - k
		x := w[src]
		if x < 0 {
			x = 0
		}
		sig[k] = math.Sqrt(x)
		for r := 0; r < n; r++ {
			vv.set(r, k, v.at(r, src))
		}
	}
	u := mul(a, vv)
	for k := 0; k < n; k++ {
		// normalise the column (more accurate than dividing by sig)
		s := 0.0
		for r := 0; r < a.r; r++ {
			s += u.at(r, k) * u.at(r, k)
		}
		s = math.Sqrt(s)
		if s > 0 {
			for r := 0; r < a.r; r++ {
				u.set(r, k, u.at(r, k)/s)
			}
			sig[k] = s
		}
	}
	return sig, u, vv
}

// cond2 is the spectral condition number of a square or tall matrix.
func cond2(a *mat) float64 {
	s, _, _ := svdRef(a)
	if s[len(s)-1] == 0 {
		return math.Inf(1)
	}
	return s[0] / s[len(s)-1]
}

// nullVector returns a unit vector w with (a - mu I) w ~ 0 by inverse
// iteration (used for left eigenvectors with a = A^T).
func nullVector(a *mat, mu float64) ([]float64, bool) {
	n := a.r
	sh := a.clone()
	d := math.Max(math.Abs(mu), a.normInf()) * 1e-10
	if d == 0 {
		d = 1e-10
	}
	for i := 0; i < n; i++ {
		sh.add(i, i, -(mu + d))
	}
	l := luFactor(sh)
	if l.sing {
		return nil, false
	}
	w := newMat(n, 1)
	for i := 0; i < n; i++ {
		w.set(i, 0, 1/math.Sqrt(float64(n))+0.1*float64(i%3))
	}
	for it := 0; it < 6; it++ {
		w = l.solve(w)
		nm := w.normF()
		if nm == 0 || math.IsNaN(nm) || math.IsInf(nm, 0) {
			return nil, false
		}
		w = scale(w, 1/nm)
	}
	return w.a, true
}

func dotv(a, b []float64) float64 {
	s := 0.0
	for i := range a {
		s += a[i] * b[i]
	}
	return s
}

func maxAbsV(a []float64) float64 {
	x := 0.0
	for _, v := range a {
		if math.IsNaN(v) {
			return math.NaN()
		}
		if w := math.Abs(v); w > x {
			x = w
		}
	}
	return x
}

/* Householder reflector sequences of the reductions (reference side)
 * -------------------------------------------------------------------------- */

// houseRatio replicates householder.Run on x (x -> +|x| e1) and returns the
// reflector (beta, nu) together with sigma/x0^2 when x0 > 0 (+Inf otherwise):
// in that branch nu0 = -sigma/(x0+mu), and for sigma/x0^2 -> 0 the library
// divides by a vanishing nu0 (nu -> infinity, beta -> 0).
func houseRatio(x []float64) (float64, []float64, float64) {
	sigma := 0.0
	for _, v := range x[1:] {
		sigma += v * v
	}
	nu := make([]float64, len(x))
	nu[0] = 1
	if sigma == 0 {
		return 0, nu, math.Inf(1)
	}
	mu := math.Sqrt(x[0]*x[0] + sigma)
	ratio := math.Inf(1)
	var nu0 float64
	if x[0] <= 0 {
		nu0 = x[0] - mu
	} else {
		nu0 = -sigma / (x[0] + mu)
		ratio = sigma / (x[0] * x[0])
	}
	beta := 2 * nu0 * nu0 / (sigma + nu0*nu0)
	for i := 1; i < len(x); i++ {
		nu[i] = x[i] / nu0
	}
	return beta, nu, ratio
}

// reflect applies I - beta nu nu^T to the rows r0.. (left) or columns c0..
// (right) of a.
func reflectLeft(a *mat, beta float64, nu []float64, r0 int) {
	for j := 0; j < a.c; j++ {
		s := 0.0
		for i, v := range nu {
			s += v * a.at(r0+i, j)
		}
		s *= beta
		for i, v := range nu {
			a.add(r0+i, j, -s*v)
		}
	}
}

func reflectRight(a *mat, beta float64, nu []float64, c0 int) {
	for i := 0; i < a.r; i++ {
		s := 0.0
		for j, v := range nu {
			s += a.at(i, c0+j) * v
		}
		s *= beta
		for j, v := range nu {
			a.add(i, c0+j, -s*v)
		}
	}
}

// hessenbergDegeneracy: smallest sigma/x0^2 over the reflectors of the
// Householder reduction to Hessenberg (tridiagonal for symmetric input) form.
func hessenbergDegeneracy(a *mat) float64 {
	a = a.clone()
	n := a.r
	worst := math.Inf(1)
	for k := 0; k < n-2; k++ {
		x := make([]float64, n-k-1)
		for i := range x {
			x[i] = a.at(k+1+i, k)
		}
		beta, nu, ratio := houseRatio(x)
		worst = math.Min(worst, ratio)
		reflectLeft(a, beta, nu, k+1)
		reflectRight(a, beta, nu, k+1)
	}
	return worst
}

// bidiagDegeneracy: the same for the column and row reflectors of the
// Householder bidiagonalisation (m >= n).
func bidiagDegeneracy(a *mat) float64 {
	a = a.clone()
	m, n := a.r, a.c
	worst := math.Inf(1)
	for j := 0; j < n; j++ {
		x := make([]float64, m-j)
		for i := range x {
			x[i] = a.at(j+i, j)
		}
		beta, nu, ratio := houseRatio(x)
		worst = math.Min(worst, ratio)
		reflectLeft(a, beta, nu, j)
		if j < n-2 {
			y := make([]float64, n-j-1)
			for i := range y {
				y[i] = a.at(j, j+1+i)
			}
			beta, nu, ratio := houseRatio(y)
			worst = math.Min(worst, ratio)
			reflectRight(a, beta, nu, j+1)
		}
	}
	return worst
}
