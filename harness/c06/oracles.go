package c06

// Analytic matrix-calculus oracles of monitor (b).

import (
	"fmt"
	"math"
	"sort"
)

// K is the safety factor of the condition-scaled tolerances
// (tolerance = K * dim * eps_T * cond * scale).
const K = 32.0

// ana is a closed-form oracle.
type ana struct {
	adm  string
	ref  []float64 // reference values (NaN = not asserted)
	dim  float64
	cond float64
	s0   float64 // magnitude of the values
	s1   float64 // magnitude of a first derivative per unit direction
	s2   float64 // magnitude of a second derivative per unit directions
	f1   func(u []*mat) []float64
	f2   func(u, v []*mat) []float64
	// chk: defining-equation check replacing the comparison with ref
	chk func(vals []float64, eps float64) string
	// iter: tolerance of routines that stop on a convergence threshold is
	// rel*scale (stated as such), not eps-scaled
	iter float64
}

func normDir(u []*mat) float64 {
	s := 0.0
	for _, m := range u {
		if m != nil {
			for _, x := range m.a {
				s += math.Abs(x)
			}
		}
	}
	return s
}

func (o *ana) admissible() string { return o.adm }

func (o *ana) unit(eps float64) float64 {
	if o.iter > 0 {
		return math.Max(o.iter, K*o.dim*eps*o.cond)
	}
	return K * o.dim * eps * o.cond
}

func (o *ana) check(vals []float64, eps float64) string {
	if o.chk != nil {
		return o.chk(vals, eps)
	}
	// value-level defects are O(1); never admit more than 1% of the scale
	tol := math.Min(64*o.unit(eps), 1e-2) * o.s0
	for i, v := range vals {
		if i < len(o.ref) && !math.IsNaN(o.ref[i]) && !near(v, o.ref[i], tol) {
			return fmt.Sprintf("value %d: %g vs reference %g", i, v, o.ref[i])
		}
	}
	return ""
}

func (o *ana) valTol(vals []float64, eps float64) float64 { return o.unit(eps) * o.s0 }

func (o *ana) d1(u []*mat, eps float64) ([]float64, float64, string) {
	return o.f1(u), o.unit(eps) * o.s1 * normDir(u), ""
}

func (o *ana) d2(u, v []*mat, eps float64) ([]float64, float64, string) {
	if o.f2 == nil {
		return nil, 0, "no-closed-form"
	}
	return o.f2(u, v), o.unit(eps) * o.s2 * normDir(u) * normDir(v), ""
}

func zeroIfNil(u *mat, r, c int) *mat {
	if u == nil {
		return newMat(r, c)
	}
	if u.r != r || u.c != c {
		// a vector operand rendered as a column: same flat data, other shape
		return &mat{r: r, c: c, a: u.a}
	}
	return u
}

func condLimit(eps float64) float64 {
	if eps == eps32 {
		return 1e3
	}
	return 1e6
}

/* determinant by cofactor expansion (general matrix, entry by entry)
 * -------------------------------------------------------------------------- */

func detOracle(a *mat) *ana {
	n := a.r
	o := &ana{dim: float64(n * n), cond: 1}
	o.ref = []float64{det(a)}
	rs := make([]float64, n)
	for i := 0; i < n; i++ {
		for j := 0; j < n; j++ {
			rs[i] += math.Abs(a.at(i, j))
		}
	}
	prodExcept := func(skip ...int) float64 {
		p := 1.0
		for i := 0; i < n; i++ {
			sk := false
			for _, s := range skip {
				if s == i {
					sk = true
				}
			}
			if !sk {
				p *= rs[i]
			}
		}
		return p
	}
	o.s0 = prodExcept()
	for i := 0; i < n; i++ {
		o.s1 = math.Max(o.s1, prodExcept(i))
		for k := 0; k < i; k++ {
			o.s2 = math.Max(o.s2, prodExcept(i, k))
		}
	}
	if n == 1 {
		o.s2 = 1
	}
	cof := newMat(n, n)
	for i := 0; i < n; i++ {
		for j := 0; j < n; j++ {
			c := det(minor(a, []int{i}, []int{j}))
			if (i+j)%2 == 1 {
				c = -c
			}
			cof.set(i, j, c)
		}
	}
	o.f1 = func(u []*mat) []float64 {
		s := 0.0
		if u[0] != nil {
			for i := range u[0].a {
				s += u[0].a[i] * cof.a[i]
			}
		}
		return []float64{s}
	}
	second := func(i, j, k, l int) float64 {
		if i == k || j == l {
			return 0
		}
		c := det(minor(a, []int{i, k}, []int{j, l}))
		kk, ll := k, l
		if k > i {
			kk--
		}
		if l > j {
			ll--
		}
		if (i+j+kk+ll)%2 == 1 {
			c = -c
		}
		return c
	}
	o.f2 = func(u, v []*mat) []float64 {
		s := 0.0
		if u[0] != nil && v[0] != nil {
			for p, x := range u[0].a {
				if x == 0 {
					continue
				}
				for q, y := range v[0].a {
					if y == 0 {
						continue
					}
					s += x * y * second(p/n, p%n, q/n, q%n)
				}
			}
		}
		return []float64{s}
	}
	return o
}

/* determinant / log-determinant of a positive definite matrix
 * -------------------------------------------------------------------------- */

func detPDOracle(a *mat, logScale bool, eps float64) *ana {
	n := a.r
	o := &ana{dim: float64(n)}
	l, ok := chol(a)
	x, ok2 := inverse(a)
	if !ok || !ok2 {
		o.adm = "not-positive-definite"
		return o
	}
	o.cond = cond2(a)
	if !(o.cond <= condLimit(eps)) {
		o.adm = "ill-conditioned"
		return o
	}
	ld := 0.0
	for i := 0; i < n; i++ {
		ld += 2 * math.Log(l.at(i, i))
	}
	nx := x.normInf()
	g := func(u *mat) float64 { return trace(mul(x, u)) }
	h := func(u, v *mat) float64 { return -trace(mul(mul3(x, u, x), v)) }
	if logScale {
		o.ref = []float64{ld}
		o.s0 = math.Max(1, math.Abs(ld))
		o.s1 = nx
		o.s2 = nx * nx
		o.f1 = func(u []*mat) []float64 { return []float64{g(zeroIfNil(u[0], n, n))} }
		o.f2 = func(u, v []*mat) []float64 { return []float64{h(zeroIfNil(u[0], n, n), zeroIfNil(v[0], n, n))} }
	} else {
		d := math.Exp(ld)
		o.ref = []float64{d}
		o.s0 = d
		o.s1 = d * nx
		o.s2 = 2 * d * nx * nx
		o.f1 = func(u []*mat) []float64 { return []float64{d * g(zeroIfNil(u[0], n, n))} }
		o.f2 = func(u, v []*mat) []float64 {
			uu, vv := zeroIfNil(u[0], n, n), zeroIfNil(v[0], n, n)
			return []float64{d * (g(uu)*g(vv) + h(uu, vv))}
		}
	}
	return o
}

// residualDefect: |A X - B| relative to |A| |X| + |B|; a backward stable solve
// leaves a few n*eps, the known un-permutation defect leaves O(1).
func residualDefect(a, x, b *mat, eps float64) string {
	r := subm(mul(a, x), b)
	sc := a.normInf()*x.normInf() + b.normInf()
	lim := 1e-9
	if eps == eps32 {
		lim = 1e-3
	}
	if !(r.normInf() <= lim*sc) {
		return fmt.Sprintf("residual |A X - B| = %g, scale %g", r.normInf(), sc)
	}
	return ""
}

/* inverse
 * -------------------------------------------------------------------------- */

func inverseOracle(a *mat, eps float64) *ana {
	n := a.r
	o := &ana{dim: float64(n)}
	x, ok := inverse(a)
	if !ok {
		o.adm = "singular"
		return o
	}
	nx := x.normInf()
	o.cond = a.normInf() * nx
	if !(o.cond <= condLimit(eps)) {
		o.adm = "ill-conditioned"
		return o
	}
	o.ref = x.a
	o.s0, o.s1, o.s2 = nx, nx*nx, 2*nx*nx*nx
	o.chk = func(vals []float64, eps float64) string {
		if len(vals) != n*n {
			return "shape"
		}
		return residualDefect(a, matFrom(n, n, vals), eye(n), eps)
	}
	o.f1 = func(u []*mat) []float64 { return scale(mul3(x, zeroIfNil(u[0], n, n), x), -1).a }
	o.f2 = func(u, v []*mat) []float64 {
		uu, vv := zeroIfNil(u[0], n, n), zeroIfNil(v[0], n, n)
		return addm(mul(mul3(x, uu, x), mul(vv, x)), mul(mul3(x, vv, x), mul(uu, x))).a
	}
	return o
}

/* solve: X = A^-1 B and x = A^-1 b (Gauss-Jordan, back substitution)
 * -------------------------------------------------------------------------- */

// solveOracle: inputs A (index 0), optionally B (index ib >= 0) and b (index
// iv >= 0); outputs X (if ib >= 0 or identity) then x.
func solveOracle(a, bm *mat, bv []float64, ib, iv int, eps float64) *ana {
	n := a.r
	o := &ana{dim: float64(n)}
	ai, ok := inverse(a)
	if !ok {
		o.adm = "singular"
		return o
	}
	na := ai.normInf()
	o.cond = a.normInf() * na
	if !(o.cond <= condLimit(eps)) {
		o.adm = "ill-conditioned"
		return o
	}
	var x, xb *mat
	sc := 1.0
	if bm != nil {
		x = mul(ai, bm)
		o.ref = append(o.ref, x.a...)
		sc = math.Max(sc, x.normInf())
	}
	if bv != nil {
		xb = mul(ai, matFrom(n, 1, bv))
		o.ref = append(o.ref, xb.a...)
		sc = math.Max(sc, xb.maxAbs())
	}
	o.s0, o.s1, o.s2 = na*sc, na*sc, 2*na*na*sc
	if o.s0 < sc {
		o.s0 = sc
	}
	o.chk = func(vals []float64, eps float64) string {
		off := 0
		if bm != nil {
			if len(vals) < n*bm.c {
				return "shape"
			}
			if s := residualDefect(a, matFrom(n, bm.c, vals[:n*bm.c]), bm, eps); s != "" {
				return s
			}
			off = n * bm.c
		}
		if bv != nil {
			if len(vals) < off+n {
				return "shape"
			}
			return residualDefect(a, matFrom(n, 1, vals[off:off+n]), matFrom(n, 1, bv), eps)
		}
		return ""
	}
	dX := func(u []*mat) (*mat, *mat) {
		ua := zeroIfNil(u[0], n, n)
		var dx, dxb *mat
		if x != nil {
			rhs := scale(mul(ua, x), -1)
			if ib >= 0 && u[ib] != nil {
				rhs = addm(rhs, u[ib])
			}
			dx = mul(ai, rhs)
		}
		if xb != nil {
			rhs := scale(mul(ua, xb), -1)
			if iv >= 0 && u[iv] != nil {
				rhs = addm(rhs, u[iv])
			}
			dxb = mul(ai, rhs)
		}
		return dx, dxb
	}
	o.f1 = func(u []*mat) []float64 {
		dx, dxb := dX(u)
		var r []float64
		if dx != nil {
			r = append(r, dx.a...)
		}
		if dxb != nil {
			r = append(r, dxb.a...)
		}
		return r
	}
	o.f2 = func(u, v []*mat) []float64 {
		ua, va := zeroIfNil(u[0], n, n), zeroIfNil(v[0], n, n)
		dxu, dbu := dX(u)
		dxv, dbv := dX(v)
		var r []float64
		if x != nil {
			r = append(r, scale(mul(ai, addm(mul(ua, dxv), mul(va, dxu))), -1).a...)
		}
		if xb != nil {
			r = append(r, scale(mul(ai, addm(mul(ua, dbv), mul(va, dbu))), -1).a...)
		}
		return r
	}
	return o
}

/* Cholesky
 * -------------------------------------------------------------------------- */

// phi: lower triangle with halved diagonal.
func phi(m *mat) *mat {
	n := m.r
	r := newMat(n, n)
	for i := 0; i < n; i++ {
		for j := 0; j < i; j++ {
			r.set(i, j, m.at(i, j))
		}
		r.set(i, i, 0.5*m.at(i, i))
	}
	return r
}

// cholOracle: variant "plain" (outputs L), "ldl" (outputs L then D).
func cholOracle(a *mat, variant string, eps float64) *ana {
	n := a.r
	o := &ana{dim: float64(n)}
	c, ok := chol(a)
	if !ok {
		o.adm = "not-positive-definite"
		return o
	}
	o.cond = cond2(a)
	if !(o.cond <= condLimit(eps)) {
		o.adm = "ill-conditioned"
		return o
	}
	ci := lowerInverse(c)
	nc, nci := c.normInf(), ci.normInf()
	dC := func(u *mat) (*mat, *mat) { // derivative of C and M_U
		m := mul3(ci, u, ci.t())
		return mul(c, phi(m)), m
	}
	d2C := func(u, v *mat) *mat {
		_, mu := dC(u)
		dcv, mv := dC(v)
		pv := phi(mv)
		nn := scale(addm(mul(pv, mu), mul(mu, pv.t())), -1)
		return addm(mul(dcv, phi(mu)), mul(c, phi(nn)))
	}
	if variant == "plain" {
		o.ref = c.a
		o.s0, o.s1, o.s2 = nc, nc*nci*nci, 4*nc*nci*nci*nci*nci
		o.f1 = func(u []*mat) []float64 { d, _ := dC(zeroIfNil(u[0], n, n)); return d.a }
		o.f2 = func(u, v []*mat) []float64 { return d2C(zeroIfNil(u[0], n, n), zeroIfNil(v[0], n, n)).a }
		return o
	}
	// L D L^T from C: D_jj = C_jj^2, L_ij = C_ij / C_jj
	pack := func(f func(i, j int) float64, g func(j int) float64) []float64 {
		lm, dm := newMat(n, n), newMat(n, n)
		for j := 0; j < n; j++ {
			dm.set(j, j, g(j))
			for i := j; i < n; i++ {
				lm.set(i, j, f(i, j))
			}
		}
		return append(append([]float64{}, lm.a...), dm.a...)
	}
	o.ref = pack(func(i, j int) float64 { return c.at(i, j) / c.at(j, j) }, func(j int) float64 { return c.at(j, j) * c.at(j, j) })
	minD := math.Inf(1)
	for j := 0; j < n; j++ {
		minD = math.Min(minD, c.at(j, j))
	}
	amp := math.Max(1, nc/minD) * math.Max(1, 1/minD)
	o.s0 = math.Max(nc*nc, nc/minD)
	o.s1 = nc * nci * nci * math.Max(nc, amp) * 2
	o.s2 = 8 * nc * nci * nci * nci * nci * math.Max(nc, amp) * math.Max(1, nc/minD)
	o.f1 = func(u []*mat) []float64 {
		d, _ := dC(zeroIfNil(u[0], n, n))
		return pack(func(i, j int) float64 {
			return d.at(i, j)/c.at(j, j) - c.at(i, j)*d.at(j, j)/(c.at(j, j)*c.at(j, j))
		}, func(j int) float64 { return 2 * c.at(j, j) * d.at(j, j) })
	}
	o.f2 = func(u, v []*mat) []float64 {
		uu, vv := zeroIfNil(u[0], n, n), zeroIfNil(v[0], n, n)
		du, _ := dC(uu)
		dv, _ := dC(vv)
		dd := d2C(uu, vv)
		return pack(func(i, j int) float64 {
			cj := c.at(j, j)
			return dd.at(i, j)/cj - (du.at(i, j)*dv.at(j, j)+dv.at(i, j)*du.at(j, j))/(cj*cj) -
				c.at(i, j)*dd.at(j, j)/(cj*cj) + 2*c.at(i, j)*du.at(j, j)*dv.at(j, j)/(cj*cj*cj)
		}, func(j int) float64 { return 2*du.at(j, j)*dv.at(j, j) + 2*c.at(j, j)*dd.at(j, j) })
	}
	return o
}

/* bilinear products
 * -------------------------------------------------------------------------- */

// bilinearOracle: out = f(x, y) bilinear in the inputs 0 and 1.
func bilinearOracle(x, y *mat, f func(a, b *mat) *mat) *ana {
	o := &ana{cond: 1}
	o.dim = float64(x.r*x.c + y.r*y.c)
	z := f(x, y)
	o.ref = z.a
	nx, ny := math.Max(x.maxAbs(), 1e-300), math.Max(y.maxAbs(), 1e-300)
	o.s0 = nx * ny
	o.s1 = math.Max(nx, ny)
	o.s2 = 1
	o.f1 = func(u []*mat) []float64 {
		return addm(f(zeroIfNil(u[0], x.r, x.c), y), f(x, zeroIfNil(u[1], y.r, y.c))).a
	}
	o.f2 = func(u, v []*mat) []float64 {
		return addm(f(zeroIfNil(u[0], x.r, x.c), zeroIfNil(v[1], y.r, y.c)), f(zeroIfNil(v[0], x.r, x.c), zeroIfNil(u[1], y.r, y.c))).a
	}
	return o
}

/* simple real eigenvalues
 * -------------------------------------------------------------------------- */

// eigOracle: lam are the library's eigenvalues in the library's order (validated
// against the spectrum the generator built the matrix from).
func eigOracle(a *mat, lam, intended []float64) *ana {
	n := a.r
	o := &ana{dim: float64(n), cond: 1, iter: 1e-6}
	na := math.Max(a.normInf(), 1e-300)
	// validate: same multiset as the intended spectrum, library order = decreasing modulus
	want := append([]float64(nil), intended...)
	sort.Slice(want, func(i, j int) bool { return math.Abs(want[i]) > math.Abs(want[j]) })
	o.ref = want
	o.s0 = na
	if len(lam) != n {
		o.adm = "shape"
		return o
	}
	// the derivative formulas use the library's own eigenvalues only to locate
	// the eigenvectors; when they are wrong check() reports the value defect first
	xs := make([][]float64, n)
	ys := make([][]float64, n)
	at := a.t()
	ce := 1.0
	gap := math.Inf(1)
	for k := 0; k < n; k++ {
		for j := 0; j < k; j++ {
			gap = math.Min(gap, math.Abs(want[k]-want[j])/na)
			gap = math.Min(gap, math.Abs(math.Abs(want[k])-math.Abs(want[j]))/na)
		}
	}
	if gap < 0.02 {
		o.adm = "clustered-spectrum"
		return o
	}
	for k := 0; k < n; k++ {
		x, ok1 := nullVector(a, want[k])
		y, ok2 := nullVector(at, want[k])
		if !ok1 || !ok2 {
			o.adm = "eigenvector-reference-failed"
			return o
		}
		d := dotv(x, y)
		if math.Abs(d) < 0.05 {
			o.adm = "ill-conditioned-eigenvalue"
			return o
		}
		for i := range y {
			y[i] /= d
		}
		ce = math.Max(ce, math.Sqrt(dotv(y, y)))
		xs[k], ys[k] = x, y
	}
	bil := func(y []float64, u *mat, x []float64) float64 {
		s := 0.0
		for i := 0; i < n; i++ {
			for j := 0; j < n; j++ {
				s += y[i] * u.at(i, j) * x[j]
			}
		}
		return s
	}
	o.s1 = ce
	o.s2 = 2 * ce * ce * float64(n) / (gap * na)
	o.f1 = func(u []*mat) []float64 {
		uu := zeroIfNil(u[0], n, n)
		r := make([]float64, n)
		for k := range r {
			r[k] = bil(ys[k], uu, xs[k])
		}
		return r
	}
	o.f2 = func(u, v []*mat) []float64 {
		uu, vv := zeroIfNil(u[0], n, n), zeroIfNil(v[0], n, n)
		r := make([]float64, n)
		for k := range r {
			for j := 0; j < n; j++ {
				if j == k {
					continue
				}
				r[k] += (bil(ys[k], uu, xs[j])*bil(ys[j], vv, xs[k]) + bil(ys[k], vv, xs[j])*bil(ys[j], uu, xs[k])) / (want[k] - want[j])
			}
		}
		return r
	}
	return o
}

/* simple singular values
 * -------------------------------------------------------------------------- */

// svOracle: outputs are the n diagonal entries of S in the library's order.
func svOracle(a *mat, diag []float64) *ana {
	m, n := a.r, a.c
	o := &ana{dim: float64(m), cond: 1, iter: 1e-6}
	sig, u, v := svdRef(a)
	o.s0 = math.Max(sig[0], 1e-300)
	o.s1 = 1
	for k := 1; k < n; k++ {
		if (sig[k-1]-sig[k])/o.s0 < 0.02 {
			o.adm = "clustered-singular-values"
			return o
		}
	}
	if sig[n-1]/o.s0 < 1e-4 {
		o.adm = "ill-conditioned"
		return o
	}
	// match the library's diagonal to the reference (a negative or foreign
	// entry is a value-level defect that check() reports)
	idx := make([]int, n)
	o.ref = make([]float64, n)
	used := make([]bool, n)
	for k := 0; k < n && k < len(diag); k++ {
		best := -1
		for j := 0; j < n; j++ {
			if !used[j] && (best < 0 || math.Abs(diag[k]-sig[j]) < math.Abs(diag[k]-sig[best])) {
				best = j
			}
		}
		used[best] = true
		idx[k] = best
		o.ref[k] = sig[best]
	}
	o.f1 = func(d []*mat) []float64 {
		dd := zeroIfNil(d[0], m, n)
		r := make([]float64, n)
		for k := range r {
			j := idx[k]
			s := 0.0
			for p := 0; p < m; p++ {
				for q := 0; q < n; q++ {
					s += u.at(p, j) * dd.at(p, q) * v.at(q, j)
				}
			}
			r[k] = s
		}
		return r
	}
	return o
}

/* LDL + ForcePD where every pivot keeps its magnitude (d_j = |c_jj|)
 * -------------------------------------------------------------------------- */

// jet2 is a number with its derivatives along two directions u and v:
// value, d/du, d/dv, d2/(du dv).  The forced-PD recurrence is evaluated on
// jets by the oracle itself (independent of the library's magic scalars).
type jet2 struct{ v, u, w, uw float64 }

func (a jet2) sub(b jet2) jet2 { return jet2{a.v - b.v, a.u - b.u, a.w - b.w, a.uw - b.uw} }
func (a jet2) add(b jet2) jet2 { return jet2{a.v + b.v, a.u + b.u, a.w + b.w, a.uw + b.uw} }
func (a jet2) mul(b jet2) jet2 {
	return jet2{a.v * b.v, a.u*b.v + a.v*b.u, a.w*b.v + a.v*b.w, a.uw*b.v + a.u*b.w + a.w*b.u + a.v*b.uw}
}
func (a jet2) inv() jet2 {
	r := 1 / a.v
	return jet2{r, -a.u * r * r, -a.w * r * r, -a.uw*r*r + 2*a.u*a.w*r*r*r}
}
func (a jet2) abs() jet2 {
	if a.v < 0 {
		return jet2{-a.v, -a.u, -a.w, -a.uw}
	}
	return a
}

// forcePDJets runs the modified factorisation c_jj = a_jj - sum l_jk^2 d_k,
// d_j = |c_jj|, l_ij = (a_ij - sum l_ik l_jk d_k)/d_j on jets (lower triangle of
// the symmetrised argument) and returns L, D and the smallest margin
// |c_jj| / max((theta_j/beta)^2, delta) over the pivots.
func forcePDJets(a, u, v *mat) ([]jet2, []jet2, float64, float64) {
	n := a.r
	at := func(i, j int) jet2 {
		x := jet2{v: 0.5 * (a.at(i, j) + a.at(j, i))}
		if u != nil {
			x.u = 0.5 * (u.at(i, j) + u.at(j, i))
		}
		if v != nil {
			x.w = 0.5 * (v.at(i, j) + v.at(j, i))
		}
		return x
	}
	gamma, xi := 0.0, 0.0
	for i := 0; i < n; i++ {
		for j := 0; j < n; j++ {
			if i == j {
				gamma = math.Max(gamma, math.Abs(a.at(i, i)))
			} else {
				xi = math.Max(xi, math.Abs(a.at(i, j)))
			}
		}
	}
	nu := math.Max(1, math.Sqrt(float64(n*n-1)))
	beta := math.Sqrt(math.Max(math.Max(gamma, xi/nu), 1e-20))
	l := make([]jet2, n*n)
	d := make([]jet2, n*n)
	margin, minPivot := math.Inf(1), math.Inf(1)
	for j := 0; j < n; j++ {
		l[j*n+j] = jet2{v: 1}
		c := at(j, j)
		for k := 0; k < j; k++ {
			c = c.sub(l[j*n+k].mul(l[j*n+k]).mul(d[k*n+k]))
		}
		theta := 0.0
		cij := make([]jet2, n)
		for i := j + 1; i < n; i++ {
			x := at(i, j)
			for k := 0; k < j; k++ {
				x = x.sub(l[i*n+k].mul(l[j*n+k]).mul(d[k*n+k]))
			}
			cij[i] = x
			theta = math.Max(theta, math.Abs(x.v))
		}
		thr := 1e-20
		if j != n-1 {
			thr = math.Max(thr, (theta/beta)*(theta/beta))
		}
		margin = math.Min(margin, math.Abs(c.v)/thr)
		minPivot = math.Min(minPivot, math.Abs(c.v))
		d[j*n+j] = c.abs()
		di := d[j*n+j].inv()
		for i := j + 1; i < n; i++ {
			l[i*n+j] = cij[i].mul(di)
		}
	}
	return l, d, margin, minPivot
}

// forcePDOracle: outputs L (n^2) then D (n^2).
func forcePDOracle(a *mat, eps float64) *ana {
	n := a.r
	o := &ana{dim: float64(n)}
	l, d, margin, minPivot := forcePDJets(a, nil, nil)
	na := math.Max(a.maxAbs(), 1e-300)
	// locally smooth only while every pivot keeps its magnitude with room to
	// spare (no tie in the maximum) and stays away from zero
	if !(margin >= 4) || !(minPivot >= 1e-2*na) {
		o.adm = "modification-active-or-near-tie"
		return o
	}
	maxL, maxD := 1.0, 0.0
	for i := range l {
		o.ref = append(o.ref, l[i].v)
		maxL = math.Max(maxL, math.Abs(l[i].v))
	}
	for i := range d {
		o.ref = append(o.ref, d[i].v)
		maxD = math.Max(maxD, math.Abs(d[i].v))
	}
	g := (1 + maxL) * (1 + maxL)
	o.cond = g * maxD / minPivot
	if !(o.cond <= condLimit(eps)) {
		o.adm = "ill-conditioned"
		return o
	}
	o.s0 = math.Max(maxL, maxD)
	o.s1 = o.s0 * g / minPivot
	o.s2 = 2 * o.s1 * g / minPivot
	pack := func(l, d []jet2, f func(jet2) float64) []float64 {
		r := make([]float64, 0, 2*n*n)
		for _, x := range l {
			r = append(r, f(x))
		}
		for _, x := range d {
			r = append(r, f(x))
		}
		return r
	}
	o.f1 = func(u []*mat) []float64 {
		l, d, _, _ := forcePDJets(a, zeroIfNil(u[0], n, n), nil)
		return pack(l, d, func(x jet2) float64 { return x.u })
	}
	o.f2 = func(u, v []*mat) []float64 {
		l, d, _, _ := forcePDJets(a, zeroIfNil(u[0], n, n), zeroIfNil(v[0], n, n))
		return pack(l, d, func(x jet2) float64 { return x.uw })
	}
	return o
}
