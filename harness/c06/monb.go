package c06

// Monitor (b): analytic matrix-calculus identities on the derivatives that the
// library's magic scalars carry through the linear-algebra routines.

import (
	"fmt"
	"math"
	"reflect"

	ad "github.com/pbenner/autodiff"
	"github.com/pbenner/autodiff/algorithm/backSubstitution"
	"github.com/pbenner/autodiff/algorithm/cholesky"
	"github.com/pbenner/autodiff/algorithm/determinant"
	"github.com/pbenner/autodiff/algorithm/eigensystem"
	"github.com/pbenner/autodiff/algorithm/gaussJordan"
	"github.com/pbenner/autodiff/algorithm/matrixInverse"
	"github.com/pbenner/autodiff/algorithm/svd"

	"verifharness/internal/fw"
	"verifharness/internal/prng"
)

func asMatrix(x any) ad.Matrix { return x.(ad.Matrix) }
func asVector(x any) ad.Vector { return x.(ad.Vector) }

// classOfSquare draws a general square matrix and its class label.
func genSquare(r *prng.Rand, n int, eps float64) (*mat, string) {
	lim := 1e4
	if eps == eps32 {
		lim = 30
	}
	switch r.Intn(4) {
	case 0:
		return genInteger(r, n, n, true), "general"
	case 1:
		a, p := genPivot(r, n)
		return a, "pivoted:" + cycleClass(p)
	case 2:
		return genGeneral(r, n, n, r.LogUniform(1, lim)), "general"
	default:
		a := genGeneral(r, n, n, r.LogUniform(1, 20))
		// sprinkle exact zeros
		for i := range a.a {
			if r.Chance(0.25) {
				a.a[i] = 0
			}
		}
		return a, "general+zeros"
	}
}

// cycleClass: whether the permutation is an involution (the known value-level
// defect of the Gauss-Jordan un-permutation concerns the others).
func cycleClass(p []int) string {
	for i, x := range p {
		if p[x] != i {
			return "non-involution"
		}
	}
	return "involution"
}

func genSPDClass(r *prng.Rand, n int, eps float64) (*mat, string) {
	lim := 1e4
	if eps == eps32 {
		lim = 30
	}
	if r.Chance(0.3) {
		b := genInteger(r, n+1, n, false)
		a := mul(b.t(), b)
		for i := 0; i < n; i++ {
			a.add(i, i, 1)
		}
		return a, "spd"
	}
	return genSPD(r, n, r.LogUniform(1, lim)), "spd"
}

type bGen func(r *prng.Rand, n int, e elem, sparse bool) *problem

func sparseStorage(sparse bool, n int) []string {
	s := make([]string, n)
	for i := range s {
		s[i] = "dense"
	}
	if sparse {
		s[0] = "sparse"
	}
	return s
}

func finish(pb *problem, e elem) *problem {
	if e.eps == eps32 {
		for _, in := range pb.in {
			roundTo32(in.v)
		}
	}
	return pb
}

/* problem constructors
 * -------------------------------------------------------------------------- */

func pbDeterminant(r *prng.Rand, n int, e elem, sparse bool) *problem {
	a, class := genSquare(r, n, e.eps)
	if r.Chance(0.15) && n >= 2 {
		// exactly singular: duplicate a row
		for j := 0; j < n; j++ {
			a.set(n-1, j, a.at(0, j))
		}
		class = "singular"
	}
	pb := &problem{routine: "determinant", class: class, in: []*input{matInput("A", a)}, storage: sparseStorage(sparse, 1)}
	pb.exec = func(args []any, st *any) ([]block, error) {
		d, err := determinant.Run(asMatrix(args[0]))
		if err != nil {
			return nil, err
		}
		return []block{scalarBlock("det", d)}, nil
	}
	pb.orc = func(pb *problem, _ []float64, _ func([]*input) ([]float64, string)) oracle {
		return detOracle(pb.in[0].mat())
	}
	return finish(pb, e)
}

func pbDeterminantPD(logScale bool) bGen {
	return func(r *prng.Rand, n int, e elem, sparse bool) *problem {
		a, class := genSPDClass(r, n, e.eps)
		in := matInput("A", a)
		in.sym = true
		pb := &problem{routine: "determinant", opts: "PositiveDefinite", class: class, in: []*input{in}, storage: sparseStorage(sparse, 1), reusable: true}
		if logScale {
			pb.opts = "PositiveDefinite,LogScale"
		}
		pb.exec = func(args []any, st *any) ([]block, error) {
			if *st == nil {
				*st = &determinant.InSitu{}
			}
			d, err := determinant.Run(asMatrix(args[0]), determinant.PositiveDefinite{Value: true}, determinant.LogScale{Value: logScale}, (*st).(*determinant.InSitu))
			if err != nil {
				return nil, err
			}
			return []block{scalarBlock("det", d)}, nil
		}
		pb.orc = func(pb *problem, _ []float64, _ func([]*input) ([]float64, string)) oracle {
			return detPDOracle(pb.in[0].mat(), logScale, e.eps)
		}
		return finish(pb, e)
	}
}

func pbInverse(variant string) bGen {
	return func(r *prng.Rand, n int, e elem, sparse bool) *problem {
		var a *mat
		var class string
		in := &input{}
		switch variant {
		case "PositiveDefinite":
			a, class = genSPDClass(r, n, e.eps)
			in = matInput("A", a)
			in.sym = true
		case "UpperTriangular":
			a, class = genUpper(r, n), "upper-triangular"
			in = matInput("A", a)
			in.mask = upperMask(n, false)
		default:
			a, class = genSquare(r, n, e.eps)
			in = matInput("A", a)
		}
		pb := &problem{routine: "matrixInverse", opts: variant, class: class, in: []*input{in}, storage: sparseStorage(sparse, 1), reusable: true}
		pb.exec = func(args []any, st *any) ([]block, error) {
			if *st == nil {
				*st = &matrixInverse.InSitu{}
			}
			opts := []interface{}{(*st).(*matrixInverse.InSitu)}
			switch variant {
			case "PositiveDefinite":
				opts = append(opts, matrixInverse.PositiveDefinite{Value: true})
			case "UpperTriangular":
				opts = append(opts, matrixInverse.UpperTriangular{Value: true})
			}
			x, err := matrixInverse.Run(asMatrix(args[0]), opts...)
			if err != nil {
				return nil, err
			}
			return []block{matBlock("inv", x)}, nil
		}
		pb.orc = func(pb *problem, _ []float64, _ func([]*input) ([]float64, string)) oracle {
			return inverseOracle(pb.in[0].mat(), e.eps)
		}
		return finish(pb, e)
	}
}

// pbGaussJordan: direct call with a general right-hand side matrix and vector.
func pbGaussJordan(upper bool) bGen {
	return func(r *prng.Rand, n int, e elem, sparse bool) *problem {
		var a, bm *mat
		var class string
		ina := &input{}
		inb := &input{}
		if upper {
			a, class = genUpper(r, n), "upper-triangular"
			ina = matInput("A", a)
			ina.mask = upperMask(n, false)
			bm = genUpper(r, n) // the routine normalises x only on and above the diagonal
			inb = matInput("B", bm)
			inb.mask = upperMask(n, false)
		} else {
			a, class = genSquare(r, n, e.eps)
			ina = matInput("A", a)
			bm = genGeneral(r, n, n, 3)
			inb = matInput("B", bm)
		}
		inv := vecInput("b", randVec(r, n))
		pb := &problem{routine: "gaussJordan", class: class, in: []*input{ina, inb, inv}}
		if upper {
			pb.opts = "UpperTriangular"
		}
		pb.exec = func(args []any, st *any) ([]block, error) {
			a, x, b := asMatrix(args[0]), asMatrix(args[1]), asVector(args[2])
			var err error
			if upper {
				err = gaussJordan.Run(a, x, b, gaussJordan.UpperTriangular{Value: true})
			} else {
				err = gaussJordan.Run(a, x, b)
			}
			if err != nil {
				return nil, err
			}
			return []block{matBlock("X", x), vecBlock("x", b)}, nil
		}
		pb.orc = func(pb *problem, _ []float64, _ func([]*input) ([]float64, string)) oracle {
			return solveOracle(pb.in[0].mat(), pb.in[1].mat(), pb.in[2].v, 1, 2, e.eps)
		}
		return finish(pb, e)
	}
}

func pbBackSubstitution(r *prng.Rand, n int, e elem, sparse bool) *problem {
	ina := matInput("A", genUpper(r, n))
	ina.mask = upperMask(n, false)
	inv := vecInput("b", randVec(r, n))
	pb := &problem{routine: "backSubstitution", class: "upper-triangular", in: []*input{ina, inv}, reusable: false}
	pb.exec = func(args []any, st *any) ([]block, error) {
		x, err := backSubstitution.Run(asMatrix(args[0]), asVector(args[1]))
		if err != nil {
			return nil, err
		}
		return []block{vecBlock("x", x)}, nil
	}
	pb.orc = func(pb *problem, _ []float64, _ func([]*input) ([]float64, string)) oracle {
		return solveOracle(pb.in[0].mat(), nil, pb.in[1].v, -1, 1, e.eps)
	}
	return finish(pb, e)
}

func pbCholesky(variant string) bGen {
	return func(r *prng.Rand, n int, e elem, sparse bool) *problem {
		a, class := genSPDClass(r, n, e.eps)
		in := matInput("A", a)
		in.sym = true
		pb := &problem{routine: "cholesky", opts: variant, class: class, in: []*input{in}, storage: sparseStorage(sparse, 1), reusable: true}
		pb.exec = func(args []any, st *any) ([]block, error) {
			if *st == nil {
				*st = &cholesky.InSitu{}
			}
			opts := []interface{}{(*st).(*cholesky.InSitu)}
			switch variant {
			case "LDL":
				opts = append(opts, cholesky.LDL{Value: true})
			case "LDL,ForcePD":
				opts = append(opts, cholesky.LDL{Value: true}, cholesky.ForcePD{Value: true})
			}
			l, d, err := cholesky.Run(asMatrix(args[0]), opts...)
			if err != nil {
				return nil, err
			}
			bs := []block{matBlock("L", l)}
			if !isNil(d) {
				bs = append(bs, matBlock("D", d))
			}
			return bs, nil
		}
		pb.orc = func(pb *problem, _ []float64, _ func([]*input) ([]float64, string)) oracle {
			v := "plain"
			if variant != "" {
				v = "ldl"
			}
			return cholOracle(pb.in[0].mat(), v, e.eps)
		}
		return finish(pb, e)
	}
}

// pbForcePDIndefinite: LDL+ForcePD on indefinite symmetric inputs whose pivots
// all keep their magnitude (d_j = |c_jj| > (theta_j/beta)^2, delta): there the
// modified factorisation is a smooth function of A (the sign of a negative
// pivot is flipped, nothing else) and its derivatives are judged against the
// oracle's own jet evaluation of the recurrence.
func pbForcePDIndefinite(r *prng.Rand, n int, e elem, sparse bool) *problem {
	a := newMat(n, n)
	neg := 0
	for i := 0; i < n; i++ {
		d := r.Uniform(1, 3)
		if r.Chance(0.5) || (i == n-1 && neg == 0) {
			d = -d
			neg++
		}
		a.set(i, i, d)
		for j := 0; j < i; j++ {
			x := r.Uniform(-0.35, 0.35)
			if r.Chance(0.2) {
				x = 0
			}
			a.set(i, j, x)
			a.set(j, i, x)
		}
	}
	in := matInput("A", a)
	in.sym = true
	pb := pbCholesky("LDL,ForcePD")(r, n, e, sparse)
	pb.class = "indefinite:pivot-magnitudes-kept"
	pb.in = []*input{in}
	pb.orc = func(pb *problem, _ []float64, _ func([]*input) ([]float64, string)) oracle {
		return forcePDOracle(pb.in[0].mat(), e.eps)
	}
	return finish(pb, e)
}

// runBForcePD is the case list of that cell (its own monitor id so that the
// addresses of the other cells do not move).
func runBForcePD(cs *fw.Case, idx int) {
	r := cs.R
	e := eR64
	if r.Chance(0.2) {
		e = eR32
	}
	order := 1 + idx%2
	n := 1 + (idx/2)%6
	sparse := r.Chance(0.2)
	pb := pbForcePDIndefinite(r, n, e, sparse)
	maxVars := 36
	if order == 2 {
		maxVars = 14
	}
	p := makePlan(r, pb.in, order, idx%4 < 2 || r.Chance(0.3), maxVars)
	cfg := &caseCfg{mon: "b", e: e, p: p, maxPairs: 40, r: r}
	if r.Chance(0.3) {
		cfg.warm = warmOf(r, pb, e)
		cfg.warmP = permutedPlan(r, p)
		cfg.reuse = "reused"
	}
	if judge(cs, pb, cfg) {
		negs := 0
		for i := 0; i < n; i++ {
			if pb.in[0].v[i*n+i] < 0 {
				negs++
			}
		}
		cs.Cover("judged:b.forcepd:" + e.name)
		cs.Cover(fmt.Sprintf("judged:b.forcepd:order%d", order))
		cs.Cover(fmt.Sprintf("set:forcepd-shape:n=%d,negative-pivots=%d", n, negs))
		cs.Nontrivial("forcepd-indef", e.name, p.order, p.mode, fmt.Sprint(pb.in[0].v), p.varOf)
		if n >= 3 {
			cs.Sample(map[string]any{"routine": "cholesky|LDL,ForcePD", "class": pb.class, "type": e.name, "n": n, "order": order, "A": fmtVec(pb.in[0].v),
				"activation": p.mode, "variable_of_entry": p.varOf, "negative_diagonal_entries": negs})
		}
	}
}

// products: receiver of the element type under test; operand storage and
// operand types vary (a float-typed operand is a constant).
func pbProduct(op string) bGen {
	return func(r *prng.Rand, n int, e elem, sparse bool) *problem {
		m, k, c := r.Range(1, n), r.Range(1, n), r.Range(1, n)
		var x, y *mat
		switch op {
		case "MdotM":
			x, y = genInteger(r, m, k, false), genGeneral(r, maxInt(k, c), minInt(k, c), 3)
			if y.r != k {
				y = y.t()
			}
		case "MdotV":
			x, y = genGeneral(r, maxInt(m, k), minInt(m, k), 3), matFrom(k, 1, randVec(r, k))
			if x.r != m {
				x = x.t()
			}
		case "VdotM":
			x, y = matFrom(1, k, randVec(r, k)), genInteger(r, k, c, false)
		case "Outer":
			x, y = matFrom(m, 1, randVec(r, m)), matFrom(1, c, randVec(r, c))
		case "VdotV":
			x, y = matFrom(1, k, randVec(r, k)), matFrom(k, 1, randVec(r, k))
		}
		if r.Chance(0.3) {
			for i := range x.a {
				if r.Chance(0.3) {
					x.a[i] = 0
				}
			}
		}
		mk := func(name string, a *mat, vec bool) *input {
			if vec {
				return vecInput(name, a.a)
			}
			return matInput(name, a)
		}
		var ins []*input
		switch op {
		case "MdotM":
			ins = []*input{mk("a", x, false), mk("b", y, false)}
		case "MdotV":
			ins = []*input{mk("a", x, false), mk("b", y, true)}
		case "VdotM":
			ins = []*input{mk("a", x, true), mk("b", y, false)}
		default:
			ins = []*input{mk("a", x, true), mk("b", y, true)}
		}
		st := []string{"dense", "dense"}
		if sparse {
			st[r.Intn(2)] = "sparse"
		}
		pb := &problem{routine: op, class: "rectangular", in: ins, storage: st}
		pb.exec = func(args []any, _ *any) ([]block, error) {
			switch op {
			case "MdotM":
				a, b := asMatrix(args[0]), asMatrix(args[1])
				ra, _ := a.Dims()
				_, cb := b.Dims()
				res := ad.NullDenseMatrix(a.ElementType(), ra, cb)
				res.MdotM(a, b)
				return []block{matBlock("r", res)}, nil
			case "MdotV":
				a, b := asMatrix(args[0]), asVector(args[1])
				ra, _ := a.Dims()
				res := ad.NullDenseVector(a.ElementType(), ra)
				res.MdotV(a, b)
				return []block{vecBlock("r", res)}, nil
			case "VdotM":
				a, b := asVector(args[0]), asMatrix(args[1])
				_, cb := b.Dims()
				res := ad.NullDenseVector(b.ElementType(), cb)
				res.VdotM(a, b)
				return []block{vecBlock("r", res)}, nil
			case "Outer":
				a, b := asVector(args[0]), asVector(args[1])
				res := ad.NullDenseMatrix(a.ElementType(), a.Dim(), b.Dim())
				res.Outer(a, b)
				return []block{matBlock("r", res)}, nil
			default:
				a, b := asVector(args[0]), asVector(args[1])
				res := ad.NullScalar(a.ElementType())
				res.VdotV(a, b)
				return []block{scalarBlock("r", res)}, nil
			}
		}
		pb.orc = func(pb *problem, _ []float64, _ func([]*input) ([]float64, string)) oracle {
			return bilinearOracle(pb.in[0].mat2(op, 0), pb.in[1].mat2(op, 1), mul)
		}
		return finish(pb, e)
	}
}

// mat2 shapes a vector operand as the row or column that makes the product a
// matrix product.
func (in *input) mat2(op string, pos int) *mat {
	if !in.isVec() {
		return in.mat()
	}
	row := false
	switch op {
	case "VdotM":
		row = pos == 0
	case "Outer":
		row = pos == 1
	case "VdotV":
		row = pos == 0
	}
	if row {
		return matFrom(1, in.r, in.v)
	}
	return matFrom(in.r, 1, in.v)
}

func maxInt(a, b int) int {
	if a > b {
		return a
	}
	return b
}

func minInt(a, b int) int {
	if a < b {
		return a
	}
	return b
}

func pbEigenvalues(symmetric bool) bGen {
	return func(r *prng.Rand, n int, e elem, sparse bool) *problem {
		if n < 2 {
			n = 2
		}
		a, lam := genRealSpectrum(r, n, symmetric)
		in := matInput("A", a)
		in.sym = symmetric
		pb := &problem{iterative: true, routine: "eigensystem", opts: "ComputeEigenvectors=false", class: "real-simple-spectrum", in: []*input{in}, ticks: 5000}
		pb.degeneracy = func(ins []*input) float64 { return hessenbergDegeneracy(ins[0].mat()) }
		if symmetric {
			pb.opts += ",Symmetric"
			pb.class = "symmetric-simple-spectrum"
		}
		pb.exec = func(args []any, _ *any) ([]block, error) {
			opts := []interface{}{eigensystem.ComputeEigenvectors{Value: false}}
			if symmetric {
				opts = append(opts, eigensystem.Symmetric{Value: true})
			}
			ev, _, err := eigensystem.Run(asMatrix(args[0]), opts...)
			if err != nil {
				return nil, err
			}
			return []block{vecBlock("eigenvalues", ev)}, nil
		}
		pb.orc = func(pb *problem, fv []float64, _ func([]*input) ([]float64, string)) oracle {
			return eigOracle(pb.in[0].mat(), fv, lam)
		}
		return finish(pb, e)
	}
}

func pbSingularValues(r *prng.Rand, n int, e elem, sparse bool) *problem {
	m := n + r.Intn(3)
	var a *mat
	class := "dense"
	if r.Chance(0.5) {
		// upper bidiagonal (the shape the library's own tests use)
		a = newMat(m, n)
		for i := 0; i < n; i++ {
			a.set(i, i, r.Uniform(0.5, 3)*math.Pow(1.5, float64(i)))
			if i+1 < n {
				a.set(i, i+1, r.Uniform(-1, 1))
			}
		}
		class = "bidiagonal"
	} else {
		a = genGeneral(r, m, n, r.Uniform(2, 30))
	}
	pb := &problem{iterative: true, routine: "svd", opts: "values", class: class, in: []*input{matInput("A", a)}, ticks: 5000}
	pb.degeneracy = func(ins []*input) float64 { return bidiagDegeneracy(ins[0].mat()) }
	pb.exec = func(args []any, _ *any) ([]block, error) {
		h, _, _, err := svd.Run(asMatrix(args[0]))
		if err != nil {
			return nil, err
		}
		_, c := h.Dims()
		b := block{name: "S"}
		for i := 0; i < c; i++ {
			b.s = append(b.s, h.ConstAt(i, i))
		}
		return []block{b}, nil
	}
	pb.orc = func(pb *problem, fv []float64, _ func([]*input) ([]float64, string)) oracle {
		return svOracle(pb.in[0].mat(), fv)
	}
	return finish(pb, e)
}

// warmOf derives the input of the warm-up call from the case's own input:
// c * D1 M D2 with positive diagonal D (D2 = D1 for symmetric arguments), which
// keeps definiteness, symmetry, triangularity and the zero pattern, and makes
// the warm-up's results no larger than the case's (value-level staleness of
// reused buffers is the business of other properties; here the temporaries'
// derivative state is what must not leak).
func warmOf(r *prng.Rand, pb *problem, e elem) *problem {
	w := *pb
	w.in = make([]*input, len(pb.in))
	for ai, in := range pb.in {
		c := *in
		c.v = append([]float64(nil), in.v...)
		d1 := make([]float64, in.r)
		d2 := make([]float64, in.cols())
		for i := range d1 {
			d1[i] = r.Uniform(1.1, 1.5)
		}
		for i := range d2 {
			d2[i] = r.Uniform(1.1, 1.5)
		}
		if in.sym {
			d2 = d1
		}
		for i := 0; i < in.r; i++ {
			for j := 0; j < in.cols(); j++ {
				c.v[i*in.cols()+j] *= d1[i] * d2[j]
			}
		}
		w.in[ai] = &c
	}
	return finish(&w, e)
}

// permutedPlan activates the same entries with the variable indices permuted.
func permutedPlan(r *prng.Rand, p *plan) *plan {
	q := *p
	perm := r.Perm(p.n)
	q.varOf = make([][]int, len(p.varOf))
	for i, vs := range p.varOf {
		q.varOf[i] = make([]int, len(vs))
		for j, k := range vs {
			if k >= 0 {
				k = perm[k]
			}
			q.varOf[i][j] = k
		}
	}
	q.dirs = nil
	return &q
}

// isNil reports a nil interface or a typed nil pointer inside an interface
// (the float fast paths of cholesky.Run return the latter for D).
func isNil(x any) bool {
	if x == nil {
		return true
	}
	v := reflect.ValueOf(x)
	return v.Kind() == reflect.Ptr && v.IsNil()
}

/* the workload
 * -------------------------------------------------------------------------- */

type bEntry struct {
	name   string
	gen    bGen
	maxN   int
	sparse bool // the first input may be held in sparse storage
	real32 bool
}

var bTable = []bEntry{
	{"determinant", pbDeterminant, 5, true, true},
	{"determinant|PositiveDefinite", pbDeterminantPD(false), 6, true, true},
	{"determinant|PositiveDefinite,LogScale", pbDeterminantPD(true), 6, true, true},
	{"matrixInverse", pbInverse(""), 6, true, true},
	{"matrixInverse|PositiveDefinite", pbInverse("PositiveDefinite"), 6, true, true},
	{"matrixInverse|UpperTriangular", pbInverse("UpperTriangular"), 6, false, true},
	{"gaussJordan", pbGaussJordan(false), 5, false, true},
	{"gaussJordan|UpperTriangular", pbGaussJordan(true), 5, false, true},
	{"backSubstitution", pbBackSubstitution, 6, false, true},
	{"cholesky", pbCholesky(""), 6, true, true},
	{"cholesky|LDL", pbCholesky("LDL"), 6, true, true},
	{"cholesky|LDL,ForcePD", pbCholesky("LDL,ForcePD"), 6, true, true},
	{"MdotM", pbProduct("MdotM"), 5, true, true},
	{"MdotV", pbProduct("MdotV"), 6, true, true},
	{"VdotM", pbProduct("VdotM"), 6, true, true},
	{"Outer", pbProduct("Outer"), 6, true, true},
	{"VdotV", pbProduct("VdotV"), 8, true, true},
	{"eigensystem", pbEigenvalues(false), 5, false, false},
	{"eigensystem|Symmetric", pbEigenvalues(true), 5, false, false},
	{"svd|values", pbSingularValues, 5, false, false},
}

// runB executes case idx of monitor (b): the routine cycles with the index so
// that every routine gets the same share of every tier.
func runB(cs *fw.Case, idx int, directed bool) {
	r := cs.R
	ent := bTable[idx%len(bTable)]
	rest := idx / len(bTable)
	e := eR64
	if ent.real32 && r.Chance(0.2) {
		e = eR32
	}
	order := 1 + rest%2
	var n int
	if directed {
		// all small shapes, fully activated, both orders
		n = 1 + (rest/2)%minInt(ent.maxN, 4)
	} else {
		n = r.Range(1, ent.maxN)
	}
	sparse := ent.sparse && r.Chance(0.2)
	pb := ent.gen(r, n, e, sparse)
	maxVars := 36
	if order == 2 {
		maxVars = 14
	}
	full := directed || r.Chance(0.4)
	p := makePlan(r, pb.in, order, full, maxVars)
	cfg := &caseCfg{mon: "b", e: e, p: p, maxPairs: 40, r: r}
	if pb.reusable && r.Chance(0.35) {
		// the same InSitu object served another input before: other values,
		// the same number of variables in another assignment ("reused"), or
		// additionally the other derivative order ("reused-other-order")
		cfg.warm = warmOf(r, pb, e)
		cfg.warmP = permutedPlan(r, p)
		cfg.reuse = "reused"
		if r.Chance(0.3) {
			cfg.warmP.order = 3 - p.order
			cfg.reuse = "reused-other-order"
		}
	}
	if judge(cs, pb, cfg) {
		cs.Nontrivial(pb.routine, pb.opts, e.name, p.order, p.mode, fmt.Sprint(pb.in[0].v), p.varOf)
		cs.Cover(fmt.Sprintf("set:b-shape:%s:n=%d", ent.name, n))
		if n >= 3 && cs.Index < 400 {
			cs.Sample(map[string]any{"routine": ent.name, "type": e.name, "n": n, "order": order, "activation": p.mode, "variables": p.n, "class": pb.class,
				"first_input": fmtVec(pb.in[0].v), "variable_of_entry": p.varOf, "directions_judged": len(p.dirs), "insitu": cfg.reuse})
		}
	}
}
