package c06

// Shared machinery of the derivative monitors (b) and (c): inputs, derivative
// seeding plans, directions (with folding onto the symmetric subspace),
// execution of the real routine on float and magic containers, comparison.

import (
	"fmt"
	"math"
	"os"
	"sort"
	"strconv"
	"strings"

	ad "github.com/pbenner/autodiff"

	"verifharness/internal/fw"
	"verifharness/internal/prng"
)

/* element types
 * -------------------------------------------------------------------------- */

type elem struct {
	name string
	t    ad.ScalarType
	real bool
	eps  float64
}

var (
	eF64 = elem{"Float64", ad.Float64Type, false, eps64}
	eF32 = elem{"Float32", ad.Float32Type, false, eps32}
	eR64 = elem{"Real64", ad.Real64Type, true, eps64}
	eR32 = elem{"Real32", ad.Real32Type, true, eps32}
)

// floatOf returns the plain float type of the same width.
func floatOf(e elem) elem {
	if e.eps == eps32 {
		return eF32
	}
	return eF64
}

/* inputs
 * -------------------------------------------------------------------------- */

type input struct {
	name string
	r, c int // c == 0: vector of length r
	v    []float64
	sym  bool   // the routine's mathematical argument is a symmetric matrix
	mask []bool // entries that may carry a variable (nil = all)
}

func (in *input) isVec() bool { return in.c == 0 }

func (in *input) cols() int {
	if in.c == 0 {
		return 1
	}
	return in.c
}

func (in *input) mat() *mat { return matFrom(in.r, in.cols(), in.v) }

func (in *input) allowed(i int) bool { return in.mask == nil || in.mask[i] }

func matInput(name string, m *mat) *input {
	return &input{name: name, r: m.r, c: m.c, v: append([]float64(nil), m.a...)}
}

func vecInput(name string, v []float64) *input {
	return &input{name: name, r: len(v), c: 0, v: append([]float64(nil), v...)}
}

type entry struct{ arr, idx int }

/* seeding plans
 * -------------------------------------------------------------------------- */

type direction struct {
	ent   []entry
	vars  []int
	label string // names of the input arrays touched
}

type plan struct {
	order int
	n     int
	varOf [][]int // per input, per entry: variable index or -1
	alloc bool    // constants carry an allocated, all-zero derivative
	mode  string  // full | subset | shared | fold
	dirs  []direction
}

// makePlan draws the activation of a case.  Symmetric arguments are activated
// either with one variable shared by (i,j) and (j,i) ("shared": the user's
// parameter is the symmetric entry) or with independent variables for both
// entries whose derivatives are folded by the oracle ("fold").  General
// arguments get one variable per activated entry.
func makePlan(r *prng.Rand, ins []*input, order int, full bool, maxVars int) *plan {
	p := &plan{order: order, alloc: r.Bool()}
	shared := r.Bool()
	p.mode = "subset"
	if full {
		p.mode = "full"
	}
	frac := 1.0
	if !full {
		frac = r.Uniform(0.15, 0.7)
	}
	p.varOf = make([][]int, len(ins))
	hasSym := false
	type cand struct{ ent []entry }
	var cands []cand
	for ai, in := range ins {
		p.varOf[ai] = make([]int, len(in.v))
		for i := range p.varOf[ai] {
			p.varOf[ai][i] = -1
		}
		if in.sym {
			hasSym = true
			n := in.r
			for i := 0; i < n; i++ {
				for j := 0; j <= i; j++ {
					if !in.allowed(i*n+j) || !in.allowed(j*n+i) {
						continue
					}
					if i == j {
						cands = append(cands, cand{[]entry{{ai, i*n + i}}})
					} else {
						cands = append(cands, cand{[]entry{{ai, i*n + j}, {ai, j*n + i}}})
					}
				}
			}
		} else {
			for i := range in.v {
				if in.allowed(i) {
					cands = append(cands, cand{[]entry{{ai, i}}})
				}
			}
		}
	}
	if hasSym {
		if shared {
			p.mode += "+shared"
		} else {
			p.mode += "+fold"
		}
	}
	// choose the activated candidates
	var chosen []cand
	for _, c := range cands {
		if full || r.Chance(frac) {
			chosen = append(chosen, c)
		}
	}
	if len(chosen) == 0 && len(cands) > 0 {
		chosen = append(chosen, cands[r.Intn(len(cands))])
	}
	// bound the number of variables (order 2 costs N^2 per scalar operation)
	for len(chosen) > 0 {
		nv := 0
		for _, c := range chosen {
			if shared {
				nv++
			} else {
				nv += len(c.ent)
			}
		}
		if nv <= maxVars {
			break
		}
		k := r.Intn(len(chosen))
		chosen = append(chosen[:k], chosen[k+1:]...)
		p.mode = strings.Replace(p.mode, "full", "subset", 1)
	}
	// assign variable indices in a shuffled order (the position of a variable
	// in the gradient must not matter)
	nv := 0
	for _, c := range chosen {
		if shared {
			nv++
		} else {
			nv += len(c.ent)
		}
	}
	perm := r.Perm(nv)
	next := 0
	for _, c := range chosen {
		d := direction{ent: c.ent, label: ins[c.ent[0].arr].name}
		if shared {
			k := perm[next]
			next++
			for _, e := range c.ent {
				p.varOf[e.arr][e.idx] = k
			}
			d.vars = []int{k}
		} else {
			for _, e := range c.ent {
				k := perm[next]
				next++
				p.varOf[e.arr][e.idx] = k
				d.vars = append(d.vars, k)
			}
		}
		p.dirs = append(p.dirs, d)
	}
	p.n = nv
	return p
}

// dirMats renders a direction as one perturbation matrix per input (nil = zero).
func dirMats(ins []*input, d direction) []*mat {
	u := make([]*mat, len(ins))
	for _, e := range d.ent {
		if u[e.arr] == nil {
			u[e.arr] = newMat(ins[e.arr].r, ins[e.arr].cols())
		}
		u[e.arr].a[e.idx] += 1
	}
	return u
}

/* containers
 * -------------------------------------------------------------------------- */

func seed(s ad.Scalar, v float64, e elem, p *plan, k int) {
	s.SetFloat64(v)
	if !e.real || p == nil {
		return
	}
	m := s.(ad.MagicScalar)
	if k >= 0 {
		m.Alloc(p.n, p.order)
		m.ResetDerivatives()
		if p.order >= 1 {
			m.SetDerivative(k, 1)
		}
	} else if p.alloc {
		m.Alloc(p.n, p.order)
		m.ResetDerivatives()
	}
}

// build constructs the library container of one input.
func build(e elem, storage string, in *input, p *plan, ai int) any {
	vk := func(i int) int {
		if p == nil {
			return -1
		}
		return p.varOf[ai][i]
	}
	if in.isVec() {
		var v ad.Vector
		if storage == "sparse" {
			v = ad.NullSparseVector(e.t, in.r)
		} else {
			v = ad.NullDenseVector(e.t, in.r)
		}
		for i, x := range in.v {
			if storage == "sparse" && x == 0 && vk(i) < 0 {
				continue
			}
			seed(v.At(i), x, e, p, vk(i))
		}
		return v
	}
	var m ad.Matrix
	if storage == "sparse" {
		m = ad.NullSparseMatrix(e.t, in.r, in.c)
	} else {
		m = ad.NullDenseMatrix(e.t, in.r, in.c)
	}
	for i := 0; i < in.r; i++ {
		for j := 0; j < in.c; j++ {
			x := in.v[i*in.c+j]
			if storage == "sparse" && x == 0 && vk(i*in.c+j) < 0 {
				continue
			}
			seed(m.At(i, j), x, e, p, vk(i*in.c+j))
		}
	}
	return m
}

/* problems and oracles
 * -------------------------------------------------------------------------- */

// block is a named group of output scalars.
type block struct {
	name string
	s    []ad.ConstScalar
}

func matBlock(name string, m ad.ConstMatrix) block {
	r, c := m.Dims()
	b := block{name: name}
	for i := 0; i < r; i++ {
		for j := 0; j < c; j++ {
			b.s = append(b.s, m.ConstAt(i, j))
		}
	}
	return b
}

func vecBlock(name string, v ad.ConstVector) block {
	b := block{name: name}
	for i := 0; i < v.Dim(); i++ {
		b.s = append(b.s, v.ConstAt(i))
	}
	return b
}

func scalarBlock(name string, s ad.ConstScalar) block {
	return block{name: name, s: []ad.ConstScalar{s}}
}

// oracle knows the mathematics of one problem instance.
type oracle interface {
	// admissible returns "" when the instance is well enough conditioned for
	// the tolerances to mean something, a skip reason otherwise.
	admissible() string
	// check decides whether the float path's values satisfy the routine's
	// defining equation ("" = yes); a failure is a value-level defect that
	// other properties report.
	check(vals []float64, eps float64) string
	// valTol is the absolute tolerance for comparing values of the magic run
	// with the float run.
	valTol(vals []float64, eps float64) float64
	// d1, d2: reference first and second directional derivatives of every
	// output, absolute tolerance, and a skip reason for this slot.
	d1(u []*mat, eps float64) ([]float64, float64, string)
	d2(u, v []*mat, eps float64) ([]float64, float64, string)
}

type problem struct {
	routine   string
	opts      string
	class     string
	in        []*input
	storage   []string // per input
	exec      func(args []any, st *any) ([]block, error)
	orc       func(pb *problem, floatVals []float64, exec func(ins []*input) ([]float64, string)) oracle
	ticks     int64
	baseTicks int64 // loop iterations of the case's own float run
	// degeneracy: smallest sigma/x0^2 over the Householder reflectors of the
	// routine's reduction phase for the given input (nil: no such phase)
	degeneracy func(ins []*input) float64
	// iterative: the routine stops on a convergence threshold; a derivative
	// failure is re-examined at nearby inputs (see persistent)
	iterative bool
	// reusable: the routine takes an InSitu object; warm (optional) is another
	// instance of the same shape executed first with the same state.
	reusable bool
}

func (pb *problem) buildArgs(e elem, p *plan) []any {
	args := make([]any, len(pb.in))
	for ai, in := range pb.in {
		st := "dense"
		if pb.storage != nil {
			st = pb.storage[ai]
		}
		args[ai] = build(e, st, in, p, ai)
	}
	return args
}

func (pb *problem) storageLabel() string {
	s := "dense"
	for _, x := range pb.storage {
		if x == "sparse" {
			s = "sparse"
		}
	}
	return s
}

type outcome struct {
	ticks  int64 // loop iterations (Tick hook, all sites) spent in the call
	blocks []block
	err    error
	pan    *fw.Panic
}

func (o *outcome) failed() bool { return o.err != nil || o.pan != nil }

func (o *outcome) failure() string {
	switch {
	case o.pan != nil && o.pan.Budget:
		return "no-return"
	case o.pan != nil:
		return "panic"
	case o.err != nil:
		return "error"
	}
	return ""
}

func (o *outcome) message() string {
	if o.pan != nil {
		return o.pan.Msg + " @ " + o.pan.Frame
	}
	if o.err != nil {
		return o.err.Error()
	}
	return ""
}

func (pb *problem) run(args []any, st *any) *outcome {
	o := &outcome{}
	t := pb.ticks
	if t == 0 {
		t = 20000
	}
	t0 := totalTicks()
	fw.SetTickBudget(t)
	o.pan = fw.Call(func() { o.blocks, o.err = pb.exec(args, st) })
	fw.SetTickBudget(0)
	o.ticks = totalTicks() - t0
	return o
}

func totalTicks() int64 {
	n := int64(0)
	for _, s := range fw.TickSites() {
		n += fw.TickCount(s)
	}
	return n
}

func flatten(bs []block) []ad.ConstScalar {
	var r []ad.ConstScalar
	for _, b := range bs {
		r = append(r, b.s...)
	}
	return r
}

func values(ss []ad.ConstScalar) []float64 {
	r := make([]float64, len(ss))
	for i, s := range ss {
		r[i] = s.GetFloat64()
	}
	return r
}

// blockOf names the block of output index o.
func blockOf(bs []block, o int) string {
	for _, b := range bs {
		if o < len(b.s) {
			return b.name
		}
		o -= len(b.s)
	}
	return "?"
}

// floatExec runs the problem's routine on plain Float64 containers built from
// alternative input values (used by finite-difference oracles).
// A run that needs another number of loop iterations than the case's own
// float run took another branch sequence (iteration counts decide signs and
// truncation of the iterative routines): it is reported as "iterations".
func (pb *problem) floatExec(e elem) func(ins []*input) ([]float64, string) {
	return func(ins []*input) ([]float64, string) {
		q := *pb
		q.in = ins
		var st any
		o := q.run(q.buildArgs(e, nil), &st)
		if o.failed() {
			return nil, o.failure()
		}
		if o.ticks != pb.baseTicks {
			return nil, "iterations"
		}
		return values(flatten(o.blocks)), ""
	}
}

/* the judged execution of one case
 * -------------------------------------------------------------------------- */

type caseCfg struct {
	mon   string
	e     elem
	p     *plan
	warm  *problem // executed first with the same InSitu state (nil = fresh)
	warmP *plan
	reuse string // label of the reuse mode
	// maxPairs bounds the number of second-order slots that are judged
	maxPairs int
	r        *prng.Rand
}

func sig(mon string, pb *problem, e elem, reuse string, kind string) string {
	opts := pb.opts
	if opts == "" {
		opts = "default"
	}
	if reuse != "" {
		opts += ",insitu=" + reuse
	}
	return fmt.Sprintf("C06|%s|%s|%s|%s|%s|%s", mon, pb.routine, opts, e.name, pb.class, kind)
}

func fmtVec(v []float64) string {
	parts := make([]string, len(v))
	for i, x := range v {
		parts[i] = strconv.FormatFloat(x, 'g', -1, 64)
	}
	return "[" + strings.Join(parts, " ") + "]"
}

func witness(pb *problem, cfg *caseCfg, reused bool) map[string]any {
	w := map[string]any{"routine": pb.routine, "options": pb.opts, "class": pb.class, "type": cfg.e.name, "storage": pb.storageLabel()}
	ins := map[string]any{}
	for _, in := range pb.in {
		ins[in.name] = map[string]any{"rows": in.r, "cols": in.c, "values": fmtVec(in.v), "symmetric": in.sym}
	}
	w["inputs"] = ins
	if cfg.p != nil {
		w["order"] = cfg.p.order
		w["variables"] = cfg.p.n
		w["activation"] = cfg.p.mode
		w["constants_allocated"] = cfg.p.alloc
		w["varOf"] = cfg.p.varOf
	}
	if cfg.warm != nil && reused {
		wi := map[string]any{}
		for _, in := range cfg.warm.in {
			wi[in.name] = fmtVec(in.v)
		}
		w["warmup_inputs"] = wi
		if cfg.warmP != nil {
			w["warmup_order"] = cfg.warmP.order
			w["warmup_variables"] = cfg.warmP.n
		}
	}
	return w
}

func debugf(format string, a ...any) {
	if os.Getenv("C06_DEBUG") != "" {
		fmt.Fprintf(os.Stderr, format+"\n", a...)
	}
}

// finding is one refuting observation of a judged execution.
type finding struct {
	kind   string
	detail string
	sigOvr string // full signature override (root causes that are not the routine's)
}

// judge executes one problem instance (fresh InSitu state, and additionally
// after a warm-up call when the case asks for it) and compares values and
// derivatives.  A failure that the fresh execution shows as well is reported
// under the fresh signature only.  Returns true when the case was judged.
func judge(cs *fw.Case, pb *problem, cfg *caseCfg) bool {
	e := cfg.e
	fe := floatOf(e)
	cell := fmt.Sprintf("%s:%s/%s", cfg.mon, pb.routine, pbOpts(pb))

	// float path
	var fst any
	fo := pb.run(pb.buildArgs(fe, nil), &fst)
	if fo.failed() {
		debugf("%s: float path failed: %s", cs.ID, fo.message())
		cs.Skip("float-path-" + fo.failure())
		cs.Cover("skip:" + cell + ":float-path-" + fo.failure())
		return false
	}
	fvals := values(flatten(fo.blocks))
	pb.baseTicks = fo.ticks
	orc := pb.orc(pb, fvals, pb.floatExec(fe))
	if s := orc.admissible(); s != "" {
		cs.Skip(s)
		cs.Cover("skip:" + cell + ":" + s)
		return false
	}
	if s := orc.check(fvals, fe.eps); s != "" {
		debugf("%s: value-level defect: %s", cs.ID, s)
		cs.Skip("value-level-defect")
		cs.Cover("skip:" + cell + ":value-level-defect")
		cs.Cover("value-level-defect:" + pb.routine + "|" + pbOpts(pb) + "|" + pb.class)
		return false
	}
	fresh, skip := evaluate(cs, pb, cfg, orc, fvals, "")
	if skip != "" {
		cs.Skip(skip)
		cs.Cover("skip:" + cell + ":" + skip)
		return false
	}
	cs.Cover("judged:" + cell)
	cs.Cover(fmt.Sprintf("judged:%s:%s:order%d", cfg.mon, e.name, cfg.p.order))
	cs.Cover("activation:" + cfg.p.mode)
	if pb.iterative || cfg.mon == "c" {
		for i := range fresh {
			fresh[i] = persistent(cs, pb, cfg, fresh[i])
		}
	}
	seen := map[string]bool{}
	for _, f := range fresh {
		seen[f.kind] = true
		s := sig(cfg.mon, pb, e, "", f.kind)
		if f.sigOvr != "" {
			s = f.sigOvr
		}
		cs.Violation(s, f.detail, witness(pb, cfg, false))
	}
	if cfg.warm != nil {
		// the float path with the same history must still satisfy the defining
		// equation, otherwise the reuse defect is value-level
		var st any
		wo := cfg.warm.run(cfg.warm.buildArgs(fe, nil), &st)
		fo2 := pb.run(pb.buildArgs(fe, nil), &st)
		if wo.failed() || fo2.failed() || orc.check(values(flatten(fo2.blocks)), fe.eps) != "" {
			cs.Cover("skip:" + cell + ":reuse-value-level-defect")
			return true
		}
		reused, skip := evaluate(cs, pb, cfg, orc, values(flatten(fo2.blocks)), cfg.reuse)
		if skip != "" {
			cs.Cover("skip:" + cell + ":reuse-" + skip)
			return true
		}
		cs.Cover("insitu-" + cfg.reuse + ":" + cell)
		for _, f := range reused {
			if seen[f.kind] {
				continue
			}
			s := sig(cfg.mon, pb, e, cfg.reuse, f.kind)
			if f.sigOvr != "" {
				s = f.sigOvr
			}
			cs.Violation(s, f.detail, witness(pb, cfg, true))
		}
	}
	return true
}

// reflectorLimit: below this sigma/x0^2 (x0 > 0) a derivative failure of a
// Householder based routine is attributed to householder.Run (the three
// witnesses seen have 3e-12, 6e-10 and 4e-8; above 1e-6 the loss stays below
// the tolerance of the differential monitor).
const reflectorLimit = 1e-6

// persistent re-examines a derivative failure at four inputs that differ from
// the case's by a relative perturbation (zero pattern and symmetry kept): 1e-9
// for the iterative routines, 1e-3 for the direct routines of monitor (c).  A
// wrong, missing or stale derivative rule fails there as well; a failure that
// does not reproduce is a numerical instability of the derivative computation
// at this particular input (iterative: a sub-diagonal that is negligible but
// not deflated; direct: a Householder reflector of a vector that is almost a
// multiple of e1, beta -> 0, nu -> infinity) and gets the kind "...:unstable".
func persistent(cs *fw.Case, pb *problem, cfg *caseCfg, f finding) finding {
	if !(strings.HasPrefix(f.kind, "d1") || strings.HasPrefix(f.kind, "d2")) {
		return f
	}
	ord := f.kind[:2]
	fe := floatOf(cfg.e)
	if pb.degeneracy != nil {
		if ratio := pb.degeneracy(pb.in); ratio < reflectorLimit {
			// known root cause outside the routine: householder.Run builds the
			// reflector of a vector that is almost a positive multiple of e1 as
			// nu = x/nu0 with nu0 = -sigma/(x0+mu) -> 0; derivative slots of
			// 1/nu0^2 cancel in beta*nu*nu^T.  One signature for all routines.
			f.sigOvr = fmt.Sprintf("C06|b,c|householder.Run: reflector of a vector almost parallel to +e1|%s|sigma/x0^2<%g|derivative", cfg.e.name, reflectorLimit)
			f.detail = fmt.Sprintf("monitor %s, %s(%s), class %s, smallest sigma/x0^2 of its reflectors = %.3g: %s", cfg.mon, pb.routine, pbOpts(pb), pb.class, ratio, f.detail)
			return f
		}
	}
	rel := 1e-9
	if !pb.iterative {
		rel = 1e-3
	}
	repro, tried := 0, 0
	pr := prng.For(cs.C.Seed, cs.ID+"/persist", cs.Index)
	for t := 0; t < 4; t++ {
		q := *pb
		q.iterative = false
		q.in = make([]*input, len(pb.in))
		for ai, in := range pb.in {
			c := *in
			c.v = append([]float64(nil), in.v...)
			n := in.cols()
			for i := 0; i < in.r; i++ {
				for j := 0; j < n; j++ {
					if in.sym && j > i {
						continue
					}
					c.v[i*n+j] *= 1 + rel*pr.Uniform(-1, 1)
					if in.sym {
						c.v[j*n+i] = c.v[i*n+j]
					}
				}
			}
			q.in[ai] = &c
		}
		var st any
		fo := q.run(q.buildArgs(fe, nil), &st)
		if fo.failed() {
			continue
		}
		fv := values(flatten(fo.blocks))
		q.baseTicks = fo.ticks
		orc := q.orc(&q, fv, q.floatExec(fe))
		if orc.admissible() != "" || orc.check(fv, fe.eps) != "" {
			continue
		}
		res, skip := evaluate(cs, &q, cfg, orc, fv, "")
		if skip != "" {
			continue
		}
		tried++
		for _, g := range res {
			if strings.HasPrefix(g.kind, ord) {
				repro++
				break
			}
		}
	}
	f.detail += fmt.Sprintf(" -- reproduced at %d of %d inputs within a relative distance of %g", repro, tried, rel)
	erratic := tried > 0 && repro < tried
	switch {
	case !pb.iterative:
		if erratic {
			f.kind = ord + ":unstable"
		}
	case ord == "d2":
		// second derivatives through the QR / Golub-Kahan iterations lose up
		// to all digits by cancellation (see notes/c06.md): one kind
		f.kind = "d2:unstable"
	case strings.Contains(f.kind, "[zero-entry]"):
		// a derivative with respect to a structural zero that is off: a
		// shortcut on exact zeros dropped a contribution
		f.kind = "d1[zero-entry]:wrong"
	case erratic || strings.HasSuffix(f.kind, ":inaccurate"):
		f.kind = "d1:unstable"
	}
	return f
}

// evaluate runs the magic path once (reuse == "": fresh state) and returns
// what it refutes: at most one finding for the run itself / the values, one
// for the first and one for the second derivatives (the slot with the largest
// excess over its tolerance).
func evaluate(cs *fw.Case, pb *problem, cfg *caseCfg, orc oracle, fvals []float64, reuse string) ([]finding, string) {
	e, p := cfg.e, cfg.p
	var st any
	if reuse != "" {
		wo := cfg.warm.run(cfg.warm.buildArgs(e, cfg.warmP), &st)
		if wo.failed() {
			return nil, "warmup-" + wo.failure()
		}
	}
	ro := pb.run(pb.buildArgs(e, p), &st)
	if ro.failed() {
		if ro.failure() == "no-return" {
			return nil, "no-return"
		}
		f := finding{kind: ro.failure(), detail: fmt.Sprintf("the float path succeeds on these numbers, the %s path fails: %s", e.name, ro.message())}
		if reuse == "reused-other-order" && ro.pan != nil {
			// root cause outside the routine: one signature for all routines
			f.sigOvr = fmt.Sprintf("C06|%s|InSitu temporaries reused across derivative orders|%s|order%d->%d|panic@%s", cfg.mon, e.name, cfg.warmP.order, p.order, ro.pan.Frame)
			f.detail = pb.routine + "(" + pbOpts(pb) + "): " + f.detail
		}
		return []finding{f}, ""
	}
	outs := flatten(ro.blocks)
	if len(outs) != len(fvals) {
		return []finding{{kind: "shape", detail: fmt.Sprintf("%d outputs on the magic path, %d on the float path", len(outs), len(fvals))}}, ""
	}
	rvals := values(outs)
	vt := orc.valTol(fvals, e.eps)
	for o := range rvals {
		if !near(rvals[o], fvals[o], vt) {
			return []finding{{kind: "value:" + blockOf(ro.blocks, o),
				detail: fmt.Sprintf("output %d (%s): %s path gives %.17g, float path %.17g, tolerance %.3g", o, blockOf(ro.blocks, o), e.name, rvals[o], fvals[o], vt)}}, ""
		}
	}
	// derivative slots: shape first
	var shapeErr string
	if q := fw.Call(func() {
		for o, s := range outs {
			if s.GetOrder() >= 1 && s.GetN() != p.n {
				shapeErr = fmt.Sprintf("output %d (%s) carries %d derivative slots, the inputs have %d variables", o, blockOf(ro.blocks, o), s.GetN(), p.n)
				return
			}
			if s.GetOrder() >= 1 && p.n > 0 {
				s.GetDerivative(p.n - 1)
			}
			if s.GetOrder() >= 2 && p.n > 0 {
				s.GetHessian(p.n-1, p.n-1)
			}
		}
	}); q != nil {
		shapeErr = q.Msg
	}
	if shapeErr != "" {
		return []finding{{kind: "derivative-shape", detail: shapeErr}}, ""
	}
	grad := func(o int, d direction) float64 {
		s := 0.0
		for _, k := range d.vars {
			s += outs[o].GetDerivative(k)
		}
		return s
	}
	hess := func(o int, d1, d2 direction) float64 {
		s := 0.0
		for _, k := range d1.vars {
			for _, l := range d2.vars {
				s += outs[o].GetHessian(k, l)
			}
		}
		return s
	}
	var res []finding
	// worst first-order slot
	type worst struct {
		excess   float64
		kind     string
		detail   string
		anyWrong bool
	}
	var w1 worst
	for di, d := range p.dirs {
		ref, tol, skip := orc.d1(dirMats(pb.in, d), e.eps)
		if skip != "" {
			cs.Cover("slot-skipped:" + skip + ":" + pb.routine + "/" + pbOpts(pb))
			continue
		}
		if reuse == "" {
			cs.C.Cover("slots:"+cfg.mon+":d1", int64(len(ref)))
			cs.Cover("dirs:" + cfg.mon + ":d1:" + pb.routine + "/" + pbOpts(pb))
		}
		for o := range ref {
			if math.IsNaN(ref[o]) {
				continue
			}
			got := grad(o, d)
			if near(got, ref[o], tol) {
				continue
			}
			if errClass(got, ref[o]) == "wrong" {
				w1.anyWrong = true
			}
			ex := math.Abs(got-ref[o]) / math.Max(tol, 1e-300)
			if math.IsNaN(ex) {
				ex = math.Inf(1)
			}
			if ex > w1.excess {
				w1.excess = ex
				w1.kind = "d1" + slotClass(pb, d)
				w1.detail = fmt.Sprintf("first derivative d(%[2]s)/d(%[5]s) of output %[1]d (%[2]s) along direction %[3]d %[4]v: library %.17[6]g, reference %.17[7]g, tolerance %.3[8]g (output order %[9]d)",
					o, blockOf(ro.blocks, o), di, d.ent, d.label, got, ref[o], tol, outs[o].GetOrder())
			}
		}
	}
	if w1.kind != "" {
		cl := "inaccurate"
		if w1.anyWrong {
			cl = "wrong"
		}
		res = append(res, finding{kind: w1.kind + ":" + cl, detail: w1.detail})
		return res, ""
	}
	if p.order < 2 {
		return res, ""
	}
	// symmetric Hessian slots
	for o, s := range outs {
		if s.GetOrder() < 2 {
			continue
		}
		for k := 0; k < p.n; k++ {
			for l := 0; l < k; l++ {
				a, b := s.GetHessian(k, l), s.GetHessian(l, k)
				if !near(a, b, 1e-6*math.Max(math.Abs(a), math.Abs(b))) {
					return []finding{{kind: "d2:asymmetric->" + blockOf(ro.blocks, o),
						detail: fmt.Sprintf("Hessian of output %d (%s) is not symmetric: H[%d][%d]=%.12g, H[%d][%d]=%.12g", o, blockOf(ro.blocks, o), k, l, a, l, k, b)}}, ""
				}
			}
		}
	}
	type pair struct{ a, b int }
	var pairs []pair
	for a := 0; a < len(p.dirs); a++ {
		for b := 0; b <= a; b++ {
			pairs = append(pairs, pair{a, b})
		}
	}
	if cfg.maxPairs > 0 && len(pairs) > cfg.maxPairs {
		pr := prng.For(uint64(len(pairs)), "pairs", p.n) // fixed by the plan, not by the stream position
		idx := pr.Perm(len(pairs))[:cfg.maxPairs]
		sort.Ints(idx)
		sel := make([]pair, 0, cfg.maxPairs)
		for _, i := range idx {
			sel = append(sel, pairs[i])
		}
		pairs = sel
	}
	var w2 worst
	for _, pr := range pairs {
		da, db := p.dirs[pr.a], p.dirs[pr.b]
		ref, tol, skip := orc.d2(dirMats(pb.in, da), dirMats(pb.in, db), e.eps)
		if skip != "" {
			cs.Cover("slot-skipped:" + skip + ":" + pb.routine + "/" + pbOpts(pb))
			continue
		}
		if reuse == "" {
			cs.C.Cover("slots:"+cfg.mon+":d2", int64(len(ref)))
			cs.Cover("dirs:" + cfg.mon + ":d2:" + pb.routine + "/" + pbOpts(pb))
		}
		for o := range ref {
			if math.IsNaN(ref[o]) {
				continue
			}
			got := hess(o, da, db)
			if near(got, ref[o], tol) {
				continue
			}
			if errClass(got, ref[o]) == "wrong" {
				w2.anyWrong = true
			}
			ex := math.Abs(got-ref[o]) / math.Max(tol, 1e-300)
			if math.IsNaN(ex) {
				ex = math.Inf(1)
			}
			if ex > w2.excess {
				la, lb := da.label, db.label
				if lb < la {
					la, lb = lb, la
				}
				w2.excess = ex
				w2.kind = "d2" + slotClass(pb, da, db)
				w2.detail = fmt.Sprintf("second derivative d2(%[2]s)/d(%[9]s)d(%[10]s) of output %[1]d (%[2]s) along directions %[3]v x %[4]v: library %.17[5]g, reference %.17[6]g, tolerance %.3[7]g (output order %[8]d)",
					o, blockOf(ro.blocks, o), da.ent, db.ent, got, ref[o], tol, outs[o].GetOrder(), la, lb)
			}
		}
	}
	if w2.kind != "" {
		cl := "inaccurate"
		if w2.anyWrong {
			cl = "wrong"
		}
		res = append(res, finding{kind: w2.kind + ":" + cl, detail: w2.detail})
	}
	return res, ""
}

// errClass separates derivative errors that look like lost accuracy from
// errors of the order of the derivative itself (wrong / missing / stale).
func errClass(got, ref float64) string {
	d := math.Abs(got - ref)
	m := math.Max(math.Abs(got), math.Abs(ref))
	if math.IsNaN(d) || d > 0.05*m {
		return "wrong"
	}
	return "inaccurate"
}

// slotClass: a direction all of whose entries hold an exact zero is a
// structural zero of the input (the place where routines take shortcuts).
func slotClass(pb *problem, ds ...direction) string {
	for _, d := range ds {
		zero := true
		for _, e := range d.ent {
			if pb.in[e.arr].v[e.idx] != 0 {
				zero = false
			}
		}
		if zero {
			return "[zero-entry]"
		}
	}
	return ""
}

func pbOpts(pb *problem) string {
	if pb.opts == "" {
		return "default"
	}
	return pb.opts
}

// close compares two numbers with an absolute tolerance; NaN equals NaN and
// equal infinities are equal.
func near(a, b, tol float64) bool {
	if math.IsNaN(a) || math.IsNaN(b) {
		return math.IsNaN(a) && math.IsNaN(b)
	}
	if a == b {
		return true
	}
	return math.Abs(a-b) <= tol
}
