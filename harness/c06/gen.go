package c06

// Input generators (reference side only).

import (
	"math"

	"verifharness/internal/prng"
)

// randOrth draws an orthogonal n x n matrix (modified Gram-Schmidt, twice, of a
// Gaussian matrix).
func randOrth(r *prng.Rand, n int) *mat {
	for {
		g := newMat(n, n)
		for i := range g.a {
			g.a[i] = r.Norm()
		}
		q := newMat(n, n)
		ok := true
		for j := 0; j < n && ok; j++ {
			v := make([]float64, n)
			for i := 0; i < n; i++ {
				v[i] = g.at(i, j)
			}
			for pass := 0; pass < 2; pass++ {
				for k := 0; k < j; k++ {
					d := 0.0
					for i := 0; i < n; i++ {
						d += q.at(i, k) * v[i]
					}
					for i := 0; i < n; i++ {
						v[i] -= d * q.at(i, k)
					}
				}
			}
			nm := math.Sqrt(dotv(v, v))
			if nm < 1e-3 {
				ok = false
				break
			}
			for i := 0; i < n; i++ {
				q.set(i, j, v[i]/nm)
			}
		}
		if ok {
			return q
		}
	}
}

func diagMat(d []float64) *mat {
	m := newMat(len(d), len(d))
	for i, x := range d {
		m.set(i, i, x)
	}
	return m
}

// spectrum draws n values in [1/kappa, 1]*scale, geometrically spread with jitter.
func spectrum(r *prng.Rand, n int, kappa, scale float64) []float64 {
	s := make([]float64, n)
	for i := range s {
		t := 0.0
		if n > 1 {
			t = float64(i) / float64(n-1)
		}
		s[i] = scale * math.Pow(kappa, -t) * r.Uniform(0.9, 1.1)
	}
	return s
}

// genGeneral: m x n matrix (m >= n) with prescribed singular values.
func genGeneral(r *prng.Rand, m, n int, kappa float64) *mat {
	s := spectrum(r, n, kappa, r.LogUniform(0.3, 5))
	u := randOrth(r, m)
	v := randOrth(r, n)
	sm := newMat(m, n)
	for i := 0; i < n; i++ {
		sm.set(i, i, s[i])
	}
	return mul3(u, sm, v.t())
}

// genSPD: symmetric positive definite with the given condition number; the
// result is exactly symmetric.
func genSPD(r *prng.Rand, n int, kappa float64) *mat {
	s := spectrum(r, n, kappa, r.LogUniform(0.5, 8))
	q := randOrth(r, n)
	a := mul3(q, diagMat(s), q.t())
	return symmetrize(a)
}

func symmetrize(a *mat) *mat {
	n := a.r
	s := newMat(n, n)
	for i := 0; i < n; i++ {
		for j := 0; j <= i; j++ {
			x := 0.5 * (a.at(i, j) + a.at(j, i))
			s.set(i, j, x)
			s.set(j, i, x)
		}
	}
	return s
}

// genInteger: small integer entries; diag boosted so that it is rarely singular.
func genInteger(r *prng.Rand, m, n int, boost bool) *mat {
	a := newMat(m, n)
	for i := range a.a {
		a.a[i] = float64(r.Range(-4, 4))
	}
	if boost {
		for i := 0; i < m && i < n; i++ {
			a.add(i, i, float64(r.PickI([]int{-7, 7, 9})))
		}
	}
	return a
}

// genPivot: P (D + delta N): the elimination picks rows in the order given by
// the permutation; returns the matrix and the permutation.
func genPivot(r *prng.Rand, n int) (*mat, []int) {
	p := r.Perm(n)
	a := newMat(n, n)
	for i := 0; i < n; i++ {
		for j := 0; j < n; j++ {
			a.set(p[i], j, 0.2*r.Uniform(-1, 1))
		}
		a.set(p[i], i, r.Uniform(2, 4)*float64(1-2*r.Intn(2)))
	}
	return a, p
}

// genUpper: upper triangular, diagonal bounded away from zero.
func genUpper(r *prng.Rand, n int) *mat {
	a := newMat(n, n)
	for i := 0; i < n; i++ {
		for j := i; j < n; j++ {
			a.set(i, j, r.Uniform(-1, 1))
		}
		a.set(i, i, r.Uniform(0.5, 2)*float64(1-2*r.Intn(2)))
	}
	return a
}

// genRealSpectrum: X diag(lam) X^-1 with real eigenvalues of distinct modulus.
func genRealSpectrum(r *prng.Rand, n int, symmetric bool) (*mat, []float64) {
	lam := make([]float64, n)
	base := r.Uniform(0.4, 1.0)
	for i := range lam {
		lam[i] = base * math.Pow(1.45, float64(i)) * r.Uniform(0.95, 1.05)
		if r.Chance(0.4) {
			lam[i] = -lam[i]
		}
	}
	// shuffle
	p := r.Perm(n)
	l2 := make([]float64, n)
	for i := range lam {
		l2[i] = lam[p[i]]
	}
	if symmetric {
		q := randOrth(r, n)
		return symmetrize(mul3(q, diagMat(l2), q.t())), l2
	}
	for {
		q1 := randOrth(r, n)
		q2 := randOrth(r, n)
		x := mul3(q1, diagMat(spectrum(r, n, r.Uniform(1, 4), 1)), q2.t())
		xi, ok := inverse(x)
		if !ok {
			continue
		}
		return mul3(x, diagMat(l2), xi), l2
	}
}

func randVec(r *prng.Rand, n int) []float64 {
	v := make([]float64, n)
	for i := range v {
		v[i] = r.Uniform(-2, 2)
	}
	return v
}

func upperMask(n int, strict bool) []bool {
	m := make([]bool, n*n)
	for i := 0; i < n; i++ {
		for j := i; j < n; j++ {
			if strict && i == j {
				continue
			}
			m[i*n+j] = true
		}
	}
	return m
}

// roundTo32 rounds every entry to float32 so that Float32/Real32 containers
// hold exactly the numbers the reference sees.
func roundTo32(a []float64) {
	for i, x := range a {
		a[i] = float64(float32(x))
	}
}
