// Package c04: linear solves, inverses and determinants against their defining
// equations (DESIGN.md, C04).  The oracle is in-process: the defining equation
// is evaluated in float64 on the float64 image of the operands as the library
// holds them; kappa_inf and the reference determinants come from the
// independent routines in c04/la (LU with partial pivoting, exact Bareiss on
// big.Int).  A failing case is localised before it is reported (rows of the
// result in the wrong place?  does it fail with fresh buffers as well?  does
// the result solve the previous call's system?), so that one root cause maps
// to few signatures.
package c04

import (
	"fmt"
	"math"
	"math/big"
	"sort"
	"strings"

	ad "github.com/pbenner/autodiff"
	"github.com/pbenner/autodiff/algorithm/backSubstitution"
	"github.com/pbenner/autodiff/algorithm/cholesky"
	"github.com/pbenner/autodiff/algorithm/determinant"
	"github.com/pbenner/autodiff/algorithm/gaussJordan"
	"github.com/pbenner/autodiff/algorithm/matrixInverse"

	"verifharness/c04/la"
	"verifharness/internal/fw"
	"verifharness/internal/prng"
)

/* tolerances (DESIGN.md 2.4, condition-scaled); mirrored in CFG["tolerances"]
 * -------------------------------------------------------------------------- */

const (
	cSolve = 16.0 // max|A X - I|, max|A x - b|/max|b|, max|R x - b|/max|b|  <=  cSolve * n * eps_T * kappa_inf(A)
	cDet   = 16.0 // |det - det_ref| <= cDet * n * eps_T * (kappa_inf(A) * |det_ref| + [cofactor route only] perm(|A|))
	cLog   = 16.0 // |logdet - log det_ref| <= cLog * n * eps_T * (kappa_inf(A) + sum_i |log|u_ii||)
)

type elemT struct {
	Name     string
	T        ad.ScalarType
	Eps      float64 // unit round-off of the storage type
	KappaMax float64 // cases with kappa_inf above this are skipped and counted
	Mant     float64 // integers below this are exact in the type
	F32      bool
}

var types = []elemT{
	{"Float32", ad.Float32Type, 1.0 / (1 << 24), 1e3, 1 << 24, true},
	{"Float64", ad.Float64Type, 1.0 / (1 << 53), 1e6, 1 << 53, false},
	{"Real32", ad.Real32Type, 1.0 / (1 << 24), 1e3, 1 << 24, true},
	{"Real64", ad.Real64Type, 1.0 / (1 << 53), 1e6, 1 << 53, false},
}

func (t elemT) rnd() func(float64) float64 {
	if t.F32 {
		return func(x float64) float64 { return float64(float32(x)) }
	}
	return nil
}

/* library <-> reference conversion
 * -------------------------------------------------------------------------- */

func build(t elemT, m *la.Mat) ad.Matrix {
	r := ad.NullDenseMatrix(t.T, m.R, m.C)
	for i := 0; i < m.R; i++ {
		for j := 0; j < m.C; j++ {
			r.At(i, j).SetFloat64(m.At(i, j))
		}
	}
	return r
}

func read(m ad.ConstMatrix) *la.Mat {
	r, c := m.Dims()
	o := la.New(r, c)
	for i := 0; i < r; i++ {
		for j := 0; j < c; j++ {
			o.Set(i, j, m.ConstAt(i, j).GetFloat64())
		}
	}
	return o
}

func buildVec(t elemT, x []float64) ad.Vector {
	v := ad.NullDenseVector(t.T, len(x))
	for i, a := range x {
		v.At(i).SetFloat64(a)
	}
	return v
}

func readVec(v ad.ConstVector) []float64 {
	x := make([]float64, v.Dim())
	for i := range x {
		x[i] = v.ConstAt(i).GetFloat64()
	}
	return x
}

// image rounds a reference matrix to what the element type can hold.
func image(t elemT, m *la.Mat) *la.Mat {
	if !t.F32 {
		return m
	}
	o := m.Clone()
	for i, v := range o.A {
		o.A[i] = float64(float32(v))
	}
	return o
}

func imageVec(t elemT, x []float64) []float64 {
	o := append([]float64(nil), x...)
	if t.F32 {
		for i, v := range o {
			o[i] = float64(float32(v))
		}
	}
	return o
}

/* input structures
 * -------------------------------------------------------------------------- */

var structures = []string{"svals", "integer", "upper", "spd", "sparse-pattern", "permuted-dominant"}

// genMatrix draws a nonsingular n x n matrix of the given structure class with
// kappa aimed below the bound of the element type.
func genMatrix(structure string, n int, t elemT, r *prng.Rand) *la.Mat {
	kmax := math.Sqrt(t.KappaMax) // kappa_2 target; kappa_inf <= n * kappa_2
	if r.Chance(0.3) {
		kmax = t.KappaMax / 8
	}
	switch structure {
	case "svals":
		s := make([]float64, n)
		s0 := r.LogUniform(0.1, 10)
		k := r.LogUniform(1, kmax)
		for i := range s {
			s[i] = math.Pow(k, -float64(i)/math.Max(1, float64(n-1))) * s0
		}
		return la.WithSingularValues(n, n, s, r)
	case "integer":
		for {
			a := la.New(n, n)
			for i := range a.A {
				a.A[i] = float64(r.Range(-4, 4))
			}
			if la.Bareiss(a).Sign() != 0 {
				return a
			}
		}
	case "upper":
		a := la.New(n, n)
		for i := 0; i < n; i++ {
			for j := i; j < n; j++ {
				a.Set(i, j, r.Uniform(-1, 1))
			}
			d := r.Uniform(0.5, 2)
			if r.Bool() {
				d = -d
			}
			a.Set(i, i, d)
		}
		return a
	case "spd":
		b := la.New(n, n)
		for i := range b.A {
			b.A[i] = r.Norm()
		}
		a := la.Mul(b.T(), b)
		lam := r.LogUniform(1e-2, 1) * float64(n)
		for i := 0; i < n; i++ {
			a.Set(i, i, a.At(i, i)+lam)
		}
		a.Symmetrize()
		return a
	case "sparse-pattern":
		// a permuted diagonal (structural rank n) plus a few off-pattern entries
		p := r.Perm(n)
		a := la.New(n, n)
		for k := 0; k < n; k++ {
			a.Set(r.Intn(n), r.Intn(n), r.Uniform(-0.4, 0.4))
		}
		for i := 0; i < n; i++ {
			d := r.Uniform(1, 3)
			if r.Bool() {
				d = -d
			}
			a.Set(i, p[i], d)
		}
		return a
	default: // permuted-dominant
		return la.PivotMatrix(r.Perm(n), r)
	}
}

func randMask(n int, r *prng.Rand) []bool {
	for {
		m := make([]bool, n)
		k := 0
		for i := range m {
			m[i] = r.Chance(0.65)
			if m[i] {
				k++
			}
		}
		if k >= 1 && k < n || n == 1 && k == 1 {
			return m
		}
	}
}

func maskIdx(mask []bool, n int) []int {
	var s []int
	for i := 0; i < n; i++ {
		if mask == nil || mask[i] {
			s = append(s, i)
		}
	}
	return s
}

func maskString(mask []bool) string {
	if mask == nil {
		return ""
	}
	b := make([]byte, len(mask))
	for i, v := range mask {
		b[i] = '0'
		if v {
			b[i] = '1'
		}
	}
	return string(b)
}

// maskClass: a prefix mask selects the leading block, anything else is "scattered".
func maskClass(mask []bool) string {
	seenFalse := false
	for _, v := range mask {
		if !v {
			seenFalse = true
		} else if seenFalse {
			return "scattered"
		}
	}
	return "prefix"
}

func genRHS(kind string, n int, r *prng.Rand) []float64 {
	b := make([]float64, n)
	switch kind {
	case "unit":
		b[r.Intn(n)] = 1
	case "zero":
	default:
		for i := range b {
			b[i] = r.Uniform(-2, 2)
		}
	}
	return b
}

/* outcome of a library call, verdict of a check
 * -------------------------------------------------------------------------- */

type outcome struct {
	Err   error
	Panic *fw.Panic
}

func (o outcome) failed() bool { return o.Err != nil || o.Panic != nil }
func (o outcome) kind() string {
	if o.Panic != nil {
		return "panic"
	}
	return "error"
}
func (o outcome) String() string {
	switch {
	case o.Panic != nil:
		return "panic: " + o.Panic.Msg
	case o.Err != nil:
		return "error: " + o.Err.Error()
	}
	return "returned"
}

// verdict of one judged call: Kind == "" means the defining equation held.
type verdict struct {
	Skipped bool
	Kind    string
	Detail  string
	Wit     map[string]any
}

func ratioKey(c *fw.Ctx, oracle string, err, tol float64) {
	if tol > 0 && err <= tol {
		c.CoverMax("max:ratio-permille(held):"+oracle, int64(1000*err/tol))
	}
}

func sig(oracle, routine, opts, typ, class, kind string) string {
	return fmt.Sprintf("C04|%s|%s|%s|%s|%s|%s", oracle, routine, opts, typ, class, kind)
}

func optString(parts ...string) string {
	var s []string
	for _, p := range parts {
		if p != "" {
			s = append(s, p)
		}
	}
	if len(s) == 0 {
		return "default"
	}
	return strings.Join(s, "+")
}

func classString(parts ...string) string {
	var s []string
	for _, p := range parts {
		if p != "" {
			s = append(s, p)
		}
	}
	return strings.Join(s, ",")
}

// isPermutationMatrix: m within tol of a permutation matrix other than I.
func isPermutationMatrix(m *la.Mat, tol float64) bool {
	n := m.R
	ident := true
	colUsed := make([]bool, n)
	for i := 0; i < n; i++ {
		one := -1
		for j := 0; j < n; j++ {
			v := m.At(i, j)
			switch {
			case math.Abs(v-1) <= tol:
				if one >= 0 {
					return false
				}
				one = j
			case math.Abs(v) <= tol:
			default:
				return false
			}
		}
		if one < 0 || colUsed[one] {
			return false
		}
		colUsed[one] = true
		if one != i {
			ident = false
		}
	}
	return !ident
}

// checkInverse judges X against A on the selected block S and "untouched" outside.
func checkInverse(t elemT, A, X *la.Mat, mask []bool) verdict {
	n := A.R
	S := maskIdx(mask, n)
	As := A.Select(S, S)
	kappa, _ := la.CondInf(As)
	if !(kappa <= t.KappaMax) {
		return verdict{Skipped: true}
	}
	w := map[string]any{"kappa_inf": kappa}
	Xs := X.Select(S, S)
	if !Xs.Finite() {
		return verdict{Kind: "non-finite", Detail: fmt.Sprintf("non-finite entries for a nonsingular matrix (kappa_inf=%.3g)", kappa), Wit: w}
	}
	res := la.MulNaive(As, Xs)
	for i := range S {
		res.Set(i, i, res.At(i, i)-1)
	}
	e := res.MaxAbs()
	tol := cSolve * float64(len(S)) * t.Eps * kappa
	w["max|A*X-I|"] = e
	w["tol"] = tol
	if !(e <= tol) {
		// localisation: X*A a permutation matrix != I means that the rows of the
		// inverse were computed correctly and stored in the wrong places
		if isPermutationMatrix(la.MulNaive(Xs, As), tol) {
			return verdict{Kind: "rows-misplaced", Detail: fmt.Sprintf("n=%d: max|A*X-I| = %.3g > tol %.3g (kappa_inf=%.3g); X*A is a permutation matrix other than I: the rows of the inverse are correct but in the wrong order", len(S), e, tol, kappa), Wit: w}
		}
		return verdict{Kind: "residual", Detail: fmt.Sprintf("n=%d: max|A*X-I| = %.3g > tol %.3g (kappa_inf=%.3g)", len(S), e, tol, kappa), Wit: w}
	}
	if mask != nil {
		for i := 0; i < n; i++ {
			for j := 0; j < n; j++ {
				if mask[i] && mask[j] {
					continue
				}
				want := 0.0
				if i == j {
					want = 1
				}
				if X.At(i, j) != want {
					return verdict{Kind: "outside-submatrix-touched", Detail: fmt.Sprintf("entry (%d,%d) outside the selected block is %g, expected %g", i, j, X.At(i, j), want), Wit: w}
				}
			}
		}
	}
	w["held-ratio"] = e / tol
	return verdict{Wit: w}
}

// checkSolve judges A x = b on the selected block.
func checkSolve(t elemT, A *la.Mat, x, b []float64, mask []bool) verdict {
	n := A.R
	S := maskIdx(mask, n)
	As := A.Select(S, S)
	kappa, inv := la.CondInf(As)
	if !(kappa <= t.KappaMax) {
		return verdict{Skipped: true}
	}
	w := map[string]any{"kappa_inf": kappa}
	xs := make([]float64, len(S))
	bs := make([]float64, len(S))
	for k, i := range S {
		xs[k], bs[k] = x[i], b[i]
	}
	if !la.VecFinite(xs) {
		return verdict{Kind: "non-finite", Detail: fmt.Sprintf("non-finite solution of a nonsingular system (kappa_inf=%.3g)", kappa), Wit: w}
	}
	ax := la.MulVec(As, xs)
	e := 0.0
	for i := range ax {
		e = math.Max(e, math.Abs(ax[i]-bs[i]))
	}
	tol := cSolve * float64(len(S)) * t.Eps * kappa * la.VecMaxAbs(bs)
	w["max|A*x-b|"] = e
	w["tol"] = tol
	if !(e <= tol) {
		// localisation: the solution is a rearrangement of the reference solution
		ref := la.MulVec(inv, bs)
		a1 := append([]float64(nil), xs...)
		a2 := append([]float64(nil), ref...)
		sort.Float64s(a1)
		sort.Float64s(a2)
		same := true
		ftol := cSolve * float64(len(S)) * t.Eps * kappa * la.VecMaxAbs(ref)
		for i := range a1 {
			if math.Abs(a1[i]-a2[i]) > ftol {
				same = false
			}
		}
		if same {
			return verdict{Kind: "entries-misplaced", Detail: fmt.Sprintf("n=%d: max|A*x-b| = %.3g > tol %.3g (kappa_inf=%.3g); x is a rearrangement of the reference solution", len(S), e, tol, kappa), Wit: w}
		}
		return verdict{Kind: "residual", Detail: fmt.Sprintf("n=%d: max|A*x-b| = %.3g > tol %.3g (kappa_inf=%.3g)", len(S), e, tol, kappa), Wit: w}
	}
	if mask != nil {
		for i := 0; i < n; i++ {
			if !mask[i] && x[i] != b[i] {
				return verdict{Kind: "outside-submatrix-touched", Detail: fmt.Sprintf("b[%d] outside the selected block changed from %g to %g", i, b[i], x[i]), Wit: w}
			}
		}
	}
	if tol > 0 {
		w["held-ratio"] = e / tol
	}
	return verdict{Wit: w}
}

func pivotClass(t elemT, A *la.Mat, mask []bool) (string, []int) {
	// the replay is bit-exact (same operation order; rounding a float64
	// result of +,-,*,/ on float32 operands to float32 equals the float32
	// operation), so ties are resolved as in the library: first maximal row
	p, _ := la.PivotOrder(A, mask, t.rnd())
	return la.CycleClass(p), p
}

func merge(dst map[string]any, src map[string]any) map[string]any {
	for k, v := range src {
		dst[k] = v
	}
	return dst
}

/* matrixInverse
 * -------------------------------------------------------------------------- */

type invOpts struct {
	PD, UT bool
	Mask   []bool
	InSitu string // "", "empty", "prealloc"
}

func (o invOpts) path() string {
	switch {
	case o.PD:
		return "PositiveDefinite"
	case o.UT:
		return "UpperTriangular"
	}
	return "general"
}

func (o invOpts) String() string {
	var sub, is string
	if o.Mask != nil {
		sub = "Submatrix"
	}
	if o.InSitu != "" {
		is = "InSitu"
	}
	return optString(o.path(), sub, is)
}

func newInvInSitu(kind string, t elemT, n int) *matrixInverse.InSitu {
	if kind == "" {
		return nil
	}
	is := &matrixInverse.InSitu{}
	if kind == "prealloc" {
		// caller-supplied buffers holding unrelated old numbers
		junk := la.New(n, n)
		for i := range junk.A {
			junk.A[i] = 7 + float64(i)
		}
		is.Id = build(t, junk)
		is.A = build(t, junk)
		jb := make([]float64, n)
		for i := range jb {
			jb[i] = -3
		}
		is.B = buildVec(t, jb)
		is.Cholesky = cholesky.InSitu{L: ad.NullDenseMatrix(t.T, n, n), S: ad.NullScalar(t.T), T: ad.NullScalar(t.T)}
	}
	return is
}

func callInverse(t elemT, A *la.Mat, o invOpts, is *matrixInverse.InSitu) (*la.Mat, outcome) {
	return callInverseM(build(t, A), o, is)
}

// callInverseM: the input is a library matrix built by the caller (possibly a view).
func callInverseM(m ad.Matrix, o invOpts, is *matrixInverse.InSitu) (*la.Mat, outcome) {
	var args []interface{}
	if o.PD {
		args = append(args, matrixInverse.PositiveDefinite{Value: true})
	}
	if o.UT {
		args = append(args, matrixInverse.UpperTriangular{Value: true})
	}
	if o.Mask != nil {
		args = append(args, gaussJordan.Submatrix{Value: append([]bool(nil), o.Mask...)})
	}
	if is != nil {
		args = append(args, is)
	}
	var out outcome
	var X *la.Mat
	out.Panic = fw.Call(func() {
		r, err := matrixInverse.Run(m, args...)
		out.Err = err
		if err == nil && r != nil {
			X = read(r)
		}
	})
	if !out.failed() && X == nil {
		out.Err = fmt.Errorf("nil result without error")
	}
	return X, out
}

// runInverse calls the routine and judges the result.
func runInverse(t elemT, A *la.Mat, o invOpts, is *matrixInverse.InSitu) verdict {
	X, out := callInverse(t, A, o, is)
	if out.failed() {
		S := maskIdx(o.Mask, A.R)
		kappa, _ := la.CondInf(A.Select(S, S))
		if !(kappa <= t.KappaMax) {
			return verdict{Skipped: true}
		}
		return verdict{Kind: out.kind(), Detail: fmt.Sprintf("rejected a nonsingular matrix (kappa_inf=%.3g): %s", kappa, out), Wit: map[string]any{"outcome": out.String(), "kappa_inf": kappa}}
	}
	v := checkInverse(t, A, X, o.Mask)
	if v.Wit != nil {
		v.Wit["X"] = X.Rows()
	}
	return v
}

// inverseCase runs one matrixInverse call and reports it.
func inverseCase(cs *fw.Case, t elemT, structure string, A *la.Mat, o invOpts, is *matrixInverse.InSitu, callClass string) {
	A = image(t, A)
	n := A.R
	S := maskIdx(o.Mask, n)
	pc := ""
	if !o.PD && !o.UT {
		var p []int
		pc, p = pivotClass(t, A, o.Mask)
		cs.Cover(fmt.Sprintf("pivot:%s/n=%d", pc, len(S)))
		cs.Cover(fmt.Sprintf("set:pivot-order:%d:%v", len(S), p))
		pc = "pivot=" + pc
	} else {
		pc = structure
	}
	cs.Cover("call:matrixInverse/" + t.Name)
	cs.Cover("opts:matrixInverse/" + o.String())
	cs.Cover("structure:" + structure)
	if callClass != "" {
		cs.Cover("insitu:matrixInverse/" + callClass)
	}
	v := runInverse(t, A, o, is)
	if v.Skipped {
		cs.Skip("ill-conditioned")
		return
	}
	cs.Cover("judged:inverse")
	if len(S) >= 2 {
		cs.Nontrivial("inv", t.Name, o.String(), fmt.Sprint(A.A))
	}
	if v.Kind == "" {
		if r, ok := v.Wit["held-ratio"].(float64); ok {
			cs.C.CoverMax("max:ratio-permille(held):inverse", int64(1000*r))
		}
		return
	}
	// localisation: does the same input fail in the same way with fresh buffers?
	opts, class := o.String(), ""
	mc := ""
	if o.Mask != nil {
		mc = "mask=" + maskClass(o.Mask)
	}
	if is != nil {
		o2 := o
		o2.InSitu = ""
		if c := runInverse(t, A, o2, nil); c.Kind == v.Kind {
			opts, callClass = o2.String(), ""
		}
	}
	class = classString(pc, mc, callClass)
	if v.Kind == "rows-misplaced" {
		// the un-permutation is the same code with and without a sub-matrix selection
		opts = strings.Replace(opts, "+Submatrix", "", 1)
		class = classString(pc, callClass)
	}
	wit := merge(map[string]any{"A": A.Rows(), "type": t.Name, "opts": o.String(), "mask": maskString(o.Mask), "structure": structure, "call": callClass}, v.Wit)
	cs.Violation(sig("inverse", "matrixInverse", opts, t.Name, class, v.Kind),
		fmt.Sprintf("matrixInverse(%s) %s %s", o.String(), t.Name, v.Detail), wit)
}

/* gaussJordan
 * -------------------------------------------------------------------------- */

func gjCase(cs *fw.Case, t elemT, structure string, A *la.Mat, ut bool, mask []bool, rhs string) {
	A = image(t, A)
	n := A.R
	b := imageVec(t, genRHS(rhs, n, cs.R))
	S := maskIdx(mask, n)
	pc := structure
	path := "UpperTriangular"
	if !ut {
		path = "general"
		var p []int
		pc, p = pivotClass(t, A, mask)
		cs.Cover(fmt.Sprintf("pivot:%s/n=%d", pc, len(S)))
		cs.Cover(fmt.Sprintf("set:pivot-order:%d:%v", len(S), p))
		pc = "pivot=" + pc
	}
	var sub, mc string
	var args []interface{}
	if ut {
		args = append(args, gaussJordan.UpperTriangular{Value: true})
	}
	if mask != nil {
		sub = "Submatrix"
		mc = "mask=" + maskClass(mask)
		args = append(args, gaussJordan.Submatrix{Value: append([]bool(nil), mask...)})
	}
	opts := optString(path, sub)
	cs.Cover("call:gaussJordan/" + t.Name)
	cs.Cover("opts:gaussJordan/" + opts)
	cs.Cover("structure:" + structure)
	cs.Cover("rhs:" + rhs)
	a := build(t, A)
	x := ad.NullDenseMatrix(t.T, n, n)
	x.SetIdentity()
	bv := buildVec(t, b)
	var out outcome
	out.Panic = fw.Call(func() { out.Err = gaussJordan.Run(a, x, bv, args...) })
	wit := map[string]any{"A": A.Rows(), "type": t.Name, "opts": opts, "mask": maskString(mask), "b": b, "structure": structure}
	if out.failed() {
		kappa, _ := la.CondInf(A.Select(S, S))
		if !(kappa <= t.KappaMax) {
			cs.Skip("ill-conditioned")
			return
		}
		wit["outcome"] = out.String()
		cs.Violation(sig("solve", "gaussJordan", opts, t.Name, classString(pc, mc), out.kind()),
			fmt.Sprintf("gaussJordan(%s) %s rejected a nonsingular system (kappa_inf=%.3g): %s", opts, t.Name, kappa, out), wit)
		return
	}
	X := read(x)
	xs := readVec(bv)
	wit["X"] = X.Rows()
	wit["x"] = xs
	v := checkInverse(t, A, X, mask)
	if v.Skipped {
		cs.Skip("ill-conditioned")
		return
	}
	cs.Cover("judged:inverse")
	cs.Cover("judged:solve")
	if len(S) >= 2 {
		cs.Nontrivial("gj", t.Name, opts, fmt.Sprint(A.A), fmt.Sprint(b))
	}
	report := func(oracle string, v verdict, extra string) {
		o, c := opts, classString(pc, mc, extra)
		if v.Kind == "rows-misplaced" || v.Kind == "entries-misplaced" {
			o = strings.Replace(o, "+Submatrix", "", 1)
			c = pc
		}
		cs.Violation(sig(oracle, "gaussJordan", o, t.Name, c, v.Kind),
			fmt.Sprintf("gaussJordan(%s) %s %s", opts, t.Name, v.Detail), merge(wit, v.Wit))
	}
	if v.Kind != "" {
		report("inverse", v, "")
	} else if r, ok := v.Wit["held-ratio"].(float64); ok {
		cs.C.CoverMax("max:ratio-permille(held):inverse", int64(1000*r))
	}
	v = checkSolve(t, A, xs, b, mask)
	if v.Kind != "" {
		report("solve", v, "rhs="+rhs)
	} else if r, ok := v.Wit["held-ratio"].(float64); ok {
		cs.C.CoverMax("max:ratio-permille(held):solve", int64(1000*r))
	}
}

/* backSubstitution
 * -------------------------------------------------------------------------- */

func backsubCall(t elemT, R *la.Mat, b []float64, is *backSubstitution.InSitu) ([]float64, outcome) {
	var bv ad.Vector
	if b != nil {
		bv = buildVec(t, b)
	}
	return backsubCallM(build(t, R), bv, is)
}

func backsubCallM(m ad.Matrix, bv ad.Vector, is *backSubstitution.InSitu) ([]float64, outcome) {
	var args []interface{}
	if is != nil {
		args = append(args, is)
	}
	var out outcome
	var x []float64
	out.Panic = fw.Call(func() {
		r, err := backSubstitution.Run(m, bv, args...)
		out.Err = err
		if err == nil && r != nil {
			x = readVec(r)
		}
	})
	if !out.failed() && x == nil {
		out.Err = fmt.Errorf("nil result without error")
	}
	return x, out
}

/* determinant
 * -------------------------------------------------------------------------- */

type detOpts struct {
	PD, Log bool
	InSitu  bool
}

func (o detOpts) String() string {
	var lg, is string
	path := "cofactor"
	if o.PD {
		path = "PositiveDefinite"
	}
	if o.Log {
		lg = "LogScale"
	}
	if o.InSitu {
		is = "InSitu"
	}
	return optString(path, lg, is)
}

func detCall(t elemT, A *la.Mat, o detOpts, is *determinant.InSitu) (float64, outcome) {
	return detCallM(build(t, A), o, is)
}

func detCallM(m ad.Matrix, o detOpts, is *determinant.InSitu) (float64, outcome) {
	var args []interface{}
	if o.PD {
		args = append(args, determinant.PositiveDefinite{Value: true})
	}
	if o.Log {
		args = append(args, determinant.LogScale{Value: true})
	}
	if is != nil {
		args = append(args, is)
	}
	var out outcome
	d := math.NaN()
	got := false
	out.Panic = fw.Call(func() {
		r, err := determinant.Run(m, args...)
		out.Err = err
		if err == nil && r != nil {
			d = r.GetFloat64()
			got = true
		}
	})
	if !out.failed() && !got {
		out.Err = fmt.Errorf("nil result without error")
	}
	return d, out
}

func bigToFloat(b *big.Int) float64 {
	f, _ := new(big.Float).SetInt(b).Float64()
	return f
}

// checkDet judges a determinant / log-determinant.
func checkDet(cs *fw.Case, t elemT, A *la.Mat, o detOpts, d float64, out outcome) verdict {
	n := A.R
	kappa, _ := la.CondInf(A)
	if !(kappa <= t.KappaMax) {
		return verdict{Skipped: true}
	}
	w := map[string]any{"kappa_inf": kappa}
	if out.failed() {
		w["outcome"] = out.String()
		return verdict{Kind: out.kind(), Detail: fmt.Sprintf("rejected an admissible matrix (kappa_inf=%.3g): %s", kappa, out), Wit: w}
	}
	lu := la.Factor(A)
	ref := lu.Det()
	lref, labs := lu.LogAbsDet()
	// representable range of the element type (natural logs; smallest NORMAL number)
	logMax, logMin := 709.0, -708.0
	if t.F32 {
		logMax, logMin = 88.0, -87.0
	}
	if math.IsInf(ref, 0) || ref == 0 || math.Abs(ref) < 1e-300 {
		// the reference product left the float64 range: rebuild it from the logarithm
		sgn := lu.Sign
		for i := 0; i < n; i++ {
			if lu.F.At(i, i) < 0 {
				sgn = -sgn
			}
		}
		ref = sgn * math.Exp(lref)
	}
	exact := false
	if A.IsIntegral() {
		ref = bigToFloat(la.Bareiss(A))
		// a cofactor expansion over integers whose every intermediate value stays
		// below the mantissa limit is exact in any evaluation order
		exact = !o.PD && la.PermanentAbs(A) < t.Mant
		w["reference"] = "Bareiss on big.Int (exact)"
	} else {
		w["reference"] = "LU with partial pivoting (float64)"
	}
	w["det_ref"] = ref
	w["logdet_ref"] = lref
	w["observed"] = d
	if o.Log {
		if A.IsIntegral() {
			lref = math.Log(math.Abs(ref))
		}
		tol := cLog * float64(n) * t.Eps * (kappa + labs)
		e := math.Abs(d - lref)
		ratioKey(cs.C, "logdet", e, tol)
		w["tol"] = tol
		if !(e <= tol) {
			return verdict{Kind: "value", Detail: fmt.Sprintf("n=%d: log-determinant %.17g, log of the reference determinant %.17g, |diff| %.3g > tol %.3g", n, d, lref, e, tol), Wit: w}
		}
		return verdict{Wit: w}
	}
	if !exact {
		if lref > logMax-2 || lref < logMin+7 {
			// the true determinant over- or underflows (or is at the edge of) the
			// range of the element type: Inf / 0 / a denormal are legitimate, not judged
			cs.Cover("det:true-value-out-of-range")
			return verdict{Wit: w}
		}
		if d == 0 || math.IsInf(d, 0) || math.IsNaN(d) {
			return verdict{Kind: "range", Detail: fmt.Sprintf("n=%d: determinant %g although the true value (sign * exp(%.6g)) is well inside the range of %s", n, d, lref, t.Name), Wit: w}
		}
	}
	e := math.Abs(d - ref)
	if exact {
		cs.Cover("det:exact-compare")
		if e != 0 {
			return verdict{Kind: "value(exact)", Detail: fmt.Sprintf("n=%d: %.17g, exact determinant %.17g (integer input, every intermediate value of the expansion exactly representable)", n, d, ref), Wit: w}
		}
		return verdict{Wit: w}
	}
	tol := cDet * float64(n) * t.Eps * (kappa + math.Abs(lref)) * math.Abs(ref)
	if !o.PD {
		// the documented algorithm is the cofactor expansion: its textbook
		// forward error is gamma_n * perm(|A|), which is not a backward error
		// in the sense of LU; it is granted on top (DESIGN.md 2.4: "what a
		// textbook evaluation of the formula loses")
		// (evaluated on A / max|a_ij| so that the bound itself does not overflow)
		mx := A.MaxAbs()
		An := A.Clone()
		for i := range An.A {
			An.A[i] /= mx
		}
		pa := la.PermanentAbs(An) * math.Exp(float64(n)*math.Log(mx))
		tol += cDet * float64(n) * t.Eps * pa
		w["perm(|A|)"] = pa
	}
	ratioKey(cs.C, "det", e, tol)
	w["tol"] = tol
	if !(e <= tol) {
		return verdict{Kind: "value", Detail: fmt.Sprintf("n=%d: %.17g, reference %.17g, |diff| %.3g > tol %.3g (kappa_inf=%.3g)", n, d, ref, e, tol, kappa), Wit: w}
	}
	return verdict{Wit: w}
}

/* structurally singular inputs
 * -------------------------------------------------------------------------- */

var singularKinds = []string{"zero-row", "zero-column", "identical-rows"}

func makeSingular(kind string, A *la.Mat, r *prng.Rand, symmetric, upper bool) *la.Mat {
	n := A.R
	S := A.Clone()
	i := r.Intn(n)
	j := i
	if n > 1 {
		for j == i {
			j = r.Intn(n)
		}
	}
	switch {
	case upper:
		// a triangular matrix is singular iff a diagonal entry is zero: the
		// first one (zero column), the last one (zero row) or one in between
		switch kind {
		case "zero-row":
			i = n - 1
		case "zero-column":
			i = 0
		}
		S.Set(i, i, 0)
	case kind == "zero-row":
		for k := 0; k < n; k++ {
			S.Set(i, k, 0)
			if symmetric {
				S.Set(k, i, 0)
			}
		}
	case kind == "zero-column":
		for k := 0; k < n; k++ {
			S.Set(k, i, 0)
			if symmetric {
				S.Set(i, k, 0)
			}
		}
	default: // identical rows (and columns when symmetric)
		if n == 1 {
			S.Set(0, 0, 0)
			break
		}
		for k := 0; k < n; k++ {
			S.Set(j, k, S.At(i, k))
		}
		if symmetric {
			for k := 0; k < n; k++ {
				S.Set(k, j, S.At(k, i))
			}
			S.Set(j, j, S.At(i, i))
			S.Set(i, j, S.At(i, i))
			S.Set(j, i, S.At(i, i))
		}
	}
	return S
}

func finiteOutcome(cs *fw.Case, routine, opts string, t elemT, class string, out outcome, finite bool, wit map[string]any) {
	switch {
	case out.Panic != nil:
		cs.Cover("singular-outcome:panic")
	case out.Err != nil:
		cs.Cover("singular-outcome:error")
	case !finite:
		cs.Cover("singular-outcome:non-finite")
	default:
		cs.Cover("singular-outcome:finite")
		cs.Violation(sig("singular", routine, opts, t.Name, class, "finite-on-singular"),
			fmt.Sprintf("%s(%s) %s returned an all-finite result for a structurally singular input (%s) without error or panic", routine, opts, t.Name, class), wit)
	}
}

/* Run
 * -------------------------------------------------------------------------- */

func permList(maxN int) [][]int {
	var l [][]int
	for n := 1; n <= maxN; n++ {
		l = append(l, la.Perms(n)...)
	}
	return l
}

func Run(c *fw.Ctx) {
	defer runViews(c)
	/* (1) every pivot order: A = P (D + delta N) for every permutation P */
	perms := permList(c.N(4, 6))
	reps := c.N(8, 8)
	c.Cases("pivot", len(perms)*len(types)*2*reps, func(cs *fw.Case) {
		k := cs.Index
		routine := k % 2
		k /= 2
		t := types[k%len(types)]
		k /= len(types)
		p := perms[k%len(perms)]
		A := la.PivotMatrix(p, cs.R)
		if got, _ := la.PivotOrder(image(t, A), nil, t.rnd()); fmt.Sprint(got) != fmt.Sprint(p) {
			cs.Cover("pivot-generator-miss")
		} else {
			cs.Cover(fmt.Sprintf("pivot-directed:%s/n=%d", la.CycleClass(p), len(p)))
		}
		if sampleWorthy(map[string]any{"perm": p, "type": t.Name, "A": A.Rows()}) {
			cs.Sample(map[string]any{"perm": p, "type": t.Name, "A": A.Rows()})
		}
		if routine == 0 {
			inverseCase(cs, t, "permuted-dominant", A, invOpts{}, nil, "")
		} else {
			gjCase(cs, t, "permuted-dominant", A, false, nil, "random")
		}
	})

	/* (2) matrixInverse: structures x options x types, in-situ buffers reused across calls */
	c.Cases("inverse", c.N(9600, 240000), func(cs *fw.Case) {
		r := cs.R
		t := types[cs.Index%len(types)]
		structure := structures[(cs.Index/len(types))%len(structures)]
		n := 1 + (cs.Index/(len(types)*len(structures)))%7
		o := invOpts{}
		switch structure {
		case "spd":
			o.PD = r.Chance(0.7)
		case "upper":
			o.UT = r.Chance(0.7)
		}
		if r.Chance(0.35) {
			o.Mask = randMask(n, r)
		}
		if r.Chance(0.4) {
			o.InSitu = []string{"empty", "prealloc"}[r.Intn(2)]
		}
		is := newInvInSitu(o.InSitu, t, n)
		ncalls := 1
		if is != nil {
			ncalls = 2 + r.Intn(2)
		}
		failedBefore := false
		for call := 0; call < ncalls; call++ {
			A := genMatrix(structure, n, t, r)
			if is != nil && structure != "integer" {
				// differently scaled inputs in the same buffers (kappa is scale-invariant):
				// what an earlier call leaves behind must not leak into a later result
				sc := []float64{1e-6, 1e-3, 1, 1, 1e3}[r.Intn(5)]
				for i := range A.A {
					A.A[i] *= sc
				}
				cs.Cover(fmt.Sprintf("insitu:scale=%g", sc))
			}
			if is != nil && call == 1 && ncalls == 3 && r.Chance(0.5) {
				// a rejected (singular) call in between must not poison the buffers
				sing := makeSingular(singularKinds[r.Intn(3)], A, r, o.PD, o.UT)
				callInverse(t, image(t, sing), o, is)
				failedBefore = true
			}
			if call == 0 {
				if sampleWorthy(map[string]any{"type": t.Name, "structure": structure, "opts": o.String(), "mask": maskString(o.Mask), "A": A.Rows()}) {
					cs.Sample(map[string]any{"type": t.Name, "structure": structure, "opts": o.String(), "mask": maskString(o.Mask), "A": A.Rows()})
				}
			}
			callClass := ""
			if is != nil {
				callClass = "first-use"
				if call > 0 {
					callClass = "reused"
					if failedBefore {
						callClass = "reused-after-rejection"
					}
				}
			}
			inverseCase(cs, t, structure, A, o, is, callClass)
		}
	})

	/* (3) gaussJordan.Run(a, x = I, b) */
	c.Cases("solve", c.N(6400, 160000), func(cs *fw.Case) {
		r := cs.R
		t := types[cs.Index%len(types)]
		structure := structures[(cs.Index/len(types))%len(structures)]
		n := 1 + (cs.Index/(len(types)*len(structures)))%7
		ut := structure == "upper" && r.Chance(0.7)
		var mask []bool
		if r.Chance(0.35) {
			mask = randMask(n, r)
		}
		rhs := []string{"random", "random", "unit", "zero"}[r.Intn(4)]
		A := genMatrix(structure, n, t, r)
		if sampleWorthy(map[string]any{"type": t.Name, "structure": structure, "upperTriangular": ut, "mask": maskString(mask), "rhs": rhs, "A": A.Rows()}) {
			cs.Sample(map[string]any{"type": t.Name, "structure": structure, "upperTriangular": ut, "mask": maskString(mask), "rhs": rhs, "A": A.Rows()})
		}
		gjCase(cs, t, structure, A, ut, mask, rhs)
	})

	/* (4) backSubstitution */
	c.Cases("backsub", c.N(3200, 80000), func(cs *fw.Case) {
		r := cs.R
		t := types[cs.Index%len(types)]
		n := 1 + (cs.Index/len(types))%7
		mode := []string{"default", "default", "InSitu:X,T-reused", "InSitu:struct-reused"}[r.Intn(4)]
		var is *backSubstitution.InSitu
		ncalls := 1
		if mode != "default" {
			is = &backSubstitution.InSitu{}
			ncalls = 2
		}
		var prevR *la.Mat
		for call := 0; call < ncalls; call++ {
			R := image(t, genMatrix("upper", n, t, r))
			rhs := []string{"random", "random", "unit", "zero", "nil"}[r.Intn(5)]
			var b []float64
			if rhs != "nil" {
				b = imageVec(t, genRHS(rhs, n, r))
			}
			opts, callClass := "default", ""
			if is != nil {
				opts = "InSitu"
				switch {
				case mode == "InSitu:X,T-reused":
					// the caller keeps the X and T buffers and lets the routine take the matrix
					is.A = nil
					callClass = "X,T-reused"
				case call == 0:
					callClass = "first-use"
				default:
					callClass = "struct-reused"
				}
			}
			cs.Cover("call:backSubstitution/" + t.Name)
			cs.Cover("opts:backSubstitution/" + mode)
			cs.Cover("rhs:" + rhs)
			if call == 0 {
				if sampleWorthy(map[string]any{"type": t.Name, "mode": mode, "R": R.Rows(), "b": b}) {
					cs.Sample(map[string]any{"type": t.Name, "mode": mode, "R": R.Rows(), "b": b})
				}
			}
			x, out := backsubCall(t, R, b, is)
			rb := b
			if rb == nil {
				rb = make([]float64, n)
			}
			wit := map[string]any{"R": R.Rows(), "type": t.Name, "opts": opts, "b": b, "call": callClass}
			var v verdict
			if out.failed() {
				if kappa, _ := la.CondInf(R); !(kappa <= t.KappaMax) {
					v = verdict{Skipped: true}
				} else {
					v = verdict{Kind: out.kind(), Detail: "rejected a nonsingular triangular system: " + out.String(), Wit: map[string]any{"outcome": out.String()}}
				}
			} else {
				wit["x"] = x
				v = checkSolve(t, R, x, rb, nil)
				if v.Kind == "residual" && prevR != nil {
					// localisation: x solves the system of the previous call
					if pv := checkSolve(t, prevR, x, rb, nil); !pv.Skipped && pv.Kind == "" {
						v.Kind = "solves-previous-matrix"
						v.Detail += "; x satisfies R_prev*x = b for the matrix of the previous call with the same InSitu (InSitu.A is not refreshed from the argument)"
						wit["R_prev"] = prevR.Rows()
					}
				}
			}
			prevR = R
			if v.Skipped {
				cs.Skip("ill-conditioned")
				continue
			}
			cs.Cover("judged:backsub")
			if n >= 2 {
				cs.Nontrivial("bs", t.Name, opts, fmt.Sprint(R.A), fmt.Sprint(b))
			}
			if v.Kind == "" {
				if q, ok := v.Wit["held-ratio"].(float64); ok {
					cs.C.CoverMax("max:ratio-permille(held):backsub", int64(1000*q))
				}
				continue
			}
			class := classString("upper", callClass)
			if v.Kind != "solves-previous-matrix" {
				class = classString(class, "rhs="+rhs)
			}
			cs.Violation(sig("backsub", "backSubstitution", opts, t.Name, class, v.Kind),
				fmt.Sprintf("backSubstitution(%s) %s %s", opts, t.Name, v.Detail), merge(wit, v.Wit))
		}
	})

	/* (5) determinant */
	c.Cases("det", c.N(5600, 120000), func(cs *fw.Case) {
		r := cs.R
		t := types[cs.Index%len(types)]
		structure := structures[(cs.Index/len(types))%len(structures)]
		n := 1 + (cs.Index/(len(types)*len(structures)))%7
		if structure == "integer" && n > 6 {
			n = 6
		}
		o := detOpts{}
		if structure == "spd" {
			o.PD = r.Chance(0.8)
			o.Log = o.PD && r.Bool()
		}
		var is *determinant.InSitu
		ncalls := 1
		if r.Chance(0.35) {
			o.InSitu = true
			is = &determinant.InSitu{}
			ncalls = 2
		}
		// scaled operands A*s and larger n (own random stream: the operands of the
		// unit-scale cases are what they were): the determinant leaves the float
		// range, the log-determinant must not
		sr := prng.For(cs.C.Seed, "det.scale", cs.Index)
		scale, scaleClass := 1.0, ""
		switch k := sr.Intn(10); {
		case k < 4 && structure != "integer":
			if t.F32 {
				scale = []float64{1e-30, 1e-15, 1e-5, 1e5, 1e15, 1e30}[sr.Intn(6)]
			} else {
				scale = []float64{1e-200, 1e-100, 1e-30, 1e-8, 1e8, 1e30, 1e100, 1e200}[sr.Intn(8)]
			}
		case k == 4 && structure == "spd":
			// the Cholesky routes are O(n^3): larger n is affordable there
			o.PD = true
			o.Log = sr.Chance(0.7)
			n = []int{12, 24, 48}[sr.Intn(3)]
			if t.F32 {
				scale = []float64{1e-3, 1, 1e3}[sr.Intn(3)]
			} else {
				scale = []float64{1e-6, 1e-3, 1, 1e3, 1e6}[sr.Intn(5)]
			}
			scaleClass = "n>=12"
		}
		if scale < 1 {
			scaleClass = classString(scaleClass, "scale=tiny")
		} else if scale > 1 {
			scaleClass = classString(scaleClass, "scale=huge")
		}
		cs.Cover(fmt.Sprintf("det-scale:%s/%g", map[bool]string{true: "32-bit", false: "64-bit"}[t.F32], scale))
		for call := 0; call < ncalls; call++ {
			A0 := genMatrix(structure, n, t, r)
			for i := range A0.A {
				A0.A[i] *= scale
			}
			A := image(t, A0)
			callClass := ""
			if is != nil {
				callClass = []string{"first-use", "reused"}[call]
			}
			cs.Cover("call:determinant/" + t.Name)
			cs.Cover("opts:determinant/" + o.String())
			cs.Cover("structure:" + structure)
			if call == 0 {
				if sampleWorthy(map[string]any{"type": t.Name, "structure": structure, "opts": o.String(), "A": A.Rows()}) {
					cs.Sample(map[string]any{"type": t.Name, "structure": structure, "opts": o.String(), "A": A.Rows()})
				}
			}
			d, out := detCall(t, A, o, is)
			v := checkDet(cs, t, A, o, d, out)
			if v.Skipped {
				cs.Skip("ill-conditioned")
				continue
			}
			cs.Cover("judged:det")
			if n >= 2 {
				cs.Nontrivial("det", t.Name, o.String(), fmt.Sprint(A.A))
			}
			if v.Kind == "" {
				continue
			}
			opts := o.String()
			if is != nil {
				// localisation: same verdict with fresh buffers?
				o2 := o
				o2.InSitu = false
				d2, out2 := detCall(t, A, o2, nil)
				if c2 := checkDet(cs, t, A, o2, d2, out2); c2.Kind == v.Kind {
					opts, callClass = o2.String(), ""
				}
			}
			sc := "general"
			if o.PD {
				sc = "spd"
			}
			wit := merge(map[string]any{"A": A.Rows(), "type": t.Name, "opts": o.String(), "structure": structure, "call": callClass, "scale": scale}, v.Wit)
			cs.Violation(sig("det", "determinant", opts, t.Name, classString(sc, scaleClass, callClass), v.Kind),
				fmt.Sprintf("determinant(%s) %s %s", o.String(), t.Name, v.Detail), wit)
		}
	})

	/* (6) structurally singular inputs */
	c.Cases("singular", c.N(4800, 96000), func(cs *fw.Case) {
		r := cs.R
		t := types[cs.Index%len(types)]
		kind := singularKinds[(cs.Index/len(types))%len(singularKinds)]
		routine := []string{"matrixInverse", "matrixInverse", "gaussJordan", "backSubstitution", "determinant"}[(cs.Index/(len(types)*len(singularKinds)))%5]
		n := 1 + r.Intn(6)
		switch routine {
		case "matrixInverse":
			o := invOpts{}
			structure := []string{"svals", "integer", "spd", "upper", "sparse-pattern"}[r.Intn(5)]
			if structure == "spd" {
				o.PD = r.Chance(0.7)
			}
			if structure == "upper" {
				o.UT = true
			}
			base := genMatrix(structure, n, t, r)
			S := image(t, makeSingular(kind, base, r, structure == "spd", structure == "upper"))
			if r.Chance(0.25) && n >= 2 {
				// the singular block is the selected one
				o.Mask = make([]bool, n+1)
				for i := 0; i < n; i++ {
					o.Mask[i] = true
				}
				big := la.Identity(n + 1)
				for i := 0; i < n; i++ {
					for j := 0; j < n; j++ {
						big.Set(i, j, S.At(i, j))
					}
				}
				if !o.UT {
					big.Set(n, 0, 0.5)
				}
				big.Set(0, n, 0.5)
				S = big
			}
			if r.Chance(0.3) {
				o.InSitu = "empty"
			}
			sk := kind
			if o.UT {
				sk = map[string]string{"zero-row": "zero-diagonal(last)", "zero-column": "zero-diagonal(first)", "identical-rows": "zero-diagonal(any)"}[kind]
			}
			opts := o.String()
			cs.Cover("call:matrixInverse/" + t.Name + "/singular")
			cs.Cover("singular:" + routine + "/" + o.path() + "/" + sk)
			if sampleWorthy(map[string]any{"routine": routine, "type": t.Name, "kind": sk, "opts": opts, "A": S.Rows()}) {
				cs.Sample(map[string]any{"routine": routine, "type": t.Name, "kind": sk, "opts": opts, "A": S.Rows()})
			}
			X, out := callInverse(t, S, o, newInvInSitu(o.InSitu, t, S.R))
			wit := map[string]any{"A": S.Rows(), "type": t.Name, "opts": opts, "mask": maskString(o.Mask), "structure": structure}
			fin := false
			if X != nil {
				wit["X"] = X.Rows()
				fin = X.Finite()
			}
			finiteOutcome(cs, routine, optString(o.path()), t, sk, out, fin, wit)
			cs.Nontrivial("sing", routine, t.Name, opts, fmt.Sprint(S.A))
		case "gaussJordan":
			structure := []string{"svals", "integer", "upper", "sparse-pattern"}[r.Intn(4)]
			ut := structure == "upper"
			base := genMatrix(structure, n, t, r)
			S := image(t, makeSingular(kind, base, r, false, ut))
			b := imageVec(t, genRHS([]string{"random", "unit", "zero"}[r.Intn(3)], n, r))
			var args []interface{}
			opts, sk := "general", kind
			if ut {
				args = append(args, gaussJordan.UpperTriangular{Value: true})
				opts = "UpperTriangular"
				sk = map[string]string{"zero-row": "zero-diagonal(last)", "zero-column": "zero-diagonal(first)", "identical-rows": "zero-diagonal(any)"}[kind]
			}
			a := build(t, S)
			x := ad.NullDenseMatrix(t.T, n, n)
			x.SetIdentity()
			bv := buildVec(t, b)
			var out outcome
			out.Panic = fw.Call(func() { out.Err = gaussJordan.Run(a, x, bv, args...) })
			X := read(x)
			xs := readVec(bv)
			wit := map[string]any{"A": S.Rows(), "type": t.Name, "opts": opts, "b": b, "X": X.Rows(), "x": xs, "structure": structure}
			cs.Cover("call:gaussJordan/" + t.Name + "/singular")
			cs.Cover("singular:" + routine + "/" + opts + "/" + sk)
			finiteOutcome(cs, routine, opts, t, sk, out, X.Finite() && la.VecFinite(xs), wit)
			cs.Nontrivial("sing", routine, t.Name, opts, fmt.Sprint(S.A))
		case "backSubstitution":
			base := genMatrix("upper", n, t, r)
			S := image(t, makeSingular(kind, base, r, false, true))
			b := imageVec(t, genRHS([]string{"random", "unit", "zero"}[r.Intn(3)], n, r))
			x, out := backsubCall(t, S, b, nil)
			wit := map[string]any{"R": S.Rows(), "type": t.Name, "b": b, "x": x}
			cs.Cover("call:backSubstitution/" + t.Name + "/singular")
			cs.Cover("singular:" + routine + "/zero-diagonal")
			finiteOutcome(cs, routine, "default", t, "zero-diagonal", out, x != nil && la.VecFinite(x), wit)
			cs.Nontrivial("sing", routine, t.Name, fmt.Sprint(S.A))
		default: // determinant: 0 is the answer; an error / non-finite value is accepted for the Cholesky route
			pd := r.Bool()
			structure := "integer"
			if n > 5 {
				n = 5
			}
			base := genMatrix(structure, n, t, r)
			if pd { // integer-valued Gram matrix: the singular matrix is exactly singular
				structure = "spd"
				B := la.New(n, n)
				for i := range B.A {
					B.A[i] = float64(r.Range(-3, 3))
				}
				base = la.Mul(B.T(), B)
				for i := 0; i < n; i++ {
					base.Set(i, i, base.At(i, i)+1)
				}
			}
			S := image(t, makeSingular(kind, base, r, pd, false))
			o := detOpts{PD: pd, Log: pd && r.Bool()}
			d, out := detCall(t, S, o, nil)
			opts := o.String()
			wit := map[string]any{"A": S.Rows(), "type": t.Name, "opts": opts, "observed": d, "outcome": out.String()}
			cs.Cover("call:determinant/" + t.Name + "/singular")
			cs.Cover("singular:" + routine + "/" + opts + "/" + kind)
			cs.Nontrivial("sing", routine, t.Name, opts, fmt.Sprint(S.A))
			if out.failed() || math.IsNaN(d) || math.IsInf(d, 0) {
				if !pd {
					cs.Violation(sig("singular", "determinant", opts, t.Name, kind, "rejected"),
						fmt.Sprintf("determinant(%s) %s on a singular integer matrix: %s, value %g; expected 0", opts, t.Name, out, d), wit)
				} else {
					cs.Cover("singular-outcome:rejected-or-non-finite")
				}
				return
			}
			cs.Cover("singular-outcome:det-value-judged")
			if o.Log {
				// a finite log-determinant far above log(eps * Hadamard bound) claims a positive determinant
				hadamard := 0.0
				for i := 0; i < S.R; i++ {
					hadamard += math.Log(math.Max(S.At(i, i), 1e-300))
				}
				if d > hadamard+math.Log(cDet*float64(n)*t.Eps) {
					cs.Violation(sig("singular", "determinant", opts, t.Name, kind, "finite-on-singular"),
						fmt.Sprintf("determinant(%s) %s: log-determinant %g of an exactly singular matrix (log of the Hadamard bound %g)", opts, t.Name, d, hadamard), wit)
				}
				return
			}
			if !pd {
				if d != 0 && la.PermanentAbs(S) < t.Mant {
					cs.Violation(sig("singular", "determinant", opts, t.Name, kind, "value(exact)"),
						fmt.Sprintf("determinant(%s) %s: %g for an exactly singular integer matrix whose expansion is exact", opts, t.Name, d), wit)
				}
				return
			}
			hadamard := 1.0
			for i := 0; i < S.R; i++ {
				hadamard *= S.At(i, i)
			}
			if math.Abs(d) > cDet*float64(n)*t.Eps*hadamard {
				cs.Violation(sig("singular", "determinant", opts, t.Name, kind, "value"),
					fmt.Sprintf("determinant(%s) %s: %g for an exactly singular positive semi-definite matrix (Hadamard bound %g)", opts, t.Name, d, hadamard), wit)
			}
		}
	})
}

// sampleWorthy: write out only cases whose operand has at least three rows
// (the evidence keeps the first two samples per case list).
func sampleWorthy(v map[string]any) bool {
	for _, k := range []string{"A", "R"} {
		if rows, ok := v[k].([][]float64); ok {
			return len(rows) >= 3
		}
	}
	return true
}
