// Package views builds operands and caller-supplied buffers that are views of
// a larger parent: Slice() windows with non-zero row and column offsets inside
// a workspace whose cells outside the window hold a sentinel, transposed views,
// and both combined.  A Guard verifies afterwards that the parent outside the
// window is unchanged.  Shared by the C04 and C05 monitors.
package views

import (
	"fmt"

	ad "github.com/pbenner/autodiff"

	"verifharness/c04/la"
	"verifharness/internal/prng"
)

// Kinds of matrix operands.
var MatrixKinds = []string{"own", "slice", "transposed", "slice-transposed"}

const Sentinel = -77.0

// Guard remembers a parent and the window a view occupies in it.
type Guard struct {
	Name           string
	Kind           string
	pm             ad.Matrix
	pv             ad.Vector
	r0, r1, c0, c1 int // window in parent coordinates (vectors: r0..r1)
}

// Check returns "" when every parent cell outside the window still holds the sentinel.
func (g *Guard) Check() string {
	if g == nil {
		return ""
	}
	if g.pm != nil {
		n, m := g.pm.Dims()
		for i := 0; i < n; i++ {
			for j := 0; j < m; j++ {
				if i >= g.r0 && i < g.r1 && j >= g.c0 && j < g.c1 {
					continue
				}
				if v := g.pm.ConstAt(i, j).GetFloat64(); v != Sentinel {
					return fmt.Sprintf("%s (%s): parent cell (%d,%d) outside the window rows %d..%d, columns %d..%d changed from %g to %g", g.Name, g.Kind, i, j, g.r0, g.r1-1, g.c0, g.c1-1, Sentinel, v)
				}
			}
		}
	}
	if g.pv != nil {
		for i := 0; i < g.pv.Dim(); i++ {
			if i >= g.r0 && i < g.r1 {
				continue
			}
			if v := g.pv.ConstAt(i).GetFloat64(); v != Sentinel {
				return fmt.Sprintf("%s (%s): parent element %d outside the window %d..%d changed from %g to %g", g.Name, g.Kind, i, g.r0, g.r1-1, Sentinel, v)
			}
		}
	}
	return ""
}

// CheckAll returns the first complaint of a list of guards.
func CheckAll(gs []*Guard) string {
	for _, g := range gs {
		if s := g.Check(); s != "" {
			return s
		}
	}
	return ""
}

func window(t ad.ScalarType, rows, cols int, r *prng.Rand, name, kind string) (ad.Matrix, *Guard) {
	ro, co := r.Range(1, 2), r.Range(1, 2)
	re, ce := r.Range(0, 2), r.Range(1, 2) // the parent is always wider than the window (row stride != window width)
	p := ad.NullDenseMatrix(t, rows+ro+re, cols+co+ce)
	n, m := p.Dims()
	for i := 0; i < n; i++ {
		for j := 0; j < m; j++ {
			p.At(i, j).SetFloat64(Sentinel)
		}
	}
	g := &Guard{Name: name, Kind: kind, pm: p, r0: ro, r1: ro + rows, c0: co, c1: co + cols}
	return p.Slice(ro, ro+rows, co, co+cols), g
}

// Matrix returns a matrix of the given kind holding the values of m.
func Matrix(t ad.ScalarType, m *la.Mat, kind string, r *prng.Rand, name string) (ad.Matrix, *Guard) {
	var v ad.Matrix
	var g *Guard
	switch kind {
	case "slice":
		v, g = window(t, m.R, m.C, r, name, kind)
	case "transposed":
		v = ad.NullDenseMatrix(t, m.C, m.R).T()
	case "slice-transposed":
		w, gg := window(t, m.C, m.R, r, name, kind)
		v, g = w.T(), gg
	default:
		v = ad.NullDenseMatrix(t, m.R, m.C)
	}
	for i := 0; i < m.R; i++ {
		for j := 0; j < m.C; j++ {
			v.At(i, j).SetFloat64(m.At(i, j))
		}
	}
	return v, g
}

// Vector returns a dense vector ("own") or a Slice of a longer one ("slice") holding x.
func Vector(t ad.ScalarType, x []float64, kind string, r *prng.Rand, name string) (ad.Vector, *Guard) {
	if kind != "slice" {
		v := ad.NullDenseVector(t, len(x))
		for i, a := range x {
			v.At(i).SetFloat64(a)
		}
		return v, nil
	}
	lo, hi := r.Range(1, 3), r.Range(1, 3)
	p := ad.NullDenseVector(t, len(x)+lo+hi)
	for i := 0; i < p.Dim(); i++ {
		p.At(i).SetFloat64(Sentinel)
	}
	v := p.Slice(lo, lo+len(x))
	for i, a := range x {
		v.At(i).SetFloat64(a)
	}
	return v, &Guard{Name: name, Kind: kind, pv: p, r0: lo, r1: lo + len(x)}
}

// PickMatrix draws a matrix kind (views with probability 3/4).
func PickMatrix(r *prng.Rand) string { return MatrixKinds[r.Intn(len(MatrixKinds))] }

// PickVector draws a vector kind.
func PickVector(r *prng.Rand) string { return []string{"own", "slice"}[r.Intn(2)] }

// Junk returns an r x c matrix of unrelated numbers (old buffer content).
func Junk(rows, cols int) *la.Mat {
	m := la.New(rows, cols)
	for i := range m.A {
		m.A[i] = 7 + float64(i)
	}
	return m
}
