// Package la holds the small, independent float64 reference routines that the
// C04 and C05 monitors use as oracles: dense matrix arithmetic, norms, LU with
// partial pivoting (inverse, determinant, kappa_inf), the exact Bareiss
// determinant on big.Int, cyclic Jacobi for symmetric eigenvalues, one-sided
// Jacobi for singular values, orthogonality / band-structure checks and the
// matrix generators (random orthogonal factors, prescribed spectra, pivot
// orders).  It does not import the library under test.
package la

import (
	"math"
	"math/big"
	"sort"

	"verifharness/internal/prng"
)

// Mat is a dense row-major matrix.
type Mat struct {
	R, C int
	A    []float64
}

func New(r, c int) *Mat { return &Mat{R: r, C: c, A: make([]float64, r*c)} }

func FromRows(rows [][]float64) *Mat {
	m := New(len(rows), len(rows[0]))
	for i, r := range rows {
		copy(m.A[i*m.C:(i+1)*m.C], r)
	}
	return m
}

func Identity(n int) *Mat {
	m := New(n, n)
	for i := 0; i < n; i++ {
		m.A[i*n+i] = 1
	}
	return m
}

func Diag(d []float64) *Mat {
	m := New(len(d), len(d))
	for i, v := range d {
		m.A[i*len(d)+i] = v
	}
	return m
}

func (m *Mat) At(i, j int) float64     { return m.A[i*m.C+j] }
func (m *Mat) Set(i, j int, v float64) { m.A[i*m.C+j] = v }
func (m *Mat) Clone() *Mat {
	c := New(m.R, m.C)
	copy(c.A, m.A)
	return c
}

func (m *Mat) Rows() [][]float64 {
	r := make([][]float64, m.R)
	for i := range r {
		r[i] = append([]float64(nil), m.A[i*m.C:(i+1)*m.C]...)
	}
	return r
}

func (m *Mat) T() *Mat {
	t := New(m.C, m.R)
	for i := 0; i < m.R; i++ {
		for j := 0; j < m.C; j++ {
			t.A[j*m.R+i] = m.A[i*m.C+j]
		}
	}
	return t
}

// Mul returns a*b.
func Mul(a, b *Mat) *Mat {
	if a.C != b.R {
		panic("la.Mul: dimension mismatch")
	}
	r := New(a.R, b.C)
	for i := 0; i < a.R; i++ {
		for k := 0; k < a.C; k++ {
			x := a.A[i*a.C+k]
			if x == 0 {
				continue
			}
			for j := 0; j < b.C; j++ {
				r.A[i*b.C+j] += x * b.A[k*b.C+j]
			}
		}
	}
	return r
}

// MulNaive multiplies without skipping zeros (NaN/Inf propagate).
func MulNaive(a, b *Mat) *Mat {
	r := New(a.R, b.C)
	for i := 0; i < a.R; i++ {
		for j := 0; j < b.C; j++ {
			s := 0.0
			for k := 0; k < a.C; k++ {
				s += a.A[i*a.C+k] * b.A[k*b.C+j]
			}
			r.A[i*b.C+j] = s
		}
	}
	return r
}

func Sub(a, b *Mat) *Mat {
	r := New(a.R, a.C)
	for i := range r.A {
		r.A[i] = a.A[i] - b.A[i]
	}
	return r
}

func MulVec(a *Mat, x []float64) []float64 {
	r := make([]float64, a.R)
	for i := 0; i < a.R; i++ {
		s := 0.0
		for j := 0; j < a.C; j++ {
			s += a.A[i*a.C+j] * x[j]
		}
		r[i] = s
	}
	return r
}

// Sub-block selected by index lists.
func (m *Mat) Select(rows, cols []int) *Mat {
	r := New(len(rows), len(cols))
	for i, a := range rows {
		for j, b := range cols {
			r.A[i*r.C+j] = m.At(a, b)
		}
	}
	return r
}

/* norms
 * -------------------------------------------------------------------------- */

func (m *Mat) MaxAbs() float64 {
	x := 0.0
	for _, v := range m.A {
		if a := math.Abs(v); a > x || math.IsNaN(a) {
			x = a
		}
	}
	return x
}

func (m *Mat) NormInf() float64 {
	x := 0.0
	for i := 0; i < m.R; i++ {
		s := 0.0
		for j := 0; j < m.C; j++ {
			s += math.Abs(m.A[i*m.C+j])
		}
		if s > x || math.IsNaN(s) {
			x = s
		}
	}
	return x
}

func (m *Mat) NormFro() float64 {
	s := 0.0
	for _, v := range m.A {
		s += v * v
	}
	return math.Sqrt(s)
}

func (m *Mat) Finite() bool {
	for _, v := range m.A {
		if math.IsNaN(v) || math.IsInf(v, 0) {
			return false
		}
	}
	return true
}

func VecFinite(x []float64) bool {
	for _, v := range x {
		if math.IsNaN(v) || math.IsInf(v, 0) {
			return false
		}
	}
	return true
}

func VecMaxAbs(x []float64) float64 {
	r := 0.0
	for _, v := range x {
		if a := math.Abs(v); a > r || math.IsNaN(a) {
			r = a
		}
	}
	return r
}

func VecNorm2(x []float64) float64 {
	s := 0.0
	for _, v := range x {
		s += v * v
	}
	return math.Sqrt(s)
}

/* LU with partial pivoting
 * -------------------------------------------------------------------------- */

type LU struct {
	N        int
	F        *Mat  // L (unit, below diagonal) and U
	Piv      []int // row of the input that became row i
	Sign     float64
	Singular bool // an exactly zero pivot column was met
}

// Factor computes PA = LU with partial pivoting (first maximal entry wins,
// as in the library's virtual row interchange).
func Factor(a *Mat) *LU {
	n := a.R
	f := a.Clone()
	lu := &LU{N: n, F: f, Piv: make([]int, n), Sign: 1}
	for i := range lu.Piv {
		lu.Piv[i] = i
	}
	for k := 0; k < n; k++ {
		p := k
		for i := k + 1; i < n; i++ {
			if math.Abs(f.A[i*n+k]) > math.Abs(f.A[p*n+k]) {
				p = i
			}
		}
		if f.A[p*n+k] == 0 || math.IsNaN(f.A[p*n+k]) {
			lu.Singular = true
			continue
		}
		if p != k {
			for j := 0; j < n; j++ {
				f.A[k*n+j], f.A[p*n+j] = f.A[p*n+j], f.A[k*n+j]
			}
			lu.Piv[k], lu.Piv[p] = lu.Piv[p], lu.Piv[k]
			lu.Sign = -lu.Sign
		}
		for i := k + 1; i < n; i++ {
			l := f.A[i*n+k] / f.A[k*n+k]
			f.A[i*n+k] = l
			if l == 0 {
				continue
			}
			for j := k + 1; j < n; j++ {
				f.A[i*n+j] -= l * f.A[k*n+j]
			}
		}
	}
	return lu
}

// Solve returns x with A x = b.
func (lu *LU) Solve(b []float64) []float64 {
	n := lu.N
	x := make([]float64, n)
	for i := 0; i < n; i++ {
		s := b[lu.Piv[i]]
		for j := 0; j < i; j++ {
			s -= lu.F.A[i*n+j] * x[j]
		}
		x[i] = s
	}
	for i := n - 1; i >= 0; i-- {
		s := x[i]
		for j := i + 1; j < n; j++ {
			s -= lu.F.A[i*n+j] * x[j]
		}
		x[i] = s / lu.F.A[i*n+i]
	}
	return x
}

func (lu *LU) Inverse() *Mat {
	n := lu.N
	inv := New(n, n)
	e := make([]float64, n)
	for j := 0; j < n; j++ {
		for i := range e {
			e[i] = 0
		}
		e[j] = 1
		x := lu.Solve(e)
		for i := 0; i < n; i++ {
			inv.A[i*n+j] = x[i]
		}
	}
	return inv
}

func (lu *LU) Det() float64 {
	if lu.Singular {
		return 0
	}
	d := lu.Sign
	for i := 0; i < lu.N; i++ {
		d *= lu.F.A[i*lu.N+i]
	}
	return d
}

// LogAbsDet returns log|det| and the sum of |log|u_ii|| (the scale of the
// rounding error of a log-determinant).
func (lu *LU) LogAbsDet() (float64, float64) {
	s, a := 0.0, 0.0
	for i := 0; i < lu.N; i++ {
		l := math.Log(math.Abs(lu.F.A[i*lu.N+i]))
		s += l
		a += math.Abs(l)
	}
	return s, a
}

// CondInf returns kappa_inf(A) = |A|_inf |A^-1|_inf (+Inf when singular) and
// the reference inverse.
func CondInf(a *Mat) (float64, *Mat) {
	lu := Factor(a)
	if lu.Singular {
		return math.Inf(1), nil
	}
	inv := lu.Inverse()
	if !inv.Finite() {
		return math.Inf(1), nil
	}
	return a.NormInf() * inv.NormInf(), inv
}

// PivotOrder replays the library's virtual partial pivoting (restricted to the
// rows/columns with mask[i] true; nil = all) on a copy of a, rounding every
// operation with rnd (identity for float64, float32 rounding for the 32-bit
// element types; the operation order c = a_ji/a_ii, t = a_ik*c, a_jk -= t is
// the one of the elimination under test), and returns the permutation vector p
// (p[i] = physical row that became pivot row i) and the smallest margin
// |pivot| / |runner-up| > 1 seen (exact ties are resolved like the library
// does: the first maximal row wins).
func PivotOrder(a *Mat, mask []bool, rnd func(float64) float64) ([]int, float64) {
	if rnd == nil {
		rnd = func(x float64) float64 { return x }
	}
	n := a.R
	f := a.Clone()
	p := make([]int, n)
	for i := range p {
		p[i] = i
	}
	on := func(i int) bool { return mask == nil || mask[i] }
	margin := math.Inf(1)
	for i := 0; i < n; i++ {
		if !on(i) {
			continue
		}
		mx := i
		for j := i + 1; j < n; j++ {
			if on(j) && math.Abs(f.At(p[j], i)) > math.Abs(f.At(p[mx], i)) {
				mx = j
			}
		}
		best := math.Abs(f.At(p[mx], i))
		for j := i; j < n; j++ {
			if on(j) && j != mx {
				if v := math.Abs(f.At(p[j], i)); v > 0 && v != best {
					if best/v < margin {
						margin = best / v
					}
				}
			}
		}
		p[i], p[mx] = p[mx], p[i]
		if best == 0 {
			continue
		}
		for j := i + 1; j < n; j++ {
			if !on(j) {
				continue
			}
			c := rnd(f.At(p[j], i) / f.At(p[i], i))
			for k := i; k < n; k++ {
				if on(k) {
					t := rnd(f.At(p[i], k) * c)
					f.Set(p[j], k, rnd(f.At(p[j], k)-t))
				}
			}
		}
	}
	return p, margin
}

// CycleClass names the cycle type of a permutation: identity, involution
// (only fixed points and 2-cycles) or non-involution.
func CycleClass(p []int) string {
	id, inv := true, true
	for i, v := range p {
		if v != i {
			id = false
		}
		if p[v] != i {
			inv = false
		}
	}
	switch {
	case id:
		return "identity"
	case inv:
		return "involution"
	}
	return "non-involution"
}

// Perms lists all permutations of 0..n-1 in lexicographic order.
func Perms(n int) [][]int {
	var out [][]int
	p := make([]int, n)
	used := make([]bool, n)
	var rec func(k int)
	rec = func(k int) {
		if k == n {
			out = append(out, append([]int(nil), p...))
			return
		}
		for v := 0; v < n; v++ {
			if !used[v] {
				used[v] = true
				p[k] = v
				rec(k + 1)
				used[v] = false
			}
		}
	}
	rec(0)
	return out
}

/* exact determinant
 * -------------------------------------------------------------------------- */

// IsIntegral reports whether all entries are integers of magnitude < 2^31.
func (m *Mat) IsIntegral() bool {
	for _, v := range m.A {
		if v != math.Trunc(v) || math.Abs(v) >= 1<<31 {
			return false
		}
	}
	return true
}

// Bareiss computes the determinant of an integer-valued matrix exactly.
func Bareiss(a *Mat) *big.Int {
	n := a.R
	m := make([][]*big.Int, n)
	for i := range m {
		m[i] = make([]*big.Int, n)
		for j := range m[i] {
			m[i][j] = big.NewInt(int64(a.At(i, j)))
		}
	}
	sign := 1
	prev := big.NewInt(1)
	for k := 0; k < n-1; k++ {
		if m[k][k].Sign() == 0 {
			sw := -1
			for i := k + 1; i < n; i++ {
				if m[i][k].Sign() != 0 {
					sw = i
					break
				}
			}
			if sw < 0 {
				return big.NewInt(0)
			}
			m[k], m[sw] = m[sw], m[k]
			sign = -sign
		}
		for i := k + 1; i < n; i++ {
			for j := k + 1; j < n; j++ {
				t1 := new(big.Int).Mul(m[i][j], m[k][k])
				t2 := new(big.Int).Mul(m[i][k], m[k][j])
				t1.Sub(t1, t2)
				t1.Quo(t1, prev)
				m[i][j] = t1
			}
		}
		prev = m[k][k]
	}
	d := new(big.Int).Set(m[n-1][n-1])
	if sign < 0 {
		d.Neg(d)
	}
	return d
}

// PermanentAbs returns perm(|A|), an upper bound of every intermediate value
// of a cofactor expansion of det A (Ryser-free plain recursion; n <= 8).
func PermanentAbs(a *Mat) float64 {
	n := a.R
	used := make([]bool, n)
	var rec func(i int) float64
	rec = func(i int) float64 {
		if i == n {
			return 1
		}
		s := 0.0
		for j := 0; j < n; j++ {
			if !used[j] {
				if v := math.Abs(a.At(i, j)); v != 0 {
					used[j] = true
					s += v * rec(i+1)
					used[j] = false
				}
			}
		}
		return s
	}
	return rec(0)
}

/* symmetric eigenvalues (cyclic Jacobi) and singular values (one-sided Jacobi)
 * -------------------------------------------------------------------------- */

// SymEig returns the eigenvalues (ascending) and eigenvectors (columns, same
// order) of a symmetric matrix.
func SymEig(s *Mat) ([]float64, *Mat) {
	n := s.R
	a := s.Clone()
	v := Identity(n)
	// off-diagonal entries below eps/2 * |S|_F / n are dropped instead of rotated away: rotating on rounding
	// noise (huge angles between numerically equal diagonal entries) for up to 60 sweeps accumulated errors of
	// 1e-14 in the eigenvalues of matrices with repeated eigenvalues; dropping perturbs them by <= eps/2 * |S|_F
	thr := 1.1e-16 * s.NormFro() / float64(n)
	for sweep := 0; sweep < 60; sweep++ {
		off := 0.0
		for i := 0; i < n; i++ {
			for j := i + 1; j < n; j++ {
				off += a.At(i, j) * a.At(i, j)
			}
		}
		if off == 0 {
			break
		}
		for p := 0; p < n; p++ {
			for q := p + 1; q < n; q++ {
				apq := a.At(p, q)
				if apq == 0 {
					continue
				}
				app, aqq := a.At(p, p), a.At(q, q)
				if math.Abs(apq) < 1e-300 || math.Abs(apq) <= thr {
					a.Set(p, q, 0)
					a.Set(q, p, 0)
					continue
				}
				theta := (aqq - app) / (2 * apq)
				var t float64
				if math.IsInf(theta, 0) {
					t = 0
				} else if theta >= 0 {
					t = 1 / (theta + math.Sqrt(1+theta*theta))
				} else {
					t = -1 / (-theta + math.Sqrt(1+theta*theta))
				}
				c := 1 / math.Sqrt(1+t*t)
				sn := t * c
				for k := 0; k < n; k++ {
					akp, akq := a.At(k, p), a.At(k, q)
					a.Set(k, p, c*akp-sn*akq)
					a.Set(k, q, sn*akp+c*akq)
				}
				for k := 0; k < n; k++ {
					apk, aqk := a.At(p, k), a.At(q, k)
					a.Set(p, k, c*apk-sn*aqk)
					a.Set(q, k, sn*apk+c*aqk)
				}
				a.Set(p, q, 0)
				a.Set(q, p, 0)
				for k := 0; k < n; k++ {
					vkp, vkq := v.At(k, p), v.At(k, q)
					v.Set(k, p, c*vkp-sn*vkq)
					v.Set(k, q, sn*vkp+c*vkq)
				}
			}
		}
	}
	idx := make([]int, n)
	for i := range idx {
		idx[i] = i
	}
	sort.SliceStable(idx, func(x, y int) bool { return a.At(idx[x], idx[x]) < a.At(idx[y], idx[y]) })
	ev := make([]float64, n)
	vec := New(n, n)
	for k, i := range idx {
		ev[k] = a.At(i, i)
		for r := 0; r < n; r++ {
			vec.Set(r, k, v.At(r, i))
		}
	}
	return ev, vec
}

// SingularValues returns the singular values (descending) of an m x n matrix,
// m >= n or not, by one-sided Jacobi on the columns.
func SingularValues(a *Mat) []float64 {
	w := a
	if a.R < a.C {
		w = a.T()
	}
	u := w.Clone()
	m, n := u.R, u.C
	for sweep := 0; sweep < 60; sweep++ {
		rotated := false
		for p := 0; p < n; p++ {
			for q := p + 1; q < n; q++ {
				alpha, beta, gamma := 0.0, 0.0, 0.0
				for k := 0; k < m; k++ {
					x, y := u.At(k, p), u.At(k, q)
					alpha += x * x
					beta += y * y
					gamma += x * y
				}
				// columns orthogonal to eps/2 are left alone (see SymEig: rotating on rounding noise loses digits)
				if gamma == 0 || math.Abs(gamma) <= 1.1e-16*math.Sqrt(alpha*beta) {
					continue
				}
				rotated = true
				zeta := (beta - alpha) / (2 * gamma)
				var t float64
				if zeta >= 0 {
					t = 1 / (zeta + math.Sqrt(1+zeta*zeta))
				} else {
					t = -1 / (-zeta + math.Sqrt(1+zeta*zeta))
				}
				c := 1 / math.Sqrt(1+t*t)
				s := c * t
				for k := 0; k < m; k++ {
					x, y := u.At(k, p), u.At(k, q)
					u.Set(k, p, c*x-s*y)
					u.Set(k, q, s*x+c*y)
				}
			}
		}
		if !rotated {
			break
		}
	}
	sv := make([]float64, n)
	for j := 0; j < n; j++ {
		s := 0.0
		for k := 0; k < m; k++ {
			s += u.At(k, j) * u.At(k, j)
		}
		sv[j] = math.Sqrt(s)
	}
	sort.Sort(sort.Reverse(sort.Float64Slice(sv)))
	return sv
}

// Cond2 returns sigma_max/sigma_min (+Inf for rank-deficient input).
func Cond2(a *Mat) float64 {
	sv := SingularValues(a)
	if len(sv) == 0 {
		return 1
	}
	if sv[len(sv)-1] == 0 {
		return math.Inf(1)
	}
	return sv[0] / sv[len(sv)-1]
}

/* structure checks
 * -------------------------------------------------------------------------- */

// OrthoDefect returns max|Q^T Q - I|.
func OrthoDefect(q *Mat) float64 {
	g := MulNaive(q.T(), q)
	d := 0.0
	for i := 0; i < g.R; i++ {
		for j := 0; j < g.C; j++ {
			e := g.At(i, j)
			if i == j {
				e -= 1
			}
			if a := math.Abs(e); a > d || math.IsNaN(a) {
				d = a
			}
		}
	}
	return d
}

// OffBand returns the largest |m[i][j]| with j-i outside [-lower, upper].
func OffBand(m *Mat, lower, upper int) float64 {
	d := 0.0
	for i := 0; i < m.R; i++ {
		for j := 0; j < m.C; j++ {
			if j-i > upper || i-j > lower {
				if a := math.Abs(m.At(i, j)); a > d || math.IsNaN(a) {
					d = a
				}
			}
		}
	}
	return d
}

func (m *Mat) IsSymmetric() bool {
	for i := 0; i < m.R; i++ {
		for j := 0; j < i; j++ {
			if m.At(i, j) != m.At(j, i) {
				return false
			}
		}
	}
	return true
}

// Symmetrize overwrites the upper triangle with the lower one.
func (m *Mat) Symmetrize() {
	for i := 0; i < m.R; i++ {
		for j := 0; j < i; j++ {
			m.Set(j, i, m.At(i, j))
		}
	}
}

/* generators
 * -------------------------------------------------------------------------- */

// RandOrth draws an n x n orthogonal matrix (Householder QR of a Gaussian
// matrix, accumulated explicitly).
func RandOrth(n int, r *prng.Rand) *Mat {
	q := Identity(n)
	v := make([]float64, n)
	for k := 0; k < n-1; k++ {
		// random reflector acting on coordinates k..n-1
		s := 0.0
		for i := k; i < n; i++ {
			v[i] = r.Norm()
			s += v[i] * v[i]
		}
		if s == 0 {
			continue
		}
		// q <- q (I - 2 v v^T / s)
		for i := 0; i < n; i++ {
			d := 0.0
			for j := k; j < n; j++ {
				d += q.At(i, j) * v[j]
			}
			d = 2 * d / s
			for j := k; j < n; j++ {
				q.Set(i, j, q.At(i, j)-d*v[j])
			}
		}
	}
	if r.Bool() { // both determinant signs
		for i := 0; i < n; i++ {
			q.Set(i, 0, -q.At(i, 0))
		}
	}
	return q
}

// RandOrthCols draws an m x n matrix with orthonormal columns (m >= n).
func RandOrthCols(m, n int, r *prng.Rand) *Mat {
	q := RandOrth(m, r)
	cols := make([]int, n)
	rows := make([]int, m)
	for i := range cols {
		cols[i] = i
	}
	for i := range rows {
		rows[i] = i
	}
	return q.Select(rows, cols)
}

// WithSingularValues builds an m x n matrix U diag(s) V^T.
func WithSingularValues(m, n int, s []float64, r *prng.Rand) *Mat {
	u := RandOrthCols(m, n, r)
	v := RandOrth(n, r)
	us := u.Clone()
	for i := 0; i < m; i++ {
		for j := 0; j < n; j++ {
			us.Set(i, j, us.At(i, j)*s[j])
		}
	}
	return Mul(us, v.T())
}

// LogSpaced returns n values from hi down to lo, uniform on the log scale and
// randomly jittered in between (first = hi, last = lo).
func LogSpaced(n int, hi, lo float64, r *prng.Rand) []float64 {
	s := make([]float64, n)
	for i := range s {
		s[i] = r.LogUniform(lo, hi)
	}
	s[0] = hi
	if n > 1 {
		s[n-1] = lo
	}
	return s
}

// SymWithSpectrum builds Q diag(lambda) Q^T, exactly symmetric.
func SymWithSpectrum(lambda []float64, r *prng.Rand) *Mat {
	n := len(lambda)
	q := RandOrth(n, r)
	qd := q.Clone()
	for i := 0; i < n; i++ {
		for j := 0; j < n; j++ {
			qd.Set(i, j, qd.At(i, j)*lambda[j])
		}
	}
	a := Mul(qd, q.T())
	a.Symmetrize()
	return a
}

// PivotMatrix builds A = P (D + delta N): row p[i] of A is row i of a
// strongly diagonally dominant matrix, so that partial pivoting selects the
// physical rows in the order p.
func PivotMatrix(p []int, r *prng.Rand) *Mat {
	n := len(p)
	a := New(n, n)
	for i := 0; i < n; i++ {
		for j := 0; j < n; j++ {
			v := 0.05 * r.Uniform(-1, 1)
			if i == j {
				v = r.Uniform(1, 2)
				if r.Bool() {
					v = -v
				}
			}
			a.Set(p[i], j, v)
		}
	}
	return a
}
