package c04

import (
	"fmt"

	ad "github.com/pbenner/autodiff"
	"github.com/pbenner/autodiff/algorithm/backSubstitution"
	"github.com/pbenner/autodiff/algorithm/cholesky"
	"github.com/pbenner/autodiff/algorithm/determinant"
	"github.com/pbenner/autodiff/algorithm/gaussJordan"
	"github.com/pbenner/autodiff/algorithm/matrixInverse"

	"verifharness/c04/la"
	"verifharness/c04/views"
	"verifharness/internal/fw"
	"verifharness/internal/prng"
)

/* caller-supplied buffers, inputs and right-hand sides that are VIEWS: Slice()
 * windows of larger workspaces (non-zero row and column offsets, parent wider
 * than the window), transposed views, both combined; for A, x, b themselves
 * and for every InSitu field.  Judged by the same defining equations; in
 * addition the parent outside each window must be unchanged.  A failing case
 * is repeated with owning operands: only if the verdict differs it is
 * attributed to the views (class ",views").
 * -------------------------------------------------------------------------- */

type viewPlan map[string]string // operand name -> kind ("own" when absent)

func (p viewPlan) kind(name string, on bool) string {
	if !on {
		return "own"
	}
	if k, ok := p[name]; ok {
		return k
	}
	return "own"
}

func drawPlan(r *prng.Rand, mats, vecs []string) viewPlan {
	p := viewPlan{}
	for _, m := range mats {
		p[m] = views.PickMatrix(r)
	}
	for _, v := range vecs {
		p[v] = views.PickVector(r)
	}
	return p
}

func guardVerdict(gs []*views.Guard, v verdict) verdict {
	if s := views.CheckAll(gs); s != "" && v.Kind == "" && !v.Skipped {
		return verdict{Kind: "parent-outside-view-modified", Detail: s, Wit: map[string]any{"guard": s}}
	}
	return v
}

func coverPlan(cs *fw.Case, routine string, p viewPlan) {
	for k, v := range p {
		cs.Cover("view:" + routine + "/" + k + "=" + v)
	}
}

func runViews(c *fw.Ctx) {
	routines := []string{"matrixInverse", "matrixInverse", "gaussJordan", "gaussJordan", "backSubstitution", "determinant"}
	c.Cases("views", c.N(7200, 144000), func(cs *fw.Case) {
		r := cs.R
		t := types[cs.Index%len(types)]
		routine := routines[(cs.Index/len(types))%len(routines)]
		n := 1 + (cs.Index/(len(types)*len(routines)))%6
		seedA, seedB := r.Uint64(), r.Uint64()
		cs.Cover("call:" + routine + "/" + t.Name + "/views")
		switch routine {
		case "matrixInverse":
			structure := []string{"permuted-dominant", "permuted-dominant", "svals", "integer", "spd", "upper", "sparse-pattern"}[r.Intn(7)]
			o := invOpts{InSitu: "views"}
			if structure == "spd" {
				o.PD = r.Chance(0.7)
			}
			if structure == "upper" {
				o.UT = r.Chance(0.7)
			}
			if r.Chance(0.25) {
				o.Mask = randMask(n, r)
			}
			plan := drawPlan(r, []string{"A", "InSitu.Id", "InSitu.A", "InSitu.Cholesky.L"}, []string{"InSitu.B"})
			coverPlan(cs, routine, plan)
			mats := []*la.Mat{image(t, genMatrix(structure, n, t, r)), image(t, genMatrix(structure, n, t, r))}
			// run performs two calls in the same buffers and returns the verdicts
			run := func(on bool) []verdict {
				rr := prng.New(seedA)
				var gs []*views.Guard
				add := func(g *views.Guard) { gs = append(gs, g) }
				is := &matrixInverse.InSitu{}
				m, g := views.Matrix(t.T, views.Junk(n, n), plan.kind("InSitu.Id", on), rr, "InSitu.Id")
				is.Id = m
				add(g)
				m, g = views.Matrix(t.T, views.Junk(n, n), plan.kind("InSitu.A", on), rr, "InSitu.A")
				is.A = m
				add(g)
				bv, g := views.Vector(t.T, make([]float64, n), plan.kind("InSitu.B", on), rr, "InSitu.B")
				is.B = bv
				add(g)
				m, g = views.Matrix(t.T, la.New(n, n), plan.kind("InSitu.Cholesky.L", on), rr, "InSitu.Cholesky.L")
				is.Cholesky = cholesky.InSitu{L: m}
				add(g)
				var out []verdict
				for _, A := range mats {
					in, g := views.Matrix(t.T, A, plan.kind("A", on), rr, "A")
					X, oc := callInverseM(in, o, is)
					var v verdict
					if oc.failed() {
						S := maskIdx(o.Mask, n)
						if kappa, _ := la.CondInf(A.Select(S, S)); !(kappa <= t.KappaMax) {
							v = verdict{Skipped: true}
						} else {
							v = verdict{Kind: oc.kind(), Detail: "rejected a nonsingular matrix: " + oc.String(), Wit: map[string]any{"outcome": oc.String()}}
						}
					} else {
						v = checkInverse(t, A, X, o.Mask)
						if v.Wit != nil {
							v.Wit["X"] = X.Rows()
						}
						if v.Kind == "" && !v.Skipped && maxAbsDiffMat(read(in), A) != 0 {
							v = verdict{Kind: "input-modified", Detail: "the ConstMatrix input was modified by the call", Wit: map[string]any{}}
						}
					}
					out = append(out, guardVerdict(append(gs, g), v))
				}
				return out
			}
			pc := structure
			if !o.PD && !o.UT {
				c0, _ := pivotClass(t, mats[0], o.Mask)
				c1, _ := pivotClass(t, mats[1], o.Mask)
				cs.Cover("view-pivot:" + c0)
				cs.Cover("view-pivot:" + c1)
				pc = "pivot=any"
			}
			vs := run(true)
			var ctl []verdict
			for k, v := range vs {
				if v.Skipped {
					cs.Skip("ill-conditioned")
					continue
				}
				cs.Cover("judged:views/" + routine)
				if n >= 2 {
					cs.Nontrivial("views", routine, t.Name, o.String(), fmt.Sprint(mats[k].A), fmt.Sprint(plan))
				}
				if v.Kind == "" {
					continue
				}
				if ctl == nil {
					ctl = run(false)
				}
				mc := ""
				if o.Mask != nil {
					mc = "mask=" + maskClass(o.Mask)
				}
				class := classString(pc, mc)
				if ctl[k].Kind != v.Kind {
					class = classString(class, "views")
				}
				wit := merge(map[string]any{"A": mats[k].Rows(), "type": t.Name, "opts": o.String(), "mask": maskString(o.Mask), "views": plan, "call": k}, v.Wit)
				cs.Violation(sig("inverse", routine, o.String(), t.Name, class, v.Kind), fmt.Sprintf("matrixInverse(%s) %s with operands %v: %s", o.String(), t.Name, plan, v.Detail), wit)
			}
		case "gaussJordan":
			structure := []string{"permuted-dominant", "permuted-dominant", "svals", "integer", "upper", "sparse-pattern"}[r.Intn(6)]
			ut := structure == "upper" && r.Chance(0.7)
			var mask []bool
			if r.Chance(0.25) {
				mask = randMask(n, r)
			}
			rhs := []string{"random", "unit", "zero"}[r.Intn(3)]
			A := image(t, genMatrix(structure, n, t, r))
			b := imageVec(t, genRHS(rhs, n, r))
			plan := drawPlan(r, []string{"a", "x"}, []string{"b"})
			coverPlan(cs, routine, plan)
			var args []interface{}
			path, sub := "general", ""
			if ut {
				path = "UpperTriangular"
				args = append(args, gaussJordan.UpperTriangular{Value: true})
			}
			if mask != nil {
				sub = "Submatrix"
				args = append(args, gaussJordan.Submatrix{Value: append([]bool(nil), mask...)})
			}
			opts := optString(path, sub)
			run := func(on bool) (verdict, verdict) {
				rr := prng.New(seedB)
				a, g1 := views.Matrix(t.T, A, plan.kind("a", on), rr, "a")
				x, g2 := views.Matrix(t.T, la.Identity(n), plan.kind("x", on), rr, "x")
				bv, g3 := views.Vector(t.T, b, plan.kind("b", on), rr, "b")
				gs := []*views.Guard{g1, g2, g3}
				var oc outcome
				oc.Panic = fw.Call(func() { oc.Err = gaussJordan.Run(a, x, bv, args...) })
				if oc.failed() {
					S := maskIdx(mask, n)
					if kappa, _ := la.CondInf(A.Select(S, S)); !(kappa <= t.KappaMax) {
						return verdict{Skipped: true}, verdict{Skipped: true}
					}
					v := verdict{Kind: oc.kind(), Detail: "rejected a nonsingular system: " + oc.String(), Wit: map[string]any{"outcome": oc.String()}}
					return v, v
				}
				X, xs := read(x), readVec(bv)
				v1 := checkInverse(t, A, X, mask)
				if v1.Wit != nil {
					v1.Wit["X"] = X.Rows()
				}
				v2 := checkSolve(t, A, xs, b, mask)
				if v2.Wit != nil {
					v2.Wit["x"] = xs
				}
				return guardVerdict(gs, v1), guardVerdict(gs, v2)
			}
			v1, v2 := run(true)
			if v1.Skipped {
				cs.Skip("ill-conditioned")
				return
			}
			cs.Cover("judged:views/" + routine)
			if n >= 2 {
				cs.Nontrivial("views", routine, t.Name, opts, fmt.Sprint(A.A), fmt.Sprint(plan))
			}
			if v1.Kind == "" && v2.Kind == "" {
				return
			}
			c1, c2 := run(false)
			pc := structure
			if !ut {
				p0, _ := pivotClass(t, A, mask)
				cs.Cover("view-pivot:" + p0)
				pc = "pivot=any"
			}
			mc := ""
			if mask != nil {
				mc = "mask=" + maskClass(mask)
			}
			for k, v := range []verdict{v1, v2} {
				if v.Kind == "" {
					continue
				}
				class := classString(pc, mc)
				if []verdict{c1, c2}[k].Kind != v.Kind {
					class = classString(class, "views")
				}
				oracle := []string{"inverse", "solve"}[k]
				wit := merge(map[string]any{"A": A.Rows(), "b": b, "type": t.Name, "opts": opts, "mask": maskString(mask), "views": plan}, v.Wit)
				cs.Violation(sig(oracle, routine, opts, t.Name, class, v.Kind), fmt.Sprintf("gaussJordan(%s) %s with operands %v: %s", opts, t.Name, plan, v.Detail), wit)
				if v.Kind == "parent-outside-view-modified" || v.Kind == "panic" || v.Kind == "error" {
					break
				}
			}
		case "backSubstitution":
			R := image(t, genMatrix("upper", n, t, r))
			rhs := []string{"random", "unit", "zero"}[r.Intn(3)]
			b := imageVec(t, genRHS(rhs, n, r))
			plan := drawPlan(r, []string{"A", "InSitu.A"}, []string{"b", "InSitu.X"})
			withBuf := r.Bool()
			if !withBuf {
				delete(plan, "InSitu.A")
			}
			coverPlan(cs, routine, plan)
			run := func(on bool) verdict {
				rr := prng.New(seedA)
				m, g1 := views.Matrix(t.T, R, plan.kind("A", on), rr, "A")
				bv, g2 := views.Vector(t.T, b, plan.kind("b", on), rr, "b")
				xv, g3 := views.Vector(t.T, make([]float64, n), plan.kind("InSitu.X", on), rr, "InSitu.X")
				is := &backSubstitution.InSitu{X: xv}
				gs := []*views.Guard{g1, g2, g3}
				if withBuf {
					ab, g4 := views.Matrix(t.T, views.Junk(n, n), plan.kind("InSitu.A", on), rr, "InSitu.A")
					is.A = ab
					gs = append(gs, g4)
				}
				x, oc := backsubCallM(m, bv, is)
				if oc.failed() {
					if kappa, _ := la.CondInf(R); !(kappa <= t.KappaMax) {
						return verdict{Skipped: true}
					}
					return verdict{Kind: oc.kind(), Detail: "rejected a nonsingular triangular system: " + oc.String(), Wit: map[string]any{"outcome": oc.String()}}
				}
				v := checkSolve(t, R, x, b, nil)
				if v.Wit != nil {
					v.Wit["x"] = x
				}
				if v.Kind == "" && !v.Skipped && (maxAbsDiffMat(read(m), R) != 0 || fmt.Sprint(readVec(bv)) != fmt.Sprint(b)) {
					v = verdict{Kind: "input-modified", Detail: "R or b was modified by the call", Wit: map[string]any{}}
				}
				return guardVerdict(gs, v)
			}
			v := run(true)
			if v.Skipped {
				cs.Skip("ill-conditioned")
				return
			}
			cs.Cover("judged:views/" + routine)
			if n >= 2 {
				cs.Nontrivial("views", routine, t.Name, fmt.Sprint(R.A), fmt.Sprint(plan))
			}
			if v.Kind == "" {
				return
			}
			class := "upper"
			if run(false).Kind != v.Kind {
				class = "upper,views"
			}
			wit := merge(map[string]any{"R": R.Rows(), "b": b, "type": t.Name, "views": plan}, v.Wit)
			cs.Violation(sig("backsub", routine, "InSitu", t.Name, class, v.Kind), fmt.Sprintf("backSubstitution(InSitu) %s with operands %v: %s", t.Name, plan, v.Detail), wit)
		default: // determinant
			structure := []string{"integer", "svals", "spd", "spd", "sparse-pattern"}[r.Intn(5)]
			o := detOpts{}
			if structure == "spd" {
				o.PD = true
				o.Log = r.Bool()
			}
			if structure == "integer" && n > 5 {
				n = 5
			}
			A := image(t, genMatrix(structure, n, t, r))
			plan := drawPlan(r, []string{"A", "InSitu.Cholesky.L"}, nil)
			if !o.PD {
				delete(plan, "InSitu.Cholesky.L")
			}
			o.InSitu = o.PD
			coverPlan(cs, routine, plan)
			run := func(on bool) verdict {
				rr := prng.New(seedA)
				m, g1 := views.Matrix(t.T, A, plan.kind("A", on), rr, "A")
				gs := []*views.Guard{g1}
				var is *determinant.InSitu
				if o.PD {
					l, g2 := views.Matrix(t.T, la.New(n, n), plan.kind("InSitu.Cholesky.L", on), rr, "InSitu.Cholesky.L")
					is = &determinant.InSitu{Cholesky: cholesky.InSitu{L: l}}
					gs = append(gs, g2)
				}
				d, oc := detCallM(m, o, is)
				v := checkDet(cs, t, A, o, d, oc)
				if v.Kind == "" && !v.Skipped && maxAbsDiffMat(read(m), A) != 0 {
					v = verdict{Kind: "input-modified", Detail: "the ConstMatrix input was modified by the call", Wit: map[string]any{}}
				}
				return guardVerdict(gs, v)
			}
			v := run(true)
			if v.Skipped {
				cs.Skip("ill-conditioned")
				return
			}
			cs.Cover("judged:views/" + routine)
			if n >= 2 {
				cs.Nontrivial("views", routine, t.Name, o.String(), fmt.Sprint(A.A), fmt.Sprint(plan))
			}
			if v.Kind == "" {
				return
			}
			class := "general"
			if o.PD {
				class = "spd"
			}
			if run(false).Kind != v.Kind {
				class += ",views"
			}
			wit := merge(map[string]any{"A": A.Rows(), "type": t.Name, "opts": o.String(), "views": plan}, v.Wit)
			cs.Violation(sig("det", routine, o.String(), t.Name, class, v.Kind), fmt.Sprintf("determinant(%s) %s with operands %v: %s", o.String(), t.Name, plan, v.Detail), wit)
		}
	})
}

func maxAbsDiffMat(a, b *la.Mat) float64 {
	if a.R != b.R || a.C != b.C {
		return 1
	}
	return la.Sub(a, b).MaxAbs()
}

var _ = ad.Float64Type
