// Package c11: sparse vectors and matrices against a dense model over random
// histories of public operations (DESIGN.md, C11).
package c11

import (
	"fmt"
	"sort"
	"strings"

	ad "github.com/pbenner/autodiff"

	"verifharness/internal/fw"
	"verifharness/internal/gen"
	"verifharness/internal/prng"
	"verifharness/internal/snap"
)

func newScalar(t gen.ElemType, j gen.Jet) ad.Scalar {
	s := ad.NewScalar(t.T, 0)
	gen.SetScalar(s, j)
	return s
}

func isZero(e snap.Elem, isInt bool) bool {
	if isInt {
		return e.I == 0
	}
	if e.F != 0 {
		return false
	}
	for _, d := range e.D {
		if d != 0 {
			return false
		}
	}
	for _, h := range e.H {
		if h != 0 {
			return false
		}
	}
	return true
}

// ambiguous: value zero but a non-zero derivative slot (the property does not
// say whether such an element counts as "non-zero").
func ambiguous(e snap.Elem, isInt bool) bool {
	if isInt || e.F != 0 {
		return false
	}
	return !isZero(e, isInt)
}

type liveIt struct {
	it   ad.VectorConstIterator
	last int
}

type vecWorld struct {
	dense bool // dense receivers of arith-operand: iteration visits every position
	t     gen.ElemType
	v     ad.Vector
	m     []ad.Scalar
	its   []*liveIt
	trace []string
}

type failure struct {
	kind, msg string
}

func (w *vecWorld) note(format string, a ...any) { w.trace = append(w.trace, fmt.Sprintf(format, a...)) }

// check compares every read with the model; with iterate it also runs a fresh
// iteration (which the library may use to drop stored zeros).
func (w *vecWorld) check(iterate bool) *failure {
	n := len(w.m)
	if p := fw.Call(func() {
		if d := w.v.Dim(); d != n {
			panic(fmt.Sprintf("\x00dim:Dim()=%d, model has %d", d, n))
		}
	}); p != nil {
		if strings.HasPrefix(p.Msg, "\x00dim:") {
			return &failure{"dim", p.Msg[5:]}
		}
		return &failure{"read-panic", "Dim(): " + p.Msg}
	}
	for i := 0; i < n; i++ {
		var got snap.Elem
		var f64 float64
		if p := fw.Call(func() { got = snap.Scalar(w.v.ConstAt(i)); f64 = w.v.Float64At(i) }); p != nil {
			return &failure{"read-panic", fmt.Sprintf("ConstAt/Float64At(%d): %s", i, p.Msg)}
		}
		want := snap.Scalar(w.m[i])
		if d := snap.Diff(want, got, w.t.IsInt); d != "" {
			return &failure{"value", fmt.Sprintf("ConstAt(%d): model %s", i, d)}
		}
		if !w.t.IsInt && !(f64 == want.F || (f64 != f64 && want.F != want.F)) {
			return &failure{"value", fmt.Sprintf("Float64At(%d)=%v, model %v", i, f64, want.F)}
		}
	}
	if !iterate || w.dense {
		return nil
	}
	var idx []int
	var vals []snap.Elem
	if p := fw.Call(func() {
		k := 0
		for it := w.v.ConstIterator(); it.Ok(); it.Next() {
			idx = append(idx, it.Index())
			vals = append(vals, snap.Scalar(it.GetConst()))
			if k++; k > n+3 {
				break
			}
		}
	}); p != nil {
		return &failure{"iteration-panic", "ConstIterator: " + p.Msg}
	}
	var want []int
	for i := 0; i < n; i++ {
		if !isZero(snap.Scalar(w.m[i]), w.t.IsInt) {
			want = append(want, i)
		}
	}
	for k := 1; k < len(idx); k++ {
		if idx[k] <= idx[k-1] {
			return &failure{"order", fmt.Sprintf("iteration yields indices %v", idx)}
		}
	}
	if fmt.Sprint(idx) != fmt.Sprint(want) {
		kind := "iteration-extra"
		seen := map[int]bool{}
		for _, i := range idx {
			seen[i] = true
		}
		for _, i := range want {
			if !seen[i] {
				kind = "iteration-missing"
			}
		}
		return &failure{kind, fmt.Sprintf("iteration visits %v, non-zero positions of the model are %v", idx, want)}
	}
	for k, i := range idx {
		if d := snap.Diff(snap.Scalar(w.m[i]), vals[k], w.t.IsInt); d != "" {
			return &failure{"value", fmt.Sprintf("iterator at %d: model %s", i, d)}
		}
	}
	if p := fw.Call(func() { _ = fmt.Sprint(w.v) }); p != nil {
		return &failure{"read-panic", "String(): " + p.Msg}
	}
	return nil
}

func (w *vecWorld) modelAmbiguous() bool {
	for _, s := range w.m {
		if ambiguous(snap.Scalar(s), w.t.IsInt) {
			return true
		}
	}
	return false
}

func present(v ad.Vector, i int) bool { return vecHas(v, i) }

func cloneModel(m []ad.Scalar) []ad.Scalar {
	r := make([]ad.Scalar, len(m))
	for i, s := range m {
		r[i] = s.CloneScalar()
	}
	return r
}

func specModel(t gen.ElemType, vals []gen.Jet) []ad.Scalar {
	r := make([]ad.Scalar, len(vals))
	for i, j := range vals {
		r[i] = newScalar(t, j)
	}
	return r
}

var vecOps = []string{"at", "set", "set", "setzero", "Set", "Reset", "Swap", "Swap", "Permute", "Sort", "ReverseOrder", "Slice",
	"AppendScalar", "AppendVector", "arith", "arith", "arith-inplace", "arith-operand", "Map", "MapSet", "Clone", "iter-new", "iter-next", "iter-next", "iter-next"}

var arithOps = []string{"VaddV", "VsubV", "VmulV", "VdivV", "VaddS", "VsubS", "VmulS", "VdivS"}

func applyScalarOp(op string, r ad.Scalar, a, b ad.ConstScalar) {
	switch op[1:4] {
	case "add":
		r.Add(a, b)
	case "sub":
		r.Sub(a, b)
	case "mul":
		r.Mul(a, b)
	case "div":
		r.Div(a, b)
	}
}

func callVecOp(op string, r ad.Vector, a ad.ConstVector, b ad.ConstVector, s ad.ConstScalar) {
	switch op {
	case "VaddV":
		r.VaddV(a, b)
	case "VsubV":
		r.VsubV(a, b)
	case "VmulV":
		r.VmulV(a, b)
	case "VdivV":
		r.VdivV(a, b)
	case "VaddS":
		r.VaddS(a, s)
	case "VsubS":
		r.VsubS(a, s)
	case "VmulS":
		r.VmulS(a, s)
	case "VdivS":
		r.VdivS(a, s)
	}
}

func pick(r *prng.Rand, xs ...string) string { return xs[r.Intn(len(xs))] }

// step performs one random operation; returns (op label, argument class, failure).
func (w *vecWorld) step(r *prng.Rand, cs *fw.Case, nvar, order int) (string, string, *failure) {
	n := len(w.m)
	op := vecOps[r.Intn(len(vecOps))]
	if n == 0 && (op == "at" || op == "set" || op == "setzero" || op == "Swap" || op == "iter-next") {
		op = "AppendScalar"
	}
	pat := gen.ZeroPatterns[r.Intn(len(gen.ZeroPatterns))]
	storage := pick(r, gen.Dense, gen.Sparse)
	var fail *failure
	class := ""
	run := func(f func()) bool {
		if p := fw.Call(f); p != nil {
			if p.Budget {
				panic(p)
			}
			fail = &failure{"panic", p.Msg + " @" + p.Frame}
			return false
		}
		return true
	}
	dropIts := func() { w.its = nil }
	switch op {
	case "at":
		i := r.Intn(n)
		class = absent(present(w.v, i))
		w.note("At(%d)", i)
		run(func() { w.v.At(i) })
	case "set":
		i := r.Intn(n)
		class = absent(present(w.v, i))
		j := gen.RandJet(w.t, r, w.t.NonZero(r), nvar, order)
		w.note("At(%d).Set(%v)", i, j.V)
		if run(func() { gen.SetScalar(w.v.At(i), j) }) {
			w.m[i] = newScalar(w.t, j)
		}
	case "setzero":
		i := r.Intn(n)
		class = absent(present(w.v, i))
		how := r.Intn(2)
		w.note("At(%d).zero(%d)", i, how)
		if run(func() {
			if how == 0 {
				w.v.At(i).SetFloat64(0)
			} else {
				w.v.At(i).Reset()
			}
		}) {
			w.m[i] = newScalar(w.t, gen.Jet{})
		}
	case "Set":
		spec := gen.GenVector(w.t, storage, pat, n, r, nvar, order, false)
		class = "from-" + storage + ",zeros=" + pat
		w.note("Set(%s)", spec)
		if run(func() { w.v.Set(spec.Build()) }) {
			w.m = specModel(w.t, spec.Vals)
		}
	case "Reset":
		w.note("Reset()")
		if run(func() { w.v.Reset() }) {
			for i := range w.m {
				w.m[i] = newScalar(w.t, gen.Jet{})
			}
		}
	case "Swap":
		i, j := r.Intn(n), r.Intn(n)
		pi, pj := present(w.v, i), present(w.v, j)
		switch {
		case i == j:
			class = "same-index"
		case pi && pj:
			class = "both-present"
		case pi || pj:
			class = "one-absent"
		default:
			class = "both-absent"
		}
		w.note("Swap(%d,%d)", i, j)
		if run(func() { w.v.Swap(i, j) }) {
			w.m[i], w.m[j] = w.m[j], w.m[i]
		}
	case "Permute":
		pi := r.Perm(n)
		class = permClass(pi)
		w.note("Permute(%v)", pi)
		var err error
		if run(func() { err = w.v.Permute(pi) }) {
			if err != nil {
				fail = &failure{"error", "Permute returned error for a valid permutation: " + err.Error()}
			} else {
				for i := 0; i < n; i++ {
					if pi[i] > i {
						w.m[i], w.m[pi[i]] = w.m[pi[i]], w.m[i]
					}
				}
			}
		}
		dropIts()
	case "Sort":
		// only judged when the non-zero values are pairwise distinct (sort is not stable)
		seen := map[string]bool{}
		dup := false
		for _, s := range w.m {
			e := snap.Scalar(s)
			if isZero(e, w.t.IsInt) {
				continue
			}
			k := fmt.Sprint(e.F, e.I)
			if seen[k] {
				dup = true
			}
			seen[k] = true
		}
		if dup || w.modelAmbiguous() {
			// ties, or a zero-valued element that carries derivatives (its place among the zeros is not defined)
			return "Sort(skipped-ties)", "", nil
		}
		rev := r.Bool()
		class = fmt.Sprintf("reverse=%v", rev)
		w.note("Sort(%v)", rev)
		if run(func() { w.v.Sort(rev) }) {
			sort.SliceStable(w.m, func(a, b int) bool {
				if w.t.IsInt {
					x, y := w.m[a].GetInt64(), w.m[b].GetInt64()
					if rev {
						return x > y
					}
					return x < y
				}
				x, y := w.m[a].GetFloat64(), w.m[b].GetFloat64()
				if rev {
					return x > y
				}
				return x < y
			})
		}
		dropIts()
	case "ReverseOrder":
		w.note("ReverseOrder()")
		if run(func() { w.v.ReverseOrder() }) {
			for i := 0; i < n/2; i++ {
				w.m[i], w.m[n-1-i] = w.m[n-1-i], w.m[i]
			}
		}
		dropIts()
	case "Slice":
		i := r.Intn(n + 1)
		j := i + r.Intn(n-i+1)
		class = "read-only"
		w.note("Slice(%d,%d)", i, j)
		var s ad.Vector
		if run(func() { s = w.v.Slice(i, j) }) {
			sw := &vecWorld{t: w.t, v: s, m: w.m[i:j]}
			if f := sw.check(true); f != nil {
				fail = &failure{f.kind, "on the slice: " + f.msg}
			}
		}
	case "AppendScalar":
		k := r.Range(1, 3)
		js := make([]gen.Jet, k)
		ss := make([]ad.Scalar, k)
		for i := range js {
			v := 0.0
			if r.Chance(0.7) {
				v = w.t.NonZero(r)
			}
			js[i] = gen.RandJet(w.t, r, v, nvar, order)
			if v == 0 {
				js[i] = gen.Jet{}
			}
			// sometimes a scalar of another type (conversion path)
			st := w.t
			if r.Chance(0.3) {
				st = gen.TypeByName("Float64")
				js[i] = gen.Jet{V: js[i].V}
			}
			ss[i] = newScalar(st, js[i])
		}
		w.note("AppendScalar(%d scalars)", k)
		var nv ad.Vector
		if run(func() { nv = w.v.AppendScalar(ss...) }) {
			w.v = nv
			for _, j := range js {
				w.m = append(w.m, newScalar(w.t, j))
			}
		}
		dropIts()
	case "AppendVector":
		k := r.Range(0, 4)
		spec := gen.GenVector(w.t, storage, pat, k, r, nvar, order, false)
		class = "arg-" + storage
		w.note("AppendVector(%s)", spec)
		var nv ad.Vector
		if run(func() { nv = w.v.AppendVector(spec.Build()) }) {
			w.v = nv
			w.m = append(w.m, specModel(w.t, spec.Vals)...)
		}
		dropIts()
	case "arith", "arith-inplace", "arith-operand":
		aop := arithOps[r.Intn(len(arithOps))]
		sa, sb := pick(r, gen.Dense, gen.Sparse), pick(r, gen.Dense, gen.Sparse)
		pa := gen.ZeroPatterns[r.Intn(len(gen.ZeroPatterns))]
		div := strings.Contains(aop, "div")
		a := gen.GenVector(w.t, sa, pa, n, r, nvar, order, false)
		b := gen.GenVector(w.t, sb, pat, n, r, nvar, order, div)
		sj := gen.RandJet(w.t, r, w.t.Value(r), nvar, order)
		if div {
			sj = gen.Jet{V: w.t.Divisor(r)}
		}
		sc := newScalar(w.t, sj)
		am, bm := specModel(w.t, a.Vals), specModel(w.t, b.Vals)
		scalarOp := strings.HasSuffix(aop, "S")
		rhs := func(i int) ad.ConstScalar {
			if scalarOp {
				return sc
			}
			return bm[i]
		}
		switch op {
		case "arith":
			class = fmt.Sprintf("a=%s,b=%s", sa, cond(scalarOp, "scalar", sb))
			w.note("%s(a=%s, b=%s|%v)", aop, a, b, sj.V)
			if run(func() { callVecOp(aop, w.v, a.Build(), b.Build(), sc) }) {
				for i := 0; i < n; i++ {
					w.m[i] = ad.NewScalar(w.t.T, 0)
					applyScalarOp(aop, w.m[i], am[i], rhs(i))
				}
			}
		case "arith-inplace":
			class = fmt.Sprintf("a=self,b=%s", cond(scalarOp, "scalar", sb))
			w.note("%s(self, b=%s|%v)", aop, b, sj.V)
			if run(func() { callVecOp(aop, w.v, w.v, b.Build(), sc) }) {
				for i := 0; i < n; i++ {
					x := ad.NewScalar(w.t.T, 0)
					applyScalarOp(aop, x, w.m[i], rhs(i))
					w.m[i] = x
				}
			}
		case "arith-operand":
			rs := pick(r, gen.Dense, gen.Sparse)
			class = fmt.Sprintf("recv=%s,a=self,b=%s", rs, cond(scalarOp, "scalar", sb))
			w.note("recv(%s).%s(self, b=%s|%v)", rs, aop, b, sj.V)
			recv := gen.NullVector(w.t, rs, n)
			if run(func() { callVecOp(aop, recv, w.v, b.Build(), sc) }) {
				exp := make([]ad.Scalar, n)
				for i := 0; i < n; i++ {
					exp[i] = ad.NewScalar(w.t.T, 0)
					applyScalarOp(aop, exp[i], w.m[i], rhs(i))
				}
				rw := &vecWorld{t: w.t, v: recv, m: exp, dense: rs == gen.Dense}
				if f := rw.check(true); f != nil {
					fail = &failure{f.kind, "on the receiver: " + f.msg}
				}
			}
		}
		op = op + ":" + aop
	case "Map":
		two := newScalar(w.t, gen.Jet{V: 2})
		w.note("Map(x*=2)")
		if run(func() { w.v.Map(func(s ad.Scalar) { s.Mul(s, two) }) }) {
			for i := range w.m {
				x := ad.NewScalar(w.t.T, 0)
				x.Mul(w.m[i], two)
				w.m[i] = x
			}
		}
	case "MapSet":
		two := newScalar(w.t, gen.Jet{V: 2})
		w.note("MapSet(2*x)")
		if run(func() {
			w.v.MapSet(func(s ad.ConstScalar) ad.Scalar {
				x := ad.NewScalar(w.t.T, 0)
				x.Mul(s, two)
				return x
			})
		}) {
			for i := range w.m {
				x := ad.NewScalar(w.t.T, 0)
				x.Mul(w.m[i], two)
				w.m[i] = x
			}
		}
	case "Clone":
		w.note("CloneVector()")
		var c ad.Vector
		if run(func() { c = w.v.CloneVector() }) {
			cw := &vecWorld{t: w.t, v: c, m: w.m}
			if f := cw.check(true); f != nil {
				fail = &failure{f.kind, "on the clone: " + f.msg}
			} else if r.Bool() {
				w.v = c
				w.m = cloneModel(w.m)
				dropIts()
			}
		}
	case "iter-new":
		if len(w.its) >= 3 {
			w.its = w.its[1:]
		}
		from := -1
		if n > 0 && r.Bool() {
			from = r.Intn(n)
		}
		w.note("iterator(from=%d)", from)
		run(func() {
			var it ad.VectorConstIterator
			if from < 0 {
				it = w.v.ConstIterator()
			} else if r.Bool() {
				it = w.v.ConstIteratorFrom(from)
			} else {
				it = w.v.IteratorFrom(from).(ad.VectorConstIterator)
			}
			li := &liveIt{it: it, last: from - 1}
			w.its = append(w.its, li)
			fail = w.checkLive(li, true)
		})
	case "iter-next":
		if len(w.its) == 0 {
			return "iter-next(none)", "", nil
		}
		li := w.its[r.Intn(len(w.its))]
		w.note("iterator.Next()")
		run(func() {
			if li.it.Ok() {
				li.it.Next()
				fail = w.checkLive(li, false)
			}
		})
	}
	return op, class, fail
}

// checkLive: a live iterator only ever yields ascending indices that are
// currently non-zero in the model, with the model's value.
func (w *vecWorld) checkLive(li *liveIt, first bool) *failure {
	// successor semantics: the iterator must now be at the smallest currently
	// non-zero position behind the one it yielded last (none: exhausted)
	exp := -1
	for k := max(0, li.last+1); k < len(w.m); k++ {
		if !isZero(snap.Scalar(w.m[k]), w.t.IsInt) {
			exp = k
			break
		}
	}
	if !li.it.Ok() {
		if exp >= 0 {
			return &failure{"live-iterator-skip", fmt.Sprintf("live iterator exhausted after %d, but position %d holds a non-zero element", li.last, exp)}
		}
		return nil
	}
	if exp >= 0 && li.it.Index() > exp {
		return &failure{"live-iterator-skip", fmt.Sprintf("live iterator moved from %d to %d and skipped the non-zero element at %d", li.last, li.it.Index(), exp)}
	}
	i := li.it.Index()
	if i <= li.last {
		return &failure{"live-iterator-order", fmt.Sprintf("live iterator yields index %d after %d", i, li.last)}
	}
	li.last = i
	if i < 0 || i >= len(w.m) {
		return &failure{"live-iterator-range", fmt.Sprintf("live iterator yields index %d outside [0,%d)", i, len(w.m))}
	}
	c := li.it.GetConst()
	if c == nil {
		return &failure{"live-iterator-nil", fmt.Sprintf("live iterator Ok() at %d but GetConst() is nil", i)}
	}
	if isZero(snap.Scalar(w.m[i]), w.t.IsInt) {
		return &failure{"live-iterator-zero", fmt.Sprintf("live iterator stops at %d where the model is zero", i)}
	}
	if d := snap.Diff(snap.Scalar(w.m[i]), snap.Scalar(c), w.t.IsInt); d != "" {
		return &failure{"value", fmt.Sprintf("live iterator at %d: model %s", i, d)}
	}
	return nil
}

func absent(present bool) string {
	if present {
		return "present"
	}
	return "absent"
}

func cond(c bool, a, b string) string {
	if c {
		return a
	}
	return b
}

func permClass(pi []int) string {
	id, inv := true, true
	for i, p := range pi {
		if p != i {
			id = false
		}
		if pi[p] != i {
			inv = false
		}
	}
	switch {
	case id:
		return "identity"
	case inv:
		return "involution"
	}
	return "general"
}

func runVectorHistory(cs *fw.Case, t gen.ElemType, steps int) {
	r := cs.R
	n := r.Range(0, 12)
	nvar, order := 0, 0
	if t.IsReal && r.Chance(0.6) {
		nvar, order = r.Range(1, 2), r.Range(1, 2)
	}
	init := gen.GenVector(t, gen.Sparse, gen.ZeroPatterns[r.Intn(len(gen.ZeroPatterns))], n, r, nvar, order, false)
	w := &vecWorld{t: t, v: init.Build(), m: specModel(t, init.Vals)}
	w.note("init %s", init)
	everyStepIterate := r.Bool()
	structural, reads := 0, 0
	if cs.Index < 2 {
		defer func() { cs.Sample(map[string]any{"type": t.Name, "history": w.trace}) }()
	}
	report := func(op, class string, f *failure) {
		base := op
		if k := strings.Index(op, ":"); k > 0 {
			base = op
		}
		cs.Violation(fmt.Sprintf("C11|%s,vector|after=%s|%s|%s", t.Name, base, class, f.kind), f.msg,
			map[string]any{"type": t.Name, "history": w.trace})
	}
	if f := w.check(true); f != nil {
		report("init", init.Pattern, f)
		return
	}
	for s := 0; s < steps; s++ {
		op, class, f := w.step(r, cs, nvar, order)
		cs.Cover("vec-op:" + strings.SplitN(op, ":", 2)[0])
		if f != nil {
			report(op, class, f)
			return
		}
		if w.modelAmbiguous() {
			cs.Cover("history-with-zero-value-nonzero-derivative-element")
		}
		switch strings.SplitN(op, ":", 2)[0] {
		case "iter-new", "iter-next", "Slice", "Clone", "at":
		default:
			structural++
		}
		if f := w.check(everyStepIterate || r.Chance(0.15)); f != nil {
			report(op, class, f)
			return
		}
		reads++
	}
	if f := w.check(true); f != nil {
		report("final", "", f)
		return
	}
	if structural > 0 && reads > 0 {
		cs.Nontrivial(t.Name, w.trace)
	}
}
