package c11

import (
	"fmt"
	"strings"

	ad "github.com/pbenner/autodiff"

	"verifharness/internal/fw"
	"verifharness/internal/gen"
	"verifharness/internal/prng"
	"verifharness/internal/snap"
)

type matWorld struct {
	dense bool
	t     gen.ElemType
	a     ad.Matrix
	R, C  int
	m     []ad.Scalar // row major
	its   []*liveMatIt
	trace []string
}

type liveMatIt struct {
	it    ad.MatrixConstIterator
	li    int
	lj    int
	first bool
}

func (w *matWorld) note(format string, a ...any) { w.trace = append(w.trace, fmt.Sprintf(format, a...)) }

func (w *matWorld) check(iterate bool) *failure {
	var r, c int
	if p := fw.Call(func() { r, c = w.a.Dims() }); p != nil {
		return &failure{"read-panic", "Dims(): " + p.Msg}
	}
	if r != w.R || c != w.C {
		return &failure{"dim", fmt.Sprintf("Dims()=%dx%d, model %dx%d", r, c, w.R, w.C)}
	}
	for i := 0; i < w.R; i++ {
		for j := 0; j < w.C; j++ {
			var got snap.Elem
			var f64 float64
			if p := fw.Call(func() { got = snap.Scalar(w.a.ConstAt(i, j)); f64 = w.a.Float64At(i, j) }); p != nil {
				return &failure{"read-panic", fmt.Sprintf("ConstAt/Float64At(%d,%d): %s", i, j, p.Msg)}
			}
			want := snap.Scalar(w.m[i*w.C+j])
			if d := snap.Diff(want, got, w.t.IsInt); d != "" {
				return &failure{"value", fmt.Sprintf("ConstAt(%d,%d): model %s", i, j, d)}
			}
			if !w.t.IsInt && !(f64 == want.F || (f64 != f64 && want.F != want.F)) {
				return &failure{"value", fmt.Sprintf("Float64At(%d,%d)=%v, model %v", i, j, f64, want.F)}
			}
		}
	}
	if !iterate || w.dense {
		return nil
	}
	type pos struct{ i, j int }
	var got []pos
	var vals []snap.Elem
	if p := fw.Call(func() {
		k := 0
		for it := w.a.ConstIterator(); it.Ok(); it.Next() {
			i, j := it.Index()
			got = append(got, pos{i, j})
			vals = append(vals, snap.Scalar(it.GetConst()))
			if k++; k > w.R*w.C+3 {
				break
			}
		}
	}); p != nil {
		return &failure{"iteration-panic", "ConstIterator: " + p.Msg}
	}
	var want []pos
	for i := 0; i < w.R; i++ {
		for j := 0; j < w.C; j++ {
			if !isZero(snap.Scalar(w.m[i*w.C+j]), w.t.IsInt) {
				want = append(want, pos{i, j})
			}
		}
	}
	for k := 1; k < len(got); k++ {
		if got[k].i < got[k-1].i || (got[k].i == got[k-1].i && got[k].j <= got[k-1].j) {
			return &failure{"order", fmt.Sprintf("iteration yields positions %v", got)}
		}
	}
	if fmt.Sprint(got) != fmt.Sprint(want) {
		kind := "iteration-extra"
		seen := map[pos]bool{}
		for _, p := range got {
			seen[p] = true
		}
		for _, p := range want {
			if !seen[p] {
				kind = "iteration-missing"
			}
		}
		return &failure{kind, fmt.Sprintf("iteration visits %v, non-zero positions of the model are %v", got, want)}
	}
	for k, p := range got {
		if d := snap.Diff(snap.Scalar(w.m[p.i*w.C+p.j]), vals[k], w.t.IsInt); d != "" {
			return &failure{"value", fmt.Sprintf("iterator at (%d,%d): model %s", p.i, p.j, d)}
		}
	}
	if p := fw.Call(func() { _ = fmt.Sprint(w.a) }); p != nil {
		return &failure{"read-panic", "String(): " + p.Msg}
	}
	return nil
}

func (w *matWorld) modelAmbiguous() bool {
	for _, s := range w.m {
		if ambiguous(snap.Scalar(s), w.t.IsInt) {
			return true
		}
	}
	return false
}

var matOps = []string{"at", "set", "set", "setzero", "Set", "Reset", "SetIdentity", "Swap", "Swap", "SwapRows", "SwapColumns",
	"PermuteRows", "PermuteColumns", "SymmetricPermutation", "Row", "Col", "Diag", "T", "Tip", "arith", "arith", "arith-inplace",
	"arith-operand", "MdotM", "Outer", "Map", "MapSet", "Clone", "Slice", "iter-new", "iter-next", "iter-next"}

var matArith = []string{"MaddM", "MsubM", "MmulM", "MdivM", "MaddS", "MsubS", "MmulS", "MdivS"}

func callMatOp(op string, r ad.Matrix, a, b ad.ConstMatrix, s ad.ConstScalar) {
	switch op {
	case "MaddM":
		r.MaddM(a, b)
	case "MsubM":
		r.MsubM(a, b)
	case "MmulM":
		r.MmulM(a, b)
	case "MdivM":
		r.MdivM(a, b)
	case "MaddS":
		r.MaddS(a, s)
	case "MsubS":
		r.MsubS(a, s)
	case "MmulS":
		r.MmulS(a, s)
	case "MdivS":
		r.MdivS(a, s)
	}
}

func (w *matWorld) swapModelRows(i, j int) {
	for k := 0; k < w.C; k++ {
		w.m[i*w.C+k], w.m[j*w.C+k] = w.m[j*w.C+k], w.m[i*w.C+k]
	}
}

func (w *matWorld) swapModelCols(i, j int) {
	for k := 0; k < w.R; k++ {
		w.m[k*w.C+i], w.m[k*w.C+j] = w.m[k*w.C+j], w.m[k*w.C+i]
	}
}

func (w *matWorld) checkVec(v ad.ConstVector, exp []ad.Scalar, what string) *failure {
	if v.Dim() != len(exp) {
		return &failure{"dim", fmt.Sprintf("%s has dimension %d, model %d", what, v.Dim(), len(exp))}
	}
	for k := range exp {
		var got snap.Elem
		if p := fw.Call(func() { got = snap.Scalar(v.ConstAt(k)) }); p != nil {
			return &failure{"read-panic", fmt.Sprintf("%s ConstAt(%d): %s", what, k, p.Msg)}
		}
		if d := snap.Diff(snap.Scalar(exp[k]), got, w.t.IsInt); d != "" {
			return &failure{"value", fmt.Sprintf("%s[%d]: model %s", what, k, d)}
		}
	}
	return nil
}

func (w *matWorld) step(r *prng.Rand, cs *fw.Case, nvar, order int) (string, string, *failure) {
	op := matOps[r.Intn(len(matOps))]
	if w.R*w.C == 0 {
		switch op {
		case "Set", "Reset", "SetIdentity", "T", "Tip", "Clone", "Map", "iter-new":
		default:
			op = "Reset"
		}
	}
	pat := gen.ZeroPatterns[r.Intn(len(gen.ZeroPatterns))]
	storage := pick(r, gen.Dense, gen.Sparse)
	var fail *failure
	class := ""
	run := func(f func()) bool {
		if p := fw.Call(f); p != nil {
			if p.Budget {
				panic(p)
			}
			fail = &failure{"panic", p.Msg + " @" + p.Frame}
			return false
		}
		return true
	}
	square := w.R == w.C
	dropIts := func() { w.its = nil }
	switch op {
	case "at":
		i, j := r.Intn(w.R), r.Intn(w.C)
		class = absent(matHas(w.a, i, j))
		w.note("At(%d,%d)", i, j)
		run(func() { w.a.At(i, j) })
	case "set":
		i, j := r.Intn(w.R), r.Intn(w.C)
		class = absent(matHas(w.a, i, j))
		jet := gen.RandJet(w.t, r, w.t.NonZero(r), nvar, order)
		w.note("At(%d,%d).Set(%v)", i, j, jet.V)
		if run(func() { gen.SetScalar(w.a.At(i, j), jet) }) {
			w.m[i*w.C+j] = newScalar(w.t, jet)
		}
	case "setzero":
		i, j := r.Intn(w.R), r.Intn(w.C)
		class = absent(matHas(w.a, i, j))
		w.note("At(%d,%d).SetFloat64(0)", i, j)
		if run(func() { w.a.At(i, j).SetFloat64(0) }) {
			w.m[i*w.C+j] = newScalar(w.t, gen.Jet{})
		}
	case "Set":
		spec := gen.GenMatrix(w.t, storage, pat, w.R, w.C, r, nvar, order, false)
		class = "from-" + storage + ",zeros=" + pat
		w.note("Set(%s)", spec)
		if run(func() { w.a.Set(spec.Build()) }) {
			w.m = specModel(w.t, spec.Vals)
		}
	case "Reset":
		w.note("Reset()")
		if run(func() { w.a.Reset() }) {
			for i := range w.m {
				w.m[i] = newScalar(w.t, gen.Jet{})
			}
		}
	case "SetIdentity":
		w.note("SetIdentity()")
		class = cond(square, "square", "rectangular")
		if run(func() { w.a.SetIdentity() }) {
			for i := 0; i < w.R; i++ {
				for j := 0; j < w.C; j++ {
					v := 0.0
					if i == j {
						v = 1
					}
					w.m[i*w.C+j] = newScalar(w.t, gen.Jet{V: v})
				}
			}
		}
	case "Swap":
		i1, j1, i2, j2 := r.Intn(w.R), r.Intn(w.C), r.Intn(w.R), r.Intn(w.C)
		p1, p2 := matHas(w.a, i1, j1), matHas(w.a, i2, j2)
		switch {
		case i1 == i2 && j1 == j2:
			class = "same-index"
		case p1 && p2:
			class = "both-present"
		case p1 || p2:
			class = "one-absent"
		default:
			class = "both-absent"
		}
		w.note("Swap(%d,%d,%d,%d)", i1, j1, i2, j2)
		if run(func() { w.a.Swap(i1, j1, i2, j2) }) {
			w.m[i1*w.C+j1], w.m[i2*w.C+j2] = w.m[i2*w.C+j2], w.m[i1*w.C+j1]
		}
	case "SwapRows", "SwapColumns":
		lim := w.R
		if op == "SwapColumns" {
			lim = w.C
		}
		if !square {
			// the library restricts these to square matrices (returns an error)
			lim = min(w.R, w.C)
		}
		i, j := r.Intn(lim), r.Intn(lim)
		class = cond(square, "square", "rectangular")
		w.note("%s(%d,%d)", op, i, j)
		var err error
		if run(func() {
			if op == "SwapRows" {
				err = w.a.SwapRows(i, j)
			} else {
				err = w.a.SwapColumns(i, j)
			}
		}) {
			if err == nil {
				if op == "SwapRows" {
					w.swapModelRows(i, j)
				} else {
					w.swapModelCols(i, j)
				}
			}
			// an error must leave the matrix unchanged (checked by the full read)
		}
	case "PermuteRows", "PermuteColumns", "SymmetricPermutation":
		if !square {
			return op + "(skipped-rectangular)", "", nil
		}
		pi := r.Perm(w.R)
		class = permClass(pi)
		w.note("%s(%v)", op, pi)
		var err error
		if run(func() {
			switch op {
			case "PermuteRows":
				err = w.a.PermuteRows(pi)
			case "PermuteColumns":
				err = w.a.PermuteColumns(pi)
			default:
				err = w.a.SymmetricPermutation(pi)
			}
		}) {
			if err != nil {
				fail = &failure{"error", op + " returned an error for a valid permutation: " + err.Error()}
			} else {
				for i := 0; i < w.R; i++ {
					if pi[i] > i {
						if op != "PermuteColumns" {
							w.swapModelRows(i, pi[i])
						}
						if op != "PermuteRows" {
							w.swapModelCols(i, pi[i])
						}
					}
				}
			}
		}
	case "Row":
		i := r.Intn(w.R)
		w.note("Row(%d)", i)
		run(func() {
			v := w.a.Row(i)
			fail = w.checkVec(v, w.m[i*w.C:(i+1)*w.C], "Row")
			if fail == nil {
				fail = w.checkVec(w.a.ConstRow(i), w.m[i*w.C:(i+1)*w.C], "ConstRow")
			}
		})
	case "Col":
		j := r.Intn(w.C)
		w.note("Col(%d)", j)
		exp := make([]ad.Scalar, w.R)
		for i := range exp {
			exp[i] = w.m[i*w.C+j]
		}
		run(func() {
			fail = w.checkVec(w.a.Col(j), exp, "Col")
			if fail == nil {
				fail = w.checkVec(w.a.ConstCol(j), exp, "ConstCol")
			}
		})
	case "Diag":
		if !square {
			return "Diag(skipped-rectangular)", "", nil
		}
		w.note("Diag()")
		exp := make([]ad.Scalar, w.R)
		for i := range exp {
			exp[i] = w.m[i*w.C+i]
		}
		run(func() { fail = w.checkVec(w.a.Diag(), exp, "Diag") })
	case "T":
		w.note("T()")
		var tm ad.Matrix
		if run(func() { tm = w.a.T() }) {
			tw := &matWorld{t: w.t, a: tm, R: w.C, C: w.R, m: make([]ad.Scalar, len(w.m))}
			for i := 0; i < w.R; i++ {
				for j := 0; j < w.C; j++ {
					tw.m[j*w.R+i] = w.m[i*w.C+j]
				}
			}
			if f := tw.check(true); f != nil {
				fail = &failure{f.kind, "on the transpose: " + f.msg}
			} else if r.Bool() {
				// continue the history on the transposed object (elements are shared with
				// the former object, which is dropped)
				w.a, w.R, w.C, w.m = tm, tw.R, tw.C, tw.m
				dropIts()
				class = "continue-on-transpose"
			}
		}
	case "Tip":
		w.note("Tip()")
		if run(func() { w.a.Tip() }) {
			nm := make([]ad.Scalar, len(w.m))
			for i := 0; i < w.R; i++ {
				for j := 0; j < w.C; j++ {
					nm[j*w.R+i] = w.m[i*w.C+j]
				}
			}
			w.R, w.C, w.m = w.C, w.R, nm
		}
		dropIts()
	case "arith", "arith-inplace", "arith-operand":
		aop := matArith[r.Intn(len(matArith))]
		sa, sb := pick(r, gen.Dense, gen.Sparse), pick(r, gen.Dense, gen.Sparse)
		pa := gen.ZeroPatterns[r.Intn(len(gen.ZeroPatterns))]
		div := strings.Contains(aop, "div")
		a := gen.GenMatrix(w.t, sa, pa, w.R, w.C, r, nvar, order, false)
		b := gen.GenMatrix(w.t, sb, pat, w.R, w.C, r, nvar, order, div)
		sj := gen.RandJet(w.t, r, w.t.Value(r), nvar, order)
		if div {
			sj = gen.Jet{V: w.t.Divisor(r)}
		}
		sc := newScalar(w.t, sj)
		am, bm := specModel(w.t, a.Vals), specModel(w.t, b.Vals)
		scalarOp := strings.HasSuffix(aop, "S")
		rhs := func(i int) ad.ConstScalar {
			if scalarOp {
				return sc
			}
			return bm[i]
		}
		sop := "V" + aop[1:] // reuse applyScalarOp's decoding (add/sub/mul/div at [1:4])
		switch op {
		case "arith":
			class = fmt.Sprintf("a=%s,b=%s", sa, cond(scalarOp, "scalar", sb))
			w.note("%s(a=%s, b=%s|%v)", aop, a, b, sj.V)
			if run(func() { callMatOp(aop, w.a, a.Build(), b.Build(), sc) }) {
				for i := range w.m {
					w.m[i] = ad.NewScalar(w.t.T, 0)
					applyScalarOp(sop, w.m[i], am[i], rhs(i))
				}
			}
		case "arith-inplace":
			class = fmt.Sprintf("a=self,b=%s", cond(scalarOp, "scalar", sb))
			w.note("%s(self, b=%s|%v)", aop, b, sj.V)
			if run(func() { callMatOp(aop, w.a, w.a, b.Build(), sc) }) {
				for i := range w.m {
					x := ad.NewScalar(w.t.T, 0)
					applyScalarOp(sop, x, w.m[i], rhs(i))
					w.m[i] = x
				}
			}
		case "arith-operand":
			rs := pick(r, gen.Dense, gen.Sparse)
			class = fmt.Sprintf("recv=%s,a=self,b=%s", rs, cond(scalarOp, "scalar", sb))
			w.note("recv(%s).%s(self, b=%s|%v)", rs, aop, b, sj.V)
			recv := gen.NullMatrix(w.t, rs, w.R, w.C)
			if run(func() { callMatOp(aop, recv, w.a, b.Build(), sc) }) {
				exp := make([]ad.Scalar, len(w.m))
				for i := range exp {
					exp[i] = ad.NewScalar(w.t.T, 0)
					applyScalarOp(sop, exp[i], w.m[i], rhs(i))
				}
				rw := &matWorld{t: w.t, a: recv, R: w.R, C: w.C, m: exp, dense: rs == gen.Dense}
				if f := rw.check(true); f != nil {
					fail = &failure{f.kind, "on the receiver: " + f.msg}
				}
			}
		}
		op = op + ":" + aop
	case "MdotM":
		// w.a = x · y with fresh operands; prior content of the receiver is arbitrary
		k := r.Range(0, 4)
		sa, sb := pick(r, gen.Dense, gen.Sparse), pick(r, gen.Dense, gen.Sparse)
		x := gen.GenMatrix(w.t, sa, gen.ZeroPatterns[r.Intn(len(gen.ZeroPatterns))], w.R, k, r, nvar, order, false)
		y := gen.GenMatrix(w.t, sb, pat, k, w.C, r, nvar, order, false)
		class = fmt.Sprintf("a=%s,b=%s,inner=%d", sa, sb, min(k, 1))
		w.note("MdotM(a=%s, b=%s)", x, y)
		xm, ym := specModel(w.t, x.Vals), specModel(w.t, y.Vals)
		if run(func() { w.a.MdotM(x.Build(), y.Build()) }) {
			for i := 0; i < w.R; i++ {
				for j := 0; j < w.C; j++ {
					acc := ad.NewScalar(w.t.T, 0)
					tmp := ad.NewScalar(w.t.T, 0)
					for l := 0; l < k; l++ {
						tmp.Mul(xm[i*k+l], ym[l*w.C+j])
						acc.Add(acc, tmp)
					}
					w.m[i*w.C+j] = acc
				}
			}
		}
	case "Outer":
		sa, sb := pick(r, gen.Dense, gen.Sparse), pick(r, gen.Dense, gen.Sparse)
		x := gen.GenVector(w.t, sa, gen.ZeroPatterns[r.Intn(len(gen.ZeroPatterns))], w.R, r, nvar, order, false)
		y := gen.GenVector(w.t, sb, pat, w.C, r, nvar, order, false)
		class = fmt.Sprintf("a=%s,b=%s", sa, sb)
		w.note("Outer(a=%s, b=%s)", x, y)
		xm, ym := specModel(w.t, x.Vals), specModel(w.t, y.Vals)
		if run(func() { w.a.Outer(x.Build(), y.Build()) }) {
			for i := 0; i < w.R; i++ {
				for j := 0; j < w.C; j++ {
					s := ad.NewScalar(w.t.T, 0)
					s.Mul(xm[i], ym[j])
					w.m[i*w.C+j] = s
				}
			}
		}
	case "Map", "MapSet":
		two := newScalar(w.t, gen.Jet{V: 2})
		w.note("%s(2*x)", op)
		if run(func() {
			if op == "Map" {
				w.a.Map(func(s ad.Scalar) { s.Mul(s, two) })
			} else {
				w.a.MapSet(func(s ad.ConstScalar) ad.Scalar {
					x := ad.NewScalar(w.t.T, 0)
					x.Mul(s, two)
					return x
				})
			}
		}) {
			for i := range w.m {
				x := ad.NewScalar(w.t.T, 0)
				x.Mul(w.m[i], two)
				w.m[i] = x
			}
		}
	case "Clone":
		w.note("CloneMatrix()")
		var c ad.Matrix
		if run(func() { c = w.a.CloneMatrix() }) {
			cw := &matWorld{t: w.t, a: c, R: w.R, C: w.C, m: w.m}
			if f := cw.check(true); f != nil {
				fail = &failure{f.kind, "on the clone: " + f.msg}
			} else if r.Bool() {
				w.a = c
				w.m = cloneModel(w.m)
				dropIts()
			}
		}
	case "Slice":
		r0 := r.Intn(w.R + 1)
		r1 := r0 + r.Intn(w.R-r0+1)
		c0 := r.Intn(w.C + 1)
		c1 := c0 + r.Intn(w.C-c0+1)
		class = "read-only"
		w.note("Slice(%d,%d,%d,%d)", r0, r1, c0, c1)
		var s ad.Matrix
		if run(func() { s = w.a.Slice(r0, r1, c0, c1) }) {
			sw := &matWorld{t: w.t, a: s, R: r1 - r0, C: c1 - c0}
			for i := r0; i < r1; i++ {
				sw.m = append(sw.m, w.m[i*w.C+c0:i*w.C+c1]...)
			}
			if f := sw.check(true); f != nil {
				fail = &failure{f.kind, "on the slice: " + f.msg}
			}
		}
	case "iter-new":
		if len(w.its) >= 3 {
			w.its = w.its[1:]
		}
		w.note("ConstIterator()")
		run(func() {
			li := &liveMatIt{it: w.a.ConstIterator(), li: -1, lj: -1}
			w.its = append(w.its, li)
			fail = w.checkLive(li)
		})
	case "iter-next":
		if len(w.its) == 0 {
			return "iter-next(none)", "", nil
		}
		li := w.its[r.Intn(len(w.its))]
		w.note("iterator.Next()")
		run(func() {
			if li.it.Ok() {
				li.it.Next()
				fail = w.checkLive(li)
			}
		})
	}
	return op, class, fail
}

func (w *matWorld) checkLive(li *liveMatIt) *failure {
	// successor semantics in row-major order
	ei, ej := -1, -1
	for k := 0; k < w.R*w.C && w.C > 0; k++ {
		x, y := k/w.C, k%w.C
		if (x > li.li || (x == li.li && y > li.lj)) && !isZero(snap.Scalar(w.m[k]), w.t.IsInt) {
			ei, ej = x, y
			break
		}
	}
	if !li.it.Ok() {
		if ei >= 0 {
			return &failure{"live-iterator-skip", fmt.Sprintf("live iterator exhausted after (%d,%d), but (%d,%d) holds a non-zero element", li.li, li.lj, ei, ej)}
		}
		return nil
	}
	i, j := li.it.Index()
	if ei >= 0 && (i > ei || (i == ei && j > ej)) {
		return &failure{"live-iterator-skip", fmt.Sprintf("live iterator moved from (%d,%d) to (%d,%d) and skipped the non-zero element at (%d,%d)", li.li, li.lj, i, j, ei, ej)}
	}
	if i < li.li || (i == li.li && j <= li.lj) {
		return &failure{"live-iterator-order", fmt.Sprintf("live iterator yields (%d,%d) after (%d,%d)", i, j, li.li, li.lj)}
	}
	li.li, li.lj = i, j
	if i < 0 || j < 0 || i >= w.R || j >= w.C {
		return &failure{"live-iterator-range", fmt.Sprintf("live iterator yields (%d,%d) outside %dx%d", i, j, w.R, w.C)}
	}
	c := li.it.GetConst()
	if c == nil {
		return &failure{"live-iterator-nil", fmt.Sprintf("live iterator Ok() at (%d,%d) but GetConst() is nil", i, j)}
	}
	if isZero(snap.Scalar(w.m[i*w.C+j]), w.t.IsInt) {
		return &failure{"live-iterator-zero", fmt.Sprintf("live iterator stops at (%d,%d) where the model is zero", i, j)}
	}
	if d := snap.Diff(snap.Scalar(w.m[i*w.C+j]), snap.Scalar(c), w.t.IsInt); d != "" {
		return &failure{"value", fmt.Sprintf("live iterator at (%d,%d): model %s", i, j, d)}
	}
	return nil
}

func runMatrixHistory(cs *fw.Case, t gen.ElemType, steps int) {
	r := cs.R
	R, C := r.Range(0, 5), r.Range(0, 5)
	if r.Chance(0.5) {
		C = R // square matrices enable the permutation operations
	}
	nvar, order := 0, 0
	if t.IsReal && r.Chance(0.6) {
		nvar, order = r.Range(1, 2), r.Range(1, 2)
	}
	init := gen.GenMatrix(t, gen.Sparse, gen.ZeroPatterns[r.Intn(len(gen.ZeroPatterns))], R, C, r, nvar, order, false)
	w := &matWorld{t: t, a: init.Build(), R: R, C: C, m: specModel(t, init.Vals)}
	w.note("init %s", init)
	everyStepIterate := r.Bool()
	structural, reads := 0, 0
	if cs.Index < 2 {
		defer func() { cs.Sample(map[string]any{"type": t.Name, "history": w.trace}) }()
	}
	report := func(op, class string, f *failure) {
		cs.Violation(fmt.Sprintf("C11|%s,matrix|after=%s|%s|%s", t.Name, op, class, f.kind), f.msg,
			map[string]any{"type": t.Name, "history": w.trace})
	}
	if f := w.check(true); f != nil {
		report("init", init.Pattern, f)
		return
	}
	for s := 0; s < steps; s++ {
		op, class, f := w.step(r, cs, nvar, order)
		cs.Cover("mat-op:" + strings.SplitN(op, ":", 2)[0])
		if f != nil {
			report(op, class, f)
			return
		}
		if w.modelAmbiguous() {
			cs.Cover("history-with-zero-value-nonzero-derivative-element")
		}
		switch strings.SplitN(op, ":", 2)[0] {
		case "iter-new", "iter-next", "Slice", "Clone", "at", "Row", "Col", "Diag":
		default:
			structural++
		}
		if f := w.check(everyStepIterate || r.Chance(0.15)); f != nil {
			report(op, class, f)
			return
		}
		reads++
	}
	if f := w.check(true); f != nil {
		report("final", "", f)
		return
	}
	if structural > 0 && reads > 0 {
		cs.Nontrivial(t.Name, w.trace)
	}
}
