package c11

import (
	"verifharness/internal/fw"
	"verifharness/internal/gen"
)

// Run is the C11 workload: for every element type, random histories on sparse
// vectors and sparse matrices, judged after every step against a dense model
// made of free-standing library scalars.
func Run(c *fw.Ctx) {
	for _, t := range gen.Types {
		t := t
		nv, nm := c.N(2800, 30000), c.N(2000, 20000)
		if t.Name == "Float64" || t.Name == "Real64" || t.Name == "Int" {
			nv, nm = c.N(5600, 60000), c.N(4000, 40000)
		}
		c.Cases("vector/"+t.Name, nv, func(cs *fw.Case) {
			runVectorHistory(cs, t, c.N(40, 100))
		})
		c.Cases("matrix/"+t.Name, nm, func(cs *fw.Case) {
			runMatrixHistory(cs, t, c.N(30, 80))
		})
	}
}
