package c11

import (
	"reflect"

	ad "github.com/pbenner/autodiff"
)

// vecHas reports whether a sparse vector holds a stored entry at i (read of
// the private map by reflection; used only to label the input class of an
// operation, never for a verdict).  Dense vectors hold every entry.
func vecHas(v ad.Vector, i int) bool {
	rv := reflect.ValueOf(v)
	if rv.Kind() != reflect.Ptr || rv.Elem().Kind() != reflect.Struct {
		return true
	}
	f := rv.Elem().FieldByName("values")
	if !f.IsValid() || f.Kind() != reflect.Map {
		return true
	}
	return f.MapIndex(reflect.ValueOf(i)).IsValid()
}

// matHas is vecHas for sparse matrices (storage index from the private view fields).
func matHas(m ad.Matrix, i, j int) bool {
	rv := reflect.ValueOf(m)
	if rv.Kind() != reflect.Ptr || rv.Elem().Kind() != reflect.Struct {
		return true
	}
	s := rv.Elem()
	vals := s.FieldByName("values")
	if !vals.IsValid() || vals.Kind() != reflect.Ptr || vals.IsNil() {
		return true
	}
	mp := vals.Elem().FieldByName("values")
	if !mp.IsValid() || mp.Kind() != reflect.Map {
		return true
	}
	geti := func(n string) int { return int(s.FieldByName(n).Int()) }
	k := (geti("rowOffset")+i)*geti("colMax") + geti("colOffset") + j
	return mp.MapIndex(reflect.ValueOf(k)).IsValid()
}
