package c12

import (
	"fmt"
	"strings"

	ad "github.com/pbenner/autodiff"

	"verifharness/internal/fw"
	"verifharness/internal/gen"
	"verifharness/internal/prng"
)

// operand is one read-only argument of a call: the object, the objects whose
// storage it may share (parents of views) and their states before the call.
type operand struct {
	Name    string
	Obj     any
	Parent  any
	S0, P0  shot
	Exclude bool       // documented in-situ opt-in: expected to change
	Get     func() any // reads the observable state when it is not a container (else nil)
}

func (o *operand) cur() any {
	if o.Get != nil {
		return o.Get()
	}
	return o.Obj
}

func (o *operand) snap() {
	o.S0 = take(o.cur())
	if o.Parent != nil {
		o.P0 = take(o.Parent)
	}
}

// changed returns the description of the first observable change.
func (o *operand) changed() string {
	if o.Exclude {
		return ""
	}
	if d := unchanged(o.S0, take(o.cur())); d != "" {
		return d
	}
	if o.Parent != nil {
		if d := unchanged(o.P0, take(o.Parent)); d != "" {
			return "parent of the view: " + d
		}
	}
	return ""
}

func genVecOperand(name string, t gen.ElemType, n int, r *prng.Rand, divisor bool) *operand {
	storage := storages[r.Intn(2)]
	view := vectorViews[r.Intn(len(vectorViews))]
	var v, parent ad.Vector
	m := n
	if view != "full" {
		m = n + r.Range(1, 3)
	}
	parent = gen.NullVector(t, storage, m)
	fillV(parent, t, r, pzIf(divisor, storage), true)
	v = parent
	if view != "full" {
		i := r.Intn(m - n + 1)
		v = parent.Slice(i, i+n)
	}
	o := &operand{Name: fmt.Sprintf("%s(%s,%s)", name, storage, viewCat(view)), Obj: v}
	if view != "full" {
		o.Parent = parent
	}
	return o
}

func pzIf(divisor bool, storage string) float64 {
	if divisor {
		return 0
	}
	return pzOf(storage)
}

func genMatOperand(name string, t gen.ElemType, rows, cols int, r *prng.Rand, divisor bool) *operand {
	storage := storages[r.Intn(2)]
	view := []string{"full", "slice", "T", "T.slice"}[r.Intn(4)]
	if storage == gen.Sparse && view == "T.slice" {
		view = "slice"
	}
	pr, pc := rows, cols
	if view == "T" || view == "T.slice" {
		pr, pc = cols, rows
	}
	dr, dc := 0, 0
	if view == "slice" || view == "T.slice" {
		dr, dc = r.Range(0, 2), r.Range(0, 2)
		if dr+dc == 0 {
			dr = 1
		}
	}
	var parent ad.Matrix
	if view == "T.slice" {
		parent = gen.NullMatrix(t, storage, pr+dc, pc+dr)
	} else {
		parent = gen.NullMatrix(t, storage, pr+dr, pc+dc)
	}
	fillM(parent, t, r, pzIf(divisor, storage), true)
	m := parent
	switch view {
	case "slice":
		i, j := r.Intn(dr+1), r.Intn(dc+1)
		m = parent.Slice(i, i+rows, j, j+cols)
	case "T":
		m = parent.T()
	case "T.slice":
		i, j := r.Intn(dr+1), r.Intn(dc+1)
		m = parent.T().Slice(i, i+rows, j, j+cols)
	}
	o := &operand{Name: fmt.Sprintf("%s(%s,%s)", name, storage, viewCat(view)), Obj: m}
	if view != "full" {
		o.Parent = parent
	}
	return o
}

func genScalarOperand(name string, t gen.ElemType, r *prng.Rand, divisor bool) *operand {
	s := ad.NewScalar(t.T, 0)
	v := t.Value(r)
	if divisor {
		v = t.Divisor(r)
	}
	gen.SetScalar(s, gen.RandJet(t, r, v, r.Range(0, 2), r.Range(0, 2)))
	return &operand{Name: name, Obj: s}
}

type opSpec struct {
	Name string
	// Build makes the receiver-bound call and lists its read-only operands
	Build func(t gen.ElemType, r *prng.Rand) (call func(), ops []*operand, recv string, result func() any)
}

func vecRecv(t gen.ElemType, n int, r *prng.Rand) ad.Vector {
	v := gen.NullVector(t, storages[r.Intn(2)], n)
	fillV(v, t, r, 0.4, true)
	return v
}

func matRecv(t gen.ElemType, rows, cols int, r *prng.Rand) ad.Matrix {
	m := gen.NullMatrix(t, storages[r.Intn(2)], rows, cols)
	fillM(m, t, r, 0.4, true)
	return m
}

func vecBin(name string, div bool, f func(rc ad.Vector, a, b ad.Vector)) opSpec {
	return opSpec{name, func(t gen.ElemType, r *prng.Rand) (func(), []*operand, string, func() any) {
		n := r.Range(1, 6)
		a, b := genVecOperand("a", t, n, r, false), genVecOperand("b", t, n, r, div)
		rc := vecRecv(t, n, r)
		return func() { f(rc, a.Obj.(ad.Vector), b.Obj.(ad.Vector)) }, []*operand{a, b}, typeName(rc), func() any { return rc }
	}}
}

func vecSc(name string, div bool, f func(rc ad.Vector, a ad.Vector, b ad.Scalar)) opSpec {
	return opSpec{name, func(t gen.ElemType, r *prng.Rand) (func(), []*operand, string, func() any) {
		n := r.Range(1, 6)
		a, b := genVecOperand("a", t, n, r, false), genScalarOperand("b", t, r, div)
		rc := vecRecv(t, n, r)
		return func() { f(rc, a.Obj.(ad.Vector), b.Obj.(ad.Scalar)) }, []*operand{a, b}, typeName(rc), func() any { return rc }
	}}
}

func matBin(name string, div bool, f func(rc ad.Matrix, a, b ad.Matrix)) opSpec {
	return opSpec{name, func(t gen.ElemType, r *prng.Rand) (func(), []*operand, string, func() any) {
		rows, cols := r.Range(1, 4), r.Range(1, 4)
		a, b := genMatOperand("a", t, rows, cols, r, false), genMatOperand("b", t, rows, cols, r, div)
		rc := matRecv(t, rows, cols, r)
		return func() { f(rc, a.Obj.(ad.Matrix), b.Obj.(ad.Matrix)) }, []*operand{a, b}, typeName(rc), func() any { return rc }
	}}
}

func matSc(name string, div bool, f func(rc ad.Matrix, a ad.Matrix, b ad.Scalar)) opSpec {
	return opSpec{name, func(t gen.ElemType, r *prng.Rand) (func(), []*operand, string, func() any) {
		rows, cols := r.Range(1, 4), r.Range(1, 4)
		a, b := genMatOperand("a", t, rows, cols, r, false), genScalarOperand("b", t, r, div)
		rc := matRecv(t, rows, cols, r)
		return func() { f(rc, a.Obj.(ad.Matrix), b.Obj.(ad.Scalar)) }, []*operand{a, b}, typeName(rc), func() any { return rc }
	}}
}

func scBin(name string, div bool, f func(rc ad.Scalar, a, b ad.Scalar)) opSpec {
	return opSpec{name, func(t gen.ElemType, r *prng.Rand) (func(), []*operand, string, func() any) {
		a, b := genScalarOperand("a", t, r, false), genScalarOperand("b", t, r, div)
		rc := ad.NewScalar(t.T, 0)
		return func() { f(rc, a.Obj.(ad.Scalar), b.Obj.(ad.Scalar)) }, []*operand{a, b}, typeName(rc), func() any { return rc }
	}}
}

func scUn(name string, f func(rc ad.Scalar, a ad.Scalar)) opSpec {
	return opSpec{name, func(t gen.ElemType, r *prng.Rand) (func(), []*operand, string, func() any) {
		a := genScalarOperand("a", t, r, false)
		rc := ad.NewScalar(t.T, 0)
		return func() { f(rc, a.Obj.(ad.Scalar)) }, []*operand{a}, typeName(rc), func() any { return rc }
	}}
}

func scVec(name string, f func(rc ad.Scalar, a ad.Vector)) opSpec {
	return opSpec{name, func(t gen.ElemType, r *prng.Rand) (func(), []*operand, string, func() any) {
		a := genVecOperand("a", t, r.Range(1, 6), r, false)
		rc := ad.NewScalar(t.T, 0)
		return func() { f(rc, a.Obj.(ad.Vector)) }, []*operand{a}, typeName(rc), func() any { return rc }
	}}
}

var opSpecs = []opSpec{
	vecBin("VaddV", false, func(rc, a, b ad.Vector) { rc.VaddV(a, b) }),
	vecBin("VsubV", false, func(rc, a, b ad.Vector) { rc.VsubV(a, b) }),
	vecBin("VmulV", false, func(rc, a, b ad.Vector) { rc.VmulV(a, b) }),
	vecBin("VdivV", true, func(rc, a, b ad.Vector) { rc.VdivV(a, b) }),
	vecSc("VaddS", false, func(rc, a ad.Vector, b ad.Scalar) { rc.VaddS(a, b) }),
	vecSc("VsubS", false, func(rc, a ad.Vector, b ad.Scalar) { rc.VsubS(a, b) }),
	vecSc("VmulS", false, func(rc, a ad.Vector, b ad.Scalar) { rc.VmulS(a, b) }),
	vecSc("VdivS", true, func(rc, a ad.Vector, b ad.Scalar) { rc.VdivS(a, b) }),
	{"Vector.Set", func(t gen.ElemType, r *prng.Rand) (func(), []*operand, string, func() any) {
		n := r.Range(1, 6)
		a := genVecOperand("a", t, n, r, false)
		rc := vecRecv(t, n, r)
		return func() { rc.Set(a.Obj.(ad.Vector)) }, []*operand{a}, typeName(rc), func() any { return rc }
	}},
	{"MdotV", func(t gen.ElemType, r *prng.Rand) (func(), []*operand, string, func() any) {
		rows, cols := r.Range(1, 4), r.Range(1, 4)
		a, b := genMatOperand("a", t, rows, cols, r, false), genVecOperand("b", t, cols, r, false)
		rc := vecRecv(t, rows, r)
		return func() { rc.MdotV(a.Obj.(ad.Matrix), b.Obj.(ad.Vector)) }, []*operand{a, b}, typeName(rc), func() any { return rc }
	}},
	{"VdotM", func(t gen.ElemType, r *prng.Rand) (func(), []*operand, string, func() any) {
		rows, cols := r.Range(1, 4), r.Range(1, 4)
		a, b := genVecOperand("a", t, rows, r, false), genMatOperand("b", t, rows, cols, r, false)
		rc := vecRecv(t, cols, r)
		return func() { rc.VdotM(a.Obj.(ad.Vector), b.Obj.(ad.Matrix)) }, []*operand{a, b}, typeName(rc), func() any { return rc }
	}},
	matBin("MaddM", false, func(rc, a, b ad.Matrix) { rc.MaddM(a, b) }),
	matBin("MsubM", false, func(rc, a, b ad.Matrix) { rc.MsubM(a, b) }),
	matBin("MmulM", false, func(rc, a, b ad.Matrix) { rc.MmulM(a, b) }),
	matBin("MdivM", true, func(rc, a, b ad.Matrix) { rc.MdivM(a, b) }),
	matSc("MaddS", false, func(rc, a ad.Matrix, b ad.Scalar) { rc.MaddS(a, b) }),
	matSc("MsubS", false, func(rc, a ad.Matrix, b ad.Scalar) { rc.MsubS(a, b) }),
	matSc("MmulS", false, func(rc, a ad.Matrix, b ad.Scalar) { rc.MmulS(a, b) }),
	matSc("MdivS", true, func(rc, a ad.Matrix, b ad.Scalar) { rc.MdivS(a, b) }),
	{"Matrix.Set", func(t gen.ElemType, r *prng.Rand) (func(), []*operand, string, func() any) {
		rows, cols := r.Range(1, 4), r.Range(1, 4)
		a := genMatOperand("a", t, rows, cols, r, false)
		rc := matRecv(t, rows, cols, r)
		return func() { rc.Set(a.Obj.(ad.Matrix)) }, []*operand{a}, typeName(rc), func() any { return rc }
	}},
	{"MdotM", func(t gen.ElemType, r *prng.Rand) (func(), []*operand, string, func() any) {
		n, k, m := r.Range(1, 4), r.Range(1, 4), r.Range(1, 4)
		a, b := genMatOperand("a", t, n, k, r, false), genMatOperand("b", t, k, m, r, false)
		rc := matRecv(t, n, m, r)
		return func() { rc.MdotM(a.Obj.(ad.Matrix), b.Obj.(ad.Matrix)) }, []*operand{a, b}, typeName(rc), func() any { return rc }
	}},
	{"Outer", func(t gen.ElemType, r *prng.Rand) (func(), []*operand, string, func() any) {
		n, m := r.Range(1, 4), r.Range(1, 4)
		a, b := genVecOperand("a", t, n, r, false), genVecOperand("b", t, m, r, false)
		rc := matRecv(t, n, m, r)
		return func() { rc.Outer(a.Obj.(ad.Vector), b.Obj.(ad.Vector)) }, []*operand{a, b}, typeName(rc), func() any { return rc }
	}},
	{"AppendVector", func(t gen.ElemType, r *prng.Rand) (func(), []*operand, string, func() any) {
		a, b := genVecOperand("a", t, r.Range(1, 5), r, false), genVecOperand("b", t, r.Range(1, 5), r, false)
		var res ad.Vector
		return func() { res = a.Obj.(ad.Vector).AppendVector(b.Obj.(ad.Vector)) }, []*operand{a, b}, typeName(a.Obj), func() any { return res }
	}},
	{"AppendScalar", func(t gen.ElemType, r *prng.Rand) (func(), []*operand, string, func() any) {
		a, b := genVecOperand("a", t, r.Range(1, 5), r, false), genScalarOperand("b", t, r, true)
		var res ad.Vector
		return func() { res = a.Obj.(ad.Vector).AppendScalar(b.Obj.(ad.Scalar)) }, []*operand{a, b}, typeName(a.Obj), func() any { return res }
	}},
	{"Row/Col/Diag", func(t gen.ElemType, r *prng.Rand) (func(), []*operand, string, func() any) {
		n := r.Range(1, 4)
		a := genMatOperand("a", t, n, n, r, true)
		var res ad.Vector
		k := r.Intn(3)
		i := r.Intn(n)
		return func() {
			m := a.Obj.(ad.Matrix)
			switch k {
			case 0:
				res = m.Row(i)
			case 1:
				res = m.Col(i)
			default:
				res = m.Diag()
			}
		}, []*operand{a}, typeName(a.Obj), func() any { return res }
	}},
	scBin("Add", false, func(rc, a, b ad.Scalar) { rc.Add(a, b) }),
	scBin("Sub", false, func(rc, a, b ad.Scalar) { rc.Sub(a, b) }),
	scBin("Mul", false, func(rc, a, b ad.Scalar) { rc.Mul(a, b) }),
	scBin("Div", true, func(rc, a, b ad.Scalar) { rc.Div(a, b) }),
	scBin("Min", false, func(rc, a, b ad.Scalar) { rc.Min(a, b) }),
	scBin("Max", false, func(rc, a, b ad.Scalar) { rc.Max(a, b) }),
	scBin("Pow", true, func(rc, a, b ad.Scalar) { rc.Pow(a, b) }),
	scBin("Scalar.Set", false, func(rc, a, b ad.Scalar) { rc.Set(a) }),
	scUn("Neg", func(rc, a ad.Scalar) { rc.Neg(a) }),
	scUn("Abs", func(rc, a ad.Scalar) { rc.Abs(a) }),
	scUn("Exp", func(rc, a ad.Scalar) { rc.Exp(a) }),
	scUn("Tanh", func(rc, a ad.Scalar) { rc.Tanh(a) }),
	scUn("Sigmoid", func(rc, a ad.Scalar) { rc.Sigmoid(a, ad.NewScalar(a.Type(), 0)) }),
	scUn("Log1pExp", func(rc, a ad.Scalar) { rc.Log1pExp(a) }),
	scVec("Vmean", func(rc ad.Scalar, a ad.Vector) { rc.Vmean(a) }),
	scVec("Vnorm", func(rc ad.Scalar, a ad.Vector) { rc.Vnorm(a) }),
	scVec("VdotV(a,a)", func(rc ad.Scalar, a ad.Vector) { rc.VdotV(a, a) }),
	{"Mnorm/Mtrace", func(t gen.ElemType, r *prng.Rand) (func(), []*operand, string, func() any) {
		n := r.Range(1, 4)
		a := genMatOperand("a", t, n, n, r, false)
		rc := ad.NewScalar(t.T, 0)
		return func() { rc.Mnorm(a.Obj.(ad.Matrix)); rc.Mtrace(a.Obj.(ad.Matrix)) }, []*operand{a}, typeName(rc), func() any { return rc }
	}},
	{"Reduce", func(t gen.ElemType, r *prng.Rand) (func(), []*operand, string, func() any) {
		a := genVecOperand("a", t, r.Range(1, 6), r, false)
		rc := ad.NewScalar(t.T, 0)
		return func() {
			a.Obj.(ad.Vector).Reduce(func(x ad.Scalar, y ad.ConstScalar) ad.Scalar { return x.Add(x, y) }, rc)
		}, []*operand{a}, typeName(a.Obj), nil
	}},
	{"Equals/Table/String/MarshalJSON", func(t gen.ElemType, r *prng.Rand) (func(), []*operand, string, func() any) {
		n := r.Range(1, 4)
		a, b := genMatOperand("a", t, n, n, r, false), genMatOperand("b", t, n, n, r, false)
		return func() {
			am, bm := a.Obj.(ad.Matrix), b.Obj.(ad.Matrix)
			am.Equals(bm, 1e-8)
			_ = am.Table()
			_ = am.String()
			am.MarshalJSON()
			am.IsSymmetric(1e-8)
			am.ConstRow(0)
			am.ConstCol(0)
			am.ConstDiag()
		}, []*operand{a, b}, typeName(a.Obj), nil
	}},
}

// mutateAny applies one seeded mutation to a scalar, vector or matrix and
// returns the name of the operator ("" when the object cannot be mutated).
func mutateAny(x any, t gen.ElemType, r *prng.Rand) string {
	name := ""
	switch o := x.(type) {
	case ad.Matrix:
		if rows, cols := o.Dims(); rows == 0 || cols == 0 {
			return ""
		}
		mu := matMuts[r.Intn(len(matMuts))]
		name = mu.Name
		fw.Call(func() { mu.F(o, t, r) })
	case ad.Vector:
		if o.Dim() == 0 {
			return ""
		}
		mu := vecMuts[r.Intn(len(vecMuts))]
		name = mu.Name
		fw.Call(func() { mu.F(o, t, r) })
	case ad.Scalar:
		name = scalarMuts[r.Intn(len(scalarMuts))]
		fw.Call(func() { mutateScalar(o, t, name, r) })
	}
	return name
}

func opsInputCase(cs *fw.Case) {
	const monitor = "input.op"
	r := cs.R
	i := cs.Index
	t := gen.Types[i%9]
	spec := opSpecs[(i/9)%len(opSpecs)]
	var call func()
	var ops []*operand
	var recv string
	var result func() any
	if p := fw.Call(func() { call, ops, recv, result = spec.Build(t, r) }); p != nil {
		cs.Skip("operand-construction-panics")
		return
	}
	judgeOp(cs, monitor, recv+"."+spec.Name, spec.Name+"/"+t.Name, t, call, ops, result)
}

// judgeOp runs one operation and judges it: operands unchanged by the call,
// then result and operands independent of each other under later writes.
func judgeOp(cs *fw.Case, monitor, routine, coverKey string, t gen.ElemType, call func(), ops []*operand, result func() any) {
	r := cs.R
	for _, o := range ops {
		o.snap()
		if o.S0.Err != "" || o.P0.Err != "" {
			cs.Skip("operand-read-panics")
			return
		}
	}
	pc := fw.Call(call)
	if pc != nil {
		cs.Cover(monitor + ":call-panics:" + coverKey)
	}
	cs.Cover(monitor + ":" + coverKey)
	names := ""
	for _, o := range ops {
		names += o.Name + ";"
		cs.Cover("set:" + monitor + "-operand-configs:" + o.Name)
	}
	first := ""
	if len(ops) > 0 {
		first = ops[0].S0.Str
	}
	cs.Nontrivial(routine, names, first)
	cs.Sample(map[string]any{"routine": routine, "operands": names, "a": clip(first, 200)})
	for _, o := range ops {
		if d := o.changed(); d != "" {
			cs.Violation(sig(monitor, routine, "operands:"+names, "arg="+o.Name, "modified"),
				fmt.Sprintf("read-only operand %s changed during the call: %s", o.Name, d), map[string]any{"routine": routine, "operand_before": clip(o.S0.Str, 400), "operands": names})
			return
		}
	}
	// the result must not share cells with an operand: mutate one side, watch the other
	if pc != nil || result == nil || len(ops) == 0 {
		return
	}
	var res any
	if p := fw.Call(func() { res = result() }); p != nil || res == nil {
		return
	}
	rt := t
	w := map[string]any{"routine": routine, "operands": names, "operand_a": clip(first, 300)}
	if r.Bool() {
		cs.Cover(monitor + ":independence:mutate-result")
		for k := r.Range(2, 4); k > 0; k-- {
			name := mutateAny(res, rt, r)
			if name == "" {
				return
			}
			for _, o := range ops {
				if d := o.changed(); d != "" {
					w["mutation"] = name
					w["mutated"] = "result"
					cs.Violation(sig(monitor, routine, "operand="+baseName(o.Name), "result-aliases-operand", "shared-state"),
						fmt.Sprintf("after %s on the result of the operation, operand %s changed: %s", name, o.Name, d), w)
					return
				}
			}
		}
		return
	}
	cs.Cover(monitor + ":independence:mutate-operand")
	r0 := take(res)
	if r0.Err != "" {
		return
	}
	o := ops[r.Intn(len(ops))]
	for k := r.Range(2, 4); k > 0; k-- {
		name := mutateAny(o.Obj, t, r)
		if name == "" {
			return
		}
		if d := unchanged(r0, take(res)); d != "" {
			w["mutation"] = name
			w["mutated"] = "operand " + o.Name
			cs.Violation(sig(monitor, routine, "operand="+baseName(o.Name), "result-aliases-operand", "shared-state"),
				fmt.Sprintf("after %s on operand %s, the result of the earlier operation changed: %s", name, o.Name, d), w)
			return
		}
	}
}

// baseName strips the storage / view descriptor: a(dense,sliced) -> a
func baseName(n string) string {
	if k := strings.Index(n, "("); k > 0 {
		return n[:k]
	}
	return n
}

func mutClassAny(name string) string {
	switch name {
	case "SetFloat64", "Add-in-place", "Reset", "Set(other)", "Neg-in-place":
		return "element-write"
	case "SetDerivative-in-place", "Alloc":
		return "derivative-write"
	}
	return mutClass(name)
}
