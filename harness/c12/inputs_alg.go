package c12

import (
	"fmt"
	"math"
	"reflect"
	"strings"

	ad "github.com/pbenner/autodiff"
	"github.com/pbenner/autodiff/algorithm/adam"
	"github.com/pbenner/autodiff/algorithm/backSubstitution"
	"github.com/pbenner/autodiff/algorithm/bfgs"
	"github.com/pbenner/autodiff/algorithm/blahut"
	"github.com/pbenner/autodiff/algorithm/cholesky"
	"github.com/pbenner/autodiff/algorithm/determinant"
	"github.com/pbenner/autodiff/algorithm/eigensystem"
	"github.com/pbenner/autodiff/algorithm/gaussJordan"
	"github.com/pbenner/autodiff/algorithm/givensRotation"
	"github.com/pbenner/autodiff/algorithm/gradientDescent"
	"github.com/pbenner/autodiff/algorithm/gramSchmidt"
	"github.com/pbenner/autodiff/algorithm/hessenbergReduction"
	"github.com/pbenner/autodiff/algorithm/householder"
	"github.com/pbenner/autodiff/algorithm/householderBidiagonalization"
	"github.com/pbenner/autodiff/algorithm/householderTridiagonalization"
	"github.com/pbenner/autodiff/algorithm/lineSearch"
	"github.com/pbenner/autodiff/algorithm/matrixInverse"
	"github.com/pbenner/autodiff/algorithm/msqrt"
	"github.com/pbenner/autodiff/algorithm/msqrtInv"
	"github.com/pbenner/autodiff/algorithm/newton"
	"github.com/pbenner/autodiff/algorithm/qrAlgorithm"
	"github.com/pbenner/autodiff/algorithm/rprop"
	"github.com/pbenner/autodiff/algorithm/saga"
	"github.com/pbenner/autodiff/algorithm/svd"

	"verifharness/internal/fw"
	"verifharness/internal/gen"
	"verifharness/internal/prng"
)

// algCall is one prepared call of an algorithm entry point.
type algCall struct {
	Routine string
	Opts    []string
	Ops     []*operand
	Call    func() error
}

// A is the construction context of one algorithm case.
type A struct {
	R   *prng.Rand
	T   gen.ElemType // element type of matrices / vectors handed to linear algebra
	V   int          // option combination
	ops []*operand
	opt []string
	// results of the last call (for the repetition with the same option slice)
	outs []any
	// failure injection into objective functions: at evaluation failAt the
	// objective returns an error (or NaN when failNaN)
	failAt, evals int
	failNaN       bool
}

// out records the results of a call.
func (a *A) out(xs ...any) { a.outs = xs }

// failBit consumes one option bit: the objective fails at one of its first evaluations.
func (a *A) failBit() {
	if a.bit("objective-fails") {
		a.failAt = a.R.Range(1, 7)
		a.failNaN = a.R.Chance(0.3)
		if a.failNaN {
			a.opt[len(a.opt)-1] = "objective-returns-NaN"
		}
	}
}

func (a *A) tick() (fail, nan bool) {
	a.evals++
	if a.failAt > 0 && a.evals >= a.failAt {
		return true, a.failNaN
	}
	return false, false
}

func (a *A) objective(c, m []float64) func(ad.ConstVector) (ad.MagicScalar, error) {
	f := quadratic(c, m)
	return func(x ad.ConstVector) (ad.MagicScalar, error) {
		if fail, nan := a.tick(); fail {
			if nan {
				r, _ := f(x)
				r.SetFloat64(math.NaN())
				return r, nil
			}
			return nil, fmt.Errorf("objective fails")
		}
		return f(x)
	}
}

func (a *A) gradient(c, m []float64) func(x, g ad.DenseFloat64Vector) error {
	f := quadraticGradient(c, m)
	return func(x, g ad.DenseFloat64Vector) error {
		if fail, nan := a.tick(); fail {
			if nan {
				for i := range g {
					g[i] = math.NaN()
				}
				return nil
			}
			return fmt.Errorf("gradient fails")
		}
		return f(x, g)
	}
}

// optSlice turns the options into a caller-owned slice with spare capacity
// (Run(m, opts...) hands the callee the caller's array) and watches it: its
// length, the identity of pointer options and the value of value options.
func (a *A) optSlice(args []interface{}) []interface{} {
	own := make([]interface{}, len(args), len(args)+3)
	copy(own, args)
	a.ops = append(a.ops, &operand{Name: "options-slice", Get: func() any {
		full := own[:cap(own)]
		d := make([]string, 0, len(full)+1)
		d = append(d, fmt.Sprintf("len=%d", len(own)))
		for _, x := range full {
			d = append(d, describeOption(x))
		}
		return d
	}})
	return own
}

func describeOption(x any) string {
	if x == nil {
		return "nil"
	}
	v := reflect.ValueOf(x)
	switch v.Kind() {
	case reflect.Ptr:
		return fmt.Sprintf("%T@%p", x, x) // in-situ structs are filled by design: identity only
	case reflect.Struct:
		// option values: the type and every field that is plain data
		s := fmt.Sprintf("%T{", x)
		for i := 0; i < v.NumField(); i++ {
			f := v.Field(i)
			switch f.Kind() {
			case reflect.Func:
				s += "func;"
			case reflect.Ptr, reflect.Interface, reflect.Slice, reflect.Map:
				if f.IsNil() {
					s += "nil;"
				} else if f.Kind() == reflect.Slice {
					s += fmt.Sprintf("slice@%x/%d;", f.Pointer(), f.Len())
				} else {
					s += fmt.Sprintf("%s;", f.Type())
				}
			default:
				if f.CanInterface() {
					s += fmt.Sprintf("%v;", f.Interface())
				}
			}
		}
		return s + "}"
	}
	return fmt.Sprintf("%T", x)
}

// bit consumes one binary choice of the option combination.
func (a *A) bit(name string) bool {
	b := a.V&1 == 1
	a.V >>= 1
	if b {
		a.opt = append(a.opt, name)
	}
	return b
}

// matOf wraps values into a matrix operand: dense storage mostly, handed over
// as a plain object, as a slice of a larger matrix or as a transposed view.
func (a *A) matOf(name string, vals []float64, rows, cols int) ad.Matrix {
	r := a.R
	view := []string{"full", "full", "slice", "T"}[r.Intn(4)]
	storage := gen.Dense
	if r.Chance(0.1) {
		storage = gen.Sparse
		if view == "T" {
			view = "full"
		}
	}
	var parent, m ad.Matrix
	switch view {
	case "slice":
		i0, j0 := r.Intn(2), r.Intn(2)
		parent = gen.NullMatrix(a.T, storage, rows+i0+r.Intn(2), cols+j0+r.Intn(2))
		pr, pc := parent.Dims()
		for i := 0; i < pr; i++ {
			for j := 0; j < pc; j++ {
				parent.At(i, j).SetFloat64(float64(r.Range(1, 9)))
			}
		}
		m = parent.Slice(i0, i0+rows, j0, j0+cols)
	case "T":
		parent = gen.NullMatrix(a.T, storage, cols, rows)
		m = parent.T()
	default:
		m = gen.NullMatrix(a.T, storage, rows, cols)
	}
	for i := 0; i < rows; i++ {
		for j := 0; j < cols; j++ {
			if v := vals[i*cols+j]; v != 0 || storage == gen.Dense {
				m.At(i, j).SetFloat64(v)
			}
		}
	}
	o := &operand{Name: name, Obj: m}
	if parent != nil {
		o.Parent = parent
	}
	a.ops = append(a.ops, o)
	a.opt = append(a.opt, fmt.Sprintf("%s:%s/%s", name, storage, viewCat(view)))
	return m
}

func (a *A) vecOf(name string, t gen.ElemType, vals []float64) ad.Vector {
	r := a.R
	storage := gen.Dense
	if r.Chance(0.15) {
		storage = gen.Sparse
	}
	var parent, v ad.Vector
	n := len(vals)
	if storage == gen.Dense && r.Chance(0.3) {
		i0 := r.Intn(2)
		parent = gen.NullVector(t, storage, n+i0+r.Intn(2))
		for i := 0; i < parent.Dim(); i++ {
			parent.At(i).SetFloat64(float64(r.Range(1, 9)))
		}
		v = parent.Slice(i0, i0+n)
	} else {
		v = gen.NullVector(t, storage, n)
	}
	for i, x := range vals {
		if x != 0 || storage == gen.Dense {
			v.At(i).SetFloat64(x)
		}
	}
	o := &operand{Name: name, Obj: v}
	view := "compact"
	if parent != nil {
		o.Parent = parent
		view = "sliced"
	}
	a.ops = append(a.ops, o)
	a.opt = append(a.opt, fmt.Sprintf("%s:%s/%s/%s", name, t.Name, storage, view))
	return v
}

func (a *A) watch(name string, obj any) {
	a.ops = append(a.ops, &operand{Name: name, Obj: obj})
}

func (a *A) randVals(n int) []float64 {
	v := make([]float64, n)
	for i := range v {
		v[i] = float64(a.R.Range(-16, 16)) / 4
	}
	return v
}

func (a *A) spdVals(n int) []float64 {
	b := a.randVals(n * n)
	s := make([]float64, n*n)
	for i := 0; i < n; i++ {
		for j := 0; j <= i; j++ {
			x := 0.0
			for k := 0; k < n; k++ {
				x += b[i*n+k] * b[j*n+k]
			}
			if i == j {
				x += float64(n)
			}
			s[i*n+j], s[j*n+i] = x, x
		}
	}
	return s
}

func (a *A) symVals(n int) []float64 {
	s := a.randVals(n * n)
	for i := 0; i < n; i++ {
		for j := 0; j < i; j++ {
			s[i*n+j] = s[j*n+i]
		}
	}
	return s
}

func (a *A) upperVals(n int) []float64 {
	s := a.randVals(n * n)
	for i := 0; i < n; i++ {
		for j := 0; j < i; j++ {
			s[i*n+j] = 0
		}
		if s[i*n+i] == 0 {
			s[i*n+i] = 1.5
		}
	}
	return s
}

// objective f(x) = sum_i c_i (x_i - m_i)^2 as a magic scalar.
func quadratic(c, m []float64) func(ad.ConstVector) (ad.MagicScalar, error) {
	return func(x ad.ConstVector) (ad.MagicScalar, error) {
		r := ad.NewReal64(0)
		t := ad.NewReal64(0)
		for i := 0; i < x.Dim(); i++ {
			t.Sub(x.ConstAt(i), ad.ConstFloat64(m[i]))
			t.Mul(t, t)
			t.Mul(t, ad.ConstFloat64(c[i]))
			r.Add(r, t)
		}
		return r, nil
	}
}

func quadraticGradient(c, m []float64) func(x, g ad.DenseFloat64Vector) error {
	return func(x, g ad.DenseFloat64Vector) error {
		for i := range x {
			g[i] = 2 * c[i] * (x[i] - m[i])
		}
		return nil
	}
}

func (a *A) quadSpec(n int) (c, m []float64) {
	c, m = make([]float64, n), make([]float64, n)
	for i := range c {
		c[i] = float64(a.R.Range(1, 8)) / 2
		m[i] = float64(a.R.Range(-8, 8)) / 2
	}
	return
}

var linTypes = []gen.ElemType{gen.Types[6], gen.Types[8], gen.Types[5], gen.Types[7]} // Float64 Real64 Float32 Real32

type algSpec struct {
	Name  string
	Build func(a *A) func() error
}

// algSeqSpec: consecutive calls (the reuse monitor shares one InSitu object among them)
type algSeqSpec struct {
	Name     string
	BuildSeq func(a *A) []func() error
}

func singles(specs []algSpec) []algSeqSpec {
	r := make([]algSeqSpec, len(specs))
	for i := range specs {
		b := specs[i].Build
		r[i] = algSeqSpec{specs[i].Name, func(a *A) []func() error { return []func() error{b(a)} }}
	}
	return r
}

var algSpecs = []algSpec{
	{"adam.Run", func(a *A) func() error {
		a.failBit()
		n := a.R.Range(1, 3)
		c, m := a.quadSpec(n)
		x0 := a.vecOf("x0", gen.Types[a.R.Intn(9)], a.randVals(n))
		args := []interface{}{adam.MaxIterations{Value: 30}}
		if a.bit("Epsilon") {
			args = append(args, adam.Epsilon{Value: 1e-6})
		}
		if a.bit("StepSize") {
			args = append(args, adam.StepSize{Value: 0.05})
		}
		if a.bit("Beta") {
			args = append(args, adam.Beta1{Value: 0.8}, adam.Beta2{Value: 0.9})
		}
		if a.bit("Hook") {
			args = append(args, adam.Hook{Value: func(x, g ad.ConstVector, y ad.ConstScalar) bool { return false }})
		}
		if a.bit("Constraints") {
			args = append(args, adam.Constraints{Value: func(x ad.Vector) bool { return true }})
		}
		args = a.optSlice(args)
		return func() error { r1, err := adam.Run(a.objective(c, m), x0, args...); a.out(r1); return err }
	}},
	{"adam.RunGradient", func(a *A) func() error {
		a.failBit()
		n := a.R.Range(1, 3)
		c, m := a.quadSpec(n)
		x0 := ad.NewDenseFloat64Vector(a.randVals(n))
		a.watch("x0", x0)
		args := []interface{}{adam.MaxIterations{Value: 30}}
		if a.bit("Epsilon") {
			args = append(args, adam.Epsilon{Value: 1e-6})
		}
		if a.bit("Hook") {
			args = append(args, adam.Hook{Value: func(x, g ad.ConstVector, y ad.ConstScalar) bool { return false }})
		}
		if a.bit("ConstConstraints") {
			args = append(args, adam.ConstConstraints{Value: func(x ad.ConstVector) bool { return true }})
		}
		args = a.optSlice(args)
		return func() error {
			r1, err := adam.RunGradient(adam.DenseGradientF(a.gradient(c, m)), x0, args...)
			a.out(r1)
			return err
		}
	}},
	{"backSubstitution.Run", func(a *A) func() error {
		n := a.R.Range(1, 4)
		A_ := a.matOf("A", a.upperVals(n), n, n)
		b := a.vecOf("b", a.T, a.randVals(n))
		var args []interface{}
		if a.bit("&InSitu{}") {
			args = append(args, &backSubstitution.InSitu{})
		}
		args = a.optSlice(args)
		return func() error { r1, err := backSubstitution.Run(A_, b, args...); a.out(r1); return err }
	}},
	{"bfgs.Run", func(a *A) func() error {
		a.failBit()
		n := a.R.Range(1, 3)
		c, m := a.quadSpec(n)
		x0 := a.vecOf("x0", gen.Types[5+a.R.Intn(4)], a.randVals(n))
		args := []interface{}{bfgs.MaxIterations{Value: 20}}
		if a.bit("Epsilon") {
			args = append(args, bfgs.Epsilon{Value: 1e-6})
		}
		if a.bit("Hessian") {
			args = append(args, bfgs.Hessian{Value: a.matOf("Hessian.Value", a.spdVals(n), n, n)})
		}
		if a.bit("Hook") {
			args = append(args, bfgs.Hook{Value: func(x, g ad.ConstVector, y ad.ConstScalar) bool { return false }})
		}
		if a.bit("Constraints") {
			args = append(args, bfgs.Constraints{Value: func(x ad.Vector) bool { return true }})
		}
		args = a.optSlice(args)
		return func() error { r1, err := bfgs.Run(a.objective(c, m), x0, args...); a.out(r1); return err }
	}},
	{"blahut.Run", func(a *A) func() error {
		n, m := a.R.Range(2, 3), a.R.Range(2, 3)
		ch := make([]float64, n*m)
		for i := 0; i < n; i++ {
			s := 0.0
			for j := 0; j < m; j++ {
				ch[i*m+j] = float64(a.R.Range(1, 8))
				s += ch[i*m+j]
			}
			for j := 0; j < m; j++ {
				ch[i*m+j] /= s
			}
		}
		p := make([]float64, n)
		for i := range p {
			p[i] = 1 / float64(n)
		}
		channel := a.matOf("channel", ch, n, m)
		pinit := a.vecOf("p_init", a.T, p)
		var args []interface{}
		if a.bit("Lambda") {
			args = append(args, blahut.Lambda{Value: 0.9})
		}
		if a.bit("Hook") {
			args = append(args, blahut.Hook{Value: func(ad.Vector, ad.Scalar) bool { return false }})
		}
		mi := a.bit("MI")
		args = a.optSlice(args)
		return func() error {
			if mi {
				blahut.MI(channel, pinit)
				return nil
			}
			a.out(blahut.Run(channel, pinit, 12, args...))
			return nil
		}
	}},
	{"blahut.RunNaive", func(a *A) func() error {
		channel := [][]float64{{0.6, 0.3, 0.1}, {0.7, 0.1, 0.2}, {0.5, 0.05, 0.45}}
		p := []float64{0.25, 0.25, 0.5}
		a.watch("p_init", p)
		for i := range channel {
			a.watch(fmt.Sprintf("channel[%d]", i), channel[i])
		}
		var args []interface{}
		if a.bit("Lambda") {
			args = append(args, blahut.Lambda{Value: 0.9})
		}
		args = a.optSlice(args)
		return func() error { a.out(blahut.RunNaive(channel, p, 12, args...)); return nil }
	}},
	{"cholesky.Run", func(a *A) func() error {
		n := a.R.Range(1, 4)
		m := a.matOf("a", a.spdVals(n), n, n)
		var args []interface{}
		if a.bit("LDL") {
			args = append(args, cholesky.LDL{Value: true})
			if a.bit("ForcePD") {
				args = append(args, cholesky.ForcePD{Value: true})
			}
		}
		if a.bit("&InSitu{}") {
			args = append(args, &cholesky.InSitu{})
		}
		args = a.optSlice(args)
		return func() error { r1, r2, err := cholesky.Run(m, args...); a.out(r1, r2); return err }
	}},
	{"determinant.Run", func(a *A) func() error {
		n := a.R.Range(1, 4)
		var m ad.Matrix
		var args []interface{}
		if a.bit("PositiveDefinite") {
			m = a.matOf("a", a.spdVals(n), n, n)
			args = append(args, determinant.PositiveDefinite{Value: true})
			if a.bit("LogScale") {
				args = append(args, determinant.LogScale{Value: true})
			}
			if a.bit("&InSitu{}") {
				args = append(args, &determinant.InSitu{})
			}
		} else {
			m = a.matOf("a", a.randVals(n*n), n, n)
		}
		args = a.optSlice(args)
		return func() error { r1, err := determinant.Run(m, args...); a.out(r1); return err }
	}},
	{"eigensystem.Run", func(a *A) func() error {
		n := a.R.Range(1, 4)
		m := a.matOf("a", a.symVals(n), n, n)
		var args []interface{}
		if a.bit("ComputeEigenvectors{false}") {
			args = append(args, eigensystem.ComputeEigenvectors{Value: false})
		}
		if a.bit("Symmetric") {
			args = append(args, eigensystem.Symmetric{Value: true})
		}
		if a.bit("&InSitu{}") {
			args = append(args, &eigensystem.InSitu{})
		}
		args = a.optSlice(args)
		return func() error { r1, r2, err := eigensystem.Run(m, args...); a.out(r1, r2); return err }
	}},
	{"gaussJordan.Run", func(a *A) func() error {
		// a, x and b are worked on in place by design; the Submatrix mask is read-only
		n := a.R.Range(2, 4)
		A_ := ad.AsDenseMatrix(a.T.T, ad.NewDenseFloat64Matrix(a.spdVals(n), n, n))
		x := ad.NullDenseMatrix(a.T.T, n, n)
		x.SetIdentity()
		b := ad.AsDenseVector(a.T.T, ad.NewDenseFloat64Vector(a.randVals(n)))
		var args []interface{}
		if a.bit("Submatrix") {
			mask := make([]bool, n)
			for i := range mask {
				mask[i] = i == 0 || a.R.Bool()
			}
			a.watch("Submatrix.Value", mask)
			args = append(args, gaussJordan.Submatrix{Value: mask})
		} else {
			a.watch("none", []float64{})
		}
		if a.bit("UpperTriangular") {
			A_ = ad.AsDenseMatrix(a.T.T, ad.NewDenseFloat64Matrix(a.upperVals(n), n, n))
			args = append(args, gaussJordan.UpperTriangular{Value: true})
		}
		args = a.optSlice(args)
		return func() error { return gaussJordan.Run(A_, x, b, args...) }
	}},
	{"givensRotation.Run/Apply", func(a *A) func() error {
		n := a.R.Range(2, 4)
		x, y := ad.NewScalar(a.T.T, 3), ad.NewScalar(a.T.T, 4)
		c, s := ad.NewScalar(a.T.T, 0), ad.NewScalar(a.T.T, 0)
		a.watch("a", x)
		a.watch("b", y)
		m := ad.AsDenseMatrix(a.T.T, ad.NewDenseFloat64Matrix(a.randVals(n*n), n, n))
		c2, s2 := ad.NewScalar(a.T.T, 0.6), ad.NewScalar(a.T.T, 0.8)
		a.watch("c", c2)
		a.watch("s", s2)
		t1, t2 := ad.NewScalar(a.T.T, 0), ad.NewScalar(a.T.T, 0)
		left := a.bit("ApplyRight")
		return func() error {
			givensRotation.Run(x, y, c, s)
			if left {
				givensRotation.ApplyRight(m, c2, s2, 0, n-1, t1, t2)
			} else {
				givensRotation.ApplyLeft(m, c2, s2, 0, n-1, t1, t2)
			}
			return nil
		}
	}},
	{"gradientDescent.Run", func(a *A) func() error {
		a.failBit()
		n := a.R.Range(1, 3)
		c, m := a.quadSpec(n)
		x0 := a.vecOf("x0", gen.Types[a.R.Intn(9)], a.randVals(n))
		steps := 0
		args := []interface{}{gradientDescent.Hook{Value: func([]float64, ad.ConstVector, ad.ConstScalar) bool { steps++; return steps > 25 }}}
		if a.bit("Epsilon") {
			args = append(args, gradientDescent.Epsilon{Value: 1e-6})
		}
		args = a.optSlice(args)
		return func() error {
			steps = 0
			r1, err := gradientDescent.Run(a.objective(c, m), x0, 0.05, args...)
			a.out(r1)
			return err
		}
	}},
	{"gramSchmidt.Run", func(a *A) func() error {
		n := a.R.Range(2, 4)
		k := a.R.Range(1, n)
		m := a.matOf("a", a.randVals(n*k), n, k)
		var args []interface{}
		if a.bit("InSitu{Q,R}") {
			args = append(args, gramSchmidt.InSitu{Q: ad.NullDenseMatrix(a.T.T, n, k), R: ad.NullDenseMatrix(a.T.T, n, k)})
		}
		args = a.optSlice(args)
		return func() error { r1, r2, err := gramSchmidt.Run(m, args...); a.out(r1, r2); return err }
	}},
	{"hessenbergReduction.Run", func(a *A) func() error {
		n := a.R.Range(1, 5)
		m := a.matOf("a", a.randVals(n*n), n, n)
		var args []interface{}
		if a.bit("ComputeU") {
			args = append(args, hessenbergReduction.ComputeU{Value: true})
		}
		if a.bit("SetZero{false}") {
			args = append(args, hessenbergReduction.SetZero{Value: false})
		}
		if a.bit("&InSitu{}") {
			args = append(args, &hessenbergReduction.InSitu{})
		}
		args = a.optSlice(args)
		return func() error { r1, r2, err := hessenbergReduction.Run(m, args...); a.out(r1, r2); return err }
	}},
	{"householder.Run/Apply", func(a *A) func() error {
		n := a.R.Range(2, 4)
		x := a.vecOf("x", a.T, a.randVals(n))
		beta, nu := ad.NewScalar(a.T.T, 0), ad.NullDenseVector(a.T.T, n)
		t1, t2, t3 := ad.NewScalar(a.T.T, 0), ad.NewScalar(a.T.T, 0), ad.NewScalar(a.T.T, 0)
		m := ad.AsDenseMatrix(a.T.T, ad.NewDenseFloat64Matrix(a.randVals(n*n), n, n))
		beta2 := ad.NewScalar(a.T.T, 0.5)
		nu2 := a.vecOf("nu", a.T, a.randVals(n))
		a.watch("beta", beta2)
		t4 := ad.NullDenseVector(a.T.T, n)
		right := a.bit("ApplyRight")
		return func() error {
			householder.Run(x, beta, nu, t1, t2, t3)
			if right {
				householder.ApplyRight(m, beta2, nu2, t4, t1)
			} else {
				householder.ApplyLeft(m, beta2, nu2, t4, t1)
			}
			return nil
		}
	}},
	{"householderBidiagonalization.Run", func(a *A) func() error {
		n := a.R.Range(1, 3)
		mrows := n + a.R.Intn(3)
		m := a.matOf("a", a.randVals(mrows*n), mrows, n)
		var args []interface{}
		if a.bit("ComputeU") {
			args = append(args, householderBidiagonalization.ComputeU{Value: true})
		}
		if a.bit("ComputeV") {
			args = append(args, householderBidiagonalization.ComputeV{Value: true})
		}
		if a.bit("&InSitu{}") {
			args = append(args, &householderBidiagonalization.InSitu{})
		}
		args = a.optSlice(args)
		return func() error {
			r1, r2, r3, err := householderBidiagonalization.Run(m, args...)
			a.out(r1, r2, r3)
			return err
		}
	}},
	{"householderTridiagonalization.Run", func(a *A) func() error {
		n := a.R.Range(1, 5)
		m := a.matOf("a", a.symVals(n), n, n)
		var args []interface{}
		if a.bit("ComputeU") {
			args = append(args, householderTridiagonalization.ComputeU{Value: true})
		}
		if a.bit("&InSitu{}") {
			args = append(args, &householderTridiagonalization.InSitu{})
		}
		args = a.optSlice(args)
		return func() error { r1, r2, err := householderTridiagonalization.Run(m, args...); a.out(r1, r2); return err }
	}},
	{"lineSearch.Run", func(a *A) func() error {
		a.failBit()
		// no data operands besides the objective: the closure state is watched
		c := []float64{1.5}
		m := []float64{2}
		a.watch("captured-c", c)
		a.watch("captured-m", m)
		f := func(alpha ad.ConstScalar) (ad.MagicScalar, error) {
			if fail, _ := a.tick(); fail {
				return nil, fmt.Errorf("objective fails")
			}
			x := ad.NewReal64(0)
			x.Sub(alpha, ad.ConstFloat64(m[0]))
			x.Mul(x, x)
			x.Mul(x, ad.ConstFloat64(c[0]))
			return x, nil
		}
		var args []interface{}
		if a.bit("Parameters") {
			args = append(args, lineSearch.Parameters{Alpha1: 0.5, MaxEval: 10})
		}
		args = a.optSlice(args)
		return func() error { r1, err := lineSearch.Run(f, ad.Float64Type, args...); a.out(r1); return err }
	}},
	{"matrixInverse.Run", func(a *A) func() error {
		n := a.R.Range(1, 4)
		var m ad.Matrix
		var args []interface{}
		switch {
		case a.bit("PositiveDefinite"):
			m = a.matOf("matrix", a.spdVals(n), n, n)
			args = append(args, matrixInverse.PositiveDefinite{Value: true})
		case a.bit("UpperTriangular"):
			m = a.matOf("matrix", a.upperVals(n), n, n)
			args = append(args, matrixInverse.UpperTriangular{Value: true})
		default:
			m = a.matOf("matrix", a.spdVals(n), n, n)
			if a.bit("gaussJordan.Submatrix") {
				mask := make([]bool, n)
				for i := range mask {
					mask[i] = i == 0 || a.R.Bool()
				}
				a.watch("Submatrix.Value", mask)
				args = append(args, gaussJordan.Submatrix{Value: mask})
			}
		}
		if a.bit("&InSitu{}") {
			args = append(args, &matrixInverse.InSitu{})
		}
		args = a.optSlice(args)
		return func() error { r1, err := matrixInverse.Run(m, args...); a.out(r1); return err }
	}},
	{"msqrt.Run", func(a *A) func() error {
		n := a.R.Range(1, 3)
		m := a.matOf("matrix", a.spdVals(n), n, n)
		return func() error { r1, err := msqrt.Run(m); a.out(r1); return err }
	}},
	{"msqrtInv.Run", func(a *A) func() error {
		n := a.R.Range(1, 3)
		m := a.matOf("matrix", a.spdVals(n), n, n)
		return func() error { r1, err := msqrtInv.Run(m); a.out(r1); return err }
	}},
	{"newton.RunRoot", func(a *A) func() error {
		a.failBit()
		n := a.R.Range(1, 3)
		c, m := a.quadSpec(n)
		x := a.vecOf("x", gen.Types[5+a.R.Intn(4)], a.randVals(n))
		f := func(x ad.ConstVector) (ad.MagicVector, error) {
			if fail, _ := a.tick(); fail {
				return nil, fmt.Errorf("objective fails")
			}
			y := ad.NullDenseReal64Vector(x.Dim())
			for i := 0; i < x.Dim(); i++ {
				s := y.At(i)
				s.Sub(x.ConstAt(i), ad.ConstFloat64(m[i]))
				s.Mul(s, ad.ConstFloat64(c[i]))
			}
			return y, nil
		}
		args := []interface{}{newton.MaxIterations{Value: 20}}
		if a.bit("Epsilon") {
			args = append(args, newton.Epsilon{Value: 1e-6})
		}
		if a.bit("HookRoot") {
			args = append(args, newton.HookRoot{Value: func(ad.ConstVector, ad.ConstMatrix, ad.ConstVector) bool { return false }})
		}
		if a.bit("Constraints") {
			args = append(args, newton.Constraints{Value: func(ad.Vector) bool { return true }})
		}
		if a.bit("&InSitu{}") {
			args = append(args, &newton.InSitu{})
		}
		args = a.optSlice(args)
		return func() error { r1, err := newton.RunRoot(f, x, args...); a.out(r1); return err }
	}},
	{"newton.RunCrit/RunMin", func(a *A) func() error {
		a.failBit()
		n := a.R.Range(1, 3)
		c, m := a.quadSpec(n)
		x := a.vecOf("x", gen.Types[5+a.R.Intn(4)], a.randVals(n))
		args := []interface{}{newton.MaxIterations{Value: 20}}
		min := a.bit("RunMin")
		if a.bit("Epsilon") {
			args = append(args, newton.Epsilon{Value: 1e-6})
		}
		if a.bit("HessianModification{LDL}") {
			args = append(args, newton.HessianModification{Value: "LDL"})
		}
		if a.bit("Constraints") {
			args = append(args, newton.Constraints{Value: func(ad.Vector) bool { return true }})
		}
		args = a.optSlice(args)
		return func() error {
			if min {
				r1, err := newton.RunMin(a.objective(c, m), x, args...)
				a.out(r1)
				return err
			}
			r1, err := newton.RunCrit(a.objective(c, m), x, args...)
			a.out(r1)
			return err
		}
	}},
	{"qrAlgorithm.Run", func(a *A) func() error {
		n := a.R.Range(1, 4)
		m := a.matOf("a", a.symVals(n), n, n)
		args := []interface{}{qrAlgorithm.Epsilon{Value: 1e-10}}
		if a.bit("ComputeU") {
			args = append(args, qrAlgorithm.ComputeU{Value: true})
		}
		if a.bit("Symmetric") {
			args = append(args, qrAlgorithm.Symmetric{Value: true})
		}
		if a.bit("&InSitu{}") {
			args = append(args, &qrAlgorithm.InSitu{})
		}
		args = a.optSlice(args)
		return func() error { r1, r2, err := qrAlgorithm.Run(m, args...); a.out(r1, r2); return err }
	}},
	{"rprop.Run", func(a *A) func() error {
		a.failBit()
		n := a.R.Range(1, 3)
		c, m := a.quadSpec(n)
		x0 := a.vecOf("x0", gen.Types[a.R.Intn(9)], a.randVals(n))
		eta := []float64{1.2, 0.5}
		a.watch("eta", eta)
		args := []interface{}{rprop.MaxIterations{Value: 30}}
		if a.bit("Epsilon") {
			args = append(args, rprop.Epsilon{Value: 1e-6})
		}
		if a.bit("Hook") {
			args = append(args, rprop.Hook{Value: func([]float64, []float64, ad.ConstVector, ad.ConstScalar) bool { return false }})
		}
		if a.bit("Constraints") {
			args = append(args, rprop.Constraints{Value: func(ad.Vector) bool { return true }})
		}
		args = a.optSlice(args)
		return func() error { r1, err := rprop.Run(a.objective(c, m), x0, 0.1, eta, args...); a.out(r1); return err }
	}},
	{"rprop.RunGradient", func(a *A) func() error {
		a.failBit()
		n := a.R.Range(1, 3)
		c, m := a.quadSpec(n)
		x0 := ad.NewDenseFloat64Vector(a.randVals(n))
		a.watch("x0", x0)
		eta := []float64{1.2, 0.5}
		a.watch("eta", eta)
		args := []interface{}{rprop.MaxIterations{Value: 30}}
		if a.bit("Epsilon") {
			args = append(args, rprop.Epsilon{Value: 1e-6})
		}
		if a.bit("ConstConstraints") {
			args = append(args, rprop.ConstConstraints{Value: func(ad.ConstVector) bool { return true }})
		}
		args = a.optSlice(args)
		return func() error {
			r1, err := rprop.RunGradient(rprop.DenseGradientF(a.gradient(c, m)), x0, 0.1, eta, args...)
			a.out(r1)
			return err
		}
	}},
	{"saga.Run", func(a *A) func() error {
		a.failBit()
		// least squares on n samples: f_i(theta) = (theta . x_i - y_i)^2 / 2
		nS, d := a.R.Range(3, 6), a.R.Range(1, 3)
		X := make([]ad.DenseFloat64Vector, nS)
		y := make([]float64, nS)
		for i := range X {
			X[i] = ad.NewDenseFloat64Vector(a.randVals(d))
			a.watch(fmt.Sprintf("data[%d]", i), X[i])
			y[i] = float64(a.R.Range(-4, 4))
		}
		a.watch("labels", y)
		theta := a.vecOf("x", gen.Types[5+a.R.Intn(4)], a.randVals(d))
		obj := saga.Objective1Dense(func(i int, th ad.DenseFloat64Vector) (float64, float64, ad.DenseFloat64Vector, error) {
			if fail, nan := a.tick(); fail {
				if nan {
					return math.NaN(), math.NaN(), X[i], nil
				}
				return 0, 0, nil, fmt.Errorf("objective fails")
			}
			s := 0.0
			for k := range th {
				s += th[k] * X[i][k]
			}
			return 0.5 * (s - y[i]) * (s - y[i]), s - y[i], X[i], nil
		})
		args := []interface{}{saga.MaxIterations{Value: 5}, saga.Gamma{Value: 0.01}}
		if a.bit("Epsilon") {
			args = append(args, saga.Epsilon{Value: 1e-6})
		}
		switch {
		case a.bit("L1Regularization"):
			args = append(args, saga.L1Regularization{Value: 0.1})
		case a.bit("L2Regularization"):
			args = append(args, saga.L2Regularization{Value: 0.1})
		case a.bit("ProximalOperator"):
			p := &saga.ProximalOperatorL1{Lambda: 0.4}
			a.ops = append(a.ops, &operand{Name: "ProximalOperator.Value.Lambda", Get: func() any { return []float64{p.Lambda} }})
			args = append(args, saga.ProximalOperator{Value: p})
		}
		if a.bit("Seed") {
			args = append(args, saga.Seed{Value: 7})
		}
		if a.bit("&InSitu{}") {
			args = append(args, &saga.InSitu{})
		}
		args = a.optSlice(args)
		return func() error { r1, r2, err := saga.Run(obj, nS, theta, args...); a.out(r1, r2); return err }
	}},
	{"saga.Run(sparse)", func(a *A) func() error {
		a.failBit()
		nS, d := a.R.Range(3, 6), a.R.Range(1, 3)
		X := make([]ad.SparseConstFloat64Vector, nS)
		y := make([]float64, nS)
		for i := range X {
			X[i] = ad.AsSparseConstFloat64Vector(ad.NewDenseFloat64Vector(a.randVals(d)))
			y[i] = float64(a.R.Range(-4, 4))
		}
		a.watch("labels", y)
		theta := a.vecOf("x", gen.Types[5+a.R.Intn(4)], a.randVals(d))
		obj := saga.Objective1Sparse(func(i int, th ad.DenseFloat64Vector) (float64, float64, ad.SparseConstFloat64Vector, error) {
			if fail, nan := a.tick(); fail {
				if nan {
					return math.NaN(), math.NaN(), X[i], nil
				}
				return 0, 0, X[i], fmt.Errorf("objective fails")
			}
			s := 0.0
			for k := range th {
				s += th[k] * X[i].Float64At(k)
			}
			return 0.5 * (s - y[i]) * (s - y[i]), s - y[i], X[i], nil
		})
		args := []interface{}{saga.MaxIterations{Value: 5}, saga.Gamma{Value: 0.01}}
		if a.bit("JitUpdate") {
			p := &saga.JitUpdateL1{Lambda: 0.4}
			a.ops = append(a.ops, &operand{Name: "JitUpdate.Value.Lambda", Get: func() any { return []float64{p.Lambda} }})
			args = append(args, saga.JitUpdate{Value: p})
		} else if a.bit("ProximalOperator") {
			p := &saga.ProximalOperatorL2{Lambda: 0.4}
			a.ops = append(a.ops, &operand{Name: "ProximalOperator.Value.Lambda", Get: func() any { return []float64{p.Lambda} }})
			args = append(args, saga.ProximalOperator{Value: p})
		}
		if a.bit("Epsilon") {
			args = append(args, saga.Epsilon{Value: 1e-6})
		}
		args = a.optSlice(args)
		return func() error { r1, r2, err := saga.Run(obj, nS, theta, args...); a.out(r1, r2); return err }
	}},
	{"svd.Run", func(a *A) func() error {
		n := a.R.Range(1, 3)
		mrows := n + a.R.Intn(3)
		m := a.matOf("a", a.randVals(mrows*n), mrows, n)
		var args []interface{}
		if a.bit("ComputeU") {
			args = append(args, svd.ComputeU{Value: true})
		}
		if a.bit("ComputeV") {
			args = append(args, svd.ComputeV{Value: true})
		}
		if a.bit("&InSitu{}") {
			args = append(args, &svd.InSitu{})
		}
		args = a.optSlice(args)
		return func() error { r1, r2, r3, err := svd.Run(m, args...); a.out(r1, r2, r3); return err }
	}},
}

// algResult is the outcome of one execution of an algorithm case.
type algResult struct {
	Skip    string
	Opts    string
	Cfg     []string
	Outcome string
	First   string
	Arg     string // name of the first modified input ("" = all unchanged)
	Detail  string
	Before  string
	After   string
	Kind    string // failure kind ("" = modified)
}

func runAlg(spec algSeqSpec, r *prng.Rand, t gen.ElemType, v int) (res algResult) {
	a := &A{R: r, T: t, V: v}
	var calls []func() error
	if p := fw.Call(func() {
		calls = spec.BuildSeq(a)
	}); p != nil {
		res.Skip = "operand-construction-panics"
		return
	}
	for _, o := range a.ops {
		o.snap()
		if o.S0.Err != "" || o.P0.Err != "" {
			res.Skip = "operand-read-panics"
			return
		}
	}
	var optsOnly []string
	for _, s := range a.opt {
		if strings.Contains(s, ":") {
			res.Cfg = append(res.Cfg, s)
		} else {
			optsOnly = append(optsOnly, s)
		}
	}
	res.Opts = strings.Join(optsOnly, ",")
	if res.Opts == "" {
		res.Opts = "default"
	}
	res.Outcome = "returned"
	for k, call := range calls {
		fw.SetTickBudget(20000)
		var err error
		p := fw.Call(func() { err = call() })
		fw.SetTickBudget(0)
		if p != nil && p.Budget {
			res.Skip = "no-return"
			return
		}
		if p != nil {
			res.Outcome = "panicked"
		} else if err != nil && res.Outcome == "returned" {
			res.Outcome = "error"
		}
		res.First = a.ops[0].S0.Str
		// after every call all inputs - those of earlier and of later calls - must be untouched
		for _, o := range a.ops {
			if d := o.changed(); d != "" {
				res.Arg, res.Detail, res.Before, res.After = o.Name, d, clip(o.S0.Str, 400), safeString(o.cur())
				if len(calls) > 1 {
					res.Detail = fmt.Sprintf("after call %d of %d: %s", k+1, len(calls), d)
				}
				return
			}
		}
		if p != nil {
			return
		}
	}
	// the same call once more with the very same option slice and inputs: the
	// result must be the one of the first call (not with in-situ buffers, whose
	// reuse is governed by their own flags, and not after an injected failure)
	opts := strings.Join(a.opt, ",")
	if len(calls) == 1 && res.Outcome == "returned" && a.outs != nil && !strings.Contains(opts, "InSitu") && a.failAt == 0 {
		first := make([]shot, len(a.outs))
		for i, o := range a.outs {
			first[i] = take(o)
		}
		a.outs = nil
		fw.SetTickBudget(20000)
		p := fw.Call(func() { calls[0]() })
		fw.SetTickBudget(0)
		if p != nil && p.Budget {
			return
		}
		for _, o := range a.ops {
			if d := o.changed(); d != "" {
				res.Arg, res.Detail, res.Before, res.After = o.Name, "after the second call with the same options: "+d, clip(o.S0.Str, 400), safeString(o.cur())
				return
			}
		}
		if p == nil && len(a.outs) == len(first) {
			for i, o := range a.outs {
				if d := unchanged(first[i], take(o)); d != "" {
					res.Arg, res.Detail = fmt.Sprintf("result[%d]", i), "a second call with the same inputs and the same option slice returns another result: "+d
					res.Before, res.After = clip(first[i].Str, 400), safeString(o)
					res.Kind = "second-call-differs"
					return
				}
			}
		}
	}
	return
}

func algInputCase(cs *fw.Case) { algCase(cs, "input.algorithm", singles(algSpecs)) }

func algReuseCase(cs *fw.Case) { algCase(cs, "input.algorithm-reuse", algReuseSpecs) }

func algCase(cs *fw.Case, monitor string, specs []algSeqSpec) {
	i := cs.Index
	spec := specs[i%len(specs)]
	t := linTypes[(i/len(specs))%4]
	v := i / (len(specs) * 4)
	res := runAlg(spec, cs.R, t, v)
	if res.Skip != "" {
		cs.Skip(res.Skip)
		cs.Cover(monitor + ":skipped:" + res.Skip + ":" + spec.Name)
		return
	}
	cs.Cover(monitor + ":" + spec.Name)
	cs.Cover(monitor + ":type:" + t.Name)
	cs.Cover("set:" + monitor + "-option-cells:" + spec.Name + "/" + res.Opts)
	if res.Outcome != "returned" {
		cs.Cover(monitor + ":call-" + res.Outcome + ":" + spec.Name)
	}
	cs.Nontrivial(spec.Name, res.Opts, strings.Join(res.Cfg, ","), res.First, t.Name)
	cs.Sample(map[string]any{"routine": spec.Name, "options": res.Opts, "operands": res.Cfg, "outcome": res.Outcome, "first_operand": clip(res.First, 200)})
	if res.Arg == "" {
		return
	}
	// smallest option combination that still modifies the same input (same
	// generator stream, option bits cleared one at a time)
	opts := res.Opts
	for bit := 0; bit < 12 && v>>bit != 0; bit++ {
		if v&(1<<bit) == 0 {
			continue
		}
		w := v &^ (1 << bit)
		if r2 := runAlg(spec, prng.For(cs.C.Seed, cs.Monitor, cs.Index), t, w); r2.Skip == "" && r2.Arg == res.Arg && r2.Kind == res.Kind {
			v, opts = w, r2.Opts
		}
	}
	w := map[string]any{"routine": spec.Name, "options": res.Opts, "minimal_options": opts, "operands": res.Cfg, "element_type": t.Name, "outcome": res.Outcome,
		"operand_before": res.Before, "operand_after": res.After}
	kind := "modified"
	if res.Kind != "" {
		kind = res.Kind
	}
	cs.Violation(sig(monitor, spec.Name, opts, "arg="+res.Arg, kind), fmt.Sprintf("input %s changed during the call (%s): %s", res.Arg, res.Outcome, res.Detail), w)
}

/* consecutive calls that reuse one InSitu object: the inputs of every earlier
 * call must survive the later calls
 * -------------------------------------------------------------------------- */

// seq builds n calls; mk(k) prepares call k (its inputs are registered with the suffix #k).
func (a *A) seq(mk func(k int) func() error) []func() error {
	n := 2 + a.R.Intn(2)
	calls := make([]func() error, n)
	for k := range calls {
		calls[k] = mk(k)
	}
	return calls
}

func tag(name string, k int) string { return fmt.Sprintf("%s#%d", name, k+1) }

var algReuseSpecs = []algSeqSpec{
	{Name: "qrAlgorithm.Run", BuildSeq: func(a *A) []func() error {
		n := a.R.Range(1, 4)
		inSitu := &qrAlgorithm.InSitu{InitializeH: true}
		args := []interface{}{qrAlgorithm.Epsilon{Value: 1e-10}, inSitu}
		if a.bit("ComputeU") {
			args = append(args, qrAlgorithm.ComputeU{Value: true})
		}
		sym := a.bit("Symmetric")
		symLater := sym
		if a.bit("Symmetric-flipped-on-later-calls") {
			symLater = !sym
		}
		return a.seq(func(k int) func() error {
			m := a.matOf(tag("a", k), a.symVals(n), n, n)
			s := sym
			if k > 0 {
				s = symLater
			}
			return func() error {
				_, _, err := qrAlgorithm.Run(m, append(append([]interface{}{}, args...), qrAlgorithm.Symmetric{Value: s})...)
				return err
			}
		})
	}},
	{Name: "eigensystem.Run", BuildSeq: func(a *A) []func() error {
		n := a.R.Range(1, 4)
		inSitu := &eigensystem.InSitu{}
		inSitu.QrAlgorithm.InitializeH = true
		args := []interface{}{inSitu}
		if a.bit("ComputeEigenvectors{false}") {
			args = append(args, eigensystem.ComputeEigenvectors{Value: false})
		}
		if a.bit("Symmetric") {
			args = append(args, eigensystem.Symmetric{Value: true})
		}
		args = a.optSlice(args)
		return a.seq(func(k int) func() error {
			m := a.matOf(tag("a", k), a.symVals(n), n, n)
			return func() error { _, _, err := eigensystem.Run(m, args...); return err }
		})
	}},
	{Name: "hessenbergReduction.Run", BuildSeq: func(a *A) []func() error {
		n := a.R.Range(1, 5)
		args := []interface{}{&hessenbergReduction.InSitu{}}
		if a.bit("ComputeU") {
			args = append(args, hessenbergReduction.ComputeU{Value: true})
		}
		if a.bit("SetZero{false}") {
			args = append(args, hessenbergReduction.SetZero{Value: false})
		}
		args = a.optSlice(args)
		return a.seq(func(k int) func() error {
			m := a.matOf(tag("a", k), a.randVals(n*n), n, n)
			return func() error { _, _, err := hessenbergReduction.Run(m, args...); return err }
		})
	}},
	{Name: "householderBidiagonalization.Run", BuildSeq: func(a *A) []func() error {
		n := a.R.Range(1, 3)
		mrows := n + a.R.Intn(3)
		args := []interface{}{&householderBidiagonalization.InSitu{}}
		if a.bit("ComputeU") {
			args = append(args, householderBidiagonalization.ComputeU{Value: true})
		}
		if a.bit("ComputeV") {
			args = append(args, householderBidiagonalization.ComputeV{Value: true})
		}
		args = a.optSlice(args)
		return a.seq(func(k int) func() error {
			m := a.matOf(tag("a", k), a.randVals(mrows*n), mrows, n)
			return func() error { _, _, _, err := householderBidiagonalization.Run(m, args...); return err }
		})
	}},
	{Name: "householderTridiagonalization.Run", BuildSeq: func(a *A) []func() error {
		n := a.R.Range(1, 5)
		args := []interface{}{&householderTridiagonalization.InSitu{}}
		if a.bit("ComputeU") {
			args = append(args, householderTridiagonalization.ComputeU{Value: true})
		}
		args = a.optSlice(args)
		return a.seq(func(k int) func() error {
			m := a.matOf(tag("a", k), a.symVals(n), n, n)
			return func() error { _, _, err := householderTridiagonalization.Run(m, args...); return err }
		})
	}},
	{Name: "svd.Run", BuildSeq: func(a *A) []func() error {
		n := a.R.Range(1, 3)
		mrows := n + a.R.Intn(3)
		args := []interface{}{&svd.InSitu{}}
		if a.bit("ComputeU") {
			args = append(args, svd.ComputeU{Value: true})
		}
		if a.bit("ComputeV") {
			args = append(args, svd.ComputeV{Value: true})
		}
		args = a.optSlice(args)
		return a.seq(func(k int) func() error {
			m := a.matOf(tag("a", k), a.randVals(mrows*n), mrows, n)
			return func() error { _, _, _, err := svd.Run(m, args...); return err }
		})
	}},
	{Name: "cholesky.Run", BuildSeq: func(a *A) []func() error {
		n := a.R.Range(1, 4)
		args := []interface{}{&cholesky.InSitu{}}
		if a.bit("LDL") {
			args = append(args, cholesky.LDL{Value: true})
			if a.bit("ForcePD") {
				args = append(args, cholesky.ForcePD{Value: true})
			}
		}
		args = a.optSlice(args)
		return a.seq(func(k int) func() error {
			m := a.matOf(tag("a", k), a.spdVals(n), n, n)
			return func() error { _, _, err := cholesky.Run(m, args...); return err }
		})
	}},
	{Name: "determinant.Run", BuildSeq: func(a *A) []func() error {
		n := a.R.Range(1, 4)
		args := []interface{}{&determinant.InSitu{}, determinant.PositiveDefinite{Value: true}}
		if a.bit("LogScale") {
			args = append(args, determinant.LogScale{Value: true})
		}
		args = a.optSlice(args)
		return a.seq(func(k int) func() error {
			m := a.matOf(tag("a", k), a.spdVals(n), n, n)
			return func() error { _, err := determinant.Run(m, args...); return err }
		})
	}},
	{Name: "matrixInverse.Run", BuildSeq: func(a *A) []func() error {
		n := a.R.Range(1, 4)
		args := []interface{}{&matrixInverse.InSitu{}}
		upper := false
		switch {
		case a.bit("PositiveDefinite"):
			args = append(args, matrixInverse.PositiveDefinite{Value: true})
		case a.bit("UpperTriangular"):
			upper = true
			args = append(args, matrixInverse.UpperTriangular{Value: true})
		}
		args = a.optSlice(args)
		return a.seq(func(k int) func() error {
			vals := a.spdVals(n)
			if upper {
				vals = a.upperVals(n)
			}
			m := a.matOf(tag("matrix", k), vals, n, n)
			return func() error { _, err := matrixInverse.Run(m, args...); return err }
		})
	}},
	{Name: "backSubstitution.Run", BuildSeq: func(a *A) []func() error {
		n := a.R.Range(1, 4)
		args := []interface{}{&backSubstitution.InSitu{}}
		args = a.optSlice(args)
		return a.seq(func(k int) func() error {
			A_ := a.matOf(tag("A", k), a.upperVals(n), n, n)
			b := a.vecOf(tag("b", k), a.T, a.randVals(n))
			return func() error { _, err := backSubstitution.Run(A_, b, args...); return err }
		})
	}},
	{Name: "gramSchmidt.Run", BuildSeq: func(a *A) []func() error {
		n := a.R.Range(2, 4)
		kk := a.R.Range(1, n)
		inSitu := gramSchmidt.InSitu{Q: ad.NullDenseMatrix(a.T.T, n, kk), R: ad.NullDenseMatrix(a.T.T, n, kk)}
		return a.seq(func(k int) func() error {
			m := a.matOf(tag("a", k), a.randVals(n*kk), n, kk)
			return func() error { _, _, err := gramSchmidt.Run(m, inSitu); return err }
		})
	}},
	{Name: "newton.RunRoot", BuildSeq: func(a *A) []func() error {
		n := a.R.Range(1, 3)
		args := []interface{}{newton.MaxIterations{Value: 20}, &newton.InSitu{}}
		if a.bit("Epsilon") {
			args = append(args, newton.Epsilon{Value: 1e-6})
		}
		args = a.optSlice(args)
		return a.seq(func(k int) func() error {
			c, m := a.quadSpec(n)
			x := a.vecOf(tag("x", k), gen.Types[5+a.R.Intn(4)], a.randVals(n))
			f := func(x ad.ConstVector) (ad.MagicVector, error) {
				y := ad.NullDenseReal64Vector(x.Dim())
				for i := 0; i < x.Dim(); i++ {
					s := y.At(i)
					s.Sub(x.ConstAt(i), ad.ConstFloat64(m[i]))
					s.Mul(s, ad.ConstFloat64(c[i]))
				}
				return y, nil
			}
			return func() error { _, err := newton.RunRoot(f, x, args...); return err }
		})
	}},
	{Name: "newton.RunCrit/RunMin", BuildSeq: func(a *A) []func() error {
		n := a.R.Range(1, 3)
		args := []interface{}{newton.MaxIterations{Value: 20}, &newton.InSitu{}}
		min := a.bit("RunMin")
		if a.bit("HessianModification{LDL}") {
			args = append(args, newton.HessianModification{Value: "LDL"})
		}
		args = a.optSlice(args)
		return a.seq(func(k int) func() error {
			c, m := a.quadSpec(n)
			x := a.vecOf(tag("x", k), gen.Types[5+a.R.Intn(4)], a.randVals(n))
			return func() error {
				if min {
					_, err := newton.RunMin(quadratic(c, m), x, args...)
					return err
				}
				_, err := newton.RunCrit(quadratic(c, m), x, args...)
				return err
			}
		})
	}},
	{Name: "saga.Run", BuildSeq: func(a *A) []func() error {
		nS, d := a.R.Range(3, 5), a.R.Range(1, 3)
		args := []interface{}{saga.MaxIterations{Value: 4}, saga.Gamma{Value: 0.01}, &saga.InSitu{}}
		if a.bit("L1Regularization") {
			args = append(args, saga.L1Regularization{Value: 0.1})
		}
		args = a.optSlice(args)
		return a.seq(func(k int) func() error {
			X := make([]ad.DenseFloat64Vector, nS)
			y := make([]float64, nS)
			for i := range X {
				X[i] = ad.NewDenseFloat64Vector(a.randVals(d))
				a.watch(tag(fmt.Sprintf("data[%d]", i), k), X[i])
				y[i] = float64(a.R.Range(-4, 4))
			}
			theta := a.vecOf(tag("x", k), gen.Types[5+a.R.Intn(4)], a.randVals(d))
			obj := saga.Objective1Dense(func(i int, th ad.DenseFloat64Vector) (float64, float64, ad.DenseFloat64Vector, error) {
				s := 0.0
				for j := range th {
					s += th[j] * X[i][j]
				}
				return 0.5 * (s - y[i]) * (s - y[i]), s - y[i], X[i], nil
			})
			return func() error { _, _, err := saga.Run(obj, nS, theta, args...); return err }
		})
	}},
}
