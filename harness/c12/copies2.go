package c12

import (
	"fmt"
	"reflect"
	"sort"
	"strings"

	ad "github.com/pbenner/autodiff"

	"verifharness/internal/fw"
	"verifharness/internal/gen"
	"verifharness/internal/prng"
)

/* scalars
 * -------------------------------------------------------------------------- */

var scalarCopies = []string{"CloneScalar", "CloneConstScalar", "CloneMagicScalar", "Clone"}
var scalarMuts = []string{"SetFloat64", "Add-in-place", "SetDerivative-in-place", "Reset", "Alloc", "Set(other)", "Neg-in-place"}

func mutateScalar(s ad.Scalar, t gen.ElemType, op string, r *prng.Rand) {
	switch op {
	case "SetFloat64":
		s.SetFloat64(t.NonZero(r) + 100)
	case "Add-in-place":
		s.Add(s, ad.NewScalar(t.T, 1))
	case "SetDerivative-in-place":
		if m, ok := s.(ad.MagicScalar); ok {
			if m.GetN() == 0 || m.GetOrder() == 0 {
				m.Alloc(2, 2)
			}
			for k := 0; k < m.GetN(); k++ {
				m.SetDerivative(k, m.GetDerivative(k)+7)
				if m.GetOrder() >= 2 {
					m.SetHessian(k, k, m.GetHessian(k, k)+9)
				}
			}
		} else {
			s.SetFloat64(t.NonZero(r) + 50)
		}
	case "Reset":
		s.Reset()
	case "Alloc":
		if m, ok := s.(ad.MagicScalar); ok {
			m.Alloc(r.Range(1, 4), r.Range(1, 2))
			m.SetDerivative(0, 3)
		} else {
			s.SetFloat64(77)
		}
	case "Set(other)":
		o := ad.NewScalar(t.T, 0)
		gen.SetScalar(o, gen.RandJet(t, r, t.NonZero(r)+10, 2, 2))
		s.Set(o)
	default:
		s.Neg(s)
		s.Add(s, ad.NewScalar(t.T, 3))
	}
}

func scalarCopyCase(cs *fw.Case) {
	const monitor = "copy.scalar"
	r := cs.R
	i := cs.Index
	t := gen.Types[i%9]
	method := scalarCopies[(i/9)%len(scalarCopies)]
	src := ad.NewScalar(t.T, 0)
	gen.SetScalar(src, gen.RandJet(t, r, t.Value(r), r.Range(0, 3), r.Range(0, 2)))
	typ := typeName(src)
	routine := typ + "." + method
	s0 := take(src)
	var cp any
	if p := fw.Call(func() {
		switch method {
		case "CloneScalar":
			cp = src.CloneScalar()
		case "CloneConstScalar":
			cp = src.CloneConstScalar()
		case "CloneMagicScalar":
			if m, ok := src.(ad.MagicScalar); ok {
				cp = m.CloneMagicScalar()
			} else {
				cp = src.CloneScalar()
			}
		default:
			cp, _ = callClone(src)
		}
	}); p != nil {
		cs.Violation(sig(monitor, routine, "any", "copying", "panic"), "the copy operation panics: "+p.Msg+" @ "+p.Frame, map[string]any{"source": s0.Str})
		return
	}
	cs.Cover(monitor + ":" + routine)
	cs.Nontrivial(routine, s0.Str, fmt.Sprint(s0.E))
	cs.Sample(map[string]any{"routine": routine, "source": s0.Str})
	w := map[string]any{"routine": routine, "source": fmt.Sprint(s0.E)}
	c0 := take(cp)
	if d := equalCopy(s0, c0, t.IsInt, true, false); d != "" {
		cs.Violation(sig(monitor, routine, "any", "none", "not-equal"), "the copy differs from its source: "+d, w)
		return
	}
	mutateCopy := r.Bool()
	target, other, o0, side := src, cp, c0, "source"
	if mutateCopy {
		ts, ok := cp.(ad.Scalar)
		if !ok {
			cs.Cover(monitor + ":copy-not-mutable")
			return
		}
		target, other, o0, side = ts, src, s0, "copy"
	}
	for k := r.Range(2, 4); k > 0; k-- {
		op := scalarMuts[r.Intn(len(scalarMuts))]
		pm := fw.Call(func() { mutateScalar(target, t, op, r) })
		cs.Cover(monitor + ":mutation:" + op)
		if d := unchanged(o0, take(other)); d != "" {
			w["mutation"] = op
			cl := "value-write"
			if op == "SetDerivative-in-place" || op == "Alloc" {
				cl = "derivative-write"
			}
			cs.Violation(sig(monitor, routine, "any", "mutate-"+side+":"+cl, "shared-state"), fmt.Sprintf("after %s on the %s the other object changed: %s", op, side, d), w)
			return
		}
		if pm != nil {
			return
		}
	}
}

/* iterators
 * -------------------------------------------------------------------------- */

type rIter struct{ v reflect.Value }

func newRIter(x any) rIter {
	v := reflect.ValueOf(x)
	if v.Kind() == reflect.Struct { // value result (AvlIterator.Clone): methods need a pointer
		p := reflect.New(v.Type())
		p.Elem().Set(v)
		v = p
	}
	return rIter{v}
}

func (it rIter) ok() bool { return it.v.MethodByName("Ok").Call(nil)[0].Bool() }
func (it rIter) next()    { it.v.MethodByName("Next").Call(nil) }

func (it rIter) pos() string {
	if !it.ok() {
		return "end"
	}
	var b strings.Builder
	if m := it.v.MethodByName("Index"); m.IsValid() {
		for _, x := range m.Call(nil) {
			fmt.Fprintf(&b, "%d,", x.Int())
		}
	}
	if m := it.v.MethodByName("GetConst"); m.IsValid() {
		for _, x := range m.Call(nil) {
			if x.IsNil() {
				b.WriteString("nil;")
				continue
			}
			c := x.Interface().(ad.ConstScalar)
			fmt.Fprintf(&b, "%v;", c.GetFloat64())
		}
	} else if m := it.v.MethodByName("Get"); m.IsValid() {
		for _, x := range m.Call(nil) {
			fmt.Fprintf(&b, "%v;", x.Interface())
		}
	}
	return b.String()
}

func (it rIter) drain(limit int) []string {
	var seq []string
	for k := 0; k < limit && it.ok(); k++ {
		seq = append(seq, it.pos())
		it.next()
	}
	if it.ok() {
		seq = append(seq, "…unterminated")
	}
	return seq
}

// iterator kinds: constructor on the container and the clone methods to try
type iterKind struct {
	Name   string
	Make   func(c any, other any, r *prng.Rand) any
	Clones []string
}

var vecIterKinds = []iterKind{
	{"ConstIterator", func(c, o any, r *prng.Rand) any { return c.(ad.Vector).ConstIterator() }, []string{"CloneConstIterator", "Clone"}},
	{"ConstIteratorFrom", func(c, o any, r *prng.Rand) any {
		return c.(ad.Vector).ConstIteratorFrom(r.Intn(c.(ad.Vector).Dim() + 1))
	}, []string{"CloneConstIterator"}},
	{"Iterator", func(c, o any, r *prng.Rand) any { return c.(ad.Vector).Iterator() }, []string{"CloneIterator", "Clone"}},
	{"IteratorFrom", func(c, o any, r *prng.Rand) any { return c.(ad.Vector).IteratorFrom(r.Intn(c.(ad.Vector).Dim() + 1)) }, []string{"CloneIterator"}},
	{"MagicIterator", func(c, o any, r *prng.Rand) any {
		if m, ok := c.(ad.MagicVector); ok {
			return m.MagicIterator()
		}
		return c.(ad.Vector).Iterator()
	}, []string{"CloneMagicIterator", "CloneIterator"}},
	{"JointIterator", func(c, o any, r *prng.Rand) any { return c.(ad.Vector).JointIterator(o.(ad.Vector)) }, []string{"CloneJointIterator", "Clone"}},
	{"ConstJointIterator", func(c, o any, r *prng.Rand) any { return c.(ad.Vector).ConstJointIterator(o.(ad.Vector)) }, []string{"CloneConstJointIterator"}},
}

var matIterKinds = []iterKind{
	{"ConstIterator", func(c, o any, r *prng.Rand) any { return c.(ad.Matrix).ConstIterator() }, []string{"CloneConstIterator", "Clone"}},
	{"ConstIteratorFrom", func(c, o any, r *prng.Rand) any {
		rows, cols := c.(ad.Matrix).Dims()
		return c.(ad.Matrix).ConstIteratorFrom(r.Intn(rows), r.Intn(cols))
	}, []string{"CloneConstIterator"}},
	{"Iterator", func(c, o any, r *prng.Rand) any { return c.(ad.Matrix).Iterator() }, []string{"CloneIterator", "Clone"}},
	{"IteratorFrom", func(c, o any, r *prng.Rand) any {
		rows, cols := c.(ad.Matrix).Dims()
		return c.(ad.Matrix).IteratorFrom(r.Intn(rows), r.Intn(cols))
	}, []string{"CloneIterator"}},
	{"MagicIterator", func(c, o any, r *prng.Rand) any {
		if m, ok := c.(ad.MagicMatrix); ok {
			return m.MagicIterator()
		}
		return c.(ad.Matrix).Iterator()
	}, []string{"CloneMagicIterator", "CloneIterator"}},
	{"JointIterator", func(c, o any, r *prng.Rand) any { return c.(ad.Matrix).JointIterator(o.(ad.Matrix)) }, []string{"CloneJointIterator", "Clone"}},
}

func iteratorCloneCase(cs *fw.Case) {
	const monitor = "copy.iterator"
	r := cs.R
	i := cs.Index
	t := gen.Types[i%9]
	storage := storages[(i/9)%2]
	matrix := (i/18)%2 == 1
	var kind iterKind
	var cont, other any
	limit := 0
	if p := fw.Call(func() {
		if matrix {
			kind = matIterKinds[(i/36)%len(matIterKinds)]
			m := gen.NullMatrix(t, storage, r.Range(1, 4), r.Range(1, 4))
			fillM(m, t, r, pzOf(storage), false)
			rows, cols := m.Dims()
			o := gen.NullMatrix(t, storages[r.Intn(2)], rows, cols)
			fillM(o, t, r, 0.4, false)
			cont, other, limit = m, o, rows*cols+2
		} else {
			kind = vecIterKinds[(i/36)%len(vecIterKinds)]
			v := gen.NullVector(t, storage, r.Range(1, 9))
			fillV(v, t, r, pzOf(storage), false)
			o := gen.NullVector(t, storages[r.Intn(2)], v.Dim())
			fillV(o, t, r, 0.4, false)
			cont, other, limit = v, o, v.Dim()+2
		}
	}); p != nil {
		cs.Skip("construction-panics")
		return
	}
	cloneName := kind.Clones[r.Intn(len(kind.Clones))]
	routine := typeName(cont) + "." + kind.Name + "." + cloneName
	var verdict, detail string
	var ref []string
	advance := 0
	p := fw.Call(func() {
		// reference: remaining sequence of a twin iterator advanced by the same number of steps
		seedPos := r.Uint64()
		mk := func() rIter { return newRIter(kind.Make(cont, other, prngAt(seedPos))) }
		full := mk().drain(limit)
		if len(full) > 0 && strings.HasPrefix(full[len(full)-1], "…") {
			verdict = "skip:iterator-does-not-terminate"
			return
		}
		advance = r.Intn(len(full) + 1)
		orig := mk()
		for k := 0; k < advance; k++ {
			orig.next()
		}
		ref = full[advance:]
		cm := orig.v.MethodByName(cloneName)
		for _, alt := range kind.Clones {
			if cm.IsValid() {
				break
			}
			cloneName = alt
			routine = typeName(cont) + "." + kind.Name + "." + cloneName
			cm = orig.v.MethodByName(cloneName)
		}
		if !cm.IsValid() {
			verdict = "skip:no-clone-method"
			return
		}
		cl := newRIter(cm.Call(nil)[0].Interface())
		if a, b := orig.pos(), cl.pos(); a != b {
			verdict, detail = "not-equal", fmt.Sprintf("the clone stands at %s, the original at %s", b, a)
			return
		}
		first, second, fname, sname := orig, cl, "original", "clone"
		if r.Bool() {
			first, second, fname, sname = cl, orig, "clone", "original"
		}
		s1 := first.drain(limit)
		if fmt.Sprint(s1) != fmt.Sprint(ref) {
			verdict, detail = "not-equal", fmt.Sprintf("the %s yields %v, a fresh iterator advanced %d steps yields %v", fname, s1, advance, ref)
			return
		}
		s2 := second.drain(limit)
		if fmt.Sprint(s2) != fmt.Sprint(ref) {
			verdict, detail = "shared-state", fmt.Sprintf("after draining the %s, the %s yields %v instead of %v", fname, sname, s2, ref)
		}
	})
	if p != nil {
		cs.Skip("iterator-panics")
		cs.Cover(monitor + ":iterator-panics:" + routine)
		return
	}
	if strings.HasPrefix(verdict, "skip:") {
		cs.Skip(strings.TrimPrefix(verdict, "skip:"))
		return
	}
	cs.Cover(monitor + ":" + routine)
	if len(ref) > 0 {
		cs.Nontrivial(routine, safeString(cont), advance)
	}
	cs.Sample(map[string]any{"routine": routine, "container": safeString(cont), "advanced": advance, "remaining": ref})
	if verdict != "" {
		cs.Violation(sig(monitor, routine, "any", "advance-one-side", verdict), detail, map[string]any{"container": safeString(cont), "other": safeString(other), "advanced": advance})
	}
}

func prngAt(seed uint64) *prng.Rand { return prng.New(seed) }

/* AVL tree, its iterator, DenseGradient
 * -------------------------------------------------------------------------- */

func avlKeys(t *ad.AvlTree) []int {
	var k []int
	for it := t.Iterator(); it.Ok(); it.Next() {
		k = append(k, it.Get())
	}
	return k
}

func avlCopyCase(cs *fw.Case) {
	const monitor = "copy.avl"
	r := cs.R
	tree := ad.NewAvlTree()
	model := map[int]bool{}
	n := r.Range(0, 40)
	for k := 0; k < n; k++ {
		x := r.Range(-30, 30)
		tree.Insert(x)
		model[x] = true
	}
	for k := r.Intn(10); k > 0; k-- {
		x := r.Range(-30, 30)
		tree.Delete(x)
		delete(model, x)
	}
	var want []int
	for k := range model {
		want = append(want, k)
	}
	sort.Ints(want)
	switch cs.Index % 3 {
	case 0, 1:
		routine := "AvlTree.Clone"
		cl := tree.Clone()
		cs.Cover(monitor + ":" + routine)
		cs.Nontrivial(routine, fmt.Sprint(want))
		cs.Sample(map[string]any{"routine": routine, "keys": want})
		w := map[string]any{"keys": want}
		if a := avlKeys(cl); fmt.Sprint(a) != fmt.Sprint(want) || cl.String() != tree.String() {
			cs.Violation(sig(monitor, routine, "any", "none", "not-equal"), fmt.Sprintf("clone holds %v / %s, source %v / %s", a, cl.String(), want, tree.String()), w)
			return
		}
		target, other, side := tree, cl, "source"
		if cs.Index%3 == 1 {
			target, other, side = cl, tree, "copy"
		}
		before := other.String()
		var ops []string
		for k := r.Range(1, 25); k > 0; k-- {
			x := r.Range(-35, 35)
			if r.Bool() {
				target.Insert(x)
				ops = append(ops, fmt.Sprintf("ins %d", x))
			} else {
				target.Delete(x)
				ops = append(ops, fmt.Sprintf("del %d", x))
			}
			if a := avlKeys(other); fmt.Sprint(a) != fmt.Sprint(want) || other.String() != before {
				w["ops"] = ops
				cs.Violation(sig(monitor, routine, "any", "mutate-"+side+":insert/delete", "shared-state"),
					fmt.Sprintf("after %v on the %s the other tree holds %v (%s), expected %v", ops, side, a, other.String(), want), w)
				return
			}
		}
	default:
		routine := "AvlIterator.Clone"
		it := tree.Iterator()
		adv := 0
		if len(want) > 0 {
			adv = r.Intn(len(want) + 1)
		}
		for k := 0; k < adv; k++ {
			it.Next()
		}
		c := it.Clone()
		cl := &c
		cs.Cover(monitor + ":" + routine)
		if len(want) > adv {
			cs.Nontrivial(routine, fmt.Sprint(want), adv)
		}
		cs.Sample(map[string]any{"routine": routine, "keys": want, "advanced": adv})
		rest := want[adv:]
		drain := func(i *ad.AvlIterator) []int {
			var s []int
			for k := 0; k < len(want)+2 && i.Ok(); k++ {
				s = append(s, i.Get())
				i.Next()
			}
			return s
		}
		first, second, fn := it, cl, "original"
		if r.Bool() {
			first, second, fn = cl, it, "clone"
		}
		s1 := drain(first)
		s2 := drain(second)
		if fmt.Sprint(s1) != fmt.Sprint(append([]int{}, rest...)) && !(len(s1) == 0 && len(rest) == 0) {
			cs.Violation(sig(monitor, routine, "any", "none", "not-equal"), fmt.Sprintf("the %s yields %v, expected %v", fn, s1, rest), map[string]any{"keys": want, "advanced": adv})
			return
		}
		if fmt.Sprint(s2) != fmt.Sprint(append([]int{}, rest...)) && !(len(s2) == 0 && len(rest) == 0) {
			cs.Violation(sig(monitor, routine, "any", "advance-one-side", "shared-state"), fmt.Sprintf("after draining the %s the other iterator yields %v, expected %v", fn, s2, rest), map[string]any{"keys": want, "advanced": adv})
		}
	}
}

func gradientCopyCase(cs *fw.Case) {
	const monitor = "copy.gradient"
	r := cs.R
	t := gen.Types[7+cs.Index%2]
	s := ad.NewScalar(t.T, 0)
	gen.SetScalar(s, gen.RandJet(t, r, t.Value(r), r.Range(1, 4), r.Range(1, 2)))
	g := ad.DenseGradient{S: s}
	routine := "DenseGradient." + []string{"Clone", "CloneConstVector"}[(cs.Index/2)%2]
	var cp ad.ConstVector
	if (cs.Index/2)%2 == 0 {
		cp = g.Clone()
	} else {
		cp = g.CloneConstVector()
	}
	g0, c0 := take(g), take(cp)
	cs.Cover(monitor + ":" + routine)
	cs.Nontrivial(routine, g0.Str)
	cs.Sample(map[string]any{"routine": routine, "gradient": g0.Str})
	if d := equalCopy(g0, c0, false, false, true); d != "" {
		cs.Violation(sig(monitor, routine, "any", "none", "not-equal"), "the copy differs from its source: "+d, map[string]any{"gradient": g0.Str})
		return
	}
	m := s.(ad.MagicScalar)
	for k := 0; k < m.GetN(); k++ {
		m.SetDerivative(k, m.GetDerivative(k)+5)
	}
	if d := unchanged(c0, take(cp)); d != "" {
		cs.Violation(sig(monitor, routine, "any", "mutate-source:derivative-write", "shared-state"), "after writing the derivatives of the source scalar the copy changed: "+d, map[string]any{"gradient": g0.Str})
	}
}

/* constant sparse vectors: conversion from a mutable vector and their clones
 * -------------------------------------------------------------------------- */

var sparseConstCtor = map[string]func(ad.ConstVector) ad.ConstVector{
	"Int8":    func(v ad.ConstVector) ad.ConstVector { return ad.AsSparseConstInt8Vector(v) },
	"Int16":   func(v ad.ConstVector) ad.ConstVector { return ad.AsSparseConstInt16Vector(v) },
	"Int32":   func(v ad.ConstVector) ad.ConstVector { return ad.AsSparseConstInt32Vector(v) },
	"Int64":   func(v ad.ConstVector) ad.ConstVector { return ad.AsSparseConstInt64Vector(v) },
	"Int":     func(v ad.ConstVector) ad.ConstVector { return ad.AsSparseConstIntVector(v) },
	"Float32": func(v ad.ConstVector) ad.ConstVector { return ad.AsSparseConstFloat32Vector(v) },
	"Float64": func(v ad.ConstVector) ad.ConstVector { return ad.AsSparseConstFloat64Vector(v) },
}

// valuesOf reads a constant vector through the typed accessors (ConstAt of the
// integer instantiations answers with a ConstFloat64).
func valuesOf(v ad.ConstVector) string {
	var b strings.Builder
	fmt.Fprintf(&b, "%d:", v.Dim())
	for i := 0; i < v.Dim(); i++ {
		fmt.Fprintf(&b, "%d/%v;", v.Int64At(i), v.Float64At(i))
	}
	// positions the iterator visits with a non-zero value (a dense source also
	// visits its zeros)
	for it := v.ConstIterator(); it.Ok(); it.Next() {
		if i := it.Index(); v.Float64At(i) != 0 {
			fmt.Fprintf(&b, "|%d", i)
		}
	}
	return b.String()
}

func sparseConstCopyCase(cs *fw.Case) {
	const monitor = "copy.sparse-const"
	r := cs.R
	t := gen.Types[cs.Index%7]
	storage := storages[(cs.Index/7)%2]
	method := []string{"AsSparseConstVector", "Clone", "CloneConstVector", "ConstSlice"}[(cs.Index/14)%4]
	src := gen.NullVector(t, storage, r.Range(1, 9))
	fillV(src, t, r, pzOf(storage), false)
	var cv, cp ad.ConstVector
	var want string
	if p := fw.Call(func() {
		cv = sparseConstCtor[t.Name](src)
		cp = cv
		want = valuesOf(src)
		switch method {
		case "Clone":
			c, _ := callClone(cv)
			cp = c.(ad.ConstVector)
		case "CloneConstVector":
			cp = cv.CloneConstVector()
		case "ConstSlice":
			i, j := 0, src.Dim()
			if src.Dim() > 1 {
				i, j = subrange(src.Dim(), r)
			}
			cp = cv.ConstSlice(i, j)
			want = valuesOf(src.Slice(i, j))
		}
	}); p != nil {
		cs.Skip("construction-panics")
		cs.Cover(monitor + ":construction-panics:" + method)
		return
	}
	routine := typeName(cv) + "." + method
	cs.Cover(monitor + ":" + routine)
	cs.Nontrivial(routine, want)
	cs.Sample(map[string]any{"routine": routine, "source": safeString(src)})
	w := map[string]any{"routine": routine, "source": safeString(src)}
	got := ""
	if p := fw.Call(func() { got = valuesOf(cp) }); p != nil {
		cs.Violation(sig(monitor, routine, "any", "none", "not-equal"), "reading the copy panics: "+p.Msg+" @ "+p.Frame, w)
		return
	}
	if got != want {
		cs.Violation(sig(monitor, routine, "any", "none", "not-equal"), fmt.Sprintf("copy reads %s, source %s", got, want), w)
		return
	}
	// mutate the mutable source: the constant copies must not move
	for k := r.Range(2, 4); k > 0; k-- {
		mu := vecMuts[r.Intn(len(vecMuts))]
		fw.Call(func() { mu.F(src, t, r) })
		now := ""
		fw.Call(func() { now = valuesOf(cp) })
		if now != got {
			w["mutation"] = mu.Name
			cs.Violation(sig(monitor, routine, "any", "mutate-source:"+mutClass(mu.Name), "shared-state"), fmt.Sprintf("after %s on the source the constant copy reads %s instead of %s", mu.Name, now, got), w)
			return
		}
	}
}
