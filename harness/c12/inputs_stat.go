package c12

import (
	"fmt"
	"math"
	"reflect"

	ad "github.com/pbenner/autodiff"
	st "github.com/pbenner/autodiff/statistics"
	mcl "github.com/pbenner/autodiff/statistics/matrixClassifier"
	mes "github.com/pbenner/autodiff/statistics/matrixEstimator"
	scl "github.com/pbenner/autodiff/statistics/scalarClassifier"
	ses "github.com/pbenner/autodiff/statistics/scalarEstimator"
	vcl "github.com/pbenner/autodiff/statistics/vectorClassifier"
	ves "github.com/pbenner/autodiff/statistics/vectorEstimator"
	"github.com/pbenner/threadpool"

	"verifharness/c18/distcat"
	"verifharness/internal/fw"
	"verifharness/internal/prng"
)

func paramsOf(d any) (v []float64, p *fw.Panic) {
	p = fw.Call(func() {
		x := d.(interface{ GetParameters() ad.Vector }).GetParameters()
		v = make([]float64, x.Dim())
		for i := range v {
			v[i] = x.ConstAt(i).GetFloat64()
		}
	})
	return
}

func sameBits(a, b []float64) string {
	if len(a) != len(b) {
		return fmt.Sprintf("length %d vs %d", len(a), len(b))
	}
	for i := range a {
		if !bitsEq(a[i], b[i]) && !(math.IsNaN(a[i]) && math.IsNaN(b[i])) {
			return fmt.Sprintf("[%d] %v vs %v", i, a[i], b[i])
		}
	}
	return ""
}

type lp struct {
	V   float64
	Err string
}

func logPdfs(d any, in *distcat.Instance, t ad.ScalarType) []lp {
	res := make([]lp, len(in.Probes))
	for i, pr := range in.Probes {
		if p := fw.Call(func() {
			v, err := distcat.LogPdf(d, pr, t)
			res[i].V = v
			if err != nil {
				res[i].Err = "error"
			}
		}); p != nil {
			res[i].Err = "panic"
		}
	}
	return res
}

func sameLp(a, b []lp) string {
	for i := range a {
		if a[i].Err != b[i].Err {
			return fmt.Sprintf("probe %d: outcome %q vs %q", i, a[i].Err, b[i].Err)
		}
		if a[i].Err == "" && !bitsEq(a[i].V, b[i].V) && !(math.IsNaN(a[i].V) && math.IsNaN(b[i].V)) {
			return fmt.Sprintf("probe %d: LogPdf %v vs %v", i, a[i].V, b[i].V)
		}
	}
	return ""
}

func fls(v []float64) []any {
	r := make([]any, len(v))
	for i, x := range v {
		if math.IsNaN(x) || math.IsInf(x, 0) {
			r[i] = fmt.Sprint(x)
		} else {
			r[i] = x
		}
	}
	return r
}

// families whose SetParameters must not be called: it calls itself without
// bound (vector and matrix mixture), which would kill the process
var noSetParameters = map[string]bool{"vector:mixture distribution": true, "matrix:mixture distribution": true}

func cloneDist(d any, typed bool) (c any, name string) {
	if typed {
		c, _ = callClone(d)
		return c, "Clone"
	}
	switch x := d.(type) {
	case st.ScalarPdf:
		return x.CloneScalarPdf(), "CloneScalarPdf"
	case st.VectorPdf:
		return x.CloneVectorPdf(), "CloneVectorPdf"
	case st.MatrixPdf:
		return x.CloneMatrixPdf(), "CloneMatrixPdf"
	}
	c, _ = callClone(d)
	return c, "Clone"
}

/* distributions: clones, constructor arguments, LogPdf arguments
 * -------------------------------------------------------------------------- */

func distCase(cs *fw.Case) {
	const monitor = "dist"
	r := cs.R
	fam := distcat.Families[cs.Index%len(distcat.Families)]
	mode := (cs.Index / len(distcat.Families)) % 4 // 0,1: clone (interface / typed)  2: constructor arguments  3: LogPdf arguments
	t := ad.Float64Type
	tn := "Float64"
	if (cs.Index/(4*len(distcat.Families)))%3 == 2 && fam.Name != "vector:logistic regression" {
		t, tn = ad.Real64Type, "Real64"
	}
	in, err := distcat.Generate(fam, r, t)
	if err != nil {
		cs.Skip("instance-not-constructible")
		return
	}
	p0, pp := paramsOf(in.Dist)
	if pp != nil {
		cs.Skip("source-read-panics")
		return
	}
	l0 := logPdfs(in.Dist, in, t)
	w := map[string]any{"family": in.Family, "variant": in.Variant, "go_type": fmt.Sprintf("%T", in.Dist), "scalar_type": tn, "parameters": fls(p0)}
	switch mode {
	case 0, 1:
		var c any
		var method string
		if p := fw.Call(func() { c, method = cloneDist(in.Dist, mode == 1) }); p != nil {
			cs.Violation(sig("copy.dist", in.Family+"."+"Clone", in.Variant, "copying", "panic"), "cloning panics: "+p.Msg+" @ "+p.Frame, w)
			return
		}
		// Clone<Kind>Pdf is a one-line wrapper of Clone: one routine for signatures
		routine := in.Family + ".Clone"
		w["method"] = method
		cs.Cover("copy.dist:" + in.Family + "." + method)
		cs.Nontrivial(routine, in.Variant, fmt.Sprint(p0))
		cs.Sample(map[string]any{"routine": routine, "variant": in.Variant, "parameters": fls(p0)})
		if reflect.TypeOf(c) != reflect.TypeOf(in.Dist) {
			cs.Violation(sig("copy.dist", routine, "any", "none", "not-equal:type"), fmt.Sprintf("the clone has type %T, the source %T", c, in.Dist), w)
			return
		}
		p1, pp := paramsOf(c)
		if pp != nil {
			cs.Violation(sig("copy.dist", routine, in.Variant, "none", "not-equal:unreadable"), "GetParameters of the clone panics: "+pp.Msg+" @ "+pp.Frame, w)
			return
		}
		if d := sameBits(p0, p1); d != "" {
			w["clone_parameters"] = fls(p1)
			cs.Violation(sig("copy.dist", routine, in.Variant, "none", "not-equal:value"), "parameters of the clone differ: "+d, w)
			return
		}
		if d := sameLp(l0, logPdfs(c, in, t)); d != "" {
			cs.Violation(sig("copy.dist", routine, in.Variant, "none", "not-equal:value"), "the clone evaluates differently: "+d, w)
			return
		}
		if noSetParameters[in.Family] {
			cs.Cover("copy.dist:mutation-skipped(unbounded SetParameters):" + in.Family)
			return
		}
		// mutate one side through SetParameters, observe the other
		target, other, side := c, any(in.Dist), "copy"
		if r.Bool() {
			target, other, side = in.Dist, c, "source"
		}
		np := ad.NullDenseVector(t, len(p0))
		for i, x := range p0 {
			if math.IsInf(x, 0) || math.IsNaN(x) {
				np.At(i).SetFloat64(x)
			} else {
				np.At(i).SetFloat64(x*1.25 + 0.125)
			}
		}
		var serr error
		pm := fw.Call(func() { serr = target.(interface{ SetParameters(ad.Vector) error }).SetParameters(np) })
		if pm != nil || serr != nil {
			cs.Cover("copy.dist:SetParameters-rejected:" + in.Family)
		}
		p2, pp := paramsOf(other)
		if pp != nil {
			cs.Violation(sig("copy.dist", routine, in.Variant, "mutate-"+side+":SetParameters", "shared-state"), "after SetParameters on the "+side+" the other object cannot be read: "+pp.Msg, w)
			return
		}
		if d := sameBits(p0, p2); d != "" {
			cs.Violation(sig("copy.dist", routine, in.Variant, "mutate-"+side+":SetParameters", "shared-state"), "after SetParameters on the "+side+" the parameters of the other object changed: "+d, w)
			return
		}
		if d := sameLp(l0, logPdfs(other, in, t)); d != "" {
			cs.Violation(sig("copy.dist", routine, in.Variant, "mutate-"+side+":SetParameters", "shared-state"), "after SetParameters on the "+side+" the other object evaluates differently: "+d, w)
		}
	case 2:
		// constructor arguments: unchanged by construction and evaluation; writing
		// to a parameter SCALAR afterwards must not reach the distribution
		routine := in.Family + ".New"
		cs.Cover("input.dist-ctor:" + in.Family)
		cs.Nontrivial(routine, in.Variant, fmt.Sprint(p0))
		cs.Sample(map[string]any{"routine": routine, "variant": in.Variant, "arguments": len(in.Args)})
		for _, a := range in.Args {
			s, isScalar := a.Obj.(ad.Scalar)
			if !isScalar {
				continue
			}
			s.SetFloat64(s.GetFloat64()*3 + 1)
			if m, ok := s.(ad.MagicScalar); ok {
				m.Alloc(1, 1)
				m.SetDerivative(0, 5)
			}
			p1, pp := paramsOf(in.Dist)
			d := ""
			if pp != nil {
				d = "GetParameters panics: " + pp.Msg
			} else if d = sameBits(p0, p1); d == "" {
				d = sameLp(l0, logPdfs(in.Dist, in, t))
			}
			if d != "" {
				cs.Violation(sig("input.dist-ctor", routine, in.Variant, "arg="+argClass(a.Name)+"(scalar)", "aliased"),
					fmt.Sprintf("writing to the scalar %s that was handed to the constructor changes the distribution: %s", a.Name, d), w)
				return
			}
		}
		// vectors and matrices handed to a constructor: recorded, not judged (the
		// property speaks about parameter scalars)
		for _, a := range in.Args {
			switch x := a.Obj.(type) {
			case ad.Vector:
				if x.Dim() > 0 {
					x.At(0).SetFloat64(x.At(0).GetFloat64() + 0.5)
				}
			case ad.Matrix:
				if n, m := x.Dims(); n > 0 && m > 0 {
					x.At(0, 0).SetFloat64(x.At(0, 0).GetFloat64() + 0.5)
				}
			default:
				continue
			}
			if p1, pp := paramsOf(in.Dist); pp != nil || sameBits(p0, p1) != "" {
				cs.Cover("observed(not judged):constructor-keeps-reference-to-vector/matrix-argument:" + in.Family + "/" + argClass(a.Name))
			}
		}
	default:
		// LogPdf arguments and the constructor arguments are read-only for LogPdf
		routine := in.Family + ".LogPdf"
		cs.Cover("input.logpdf:" + in.Family)
		cs.Nontrivial(routine, in.Variant, fmt.Sprint(p0))
		cs.Sample(map[string]any{"routine": routine, "variant": in.Variant, "probe": safeString(in.Probes[0])})
		var ops []*operand
		for i, pr := range in.Probes {
			if pair, ok := pr.([2]any); ok {
				ops = append(ops, &operand{Name: fmt.Sprintf("x%d.mu", i), Obj: pair[0]}, &operand{Name: fmt.Sprintf("x%d.sigma", i), Obj: pair[1]})
			} else {
				ops = append(ops, &operand{Name: "x", Obj: pr})
			}
		}
		for _, a := range in.Args {
			ops = append(ops, &operand{Name: "ctor:" + argClass(a.Name), Obj: a.Obj})
		}
		for _, o := range ops {
			o.snap()
		}
		logPdfs(in.Dist, in, t)
		logPdfs(in.Dist, in, t)
		// LogCdf / Cdf where the family has them
		type cdfS interface {
			LogCdf(ad.Scalar, ad.ConstScalar) error
			Cdf(ad.Scalar, ad.ConstScalar) error
		}
		type cdfV interface {
			LogCdf(ad.Scalar, ad.Vector) error
			Cdf(ad.Scalar, ad.Vector) error
		}
		for _, pr := range in.Probes {
			x, ok := pr.(ad.ConstScalar)
			if !ok {
				continue
			}
			if c, ok := in.Dist.(cdfS); ok {
				fw.Call(func() { c.LogCdf(ad.NewScalar(t, 0), x); c.Cdf(ad.NewScalar(t, 0), x) })
				cs.Cover("input.logcdf:" + in.Family)
			}
		}
		if c, ok := in.Dist.(cdfV); ok {
			xv := ad.NullDenseVector(t, len(in.Probes))
			for i, pr := range in.Probes {
				if x, ok := pr.(ad.ConstScalar); ok {
					xv.At(i).SetFloat64(x.GetFloat64())
				}
			}
			o := &operand{Name: "x(LogCdf)", Obj: xv}
			o.snap()
			ops = append(ops, o)
			fw.Call(func() { c.LogCdf(ad.NewScalar(t, 0), xv); c.Cdf(ad.NewScalar(t, 0), xv) })
			cs.Cover("input.logcdf:" + in.Family)
		}
		for _, o := range ops {
			if d := o.changed(); d != "" {
				cs.Violation(sig("input.logpdf", routine, in.Variant, "arg="+o.Name, "modified"), fmt.Sprintf("evaluating LogPdf / LogCdf changed %s: %s", o.Name, d), w)
				return
			}
		}
		if p1, pp := paramsOf(in.Dist); pp == nil {
			if d := sameBits(p0, p1); d != "" {
				cs.Violation(sig("input.logpdf", routine, in.Variant, "receiver-parameters", "modified"), "evaluating LogPdf changed the parameters of the distribution: "+d, w)
			}
		}
	}
}

// argClass strips indices from argument names: edist[2].mu -> edist[].mu
func argClass(name string) string {
	out := make([]byte, 0, len(name))
	skip := false
	for i := 0; i < len(name); i++ {
		c := name[i]
		if c == '[' {
			skip = true
			out = append(out, '[', ']')
			continue
		}
		if c == ']' {
			skip = false
			continue
		}
		if !skip {
			out = append(out, c)
		}
	}
	return string(out)
}

/* estimators and classifiers
 * -------------------------------------------------------------------------- */

type estSpec struct {
	Name  string
	Build func(r *prng.Rand) (est any, data any, n int, ctorArgs []*operand, err error)
}

func normalData(r *prng.Rand, n int, positive, integer bool) ad.ConstVector {
	v := make([]float64, n)
	for i := range v {
		x := r.Uniform(-3, 3)
		if positive {
			x = r.Uniform(0.1, 5)
		}
		if integer {
			x = float64(r.Range(0, 6))
		}
		v[i] = x
	}
	return ad.NewDenseFloat64Vector(v)
}

func vecData(r *prng.Rand, n, dim int) []ad.ConstVector {
	x := make([]ad.ConstVector, n)
	for i := range x {
		v := make([]float64, dim)
		for k := range v {
			v[k] = r.Uniform(-3, 3)
		}
		x[i] = ad.NewDenseFloat64Vector(v)
	}
	return x
}

var estSpecs = []estSpec{
	{"scalarEstimator.NormalEstimator", func(r *prng.Rand) (any, any, int, []*operand, error) {
		e, err := ses.NewNormalEstimator(0.5, 1.5, 1e-3)
		return e, normalData(r, r.Range(3, 12), false, false), 0, nil, err
	}},
	{"scalarEstimator.ExponentialEstimator", func(r *prng.Rand) (any, any, int, []*operand, error) {
		e, err := ses.NewExponentialEstimator(1.0, 100)
		return e, normalData(r, r.Range(3, 12), true, false), 0, nil, err
	}},
	{"scalarEstimator.PoissonEstimator", func(r *prng.Rand) (any, any, int, []*operand, error) {
		e, err := ses.NewPoissonEstimator(2.0)
		return e, normalData(r, r.Range(3, 12), true, true), 0, nil, err
	}},
	{"scalarEstimator.GeometricEstimator", func(r *prng.Rand) (any, any, int, []*operand, error) {
		e, err := ses.NewGeometricEstimator(0.3)
		return e, normalData(r, r.Range(3, 12), true, true), 0, nil, err
	}},
	{"scalarEstimator.CategoricalEstimator", func(r *prng.Rand) (any, any, int, []*operand, error) {
		theta := []float64{0.1, 0.2, 0.3, 0.1, 0.1, 0.1, 0.1}
		e, err := ses.NewCategoricalEstimator(theta)
		return e, normalData(r, r.Range(3, 12), true, true), 0, []*operand{{Name: "theta", Obj: theta}}, err
	}},
	{"scalarEstimator.NumericEstimator", func(r *prng.Rand) (any, any, int, []*operand, error) {
		in, err := distcat.Generate(familyByName("scalar:normal distribution"), r, ad.Real64Type)
		if err != nil {
			return nil, nil, 0, nil, err
		}
		e, err := ses.NewNumericEstimator(in.Dist.(st.ScalarPdf))
		if e != nil {
			e.MaxIterations = 5
		}
		return e, normalData(r, r.Range(3, 8), false, false), 0, nil, err
	}},
	{"scalarEstimator.MixtureEstimator", func(r *prng.Rand) (any, any, int, []*operand, error) {
		e1, _ := ses.NewNormalEstimator(-1, 1, 1e-3)
		e2, _ := ses.NewNormalEstimator(1, 1, 1e-3)
		weights := []float64{0.4, 0.6}
		e, err := ses.NewMixtureEstimator(weights, []st.ScalarEstimator{e1, e2}, 1e-6, 4)
		return e, normalData(r, r.Range(4, 12), false, false), 0, []*operand{{Name: "weights", Obj: weights}}, err
	}},
	{"vectorEstimator.NormalEstimator", func(r *prng.Rand) (any, any, int, []*operand, error) {
		mu, sigma := []float64{0.5, -0.5}, []float64{1.5, 0.25, 0.25, 2}
		e, err := ves.NewNormalEstimator(mu, sigma, 1e-3)
		return e, vecData(r, r.Range(4, 10), 2), 0, []*operand{{Name: "mu", Obj: mu}, {Name: "sigma", Obj: sigma}}, err
	}},
	{"vectorEstimator.ScalarId", func(r *prng.Rand) (any, any, int, []*operand, error) {
		e1, _ := ses.NewNormalEstimator(-1, 1, 1e-3)
		e2, _ := ses.NewNormalEstimator(1, 1, 1e-3)
		e, err := ves.NewScalarId(e1, e2)
		return e, vecData(r, r.Range(3, 9), 2), 0, nil, err
	}},
	{"vectorEstimator.ScalarIid", func(r *prng.Rand) (any, any, int, []*operand, error) {
		e1, _ := ses.NewNormalEstimator(-1, 1, 1e-3)
		e, err := ves.NewScalarIid(e1, -1)
		return e, vecData(r, r.Range(3, 9), r.Range(1, 4)), 0, nil, err
	}},
	{"vectorEstimator.MixtureEstimator", func(r *prng.Rand) (any, any, int, []*operand, error) {
		e1, _ := ves.NewNormalEstimator([]float64{-1, 0}, []float64{1, 0, 0, 1}, 1e-3)
		e2, _ := ves.NewNormalEstimator([]float64{1, 0}, []float64{1, 0, 0, 1}, 1e-3)
		weights := []float64{0.5, 0.5}
		e, err := ves.NewMixtureEstimator(weights, []st.VectorEstimator{e1, e2}, 1e-6, 3)
		return e, vecData(r, r.Range(5, 10), 2), 0, []*operand{{Name: "weights", Obj: weights}}, err
	}},
	{"vectorEstimator.HmmEstimator", func(r *prng.Rand) (any, any, int, []*operand, error) {
		e1, _ := ses.NewNormalEstimator(-1, 1, 1e-3)
		e2, _ := ses.NewNormalEstimator(1, 1, 1e-3)
		pi := ad.NewDenseFloat64Vector([]float64{0.6, 0.4})
		tr := ad.NewDenseFloat64Matrix([]float64{0.7, 0.3, 0.4, 0.6}, 2, 2)
		stateMap := []int{0, 1}
		e, err := ves.NewHmmEstimator(pi, tr, stateMap, nil, nil, []st.ScalarEstimator{e1, e2}, 1e-6, 3)
		return e, vecData(r, r.Range(2, 5), r.Range(3, 8)), 0, []*operand{{Name: "pi", Obj: pi}, {Name: "tr", Obj: tr}, {Name: "stateMap", Obj: stateMap}}, err
	}},
	{"matrixEstimator.HmmEstimator", func(r *prng.Rand) (any, any, int, []*operand, error) {
		e1, _ := ves.NewNormalEstimator([]float64{-1, 0}, []float64{1, 0, 0, 1}, 1e-3)
		e2, _ := ves.NewNormalEstimator([]float64{1, 0}, []float64{1, 0, 0, 1}, 1e-3)
		pi := ad.NewDenseFloat64Vector([]float64{0.6, 0.4})
		tr := ad.NewDenseFloat64Matrix([]float64{0.7, 0.3, 0.4, 0.6}, 2, 2)
		e, err := mes.NewHmmEstimator(pi, tr, nil, nil, nil, []st.VectorEstimator{e1, e2}, 1e-6, 3)
		x := make([]ad.ConstMatrix, r.Range(2, 4))
		for i := range x {
			rows := r.Range(3, 7)
			v := make([]float64, rows*2)
			for k := range v {
				v[k] = r.Uniform(-3, 3)
			}
			x[i] = ad.NewDenseFloat64Matrix(v, rows, 2)
		}
		return e, x, 0, []*operand{{Name: "pi", Obj: pi}, {Name: "tr", Obj: tr}}, err
	}},
}

func familyByName(n string) distcat.Family {
	for _, f := range distcat.Families {
		if f.Name == n {
			return f
		}
	}
	panic("no family " + n)
}

func dataOperands(data any) []*operand {
	var ops []*operand
	switch x := data.(type) {
	case ad.ConstVector:
		ops = append(ops, &operand{Name: "x", Obj: x})
	case []ad.ConstVector:
		for _, v := range x {
			ops = append(ops, &operand{Name: "x[]", Obj: v})
		}
	case []ad.ConstMatrix:
		for _, v := range x {
			ops = append(ops, &operand{Name: "x[]", Obj: v})
		}
	}
	return ops
}

func nData(data any) int {
	switch x := data.(type) {
	case ad.ConstVector:
		return x.Dim()
	case []ad.ConstVector:
		return len(x)
	case []ad.ConstMatrix:
		return len(x)
	}
	return 0
}

func setData(e any, data any) error {
	switch x := data.(type) {
	case ad.ConstVector:
		return e.(st.ScalarEstimator).SetData(x, x.Dim())
	case []ad.ConstVector:
		return e.(st.VectorEstimator).SetData(x, len(x))
	case []ad.ConstMatrix:
		return e.(st.MatrixEstimator).SetData(x, len(x))
	}
	return fmt.Errorf("unknown data")
}

func estimateOnData(e any, data any, gamma ad.ConstVector, pool threadpool.ThreadPool) error {
	switch x := data.(type) {
	case ad.ConstVector:
		return e.(st.ScalarEstimator).EstimateOnData(x, gamma, pool)
	case []ad.ConstVector:
		return e.(st.VectorEstimator).EstimateOnData(x, gamma, pool)
	case []ad.ConstMatrix:
		return e.(st.MatrixEstimator).EstimateOnData(x, gamma, pool)
	}
	return fmt.Errorf("unknown data")
}

func cloneEstimator(e any) any {
	switch x := e.(type) {
	case st.ScalarEstimator:
		return x.CloneScalarEstimator()
	case st.VectorEstimator:
		return x.CloneVectorEstimator()
	case st.MatrixEstimator:
		return x.CloneMatrixEstimator()
	}
	return nil
}

func estimatorCase(cs *fw.Case) {
	const monitor = "input.estimator"
	r := cs.R
	spec := estSpecs[cs.Index%len(estSpecs)]
	variant := (cs.Index / len(estSpecs)) % 4 // weights x (SetData+Estimate | EstimateOnData)
	var est, data any
	var ctor []*operand
	var err error
	if p := fw.Call(func() { est, data, _, ctor, err = spec.Build(r) }); p != nil || err != nil || est == nil {
		cs.Skip("estimator-not-constructible")
		cs.Cover(monitor + ":not-constructible:" + spec.Name)
		return
	}
	weighted := variant&1 == 1
	onData := variant&2 == 2
	var gamma ad.ConstVector
	ops := dataOperands(data)
	if weighted {
		g := make([]float64, nData(data))
		for i := range g {
			g[i] = math.Log(r.Uniform(0.1, 1))
		}
		gamma = ad.NewDenseFloat64Vector(g)
		ops = append(ops, &operand{Name: "gamma", Obj: gamma})
	}
	for _, o := range ctor {
		o.Name = "ctor:" + o.Name
		ops = append(ops, o)
	}
	for _, o := range ops {
		o.snap()
	}
	opts := map[bool]string{false: "unweighted", true: "weighted"}[weighted] + "," + map[bool]string{false: "SetData+Estimate", true: "EstimateOnData"}[onData]
	pool := threadpool.New(1, 1)
	// clone before estimating: the clone must keep its parameters
	var cl any
	var c0 []float64
	fw.Call(func() {
		cl = cloneEstimator(est)
		if cl != nil {
			c0, _ = paramsOf(cl)
		}
	})
	var eerr error
	fw.SetTickBudget(200000)
	p := fw.Call(func() {
		if onData {
			eerr = estimateOnData(est, data, gamma, pool)
		} else {
			if eerr = setData(est, data); eerr == nil {
				eerr = est.(interface {
					Estimate(ad.ConstVector, threadpool.ThreadPool) error
				}).Estimate(gamma, pool)
			}
		}
	})
	fw.SetTickBudget(0)
	if p != nil && p.Budget {
		cs.Skip("no-return")
		return
	}
	cs.Cover(monitor + ":" + spec.Name + "/" + opts)
	if p != nil {
		cs.Cover(monitor + ":call-panics:" + spec.Name)
	} else if eerr != nil {
		cs.Cover(monitor + ":call-error:" + spec.Name)
	}
	cs.Nontrivial(spec.Name, opts, ops[0].S0.Str)
	cs.Sample(map[string]any{"routine": spec.Name, "options": opts, "data": clip(ops[0].S0.Str, 200)})
	w := map[string]any{"routine": spec.Name, "options": opts}
	for _, o := range ops {
		if d := o.changed(); d != "" {
			w["before"] = clip(o.S0.Str, 400)
			cs.Violation(sig(monitor, spec.Name, opts, "arg="+o.Name, "modified"), fmt.Sprintf("%s changed during estimation: %s", o.Name, d), w)
			return
		}
	}
	if cl != nil && c0 != nil {
		if c1, pp := paramsOf(cl); pp == nil {
			if d := sameBits(c0, c1); d != "" {
				cs.Violation(sig("copy.estimator", spec.Name+".Clone", opts, "mutate-source:Estimate", "shared-state"), "estimating on the source changed the parameters of its clone: "+d, w)
			}
		}
		cs.Cover("copy.estimator:" + spec.Name)
	}
}

func classifierCase(cs *fw.Case) {
	const monitor = "input.classifier"
	r := cs.R
	t := ad.Float64Type
	kind := cs.Index % 6
	var ops []*operand
	var call func() error
	var cloneFn func() any
	var evalClone func(c any) (float64, error)
	name := ""
	gen2 := func(fam string) (*distcat.Instance, *distcat.Instance, error) {
		a, e1 := distcat.Generate(familyByName(fam), r, t)
		if e1 != nil {
			return nil, nil, e1
		}
		for k := 0; k < 40; k++ {
			b, e2 := distcat.Generate(familyByName(fam), r, t)
			if e2 != nil {
				return nil, nil, e2
			}
			va, isVec := a.Dist.(st.VectorPdf)
			if !isVec || va.Dim() == b.Dist.(st.VectorPdf).Dim() {
				return a, b, nil
			}
		}
		return nil, nil, fmt.Errorf("no matching dimension")
	}
	res := ad.NewFloat64(0)
	build := func() error {
		switch kind {
		case 0, 1, 2:
			fg, bg, err := gen2("scalar:normal distribution")
			if err != nil {
				return err
			}
			x := ad.NewFloat64(r.Uniform(-3, 3))
			ops = []*operand{{Name: "x", Obj: x}}
			var c st.ScalarBatchClassifier
			switch kind {
			case 0:
				name = "scalarClassifier.LikelihoodClassifier"
				c, err = scl.NewLikelihoodClassifier(fg.Dist.(st.ScalarPdf), bg.Dist.(st.ScalarPdf))
			case 1:
				name = "scalarClassifier.PosteriorClassifier"
				c, err = scl.NewPosteriorClassifier(fg.Dist.(st.ScalarPdf), bg.Dist.(st.ScalarPdf), [2]float64{0.3, 0.7})
			default:
				name = "scalarClassifier.PosteriorOddsClassifier"
				c, err = scl.NewPosteriorOddsClassifier(fg.Dist.(st.ScalarPdf), bg.Dist.(st.ScalarPdf), [2]float64{0.3, 0.7})
			}
			if err != nil {
				return err
			}
			for _, a := range append(fg.Args, bg.Args...) {
				ops = append(ops, &operand{Name: "ctor:" + a.Name, Obj: a.Obj})
			}
			call = func() error { return c.Eval(res, x) }
			cloneFn = func() any { return c.CloneScalarBatchClassifier() }
			evalClone = func(k any) (float64, error) {
				rr := ad.NewFloat64(0)
				err := k.(st.ScalarBatchClassifier).Eval(rr, x)
				return rr.GetFloat64(), err
			}
		case 3, 4:
			fg, bg, err := gen2("vector:normal distribtion")
			if err != nil {
				return err
			}
			if fg.Dist.(st.VectorPdf).Dim() != bg.Dist.(st.VectorPdf).Dim() {
				return fmt.Errorf("dims")
			}
			xv := make([]float64, fg.Dist.(st.VectorPdf).Dim())
			for i := range xv {
				xv[i] = r.Uniform(-3, 3)
			}
			x := ad.NewDenseFloat64Vector(xv)
			ops = []*operand{{Name: "x", Obj: x}}
			var c st.VectorBatchClassifier
			if kind == 3 {
				name = "vectorClassifier.LikelihoodClassifier"
				c, err = vcl.NewLikelihoodClassifier(fg.Dist.(st.VectorPdf), bg.Dist.(st.VectorPdf))
			} else {
				name = "vectorClassifier.PosteriorClassifier"
				c, err = vcl.NewPosteriorClassifier(fg.Dist.(st.VectorPdf), bg.Dist.(st.VectorPdf), [2]float64{0.3, 0.7})
			}
			if err != nil {
				return err
			}
			call = func() error { return c.Eval(res, x) }
			cloneFn = func() any { return c.CloneVectorBatchClassifier() }
			evalClone = func(k any) (float64, error) {
				rr := ad.NewFloat64(0)
				err := k.(st.VectorBatchClassifier).Eval(rr, x)
				return rr.GetFloat64(), err
			}
		default:
			fg, err := distcat.Generate(familyByName("matrix:vector id"), r, t)
			if err != nil {
				return err
			}
			name = "matrixClassifier.LikelihoodClassifier"
			c, err := mcl.NewLikelihoodClassifier(fg.Dist.(st.MatrixPdf), nil)
			if err != nil {
				return err
			}
			x := fg.Probes[0].(ad.ConstMatrix)
			ops = []*operand{{Name: "x", Obj: x}}
			call = func() error { return c.Eval(res, x) }
			cloneFn = func() any { return c.CloneMatrixBatchClassifier() }
			evalClone = func(k any) (float64, error) {
				rr := ad.NewFloat64(0)
				err := k.(st.MatrixBatchClassifier).Eval(rr, x)
				return rr.GetFloat64(), err
			}
		}
		return nil
	}
	var berr error
	if p := fw.Call(func() { berr = build() }); p != nil || berr != nil {
		cs.Skip("classifier-not-constructible")
		return
	}
	for _, o := range ops {
		o.snap()
	}
	var cl any
	var v0 float64
	fw.Call(func() { cl = cloneFn(); v0, _ = evalClone(cl) })
	p := fw.Call(func() { call(); call() })
	cs.Cover(monitor + ":" + name)
	if p != nil {
		cs.Cover(monitor + ":call-panics:" + name)
	}
	cs.Nontrivial(name, ops[0].S0.Str)
	cs.Sample(map[string]any{"routine": name + ".Eval", "x": ops[0].S0.Str})
	for _, o := range ops {
		if d := o.changed(); d != "" {
			cs.Violation(sig(monitor, name+".Eval", "default", "arg="+argClass(o.Name), "modified"), fmt.Sprintf("%s changed during Eval: %s", o.Name, d), map[string]any{"routine": name})
			return
		}
	}
	if cl != nil && p == nil {
		// clone evaluates like the source and is not affected by evaluating the source
		v1, _ := evalClone(cl)
		if !bitsEq(v0, v1) && !(math.IsNaN(v0) && math.IsNaN(v1)) {
			cs.Violation(sig("copy.classifier", name+".Clone", "default", "evaluate-source", "shared-state"), fmt.Sprintf("the clone evaluates to %v before and %v after evaluating the source", v0, v1), map[string]any{"routine": name})
		} else if !bitsEq(v1, res.GetFloat64()) && !(math.IsNaN(v1) && math.IsNaN(res.GetFloat64())) {
			cs.Violation(sig("copy.classifier", name+".Clone", "default", "none", "not-equal"), fmt.Sprintf("the clone evaluates to %v, the source to %v", v1, res.GetFloat64()), map[string]any{"routine": name})
		}
		cs.Cover("copy.classifier:" + name)
	}
}
