package c12

import "verifharness/internal/fw"

// Run executes the C12 monitors.
func Run(c *fw.Ctx) {
	c.Cases("copy.scalar", c.N(3600, 36000), scalarCopyCase)
	c.Cases("copy.vector", c.N(10800, 108000), func(cs *fw.Case) { containerCopyCase(cs, false) })
	c.Cases("copy.matrix", c.N(25200, 252000), func(cs *fw.Case) { containerCopyCase(cs, true) })
	c.Cases("copy.iterator", c.N(9360, 93600), iteratorCloneCase)
	c.Cases("copy.avl", c.N(1200, 12000), avlCopyCase)
	c.Cases("copy.gradient", c.N(160, 1600), gradientCopyCase)
	c.Cases("input.op", c.N(15480, 154800), opsInputCase)
	c.Cases("input.algorithm", c.N(14848, 148480), algInputCase)
	c.Cases("dist", c.N(8064, 80640), distCase)
	c.Cases("input.estimator", c.N(2080, 20800), estimatorCase)
	c.Cases("input.classifier", c.N(1200, 12000), classifierCase)
}
