package c12

import "verifharness/internal/fw"

// Run executes the C12 monitors.
func Run(c *fw.Ctx) {
	c.Cases("copy.scalar", c.N(7200, 216000), scalarCopyCase)
	c.Cases("copy.vector", c.N(21600, 648000), func(cs *fw.Case) { containerCopyCase(cs, false) })
	c.Cases("copy.matrix", c.N(50400, 1512000), func(cs *fw.Case) { containerCopyCase(cs, true) })
	c.Cases("copy.iterator", c.N(18720, 561600), iteratorCloneCase)
	c.Cases("copy.avl", c.N(2400, 72000), avlCopyCase)
	c.Cases("copy.gradient", c.N(320, 9600), gradientCopyCase)
	c.Cases("copy.sparse-const", c.N(2240, 67200), sparseConstCopyCase)
	c.Cases("input.op", c.N(30960, 928800), opsInputCase)
	c.Cases("input.op-concrete", c.N(27000, 810000), concreteOpsCase)
	c.Cases("input.algorithm", c.N(30720, 921600), algInputCase)
	c.Cases("input.algorithm-reuse", c.N(14336, 430080), algReuseCase)
	c.Cases("dist", c.N(16128, 483840), distCase)
	c.Cases("input.estimator", c.N(4160, 124800), estimatorCase)
	c.Cases("input.classifier", c.N(2400, 72000), classifierCase)
}
