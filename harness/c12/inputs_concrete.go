package c12

import (
	"fmt"
	"reflect"
	"sort"
	"strings"

	ad "github.com/pbenner/autodiff"

	"verifharness/internal/fw"
	"verifharness/internal/gen"
	"verifharness/internal/prng"
)

/* the concrete (upper-case) method family: SET, APPEND, VADDV, MDOTM, ADD, ...
 * with typed operands, found by reflection on every scalar, vector and matrix
 * type; same judgement as input.op
 * -------------------------------------------------------------------------- */

type concreteType struct {
	Name    string
	T       gen.ElemType
	Storage string
	Kind    string // scalar vector matrix
	RT      reflect.Type
	Methods []string
}

// methods that are reference views, element handles or iterators by design
var concreteExcluded = map[string]bool{"AT": true, "AT_": true, "SLICE": true, "T": true, "GET": true}

func isConcreteName(n string) bool {
	if concreteExcluded[n] || strings.Contains(n, "ITERATOR") {
		return false
	}
	for _, c := range n {
		if !(c >= 'A' && c <= 'Z' || c >= '0' && c <= '9' || c == '_') {
			return false
		}
	}
	return true
}

var concreteTypes = func() []concreteType {
	var res []concreteType
	byType := map[reflect.Type]bool{}
	add := func(x any, t gen.ElemType, storage, kind string) {
		rt := reflect.TypeOf(x)
		if byType[rt] {
			return
		}
		byType[rt] = true
		res = append(res, concreteType{Name: typeName(x), T: t, Storage: storage, Kind: kind, RT: rt})
	}
	for _, t := range gen.Types {
		add(ad.NewScalar(t.T, 0), t, "", "scalar")
		for _, st := range storages {
			add(gen.NullVector(t, st, 1), t, st, "vector")
			add(gen.NullMatrix(t, st, 1, 1), t, st, "matrix")
		}
	}
	known := func(pt reflect.Type) bool {
		if byType[pt] {
			return true
		}
		switch pt.Kind() {
		case reflect.Int, reflect.Float64, reflect.Bool:
			return true
		}
		return false
	}
	for i := range res {
		rt := res[i].RT
		for k := 0; k < rt.NumMethod(); k++ {
			m := rt.Method(k)
			if !isConcreteName(m.Name) {
				continue
			}
			ok := true
			for a := 1; a < m.Type.NumIn(); a++ {
				if !known(m.Type.In(a)) {
					ok = false
				}
			}
			if ok {
				res[i].Methods = append(res[i].Methods, m.Name)
			}
		}
		sort.Strings(res[i].Methods)
	}
	return res
}()

func concreteByType(rt reflect.Type) *concreteType {
	for i := range concreteTypes {
		if concreteTypes[i].RT == rt {
			return &concreteTypes[i]
		}
	}
	return nil
}

// makeConcrete builds an object of the given registered type: scalars with a
// non-zero value, vectors of dimension n, matrices n x n.
func makeConcrete(ct *concreteType, n int, r *prng.Rand, pz float64) any {
	switch ct.Kind {
	case "scalar":
		s := ad.NewScalar(ct.T.T, 0)
		gen.SetScalar(s, gen.RandJet(ct.T, r, ct.T.Divisor(r), r.Range(0, 2), r.Range(0, 2)))
		return s
	case "vector":
		v := gen.NullVector(ct.T, ct.Storage, n)
		fillV(v, ct.T, r, pz, true)
		return v
	}
	m := gen.NullMatrix(ct.T, ct.Storage, n, n)
	fillM(m, ct.T, r, pz, true)
	return m
}

func concreteOpsCase(cs *fw.Case) {
	const monitor = "input.op-concrete"
	r := cs.R
	ct := &concreteTypes[cs.Index%len(concreteTypes)]
	if len(ct.Methods) == 0 {
		cs.Skip("no-concrete-methods")
		return
	}
	name := ct.Methods[(cs.Index/len(concreteTypes))%len(ct.Methods)]
	n := r.Range(1, 4)
	var recv any
	var ops []*operand
	var in []reflect.Value
	var m reflect.Value
	scratch := map[int]bool{}
	if name == "LOGADD" || name == "LOGSUB" {
		scratch[2] = true // third argument is documented scratch space
	}
	if p := fw.Call(func() {
		recv = makeConcrete(ct, n, r, 0.5)
		m = reflect.ValueOf(recv).MethodByName(name)
		mt := m.Type()
		pz := 0.3
		if strings.Contains(name, "DIV") {
			pz = 0
		}
		for k := 0; k < mt.NumIn(); k++ {
			pt := mt.In(k)
			switch pt.Kind() {
			case reflect.Int:
				in = append(in, reflect.ValueOf(r.Intn(n)))
				continue
			case reflect.Float64:
				in = append(in, reflect.ValueOf(1e-8))
				continue
			case reflect.Bool:
				in = append(in, reflect.ValueOf(r.Bool()))
				continue
			}
			oct := concreteByType(pt)
			x := makeConcrete(oct, n, r, pz)
			in = append(in, reflect.ValueOf(x))
			if !scratch[k] {
				ops = append(ops, &operand{Name: string(rune('a' + k)), Obj: x})
			}
		}
	}); p != nil {
		cs.Skip("operand-construction-panics")
		return
	}
	var outs []reflect.Value
	call := func() { outs = m.Call(in) }
	result := func() any {
		for _, o := range outs {
			if !o.IsValid() || (o.Kind() == reflect.Ptr || o.Kind() == reflect.Interface) && o.IsNil() {
				continue
			}
			switch x := o.Interface().(type) {
			case ad.Matrix:
				return x
			case ad.Vector:
				return x
			case ad.Scalar:
				return x
			}
		}
		return recv
	}
	routine := ct.Name + "." + name
	judgeOp(cs, monitor, routine, routine, ct.T, call, ops, result)
	_ = fmt.Sprint
}
