// Package c12: copies are independent and read-only inputs are left unchanged
// (DESIGN.md, C12).
package c12

import (
	"fmt"
	"math"
	"reflect"
	"strings"

	ad "github.com/pbenner/autodiff"

	"verifharness/internal/fw"
	"verifharness/internal/gen"
	"verifharness/internal/prng"
	"verifharness/internal/snap"
)

const prop = "C12"

func sig(monitor string, parts ...string) string {
	return prop + "|" + monitor + "|" + strings.Join(parts, "|")
}

func typeName(x any) string {
	t := reflect.TypeOf(x)
	if t == nil {
		return "nil"
	}
	for t.Kind() == reflect.Ptr {
		t = t.Elem()
	}
	return t.Name()
}

func safeString(x any) (s string) {
	if p := fw.Call(func() { s = fmt.Sprint(x) }); p != nil {
		return "<String() panics: " + p.Msg + ">"
	}
	if len(s) > 500 {
		s = s[:500] + "…"
	}
	return s
}

/* observable state
 * -------------------------------------------------------------------------- */

// shot is the observable state of one object: every element with its
// derivative slots and metadata, dimensions, printed form and (vectors,
// matrices) the sequence the const iterator visits.
type shot struct {
	Kind string // scalar vector matrix floats ints nil
	R, C int
	E    []snap.Elem
	Str  string
	Seq  string
	Err  string // reading the object panicked
}

func elemOf(s ad.ConstScalar) snap.Elem { return snap.Scalar(s) }

func take(obj any) (s shot) {
	if p := fw.Call(func() { s = take_(obj) }); p != nil {
		return shot{Kind: "unreadable", Err: p.Msg + " @ " + p.Frame}
	}
	return s
}

func take_(obj any) shot {
	switch x := obj.(type) {
	case nil:
		return shot{Kind: "nil"}
	case []float64:
		s := shot{Kind: "floats", R: len(x), E: make([]snap.Elem, len(x))}
		for i, v := range x {
			s.E[i] = snap.Elem{F: v}
		}
		return s
	case []int:
		s := shot{Kind: "ints", R: len(x), E: make([]snap.Elem, len(x))}
		for i, v := range x {
			s.E[i] = snap.Elem{I: int64(v), F: float64(v)}
		}
		return s
	case []string:
		return shot{Kind: "strings", R: len(x), Str: strings.Join(x, " | ")}
	case []bool:
		s := shot{Kind: "bools", R: len(x), E: make([]snap.Elem, len(x))}
		for i, v := range x {
			if v {
				s.E[i] = snap.Elem{I: 1, F: 1}
			}
		}
		return s
	case ad.ConstMatrix:
		if reflect.ValueOf(x).Kind() == reflect.Ptr && reflect.ValueOf(x).IsNil() {
			return shot{Kind: "nil"}
		}
		// the iterator walk comes first: sparse iterators drop stored entries that
		// have become zero, which would otherwise make two consecutive shots of an
		// untouched object differ (-0 / derivative metadata of a stored zero)
		seq := ""
		if p := fw.Call(func() {
			rows, cols := x.Dims()
			var b strings.Builder
			steps := 0
			for it := x.ConstIterator(); it.Ok() && steps <= rows*cols+4; it.Next() {
				i, j := it.Index()
				fmt.Fprintf(&b, "%d,%d:%v;", i, j, it.GetConst().GetFloat64())
				steps++
			}
			seq = b.String()
		}); p != nil {
			seq = "<iteration panics>"
		}
		m := snap.Matrix(x)
		s := shot{Kind: "matrix", R: m.R, C: m.C, E: m.E, Seq: seq}
		// printing and iterating a view may panic (C10 decides those): the
		// element-wise state is still observed
		if p := fw.Call(func() { s.Str = x.String() }); p != nil {
			s.Str = "<String() panics>"
		}
		return s
	case ad.ConstVector:
		if rv := reflect.ValueOf(x); rv.Kind() == reflect.Ptr && rv.IsNil() {
			return shot{Kind: "nil"}
		}
		seq := ""
		if p := fw.Call(func() {
			n := x.Dim()
			var b strings.Builder
			steps := 0
			for it := x.ConstIterator(); it.Ok() && steps <= n+4; it.Next() {
				fmt.Fprintf(&b, "%d:%v;", it.Index(), it.GetConst().GetFloat64())
				steps++
			}
			seq = b.String()
		}); p != nil {
			seq = "<iteration panics>"
		}
		v := snap.Vector(x)
		s := shot{Kind: "vector", R: v.Dim, E: v.E, Seq: seq}
		if p := fw.Call(func() { s.Str = x.String() }); p != nil {
			s.Str = "<String() panics>"
		}
		return s
	case ad.ConstScalar:
		if rv := reflect.ValueOf(x); rv.Kind() == reflect.Ptr && rv.IsNil() {
			return shot{Kind: "nil"}
		}
		return shot{Kind: "scalar", E: []snap.Elem{elemOf(x)}, Str: x.String()}
	}
	panic(fmt.Sprintf("take: unsupported %T", obj))
}

func bitsEq(a, b float64) bool { return math.Float64bits(a) == math.Float64bits(b) }

// elemIdentical: nothing observable about the element changed (bit patterns,
// metadata and every slot).
func elemIdentical(a, b snap.Elem) string {
	if !bitsEq(a.F, b.F) || a.I != b.I {
		return fmt.Sprintf("value %v -> %v", a.F, b.F)
	}
	if a.N != b.N || a.Order != b.Order {
		return fmt.Sprintf("N/order %d/%d -> %d/%d", a.N, a.Order, b.N, b.Order)
	}
	for i := range a.D {
		if i < len(b.D) && !bitsEq(a.D[i], b.D[i]) {
			return fmt.Sprintf("deriv[%d] %v -> %v", i, a.D[i], b.D[i])
		}
	}
	for i := range a.H {
		if i < len(b.H) && !bitsEq(a.H[i], b.H[i]) {
			return fmt.Sprintf("hess[%d] %v -> %v", i, a.H[i], b.H[i])
		}
	}
	return ""
}

// unchanged compares two shots of the same object taken at different times.
func unchanged(a, b shot) string {
	if a.Err != "" || b.Err != "" {
		if a.Err != b.Err {
			return fmt.Sprintf("readability changed: %q -> %q", a.Err, b.Err)
		}
		return ""
	}
	if a.Kind != b.Kind {
		return "kind " + a.Kind + " -> " + b.Kind
	}
	if a.R != b.R || a.C != b.C {
		return fmt.Sprintf("dims %dx%d -> %dx%d", a.R, a.C, b.R, b.C)
	}
	for i := range a.E {
		if d := elemIdentical(a.E[i], b.E[i]); d != "" {
			if a.Kind == "matrix" && a.C > 0 {
				return fmt.Sprintf("[%d,%d] %s", i/a.C, i%a.C, d)
			}
			return fmt.Sprintf("[%d] %s", i, d)
		}
	}
	if a.Seq != b.Seq {
		return "iteration sequence " + clip(a.Seq, 120) + " -> " + clip(b.Seq, 120)
	}
	if a.Str != b.Str {
		return "String() " + clip(a.Str, 120) + " -> " + clip(b.Str, 120)
	}
	return ""
}

func clip(s string, n int) string {
	if len(s) > n {
		return s[:n] + "…"
	}
	return s
}

// equalCopy compares a copy with its source: elements (values and derivative
// slots, missing slots read as zero), dimensions; strict=true additionally
// wants the same iteration sequence and printed form (same-type clones).
func equalCopy(src, cp shot, isInt, derivs, strict bool) string {
	if src.Err != "" {
		return ""
	}
	if cp.Err != "" {
		return "reading the copy panics: " + cp.Err
	}
	if src.R != cp.R || src.C != cp.C {
		return fmt.Sprintf("dims %dx%d vs %dx%d", src.R, src.C, cp.R, cp.C)
	}
	for i := range src.E {
		a, b := src.E[i], cp.E[i]
		var d string
		if derivs {
			d = snap.Diff(a, b, isInt)
		} else if isInt {
			if a.I != b.I {
				d = fmt.Sprintf("value %d vs %d", a.I, b.I)
			}
		} else if !(a.F == b.F || (math.IsNaN(a.F) && math.IsNaN(b.F))) {
			d = fmt.Sprintf("value %v vs %v", a.F, b.F)
		}
		if d != "" {
			if src.Kind == "matrix" && src.C > 0 {
				return fmt.Sprintf("[%d,%d] %s", i/src.C, i%src.C, d)
			}
			return fmt.Sprintf("[%d] %s", i, d)
		}
	}
	if strict && src.Seq != cp.Seq {
		return "iteration sequence " + clip(src.Seq, 120) + " vs " + clip(cp.Seq, 120)
	}
	return ""
}

/* generated operands (dyadic grid so that in-place arithmetic stays exact)
 * -------------------------------------------------------------------------- */

// intVals: draw integer values only (exact in every element type), used when a
// copy converts the element type.
var intVals = false

func nonZero(t gen.ElemType, r *prng.Rand) float64 {
	if intVals {
		return gen.Types[0].NonZero(r)
	}
	return t.NonZero(r)
}

func fillV(v ad.Vector, t gen.ElemType, r *prng.Rand, pz float64, derivs bool) {
	for i := 0; i < v.Dim(); i++ {
		if r.Chance(pz) {
			continue
		}
		j := gen.RandJet(t, r, nonZero(t, r), pick(derivs, r.Range(1, 3), 0), pick(derivs, r.Range(1, 2), 0))
		gen.SetScalar(v.At(i), j)
	}
}

func fillM(m ad.Matrix, t gen.ElemType, r *prng.Rand, pz float64, derivs bool) {
	rows, cols := m.Dims()
	for i := 0; i < rows; i++ {
		for k := 0; k < cols; k++ {
			if r.Chance(pz) {
				continue
			}
			j := gen.RandJet(t, r, nonZero(t, r), pick(derivs, r.Range(1, 3), 0), pick(derivs, r.Range(1, 2), 0))
			gen.SetScalar(m.At(i, k), j)
		}
	}
}

func pick(c bool, a, b int) int {
	if c {
		return a
	}
	return b
}

var storages = []string{gen.Dense, gen.Sparse}

func pzOf(storage string) float64 {
	if storage == gen.Sparse {
		return 0.55
	}
	return 0.25
}

func subrange(n int, r *prng.Rand) (int, int) {
	if n <= 1 {
		return 0, n
	}
	for {
		i := r.Intn(n)
		j := r.Range(i+1, n)
		if j-i < n {
			return i, j
		}
	}
}

var vectorViews = []string{"full", "slice", "slice.slice"}
var matrixViews = []string{"full", "slice", "T", "slice.T", "T.slice", "slice.slice", "T.T"}

func viewCat(view string) string {
	s, t := strings.Contains(view, "slice"), strings.Count(view, "T")%2 == 1
	switch {
	case s && t:
		return "sliced+transposed"
	case s:
		return "sliced"
	case t:
		return "transposed"
	}
	return "compact"
}

// buildVector returns the vector under test and its parent (the object whose
// storage it may share).
func buildVector(t gen.ElemType, storage, view string, r *prng.Rand) (v, parent ad.Vector, p *fw.Panic) {
	p = fw.Call(func() {
		n := r.Range(1, 8)
		if view != "full" {
			n = r.Range(3, 10)
		}
		parent = gen.NullVector(t, storage, n)
		fillV(parent, t, r, pzOf(storage), true)
		v = parent
		for k := strings.Count(view, "slice"); k > 0; k-- {
			i, j := subrange(v.Dim(), r)
			v = v.Slice(i, j)
		}
	})
	return
}

func buildMatrix(t gen.ElemType, storage, view string, r *prng.Rand) (m, parent ad.Matrix, p *fw.Panic) {
	p = fw.Call(func() {
		rows, cols := r.Range(1, 5), r.Range(1, 5)
		if strings.Contains(view, "slice") {
			rows, cols = r.Range(2, 6), r.Range(2, 6)
		}
		parent = gen.NullMatrix(t, storage, rows, cols)
		fillM(parent, t, r, pzOf(storage), true)
		m = parent
		for _, step := range strings.Split(view, ".") {
			switch step {
			case "slice":
				r0, c0 := m.Dims()
				i0, i1 := subrange(r0, r)
				j0, j1 := subrange(c0, r)
				m = m.Slice(i0, i1, j0, j1)
			case "T":
				m = m.T()
			}
		}
	})
	return
}
