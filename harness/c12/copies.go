package c12

import (
	"fmt"
	"reflect"
	"strings"

	ad "github.com/pbenner/autodiff"

	"verifharness/internal/fw"
	"verifharness/internal/gen"
	"verifharness/internal/prng"
)

/* mutation operators
 * -------------------------------------------------------------------------- */

type vecMut struct {
	Name string
	F    func(v ad.Vector, t gen.ElemType, r *prng.Rand)
}

func otherVector(v ad.Vector, t gen.ElemType, r *prng.Rand) ad.Vector {
	o := gen.NullVector(t, storages[r.Intn(2)], v.Dim())
	fillV(o, t, r, 0.3, true)
	return o
}

func magicAt(s ad.Scalar) (ad.MagicScalar, bool) {
	m, ok := s.(ad.MagicScalar)
	return m, ok
}

var vecMuts = []vecMut{
	{"At.SetFloat64", func(v ad.Vector, t gen.ElemType, r *prng.Rand) { v.At(r.Intn(v.Dim())).SetFloat64(t.NonZero(r) + 100) }},
	{"At.Reset", func(v ad.Vector, t gen.ElemType, r *prng.Rand) { v.At(r.Intn(v.Dim())).Reset() }},
	{"At.Add-in-place", func(v ad.Vector, t gen.ElemType, r *prng.Rand) {
		for i := 0; i < v.Dim(); i++ {
			s := v.At(i)
			s.Add(s, ad.NewScalar(t.T, 1))
		}
	}},
	{"At.SetDerivative-in-place", func(v ad.Vector, t gen.ElemType, r *prng.Rand) {
		for i := 0; i < v.Dim(); i++ {
			if m, ok := magicAt(v.At(i)); ok {
				if m.GetN() == 0 || m.GetOrder() == 0 {
					m.Alloc(2, 2)
				}
				for k := 0; k < m.GetN(); k++ {
					m.SetDerivative(k, m.GetDerivative(k)+7)
					if m.GetOrder() >= 2 {
						m.SetHessian(k, 0, m.GetHessian(k, 0)+9)
					}
				}
			} else {
				v.At(i).SetFloat64(t.NonZero(r) + 50)
			}
		}
	}},
	{"ResetDerivatives/Variables", func(v ad.Vector, t gen.ElemType, r *prng.Rand) {
		if m, ok := v.(ad.MagicVector); ok {
			if r.Bool() {
				m.ResetDerivatives()
			} else {
				m.Variables(r.Range(1, 2))
			}
		} else {
			v.At(0).SetFloat64(33)
		}
	}},
	{"VaddV(self,other)", func(v ad.Vector, t gen.ElemType, r *prng.Rand) { v.VaddV(v, otherVector(v, t, r)) }},
	{"VmulS(self,2)", func(v ad.Vector, t gen.ElemType, r *prng.Rand) { v.VmulS(v, ad.NewScalar(t.T, 2)) }},
	{"Set(other)", func(v ad.Vector, t gen.ElemType, r *prng.Rand) { v.Set(otherVector(v, t, r)) }},
	{"Map(+1)", func(v ad.Vector, t gen.ElemType, r *prng.Rand) {
		one := ad.NewScalar(t.T, 1)
		v.Map(func(x ad.Scalar) { x.Add(x, one) })
	}},
	{"ReverseOrder", func(v ad.Vector, t gen.ElemType, r *prng.Rand) { v.ReverseOrder(); v.At(0).SetFloat64(41) }},
	{"Sort", func(v ad.Vector, t gen.ElemType, r *prng.Rand) { v.Sort(r.Bool()); v.At(0).SetFloat64(43) }},
	{"Permute", func(v ad.Vector, t gen.ElemType, r *prng.Rand) { v.Permute(r.Perm(v.Dim())); v.At(0).SetFloat64(47) }},
	{"Swap", func(v ad.Vector, t gen.ElemType, r *prng.Rand) {
		if reflect.ValueOf(v).Kind() == reflect.Ptr {
			// sparse Swap with an absent entry is C11's subject: swap present entries only
			v.At(0).SetFloat64(5)
			if v.Dim() > 1 {
				v.At(v.Dim() - 1).SetFloat64(6)
				v.Swap(0, v.Dim()-1)
			}
			return
		}
		v.Swap(r.Intn(v.Dim()), r.Intn(v.Dim()))
		v.At(0).SetFloat64(53)
	}},
	{"Reset", func(v ad.Vector, t gen.ElemType, r *prng.Rand) { v.Reset() }},
}

type matMut struct {
	Name string
	F    func(m ad.Matrix, t gen.ElemType, r *prng.Rand)
}

func otherMatrix(m ad.Matrix, t gen.ElemType, r *prng.Rand) ad.Matrix {
	rows, cols := m.Dims()
	o := gen.NullMatrix(t, storages[r.Intn(2)], rows, cols)
	fillM(o, t, r, 0.3, true)
	return o
}

var matMuts = []matMut{
	{"At.SetFloat64", func(m ad.Matrix, t gen.ElemType, r *prng.Rand) {
		rows, cols := m.Dims()
		m.At(r.Intn(rows), r.Intn(cols)).SetFloat64(t.NonZero(r) + 100)
	}},
	{"At.Reset", func(m ad.Matrix, t gen.ElemType, r *prng.Rand) {
		rows, cols := m.Dims()
		for i := 0; i < rows; i++ {
			m.At(i, r.Intn(cols)).Reset()
		}
	}},
	{"At.Add-in-place", func(m ad.Matrix, t gen.ElemType, r *prng.Rand) {
		rows, cols := m.Dims()
		one := ad.NewScalar(t.T, 1)
		for i := 0; i < rows; i++ {
			for j := 0; j < cols; j++ {
				s := m.At(i, j)
				s.Add(s, one)
			}
		}
	}},
	{"At.SetDerivative-in-place", func(m ad.Matrix, t gen.ElemType, r *prng.Rand) {
		rows, cols := m.Dims()
		for i := 0; i < rows; i++ {
			for j := 0; j < cols; j++ {
				if x, ok := magicAt(m.At(i, j)); ok {
					if x.GetN() == 0 || x.GetOrder() == 0 {
						x.Alloc(2, 2)
					}
					for k := 0; k < x.GetN(); k++ {
						x.SetDerivative(k, x.GetDerivative(k)+7)
						if x.GetOrder() >= 2 {
							x.SetHessian(k, 0, x.GetHessian(k, 0)+9)
						}
					}
				} else {
					m.At(i, j).SetFloat64(t.NonZero(r) + 50)
				}
			}
		}
	}},
	{"MaddM(self,other)", func(m ad.Matrix, t gen.ElemType, r *prng.Rand) { m.MaddM(m, otherMatrix(m, t, r)) }},
	{"MmulS(self,2)", func(m ad.Matrix, t gen.ElemType, r *prng.Rand) { m.MmulS(m, ad.NewScalar(t.T, 2)) }},
	{"Set(other)", func(m ad.Matrix, t gen.ElemType, r *prng.Rand) { m.Set(otherMatrix(m, t, r)) }},
	{"SetIdentity", func(m ad.Matrix, t gen.ElemType, r *prng.Rand) { m.SetIdentity(); m.At(0, 0).SetFloat64(7) }},
	{"Map(+1)", func(m ad.Matrix, t gen.ElemType, r *prng.Rand) {
		one := ad.NewScalar(t.T, 1)
		m.Map(func(x ad.Scalar) { x.Add(x, one) })
	}},
	{"SwapRows/SwapColumns", func(m ad.Matrix, t gen.ElemType, r *prng.Rand) {
		rows, cols := m.Dims()
		m.At(0, 0).SetFloat64(61)
		if rows > 1 {
			m.SwapRows(0, rows-1)
		}
		if cols > 1 {
			m.SwapColumns(0, cols-1)
		}
	}},
	{"PermuteRows", func(m ad.Matrix, t gen.ElemType, r *prng.Rand) {
		rows, _ := m.Dims()
		m.At(0, 0).SetFloat64(67)
		m.PermuteRows(r.Perm(rows))
	}},
	{"through-Slice().At.Set", func(m ad.Matrix, t gen.ElemType, r *prng.Rand) {
		rows, cols := m.Dims()
		i, j := r.Intn(rows), r.Intn(cols)
		m.Slice(i, rows, j, cols).At(0, 0).SetFloat64(71)
	}},
	{"through-T().At.Set", func(m ad.Matrix, t gen.ElemType, r *prng.Rand) {
		rows, cols := m.Dims()
		i, j := r.Intn(rows), r.Intn(cols)
		m.T().At(j, i).SetFloat64(73)
		m.At(i, j).SetFloat64(74)
	}},
	{"through-AsVector().At.Set", func(m ad.Matrix, t gen.ElemType, r *prng.Rand) {
		v := m.AsVector()
		for i := 0; i < v.Dim(); i++ {
			v.At(i).SetFloat64(79)
		}
	}},
	{"Reset", func(m ad.Matrix, t gen.ElemType, r *prng.Rand) { m.Reset() }},
}

// mutClass groups the mutation operators for signatures (the operator itself
// is in the witness).
func mutClass(name string) string {
	switch name {
	case "At.SetFloat64", "At.Reset", "At.Add-in-place":
		return "element-write"
	case "At.SetDerivative-in-place", "ResetDerivatives/Variables":
		return "derivative-write"
	case "ReverseOrder", "Sort", "Permute", "Swap", "SwapRows/SwapColumns", "PermuteRows":
		return "reorder"
	case "through-Slice().At.Set", "through-T().At.Set", "through-AsVector().At.Set":
		return "write-through-view"
	}
	return "bulk-write"
}

/* copy methods
 * -------------------------------------------------------------------------- */

func callClone(x any) (res any, ok bool) {
	m := reflect.ValueOf(x).MethodByName("Clone")
	if !m.IsValid() || m.Type().NumIn() != 0 || m.Type().NumOut() != 1 {
		return nil, false
	}
	return m.Call(nil)[0].Interface(), true
}

type copyMethod struct {
	Name string
	// F returns the copy, the element type of the copy and whether derivative
	// slots are expected to be carried
	F func(x any, t gen.ElemType, r *prng.Rand) (any, gen.ElemType, bool)
}

func otherType(t gen.ElemType, r *prng.Rand) gen.ElemType {
	for {
		o := gen.Types[r.Intn(len(gen.Types))]
		if o.Name != t.Name {
			return o
		}
	}
}

var vecCopies = []copyMethod{
	{"CloneVector", func(x any, t gen.ElemType, r *prng.Rand) (any, gen.ElemType, bool) {
		return x.(ad.Vector).CloneVector(), t, true
	}},
	{"CloneConstVector", func(x any, t gen.ElemType, r *prng.Rand) (any, gen.ElemType, bool) {
		return x.(ad.Vector).CloneConstVector(), t, true
	}},
	{"Clone", func(x any, t gen.ElemType, r *prng.Rand) (any, gen.ElemType, bool) {
		c, _ := callClone(x)
		return c, t, true
	}},
	{"CloneMagicVector", func(x any, t gen.ElemType, r *prng.Rand) (any, gen.ElemType, bool) {
		if m, ok := x.(ad.MagicVector); ok {
			return m.CloneMagicVector(), t, true
		}
		return x.(ad.Vector).CloneVector(), t, true
	}},
	{"AsDenseVector(same-type)", func(x any, t gen.ElemType, r *prng.Rand) (any, gen.ElemType, bool) {
		return ad.AsDenseVector(t.T, x.(ad.Vector)), t, true
	}},
	{"AsSparseVector(same-type)", func(x any, t gen.ElemType, r *prng.Rand) (any, gen.ElemType, bool) {
		return ad.AsSparseVector(t.T, x.(ad.Vector)), t, true
	}},
	{"AsDenseVector(other-type)", func(x any, t gen.ElemType, r *prng.Rand) (any, gen.ElemType, bool) {
		o := otherType(t, r)
		return ad.AsDenseVector(o.T, x.(ad.Vector)), o, false
	}},
	{"AsSparseVector(other-type)", func(x any, t gen.ElemType, r *prng.Rand) (any, gen.ElemType, bool) {
		o := otherType(t, r)
		return ad.AsSparseVector(o.T, x.(ad.Vector)), o, false
	}},
	{"AsDenseMagicVector", func(x any, t gen.ElemType, r *prng.Rand) (any, gen.ElemType, bool) {
		o := gen.Types[7+r.Intn(2)]
		return ad.AsDenseMagicVector(o.T, x.(ad.Vector)), o, o.Name == t.Name
	}},
	{"AsSparseMagicVector", func(x any, t gen.ElemType, r *prng.Rand) (any, gen.ElemType, bool) {
		o := gen.Types[7+r.Intn(2)]
		return ad.AsSparseMagicVector(o.T, x.(ad.Vector)), o, o.Name == t.Name
	}},
}

var matCopies = []copyMethod{
	{"CloneMatrix", func(x any, t gen.ElemType, r *prng.Rand) (any, gen.ElemType, bool) {
		return x.(ad.Matrix).CloneMatrix(), t, true
	}},
	{"CloneConstMatrix", func(x any, t gen.ElemType, r *prng.Rand) (any, gen.ElemType, bool) {
		return x.(ad.Matrix).CloneConstMatrix(), t, true
	}},
	{"Clone", func(x any, t gen.ElemType, r *prng.Rand) (any, gen.ElemType, bool) {
		c, _ := callClone(x)
		return c, t, true
	}},
	{"CloneMagicMatrix", func(x any, t gen.ElemType, r *prng.Rand) (any, gen.ElemType, bool) {
		if m, ok := x.(ad.MagicMatrix); ok {
			return m.CloneMagicMatrix(), t, true
		}
		return x.(ad.Matrix).CloneMatrix(), t, true
	}},
	{"AsDenseMatrix(same-type)", func(x any, t gen.ElemType, r *prng.Rand) (any, gen.ElemType, bool) {
		return ad.AsDenseMatrix(t.T, x.(ad.Matrix)), t, true
	}},
	{"AsSparseMatrix(same-type)", func(x any, t gen.ElemType, r *prng.Rand) (any, gen.ElemType, bool) {
		return ad.AsSparseMatrix(t.T, x.(ad.Matrix)), t, true
	}},
	{"AsDenseMatrix(other-type)", func(x any, t gen.ElemType, r *prng.Rand) (any, gen.ElemType, bool) {
		o := otherType(t, r)
		return ad.AsDenseMatrix(o.T, x.(ad.Matrix)), o, false
	}},
	{"AsSparseMatrix(other-type)", func(x any, t gen.ElemType, r *prng.Rand) (any, gen.ElemType, bool) {
		o := otherType(t, r)
		return ad.AsSparseMatrix(o.T, x.(ad.Matrix)), o, false
	}},
	{"AsDenseMagicMatrix", func(x any, t gen.ElemType, r *prng.Rand) (any, gen.ElemType, bool) {
		o := gen.Types[7+r.Intn(2)]
		return ad.AsDenseMagicMatrix(o.T, x.(ad.Matrix)), o, o.Name == t.Name
	}},
	{"AsSparseMagicMatrix", func(x any, t gen.ElemType, r *prng.Rand) (any, gen.ElemType, bool) {
		o := gen.Types[7+r.Intn(2)]
		return ad.AsSparseMagicMatrix(o.T, x.(ad.Matrix)), o, o.Name == t.Name
	}},
}

/* the copy monitor for containers
 * -------------------------------------------------------------------------- */

// watch is an object together with the state it had before the mutations.
type watch struct {
	Name string
	Obj  any
	S0   shot
}

func containerCopyCase(cs *fw.Case, matrix bool) {
	monitor := "copy.vector"
	if matrix {
		monitor = "copy.matrix"
	}
	r := cs.R
	i := cs.Index
	t := gen.Types[i%9]
	storage := storages[(i/9)%2]
	var view string
	var cm copyMethod
	var src, parent any
	var p *fw.Panic
	intVals = false
	defer func() { intVals = false }()
	if matrix {
		view = matrixViews[(i/18)%len(matrixViews)]
		cm = matCopies[(i/(18*len(matrixViews)))%len(matCopies)]
		intVals = strings.Contains(cm.Name, "other-type") || strings.Contains(cm.Name, "Magic")
		src, parent, p = func() (any, any, *fw.Panic) { a, b, c := buildMatrix(t, storage, view, r); return a, b, c }()
	} else {
		view = vectorViews[(i/18)%len(vectorViews)]
		cm = vecCopies[(i/(18*len(vectorViews)))%len(vecCopies)]
		intVals = strings.Contains(cm.Name, "other-type") || strings.Contains(cm.Name, "Magic")
		src, parent, p = func() (any, any, *fw.Panic) { a, b, c := buildVector(t, storage, view, r); return a, b, c }()
	}
	mutateCopy := (i/(18*21*10))%2 == 1 || r.Bool()
	if p != nil {
		cs.Skip("view-construction-panics")
		cs.Cover(monitor + ":view-construction-panics:" + storage + "/" + view)
		return
	}
	typ := typeName(src)
	routine := typ + "." + cm.Name
	s0 := take(src)
	p0 := take(parent)
	if s0.Err != "" || p0.Err != "" {
		cs.Skip("source-read-panics")
		return
	}
	var cp any
	var ct gen.ElemType
	var derivs bool
	if p := fw.Call(func() { cp, ct, derivs = cm.F(src, t, r) }); p != nil {
		cs.Cover(monitor + ":copy-panics:" + routine + "/" + viewCat(view))
		// same-type / other-type / magic conversions run the same conversion loop
		if k := strings.Index(routine, "("); k > 0 {
			routine = routine[:k]
		}
		routine = strings.Replace(routine, "Magic", "", 1)
		cs.Violation(sig(monitor, routine, "view:"+viewCat(view), "copying", "panic"), "the copy operation panics on a readable source: "+p.Msg+" @ "+p.Frame,
			map[string]any{"source": safeString(src), "view": view})
		return
	}
	cs.Cover(monitor + ":" + routine)
	cs.Cover(monitor + ":view:" + view)
	cs.Cover("set:" + monitor + "-cells:" + routine + "/" + view)
	cs.Nontrivial(routine, view, s0.Str, mutateCopy)
	cs.Sample(map[string]any{"routine": routine, "view": view, "source": clip(s0.Str, 200)})
	w := map[string]any{"routine": routine, "view": view, "source": clip(s0.Str, 400), "parent": clip(p0.Str, 400)}
	c0 := take(cp)
	sameType := ct.Name == t.Name
	if d := equalCopy(s0, c0, t.IsInt && ct.IsInt, derivs && sameType, sameType && typeName(cp) == typ); d != "" {
		w["copy"] = clip(c0.Str, 400)
		cs.Violation(sig(monitor, routine, "view:"+viewCat(view), "none", "not-equal"), "the copy differs from its source: "+d, w)
		return
	}
	if d := unchanged(s0, take(src)); d != "" {
		cs.Violation(sig(monitor, routine, "view:"+viewCat(view), "copying", "source-modified"), "copying modified the source: "+d, w)
		return
	}
	// mutate one side, watch the other
	var target any
	var watched []watch
	side := "source"
	if mutateCopy {
		side = "copy"
		target = cp
		watched = []watch{{"source", src, s0}, {"parent of the source", parent, p0}}
	} else {
		target = src
		if r.Chance(0.3) {
			target = parent
			side = "parent"
		}
		watched = []watch{{"copy", cp, c0}}
	}
	cs.Cover(monitor + ":mutated-side:" + side)
	tt := t
	if side == "copy" {
		tt = ct
	}
	nops := r.Range(2, 5)
	for k := 0; k < nops; k++ {
		var name string
		var pm *fw.Panic
		if matrix {
			tm, ok := target.(ad.Matrix)
			if !ok {
				cs.Cover(monitor + ":copy-not-mutable")
				return
			}
			mu := matMuts[r.Intn(len(matMuts))]
			name = mu.Name
			if rows, cols := tm.Dims(); rows == 0 || cols == 0 {
				return
			}
			pm = fw.Call(func() { mu.F(tm, tt, r) })
		} else {
			tv, ok := target.(ad.Vector)
			if !ok {
				cs.Cover(monitor + ":copy-not-mutable")
				return
			}
			mu := vecMuts[r.Intn(len(vecMuts))]
			name = mu.Name
			if tv.Dim() == 0 {
				return
			}
			pm = fw.Call(func() { mu.F(tv, tt, r) })
		}
		cs.Cover(monitor + ":mutation:" + name)
		if pm != nil {
			cs.Cover(monitor + ":mutation-panics:" + name)
		}
		for _, wt := range watched {
			if d := unchanged(wt.S0, take(wt.Obj)); d != "" {
				w["mutated"] = side
				w["mutation"] = name
				w["step"] = k
				cs.Violation(sig(monitor, routine, "view:"+viewCat(view), "mutate-"+side+":"+mutClass(name), "shared-state"),
					fmt.Sprintf("after %s on the %s, the %s changed: %s", name, side, wt.Name, d), w)
				return
			}
		}
		if pm != nil {
			return
		}
	}
}
