// Package c10: views and transposes address exactly the elements they denote
// and behave like independent deep copies (DESIGN.md, C10).
package c10

import (
	"fmt"
	"os"
	"sort"
	"strings"

	ad "github.com/pbenner/autodiff"

	"verifharness/internal/fw"
	"verifharness/internal/gen"
	"verifharness/internal/prng"
	"verifharness/internal/snap"
)

// vstep is one step of a view descriptor.
type vstep struct {
	T              bool // transpose; else slice
	r0, r1, c0, c1 int
}

// vmodel maps view coordinates to parent coordinates.
type vmodel struct {
	rows, cols int
	// parent coordinate = (ar*i + br*j + cr, ac*i + bc*j + cc)
	ar, br, cr, ac, bc, cc int
	desc                   string
}

func (v vmodel) at(i, j int) (int, int) { return v.ar*i + v.br*j + v.cr, v.ac*i + v.bc*j + v.cc }

func identity(rows, cols int) vmodel { return vmodel{rows: rows, cols: cols, ar: 1, bc: 1} }

func (v vmodel) apply(s vstep) vmodel {
	if s.T {
		return vmodel{rows: v.cols, cols: v.rows, ar: v.br, br: v.ar, cr: v.cr, ac: v.bc, bc: v.ac, cc: v.cc, desc: v.desc + "T"}
	}
	// Slice(r0,r1,c0,c1).At(i,j) = At(r0+i, c0+j)
	pr, pc := v.at(s.r0, s.c0)
	return vmodel{rows: s.r1 - s.r0, cols: s.c1 - s.c0, ar: v.ar, br: v.br, cr: pr, ac: v.ac, bc: v.bc, cc: pc, desc: v.desc + "S"}
}

// class is the view descriptor class used in signatures.
func (v vmodel) class(pr, pc int) string {
	c := v.desc
	if c == "" {
		c = "none"
	}
	off := ""
	if v.cr != 0 {
		off += "r"
	}
	if v.cc != 0 {
		off += "c"
	}
	if off != "" {
		c += ",off=" + off
	}
	if v.rows*v.cols == pr*pc {
		c += ",full"
	}
	if v.rows == 0 || v.cols == 0 {
		c += ",empty"
	}
	return c
}

func applyLib(m ad.Matrix, s vstep) ad.Matrix {
	if s.T {
		return m.T()
	}
	return m.Slice(s.r0, s.r1, s.c0, s.c1)
}

type world struct {
	cs      *fw.Case
	t       gen.ElemType
	storage string
	pr, pc  int
	pvals   []gen.Jet
	steps   []vstep
	vm      vmodel
}

func (w *world) parent() ad.Matrix {
	spec := gen.MatrixSpec{T: w.t, Storage: w.storage, R: w.pr, C: w.pc, Vals: w.pvals, Stored: make([]bool, len(w.pvals))}
	return spec.Build()
}

func (w *world) view(p ad.Matrix) (ad.Matrix, *fw.Panic) {
	v := p
	var pp *fw.Panic
	for _, s := range w.steps {
		if pp = fw.Call(func() { v = applyLib(v, s) }); pp != nil {
			return nil, pp
		}
	}
	return v, nil
}

// deepCopy builds a compact independent matrix of the same type and storage
// from element reads of the model (not of the library view).
func (w *world) deepCopy() ad.Matrix {
	vals := make([]gen.Jet, w.vm.rows*w.vm.cols)
	for i := 0; i < w.vm.rows; i++ {
		for j := 0; j < w.vm.cols; j++ {
			pi, pj := w.vm.at(i, j)
			vals[i*w.vm.cols+j] = w.pvals[pi*w.pc+pj]
		}
	}
	spec := gen.MatrixSpec{T: w.t, Storage: w.storage, R: w.vm.rows, C: w.vm.cols, Vals: vals, Stored: make([]bool, len(vals))}
	return spec.Build()
}

func (w *world) sig(op, kind string) string {
	return fmt.Sprintf("C10|%s,%s|%s|view=%s|%s", w.t.Name, w.storage, op, w.vm.class(w.pr, w.pc), kind)
}

func (w *world) witness() map[string]any {
	var st []string
	for _, s := range w.steps {
		if s.T {
			st = append(st, "T()")
		} else {
			st = append(st, fmt.Sprintf("Slice(%d,%d,%d,%d)", s.r0, s.r1, s.c0, s.c1))
		}
	}
	vals := make([]float64, len(w.pvals))
	for i, j := range w.pvals {
		vals[i] = j.V
	}
	return map[string]any{"type": w.t.Name, "storage": w.storage, "parent": fmt.Sprintf("%dx%d", w.pr, w.pc), "parent_values": vals, "view": strings.Join(st, ".")}
}

func (w *world) viol(op, kind, msg string) {
	if kind == "no-write-through" {
		// one cell per mechanism, not per offset pattern: does the view involve a T() or only slices?
		cls := "slices-only"
		if strings.Contains(w.vm.desc, "T") {
			cls = "via-T"
		}
		w.cs.Violation(fmt.Sprintf("C10|%s,%s|%s|view=%s|%s", w.t.Name, w.storage, op, cls, kind), msg, w.witness())
		return
	}
	w.cs.Violation(w.sig(op, kind), msg, w.witness())
}

func elem(t gen.ElemType, j gen.Jet) snap.Elem {
	s := ad.NewScalar(t.T, 0)
	gen.SetScalar(s, j)
	return snap.Scalar(s)
}

/* (1) addressing and bounds
 * -------------------------------------------------------------------------- */

func (w *world) checkAddressing() bool {
	p := w.parent()
	v, pp := w.view(p)
	if pp != nil {
		w.viol("create-view", "panic", pp.Msg+" @"+pp.Frame)
		return false
	}
	r, c := v.Dims()
	if r != w.vm.rows || c != w.vm.cols {
		w.viol("Dims", "wrong-dims", fmt.Sprintf("view is %dx%d, definition gives %dx%d", r, c, w.vm.rows, w.vm.cols))
		return false
	}
	ok := true
	for i := 0; i < r && ok; i++ {
		for j := 0; j < c && ok; j++ {
			pi, pj := w.vm.at(i, j)
			want := elem(w.t, w.pvals[pi*w.pc+pj])
			for _, acc := range []string{"ConstAt", "At", "Float64At"} {
				var got snap.Elem
				if pp := fw.Call(func() {
					switch acc {
					case "ConstAt":
						got = snap.Scalar(v.ConstAt(i, j))
					case "At":
						got = snap.Scalar(v.At(i, j))
					default:
						got = want
						got.F = v.Float64At(i, j)
						if w.t.IsInt {
							got.I = int64(got.F)
						}
					}
				}); pp != nil {
					w.viol(acc, "panic", fmt.Sprintf("%s(%d,%d): %s", acc, i, j, pp.Msg))
					ok = false
					break
				}
				if d := snap.Diff(want, got, w.t.IsInt); d != "" {
					w.viol(acc, "wrong-element", fmt.Sprintf("%s(%d,%d) should be parent(%d,%d): %s (expected vs got)", acc, i, j, pi, pj, d))
					ok = false
					break
				}
			}
		}
	}
	// out-of-view indices must panic, also when they fall inside the parent's storage
	for _, ij := range [][2]int{{-1, 0}, {0, -1}, {r, 0}, {0, c}, {r, c}} {
		for _, acc := range []string{"ConstAt", "At"} {
			pp := fw.Call(func() {
				if acc == "ConstAt" {
					v.ConstAt(ij[0], ij[1])
				} else {
					v.At(ij[0], ij[1])
				}
			})
			if pp == nil {
				w.viol(acc, "no-panic-outside-view", fmt.Sprintf("%s(%d,%d) on a %dx%d view returned normally", acc, ij[0], ij[1], r, c))
				ok = false
			}
		}
	}
	w.cs.Cover("addressing")
	return ok
}

/* (2) write-through of reference views, independence of copies
 * -------------------------------------------------------------------------- */

func (w *world) checkWriteThrough(r *prng.Rand) {
	if w.vm.rows == 0 || w.vm.cols == 0 {
		return
	}
	p := w.parent()
	v, pp := w.view(p)
	if pp != nil {
		return
	}
	before := snap.Matrix(p)
	i, j := r.Intn(w.vm.rows), r.Intn(w.vm.cols)
	pi, pj := w.vm.at(i, j)
	wasZero := w.pvals[pi*w.pc+pj].V == 0
	nv := 77.0
	if pp := fw.Call(func() { v.At(i, j).SetFloat64(nv) }); pp != nil {
		w.viol("At.Set", "panic", pp.Msg)
		return
	}
	after := snap.Matrix(p)
	cls := "present"
	if wasZero {
		cls = "absent-or-zero"
	}
	for a := 0; a < w.pr; a++ {
		for b := 0; b < w.pc; b++ {
			g := after.E[a*w.pc+b]
			if a == pi && b == pj {
				if g.F != nv {
					w.viol("At.Set("+cls+")", "no-write-through", fmt.Sprintf("view.At(%d,%d).SetFloat64(%v) not visible at parent(%d,%d): %v", i, j, nv, pi, pj, g.F))
					return
				}
			} else if d := snap.Diff(before.E[a*w.pc+b], g, w.t.IsInt); d != "" {
				w.viol("At.Set("+cls+")", "outside-window", fmt.Sprintf("view.At(%d,%d).Set changed parent(%d,%d): %s (before vs after)", i, j, a, b, d))
				return
			}
		}
	}
	w.cs.Cover("write-through:" + cls)
	// copying accessors: mutating the copy leaves the parent alone
	p = w.parent()
	v, _ = w.view(p)
	before = snap.Matrix(p)
	type cp struct {
		name string
		f    func() ad.Vector
	}
	copies := []cp{
		{"Row", func() ad.Vector { return v.Row(i) }},
		{"Col", func() ad.Vector { return v.Col(j) }},
	}
	if w.vm.rows == w.vm.cols {
		copies = append(copies, cp{"Diag", func() ad.Vector { return v.Diag() }})
	}
	for _, c := range copies {
		var x ad.Vector
		if pp := fw.Call(func() { x = c.f() }); pp != nil {
			w.viol(c.name, "panic", pp.Msg)
			continue
		}
		fw.Call(func() {
			for k := 0; k < x.Dim(); k++ {
				x.At(k).SetFloat64(55)
			}
		})
		if d := snap.DiffMat(before, snap.Matrix(p), w.t.IsInt); d != "" {
			w.viol(c.name, "copy-writes-through", "mutating the result of "+c.name+" changed the parent: "+d)
		}
	}
	for _, name := range []string{"CloneMatrix", "AsDenseMatrix", "AsSparseMatrix"} {
		var x ad.Matrix
		if pp := fw.Call(func() {
			switch name {
			case "CloneMatrix":
				x = v.CloneMatrix()
			case "AsDenseMatrix":
				x = ad.AsDenseMatrix(w.t.T, v)
			default:
				x = ad.AsSparseMatrix(w.t.T, v)
			}
		}); pp != nil {
			w.viol(name, "panic", pp.Msg)
			continue
		}
		// equal to the view
		if d := w.cmpWithModel(x); d != "" {
			w.viol(name, "wrong-element", name+" of the view: "+d)
			continue
		}
		fw.Call(func() {
			rr, cc := x.Dims()
			for a := 0; a < rr; a++ {
				for b := 0; b < cc; b++ {
					x.At(a, b).SetFloat64(55)
				}
			}
		})
		if d := snap.DiffMat(before, snap.Matrix(p), w.t.IsInt); d != "" {
			w.viol(name, "copy-writes-through", "mutating the result of "+name+" changed the parent: "+d)
		}
	}
	w.cs.Cover("copies")
}

// cmpWithModel compares a matrix with what the view should hold.
func (w *world) cmpWithModel(x ad.ConstMatrix) string {
	r, c := x.Dims()
	if r != w.vm.rows || c != w.vm.cols {
		return fmt.Sprintf("dims %dx%d, expected %dx%d", r, c, w.vm.rows, w.vm.cols)
	}
	for i := 0; i < r; i++ {
		for j := 0; j < c; j++ {
			pi, pj := w.vm.at(i, j)
			var got snap.Elem
			if pp := fw.Call(func() { got = snap.Scalar(x.ConstAt(i, j)) }); pp != nil {
				return fmt.Sprintf("ConstAt(%d,%d) panics: %s", i, j, pp.Msg)
			}
			if d := snap.Diff(elem(w.t, w.pvals[pi*w.pc+pj]), got, w.t.IsInt); d != "" {
				return fmt.Sprintf("(%d,%d): %s (expected vs got)", i, j, d)
			}
		}
	}
	return ""
}

/* Tip on an owning matrix equals its former T()
 * -------------------------------------------------------------------------- */

func (w *world) checkTip() {
	p := w.parent()
	tm := identity(w.pr, w.pc).apply(vstep{T: true})
	if pp := fw.Call(func() { p.Tip() }); pp != nil {
		w.cs.Violation(fmt.Sprintf("C10|%s,%s|Tip|view=owning|panic", w.t.Name, w.storage), pp.Msg, w.witness())
		return
	}
	save := w.vm
	w.vm = tm
	if d := w.cmpWithModel(p); d != "" {
		w.cs.Violation(fmt.Sprintf("C10|%s,%s|Tip|view=owning|wrong-element", w.t.Name, w.storage), "after Tip(): "+d, w.witness())
	}
	w.vm = save
	w.cs.Cover("Tip")
}

/* (3) view == deep copy under every operation
 * -------------------------------------------------------------------------- */

func fpElem(e snap.Elem, isInt bool) string {
	if isInt {
		return fmt.Sprint(e.I)
	}
	s := fmt.Sprint(e.F + 0) // -0 prints as 0 after +0? keep the exact policy: -0 == +0
	if e.F == 0 {
		s = "0"
	}
	nz := false
	for _, d := range e.D {
		if d != 0 {
			nz = true
		}
	}
	for _, h := range e.H {
		if h != 0 {
			nz = true
		}
	}
	if nz {
		s += fmt.Sprint(e.D, e.H)
	}
	return s
}

func fpMat(m ad.ConstMatrix, isInt bool) string {
	var b strings.Builder
	r, c := m.Dims()
	fmt.Fprintf(&b, "%dx%d[", r, c)
	for i := 0; i < r; i++ {
		for j := 0; j < c; j++ {
			b.WriteString(fpElem(snap.Scalar(m.ConstAt(i, j)), isInt))
			b.WriteByte(' ')
		}
	}
	return b.String()
}

func fpVec(v ad.ConstVector, isInt bool) string {
	var b strings.Builder
	fmt.Fprintf(&b, "%d[", v.Dim())
	for i := 0; i < v.Dim(); i++ {
		b.WriteString(fpElem(snap.Scalar(v.ConstAt(i)), isInt))
		b.WriteByte(' ')
	}
	return b.String()
}

type aux struct {
	t        gen.ElemType
	rows     int
	cols     int
	B        gen.MatrixSpec // rows x cols
	BT       gen.MatrixSpec // cols x k
	BL       gen.MatrixSpec // k x rows
	k        int
	vc       gen.VectorSpec // cols
	vr       gen.VectorSpec // rows
	sc       gen.Jet
	i0, j0   int
	pi       []int
	tmpdir   string
	recvKind string
}

type readOp struct {
	name string
	f    func(m ad.Matrix, a *aux) string
}

func newRecv(a *aux, r, c int) ad.Matrix { return gen.NullMatrix(a.t, a.recvKind, r, c) }

func scalarOf(t gen.ElemType, j gen.Jet) ad.Scalar {
	s := ad.NewScalar(t.T, 0)
	gen.SetScalar(s, j)
	return s
}

var readOps = []readOp{
	{"ConstIterator", func(m ad.Matrix, a *aux) string {
		var b strings.Builder
		n := 0
		for it := m.ConstIterator(); it.Ok(); it.Next() {
			i, j := it.Index()
			fmt.Fprintf(&b, "(%d,%d)=%s;", i, j, fpElem(snap.Scalar(it.GetConst()), a.t.IsInt))
			if n++; n > a.rows*a.cols+3 {
				b.WriteString("…runaway")
				break
			}
		}
		return b.String()
	}},
	{"ConstIteratorFrom", func(m ad.Matrix, a *aux) string {
		if a.rows == 0 || a.cols == 0 {
			return ""
		}
		var b strings.Builder
		n := 0
		for it := m.ConstIteratorFrom(a.i0, a.j0); it.Ok(); it.Next() {
			i, j := it.Index()
			fmt.Fprintf(&b, "(%d,%d)=%s;", i, j, fpElem(snap.Scalar(it.GetConst()), a.t.IsInt))
			if n++; n > a.rows*a.cols+3 {
				b.WriteString("…runaway")
				break
			}
		}
		return b.String()
	}},
	{"Iterator", func(m ad.Matrix, a *aux) string {
		var b strings.Builder
		n := 0
		for it := m.Iterator(); it.Ok(); it.Next() {
			i, j := it.Index()
			fmt.Fprintf(&b, "(%d,%d)=%s;", i, j, fpElem(snap.Scalar(it.Get()), a.t.IsInt))
			if n++; n > a.rows*a.cols+3 {
				b.WriteString("…runaway")
				break
			}
		}
		return b.String()
	}},
	{"JointIterator", func(m ad.Matrix, a *aux) string {
		var b strings.Builder
		n := 0
		for it := m.JointIterator(a.B.Build()); it.Ok(); it.Next() {
			i, j := it.Index()
			x, y := it.GetConst()
			xs := "nil"
			if x != nil {
				xs = fpElem(snap.Scalar(x), a.t.IsInt)
				if xs == "0" {
					xs = "nil" // a stored zero and an absent element are the same element
				}
			}
			fmt.Fprintf(&b, "(%d,%d)=%s,%s;", i, j, xs, fpElem(snap.Scalar(y), a.t.IsInt))
			if n++; n > a.rows*a.cols+3 {
				b.WriteString("…runaway")
				break
			}
		}
		return b.String()
	}},
	{"String", func(m ad.Matrix, a *aux) string { return fmt.Sprint(m) }},
	{"Table", func(m ad.Matrix, a *aux) string { return m.Table() }},
	{"MarshalJSON", func(m ad.Matrix, a *aux) string {
		b, err := m.MarshalJSON()
		return fmt.Sprint(string(b), err)
	}},
	{"Export", func(m ad.Matrix, a *aux) string {
		f := a.tmpdir + "/m.table"
		if err := m.Export(f); err != nil {
			return "error: " + err.Error()
		}
		b, _ := os.ReadFile(f)
		os.Remove(f)
		return string(b)
	}},
	{"AsVector", func(m ad.Matrix, a *aux) string {
		v := m.AsVector()
		// the order is documented as unspecified: compare length and multiset
		xs := make([]string, v.Dim())
		for i := range xs {
			xs[i] = fpElem(snap.Scalar(v.ConstAt(i)), a.t.IsInt)
		}
		sort.Strings(xs)
		return fmt.Sprint(len(xs), xs)
	}},
	{"AsConstVector", func(m ad.Matrix, a *aux) string {
		v := m.AsConstVector()
		xs := make([]string, v.Dim())
		for i := range xs {
			xs[i] = fpElem(snap.Scalar(v.ConstAt(i)), a.t.IsInt)
		}
		sort.Strings(xs)
		return fmt.Sprint(len(xs), xs)
	}},
	{"ConstRow", func(m ad.Matrix, a *aux) string {
		if a.rows == 0 {
			return ""
		}
		return fpVec(m.ConstRow(a.i0), a.t.IsInt)
	}},
	{"ConstCol", func(m ad.Matrix, a *aux) string {
		if a.cols == 0 {
			return ""
		}
		return fpVec(m.ConstCol(a.j0), a.t.IsInt)
	}},
	{"Row", func(m ad.Matrix, a *aux) string {
		if a.rows == 0 {
			return ""
		}
		return fpVec(m.Row(a.i0), a.t.IsInt)
	}},
	{"Col", func(m ad.Matrix, a *aux) string {
		if a.cols == 0 {
			return ""
		}
		return fpVec(m.Col(a.j0), a.t.IsInt)
	}},
	{"Diag", func(m ad.Matrix, a *aux) string {
		if a.rows != a.cols {
			return ""
		}
		return fpVec(m.Diag(), a.t.IsInt) + fpVec(m.ConstDiag(), a.t.IsInt)
	}},
	{"IsSymmetric", func(m ad.Matrix, a *aux) string {
		if a.rows != a.cols {
			return ""
		}
		return fmt.Sprint(m.IsSymmetric(0.5))
	}},
	{"Reduce", func(m ad.Matrix, a *aux) string {
		r := ad.NewScalar(a.t.T, 0)
		m.Reduce(func(acc ad.Scalar, x ad.ConstScalar) ad.Scalar { acc.Add(acc, x); return acc }, r)
		return fpElem(snap.Scalar(r), a.t.IsInt)
	}},
	{"Mnorm", func(m ad.Matrix, a *aux) string {
		r := ad.NewScalar(a.t.T, 0)
		r.Mnorm(m)
		return fpElem(snap.Scalar(r), a.t.IsInt)
	}},
	{"Mtrace", func(m ad.Matrix, a *aux) string {
		if a.rows != a.cols || a.rows == 0 {
			return ""
		}
		r := ad.NewScalar(a.t.T, 0)
		r.Mtrace(m)
		return fpElem(snap.Scalar(r), a.t.IsInt)
	}},
	{"Equals", func(m ad.Matrix, a *aux) string {
		B := a.B.Build()
		return fmt.Sprint(m.Equals(B, 0.5), B.Equals(m, 0.5), m.Equals(m.CloneMatrix(), 0.5))
	}},
	{"operand:MaddM", func(m ad.Matrix, a *aux) string {
		return fpMat(newRecv(a, a.rows, a.cols).MaddM(m, a.B.Build()), a.t.IsInt)
	}},
	{"operand:MsubM", func(m ad.Matrix, a *aux) string {
		return fpMat(newRecv(a, a.rows, a.cols).MsubM(a.B.Build(), m), a.t.IsInt)
	}},
	{"operand:MmulM", func(m ad.Matrix, a *aux) string {
		return fpMat(newRecv(a, a.rows, a.cols).MmulM(m, a.B.Build()), a.t.IsInt)
	}},
	{"operand:MmulS", func(m ad.Matrix, a *aux) string {
		return fpMat(newRecv(a, a.rows, a.cols).MmulS(m, scalarOf(a.t, a.sc)), a.t.IsInt)
	}},
	{"operand:MdotM-left", func(m ad.Matrix, a *aux) string {
		return fpMat(newRecv(a, a.rows, a.k).MdotM(m, a.BT.Build()), a.t.IsInt)
	}},
	{"operand:MdotM-right", func(m ad.Matrix, a *aux) string {
		return fpMat(newRecv(a, a.k, a.cols).MdotM(a.BL.Build(), m), a.t.IsInt)
	}},
	{"operand:MdotV", func(m ad.Matrix, a *aux) string {
		return fpVec(gen.NullVector(a.t, a.recvKind, a.rows).MdotV(m, a.vc.Build()), a.t.IsInt)
	}},
	{"operand:VdotM", func(m ad.Matrix, a *aux) string {
		return fpVec(gen.NullVector(a.t, a.recvKind, a.cols).VdotM(a.vr.Build(), m), a.t.IsInt)
	}},
	{"operand:Set", func(m ad.Matrix, a *aux) string {
		r := newRecv(a, a.rows, a.cols)
		r.Set(m)
		return fpMat(r, a.t.IsInt)
	}},
	{"T-of-view", func(m ad.Matrix, a *aux) string { return fpMat(m.T(), a.t.IsInt) }},
	{"Slice-of-view", func(m ad.Matrix, a *aux) string {
		if a.rows == 0 || a.cols == 0 {
			return ""
		}
		return fpMat(m.Slice(a.i0, a.rows, 0, a.j0+1), a.t.IsInt)
	}},
	// the read-only accessors of the ConstMatrix interface have their own implementations in the generated
	// types (ConstSlice builds its header separately from Slice): same judgement, a second slice of the result on top
	{"ConstSlice-of-view", func(m ad.Matrix, a *aux) string {
		if a.rows == 0 || a.cols == 0 {
			return ""
		}
		c := m.ConstSlice(a.i0, a.rows, 0, a.j0+1)
		r, k := c.Dims()
		return fpMat(c, a.t.IsInt) + fpMat(c.ConstSlice(0, r, k-1, k), a.t.IsInt)
	}},
}

type writeOp struct {
	name   string
	square bool
	f      func(m ad.Matrix, a *aux)
}

var writeOps = []writeOp{
	{"recv:MaddM", false, func(m ad.Matrix, a *aux) { m.MaddM(a.B.Build(), a.B.Build()) }},
	{"recv:MmulS", false, func(m ad.Matrix, a *aux) { m.MmulS(a.B.Build(), scalarOf(a.t, a.sc)) }},
	{"recv:inplace-MaddM", false, func(m ad.Matrix, a *aux) { m.MaddM(m, a.B.Build()) }},
	{"recv:inplace-MmulS", false, func(m ad.Matrix, a *aux) { m.MmulS(m, scalarOf(a.t, a.sc)) }},
	{"recv:MdotM", false, func(m ad.Matrix, a *aux) {
		// (rows x k)·(k x cols)
		x := gen.MatrixSpec{T: a.t, Storage: gen.Dense, R: a.rows, C: a.k, Vals: a.BL.Vals[:a.rows*a.k], Stored: make([]bool, a.rows*a.k)}
		y := gen.MatrixSpec{T: a.t, Storage: gen.Dense, R: a.k, C: a.cols, Vals: a.BT.Vals[:a.k*a.cols], Stored: make([]bool, a.k*a.cols)}
		m.MdotM(x.Build(), y.Build())
	}},
	{"recv:Outer", false, func(m ad.Matrix, a *aux) { m.Outer(a.vr.Build(), a.vc.Build()) }},
	{"recv:Set", false, func(m ad.Matrix, a *aux) { m.Set(a.B.Build()) }},
	{"recv:Reset", false, func(m ad.Matrix, a *aux) { m.Reset() }},
	{"recv:SetIdentity", false, func(m ad.Matrix, a *aux) { m.SetIdentity() }},
	{"recv:Swap", false, func(m ad.Matrix, a *aux) {
		if a.rows > 0 && a.cols > 0 {
			m.Swap(a.i0, a.j0, a.rows-1-a.i0, a.cols-1-a.j0)
		}
	}},
	{"recv:SwapRows", true, func(m ad.Matrix, a *aux) {
		if a.rows > 0 {
			m.SwapRows(a.i0, a.rows-1-a.i0)
		}
	}},
	{"recv:SwapColumns", true, func(m ad.Matrix, a *aux) {
		if a.cols > 0 {
			m.SwapColumns(a.j0, a.cols-1-a.j0)
		}
	}},
	{"recv:PermuteRows", true, func(m ad.Matrix, a *aux) { m.PermuteRows(a.pi) }},
	{"recv:PermuteColumns", true, func(m ad.Matrix, a *aux) { m.PermuteColumns(a.pi) }},
	{"recv:SymmetricPermutation", true, func(m ad.Matrix, a *aux) { m.SymmetricPermutation(a.pi) }},
	{"recv:Map", false, func(m ad.Matrix, a *aux) {
		two := scalarOf(a.t, gen.Jet{V: 2})
		m.Map(func(s ad.Scalar) { s.Mul(s, two) })
	}},
	{"recv:MapSet", false, func(m ad.Matrix, a *aux) {
		two := scalarOf(a.t, gen.Jet{V: 2})
		m.MapSet(func(s ad.ConstScalar) ad.Scalar {
			x := ad.NewScalar(a.t.T, 0)
			x.Mul(s, two)
			return x
		})
	}},
	{"recv:Iterator-write", false, func(m ad.Matrix, a *aux) {
		three := scalarOf(a.t, gen.Jet{V: 3})
		n := 0
		for it := m.Iterator(); it.Ok(); it.Next() {
			s := it.Get()
			s.Mul(s, three)
			if n++; n > a.rows*a.cols+3 {
				break
			}
		}
	}},
}

func (w *world) mkAux(r *prng.Rand) *aux {
	a := &aux{t: w.t, rows: w.vm.rows, cols: w.vm.cols, k: r.Range(1, 3)}
	nv, ord := 0, 0
	if w.t.IsReal && r.Bool() {
		nv, ord = 1, 1
	}
	a.B = gen.GenMatrix(w.t, gen.Dense, "random", a.rows, a.cols, r, nv, ord, false)
	a.BT = gen.GenMatrix(w.t, gen.Dense, "random", maxi(a.cols, a.k), maxi(a.cols, a.k), r, nv, ord, false)
	a.BT.R, a.BT.C = a.cols, a.k
	a.BT.Vals, a.BT.Stored = a.BT.Vals[:a.cols*a.k], a.BT.Stored[:a.cols*a.k]
	a.BL = gen.GenMatrix(w.t, gen.Dense, "random", maxi(a.rows, a.k), maxi(a.rows, a.k), r, nv, ord, false)
	a.BL.R, a.BL.C = a.k, a.rows
	a.BL.Vals, a.BL.Stored = a.BL.Vals[:a.k*a.rows], a.BL.Stored[:a.k*a.rows]
	a.vc = gen.GenVector(w.t, gen.Dense, "random", a.cols, r, nv, ord, false)
	a.vr = gen.GenVector(w.t, gen.Dense, "random", a.rows, r, nv, ord, false)
	a.sc = gen.Jet{V: w.t.NonZero(r)}
	if a.rows > 0 {
		a.i0 = r.Intn(a.rows)
	}
	if a.cols > 0 {
		a.j0 = r.Intn(a.cols)
	}
	a.pi = r.Perm(a.rows)
	a.recvKind = gen.Dense
	if r.Bool() {
		a.recvKind = gen.Sparse
	}
	a.tmpdir = fmt.Sprintf("/tmp/c10-%d", os.Getpid())
	os.MkdirAll(a.tmpdir, 0o755)
	return a
}

func maxi(a, b int) int {
	if a > b {
		return a
	}
	return b
}

func (w *world) checkViewVsCopy(r *prng.Rand) {
	a := w.mkAux(r)
	// read-only operations: same fingerprint on the view and on the deep copy
	p := w.parent()
	v, pp := w.view(p)
	if pp != nil {
		return
	}
	cp := w.deepCopy()
	pBefore := snap.Matrix(p)
	for _, op := range readOps {
		var fv, fc string
		pv := fw.Call(func() { fv = op.f(v, a) })
		pc := fw.Call(func() { fc = op.f(cp, a) })
		switch {
		case pv != nil && pc == nil:
			w.viol(op.name, "panic", "panics on the view, not on the deep copy: "+pv.Msg+" @"+pv.Frame)
		case pv == nil && pc != nil:
			w.viol(op.name, "copy-panics", "panics on the deep copy, not on the view: "+pc.Msg)
		case pv == nil && fv != fc:
			w.viol(op.name, "differs-from-copy", fmt.Sprintf("on the view: %.300s | on the deep copy: %.300s", fv, fc))
		}
		w.cs.Cover("read-op:" + op.name)
	}
	// read-only operations must not have changed the parent
	if d := snap.DiffMat(pBefore, snap.Matrix(p), w.t.IsInt); d != "" {
		w.viol("read-only-ops", "outside-window", "parent changed by read-only operations on the view: "+d)
	}
	// mutating operations with the view as receiver, each on a fresh parent
	nw := 4
	for k := 0; k < nw; k++ {
		op := writeOps[r.Intn(len(writeOps))]
		if op.square && w.vm.rows != w.vm.cols {
			continue
		}
		p := w.parent()
		v, pp := w.view(p)
		if pp != nil {
			return
		}
		cp := w.deepCopy()
		before := snap.Matrix(p)
		pv := fw.Call(func() { op.f(v, a) })
		pc := fw.Call(func() { op.f(cp, a) })
		w.cs.Cover("write-op:" + op.name)
		if pv != nil && pc == nil {
			w.viol(op.name, "panic", "panics on the view, not on the deep copy: "+pv.Msg+" @"+pv.Frame)
			continue
		}
		if pv != nil || pc != nil {
			continue
		}
		var fv, fc string
		if pp := fw.Call(func() { fv, fc = fpMat(v, w.t.IsInt), fpMat(cp, w.t.IsInt) }); pp != nil {
			w.viol(op.name, "panic", "reading the view after the operation: "+pp.Msg)
			continue
		}
		if fv != fc {
			w.viol(op.name, "differs-from-copy", fmt.Sprintf("view after the operation: %.300s | deep copy: %.300s", fv, fc))
			continue
		}
		// the parent may change only inside the window
		inside := map[[2]int]bool{}
		for i := 0; i < w.vm.rows; i++ {
			for j := 0; j < w.vm.cols; j++ {
				pi, pj := w.vm.at(i, j)
				inside[[2]int{pi, pj}] = true
			}
		}
		after := snap.Matrix(p)
		for x := 0; x < w.pr; x++ {
			for y := 0; y < w.pc; y++ {
				if inside[[2]int{x, y}] {
					continue
				}
				if d := snap.Diff(before.E[x*w.pc+y], after.E[x*w.pc+y], w.t.IsInt); d != "" {
					w.viol(op.name, "outside-window", fmt.Sprintf("parent(%d,%d) outside the view changed: %s (before vs after)", x, y, d))
					x = w.pr
					break
				}
			}
		}
	}
}

func randSlice(r *prng.Rand, rows, cols int) vstep {
	r0 := r.Intn(rows + 1)
	r1 := r0 + r.Intn(rows-r0+1)
	c0 := r.Intn(cols + 1)
	c1 := c0 + r.Intn(cols-c0+1)
	return vstep{r0: r0, r1: r1, c0: c0, c1: c1}
}

func runCase(cs *fw.Case, t gen.ElemType, storage string, pr, pc int, steps []vstep) {
	r := cs.R
	w := &world{cs: cs, t: t, storage: storage, pr: pr, pc: pc, steps: steps}
	nv, ord := 0, 0
	if t.IsReal && r.Bool() {
		nv, ord = 1, r.Range(1, 2)
	}
	w.pvals = make([]gen.Jet, pr*pc)
	for i := range w.pvals {
		if r.Chance(0.25) {
			continue // zero / absent
		}
		w.pvals[i] = gen.RandJet(t, r, float64(i+1), nv, ord)
	}
	w.vm = identity(pr, pc)
	for _, s := range steps {
		w.vm = w.vm.apply(s)
	}
	if cs.Index < 2 {
		cs.Sample(w.witness())
	}
	cs.Cover("view-class:" + w.vm.desc)
	if !w.checkAddressing() {
		return // everything else builds on addressing
	}
	w.checkWriteThrough(r)
	if len(steps) == 0 {
		w.checkTip()
	}
	w.checkViewVsCopy(r)
	if len(steps) > 0 && w.vm.rows*w.vm.cols > 0 {
		cs.Nontrivial(t.Name, storage, pr, pc, fmt.Sprint(steps), fmt.Sprint(w.pvals))
	}
}

// enumerate all slice bounds of a rows x cols matrix
func allSlices(rows, cols int) []vstep {
	var r []vstep
	for r0 := 0; r0 <= rows; r0++ {
		for r1 := r0; r1 <= rows; r1++ {
			for c0 := 0; c0 <= cols; c0++ {
				for c1 := c0; c1 <= cols; c1++ {
					r = append(r, vstep{r0: r0, r1: r1, c0: c0, c1: c1})
				}
			}
		}
	}
	return r
}

// Run is the C10 workload.
func Run(c *fw.Ctx) {
	storages := []string{gen.Dense, gen.Sparse}
	// (a) exhaustive: every slice of every shape up to LxL, alone, transposed before and after
	L := c.N(3, 4)
	type ex struct {
		pr, pc int
		steps  []vstep
	}
	var exh []ex
	for pr := 1; pr <= L; pr++ {
		for pc := 1; pc <= L; pc++ {
			for _, s := range allSlices(pr, pc) {
				exh = append(exh, ex{pr, pc, []vstep{s}})
				exh = append(exh, ex{pr, pc, []vstep{s, {T: true}}})
				st := allSlices(pc, pr) // slices of the transpose
				_ = st
			}
			for _, s := range allSlices(pc, pr) {
				exh = append(exh, ex{pr, pc, []vstep{{T: true}, s}})
			}
			exh = append(exh, ex{pr, pc, nil}, ex{pr, pc, []vstep{{T: true}}}, ex{pr, pc, []vstep{{T: true}, {T: true}}})
		}
	}
	mainTypes := map[string]bool{"Float64": true, "Real64": true, "Int": true}
	for _, t := range gen.Types {
		t := t
		for _, st := range storages {
			st := st
			if mainTypes[t.Name] || c.Thorough() {
				c.Cases(fmt.Sprintf("exhaustive/%s/%s", t.Name, st), len(exh), func(cs *fw.Case) {
					e := exh[cs.Index]
					runCase(cs, t, st, e.pr, e.pc, e.steps)
				})
			}
			// (b) random nested compositions on larger parents
			n := c.N(400, 12000)
			if mainTypes[t.Name] {
				n = c.N(1500, 40000)
			}
			c.Cases(fmt.Sprintf("nested/%s/%s", t.Name, st), n, func(cs *fw.Case) {
				r := cs.R
				pr, pc := r.Range(1, c.N(5, 6)), r.Range(1, c.N(5, 6))
				depth := r.Range(1, 3)
				var steps []vstep
				rows, cols := pr, pc
				for d := 0; d < depth; d++ {
					if r.Chance(0.4) {
						steps = append(steps, vstep{T: true})
						rows, cols = cols, rows
					} else {
						s := randSlice(r, rows, cols)
						// prefer non-empty windows
						if (s.r1 == s.r0 || s.c1 == s.c0) && r.Chance(0.8) {
							s = vstep{r0: 0, r1: rows, c0: cols / 2, c1: cols}
						}
						steps = append(steps, s)
						rows, cols = s.r1-s.r0, s.c1-s.c0
					}
				}
				runCase(cs, t, st, pr, pc, steps)
			})
		}
	}
	// (c) vector slices
	for _, t := range gen.Types {
		t := t
		for _, st := range storages {
			st := st
			c.Cases(fmt.Sprintf("vector-slice/%s/%s", t.Name, st), c.N(300, 8000), func(cs *fw.Case) {
				runVectorSlice(cs, t, st)
			})
		}
	}
}
