package c10

import (
	"fmt"

	ad "github.com/pbenner/autodiff"

	"verifharness/internal/fw"
	"verifharness/internal/gen"
	"verifharness/internal/snap"
)

// runVectorSlice: v.Slice(i,j).At(k) is v.At(i+k); nested slices; iteration,
// String and arithmetic on the slice equal those on a deep copy; writing an
// element through the slice is seen in the parent at i+k and nowhere else.
func runVectorSlice(cs *fw.Case, t gen.ElemType, storage string) {
	r := cs.R
	n := r.Range(1, 9)
	vals := make([]gen.Jet, n)
	for i := range vals {
		if r.Chance(0.3) {
			continue
		}
		vals[i] = gen.Jet{V: float64(i + 1)}
	}
	spec := gen.VectorSpec{T: t, Storage: storage, Vals: vals, Stored: make([]bool, n)}
	build := func() ad.Vector { return spec.Build() }
	// one or two nested slices
	i0 := r.Intn(n + 1)
	j0 := i0 + r.Intn(n-i0+1)
	off, length := i0, j0-i0
	nested := r.Bool()
	var i1, j1 int
	if nested {
		i1 = r.Intn(length + 1)
		j1 = i1 + r.Intn(length-i1+1)
		off, length = i0+i1, j1-i1
	}
	mk := func(p ad.Vector) ad.Vector {
		s := p.Slice(i0, j0)
		if nested {
			s = s.Slice(i1, j1)
		}
		return s
	}
	class := "slice"
	if nested {
		class = "nested"
	}
	if off > 0 {
		class += ",off"
	}
	if length == 0 {
		class += ",empty"
	}
	wit := map[string]any{"type": t.Name, "storage": storage, "values": spec.String(), "slice": []int{i0, j0, i1, j1}, "nested": nested}
	viol := func(op, kind, msg string) {
		if kind == "no-write-through" {
			cs.Violation(fmt.Sprintf("C10|%s,%s,vector|%s|view=slice|%s", t.Name, storage, op, kind), msg, wit)
			return
		}
		cs.Violation(fmt.Sprintf("C10|%s,%s,vector|%s|view=%s|%s", t.Name, storage, op, class, kind), msg, wit)
	}
	p := build()
	var s ad.Vector
	if pp := fw.Call(func() { s = mk(p) }); pp != nil {
		viol("Slice", "panic", pp.Msg)
		return
	}
	if s.Dim() != length {
		viol("Dim", "wrong-dims", fmt.Sprintf("slice has dimension %d, expected %d", s.Dim(), length))
		return
	}
	for k := 0; k < length; k++ {
		var got snap.Elem
		if pp := fw.Call(func() { got = snap.Scalar(s.ConstAt(k)) }); pp != nil {
			viol("ConstAt", "panic", fmt.Sprintf("ConstAt(%d): %s", k, pp.Msg))
			return
		}
		if d := snap.Diff(elem(t, vals[off+k]), got, t.IsInt); d != "" {
			viol("ConstAt", "wrong-element", fmt.Sprintf("slice element %d should be parent element %d: %s (expected vs got)", k, off+k, d))
			return
		}
	}
	for _, k := range []int{-1, length} {
		if pp := fw.Call(func() { s.ConstAt(k) }); pp == nil {
			viol("ConstAt", "no-panic-outside-view", fmt.Sprintf("ConstAt(%d) on a slice of dimension %d returned normally", k, length))
		}
	}
	cs.Cover("vector-addressing")
	// deep copy comparison for reads
	cpVals := append([]gen.Jet{}, vals[off:off+length]...)
	cp := gen.VectorSpec{T: t, Storage: storage, Vals: cpVals, Stored: make([]bool, length)}.Build()
	b := gen.GenVector(t, gen.Dense, "random", length, r, 0, 0, false)
	reads := map[string]func(v ad.Vector) string{
		"String":        func(v ad.Vector) string { return fmt.Sprint(v) },
		"Table":         func(v ad.Vector) string { return v.Table() },
		"MarshalJSON":   func(v ad.Vector) string { x, e := v.MarshalJSON(); return fmt.Sprint(string(x), e) },
		"ConstIterator": func(v ad.Vector) string {
			out := ""
			k := 0
			for it := v.ConstIterator(); it.Ok(); it.Next() {
				out += fmt.Sprintf("%d=%s;", it.Index(), fpElem(snap.Scalar(it.GetConst()), t.IsInt))
				if k++; k > length+3 {
					break
				}
			}
			return out
		},
		"operand:VaddV": func(v ad.Vector) string { return fpVec(gen.NullVector(t, gen.Dense, length).VaddV(v, b.Build()), t.IsInt) },
		"operand:VmulV": func(v ad.Vector) string { return fpVec(gen.NullVector(t, gen.Sparse, length).VmulV(b.Build(), v), t.IsInt) },
		"VdotV":         func(v ad.Vector) string { x := ad.NewScalar(t.T, 0); x.VdotV(v, b.Build()); return fpElem(snap.Scalar(x), t.IsInt) },
		"Equals":        func(v ad.Vector) string { return fmt.Sprint(v.Equals(b.Build(), 0.5), b.Build().Equals(v, 0.5)) },
		"CloneVector":   func(v ad.Vector) string { return fpVec(v.CloneVector(), t.IsInt) },
		"AsMatrix":      func(v ad.Vector) string { return fpMat(v.AsMatrix(1, length), t.IsInt) },
	}
	before := snap.Vector(p)
	for name, f := range reads {
		var fv, fc string
		pv := fw.Call(func() { fv = f(s) })
		pc := fw.Call(func() { fc = f(cp) })
		switch {
		case pv != nil && pc == nil:
			viol(name, "panic", "panics on the slice, not on the deep copy: "+pv.Msg)
		case pv == nil && pc == nil && fv != fc:
			viol(name, "differs-from-copy", fmt.Sprintf("on the slice: %.200s | on the deep copy: %.200s", fv, fc))
		}
		cs.Cover("vector-read-op:" + name)
	}
	if d := snap.DiffVec(before, snap.Vector(p), t.IsInt); d != "" {
		viol("read-only-ops", "outside-window", "parent changed by read-only operations on the slice: "+d)
	}
	// write-through
	if length > 0 {
		p := build()
		s := mk(p)
		k := r.Intn(length)
		cls := "present"
		if vals[off+k].V == 0 {
			cls = "absent-or-zero"
		}
		before := snap.Vector(p)
		if pp := fw.Call(func() { s.At(k).SetFloat64(77) }); pp != nil {
			viol("At.Set", "panic", pp.Msg)
			return
		}
		after := snap.Vector(p)
		for x := 0; x < n; x++ {
			if x == off+k {
				if after.E[x].F != 77 {
					viol("At.Set("+cls+")", "no-write-through", fmt.Sprintf("slice.At(%d).SetFloat64(77) not visible at parent element %d (%v)", k, x, after.E[x].F))
				}
			} else if d := snap.Diff(before.E[x], after.E[x], t.IsInt); d != "" {
				viol("At.Set("+cls+")", "outside-window", fmt.Sprintf("parent element %d changed: %s", x, d))
			}
		}
		cs.Cover("vector-write-through:" + cls)
		cs.Nontrivial(t.Name, storage, spec.String(), i0, j0, i1, j1, nested)
	}
}
