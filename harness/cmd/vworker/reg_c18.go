//go:build pC18

package main

import "verifharness/c18"

func init() { props["C18"] = c18.Run }
