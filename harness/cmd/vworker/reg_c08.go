//go:build pC08

package main

import "verifharness/c08"

func init() { props["C08"] = c08.Run }
