//go:build pC07

package main

import "verifharness/c07"

func init() { props["C07"] = c07.Run }
