//go:build pC03

package main

import "verifharness/c03"

func init() { props["C03"] = c03.Run }
