//go:build pC01

package main

import "verifharness/c01"

func init() { props["C01"] = c01.Run }
