//go:build pC09

package main

import "verifharness/c09"

func init() { props["C09"] = c09.Run }
