//go:build pC11

package main

import "verifharness/c11"

func init() { props["C11"] = c11.Run }
