//go:build pC17

package main

import "verifharness/c17"

func init() { props["C17"] = c17.Run }
