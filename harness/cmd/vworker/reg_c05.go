//go:build pC05

package main

import "verifharness/c05"

func init() { props["C05"] = c05.Run }
