//go:build pC15

package main

import "verifharness/c15"

func init() { props["C15"] = c15.Run }
