//go:build pC14

package main

import "verifharness/c14"

func init() { props["C14"] = c14.Run }
