// vworker drives the real library under the workload of one property and
// writes a JSONL event log that the driver (../../check) judges.
package main

import (
	"flag"
	"fmt"
	"os"
	"sort"

	"github.com/pbenner/autodiff/verifhook"

	"verifharness/internal/fw"
)

var props = map[string]func(*fw.Ctx){}

func main() {
	if len(os.Args) < 2 {
		fmt.Fprintln(os.Stderr, "usage: vworker <property> [flags]")
		os.Exit(2)
	}
	prop := os.Args[1]
	fs := flag.NewFlagSet("vworker", flag.ExitOnError)
	seed := fs.Uint64("seed", 1, "VERIF_SEED")
	tier := fs.String("tier", "quick", "quick|thorough")
	shard := fs.Int("shard", 0, "shard index")
	nshards := fs.Int("nshards", 1, "number of shards")
	only := fs.String("only", "", "run only this case id")
	after := fs.String("after", "", "resume after this case id")
	out := fs.String("out", "/dev/stdout", "event log")
	fs.Parse(os.Args[2:])

	if prop == "list" {
		var ids []string
		for k := range props {
			ids = append(ids, k)
		}
		sort.Strings(ids)
		for _, k := range ids {
			fmt.Println(k)
		}
		return
	}
	run, ok := props[prop]
	if !ok {
		fmt.Fprintln(os.Stderr, "unknown property", prop)
		os.Exit(2)
	}
	if !verifhook.Enabled {
		fmt.Fprintln(os.Stderr, "vworker must be built with -tags verif")
		os.Exit(2)
	}
	verifhook.TickFn = fw.TickHook
	verifhook.CountFn = fw.CountHook
	ctx, err := fw.NewCtx(prop, *seed, *tier, *shard, *nshards, *only, *after, *out)
	if err != nil {
		fmt.Fprintln(os.Stderr, err)
		os.Exit(2)
	}
	run(ctx)
	ctx.FlushCounts()
	ctx.Close()
}
