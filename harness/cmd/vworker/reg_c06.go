//go:build pC06

package main

import "verifharness/c06"

func init() { props["C06"] = c06.Run }
