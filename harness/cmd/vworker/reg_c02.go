//go:build pC02

package main

import "verifharness/c02"

func init() { props["C02"] = c02.Run }
