//go:build pC12

package main

import "verifharness/c12"

func init() { props["C12"] = c12.Run }
