//go:build pC20

package main

import "verifharness/c20"

func init() { props["C20"] = c20.Run }
