//go:build pC16

package main

import "verifharness/c16"

func init() { props["C16"] = c16.Run }
