//go:build pC19

package main

import "verifharness/c19"

func init() { props["C19"] = c19.Run }
