//go:build pC10

package main

import "verifharness/c10"

func init() { props["C10"] = c10.Run }
