//go:build pC04

package main

import "verifharness/c04"

func init() { props["C04"] = c04.Run }
