//go:build pC13

package main

import "verifharness/c13"

func init() { props["C13"] = c13.Run }
