package c18

import (
	"bytes"
	"compress/gzip"
	"fmt"
	"os"
	"path/filepath"
	"strconv"
	"strings"

	ad "github.com/pbenner/autodiff"

	"verifharness/internal/fw"
	"verifharness/internal/gen"
	"verifharness/internal/prng"
	"verifharness/internal/snap"
)

var tableKinds = []string{"dense-vector", "sparse-vector", "dense-matrix", "sparse-matrix"}

var tableOps = []string{"truncate", "delete-line", "duplicate-line", "delete-field", "duplicate-field", "garbage-field", "swap-lines", "empty",
	"newlines-only", "missing-header", "index>=length", "negative-index", "header-negative", "header-smaller", "header-garbage", "ragged-row",
	"gzip-truncated", "gzip-garbage", "flip-byte", "duplicate-index", "whitespace-line"}

var garbageFields = []string{"abc", "1e", "--1", "1,5", "0x", "1.2.3", "", "-", "+", "e5", "1e999", "9223372036854775808", "1.5", "nan?", "\x00", "½"}

func splitLines(s string) []string {
	l := strings.Split(s, "\n")
	for len(l) > 0 && l[len(l)-1] == "" {
		l = l[:len(l)-1]
	}
	return l
}

func mutateTable(text string, kind, op string, r *prng.Rand) (out []byte, applied bool) {
	lines := splitLines(text)
	join := func(l []string) []byte { return []byte(strings.Join(l, "\n") + "\n") }
	sparse := strings.HasPrefix(kind, "sparse")
	pickLine := func(from int) (int, bool) {
		if len(lines) <= from {
			return 0, false
		}
		return r.Range(from, len(lines)-1), true
	}
	editField := func(from int, f func(fields []string) []string) ([]byte, bool) {
		i, ok := pickLine(from)
		if !ok {
			return nil, false
		}
		fields := strings.Fields(lines[i])
		if len(fields) == 0 {
			return nil, false
		}
		l := append([]string{}, lines...)
		l[i] = strings.Join(f(fields), " ")
		return join(l), true
	}
	switch op {
	case "truncate":
		if len(text) == 0 {
			return nil, false
		}
		return []byte(text[:r.Intn(len(text))]), true
	case "delete-line":
		i, ok := pickLine(0)
		if !ok {
			return nil, false
		}
		return join(append(append([]string{}, lines[:i]...), lines[i+1:]...)), true
	case "duplicate-line":
		i, ok := pickLine(0)
		if !ok {
			return nil, false
		}
		return join(append(append(append([]string{}, lines[:i+1]...), lines[i]), lines[i+1:]...)), true
	case "whitespace-line":
		i := r.Intn(len(lines) + 1)
		ws := r.Pick([]string{" ", "\t", "  ", " \t "})
		return join(append(append(append([]string{}, lines[:i]...), ws), lines[i:]...)), true
	case "swap-lines":
		if len(lines) < 2 {
			return nil, false
		}
		l := append([]string{}, lines...)
		i, j := r.Intn(len(l)), r.Intn(len(l))
		l[i], l[j] = l[j], l[i]
		return join(l), true
	case "delete-field":
		return editField(0, func(f []string) []string {
			i := r.Intn(len(f))
			return append(append([]string{}, f[:i]...), f[i+1:]...)
		})
	case "duplicate-field":
		return editField(0, func(f []string) []string {
			i := r.Intn(len(f))
			return append(append(append([]string{}, f[:i+1]...), f[i]), f[i+1:]...)
		})
	case "garbage-field":
		return editField(0, func(f []string) []string { f[r.Intn(len(f))] = r.Pick(garbageFields); return f })
	case "ragged-row":
		if kind != "dense-matrix" || len(lines) < 2 {
			return nil, false
		}
		return editField(0, func(f []string) []string {
			if r.Bool() && len(f) > 1 {
				return f[:len(f)-1]
			}
			return append(f, "1")
		})
	case "empty":
		return []byte{}, true
	case "newlines-only":
		return []byte("\n\n\n"), true
	case "missing-header":
		if !sparse || len(lines) < 2 {
			return nil, false
		}
		return join(lines[1:]), true
	case "index>=length", "negative-index", "duplicate-index":
		if !sparse || len(lines) < 2 {
			return nil, false
		}
		hdr := strings.Fields(lines[0])
		if op == "duplicate-index" {
			if len(lines) < 3 {
				return nil, false
			}
			i, j := r.Range(1, len(lines)-1), r.Range(1, len(lines)-1)
			if i == j {
				return nil, false
			}
			fi, fj := strings.Fields(lines[i]), strings.Fields(lines[j])
			if len(fi) < 2 || len(fj) < 2 {
				return nil, false
			}
			l := append([]string{}, lines...)
			l[i] = strings.Join(append(append([]string{}, fj[:len(fj)-1]...), fi[len(fi)-1]), " ")
			return join(l), true
		}
		return editField(1, func(f []string) []string {
			k := 0
			if kind == "sparse-matrix" && len(f) > 1 && r.Bool() {
				k = 1
			}
			if op == "negative-index" {
				f[k] = fmt.Sprint(-r.Range(1, 3))
			} else if k < len(hdr) {
				n, _ := strconv.Atoi(hdr[k])
				f[k] = fmt.Sprint(n + r.PickI([]int{0, 1, 5, 100}))
			}
			return f
		})
	case "header-negative", "header-smaller", "header-garbage":
		if !sparse || len(lines) < 1 {
			return nil, false
		}
		hdr := strings.Fields(lines[0])
		if len(hdr) == 0 {
			return nil, false
		}
		k := r.Intn(len(hdr))
		n, _ := strconv.Atoi(hdr[k])
		switch op {
		case "header-negative":
			hdr[k] = fmt.Sprint(-r.Range(1, 4))
			if len(hdr) == 2 && r.Bool() {
				hdr[0], hdr[1] = "-1", fmt.Sprint(-r.Range(1, 4))
			}
		case "header-smaller":
			if n <= 1 {
				return nil, false
			}
			hdr[k] = fmt.Sprint(r.Range(1, n-1))
		default:
			hdr[k] = r.Pick(garbageFields)
		}
		l := append([]string{}, lines...)
		l[0] = strings.Join(hdr, " ")
		return join(l), true
	case "flip-byte":
		if len(text) == 0 {
			return nil, false
		}
		d := []byte(text)
		d[r.Intn(len(d))] ^= byte(1 << r.Intn(8))
		return d, true
	case "gzip-truncated":
		var buf bytes.Buffer
		w := gzip.NewWriter(&buf)
		w.Write([]byte(text))
		w.Close()
		b := buf.Bytes()
		return b[:r.Range(2, len(b)-1)], true
	case "gzip-garbage":
		b := []byte{31, 139}
		for k := r.Range(0, 30); k > 0; k-- {
			b = append(b, byte(r.Intn(256)))
		}
		return b, true
	}
	return nil, false
}

func gunzip(b []byte) ([]byte, bool) {
	if len(b) < 2 || b[0] != 31 || b[1] != 139 {
		return b, true
	}
	zr, err := gzip.NewReader(bytes.NewReader(b))
	if err != nil {
		return nil, false
	}
	var out bytes.Buffer
	if _, err := out.ReadFrom(zr); err != nil {
		return nil, false
	}
	return out.Bytes(), true
}

// classifyTable names what is wrong with a table file, read the way a
// sequential reader of the format would.
func classifyTable(kind string, raw []byte) string {
	if len(raw) == 0 {
		return "empty"
	}
	text, ok := gunzip(raw)
	if !ok {
		return "broken-gzip"
	}
	var rows [][]string
	for _, l := range strings.Split(string(text), "\n") {
		if len(l) == 0 {
			continue
		}
		if len(strings.Fields(l)) == 0 {
			return "whitespace-only-line"
		}
		rows = append(rows, strings.Fields(l))
	}
	isInt := func(s string) (int, bool) { v, err := strconv.ParseInt(s, 10, 64); return int(v), err == nil }
	isNum := func(s string) bool { _, err := strconv.ParseFloat(s, 64); return err == nil }
	switch kind {
	case "dense-vector", "dense-matrix":
		cols := 0
		for _, f := range rows {
			if kind == "dense-matrix" {
				if cols == 0 {
					cols = len(f)
				}
				if len(f) != cols {
					return "ragged"
				}
			}
			for _, x := range f {
				if !isNum(x) {
					return "non-numeric-field"
				}
			}
		}
		if len(rows) == 0 {
			return "no-data"
		}
		return "well-formed"
	}
	nh := 1
	if kind == "sparse-matrix" {
		nh = 2
	}
	if len(rows) == 0 {
		return "no-data"
	}
	if len(rows[0]) != nh {
		return "bad-header"
	}
	dims := make([]int, nh)
	for k, x := range rows[0] {
		v, ok := isInt(x)
		if !ok {
			return "bad-header"
		}
		dims[k] = v
	}
	for _, f := range rows[1:] {
		if len(f) != nh+1 {
			return "bad-field-count"
		}
		for k := 0; k < nh; k++ {
			if _, ok := isInt(f[k]); !ok {
				return "non-numeric-field"
			}
		}
		if !isNum(f[nh]) {
			return "non-numeric-field"
		}
	}
	for _, d := range dims {
		if d < 0 {
			return "negative-size"
		}
	}
	seen := map[string]bool{}
	for _, f := range rows[1:] {
		key := strings.Join(f[:nh], ",")
		for k := 0; k < nh; k++ {
			if v, _ := isInt(f[k]); v < 0 || v >= dims[k] {
				return "invalid-index"
			}
		}
		if seen[key] {
			return "invalid-index"
		}
		seen[key] = true
	}
	return "well-formed"
}

func malformedTableCase(cs *fw.Case) {
	const monitor = "malformed.table"
	r := cs.R
	i := cs.Index
	t := gen.Types[i%9]
	kind := tableKinds[(i/9)%4]
	op := tableOps[(i/36)%len(tableOps)]
	dir := scratchDir(cs)
	defer removeScratch(dir)
	path := filepath.Join(dir, "in.table")
	var obj any
	var err error
	if p := fw.Call(func() {
		obj = validObject(kind, t, r)
		err = obj.(exporter).Export(path)
	}); p != nil || err != nil {
		cs.Skip("source-not-exportable")
		return
	}
	typ := typeName(obj)
	valid, _ := os.ReadFile(path)
	mut, ok := mutateTable(string(valid), kind, op, r)
	if !ok {
		op = r.Pick([]string{"truncate", "delete-line", "duplicate-line", "delete-field", "duplicate-field", "garbage-field", "flip-byte"})
		mut, ok = mutateTable(string(valid), kind, op, r)
		if !ok {
			cs.Skip("mutation-not-applicable")
			return
		}
	}
	gz := false
	if !strings.HasPrefix(op, "gzip") && r.Chance(0.25) {
		gz = true
		var buf bytes.Buffer
		w := gzip.NewWriter(&buf)
		w.Write(mut)
		w.Close()
		mut = buf.Bytes()
	}
	if err := os.WriteFile(path, mut, 0o644); err != nil {
		panic(err)
	}
	class := classifyTable(kind, mut)
	target, get := decodeTarget(kind, t, r)
	p := fw.Call(func() { err = target.(importer).Import(path) })
	cs.Cover(monitor + ":op:" + op)
	cs.Cover(monitor + ":class:" + class)
	cs.Cover(monitor + ":decoder:" + typ)
	if gz {
		cs.Cover(monitor + ":gzip")
	}
	cs.Cover("set:" + monitor + "-cells:" + typ + "/" + class)
	shown := mut
	if u, ok := gunzip(mut); ok {
		shown = u
	}
	if class != "well-formed" {
		cs.Nontrivial(typ, string(mut))
	}
	cs.Sample(map[string]any{"decoder": typ + ".Import", "mutation": op, "class": class, "gzip": gz, "file": clip(string(shown), 300)})
	w := map[string]any{"decoder": typ + ".Import", "mutation": op, "class": class, "gzip": gz, "file": clip(string(shown), 2000)}
	switch {
	case p != nil:
		cs.Cover(monitor + ":outcome:panic")
		w["outcome"] = "panic"
		cs.Violation(sig(monitor, typ+".Import", class, "not-rejected"), "reader panics instead of returning an error: "+p.Msg+" @ "+p.Frame, w)
	case err != nil:
		cs.Cover(monitor + ":outcome:error")
	default:
		if msg := checkDecoded(get()); msg != "" {
			cs.Cover(monitor + ":outcome:corrupt")
			w["outcome"] = "corrupt"
			cs.Violation(sig(monitor, typ+".Import", class, "not-rejected"), "reader accepts the file without error but the object is inconsistent: "+msg, w)
		} else {
			cs.Cover(monitor + ":outcome:accepted-consistent")
		}
	}
}

/* hand-written variants of a valid table file: the same content with and
 * without a final newline, with CRLF line ends, trailing blank lines, blanks at
 * line ends, tabs as separators - all must read back as the canonical file does
 * -------------------------------------------------------------------------- */

var tableVariants = []string{"no-final-newline", "crlf", "crlf+no-final-newline", "trailing-blank-lines", "trailing-spaces", "trailing-spaces+no-final-newline",
	"leading-spaces", "tab-separated", "double-space-separated", "blank-lines-between", "final-newline-only-spaces"}

func tableVariant(canonical string, variant string, r *prng.Rand) string {
	lines := splitLines(canonical)
	body := strings.Join(lines, "\n")
	switch variant {
	case "no-final-newline":
		return body
	case "crlf":
		return strings.Join(lines, "\r\n") + "\r\n"
	case "crlf+no-final-newline":
		return strings.Join(lines, "\r\n")
	case "trailing-blank-lines":
		return body + "\n" + strings.Repeat("\n", r.Range(1, 3))
	case "trailing-spaces":
		return strings.Join(lines, " \n") + " \n"
	case "trailing-spaces+no-final-newline":
		return strings.Join(lines, " \n") + "  "
	case "leading-spaces":
		return "  " + strings.Join(lines, "\n  ") + "\n"
	case "tab-separated":
		return strings.ReplaceAll(body, " ", "\t") + "\n"
	case "double-space-separated":
		return strings.ReplaceAll(body, " ", "  ") + "\n"
	case "blank-lines-between":
		return strings.Join(lines, "\n\n") + "\n"
	case "final-newline-only-spaces":
		return body + "\n   \n"
	}
	return canonical
}

func tableVariantCase(cs *fw.Case) {
	const monitor = "table.variants"
	r := cs.R
	i := cs.Index
	t := gen.Types[i%9]
	kind := tableKinds[(i/9)%4]
	variant := tableVariants[(i/36)%len(tableVariants)]
	gz := (i/(36*len(tableVariants)))%3 == 2
	dir := scratchDir(cs)
	defer removeScratch(dir)
	path := filepath.Join(dir, "canonical.table")
	var obj any
	var err error
	if p := fw.Call(func() {
		obj = validObject(kind, t, r)
		err = obj.(exporter).Export(path)
	}); p != nil || err != nil {
		cs.Skip("source-not-exportable")
		return
	}
	typ := typeName(obj)
	canonical, _ := os.ReadFile(path)
	if len(splitLines(string(canonical))) == 0 {
		cs.Skip("empty-table")
		return
	}
	// reference: what the reader makes of the writer's own file
	ref, getRef := decodeTarget(kind, t, r)
	if p := fw.Call(func() { err = ref.(importer).Import(path) }); p != nil || err != nil {
		cs.Skip("canonical-file-not-importable")
		return
	}
	isMat := strings.HasSuffix(kind, "matrix")
	var s0v, s0m any
	if isMat {
		s, p := snapMatrix(getRef().(ad.Matrix))
		if p != nil {
			cs.Skip("canonical-object-unreadable")
			return
		}
		s0m = s
	} else {
		s, p := snapVector(getRef().(ad.Vector))
		if p != nil {
			cs.Skip("canonical-object-unreadable")
			return
		}
		s0v = s
	}
	text := tableVariant(string(canonical), variant, r)
	data := []byte(text)
	if gz {
		var buf bytes.Buffer
		w := gzip.NewWriter(&buf)
		w.Write(data)
		w.Close()
		data = buf.Bytes()
	}
	vpath := filepath.Join(dir, "variant.table")
	if err := os.WriteFile(vpath, data, 0o644); err != nil {
		panic(err)
	}
	cs.Cover(monitor + ":" + typ)
	cs.Cover(monitor + ":variant:" + variant)
	if gz {
		cs.Cover(monitor + ":gzip")
	}
	cs.Cover("set:" + monitor + "-cells:" + typ + "/" + variant)
	cs.Nontrivial(typ, variant, text, gz)
	cs.Sample(map[string]any{"reader": typ + ".Import", "variant": variant, "gzip": gz, "file": clip(text, 300)})
	w := map[string]any{"reader": typ + ".Import", "variant": variant, "gzip": gz, "file": clip(text, 1500), "canonical": clip(string(canonical), 1500)}
	target, get := decodeTarget(kind, t, r)
	storage := gen.Dense
	if strings.HasPrefix(kind, "sparse") {
		storage = gen.Sparse
	}
	o := cmpOpts{isInt: t.IsInt, bitExact: storage == gen.Dense}
	if p := fw.Call(func() { err = target.(importer).Import(vpath) }); p != nil {
		cs.Violation(sig(monitor, typ+".Import", variant, "any", "panic"), "reading an equivalent spelling of a valid table panics: "+p.Msg+" @ "+p.Frame, w)
		return
	}
	if err != nil {
		// the property promises no lenient parsing: answering an unusual spelling
		// with an error is allowed (counted), reading another object is not
		cs.Cover(monitor + ":rejected:" + variant + "/" + storage)
		return
	}
	cs.Cover(monitor + ":accepted:" + variant)
	var f *failure
	if isMat {
		f = compareMatrix(s0m.(snap.Mat), get().(ad.Matrix), t, o, storage == gen.Sparse)
	} else {
		f = compareVector(s0v.(snap.Vec), get().(ad.Vector), t, o, storage == gen.Sparse)
	}
	if f != nil {
		cs.Violation(sig(monitor, typ+".Import", variant, "any", f.Kind), "the object read from an equivalent spelling differs from the one read from the canonical file: "+f.Detail, w)
	}
}

/* export histories: the same path is written two or three times with objects
 * of different sizes, kinds and element types (larger first), then imported:
 * the file must hold the last object only
 * -------------------------------------------------------------------------- */

func sizedObject(kind string, t gen.ElemType, r *prng.Rand, big bool) any {
	lo, hi := 1, 3
	if big {
		lo, hi = 6, 12
	}
	switch kind {
	case "dense-vector":
		v := gen.NullVector(t, gen.Dense, r.Range(lo, hi))
		fillVector(v, t, r, 0.2, false)
		return v
	case "sparse-vector":
		v := gen.NullVector(t, gen.Sparse, r.Range(lo, hi))
		fillVector(v, t, r, 0.3, false)
		setValue(v.At(0), t, drawNonZero(t, r))
		return v
	case "dense-matrix":
		m := gen.NullMatrix(t, gen.Dense, r.Range(lo, hi), r.Range(lo, hi))
		fillMatrix(m, t, r, 0.2, false)
		return m
	}
	m := gen.NullMatrix(t, gen.Sparse, r.Range(lo, hi), r.Range(lo, hi))
	fillMatrix(m, t, r, 0.3, false)
	setValue(m.At(0, 0), t, drawNonZero(t, r))
	return m
}

func tableHistoryCase(cs *fw.Case) {
	const monitor = "table.history"
	r := cs.R
	i := cs.Index
	t := gen.Types[i%9]
	kind := tableKinds[(i/9)%4]
	mode := []string{"larger-then-smaller", "other-kind-then-this", "other-type-then-this", "three-writes"}[(i/36)%4]
	dir := scratchDir(cs)
	defer removeScratch(dir)
	path := filepath.Join(dir, "history.table")
	var objs []any
	if p := fw.Call(func() {
		switch mode {
		case "larger-then-smaller":
			objs = []any{sizedObject(kind, t, r, true), sizedObject(kind, t, r, false)}
		case "other-kind-then-this":
			objs = []any{sizedObject(tableKinds[r.Intn(4)], t, r, true), sizedObject(kind, t, r, false)}
		case "other-type-then-this":
			objs = []any{sizedObject(kind, gen.Types[r.Intn(9)], r, true), sizedObject(kind, t, r, false)}
		default:
			objs = []any{sizedObject(tableKinds[r.Intn(4)], gen.Types[r.Intn(9)], r, true), sizedObject(kind, t, r, true), sizedObject(kind, t, r, false)}
		}
	}); p != nil {
		cs.Skip("source-construction-panics")
		return
	}
	last := objs[len(objs)-1]
	typ := typeName(last)
	for k, o := range objs {
		var err error
		if p := fw.Call(func() { err = o.(exporter).Export(path) }); p != nil || err != nil {
			if k == len(objs)-1 {
				msg := "panics"
				if err != nil {
					msg = err.Error()
				}
				cs.Violation(sig(monitor, typ+".Export", mode, "any", "error:export"), "Export over an existing file fails: "+msg, map[string]any{"writer": typ, "mode": mode})
			} else {
				cs.Skip("source-not-exportable")
			}
			return
		}
	}
	file, _ := os.ReadFile(path)
	isMat := strings.HasSuffix(kind, "matrix")
	storage := gen.Dense
	if strings.HasPrefix(kind, "sparse") {
		storage = gen.Sparse
	}
	o := cmpOpts{isInt: t.IsInt, bitExact: storage == gen.Dense}
	cs.Cover(monitor + ":" + typ + ".Export")
	cs.Cover(monitor + ":mode:" + mode)
	cs.Cover("set:" + monitor + "-cells:" + typ + "/" + mode)
	cs.Nontrivial(typ, mode, string(file))
	cs.Sample(map[string]any{"writer": typ + ".Export", "mode": mode, "writes": len(objs), "file": clip(string(file), 300)})
	w := map[string]any{"writer": typ + ".Export", "mode": mode, "earlier_objects": safeString(objs[:len(objs)-1]), "last_object": safeString(last), "file": clip(string(file), 1500)}
	target, get := decodeTarget(kind, t, r)
	var err error
	if p := fw.Call(func() { err = target.(importer).Import(path) }); p != nil {
		cs.Violation(sig(monitor, typ+".Export", mode, "any", "panic:import"), "importing the file after the last Export panics: "+p.Msg+" @ "+p.Frame, w)
		return
	}
	if err != nil {
		cs.Violation(sig(monitor, typ+".Export", mode, "any", "error:import"), "the file written by the last Export cannot be imported: "+err.Error(), w)
		return
	}
	var f *failure
	if isMat {
		s0, p := snapMatrix(last.(ad.Matrix))
		if p != nil {
			return
		}
		f = compareMatrix(s0, get().(ad.Matrix), t, o, storage == gen.Sparse)
	} else {
		s0, p := snapVector(last.(ad.Vector))
		if p != nil {
			return
		}
		f = compareVector(s0, get().(ad.Vector), t, o, storage == gen.Sparse)
	}
	if f != nil {
		cs.Violation(sig(monitor, typ+".Export", mode, "any", f.Kind), "after writing several objects to the same path the file does not hold the last one: "+f.Detail, w)
	}
}
