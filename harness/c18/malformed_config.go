package c18

import (
	"bytes"
	"encoding/json"
	"fmt"
	"reflect"
	"sort"
	"strings"

	ad "github.com/pbenner/autodiff"
	st "github.com/pbenner/autodiff/statistics"

	"verifharness/c18/distcat"
	"verifharness/internal/fw"
	"verifharness/internal/prng"
)

var configOps = []string{"parameters-shorter", "parameters-empty", "parameters-null", "parameters-dropped", "parameter-wrong-type", "parameter-null",
	"named-field-dropped", "named-field-wrong-type", "named-list-shorter", "named-int-changed", "state-out-of-range",
	"distributions-shorter", "distributions-empty", "distributions-dropped", "distributions-duplicated", "distribution-wrong-name", "nested-parameters-shorter",
	"name-unknown", "name-other-family", "name-wrong-type",
	"truncate", "delete-token", "duplicate-token", "garbage-token", "swap-tokens", "empty"}

var registeredNames = func() []string {
	var n []string
	for _, f := range distcat.Families {
		n = append(n, f.Name)
	}
	return n
}()

func keysOf(m map[string]any) []string {
	k := make([]string, 0, len(m))
	for x := range m {
		k = append(k, x)
	}
	sort.Strings(k)
	return k
}

// mutateConfig applies one operator to a configuration document.
func mutateConfig(doc []byte, op string, r *prng.Rand) ([]byte, bool) {
	switch op {
	case "truncate", "delete-token", "duplicate-token", "garbage-token", "swap-tokens", "empty":
		return mutateText(doc, op, r), true
	}
	var root map[string]any
	d := json.NewDecoder(bytes.NewReader(doc))
	d.UseNumber()
	if err := d.Decode(&root); err != nil {
		return nil, false
	}
	plist, isList := root["Parameters"].([]any)
	pmap, isMap := root["Parameters"].(map[string]any)
	dists, _ := root["Distributions"].([]any)
	switch op {
	case "parameters-shorter":
		if !isList || len(plist) == 0 {
			return nil, false
		}
		root["Parameters"] = plist[:r.Intn(len(plist))]
	case "parameters-empty":
		if !isList {
			return nil, false
		}
		root["Parameters"] = []any{}
	case "parameters-null":
		if root["Parameters"] == nil {
			return nil, false
		}
		root["Parameters"] = nil
	case "parameters-dropped":
		if _, ok := root["Parameters"]; !ok || root["Parameters"] == nil {
			return nil, false
		}
		delete(root, "Parameters")
	case "parameter-wrong-type", "parameter-null":
		if !isList || len(plist) == 0 {
			return nil, false
		}
		if op == "parameter-null" {
			plist[r.Intn(len(plist))] = nil
		} else {
			plist[r.Intn(len(plist))] = []any{"x", true, []any{num(1)}, map[string]any{"a": num(1)}}[r.Intn(4)]
		}
	case "named-field-dropped", "named-field-wrong-type":
		if !isMap || len(pmap) == 0 {
			return nil, false
		}
		k := r.Pick(keysOf(pmap))
		if op == "named-field-dropped" {
			delete(pmap, k)
		} else {
			pmap[k] = []any{"x", true, num(3), []any{"a"}, map[string]any{}, nil, []any{nil}}[r.Intn(7)]
		}
	case "named-list-shorter":
		if !isMap {
			return nil, false
		}
		var cand []string
		for _, k := range keysOf(pmap) {
			if a, ok := pmap[k].([]any); ok && len(a) > 0 {
				cand = append(cand, k)
			}
		}
		if len(cand) == 0 {
			return nil, false
		}
		k := r.Pick(cand)
		a := pmap[k].([]any)
		pmap[k] = a[:r.Intn(len(a))]
	case "named-int-changed":
		if !isMap {
			return nil, false
		}
		if n, ok := asInt(pmap["N"]); ok {
			pmap["N"] = num(n + r.PickI([]int{-n - 1, -1, 1, 2, 7}))
		} else {
			return nil, false
		}
	case "state-out-of-range":
		if !isMap {
			return nil, false
		}
		k := r.Pick([]string{"StateMap", "StartStates", "FinalStates"})
		a, ok := pmap[k].([]any)
		if !ok || len(a) == 0 {
			pmap[k] = []any{num(r.PickI([]int{-2, 99}))}
		} else {
			a[r.Intn(len(a))] = num(r.PickI([]int{-2, 99, 1000}))
		}
	case "distributions-shorter":
		if len(dists) == 0 {
			return nil, false
		}
		root["Distributions"] = dists[:r.Intn(len(dists))]
	case "distributions-empty":
		if len(dists) == 0 {
			return nil, false
		}
		root["Distributions"] = []any{}
	case "distributions-dropped":
		if len(dists) == 0 {
			return nil, false
		}
		delete(root, "Distributions")
	case "distributions-duplicated":
		if len(dists) == 0 {
			return nil, false
		}
		root["Distributions"] = append(dists, dists[r.Intn(len(dists))])
	case "distribution-wrong-name", "nested-parameters-shorter":
		if len(dists) == 0 {
			return nil, false
		}
		c, ok := dists[r.Intn(len(dists))].(map[string]any)
		if !ok {
			return nil, false
		}
		if op == "distribution-wrong-name" {
			c["Name"] = r.Pick(append([]string{"no such distribution", ""}, registeredNames...))
		} else {
			a, ok := c["Parameters"].([]any)
			if !ok || len(a) == 0 {
				return nil, false
			}
			c["Parameters"] = a[:r.Intn(len(a))]
		}
	case "name-unknown":
		root["Name"] = r.Pick([]string{"no such distribution", "", "scalar:normal", "Scalar:Normal Distribution"})
	case "name-other-family":
		root["Name"] = r.Pick(registeredNames)
	case "name-wrong-type":
		root["Name"] = []any{num(1), nil, []any{"x"}, map[string]any{}}[r.Intn(4)]
	default:
		return nil, false
	}
	b, err := json.Marshal(root)
	return b, err == nil
}

// classifyConfig compares the mutated document with the valid one and names
// the part of the configuration that is damaged.
func classifyConfig(valid, mut []byte) string {
	var a, b any
	if json.Unmarshal(mut, &b) != nil {
		return "syntax"
	}
	json.Unmarshal(valid, &a)
	bm, ok := b.(map[string]any)
	if !ok {
		return "not-an-object"
	}
	am, _ := a.(map[string]any)
	for _, k := range []string{"Name", "Parameters", "Distributions"} {
		x, _ := fieldCI(am, k)
		y, _ := fieldCI(bm, k)
		if !reflect.DeepEqual(x, y) {
			return strings.ToLower(k)
		}
	}
	return "well-formed"
}

// nameTree is the nesting of family names of a configuration.
func nameTree(c st.ConfigDistribution) string {
	s := c.Name + "("
	for _, d := range c.Distributions {
		s += nameTree(d) + ","
	}
	return s + ")"
}

// blame maps the library frame of a panic to the registered family whose code
// it is ("statistics/scalarDistribution.(*Mixture).GetParameters" ->
// "scalar:mixture distribution", reader): when a mutation renames a NESTED
// distribution, the decoder at fault is the one of the nested family, whatever
// wrapper it sits in.
func blame(frame string) (string, string) {
	i := strings.Index(frame, "Distribution.(*")
	if i < 0 {
		return "", ""
	}
	j := strings.LastIndex(frame[:i], "/")
	pkg := frame[j+1 : i+len("Distribution")]
	rest := frame[i+len("Distribution.(*"):]
	k := strings.Index(rest, ")")
	if k < 0 {
		return "", ""
	}
	want := "*" + pkg + "." + rest[:k]
	var names []string
	kind := ""
	for n, x := range st.ScalarPdfRegistry {
		if reflect.TypeOf(x).String() == want {
			names, kind = append(names, n), "Scalar"
		}
	}
	for n, x := range st.VectorPdfRegistry {
		if reflect.TypeOf(x).String() == want {
			names, kind = append(names, n), "Vector"
		}
	}
	for n, x := range st.MatrixPdfRegistry {
		if reflect.TypeOf(x).String() == want {
			names, kind = append(names, n), "Matrix"
		}
	}
	if len(names) != 1 {
		return "", ""
	}
	return names[0], "Import" + kind + "PdfConfig"
}

func shapeOf(d any) string {
	switch x := d.(type) {
	case interface{ Dims() (int, int) }:
		var r, c int
		if p := fw.Call(func() { r, c = x.Dims() }); p != nil {
			return "?"
		}
		return fmt.Sprint(r, "x", c)
	case interface{ Dim() int }:
		var n int
		if p := fw.Call(func() { n = x.Dim() }); p != nil {
			return "?"
		}
		return fmt.Sprint(n)
	}
	return ""
}

func malformedConfigCase(cs *fw.Case) {
	const monitor = "malformed.config"
	r := cs.R
	// registered families only: the readers under test are Import*PdfConfig
	var fams []distcat.Family
	for _, f := range distcat.Families {
		fams = append(fams, f)
	}
	fam := fams[cs.Index%len(fams)]
	op := configOps[(cs.Index/len(fams))%len(configOps)]
	t := ad.Float64Type
	in, err := distcat.Generate(fam, r, t)
	if err != nil {
		cs.Skip("instance-not-constructible")
		return
	}
	var buf bytes.Buffer
	var werr error
	if p := fw.Call(func() { werr = in.Dist.ExportConfig().WriteJson(&buf) }); p != nil || werr != nil {
		cs.Skip("source-not-exportable")
		return
	}
	valid := buf.Bytes()
	mut, ok := mutateConfig(valid, op, r)
	if !ok {
		op = r.Pick([]string{"truncate", "delete-token", "duplicate-token", "garbage-token", "swap-tokens"})
		mut, _ = mutateConfig(valid, op, r)
	}
	class := classifyConfig(valid, mut)
	cs.Cover(monitor + ":op:" + op)
	cs.Cover(monitor + ":class:" + class)
	cs.Cover(monitor + ":family:" + in.Family)
	cs.Cover("set:" + monitor + "-cells:" + in.Family + "/" + class)
	if class != "well-formed" {
		cs.Nontrivial(in.Family, string(mut))
	}
	cs.Sample(map[string]any{"family": in.Family, "mutation": op, "class": class, "document": clip(string(mut), 300)})
	w := map[string]any{"family": in.Family, "mutation": op, "class": class, "document": clip(string(mut), 2500)}
	config := st.ConfigDistribution{}
	var rerr error
	if p := fw.Call(func() { rerr = config.ReadJson(bytes.NewReader(mut)) }); p != nil {
		w["outcome"] = "panic"
		cs.Violation(sig(monitor, "ConfigDistribution.ReadJson", class, "not-rejected"), "ReadJson panics: "+p.Msg+" @ "+p.Frame, w)
		return
	}
	if rerr != nil {
		cs.Cover(monitor + ":outcome:error")
		return
	}
	var dec st.ConfigurableDistribution
	var ierr error
	newZero := func() st.ConfigurableDistribution {
		return reflect.New(reflect.TypeOf(in.Dist).Elem()).Interface().(st.ConfigurableDistribution)
	}
	reader := "Import" + strings.Title(in.Kind) + "PdfConfig"
	if !in.Registered {
		reader = "ImportConfig"
	}
	routine := in.Family + "/" + reader
	if class == "name" {
		// the registry dispatches on the (changed) name: the decoder that runs is
		// the one of the named family, and what it sees are foreign parameters
		var m map[string]any
		if json.Unmarshal(mut, &m) == nil {
			if n, ok := m["Name"].(string); ok && in.Registered {
				routine, class = n+"/"+reader, "parameters"
			}
		}
	}
	if p := fw.Call(func() { dec, ierr = distcat.Import(in, config, t, newZero) }); p != nil {
		cs.Cover(monitor + ":outcome:panic")
		w["outcome"] = "panic"
		if strings.HasPrefix(p.Frame, "statistics.ConfigDistribution.") {
			// the shared parameter-coercion layer (statistics/config.go) panics: one
			// root cause whatever family is being read
			routine, class = p.Frame, "any"
		}
		cs.Violation(sig(monitor, routine, class, "not-rejected"), "reader panics instead of returning an error: "+p.Msg+" @ "+p.Frame, w)
		return
	}
	if ierr != nil {
		cs.Cover(monitor + ":outcome:error")
		return
	}
	// accepted: the object must be usable
	msg := ""
	if p := fw.Call(func() {
		if _, pp := getParams(dec); pp != nil {
			msg = "GetParameters panics: " + pp.Msg + " @ " + pp.Frame
			return
		}
		ec := dec.ExportConfig()
		if reflect.TypeOf(dec) != reflect.TypeOf(in.Dist) || nameTree(ec) != nameTree(in.Dist.ExportConfig()) {
			return // another family was named (here or in a nested distribution): the probes do not apply
		}
		// a consistent distribution of another shape (fewer categories, other
		// dimension) is a legitimate reading of the document; the probes of the
		// original lie outside its domain and what LogPdf does there is not
		// this property's subject
		p0, _ := getParams(in.Dist)
		p1, _ := getParams(dec)
		if len(p0) != len(p1) || shapeOf(dec) != shapeOf(in.Dist) {
			return
		}
		for _, pr := range in.Probes {
			if _, err := distcat.LogPdf(dec, pr, t); err != nil {
				continue
			}
		}
	}); p != nil {
		msg = "using the accepted distribution panics: " + p.Msg + " @ " + p.Frame
	}
	if msg != "" {
		cs.Cover(monitor + ":outcome:corrupt")
		w["outcome"] = "corrupt"
		// only when that family is really named by a nested distribution of the
		// document (Chmm / Hhmm run the code of the embedded Hmm themselves)
		if fam, rd := blame(msg); fam != "" && fam != in.Family && class != "parameters" && bytes.Contains(mut, []byte(`"`+fam+`"`)) {
			w["outer_family"] = in.Family
			routine, class = fam+"/"+rd, "as-nested-distribution"
		}
		cs.Violation(sig(monitor, routine, class, "not-rejected"), "reader accepts the configuration without error but the distribution is unusable: "+msg, w)
		return
	}
	cs.Cover(monitor + ":outcome:accepted-consistent")
	_ = fmt.Sprint
}
