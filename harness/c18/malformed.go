package c18

import (
	"bytes"
	"encoding/json"
	"fmt"
	"sort"
	"strconv"
	"strings"

	ad "github.com/pbenner/autodiff"

	"verifharness/internal/fw"
	"verifharness/internal/gen"
	"verifharness/internal/prng"
)

// readCap bounds the number of element reads spent on one decoded object.
const readCap = 20000

var decoderKinds = []string{"scalar", "dense-vector", "sparse-vector", "dense-matrix", "sparse-matrix"}

/* valid documents
 * -------------------------------------------------------------------------- */

func validObject(kind string, t gen.ElemType, r *prng.Rand) any {
	switch kind {
	case "scalar":
		s := ad.NewScalar(t.T, 0)
		setValue(s, t, drawValue(t, r))
		if t.IsReal {
			setDerivs(s, t, r.Pick(derivClasses), r)
		}
		return s
	case "dense-vector":
		v := gen.NullVector(t, gen.Dense, r.Range(1, 5))
		fillVector(v, t, r, 0.2, true)
		return v
	case "sparse-vector":
		v := gen.NullVector(t, gen.Sparse, r.Range(2, 9))
		fillVector(v, t, r, 0.5, false)
		setValue(v.At(r.Intn(v.Dim())), t, drawNonZero(t, r))
		setValue(v.At(r.Intn(v.Dim())), t, drawNonZero(t, r))
		return v
	case "dense-matrix":
		m := gen.NullMatrix(t, gen.Dense, r.Range(1, 3), r.Range(1, 3))
		fillMatrix(m, t, r, 0.2, true)
		return m
	default:
		m := gen.NullMatrix(t, gen.Sparse, r.Range(1, 4), r.Range(1, 4))
		fillMatrix(m, t, r, 0.5, false)
		rows, cols := m.Dims()
		setValue(m.At(r.Intn(rows), r.Intn(cols)), t, drawNonZero(t, r))
		setValue(m.At(r.Intn(rows), r.Intn(cols)), t, drawNonZero(t, r))
		return m
	}
}

func decodeTarget(kind string, t gen.ElemType, r *prng.Rand) (any, func() any) {
	switch kind {
	case "scalar":
		p, get := scalarTarget(t, false, r)
		return p, func() any { return get() }
	case "dense-vector":
		p, get := freshVector(t, gen.Dense)
		return p, func() any { return get() }
	case "sparse-vector":
		p, get := freshVector(t, gen.Sparse)
		return p, func() any { return get() }
	case "dense-matrix":
		p, get := freshMatrix(t, gen.Dense)
		return p, func() any { return get() }
	default:
		p, get := freshMatrix(t, gen.Sparse)
		return p, func() any { return get() }
	}
}

/* JSON tokens
 * -------------------------------------------------------------------------- */

func jsonTokens(b []byte) []string {
	var toks []string
	i := 0
	for i < len(b) {
		c := b[i]
		switch {
		case c == ' ' || c == '\n' || c == '\t' || c == '\r':
			i++
		case strings.IndexByte("{}[],:", c) >= 0:
			toks = append(toks, string(c))
			i++
		case c == '"':
			j := i + 1
			for j < len(b) && b[j] != '"' {
				if b[j] == '\\' {
					j++
				}
				j++
			}
			if j >= len(b) {
				j = len(b) - 1
			}
			toks = append(toks, string(b[i:j+1]))
			i = j + 1
		default:
			j := i
			for j < len(b) && strings.IndexByte("{}[],: \n\t\r\"", b[j]) < 0 {
				j++
			}
			toks = append(toks, string(b[i:j]))
			i = j
		}
	}
	return toks
}

var garbageTokens = []string{"abc", "1e", "--1", "\"x\"", "null", "true", "{}", "[]", "1.5", "-1", "1e999", "0x10", "+1", ".5", "[1]", "{\"Value\":1}", "\"\"", "NaN", "01"}

var textualOps = []string{"truncate", "delete-token", "duplicate-token", "garbage-token", "swap-tokens", "empty", "whitespace", "flip-byte", "insert-byte", "append-garbage"}
var structuralFor = map[string][]string{
	"scalar":        {"wrong-field-type", "drop-field", "hessian-ragged", "hessian-size-mismatch", "derivative-wrong-type", "hessian-only"},
	"dense-vector":  {"null-element", "array-for-number", "hessian-ragged", "hessian-size-mismatch", "derivative-wrong-type", "hessian-only"},
	"sparse-vector": {"index>=length", "negative-index", "duplicate-index", "length-mismatch", "negative-length", "length-smaller", "wrong-field-type", "drop-field", "null-element", "array-for-number"},
	"dense-matrix": {"dims-larger", "dims-smaller", "dims-negative", "dims-zero", "wrong-field-type", "drop-field", "null-element", "array-for-number",
		"hessian-ragged", "hessian-size-mismatch", "derivative-wrong-type", "hessian-only"},
	"sparse-matrix": {"index>=length", "negative-index", "duplicate-index", "length-mismatch", "dims-larger", "dims-smaller", "dims-negative", "dims-zero",
		"wrong-field-type", "drop-field", "null-element", "array-for-number"},
}

func mutateText(doc []byte, op string, r *prng.Rand) []byte {
	toks := jsonTokens(doc)
	join := func(t []string) []byte { return []byte(strings.Join(t, " ")) }
	pick := func() int { return r.Intn(len(toks)) }
	switch op {
	case "truncate":
		if len(doc) == 0 {
			return doc
		}
		return doc[:r.Intn(len(doc))]
	case "delete-token":
		if len(toks) == 0 {
			return doc
		}
		i := pick()
		return join(append(append([]string{}, toks[:i]...), toks[i+1:]...))
	case "duplicate-token":
		if len(toks) == 0 {
			return doc
		}
		i := pick()
		t := append([]string{}, toks[:i+1]...)
		if r.Bool() && toks[i] != "," {
			t = append(t, ",") // keeps arrays well-formed: [1,2] -> [1,1,2]
		}
		return join(append(t, toks[i:]...))
	case "garbage-token":
		if len(toks) == 0 {
			return doc
		}
		t := append([]string{}, toks...)
		t[pick()] = r.Pick(garbageTokens)
		return join(t)
	case "swap-tokens":
		if len(toks) < 2 {
			return doc
		}
		t := append([]string{}, toks...)
		i, j := pick(), pick()
		t[i], t[j] = t[j], t[i]
		return join(t)
	case "empty":
		return []byte{}
	case "whitespace":
		return []byte(" \n\t ")
	case "flip-byte":
		if len(doc) == 0 {
			return doc
		}
		d := append([]byte{}, doc...)
		d[r.Intn(len(d))] ^= byte(1 << r.Intn(8))
		return d
	case "insert-byte":
		d := append([]byte{}, doc...)
		i := r.Intn(len(d) + 1)
		return append(append(append([]byte{}, d[:i]...), byte(r.Intn(256))), d[i:]...)
	case "append-garbage":
		return append(append([]byte{}, doc...), []byte(r.Pick([]string{"]", "}", ",", " 1", "{}", "\x00", "x"}))...)
	}
	return doc
}

func num(x int) json.Number { return json.Number(fmt.Sprint(x)) }

func asInt(x any) (int, bool) {
	n, ok := x.(json.Number)
	if !ok {
		return 0, false
	}
	i, err := n.Int64()
	return int(i), err == nil
}

// mutateStruct applies a structural mutation to the parsed document; ok is
// false when the operator does not apply to this document.
func mutateStruct(doc []byte, kind string, op string, r *prng.Rand) ([]byte, bool) {
	var root any
	d := json.NewDecoder(bytes.NewReader(doc))
	d.UseNumber()
	if err := d.Decode(&root); err != nil {
		return nil, false
	}
	obj, isObj := root.(map[string]any)
	arr := func(k string) ([]any, bool) {
		if !isObj {
			return nil, false
		}
		a, ok := obj[k].([]any)
		return a, ok
	}
	// bound on flat indices / dimensions
	bound := func() (int, bool) {
		if !isObj {
			return 0, false
		}
		if l, ok := asInt(obj["Length"]); ok {
			return l, true
		}
		rr, ok1 := asInt(obj["Rows"])
		cc, ok2 := asInt(obj["Cols"])
		if ok1 && ok2 {
			return rr * cc, true
		}
		return 0, false
	}
	// the scalar element documents reachable from the root
	var scalarDocs func(x any) []map[string]any
	scalarDocs = func(x any) []map[string]any {
		var res []map[string]any
		switch y := x.(type) {
		case map[string]any:
			if _, ok := y["Value"]; ok {
				if _, isArr := y["Value"].([]any); !isArr {
					res = append(res, y)
				}
			}
			if vs, ok := y["Values"].([]any); ok {
				for _, e := range vs {
					res = append(res, scalarDocs(e)...)
				}
			}
		case []any:
			for _, e := range y {
				res = append(res, scalarDocs(e)...)
			}
		}
		return res
	}
	switch op {
	case "index>=length", "negative-index", "duplicate-index":
		idx, ok := arr("Index")
		n, ok2 := bound()
		if !ok || !ok2 || len(idx) == 0 {
			return nil, false
		}
		i := r.Intn(len(idx))
		switch op {
		case "index>=length":
			idx[i] = num(n + r.PickI([]int{0, 1, 7, 1000}))
		case "negative-index":
			idx[i] = num(-r.Range(1, 3))
		default:
			if len(idx) < 2 {
				return nil, false
			}
			j := (i + 1 + r.Intn(len(idx)-1)) % len(idx)
			idx[i] = idx[j]
		}
	case "length-mismatch":
		key := r.Pick([]string{"Index", "Value"})
		a, ok := arr(key)
		if !ok || len(a) == 0 {
			return nil, false
		}
		if r.Bool() {
			obj[key] = a[:len(a)-1]
		} else {
			obj[key] = append(a, a[r.Intn(len(a))])
		}
	case "negative-length", "length-smaller":
		if !isObj {
			return nil, false
		}
		l, ok := asInt(obj["Length"])
		if !ok {
			return nil, false
		}
		if op == "negative-length" {
			obj["Length"] = num(-r.Range(1, 5))
		} else {
			if l == 0 {
				return nil, false
			}
			obj["Length"] = num(r.Intn(l))
		}
	case "dims-larger", "dims-smaller", "dims-negative", "dims-zero":
		if !isObj {
			return nil, false
		}
		key := r.Pick([]string{"Rows", "Cols"})
		v, ok := asInt(obj[key])
		if !ok {
			return nil, false
		}
		switch op {
		case "dims-larger":
			obj[key] = num(v + r.PickI([]int{1, 2, 10, 97}))
		case "dims-smaller":
			if v <= 1 {
				return nil, false
			}
			obj[key] = num(r.Range(1, v-1))
		case "dims-negative":
			obj[key] = num(-r.Range(1, 4))
			if r.Bool() {
				obj["Rows"], obj["Cols"] = num(-1), num(-r.Range(1, 4)) // positive product
			}
		default:
			obj[key] = num(0)
		}
	case "wrong-field-type", "drop-field":
		if !isObj || len(obj) == 0 {
			return nil, false
		}
		keys := make([]string, 0, len(obj))
		for k := range obj {
			keys = append(keys, k)
		}
		sort.Strings(keys)
		k := r.Pick(keys)
		if op == "drop-field" {
			delete(obj, k)
		} else {
			obj[k] = []any{"x", json.Number("1.5"), map[string]any{}, []any{}, nil, true, []any{[]any{num(1)}}, json.Number("-1"), json.Number("3")}[r.Intn(9)]
		}
	case "null-element", "array-for-number":
		var a []any
		var set func([]any)
		if isObj {
			key := "Values"
			if _, ok := obj[key]; !ok {
				key = r.Pick([]string{"Value", "Index"})
			}
			aa, ok := arr(key)
			if !ok || len(aa) == 0 {
				return nil, false
			}
			a, set = aa, func(x []any) { obj[key] = x }
		} else if aa, ok := root.([]any); ok && len(aa) > 0 {
			a, set = aa, func(x []any) { root = x }
		} else {
			return nil, false
		}
		if op == "null-element" {
			a[r.Intn(len(a))] = nil
		} else {
			a[r.Intn(len(a))] = []any{num(1)}
		}
		set(a)
	case "hessian-ragged", "hessian-size-mismatch", "derivative-wrong-type", "hessian-only":
		docs := scalarDocs(root)
		var cand []map[string]any
		for _, sd := range docs {
			if _, ok := sd["Hessian"]; ok || op == "derivative-wrong-type" || op == "hessian-only" {
				if _, ok := sd["Derivative"]; ok || op != "derivative-wrong-type" {
					cand = append(cand, sd)
				}
			}
		}
		if len(cand) == 0 {
			return nil, false
		}
		sd := cand[r.Intn(len(cand))]
		switch op {
		case "hessian-ragged":
			h, ok := sd["Hessian"].([]any)
			if !ok || len(h) == 0 {
				return nil, false
			}
			row, _ := h[r.Intn(len(h))].([]any)
			i := r.Intn(len(h))
			if len(row) > 0 && r.Bool() {
				h[i] = row[:len(row)-1]
			} else {
				h[i] = []any{}
			}
		case "hessian-size-mismatch":
			h, ok := sd["Hessian"].([]any)
			if !ok || len(h) == 0 {
				return nil, false
			}
			if r.Bool() {
				sd["Hessian"] = h[:len(h)-1]
			} else if dv, ok := sd["Derivative"].([]any); ok {
				sd["Derivative"] = append(dv, num(1))
			} else {
				sd["Derivative"] = []any{num(1), num(2), num(3), num(4), num(5)}
			}
		case "derivative-wrong-type":
			sd["Derivative"] = []any{"x", map[string]any{}, json.Number("1"), []any{[]any{num(1)}}}[r.Intn(4)]
		default:
			delete(sd, "Derivative")
			sd["Hessian"] = []any{[]any{num(1), num(2)}, []any{num(3), num(4)}}
		}
	default:
		return nil, false
	}
	b, err := json.Marshal(root)
	if err != nil {
		return nil, false
	}
	return b, true
}

/* semantic class of a mutated document (what is wrong with it, seen with the
 * eyes of a sequential decoder of the format)
 * -------------------------------------------------------------------------- */

func isNum(x any) bool { _, ok := x.(json.Number); return ok }

func isIntNum(x any) (int, bool) {
	n, ok := x.(json.Number)
	if !ok {
		return 0, false
	}
	i, err := strconv.ParseInt(string(n), 10, 64)
	return int(i), err == nil
}

func classifyScalarDoc(x any) string {
	switch y := x.(type) {
	case nil:
		return "null"
	case json.Number:
		return ""
	case map[string]any:
		var d []any
		var h []any
		for k, v := range y {
			switch strings.ToLower(k) {
			case "value":
				if !isNum(v) && v != nil {
					return "value-not-a-number"
				}
			case "derivative":
				a, ok := v.([]any)
				if !ok && v != nil {
					return "derivative-not-an-array"
				}
				d = a
			case "hessian":
				a, ok := v.([]any)
				if !ok && v != nil {
					return "hessian-not-an-array"
				}
				h = a
			}
		}
		for _, e := range d {
			if !isNum(e) && e != nil {
				return "derivative-not-numeric"
			}
		}
		for _, row := range h {
			ra, ok := row.([]any)
			if !ok && row != nil {
				return "hessian-not-a-matrix"
			}
			for _, e := range ra {
				if !isNum(e) && e != nil {
					return "hessian-not-numeric"
				}
			}
		}
		if len(h) > 0 {
			n := len(h)
			// (a Hessian without gradient is what the encoder writes for a
			// scalar whose gradient is all zero: not a defect of the document)
			if len(d) > 0 && len(d) != n {
				return "hessian-shape"
			}
			for _, row := range h {
				if ra, _ := row.([]any); len(ra) != n {
					return "hessian-shape"
				}
			}
		}
		return ""
	}
	return "not-a-scalar"
}

func fieldCI(m map[string]any, name string) (any, bool) {
	// encoding/json matches field names case-insensitively; exact match wins
	if v, ok := m[name]; ok {
		return v, true
	}
	keys := make([]string, 0, len(m))
	for k := range m {
		keys = append(keys, k)
	}
	sort.Strings(keys)
	for _, k := range keys {
		if strings.EqualFold(k, name) {
			return m[k], true
		}
	}
	return nil, false
}

func intField(m map[string]any, name string) (int, string) {
	v, ok := fieldCI(m, name)
	if !ok || v == nil {
		return 0, ""
	}
	i, ok := isIntNum(v)
	if !ok {
		return 0, strings.ToLower(name) + "-not-an-integer"
	}
	return i, ""
}

func classifyIndexed(m map[string]any, bound int, isReal bool) string {
	iv, _ := fieldCI(m, "Index")
	vv, _ := fieldCI(m, "Value")
	ia, ok := iv.([]any)
	if !ok && iv != nil {
		return "index-not-an-array"
	}
	va, ok := vv.([]any)
	if !ok && vv != nil {
		return "value-not-an-array"
	}
	for _, e := range ia {
		if _, ok := isIntNum(e); !ok && e != nil {
			return "index-not-an-integer"
		}
	}
	for _, e := range va {
		if !isNum(e) && e != nil {
			return "value-not-numeric"
		}
	}
	if len(ia) != len(va) {
		return "length-mismatch"
	}
	if bound < 0 {
		return "negative-size"
	}
	seen := map[int]bool{}
	for _, e := range ia {
		i, _ := isIntNum(e)
		// negative, too large or repeated: the decoder hands the list
		// unchecked to a constructor (one missing validation)
		if i < 0 || i >= bound || seen[i] {
			return "invalid-index"
		}
		seen[i] = true
	}
	return ""
}

// classify names the defect of a mutated JSON document; "well-formed" when
// the reference reading finds nothing wrong with it.
func classify(kind string, isReal bool, text []byte) string {
	var root any
	dec := json.NewDecoder(bytes.NewReader(text))
	dec.UseNumber()
	if err := dec.Decode(&root); err != nil {
		return "syntax"
	}
	if _, err := dec.Token(); err == nil || err.Error() != "EOF" {
		return "syntax" // trailing data
	}
	cl := ""
	switch kind {
	case "scalar":
		cl = classifyScalarDoc(root)
		if !isReal && cl != "" && cl != "null" {
			cl = "not-a-number"
		}
	case "dense-vector":
		a, ok := root.([]any)
		if !ok {
			if root == nil {
				return "null"
			}
			return "not-an-array"
		}
		for _, e := range a {
			if c := classifyScalarDoc(e); c != "" {
				if !isReal && c != "null" {
					c = "not-a-number"
				}
				return "element:" + c
			}
		}
	case "sparse-vector":
		m, ok := root.(map[string]any)
		if !ok {
			if root == nil {
				return "null"
			}
			return "not-an-object"
		}
		n, c := intField(m, "Length")
		if c != "" {
			return c
		}
		cl = classifyIndexed(m, n, isReal)
	case "dense-matrix", "sparse-matrix":
		m, ok := root.(map[string]any)
		if !ok {
			if root == nil {
				return "null"
			}
			return "not-an-object"
		}
		rows, c := intField(m, "Rows")
		if c != "" {
			return c
		}
		cols, c := intField(m, "Cols")
		if c != "" {
			return c
		}
		if rows < 0 || cols < 0 {
			return "negative-size"
		}
		if kind == "sparse-matrix" {
			cl = classifyIndexed(m, rows*cols, isReal)
			break
		}
		vv, _ := fieldCI(m, "Values")
		va, ok := vv.([]any)
		if !ok && vv != nil {
			return "values-not-an-array"
		}
		for _, e := range va {
			if c := classifyScalarDoc(e); c != "" {
				if !isReal && c != "null" {
					c = "not-a-number"
				}
				return "element:" + c
			}
		}
		switch {
		case rows*cols > len(va):
			return "rows*cols>len(values)"
		case rows*cols < len(va):
			return "rows*cols<len(values)"
		}
	}
	if cl == "" {
		return "well-formed"
	}
	return cl
}

/* consistency of a decoded object: every in-range read succeeds, dimensions
 * are consistent, iteration stays in range, re-encoding does not panic
 * -------------------------------------------------------------------------- */

func checkDecoded(x any) string {
	msg := ""
	p := fw.Call(func() {
		switch o := x.(type) {
		case ad.Matrix:
			rows, cols := o.Dims()
			if rows < 0 || cols < 0 {
				msg = fmt.Sprintf("Dims() = %dx%d", rows, cols)
				return
			}
			reads := 0
			for i := 0; i < rows && reads < readCap; i++ {
				for j := 0; j < cols && reads < readCap; j++ {
					reads++
					s := o.ConstAt(i, j)
					readAll(s)
				}
			}
			if rows*cols <= readCap {
				if _, ok, p := matrixPattern(o); p != nil {
					msg = "iteration panics: " + p.Msg
					return
				} else if !ok {
					msg = "iterator leaves the index range or repeats a position"
					return
				}
				_ = o.String()
				json.Marshal(o) // must not panic (an error, e.g. for an infinite value, is fine)
			}
		case ad.Vector:
			n := o.Dim()
			if n < 0 {
				msg = fmt.Sprintf("Dim() = %d", n)
				return
			}
			for i := 0; i < n && i < readCap; i++ {
				readAll(o.ConstAt(i))
			}
			if n <= readCap {
				if _, ok, p := vectorPattern(o); p != nil {
					msg = "iteration panics: " + p.Msg
					return
				} else if !ok {
					msg = "iterator leaves the index range or repeats a position"
					return
				}
				_ = o.String()
				json.Marshal(o)
			}
		case ad.Scalar:
			readAll(o)
			_ = o.String()
			json.Marshal(o)
		}
	})
	if p != nil {
		return "in-range read panics: " + p.Msg + " @ " + p.Frame
	}
	return msg
}

func readAll(s ad.ConstScalar) {
	_ = s.GetFloat64()
	_ = s.GetInt64()
	n := s.GetN()
	if n < 0 {
		panic(fmt.Sprintf("GetN() = %d", n))
	}
	if n > 64 {
		n = 64
	}
	if s.GetOrder() >= 1 {
		for i := 0; i < n; i++ {
			_ = s.GetDerivative(i)
		}
	}
	if s.GetOrder() >= 2 {
		for i := 0; i < n; i++ {
			for j := 0; j < n; j++ {
				_ = s.GetHessian(i, j)
			}
		}
	}
}

/* the monitor
 * -------------------------------------------------------------------------- */

func malformedJSONCase(cs *fw.Case) {
	const monitor = "malformed.json"
	r := cs.R
	i := cs.Index
	t := gen.Types[i%9]
	kind := decoderKinds[(i/9)%5]
	sops := structuralFor[kind]
	// structural operators twice as often as textual ones
	nops := len(textualOps) + 2*len(sops)
	opi := (i / 45) % nops
	var obj any
	if p := fw.Call(func() { obj = validObject(kind, t, r) }); p != nil {
		cs.Skip("source-construction-panics")
		return
	}
	typ := typeName(obj)
	doc, f := marshal(obj)
	if f != nil {
		cs.Skip("source-not-encodable")
		return
	}
	var mut []byte
	op := ""
	if opi >= len(textualOps) {
		op = sops[(opi-len(textualOps))%len(sops)]
		var ok bool
		mut, ok = mutateStruct(doc, kind, op, r)
		if !ok {
			op = ""
		}
	}
	if op == "" {
		op = textualOps[r.Intn(len(textualOps))]
		if opi < len(textualOps) {
			op = textualOps[opi]
		}
		mut = mutateText(doc, op, r)
	}
	judgeJSON(cs, monitor, kind, t, typ, op, mut, r)
}

func judgeJSON(cs *fw.Case, monitor, kind string, t gen.ElemType, typ, op string, mut []byte, r *prng.Rand) {
	class := classify(kind, t.IsReal, mut)
	target, get := decodeTarget(kind, t, r)
	var err error
	p := fw.Call(func() { err = json.Unmarshal(mut, target) })
	cs.Cover(monitor + ":op:" + op)
	cs.Cover(monitor + ":class:" + class)
	cs.Cover(monitor + ":decoder:" + typ)
	cs.Cover("set:" + monitor + "-cells:" + typ + "/" + class)
	if class != "well-formed" {
		cs.Nontrivial(typ, string(mut))
	}
	cs.Sample(map[string]any{"decoder": typ + ".UnmarshalJSON", "mutation": op, "class": class, "document": clip(string(mut), 300)})
	w := map[string]any{"decoder": typ + ".UnmarshalJSON", "mutation": op, "class": class, "document": clip(string(mut), 2000)}
	switch {
	case p != nil:
		cs.Cover(monitor + ":outcome:panic")
		w["outcome"] = "panic"
		cs.Violation(sig(monitor, typ+".UnmarshalJSON", class, "not-rejected"), "decoder panics instead of returning an error: "+p.Msg+" @ "+p.Frame, w)
	case err != nil:
		cs.Cover(monitor + ":outcome:error")
	default:
		if msg := checkDecoded(get()); msg != "" {
			cs.Cover(monitor + ":outcome:corrupt")
			w["outcome"] = "corrupt"
			cs.Violation(sig(monitor, typ+".UnmarshalJSON", class, "not-rejected"), "decoder accepts the document without error but the object is inconsistent: "+msg, w)
		} else {
			cs.Cover(monitor + ":outcome:accepted-consistent")
		}
	}
}

// randomBytesCase feeds byte strings from the harness PRNG (thorough tier):
// pure noise, noise over a JSON alphabet, and spliced valid documents.
func randomBytesCase(cs *fw.Case) {
	const monitor = "malformed.bytes"
	r := cs.R
	i := cs.Index
	t := gen.Types[i%9]
	kind := decoderKinds[(i/9)%5]
	var mut []byte
	op := ""
	switch r.Intn(3) {
	case 0:
		op = "random-bytes"
		mut = make([]byte, r.Range(0, 40))
		for k := range mut {
			mut[k] = byte(r.Intn(256))
		}
	case 1:
		op = "random-json-alphabet"
		alpha := []string{"{", "}", "[", "]", ",", ":", "\"Index\"", "\"Value\"", "\"Length\"", "\"Rows\"", "\"Cols\"", "\"Values\"", "\"Derivative\"", "\"Hessian\"",
			"0", "1", "2", "-1", "3", "1.5", "null", "7", "1e3"}
		n := r.Range(1, 30)
		parts := make([]string, n)
		for k := range parts {
			parts[k] = r.Pick(alpha)
		}
		mut = []byte(strings.Join(parts, ""))
	default:
		op = "splice"
		var a, b []byte
		fw.Call(func() {
			a, _ = json.Marshal(validObject(kind, t, r))
			b, _ = json.Marshal(validObject(decoderKinds[r.Intn(5)], gen.Types[r.Intn(9)], r))
		})
		if len(a) == 0 || len(b) == 0 {
			cs.Skip("source-not-encodable")
			return
		}
		mut = append(append([]byte{}, a[:r.Intn(len(a))]...), b[r.Intn(len(b)):]...)
	}
	typ := typeName(validObject(kind, t, r))
	judgeJSON(cs, monitor, kind, t, typ, op, mut, r)
}
