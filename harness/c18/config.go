package c18

import (
	"bytes"
	"fmt"
	"math"
	"reflect"

	ad "github.com/pbenner/autodiff"
	st "github.com/pbenner/autodiff/statistics"

	"verifharness/c18/distcat"
	"verifharness/internal/fw"
)

// tolerance constants of the configuration round trip (printed in the
// evidence): parameters that the object keeps on a transformed scale (log
// probabilities, normalised) are exported on the plain scale and transformed
// again on import; exp, log and the log-sum normalisation of a group of n
// values lose at most kParam*(n+2) units of round-off of 1+|p|.
const (
	kParam  = 8.0
	kLogPdf = 16.0
	eps     = 0x1p-52
)

func paramTol(in *distcat.Instance, p float64) float64 {
	if !in.Transformed {
		return 0
	}
	if in.SolverEps > 0 {
		// the constrained transition matrix is normalised by a Newton iteration
		// that stops at this residual (generic/constrainedHmm.go: newton.Epsilon)
		return in.SolverEps * (1 + math.Abs(p))
	}
	return kParam * eps * float64(in.Group+2) * (1 + math.Abs(p))
}

func sameFloat(a, b, tol float64) bool {
	if math.IsNaN(a) || math.IsNaN(b) {
		return math.IsNaN(a) && math.IsNaN(b)
	}
	if math.IsInf(a, 0) || math.IsInf(b, 0) {
		return a == b
	}
	return math.Abs(a-b) <= tol
}

// fl makes a float list JSON-safe (non-finite values as strings).
func fl(v []float64) []any {
	r := make([]any, len(v))
	for i, x := range v {
		if math.IsNaN(x) || math.IsInf(x, 0) {
			r[i] = fmt.Sprint(x)
		} else {
			r[i] = x
		}
	}
	return r
}

func getParams(d any) (v []float64, p *fw.Panic) {
	p = fw.Call(func() {
		x := d.(interface{ GetParameters() ad.Vector }).GetParameters()
		v = make([]float64, x.Dim())
		for i := range v {
			v[i] = x.ConstAt(i).GetFloat64()
		}
	})
	return
}

func configCase(cs *fw.Case) {
	const monitor = "config.dist"
	r := cs.R
	fam := distcat.Families[cs.Index%len(distcat.Families)]
	t := ad.Float64Type
	if (cs.Index/len(distcat.Families))%4 == 3 {
		t = ad.Real64Type
	}
	in, err := distcat.Generate(fam, r, t)
	if err != nil {
		cs.Skip("instance-not-constructible")
		cs.Cover(monitor + ":not-constructible:" + fam.Name)
		return
	}
	cs.Cover(monitor + ":family:" + in.Family)
	cs.Cover("set:config-cells:" + in.Family + "/" + in.Variant)
	tn := "Float64"
	if t == ad.Real64Type {
		tn = "Real64"
	}
	cs.Cover(monitor + ":type:" + tn)
	w := map[string]any{"family": in.Family, "variant": in.Variant, "go_type": fmt.Sprintf("%T", in.Dist), "scalar_type": tn}
	fail := func(kind, detail string) {
		cs.Violation(sig(monitor, in.Family, in.Variant, kind), detail, w)
	}
	// reference observations on the original
	p0, pp := getParams(in.Dist)
	if pp != nil {
		cs.Skip("source-read-panics")
		return
	}
	w["parameters"] = fl(p0)
	for _, x := range p0 {
		if math.IsNaN(x) {
			// a NaN parameter is not a value the property speaks about (it comes out
			// of the hierarchical normalisation of matrices with zero cells)
			cs.Skip("source-has-NaN-parameters")
			return
		}
	}
	type obs struct {
		v   float64
		err string
	}
	ref := make([]obs, len(in.Probes))
	for i, pr := range in.Probes {
		var o obs
		if p := fw.Call(func() {
			v, err := distcat.LogPdf(in.Dist, pr, t)
			o.v = v
			if err != nil {
				o.err = "error"
			}
		}); p != nil {
			o.err = "panic"
		}
		ref[i] = o
	}
	// export -> JSON -> import
	var config st.ConfigDistribution
	if p := fw.Call(func() { config = in.Dist.ExportConfig() }); p != nil {
		fail("panic:export", "ExportConfig panics: "+p.Msg+" @ "+p.Frame)
		return
	}
	var buf bytes.Buffer
	var werr error
	if p := fw.Call(func() { werr = config.WriteJson(&buf) }); p != nil {
		fail("panic:write", "WriteJson panics: "+p.Msg+" @ "+p.Frame)
		return
	}
	if werr != nil {
		fail("error:write", "WriteJson: "+werr.Error())
		return
	}
	doc := buf.String()
	w["document"] = clip(doc, 2500)
	cs.Nontrivial(in.Family, in.Variant, doc)
	cs.Sample(map[string]any{"family": in.Family, "variant": in.Variant, "document": clip(doc, 400)})
	config2 := st.ConfigDistribution{}
	if p := fw.Call(func() { werr = config2.ReadJson(bytes.NewReader(buf.Bytes())) }); p != nil {
		fail("panic:read", "ReadJson of the writer's own output panics: "+p.Msg)
		return
	}
	if werr != nil {
		fail("error:read", "ReadJson of the writer's own output: "+werr.Error())
		return
	}
	var dec st.ConfigurableDistribution
	var ierr error
	newZero := func() st.ConfigurableDistribution {
		return reflect.New(reflect.TypeOf(in.Dist).Elem()).Interface().(st.ConfigurableDistribution)
	}
	if p := fw.Call(func() { dec, ierr = distcat.Import(in, config2, t, newZero) }); p != nil {
		fail("panic:import", "importing the writer's own output panics: "+p.Msg+" @ "+p.Frame)
		return
	}
	if ierr != nil {
		fail("error:import", "importing the writer's own output: "+ierr.Error())
		return
	}
	if reflect.TypeOf(dec) != reflect.TypeOf(in.Dist) {
		fail("type", fmt.Sprintf("imported object has type %T, original %T", dec, in.Dist))
		return
	}
	p1, pp := getParams(dec)
	if pp != nil {
		fail("corrupt", "GetParameters of the imported distribution panics: "+pp.Msg+" @ "+pp.Frame)
		return
	}
	if len(p0) != len(p1) {
		fail("params", fmt.Sprintf("parameter vector has length %d, original %d", len(p1), len(p0)))
		return
	}
	for i := range p0 {
		if !sameFloat(p0[i], p1[i], paramTol(in, p0[i])) {
			w["imported_parameters"] = fl(p1)
			fail("params", fmt.Sprintf("parameter %d: %v, original %v (allowed difference %g)", i, p1[i], p0[i], paramTol(in, p0[i])))
			return
		}
	}
	maxTol := 0.0
	for _, p := range p0 {
		if !math.IsInf(p, 0) && !math.IsNaN(p) && paramTol(in, p) > maxTol {
			maxTol = paramTol(in, p)
		}
	}
	for i, pr := range in.Probes {
		var o obs
		if p := fw.Call(func() {
			v, err := distcat.LogPdf(dec, pr, t)
			o.v = v
			if err != nil {
				o.err = "error"
			}
		}); p != nil {
			o.err = "panic"
			if ref[i].err != "panic" {
				fail("logpdf", fmt.Sprintf("LogPdf of the imported distribution panics at probe %d (%s), the original returns %v: %s @ %s", i, safeString(pr), ref[i].v, p.Msg, p.Frame))
				return
			}
		}
		if o.err != ref[i].err {
			fail("logpdf", fmt.Sprintf("LogPdf at probe %d (%s): imported distribution answers %q, original %q", i, safeString(pr), o.err, ref[i].err))
			return
		}
		if o.err != "" {
			continue
		}
		// every step of a sequence adds parameters once; log-sum-exp does not amplify
		tol := 0.0
		if in.Transformed {
			tol = 4*float64(in.ProbeLen+1)*maxTol + kLogPdf*eps*math.Abs(ref[i].v)
		}
		if in.LogPdfTol != nil {
			tol = in.LogPdfTol(p0, pr, ref[i].v)
		}
		if !sameFloat(ref[i].v, o.v, tol) {
			fail("logpdf", fmt.Sprintf("LogPdf at probe %d (%s): imported distribution %v, original %v (allowed difference %g)", i, safeString(pr), o.v, ref[i].v, tol))
			return
		}
		cs.Cover(monitor + ":logpdf-compared")
	}
	// behaviour under subsequent use: a clone of the imported distribution
	// evaluates like a clone of the original
	for i, pr := range in.Probes {
		var a, b obs
		pa := fw.Call(func() {
			c, _ := cloneAny(in.Dist)
			v, err := distcat.LogPdf(c, pr, t)
			a.v = v
			if err != nil {
				a.err = "error"
			}
		})
		pb := fw.Call(func() {
			c, _ := cloneAny(dec)
			v, err := distcat.LogPdf(c, pr, t)
			b.v = v
			if err != nil {
				b.err = "error"
			}
		})
		if (pa != nil) != (pb != nil) || (pa == nil && a.err != b.err) {
			fail("use:Clone.LogPdf", fmt.Sprintf("a clone of the imported distribution behaves differently at probe %d: panic %v / outcome %q, clone of the original: panic %v / outcome %q", i, pb != nil, b.err, pa != nil, a.err))
			return
		}
	}
}

func cloneAny(d any) (any, bool) {
	m := reflect.ValueOf(d).MethodByName("Clone")
	if !m.IsValid() || m.Type().NumIn() != 0 || m.Type().NumOut() != 1 {
		return d, false
	}
	return m.Call(nil)[0].Interface(), true
}
