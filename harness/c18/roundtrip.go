package c18

import (
	"bytes"
	"compress/gzip"
	"encoding/json"
	"fmt"
	"os"
	"path/filepath"
	"reflect"
	"strings"

	ad "github.com/pbenner/autodiff"

	"verifharness/internal/fw"
	"verifharness/internal/gen"
	"verifharness/internal/prng"
	"verifharness/internal/snap"
)

// failure describes a refuted round trip.
type failure struct {
	Kind   string // panic:marshal error:marshal panic:unmarshal error:unmarshal corrupt dims value deriv hess pattern
	Class  string // value / derivative class of the first differing element (oracle computed)
	Detail string
	Doc    string // the serialised form
}

func (f *failure) key() string { return f.Kind + "|" + f.Class }

func clip(s string, n int) string {
	if len(s) > n {
		return s[:n] + "…"
	}
	return s
}

/* scratch directory for table files
 * -------------------------------------------------------------------------- */

func scratchDir(cs *fw.Case) string {
	d := filepath.Join(os.TempDir(), fmt.Sprintf("c18-%d", os.Getpid()), strings.NewReplacer("#", "_", "/", "_").Replace(cs.ID))
	os.MkdirAll(d, 0o755)
	return d
}

func removeScratch(d string) {
	os.RemoveAll(d)
	os.Remove(filepath.Dir(d)) // succeeds only when empty
}

func gzipFile(path string) error {
	b, err := os.ReadFile(path)
	if err != nil {
		return err
	}
	var buf bytes.Buffer
	w := gzip.NewWriter(&buf)
	w.Write(b)
	w.Close()
	return os.WriteFile(path, buf.Bytes(), 0o644)
}

/* decoding targets
 * -------------------------------------------------------------------------- */

func targetVector(t gen.ElemType, storage string, dirty bool, r *prng.Rand) (any, func() ad.Vector) {
	ptr, get := freshVector(t, storage)
	if dirty {
		v := gen.NullVector(t, storage, r.Range(1, 9))
		fillVector(v, t, r, 0.2, true)
		if storage == gen.Dense {
			reflect.ValueOf(ptr).Elem().Set(reflect.ValueOf(v))
		} else {
			return v, func() ad.Vector { return v }
		}
	}
	return ptr, get
}

func targetMatrix(t gen.ElemType, storage string, dirty bool, r *prng.Rand) (any, func() ad.Matrix) {
	if dirty {
		m := gen.NullMatrix(t, storage, r.Range(1, 5), r.Range(1, 5))
		fillMatrix(m, t, r, 0.2, true)
		if r.Bool() {
			if p := fw.Call(func() { m = m.T() }); p != nil {
				m = gen.NullMatrix(t, storage, 2, 3)
			}
		}
		return m, func() ad.Matrix { return m }
	}
	return freshMatrix(t, storage)
}

/* comparison of a source snapshot with a decoded object
 * -------------------------------------------------------------------------- */

func compareVector(s0 snap.Vec, dec ad.ConstVector, t gen.ElemType, o cmpOpts, sparse bool) *failure {
	s1, p := snapVector(dec)
	if p != nil {
		return &failure{Kind: "corrupt", Class: "read-panics", Detail: "reading the decoded vector panics: " + p.Msg}
	}
	if s0.Dim != s1.Dim {
		return &failure{Kind: "dims", Class: "dims", Detail: fmt.Sprintf("dim %d vs %d", s0.Dim, s1.Dim)}
	}
	for i := range s0.E {
		if k, msg := diffElem(s0.E[i], s1.E[i], o); k != "" {
			cl := valueClassOf(s0.E[i], t)
			if k != "value" {
				cl = "deriv:" + derivClassOf(s0.E[i])
			}
			return &failure{Kind: k, Class: cl, Detail: fmt.Sprintf("[%d] %s", i, msg)}
		}
	}
	if sparse {
		idx, ok, p := vectorPattern(dec)
		if p != nil {
			return &failure{Kind: "corrupt", Class: "iterate-panics", Detail: "iterating the decoded vector panics: " + p.Msg}
		}
		var want []int
		for i, e := range s0.E {
			if e.F != 0 || e.I != 0 {
				want = append(want, i)
			}
		}
		if !ok || fmt.Sprint(idx) != fmt.Sprint(want) {
			return &failure{Kind: "pattern", Class: "pattern", Detail: fmt.Sprintf("iterator of the decoded vector visits non-zero positions %v (well-formed %v), source has %v", idx, ok, want)}
		}
	}
	return nil
}

func compareMatrix(s0 snap.Mat, dec ad.ConstMatrix, t gen.ElemType, o cmpOpts, sparse bool) *failure {
	var r1, c1 int
	if p := fw.Call(func() { r1, c1 = dec.Dims() }); p != nil {
		return &failure{Kind: "corrupt", Class: "read-panics", Detail: "Dims() of the decoded matrix panics: " + p.Msg}
	}
	if s0.R != r1 || s0.C != c1 {
		return &failure{Kind: "dims", Class: "dims", Detail: fmt.Sprintf("dims %dx%d vs %dx%d", s0.R, s0.C, r1, c1)}
	}
	s1, p := snapMatrix(dec)
	if p != nil {
		return &failure{Kind: "corrupt", Class: "read-panics", Detail: "reading the decoded matrix panics: " + p.Msg}
	}
	for i := range s0.E {
		if k, msg := diffElem(s0.E[i], s1.E[i], o); k != "" {
			cl := valueClassOf(s0.E[i], t)
			if k != "value" {
				cl = "deriv:" + derivClassOf(s0.E[i])
			}
			return &failure{Kind: k, Class: cl, Detail: fmt.Sprintf("[%d,%d] %s", i/s0.C, i%s0.C, msg)}
		}
	}
	if sparse {
		idx, ok, p := matrixPattern(dec)
		if p != nil {
			return &failure{Kind: "corrupt", Class: "iterate-panics", Detail: "iterating the decoded matrix panics: " + p.Msg}
		}
		want := map[[2]int]bool{}
		for i, e := range s0.E {
			if e.F != 0 || e.I != 0 {
				want[[2]int{i / s0.C, i % s0.C}] = true
			}
		}
		bad := !ok || len(idx) != len(want)
		for _, ij := range idx {
			if !want[ij] {
				bad = true
			}
		}
		if bad {
			return &failure{Kind: "pattern", Class: "pattern", Detail: fmt.Sprintf("iterator of the decoded matrix visits non-zero positions %v (well-formed %v), source has %d non-zero entries", idx, ok, len(want))}
		}
	}
	return nil
}

/* JSON round trips
 * -------------------------------------------------------------------------- */

func marshal(src any) (data []byte, f *failure) {
	var err error
	if p := fw.Call(func() { data, err = json.Marshal(src) }); p != nil {
		return nil, &failure{Kind: "panic:marshal", Class: "any", Detail: "json.Marshal panics: " + p.Msg + " @ " + p.Frame}
	}
	if err != nil {
		return nil, &failure{Kind: "error:marshal", Class: "any", Detail: "json.Marshal: " + err.Error()}
	}
	return data, nil
}

func unmarshal(data []byte, target any) *failure {
	var err error
	if p := fw.Call(func() { err = json.Unmarshal(data, target) }); p != nil {
		return &failure{Kind: "panic:unmarshal", Class: "any", Detail: "json.Unmarshal of the writer's own output panics: " + p.Msg + " @ " + p.Frame, Doc: clip(string(data), 1500)}
	}
	if err != nil {
		return &failure{Kind: "error:unmarshal", Class: "any", Detail: "json.Unmarshal of the writer's own output: " + err.Error(), Doc: clip(string(data), 1500)}
	}
	return nil
}

func rtVectorJSON(src ad.ConstVector, s0 snap.Vec, t gen.ElemType, storage string, dirty bool, o cmpOpts, r *prng.Rand) *failure {
	data, f := marshal(src)
	if f != nil {
		return f
	}
	target, get := targetVector(t, storage, dirty, r)
	if f := unmarshal(data, target); f != nil {
		return f
	}
	f = compareVector(s0, get(), t, o, storage == gen.Sparse)
	if f == nil {
		f = useCheckVector(s0, get(), t, storage, o, r.Uint64())
	}
	if f != nil {
		f.Doc = clip(string(data), 1500)
	}
	return f
}

func rtMatrixJSON(src ad.ConstMatrix, s0 snap.Mat, t gen.ElemType, storage string, dirty bool, o cmpOpts, r *prng.Rand) *failure {
	data, f := marshal(src)
	if f != nil {
		return f
	}
	target, get := targetMatrix(t, storage, dirty, r)
	if f := unmarshal(data, target); f != nil {
		return f
	}
	f = compareMatrix(s0, get(), t, o, storage == gen.Sparse)
	if f == nil {
		f = useCheckMatrix(s0, get(), t, storage, o, r.Uint64())
	}
	if f != nil {
		f.Doc = clip(string(data), 1500)
	}
	return f
}

/* table round trips
 * -------------------------------------------------------------------------- */

func exportImport(src any, target any, path string, gz bool) (doc string, f *failure) {
	var err error
	if p := fw.Call(func() { err = src.(exporter).Export(path) }); p != nil {
		return "", &failure{Kind: "panic:export", Class: "any", Detail: "Export panics: " + p.Msg + " @ " + p.Frame}
	}
	if err != nil {
		return "", &failure{Kind: "error:export", Class: "any", Detail: "Export: " + err.Error()}
	}
	b, _ := os.ReadFile(path)
	doc = clip(string(b), 1500)
	if gz {
		if err := gzipFile(path); err != nil {
			panic(err)
		}
	}
	if p := fw.Call(func() { err = target.(importer).Import(path) }); p != nil {
		return doc, &failure{Kind: "panic:import", Class: "any", Detail: "Import of the writer's own output panics: " + p.Msg + " @ " + p.Frame, Doc: doc}
	}
	if err != nil {
		return doc, &failure{Kind: "error:import", Class: "any", Detail: "Import of the writer's own output: " + err.Error(), Doc: doc}
	}
	return doc, nil
}

func rtVectorTable(src ad.Vector, s0 snap.Vec, t gen.ElemType, storage string, dirty, gz bool, o cmpOpts, r *prng.Rand, dir string) *failure {
	target, get := targetVector(t, storage, dirty, r)
	doc, f := exportImport(src, target, filepath.Join(dir, "v.table"), gz)
	if f != nil {
		return f
	}
	f = compareVector(s0, get(), t, o, storage == gen.Sparse)
	if f == nil {
		f = useCheckVector(s0, get(), t, storage, o, r.Uint64())
	}
	if f != nil {
		f.Doc = doc
	}
	return f
}

func rtMatrixTable(src ad.Matrix, s0 snap.Mat, t gen.ElemType, storage string, dirty, gz bool, o cmpOpts, r *prng.Rand, dir string) *failure {
	target, get := targetMatrix(t, storage, dirty, r)
	doc, f := exportImport(src, target, filepath.Join(dir, "m.table"), gz)
	if f != nil {
		return f
	}
	f = compareMatrix(s0, get(), t, o, storage == gen.Sparse)
	if f == nil {
		f = useCheckMatrix(s0, get(), t, storage, o, r.Uint64())
	}
	if f != nil {
		f.Doc = doc
	}
	return f
}

/* compact copies (canonical configuration used to decide whether a failure
 * depends on the view / target state)
 * -------------------------------------------------------------------------- */

func setFromElem(s ad.Scalar, t gen.ElemType, e snap.Elem) {
	if t.IsInt {
		s.SetInt64(e.I)
		return
	}
	s.SetFloat64(e.F)
	if m, ok := s.(ad.MagicScalar); ok && e.Order > 0 && e.N > 0 {
		m.Alloc(e.N, e.Order)
		for i := 0; i < e.N; i++ {
			m.SetDerivative(i, e.D[i])
		}
		if e.Order >= 2 {
			for i := 0; i < e.N; i++ {
				for j := 0; j < e.N; j++ {
					m.SetHessian(i, j, e.H[i*e.N+j])
				}
			}
		}
	}
}

func isNull(e snap.Elem) bool {
	if e.F != 0 || e.I != 0 {
		return false
	}
	for _, x := range e.D {
		if x != 0 {
			return false
		}
	}
	for _, x := range e.H {
		if x != 0 {
			return false
		}
	}
	return true
}

func compactVector(s0 snap.Vec, t gen.ElemType, storage string) ad.Vector {
	v := gen.NullVector(t, storage, s0.Dim)
	for i, e := range s0.E {
		if storage == gen.Sparse && isNull(e) {
			continue
		}
		setFromElem(v.At(i), t, e)
	}
	return v
}

func compactMatrix(s0 snap.Mat, t gen.ElemType, storage string) ad.Matrix {
	m := gen.NullMatrix(t, storage, s0.R, s0.C)
	for i, e := range s0.E {
		if storage == gen.Sparse && isNull(e) {
			continue
		}
		setFromElem(m.At(i/s0.C, i%s0.C), t, e)
	}
	return m
}
