package c18

import (
	"os"

	"verifharness/internal/fw"
)

// Run executes the C18 monitors.
func Run(c *fw.Ctx) {
	child := os.Getenv(childEnv) != ""
	c.Cases("json.scalar-const", c.N(154, 7*14*8), constScalarCase)
	if child {
		return
	}
	c.Cases("json.scalar", c.N(7200, 72000), scalarCase)
	c.Cases("json.vector", c.N(12096, 120960), func(cs *fw.Case) { vectorCase(cs, "json.vector", false) })
	c.Cases("json.matrix", c.N(12960, 129600), func(cs *fw.Case) { matrixCase(cs, "json.matrix", false) })
	c.Cases("table.vector", c.N(9216, 92160), func(cs *fw.Case) { vectorCase(cs, "table.vector", true) })
	c.Cases("table.matrix", c.N(10368, 103680), func(cs *fw.Case) { matrixCase(cs, "table.matrix", true) })
	c.Cases("table.variants", c.N(7128, 71280), tableVariantCase)
	c.Cases("table.history", c.N(4320, 43200), tableHistoryCase)
	c.Cases("config.dist", c.N(8400, 84000), configCase)
	c.Cases("config.history", c.N(2400, 24000), configHistoryCase)
	c.Cases("malformed.json", c.N(50400, 504000), malformedJSONCase)
	c.Cases("malformed.table", c.N(30240, 302400), malformedTableCase)
	c.Cases("malformed.config", c.N(17472, 174720), malformedConfigCase)
	if c.Thorough() {
		c.Cases("malformed.bytes", 900000, randomBytesCase)
	}
}
