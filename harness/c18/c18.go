package c18

import (
	"os"

	"verifharness/internal/fw"
)

// Run executes the C18 monitors.
func Run(c *fw.Ctx) {
	child := os.Getenv(childEnv) != ""
	c.Cases("json.scalar-const", c.N(77, 7*11*4), constScalarCase)
	if child {
		return
	}
	c.Cases("json.scalar", c.N(2400, 60000), scalarCase)
	c.Cases("json.vector", c.N(4000, 120000), func(cs *fw.Case) { vectorCase(cs, "json.vector", false) })
	c.Cases("json.matrix", c.N(4000, 120000), func(cs *fw.Case) { matrixCase(cs, "json.matrix", false) })
	c.Cases("table.vector", c.N(3000, 80000), func(cs *fw.Case) { vectorCase(cs, "table.vector", true) })
	c.Cases("table.matrix", c.N(3000, 80000), func(cs *fw.Case) { matrixCase(cs, "table.matrix", true) })
	c.Cases("config.dist", c.N(2100, 60000), configCase)
	c.Cases("malformed.json", c.N(12600, 400000), malformedJSONCase)
	c.Cases("malformed.table", c.N(7200, 200000), malformedTableCase)
	if c.Thorough() {
		c.Cases("malformed.bytes", 300000, randomBytesCase)
	}
}
