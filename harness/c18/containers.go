package c18

import (
	"fmt"
	"reflect"

	ad "github.com/pbenner/autodiff"

	"verifharness/internal/fw"
	"verifharness/internal/gen"
	"verifharness/internal/prng"
	"verifharness/internal/snap"
)

/* views
 * -------------------------------------------------------------------------- */

var vectorViews = []string{"full", "slice", "slice.slice", "matrix.row", "matrix.col", "matrix.diag", "matrixview.row", "appended"}
var matrixViews = []string{"full", "slice", "T", "slice.T", "T.slice", "slice.slice", "T.T", "slice.T.slice", "vector.AsMatrix"}

func subrange(n int, r *prng.Rand) (int, int) {
	if n == 0 {
		return 0, 0
	}
	i := r.Intn(n + 1)
	j := r.Range(i, n)
	return i, j
}

// properSlice draws a sub-range that is a genuine restriction when possible.
func properSlice(n int, r *prng.Rand) (int, int) {
	if n <= 1 {
		return 0, n
	}
	for {
		i, j := subrange(n, r)
		if j-i < n && j > i {
			return i, j
		}
	}
}

func sliceMatrix(m ad.Matrix, r *prng.Rand) ad.Matrix {
	rows, cols := m.Dims()
	i0, i1 := properSlice(rows, r)
	j0, j1 := properSlice(cols, r)
	return m.Slice(i0, i1, j0, j1)
}

func buildVectorView(t gen.ElemType, storage, view string, r *prng.Rand, derivs bool) (v ad.Vector, p *fw.Panic) {
	pz := 0.3
	if storage == gen.Sparse {
		pz = 0.6
	}
	p = fw.Call(func() {
		switch view {
		case "full":
			v = gen.NullVector(t, storage, r.Range(0, 12))
			fillVector(v, t, r, pz, derivs)
		case "slice":
			b := gen.NullVector(t, storage, r.Range(2, 14))
			fillVector(b, t, r, pz, derivs)
			i, j := properSlice(b.Dim(), r)
			v = b.Slice(i, j)
		case "slice.slice":
			b := gen.NullVector(t, storage, r.Range(4, 16))
			fillVector(b, t, r, pz, derivs)
			i, j := properSlice(b.Dim(), r)
			v = b.Slice(i, j)
			i, j = subrange(v.Dim(), r)
			v = v.Slice(i, j)
		case "matrix.row", "matrix.col", "matrix.diag", "matrixview.row":
			n := r.Range(1, 6)
			mm := r.Range(1, 6)
			if view == "matrix.diag" {
				mm = n
			}
			m := gen.NullMatrix(t, storage, n, mm)
			fillMatrix(m, t, r, pz, derivs)
			switch view {
			case "matrix.row":
				v = m.Row(r.Intn(n))
			case "matrix.col":
				v = m.Col(r.Intn(mm))
			case "matrix.diag":
				v = m.Diag()
			default:
				w := m.T()
				if r.Bool() {
					w = sliceMatrix(w, r)
				}
				rows, _ := w.Dims()
				if rows == 0 {
					v = gen.NullVector(t, storage, 0)
				} else {
					v = w.Row(r.Intn(rows))
				}
			}
		case "appended":
			a := gen.NullVector(t, storage, r.Range(0, 6))
			b := gen.NullVector(t, storage, r.Range(0, 6))
			fillVector(a, t, r, pz, derivs)
			fillVector(b, t, r, pz, derivs)
			v = a.AppendVector(b)
		default:
			panic("view " + view)
		}
	})
	return
}

func buildMatrixView(t gen.ElemType, storage, view string, r *prng.Rand, derivs bool, minDim int) (m ad.Matrix, p *fw.Panic) {
	pz := 0.3
	if storage == gen.Sparse {
		pz = 0.6
	}
	p = fw.Call(func() {
		rows, cols := r.Range(minDim, 6), r.Range(minDim, 6)
		if view != "full" && view != "T" && view != "T.T" && view != "vector.AsMatrix" {
			rows, cols = r.Range(2, 7), r.Range(2, 7)
		}
		if view == "vector.AsMatrix" {
			v := gen.NullVector(t, storage, rows*cols)
			fillVector(v, t, r, pz, derivs)
			m = v.AsMatrix(rows, cols)
			return
		}
		b := gen.NullMatrix(t, storage, rows, cols)
		fillMatrix(b, t, r, pz, derivs)
		switch view {
		case "full":
			m = b
		case "slice":
			m = sliceMatrix(b, r)
		case "T":
			m = b.T()
		case "slice.T":
			m = sliceMatrix(b, r).T()
		case "T.slice":
			m = sliceMatrix(b.T(), r)
		case "slice.slice":
			m = sliceMatrix(b, r)
			r0, c0 := m.Dims()
			i0, i1 := subrange(r0, r)
			j0, j1 := subrange(c0, r)
			if minDim > 0 && (i1 == i0 || j1 == j0) {
				i0, i1, j0, j1 = 0, r0, 0, c0
			}
			m = m.Slice(i0, i1, j0, j1)
		case "T.T":
			m = b.T().T()
		case "slice.T.slice":
			m = sliceMatrix(b, r).T()
			r0, c0 := m.Dims()
			i0, i1 := subrange(r0, r)
			j0, j1 := subrange(c0, r)
			if minDim > 0 && (i1 == i0 || j1 == j0) {
				i0, i1, j0, j1 = 0, r0, 0, c0
			}
			m = m.Slice(i0, i1, j0, j1)
		default:
			panic("view " + view)
		}
	})
	return
}

/* monitors
 * -------------------------------------------------------------------------- */

var vecStorages = []string{gen.Dense, gen.Sparse, "sparse-const"}

func nontrivialVec(s snap.Vec) (nz int, hasDeriv bool) {
	for _, e := range s.E {
		if e.F != 0 || e.I != 0 {
			nz++
		}
		if c := derivClassOf(e); c != "none" && c != "alloc-zero" {
			hasDeriv = true
		}
	}
	return
}

// view categories that go into signatures (the exact view is in the witness)
var vectorViewCat = map[string]string{"full": "compact", "slice": "sliced", "slice.slice": "sliced", "matrix.row": "from-matrix", "matrix.col": "from-matrix",
	"matrix.diag": "from-matrix", "matrixview.row": "from-matrix", "appended": "appended"}
var matrixViewCat = map[string]string{"full": "compact", "slice": "sliced", "T": "transposed", "slice.T": "sliced+transposed", "T.slice": "sliced+transposed",
	"slice.slice": "sliced", "T.T": "transposed", "slice.T.slice": "sliced+transposed", "vector.AsMatrix": "from-vector"}

// matrixViewCatOf classifies a matrix by its header fields (read by
// reflection): compact | sliced | transposed | sliced+transposed.  Sparse
// matrices have no transposed flag (T() returns a re-indexed copy).
func matrixViewCatOf(m ad.Matrix, view string) string {
	if view == "vector.AsMatrix" {
		return "from-vector"
	}
	v := reflect.ValueOf(m)
	for v.Kind() == reflect.Ptr {
		v = v.Elem()
	}
	if v.Kind() != reflect.Struct {
		return matrixViewCat[view]
	}
	get := func(name string) (int64, bool) {
		f := v.FieldByName(name)
		if !f.IsValid() {
			return 0, false
		}
		if f.Kind() == reflect.Bool {
			if f.Bool() {
				return 1, true
			}
			return 0, true
		}
		return f.Int(), true
	}
	rows, ok1 := get("rows")
	cols, ok2 := get("cols")
	rowMax, ok3 := get("rowMax")
	colMax, ok4 := get("colMax")
	if !(ok1 && ok2 && ok3 && ok4) {
		return matrixViewCat[view]
	}
	tr, _ := get("transposed")
	sliced := rows != rowMax || cols != colMax
	switch {
	case sliced && tr == 1:
		return "sliced+transposed"
	case sliced:
		return "sliced"
	case tr == 1:
		return "transposed"
	}
	return "compact"
}

func configName(viewCat string, dirty, gz bool) string {
	s := "view:" + viewCat + ",target:" + map[bool]string{false: "fresh", true: "dirty"}[dirty]
	if gz {
		s += ",gzip"
	}
	return s
}

// minimise finds the smallest configuration (view / target state /
// compression) that reproduces the failure f, so that one root cause maps to
// one signature cell; f.Class is set to "any" when the cell is not the
// canonical one (the configuration, not the element value, is then the input
// class).
func minimise(f *failure, viewCat string, isView, dirty, gz bool, try func(useView, dirty, gz bool) *failure) string {
	same := func(g *failure) bool { return g != nil && g.key() == f.key() }
	if !isView && !dirty && !gz {
		return "any"
	}
	if same(try(false, false, false)) {
		return "any"
	}
	var config string
	switch {
	case isView && same(try(true, false, false)):
		config = "view:" + viewCat
	case dirty && same(try(false, true, false)):
		config = "target:dirty"
	case gz && same(try(false, false, true)):
		config = "gzip"
	default:
		config = configName(viewCat, dirty, gz)
	}
	if f.Kind == "value" || f.Kind == "pattern" {
		f.Class = "any"
	}
	return config
}

func report(cs *fw.Case, monitor, typ, config string, f *failure, witness map[string]any) {
	witness["kind"] = f.Kind
	witness["document"] = f.Doc
	cs.Violation(sig(monitor, typ, config, f.Class, f.Kind), f.Detail, witness)
}

func vectorCase(cs *fw.Case, monitor string, table bool) {
	r := cs.R
	i := cs.Index
	t := gen.Types[i%9]
	kind := vecStorages[(i/9)%3]
	if table {
		kind = vecStorages[(i/9)%2]
	}
	nv := len(vectorViews)
	view := vectorViews[(i/27)%nv]
	dirty := (i/(27*nv))%2 == 1
	gz := (i/(27*nv*2))%2 == 1
	storage := kind
	if kind == "sparse-const" {
		storage = gen.Sparse
		if t.IsReal {
			t = gen.Types[5+i%2] // no const real vectors: use the float types instead
		}
	}
	o := cmpOpts{isInt: t.IsInt, bitExact: storage == gen.Dense, derivs: !table && storage == gen.Dense}
	v, p := buildVectorView(t, storage, view, r, !table)
	if p != nil {
		cs.Skip("view-construction-panics")
		cs.Cover(monitor + ":view-construction-panics:" + storage + "/" + view)
		return
	}
	var src ad.ConstVector = v
	if kind == "sparse-const" {
		if p := fw.Call(func() { src = sparseConstCtor[t.Name](v) }); p != nil {
			cs.Skip("view-construction-panics")
			return
		}
	}
	typ := typeName(src)
	s0, p := snapVector(src)
	if kind == "sparse-const" {
		s0, p = snapConstVector(src, t)
	}
	if p != nil {
		cs.Skip("source-read-panics")
		return
	}
	var dir string
	if table {
		dir = scratchDir(cs)
		defer removeScratch(dir)
	} else {
		gz = false
	}
	// try runs the round trip from the view (or from a compact copy with the
	// same observable content) into a fresh or dirty target
	try := func(useView, dirty, gz bool) (f *failure) {
		if p := fw.Call(func() {
			v, src := v, src
			if !useView {
				v = compactVector(s0, t, storage)
				src = v
				if kind == "sparse-const" {
					src = sparseConstCtor[t.Name](v)
				}
			}
			if table {
				f = rtVectorTable(v, s0, t, storage, dirty, gz, o, r, dir)
			} else {
				f = rtVectorJSON(src, s0, t, storage, dirty, o, r)
			}
		}); p != nil {
			f = &failure{Kind: "monitor-panic", Class: "any", Detail: p.Msg + " @ " + p.Frame}
		}
		return
	}
	f := try(true, dirty, gz)
	config := configName(vectorViewCat[view], dirty, gz)
	cs.Cover(monitor + ":" + typ)
	cs.Cover(monitor + ":view:" + view)
	cs.Cover("set:" + monitor + "-cells:" + typ + "/" + view + "/" + config)
	for _, e := range s0.E {
		cs.Cover(monitor + ":elem:" + valueClassOf(e, t))
		if t.IsReal && !table && storage == gen.Dense {
			cs.Cover(monitor + ":deriv:" + derivClassOf(e))
		}
	}
	nz, hd := nontrivialVec(s0)
	if nz > 0 {
		cs.Nontrivial(typ, view, config, fmt.Sprint(s0.Values()), hd)
	}
	cs.Sample(map[string]any{"type": typ, "view": view, "config": config, "values": s0.Values()})
	if f == nil {
		return
	}
	config = minimise(f, vectorViewCat[view], view != "full", dirty, gz, try)
	report(cs, monitor, typ, config, f, map[string]any{"type": typ, "view": view, "dirty_target": dirty, "gzip": gz, "source_values": s0.Values(), "source": safeString(src)})
}

func nontrivialMat(s snap.Mat) (nz int, hasDeriv bool) {
	return nontrivialVec(snap.Vec{Dim: len(s.E), E: s.E})
}

func matrixCase(cs *fw.Case, monitor string, table bool) {
	r := cs.R
	i := cs.Index
	t := gen.Types[i%9]
	storage := storages[(i/9)%2]
	nv := len(matrixViews)
	view := matrixViews[(i/18)%nv]
	dirty := (i/(18*nv))%2 == 1
	gz := (i/(18*nv*2))%2 == 1
	o := cmpOpts{isInt: t.IsInt, bitExact: storage == gen.Dense, derivs: !table && storage == gen.Dense}
	minDim := 0
	if table {
		minDim = 1 // a whitespace table cannot carry the shape of an r x 0 matrix (notes/c18.md)
	}
	m, p := buildMatrixView(t, storage, view, r, !table, minDim)
	if p != nil {
		cs.Skip("view-construction-panics")
		cs.Cover(monitor + ":view-construction-panics:" + storage + "/" + view)
		return
	}
	if rows, cols := m.Dims(); table && (rows == 0 || cols == 0) {
		cs.Skip("empty-shape")
		return
	}
	typ := typeName(m)
	s0, p := snapMatrix(m)
	if p != nil {
		cs.Skip("source-read-panics")
		return
	}
	var dir string
	if table {
		dir = scratchDir(cs)
		defer removeScratch(dir)
	} else {
		gz = false
	}
	try := func(useView, dirty, gz bool) (f *failure) {
		if p := fw.Call(func() {
			m := m
			if !useView {
				m = compactMatrix(s0, t, storage)
			}
			if table {
				f = rtMatrixTable(m, s0, t, storage, dirty, gz, o, r, dir)
			} else {
				f = rtMatrixJSON(m, s0, t, storage, dirty, o, r)
			}
		}); p != nil {
			f = &failure{Kind: "monitor-panic", Class: "any", Detail: p.Msg + " @ " + p.Frame}
		}
		return
	}
	f := try(true, dirty, gz)
	viewCat := matrixViewCatOf(m, view)
	config := configName(viewCat, dirty, gz)
	cs.Cover(monitor + ":" + typ)
	cs.Cover(monitor + ":view:" + view)
	cs.Cover("set:" + monitor + "-cells:" + typ + "/" + view + "/" + config)
	for _, e := range s0.E {
		cs.Cover(monitor + ":elem:" + valueClassOf(e, t))
		if t.IsReal && !table && storage == gen.Dense {
			cs.Cover(monitor + ":deriv:" + derivClassOf(e))
		}
	}
	nz, hd := nontrivialMat(s0)
	if nz > 0 {
		cs.Nontrivial(typ, view, config, s0.R, s0.C, fmt.Sprint(s0.Values()), hd)
	}
	cs.Sample(map[string]any{"type": typ, "view": view, "config": config, "rows": s0.R, "cols": s0.C, "values": s0.Values()})
	if f == nil {
		return
	}
	config = minimise(f, viewCat, view != "full", dirty, gz, try)
	report(cs, monitor, typ, config, f, map[string]any{"type": typ, "view": view, "dirty_target": dirty, "gzip": gz, "rows": s0.R, "cols": s0.C, "source_values": s0.Values()})
}
